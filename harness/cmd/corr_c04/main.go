// corr_c04: correspondence + property oracle for C04 (sliding-window replay filter).
//
// Engine "swf": the exported ss2022.SlidingWindowFilter API against the Lean model
// (SSV.Model.SWF through the ssv_c04 driver) on generated operation sequences, and against
// the property oracle written from the statement ("delivered set + newest").
package main

import (
	"fmt"
	"os"
	"strconv"
	"strings"
	"testing"

	"ssvharness/internal/common"

	"github.com/database64128/shadowsocks-go/ss2022"
)

type Op struct {
	Op string `json:"op"` // add | check (IsOk, then MustAdd if ok) | isok | reset
	C  uint64 `json:"c"`
}

type Case struct {
	Size uint64 `json:"size"`
	Ops  []Op   `json:"ops"`
}

func (c Case) lines() []string {
	ls := []string{"new " + strconv.FormatUint(c.Size, 10)}
	for _, o := range c.Ops {
		switch o.Op {
		case "add":
			ls = append(ls, "add "+strconv.FormatUint(o.C, 10))
		case "check":
			ls = append(ls, "check "+strconv.FormatUint(o.C, 10))
		case "isok":
			ls = append(ls, "isok "+strconv.FormatUint(o.C, 10))
		case "reset":
			ls = append(ls, "reset")
		}
	}
	return ls
}

// runImpl executes the case on the real filter and returns one output line per input line.
func runImpl(c Case) (out []string, panicked any) {
	panicked = common.Safely(func() {
		f := ss2022.NewSlidingWindowFilter(c.Size)
		out = append(out, "ok")
		for _, o := range c.Ops {
			switch o.Op {
			case "add":
				out = append(out, b2s(f.Add(o.C)))
			case "check":
				ok := f.IsOk(o.C)
				if ok {
					f.MustAdd(o.C)
				}
				out = append(out, b2s(ok))
			case "isok":
				out = append(out, b2s(f.IsOk(o.C)))
			case "reset":
				f.Reset()
				out = append(out, "ok")
			}
		}
	})
	return
}

func b2s(b bool) string {
	if b {
		return "1"
	}
	return "0"
}

// oracle: the property statement, evaluated on the implementation's verdicts.
// delivered-at-most-once; a not-yet-delivered id that is newer than, or fewer than `size`
// behind, the newest delivered one must be accepted. (`reset` starts a new session.)
func oracle(c Case, verdicts []string) (string, string) {
	delivered := map[uint64]bool{}
	var newest uint64
	have := false
	for i, o := range c.Ops {
		v := verdicts[i+1]
		switch o.Op {
		case "add", "check", "isok":
			acc := v == "1"
			if acc && delivered[o.C] {
				return "double-delivery", fmt.Sprintf("op %d: id %d accepted a second time", i, o.C)
			}
			fresh := !delivered[o.C] && (!have || o.C > newest || newest-o.C < c.Size)
			if fresh && !acc {
				return "fresh-refused", fmt.Sprintf("op %d: fresh id %d refused (newest %d, size %d)", i, o.C, newest, c.Size)
			}
			if acc && o.Op != "isok" {
				delivered[o.C] = true
				if !have || o.C > newest {
					newest, have = o.C, true
				}
			}
		case "reset":
			delivered = map[uint64]bool{}
			have = false
		}
	}
	return "", ""
}

var sizes = []uint64{1, 2, 63, 64, 65, 128, 256, 1000}

// alphabet returns boundary ids for a window size: around 0, block edges, ring wrap,
// window edge relative to a base, and 2^64-1.
func alphabet(size uint64, r *common.Rng) []uint64 {
	ring := uint64(64)
	for ring < size+64 {
		ring <<= 1
	}
	bases := []uint64{0, 64, ring, 2 * ring, 1 << 32, ^uint64(0) - 2*ring, ^uint64(0)}
	base := common.Pick(r, bases)
	var a []uint64
	add := func(x uint64, ok bool) {
		if ok {
			a = append(a, x)
		}
	}
	for _, d := range []uint64{0, 1, 2, 62, 63, 64, 65, size - 1, size, size + 1, ring - 1, ring, ring + 1, ring + 64, 2*ring - 1, 2 * ring} {
		add(base+d, base+d >= base)
		add(base-d, base >= d)
	}
	return a
}

func genCase(r *common.Rng, maxOps int) Case {
	size := common.Pick(r, sizes)
	if r.Chance(1, 10) {
		size = uint64(r.Range(1, 1100))
	}
	al := alphabet(size, r)
	n := r.Range(1, maxOps)
	c := Case{Size: size}
	cur := common.Pick(r, al)
	for i := 0; i < n; i++ {
		var id uint64
		switch r.Intn(6) {
		case 0, 1:
			id = common.Pick(r, al)
		case 2: // near the previous id
			id = cur + uint64(r.Range(0, 130)) - 65
		case 3: // window edge behind the previous id
			id = cur - size + uint64(r.Range(0, 2)) - 1
		case 4: // a replay of an earlier op
			if len(c.Ops) > 0 {
				id = c.Ops[r.Intn(len(c.Ops))].C
			} else {
				id = cur
			}
		default:
			id = cur + uint64(r.Range(1, int(2*size+130)))
		}
		if r.Chance(1, 25) { // far jumps: block distances around 2^31 / 2^32 / 2^57 (int conversions of blockIndex differences)
			id = cur + common.Pick(r, []uint64{1 << 37, 1<<37 + 64, 1 << 38, 1<<38 - 64, 1 << 62, 1 << 63, 1<<63 + 64, (1 << 31) * 64 * 3})
		}
		op := "add"
		switch r.Intn(10) {
		case 0, 1, 2:
			op = "check"
		case 3:
			op = "isok"
		case 4:
			if r.Chance(1, 8) {
				op = "reset"
			}
		}
		c.Ops = append(c.Ops, Op{Op: op, C: id})
		if op != "isok" && op != "reset" && id > cur {
			cur = id
		}
	}
	return c
}

func sig(c Case) string {
	var sb strings.Builder
	sb.WriteString(strconv.FormatUint(c.Size, 10))
	for _, o := range c.Ops {
		sb.WriteByte(' ')
		sb.WriteString(o.Op[:1])
		sb.WriteString(strconv.FormatUint(o.C, 36))
	}
	return sb.String()
}

func sizeBucket(size uint64) string {
	switch {
	case size <= 2:
		return "size=1..2"
	case size >= 63 && size <= 65:
		return "size=63..65"
	case size == 128 || size == 256:
		return "size=128|256"
	case size == 1000:
		return "size=1000"
	}
	return "size=other"
}

// judge runs one case on implementation + oracle and compares with the model's answer lines.
func judge(c Case, mo []string) (impl []string, pan any, diverged bool, key, detail string) {
	impl, pan = runImpl(c)
	if pan != nil {
		return impl, pan, true, "panic", fmt.Sprint(pan)
	}
	if mo != nil {
		mo0 := append([]string{"ok"}, mo[1:]...) // the driver answers "ok <blocks>" to new
		diverged = strings.Join(impl, ",") != strings.Join(mo0, ",")
	}
	key, detail = oracle(c, impl)
	return
}

// shrinkCase delta-debugs the op sequence while the same failure (oracle key, or divergence) persists.
func shrinkCase(c Case, o *common.Options, wantKey string, wantDiv bool) Case {
	idx := make([]int, len(c.Ops))
	for i := range idx {
		idx[i] = i
	}
	mk := func(keep []int) Case {
		c2 := Case{Size: c.Size}
		for _, i := range keep {
			c2.Ops = append(c2.Ops, c.Ops[i])
		}
		return c2
	}
	bad := func(keep []int) bool {
		c2 := mk(keep)
		var mo []string
		if o.Driver != "" {
			var err error
			if mo, err = common.RunDriverOnce(o.Driver, c2.lines()); err != nil {
				return false
			}
		}
		_, _, div, key, _ := judge(c2, mo)
		if wantKey != "" {
			return key == wantKey
		}
		return wantDiv && div
	}
	return mk(ddmin(idx, bad))
}

// modelOf runs the driver on a batch of cases (nil without a driver).
func modelOf(cases []Case, o *common.Options) ([]string, error) {
	if o.Driver == "" {
		return nil, nil
	}
	var lines []string
	for _, c := range cases {
		lines = append(lines, c.lines()...)
	}
	return common.RunDriverOnce(o.Driver, lines)
}

func evalCases(cases []Case, o *common.Options, rep *common.Report) error {
	model, err := modelOf(cases, o)
	if err != nil {
		return err
	}
	return consume(cases, model, o, rep)
}

// consume judges a batch against the model's answers.
func consume(cases []Case, model []string, o *common.Options, rep *common.Report) error {
	pos := 0
	for _, c := range cases {
		n := len(c.Ops) + 1
		var mo []string
		if model != nil {
			mo = model[pos : pos+n]
		}
		pos += n
		impl, pan, diverged, key, detail := judge(c, mo)
		acc, rej := 0, 0
		for _, v := range impl {
			if v == "1" {
				acc++
			} else if v == "0" {
				rej++
			}
		}
		rep.Case(sig(c), acc > 0 && rej > 0)
		rep.Count("swf:" + sizeBucket(c.Size))
		rep.Count(fmt.Sprintf("swf:ops<=%d", (len(c.Ops)+9)/10*10))
		if rep.Distribution["swf:samples"] < 3 {
			rep.Count("swf:samples")
			rep.Sample(map[string]any{"engine": "swf", "case": c, "verdicts": strings.Join(impl, "")})
		}
		shrinkBudget := rep.Distribution["swf:shrunk"] < 5
		if pan != nil {
			if shrinkBudget {
				rep.Count("swf:shrunk")
				c = shrinkCase(c, o, "panic", false)
				_, pan = runImpl(c)
			}
			rep.Fail(common.OracleFailure{Engine: "swf", Key: "panic", Case: c, Detail: fmt.Sprint(pan)})
			rep.Diverge(common.Divergence{Engine: "swf", Case: c, Impl: "panic: " + fmt.Sprint(pan), Model: strings.Join(mo, "")})
			continue
		}
		if key != "" {
			if shrinkBudget {
				rep.Count("swf:shrunk")
				c = shrinkCase(c, o, key, false)
				var mo2 []string
				if o.Driver != "" {
					mo2, _ = common.RunDriverOnce(o.Driver, c.lines())
				}
				impl, _, diverged, key, detail = judge(c, mo2)
				mo = mo2
			}
			rep.Fail(common.OracleFailure{Engine: "swf", Key: key, Case: c, Detail: detail})
		}
		if diverged {
			if key == "" && shrinkBudget {
				rep.Count("swf:shrunk")
				c = shrinkCase(c, o, "", true)
				mo, _ = common.RunDriverOnce(o.Driver, c.lines())
				impl, _, _, _, _ = judge(c, mo)
			}
			mo0 := append([]string{"ok"}, mo[1:]...)
			rep.Diverge(common.Divergence{Engine: "swf", Case: c, Impl: strings.Join(impl, ""), Model: strings.Join(mo0, "")})
		}
		rep.TracesValidated++
	}
	return nil
}

// probeExcludedSizes runs the real filter at a few window sizes the theorems exclude (size+63 >= 2^63) that are
// safe to allocate, compares with the model (which keeps the wrap explicit) and records the outcome as notes.
// Whether such sizes may be configured at all is finding F15, decided under C18.
func probeExcludedSizes(o *common.Options, rep *common.Report) {
	for _, size := range []uint64{^uint64(0), ^uint64(0) - 62, ^uint64(0) - 63} {
		c := Case{Size: size, Ops: []Op{{"add", 5}, {"add", 1000}, {"add", 5}, {"add", 1000}, {"add", 70}, {"add", 6}}}
		impl, pan := runImpl(c)
		var model string
		if o.Driver != "" {
			if mo, err := common.RunDriverOnce(o.Driver, c.lines()); err == nil {
				model = strings.Join(mo, " ")
			}
		}
		k, d := "", ""
		if pan == nil {
			k, d = oracle(c, impl)
		}
		rep.Note("excluded size %d (size+63 >= 2^63, outside SizeOk): impl verdicts=%v panic=%v; model=%q; statement oracle: %q %s", size, impl, pan, model, k, d)
		rep.Count("swf:excluded-size-probe")
	}
}

// exhaustive: all sequences of `add` of the given depth over a boundary alphabet, handed to f in chunks.
func exhaustive(size uint64, al []uint64, depth int, withReset bool, f func([]Case) error) error {
	var res []Case
	idx := make([]int, depth)
	nLetters := len(al)
	if withReset {
		nLetters++ // the extra letter is the `reset` operation
	}
	for {
		c := Case{Size: size}
		for _, i := range idx {
			if i == len(al) {
				c.Ops = append(c.Ops, Op{Op: "reset"})
			} else {
				c.Ops = append(c.Ops, Op{Op: "add", C: al[i]})
			}
		}
		res = append(res, c)
		if len(res) == 20000 {
			if err := f(res); err != nil {
				return err
			}
			res = res[:0]
		}
		k := depth - 1
		for k >= 0 {
			idx[k]++
			if idx[k] < nLetters {
				break
			}
			idx[k] = 0
			k--
		}
		if k < 0 {
			if len(res) > 0 {
				return f(res)
			}
			return nil
		}
	}
}

// exhaustivePar: the chunks of one exhaustive enumeration go through a small worker pool (driver run + judging);
// only the accounting is sequential. Exhaustive sequences are pairwise distinct by construction, so their
// distinct count is accumulated in exhDistinct (added to the report at the end) instead of storing millions of
// signatures; a sequence that a random case already produced (randomSigs) is not counted again. Any case that
// fails goes through the ordinary path (shrinking, reporting).
var (
	exhDistinct int
	randomSigs  = map[string]bool{}
)

func exhaustivePar(size uint64, al []uint64, depth int, withReset bool, o *common.Options, rep *common.Report) error {
	type verdict struct {
		nontrivial, bad bool
	}
	type job struct {
		cases []Case
		v     []verdict
		err   error
		done  chan struct{}
	}
	sem := make(chan struct{}, 8)
	var jobs []*job
	err := exhaustive(size, al, depth, withReset, func(cs []Case) error {
		j := &job{cases: append([]Case(nil), cs...), done: make(chan struct{})}
		jobs = append(jobs, j)
		sem <- struct{}{}
		go func() {
			defer func() { <-sem; close(j.done) }()
			model, err := modelOf(j.cases, o)
			if err != nil {
				j.err = err
				return
			}
			j.v = make([]verdict, len(j.cases))
			pos := 0
			for i, c := range j.cases {
				n := len(c.Ops) + 1
				var mo []string
				if model != nil {
					mo = model[pos : pos+n]
				}
				pos += n
				impl, pan, div, key, _ := judge(c, mo)
				acc, rej := 0, 0
				for _, x := range impl {
					if x == "1" {
						acc++
					} else if x == "0" {
						rej++
					}
				}
				j.v[i] = verdict{nontrivial: acc > 0 && rej > 0, bad: pan != nil || div || key != ""}
			}
		}()
		return nil
	})
	if err != nil {
		return err
	}
	bucket := "swf:" + sizeBucket(size)
	opsKey := fmt.Sprintf("swf:ops<=%d", (depth+9)/10*10)
	for _, j := range jobs {
		<-j.done
		if j.err != nil {
			return j.err
		}
		for i, c := range j.cases {
			if j.v[i].bad {
				if err := evalCases([]Case{c}, o, rep); err != nil {
					return err
				}
				continue
			}
			rep.Evaluations++
			rep.TracesValidated++
			rep.Distribution[bucket]++
			rep.Distribution[opsKey]++
			if withReset {
				rep.Distribution["swf:exhaustive-with-reset"]++
			} else {
				rep.Distribution["swf:exhaustive"]++
			}
			if j.v[i].nontrivial && !randomSigs[sig(c)] {
				exhDistinct++
			}
		}
		j.cases, j.v = nil, nil
	}
	return nil
}

func main() {
	o := common.ParseFlags()
	// the udpsess engine needs testing/synctest's fake clock, which needs a *testing.T: run everything inside one
	// in-process test (testing.Main never returns; realMain exits the process itself).
	testing.Main(func(pat, str string) (bool, error) { return true, nil },
		[]testing.InternalTest{{Name: "corr_c04", F: func(t *testing.T) { os.Exit(realMain(o, t)) }}}, nil, nil)
}

func realMain(o *common.Options, t *testing.T) int {
	rep := common.NewReport("C04", o)
	rep.Engines = []string{"swf", "udpsess"}
	rep.Rule = "engine swf: op sequences (add | check=IsOk+MustAdd | isok | reset) over boundary alphabets (0, block edges, ring wrap, window edge, 2^64-1) " +
		"for sizes {1,2,63,64,65,128,256,1000}+random; plus all add-sequences of depth 4 (quick) / 6 (thorough) over an 8-letter alphabet per size; " +
		"non-trivial = at least one accepted and one refused id; distinct by (size, op sequence). " +
		"engine udpsess: packet histories (real packers + crafted, replayed, reordered, bit-flipped, truncated, stale, wrong-type, foreign-session, " +
		"old/new server-session packets; clock gaps around 30 s and 60 s; timestamps over the whole 64-bit range incl. clock ± k*2^55, 2^62, 2^63) against the real server/client unpackers under a fake clock; " +
		"non-trivial = at least one delivery and >= 3 distinct result classes; distinct by (side, size, event list)"
	var err error
	if o.Replay != "" {
		var probe struct {
			Side string `json:"side"`
		}
		if err = common.LoadReplay(o.Replay, &probe); err == nil {
			if probe.Side != "" {
				var c UCase
				if err = common.LoadReplay(o.Replay, &c); err == nil {
					err = evalU(t, c, o, rep, false)
				}
			} else {
				var c Case
				if err = common.LoadReplay(o.Replay, &c); err == nil {
					err = evalCases([]Case{c}, o, rep)
				}
			}
		}
	} else {
		r := common.NewRng(o.Seed)
		n := o.Budget(3000, 60000)
		var cases []Case
		for i := 0; i < n; i++ {
			cases = append(cases, genCase(r.Fork(uint64(i)), 40))
			if last := cases[len(cases)-1]; len(last.Ops) <= 6 {
				randomSigs[sig(last)] = true
			}
			if len(cases) == 2000 {
				if err = evalCases(cases, o, rep); err != nil {
					break
				}
				cases = cases[:0]
			}
		}
		if err == nil && len(cases) > 0 {
			err = evalCases(cases, o, rep)
		}
		depth := 4
		if o.Thorough() {
			depth = 6
		}
		for _, size := range sizes {
			if err != nil {
				break
			}
			ring := uint64(64)
			for ring < size+64 {
				ring <<= 1
			}
			al := []uint64{0, 63, 64, size - 1, size, size + 64, ring - 1, ring + size}
			if o.Thorough() { // the 10-letter alphabet of the design
				al = append(al, 65, ^uint64(0))
			}
			err = exhaustivePar(size, al, depth, false, o, rep)
			if err == nil { // `reset` joins the op set at depth <= 4
				for d := 2; d <= 4 && err == nil; d++ {
					err = exhaustivePar(size, al, d, true, o, rep)
				}
			}
		}
		if err == nil {
			probeExcludedSizes(o, rep)
		}
		// engine udpsess
		ru := common.NewRng(o.Seed ^ 0xC04C04)
		nu := o.Budget(1200, 40000)
		shrunk := 0
		for _, c := range tsProbeCases() {
			if err == nil {
				err = evalU(t, c, o, rep, true)
			}
		}
		for i := 0; i < nu && err == nil; i++ {
			before := len(rep.OracleFailures) + len(rep.Divergences)
			err = evalU(t, genU(ru.Fork(uint64(i)), 36), o, rep, shrunk < 4)
			if len(rep.OracleFailures)+len(rep.Divergences) > before {
				shrunk++
			}
		}
	}
	if err != nil {
		fmt.Fprintln(os.Stderr, "corr_c04:", err)
		rep.Note("engine error: %v", err)
		rep.Write(o.Out)
		return 3
	}
	rep.DistinctNontrivial += exhDistinct
	if err := rep.Write(o.Out); err != nil {
		fmt.Fprintln(os.Stderr, err)
		return 3
	}
	return 0
}
