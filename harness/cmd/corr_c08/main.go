// corr_c08: correspondence + property oracle for C08 (users are identified by key; the accepted key
// set tracks credential changes).
//
// Engine "cred": sequential histories (add / update / delete / reload / external edit of the store file /
// debounce tick) over 4 names x 4 keys (+ empty name, wrong-size key), both key sizes, TCP-only / UDP-only /
// both, against the real cred.Manager + ss2022 CredStores + a real ss2022 TCP handshake and UDP session open
// per key after every event, under a testing/synctest clock; compared event by event with the Lean model
// (ssv_c08) and judged by the oracle written from the statement (oracle.go).
//
// Engine "conc": two or three operations released together on the real manager (repeated), outcome at
// quiescence compared with the set of outcomes of all interleavings of the model's atomic segments, plus the
// oracle; and "hammer" templates (lookup-level observation, tens of thousands of repetitions).
//
// All implementation runs happen in child processes of this binary.
package main

import (
	"bufio"
	"bytes"
	"encoding/json"
	"fmt"
	"os"
	"os/exec"
	"path/filepath"
	"regexp"
	"runtime"
	"sort"
	"strings"
	"sync"
	"testing"
	"time"

	"ssvharness/internal/common"
)

// ---------- child pool ----------

// runChildren shards the cases over child processes; a child that dies is restarted behind the case it died on.
func runChildren(cases []Case, workers int, perCaseTimeout time.Duration) []Result {
	results := make([]Result, len(cases))
	done := make([]bool, len(cases))
	type shard struct{ idx []int }
	if workers > len(cases) {
		workers = len(cases)
	}
	if workers < 1 {
		workers = 1
	}
	shards := make([]shard, workers)
	for i := range cases {
		shards[i%workers].idx = append(shards[i%workers].idx, i)
	}
	var wg sync.WaitGroup
	for _, sh := range shards {
		wg.Add(1)
		go func(todo []int) {
			defer wg.Done()
			for len(todo) > 0 {
				n, crashedAt, stderr := runOneChild(cases, todo, results, done, perCaseTimeout)
				_ = n
				if crashedAt < 0 && n > 0 {
					// died after delivering its last result (a bubble that could not be left after a reported panic): go on with the rest
					var rest []int
					for _, i := range todo {
						if !done[i] {
							rest = append(rest, i)
						}
					}
					todo = rest
					continue
				}
				if crashedAt < 0 {
					// child ended without finishing and without naming a case: give up on the rest
					rest := todo
					for _, i := range rest {
						if !done[i] {
							results[i] = Result{Idx: i, HarnessErr: "child process failed: " + tail(stderr, 400)}
							done[i] = true
						}
					}
					return
				}
				if crashedAt == len(cases) { // all done
					return
				}
				if !done[crashedAt] {
					results[crashedAt] = Result{Idx: crashedAt, Panic: "process died: " + crashSummary(stderr)}
					done[crashedAt] = true
				}
				var rest []int
				for _, i := range todo {
					if !done[i] {
						rest = append(rest, i)
					}
				}
				todo = rest
			}
		}(sh.idx)
	}
	wg.Wait()
	return results
}

func tail(s string, n int) string {
	if len(s) > n {
		return s[len(s)-n:]
	}
	return s
}

// crashSummary extracts the runtime's own first line ("fatal error: concurrent map …", "panic: …").
func crashSummary(stderr string) string {
	for _, l := range strings.Split(stderr, "\n") {
		if strings.Contains(l, "DATA RACE") || strings.HasPrefix(l, "fatal error:") || strings.HasPrefix(l, "panic:") || strings.Contains(l, "SIGBUS") || strings.Contains(l, "SIGSEGV") || strings.Contains(l, "deadlock") {
			return strings.TrimSpace(l)
		}
	}
	return tail(strings.TrimSpace(stderr), 300)
}

// runOneChild feeds `todo` to one child. Returns crashedAt = len(cases) when every case finished,
// the index of the case that was running when the child died, or -1.
func runOneChild(cases []Case, todo []int, results []Result, done []bool, perCase time.Duration) (finished int, crashedAt int, stderr string) {
	bin := os.Args[0]
	if childBinary != "" {
		bin = childBinary
	}
	cmd := exec.Command(bin)
	cmd.Env = append(os.Environ(), "C08_CHILD=1", "GOMAXPROCS="+childProcs(cases[todo[0]].Kind), "GORACE=halt_on_error=1")
	var in bytes.Buffer
	for _, i := range todo {
		b, _ := json.Marshal(IndexedCase{Idx: i, Case: cases[i]})
		in.Write(b)
		in.WriteByte('\n')
	}
	cmd.Stdin = &in
	var errb bytes.Buffer
	cmd.Stderr = &errb
	outp, err := cmd.StdoutPipe()
	if err != nil {
		return 0, -1, err.Error()
	}
	if err := cmd.Start(); err != nil {
		return 0, -1, err.Error()
	}
	current := -1
	lines := make(chan string, 16)
	go func() {
		sc := bufio.NewScanner(outp)
		sc.Buffer(make([]byte, 1<<20), 1<<26)
		for sc.Scan() {
			lines <- sc.Text()
		}
		close(lines)
	}()
	timer := time.NewTimer(perCase)
	defer timer.Stop()
	hung := false
loop:
	for {
		select {
		case l, ok := <-lines:
			if !ok {
				break loop
			}
			if !timer.Stop() {
				select {
				case <-timer.C:
				default:
				}
			}
			timer.Reset(perCase)
			if strings.HasPrefix(l, "START ") {
				fmt.Sscanf(l, "START %d", &current)
				continue
			}
			var r Result
			if json.Unmarshal([]byte(l), &r) == nil && r.Idx >= 0 && r.Idx < len(results) && strings.HasPrefix(l, "{") {
				results[r.Idx] = r
				done[r.Idx] = true
				finished++
				if r.Panic == "" {
					current = -1
				}
			}
		case <-timer.C:
			hung = true
			cmd.Process.Kill()
			break loop
		}
	}
	for range lines {
	}
	werr := cmd.Wait()
	stderr = errb.String()
	if hung {
		stderr = "deadlock or hang: no progress for " + perCase.String() + "\n" + stderr
	}
	if werr == nil && !hung {
		return finished, len(cases), stderr
	}
	return finished, current, stderr
}

// budget picks a count per mode: normal quick run, violation search (a tie or an obligation broke), thorough.
func budget(o *common.Options, quick, search, thorough int) int {
	switch {
	case o.Thorough():
		return thorough
	case o.Search:
		return search
	}
	return quick
}

// childProcs: sequential histories need no parallelism inside a child (the pool supplies it); races do.
func childProcs(kind string) string {
	if kind == "seq" {
		return "1"
	}
	return "4"
}

// childBinary, when set, is run instead of this binary for the children (the -race build in thorough).
var childBinary string

// buildRaceBinary builds this command with the race detector against the same tree (thorough tier only).
func buildRaceBinary() (string, error) {
	dir, err := os.MkdirTemp("", "c08race-")
	if err != nil {
		return "", err
	}
	out := filepath.Join(dir, "corr_c08_race")
	args := []string{"build", "-race"}
	if repo := os.Getenv("VERIF_REPO"); repo != "" && repo != "/repo" {
		tag := regexp.MustCompile(`\W+`).ReplaceAllString(repo, "_")
		args = append(args, "-modfile", "go.scratch."+tag+".mod")
	}
	args = append(args, "-tags", "verif", "-o", out, "./cmd/corr_c08")
	try := func(name string, extraEnv ...string) error {
		cmd := exec.Command(name, args...)
		cmd.Env = append(os.Environ(), append([]string{"GOFLAGS=-mod=mod", "GOPROXY=off"}, extraEnv...)...)
		b, err := cmd.CombinedOutput()
		if err != nil {
			return fmt.Errorf("%s %v: %v: %s", name, args, err, tail(string(b), 300))
		}
		return nil
	}
	if err := try("go", "GOTOOLCHAIN=auto"); err != nil {
		if err2 := try("go1.26.8", "GOTOOLCHAIN=local"); err2 != nil {
			os.RemoveAll(dir)
			return "", err
		}
	}
	return out, nil
}

// failCapped records at most three failures per key (the report keeps 50 in all; every distinct key must fit).
var failCount = map[string]int{}

func failCapped(rep *common.Report, f common.OracleFailure) {
	failCount[f.Key]++
	if failCount[f.Key] <= 3 {
		rep.Fail(f)
	} else {
		rep.Count("ORACLE-FAIL:" + f.Key)
	}
}

// ---------- engines ----------

func keyKinds(ops []string) string {
	var ks []string
	for _, o := range ops {
		ks = append(ks, strings.Fields(o)[0])
	}
	sort.Strings(ks)
	return strings.Join(ks, "|")
}

// evalSeq: implementation (children) vs model (driver) vs oracle for sequential histories.
func evalSeq(cases []Case, o *common.Options, rep *common.Report, probeKeys map[int]string) error {
	results := runChildren(cases, runtime.NumCPU(), 60*time.Second)
	var model []string
	if o.Driver != "" {
		var lines []string
		for _, c := range cases {
			lines = append(lines, c.initLine())
			lines = append(lines, c.Ops...)
		}
		var err error
		model, err = common.RunDriverOnce(o.Driver, lines)
		if err != nil {
			return err
		}
	}
	pos := 0
	for i, c := range cases {
		r := results[i]
		n := len(c.Ops) + 1
		var mo []string
		if model != nil {
			mo = model[pos : pos+n]
			pos += n
		}
		accepted, refused := 0, 0
		for _, e := range r.Events[min(1, len(r.Events)):] {
			if e.Res == "ok" {
				accepted++
			} else {
				refused++
			}
		}
		rep.Case(c.sig(), accepted > 0 && refused > 0)
		rep.Count(fmt.Sprintf("seq:psk=%d", c.PSKLen))
		if c.Fallback {
			rep.Count("seq:fallback-address")
		}
		rep.Count("seq:stores=" + map[[2]bool]string{{true, true}: "both", {true, false}: "tcp", {false, true}: "udp"}[[2]bool{c.TCP, c.UDP}])
		for _, e := range r.Events {
			w := strings.Fields(e.Line)[0]
			rep.Count("seq:" + w + ":" + e.Res)
		}
		if r.InitFailed != "" {
			rep.Count("seq:init:" + r.InitFailed)
		}
		rep.Sample(map[string]any{"case": c, "last": lastLine(r, c)})
		fail := func(key, detail string) {
			failCapped(rep, common.OracleFailure{Engine: "cred", Key: key, Case: c, Detail: detail})
		}
		pk := probeKeys[i]
		reproduced := false
		switch {
		case r.HarnessErr != "":
			rep.Diverge(common.Divergence{Engine: "cred", Case: c, Impl: "harness error: " + r.HarnessErr, Model: "", Note: "the harness could not drive the implementation"})
		case r.Panic != "":
			at := "init"
			if len(r.Events) > 0 && len(r.Events) <= len(c.Ops) {
				at = strings.Fields(c.Ops[len(r.Events)-1])[0]
			}
			ck := crashKey(c, at, r.Panic)
			fail(ck, fmt.Sprintf("event %d (%s): %s", len(r.Events), at, r.Panic))
			reproduced = pk == ck
			// correspondence: the model must show the same events and then a fault at the same event
			if mo != nil {
				ok := true
				for j, e := range r.Events {
					if il := e.Res + ";" + e.Obs.dump(universe(c.PSKLen)); il != mo[j] {
						rep.Diverge(common.Divergence{Engine: "cred", Case: c, Impl: il, Model: mo[j], Note: fmt.Sprintf("event %d: %s", j, e.Line)})
						ok = false
						break
					}
				}
				if j := len(r.Events); ok && (j >= len(mo) || !strings.HasPrefix(mo[j], "panic;")) {
					rep.Diverge(common.Divergence{Engine: "cred", Case: c, Impl: "panic: " + r.Panic, Model: mo[min(j, len(mo)-1)], Note: fmt.Sprintf("event %d: the implementation panicked, the model did not", j)})
				}
				rep.TracesValidated++
			}
		default:
			// oracle
			or := &Oracle{}
			for _, e := range r.Events {
				if k, d := or.step(e.Line, e.Res, e.Obs); k != "" {
					fail(k, fmt.Sprintf("event %q -> %s: %s", e.Line, e.Res, d))
					reproduced = reproduced || k == pk
					break
				}
			}
			// correspondence
			if mo != nil {
				if r.InitFailed != "" {
					if got := strings.SplitN(mo[0], ";", 2)[0]; got != r.InitFailed {
						rep.Diverge(common.Divergence{Engine: "cred", Case: c, Impl: "init: " + r.InitFailed, Model: mo[0]})
					}
				} else {
					for j, e := range r.Events {
						il := e.Res + ";" + e.Obs.dump(universe(c.PSKLen))
						if il != mo[j] {
							rep.Diverge(common.Divergence{Engine: "cred", Case: c, Impl: il, Model: mo[j], Note: fmt.Sprintf("event %d: %s", j, e.Line)})
							break
						}
					}
				}
				rep.TracesValidated++
			}
		}
		if pk != "" {
			rep.FindingsProbed[pk] = rep.FindingsProbed[pk] || reproduced
		}
	}
	return nil
}

// concCrashKey: the Go run time's own verdict on unsynchronised map access gets one key whatever was raced.
func concCrashKey(kinds, msg string) string {
	if strings.Contains(msg, "concurrent map") {
		return "conc:fatal-concurrent-map"
	}
	if strings.Contains(msg, "DATA RACE") {
		return "conc:data-race"
	}
	return "conc:crash:" + kinds
}

// crashKey classifies a crash by the event it happened in and what the run time said.
func crashKey(c Case, at, msg string) string {
	if c.Init == "E" && at == "add" && strings.Contains(msg, "assignment to entry in nil map") {
		// registered on a zero-byte store file (nothing was loaded, the maps are nil), then the first add
		return "F19:empty-store-file-nil-maps-add-panics"
	}
	short := msg
	if i := strings.IndexAny(short, "\n["); i > 0 {
		short = short[:i]
	}
	short = strings.Join(strings.Fields(short), "-")
	if len(short) > 60 {
		short = short[:60]
	}
	return "crash:" + at + ":" + short
}

func lastLine(r Result, c Case) string {
	if len(r.Events) == 0 {
		return "init:" + r.InitFailed + r.Panic + r.HarnessErr
	}
	e := r.Events[len(r.Events)-1]
	return e.Res + ";" + e.Obs.dump(universe(c.PSKLen))
}

// evalRace: outcomes at quiescence must be among the model's interleaving outcomes and satisfy the oracle.
func evalRace(cases []Case, o *common.Options, rep *common.Report) error {
	results := runChildren(cases, runtime.NumCPU(), 120*time.Second)
	var model []string
	if o.Driver != "" {
		var lines []string
		for _, c := range cases {
			lines = append(lines, c.initLine())
			lines = append(lines, c.Ops...)
			lines = append(lines, "race "+strings.Join(c.Race, ";"))
		}
		var err error
		model, err = common.RunDriverOnce(o.Driver, lines)
		if err != nil {
			return err
		}
	}
	pos := 0
	for i, c := range cases {
		r := results[i]
		n := len(c.Ops) + 2
		allowed := map[string]bool{}
		if model != nil {
			for _, a := range strings.Split(model[pos+n-1], "|") {
				allowed[a] = true
			}
			pos += n
		}
		kinds := keyKinds(c.Race)
		rep.Case(c.sig(), len(r.Outcomes) > 1 || len(allowed) > 1)
		rep.Count("race:" + kinds)
		rep.Count(fmt.Sprintf("race:observed-outcomes=%d", len(r.Outcomes)))
		rep.Count(fmt.Sprintf("race:model-outcomes=%d", len(allowed)))
		if i < 2 {
			rep.Sample(map[string]any{"case": c, "outcomes": len(r.Outcomes), "model_outcomes": len(allowed)})
		}
		switch {
		case r.HarnessErr != "":
			rep.Diverge(common.Divergence{Engine: "conc", Case: c, Impl: "harness error: " + r.HarnessErr, Model: ""})
			continue
		case r.Panic != "":
			failCapped(rep, common.OracleFailure{Engine: "conc", Key: concCrashKey(kinds, r.Panic), Case: c, Detail: "raced " + kinds + ": " + r.Panic})
			continue
		}
		if len(r.Events) > 0 {
			// the sequential prefix already violates the statement (a sequential defect, keyed as such): the race says nothing new
			if k, d := views(r.Events[0].Obs, "race-prefix"); k != "" {
				failCapped(rep, common.OracleFailure{Engine: "conc", Key: k, Case: c, Detail: "before the race starts: " + d})
				continue
			}
		}
		for _, oc := range r.Outcomes {
			if k, d := views(oc.Obs, kinds); k != "" {
				failCapped(rep, common.OracleFailure{Engine: "conc", Key: "conc:" + strings.TrimSuffix(k, ":"+kinds), Case: c, Detail: fmt.Sprintf("raced %s, results %v, %d of %d repetitions: %s", kinds, oc.Ress, oc.N, c.Reps, d)})
				break
			}
			// acknowledged changes reach the file once the save has run
			if es, ok := oc.Obs.File.entries(); anyOK(oc.Ress, c.Race) && (!ok || !sameSet(es, oc.Obs.Creds)) {
				failCapped(rep, common.OracleFailure{Engine: "conc", Key: "conc:file-mismatch-after-save", Case: c,
					Detail: fmt.Sprintf("results %v: file %s, listing %s", oc.Ress, oc.Obs.File, fmtEntries(oc.Obs.Creds))})
				break
			}
			if model != nil {
				var apiRess []string // the model lists results of the API operations only (an edit has none)
				for j, rr := range oc.Ress {
					if !strings.HasPrefix(c.Race[j], "edit ") {
						apiRess = append(apiRess, rr)
					}
				}
				line := strings.Join(apiRess, ",") + ";" + oc.Obs.dump(universe(c.PSKLen))
				if !allowed[line] {
					rep.Diverge(common.Divergence{Engine: "conc", Case: c, Impl: line, Model: keysOf(allowed), Note: "outcome at quiescence is not an outcome of any interleaving of the model"})
					break
				}
			}
		}
		if model != nil {
			rep.TracesValidated++
		}
	}
	return nil
}

// anyOK: some raced add/update/delete was acknowledged (so a save is due).
func anyOK(ress, race []string) bool {
	for i, r := range ress {
		if r == "ok" && !strings.HasPrefix(race[i], "reload") && !strings.HasPrefix(race[i], "edit") {
			return true
		}
	}
	return false
}

func keysOf(m map[string]bool) []string {
	var ks []string
	for k := range m {
		ks = append(ks, k)
	}
	sort.Strings(ks)
	return ks
}

// hammer templates (lookup-level observation). Ops = clean-up lines (or the reload-loop spec).
func hammers(pskLen, reps int) []Case {
	k := universe(pskLen)
	mk := func(init Doc, ops []string, race ...string) Case {
		return Case{Kind: "hammer", PSKLen: pskLen, TCP: true, UDP: true, Init: init, Ops: ops, Race: race, Reps: reps}
	}
	two := mkDoc([]DocEntry{{"a", k[0]}, {"b", k[1]}})
	return []Case{
		mk("J:", []string{"delete c"}, "add c "+k[2].String(), "delete c"),
		mk(two, []string{"delete c"}, "add c "+k[2].String(), "delete c", "update c "+k[3].String()),
		mk(two, []string{"delete c", "delete d"}, "add c "+k[2].String(), "add d "+k[2].String()),
		mk(two, []string{"update a " + k[0].String()}, "update a "+k[2].String(), "update a "+k[3].String()),
	}
}

// starves: the mutex-starvation schedule (see runStarve) for add || delete and update || delete behind a long reload.
func starves(pskLen, trials int) []Case {
	k := universe(pskLen)
	var big1 []DocEntry
	big1 = append(big1, DocEntry{"a", k[0]}, DocEntry{"b", k[1]})
	for i := 0; i < 480; i++ {
		big1 = append(big1, DocEntry{fmt.Sprintf("u%03d", i), Key{100 + i, pskLen}})
	}
	big2 := append(append([]DocEntry(nil), big1...), DocEntry{"d", k[3]})
	mk := func(cleanup []string, race ...string) Case {
		return Case{Kind: "hammer", PSKLen: pskLen, TCP: true, UDP: true, Init: mkDoc(big1),
			Ops: append([]string{"starve", string(mkDoc(big1)), string(mkDoc(big2))}, cleanup...), Race: race, Reps: trials}
	}
	return []Case{
		mk([]string{"delete c"}, "add c "+k[2].String(), "delete c"),
		mk([]string{"update a " + k[0].String()}, "update a "+k[2].String(), "update a "+k[0].String()),
		// delete first, then add the same user again: the delete's live update must not land after the add's
		mk([]string{"delete b", "add b " + k[1].String()}, "delete b", "add b "+k[1].String()),
	}
}

// stales: an acknowledged change with its save due, against a loop of reloads of the (unchanged) store file (see runStale).
func stales(pskLen, trials int) []Case {
	k := universe(pskLen)
	var big []DocEntry
	big = append(big, DocEntry{"a", k[0]}, DocEntry{"b", k[1]})
	for i := 0; i < 2000; i++ {
		big = append(big, DocEntry{fmt.Sprintf("u%04d", i), Key{100 + i, pskLen}})
	}
	return []Case{
		{Kind: "hammer", PSKLen: pskLen, TCP: true, UDP: true, Init: mkDoc(big), Ops: []string{"stale-reload"}, Race: []string{"add c " + k[2].String()}, Reps: trials},
		{Kind: "hammer", PSKLen: pskLen, TCP: true, UDP: true, Init: mkDoc(big), Ops: []string{"stale-reload"}, Race: []string{"delete b"}, Reps: trials},
	}
}

// reloadLoops: LoadFromFile in a loop against add/delete in a loop, for `ms` milliseconds, in `n` processes.
func reloadLoops(pskLen, n, ms int) []Case {
	k := universe(pskLen)
	two := mkDoc([]DocEntry{{"a", k[0]}, {"b", k[1]}})
	three := mkDoc([]DocEntry{{"a", k[0]}, {"b", k[1]}, {"d", k[3]}})
	var cs []Case
	for i := 0; i < n; i++ {
		cs = append(cs, Case{Kind: "hammer", PSKLen: pskLen, TCP: true, UDP: true, Init: two,
			Ops: []string{"reload-loop", string(two), string(three)}, Race: []string{"add c " + k[2].String(), "delete c"}, Reps: ms})
	}
	return cs
}

func evalHammers(cases []Case, rep *common.Report, probe bool) {
	results := runChildren(cases, len(cases), 300*time.Second)
	for i, c := range cases {
		r := results[i]
		kinds := keyKinds(c.Race)
		if len(c.Ops) > 0 && (c.Ops[0] == "reload-loop" || c.Ops[0] == "starve" || c.Ops[0] == "stale-reload") {
			kinds += "|reload"
		}
		rep.Case("hammer "+c.sig(), true)
		rep.Count("hammer:" + kinds)
		key := ""
		switch {
		case r.HarnessErr != "":
			rep.Diverge(common.Divergence{Engine: "conc", Case: c, Impl: "harness error: " + r.HarnessErr, Model: ""})
		case r.Panic != "":
			key = concCrashKey(kinds, r.Panic)
			failCapped(rep, common.OracleFailure{Engine: "conc", Key: key, Case: c, Detail: r.Panic})
		case r.HammerFail != "":
			key = "conc:" + strings.TrimSuffix(r.HammerFail, ":race")
			failCapped(rep, common.OracleFailure{Engine: "conc", Key: key, Case: c, Detail: r.HammerInfo})
		}
		if probe {
			// the two F7 witnesses
			// the two F7 witnesses (schedule-dependent: several templates / processes try)
			if kinds == "add|delete|reload" {
				rep.FindingsProbed["conc:unlisted-key-accepted"] = rep.FindingsProbed["conc:unlisted-key-accepted"] || key == "conc:unlisted-key-accepted"
			}
			if len(c.Ops) > 0 && c.Ops[0] == "stale-reload" {
				for _, pk := range []string{"conc:stale-reload:acknowledged-op-not-listed", "conc:stale-reload:file-mismatch-after-save"} {
					rep.FindingsProbed[pk] = rep.FindingsProbed[pk] || key == pk
				}
			}
			if strings.HasSuffix(kinds, "|reload") {
				rep.FindingsProbed["conc:fatal-concurrent-map"] = rep.FindingsProbed["conc:fatal-concurrent-map"] || key == "conc:fatal-concurrent-map"
			}
		}
	}
}

// directed probes: the F6 witnesses, and registration on a zero-byte store file followed by an add
func probes(pskLen int) ([]Case, map[int]string) {
	k := universe(pskLen)
	cs := []Case{
		{Kind: "seq", PSKLen: pskLen, TCP: true, UDP: true, Init: mkDoc([]DocEntry{{"a", k[0]}}),
			Ops: []string{"add b " + k[0].String(), "delete b", "tick", "reload"}},
		{Kind: "seq", PSKLen: pskLen, TCP: true, UDP: true, Init: mkDoc([]DocEntry{{"a", k[0]}, {"b", k[1]}}),
			Ops: []string{"update b " + k[0].String(), "tick", "edit J:", "reload"}},
	}
	cs = append(cs, Case{Kind: "seq", PSKLen: pskLen, TCP: true, UDP: true, Init: "E", Ops: []string{"add b " + k[3].String(), "tick"}})
	// unauthenticated connections on a multi-user TCP server with a fallback address, before and after changes
	cs = append(cs, Case{Kind: "seq", PSKLen: pskLen, TCP: true, UDP: true, Fallback: true, Init: mkDoc([]DocEntry{{"a", k[0]}, {"b", k[1]}}),
		Ops: []string{"add c " + k[2].String(), "update a " + k[3].String(), "delete b", "tick"}})
	return cs, map[int]string{0: "shared-key:add", 1: "shared-key:update", 2: "F19:empty-store-file-nil-maps-add-panics"}
}

func parentMain() {
	o := common.ParseFlags()
	rep := common.NewReport("C08", o)
	rep.Engines = []string{"cred", "conc"}
	rep.Rule = "engine cred: histories of <= 12 events (add/update/delete/reload/external edit/debounce tick) over names {a,b,c,d,\"\"} x 4 keys (+ a wrong-size key), " +
		"PSK length 16|32, TCP-only|UDP-only|both, initial store of 0..3 users or an invalid one; after every event Credentials(), LookupUser and a real TCP handshake / UDP session open per key, and the file; " +
		"non-trivial = at least one acknowledged and one refused event; distinct by (configuration, history). " +
		"engine conc: 2-3 operations on the same user/key/file released together (6 repetitions each) compared at quiescence with all interleavings of the model's atomic segments; " +
		"non-trivial = more than one possible or observed outcome; plus 5 hammer templates (lookup-level oracle)"
	if err := selfCheckDocText(); err != nil {
		fmt.Fprintln(os.Stderr, "corr_c08:", err)
		rep.Note("engine error: %v", err)
		rep.Write(o.Out)
		os.Exit(3)
	}
	var err error
	if o.Replay != "" {
		var c Case
		if err = common.LoadReplay(o.Replay, &c); err == nil {
			switch c.Kind {
			case "seq":
				err = evalSeq([]Case{c}, o, rep, nil)
			case "race":
				err = evalRace([]Case{c}, o, rep)
			case "hammer":
				evalHammers([]Case{c}, rep, false)
			default:
				err = fmt.Errorf("replay: unknown case kind %q", c.Kind)
			}
		}
	} else {
		r := common.NewRng(o.Seed)
		// directed probes first
		for _, l := range []int{16, 32} {
			pc, keys := probes(l)
			if err == nil {
				err = evalSeq(pc, o, rep, keys)
			}
		}
		only := os.Getenv("C08_ONLY") // debugging aid: seq | race | hammer
		if err == nil && (only == "" || only == "hammer") {
			reps := budget(o, 3000, 10000, 30000)
			l := common.Pick(r, []int{16, 32})
			hs := hammers(l, reps)
			hs = append(hs, starves(l, budget(o, 150, 600, 1000))...)
			hs = append(hs, reloadLoops(l, budget(o, 2, 4, 4), budget(o, 6000, 15000, 20000))...)
			hs = append(hs, stales(l, budget(o, 1, 3, 6))...)
			evalHammers(hs, rep, true)
		}
		if err == nil && (only == "" || only == "race") {
			nr := budget(o, 160, 400, 1500)
			var rc []Case
			for i := 0; i < nr; i++ {
				rc = append(rc, genRace(r.Fork(uint64(1_000_000+i))))
			}
			err = evalRace(rc, o, rep)
		}
		if err == nil && o.Thorough() && (only == "" || only == "racedet") {
			// the same concurrent engines once more under the Go race detector (children built with -race)
			if bin, berr := buildRaceBinary(); berr != nil {
				rep.Note("race-detector pass skipped: %v", berr)
			} else {
				childBinary = bin
				l := common.Pick(r, []int{16, 32})
				hs := hammers(l, 1000)
				hs = append(hs, starves(l, 100)...)
				hs = append(hs, reloadLoops(l, 2, 5000)...)
				evalHammers(hs, rep, false)
				var rc []Case
				for i := 0; i < 120; i++ {
					rc = append(rc, genRace(r.Fork(uint64(2_000_000+i))))
				}
				err = evalRace(rc, o, rep)
				childBinary = ""
				os.RemoveAll(filepath.Dir(bin))
				rep.Note("race-detector pass: %d hammer templates + 120 races in children built with -race", len(hs))
			}
		}
		n := budget(o, 1200, 4000, 12000)
		if only != "" && only != "seq" {
			n = 0
		}
		var cases []Case
		for i := 0; i < n && err == nil; i++ {
			cases = append(cases, genSeq(r.Fork(uint64(i)), 12))
			if len(cases) == 5000 || i == n-1 {
				err = evalSeq(cases, o, rep, nil)
				cases = cases[:0]
			}
		}

	}
	if err != nil {
		fmt.Fprintln(os.Stderr, "corr_c08:", err)
		rep.Note("engine error: %v", err)
		rep.Write(o.Out)
		os.Exit(3)
	}
	if err := rep.Write(o.Out); err != nil {
		fmt.Fprintln(os.Stderr, err)
		os.Exit(3)
	}
	os.Exit(0)
}

func main() {
	if os.Getenv("C08_CHILD") != "1" {
		parentMain()
		return
	}
	// testing.Main gives the child a *testing.T for testing/synctest bubbles (fake clock for the 5 s save debounce)
	testing.Main(func(pat, str string) (bool, error) { return true, nil }, []testing.InternalTest{{Name: "corr_c08", F: childMain}}, nil, nil)
}
