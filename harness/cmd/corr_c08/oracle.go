package main

import (
	"fmt"
	"strings"
)

// The property oracle, written from the statement of C08 (independent of the Lean model):
//
//	(a) a TCP connection / UDP session under user key K is accepted exactly when K is the key of a user the
//	    API lists, and it is attributed to that user and to no other (so no two listed users share a key);
//	(b) an acknowledged add/update/delete is visible in the API listing, a refused one changes nothing;
//	(c) once the debounced save has run after an acknowledged change, the store file holds exactly the listed
//	    set; a reload that took a changed file makes the listing equal to the file;
//	(d) nothing crashes.
//
// The oracle keeps its own minimal bookkeeping of what was acknowledged (never the model's state).
type Oracle struct {
	prev     []DocEntry // listing after the previous event
	havePrev bool
	dirty    bool // an acknowledged change has not yet been followed by a tick
	lastMut  string
	lastSync Doc // file content at the last moment file and manager were known to agree
}

func sameSet(a, b []DocEntry) bool {
	a, b = sortedEntries(a), sortedEntries(b)
	if len(a) != len(b) {
		return false
	}
	for i := range a {
		if a[i] != b[i] {
			return false
		}
	}
	return true
}

func fmtEntries(es []DocEntry) string { return string(mkDoc(es)) }

// views checks clause (a) on one observation; op names the event that led to it (for the key).
func views(o Obs, op string) (key, detail string) {
	// a connection that did not authenticate is attributed to nobody, also when it is forwarded to the fallback address
	if len(o.Forged) > 0 {
		variant := strings.SplitN(o.Forged[0], ":", 2)[0]
		if strings.Contains(o.Forged[0], "attributed to user") {
			return "fallback-attributed-to-user:" + variant, o.Forged[0]
		}
		return "unauthenticated-connection-mishandled:" + variant, o.Forged[0]
	}
	owner := map[int][]string{}
	for _, e := range o.Creds {
		owner[e.Key.Id] = append(owner[e.Key.Id], e.Name)
	}
	for id, ns := range owner {
		if len(ns) > 1 {
			return "shared-key:" + op, fmt.Sprintf("key %d is listed for users %q: a session under it cannot be attributed to one user and no other", id, ns)
		}
	}
	for t, tag := range []string{"tcp", "udp"} {
		if !o.Have[t] {
			continue
		}
		for id, who := range o.Hs[t] {
			ns := owner[id]
			switch {
			case who == "!" && len(ns) > 0:
				return "listed-key-rejected:" + op, fmt.Sprintf("%s: key %d is listed for %q but a session under it is rejected", tag, id, ns[0])
			case who != "!" && len(ns) == 0:
				return "unlisted-key-accepted:" + op, fmt.Sprintf("%s: key %d is not in the listed set but a session under it is accepted as %q", tag, id, who)
			case who != "!" && encName(ns[0]) != who:
				return "wrong-user:" + op, fmt.Sprintf("%s: key %d belongs to %q but the session is attributed to %q", tag, id, ns[0], who)
			}
		}
	}
	return "", ""
}

// step feeds one event (protocol line, its result word, the observation after it) to the oracle.
func (or *Oracle) step(line, res string, o Obs) (key, detail string) {
	ws := strings.Fields(line)
	op := ws[0]
	if k, d := views(o, op); k != "" {
		return k, d
	}
	has := func(es []DocEntry, n string) (Key, bool) {
		for _, e := range es {
			if e.Name == n {
				return e.Key, true
			}
		}
		return Key{}, false
	}
	switch op {
	case "add", "update", "delete":
		name := decName(ws[1])
		if res != "ok" {
			if or.havePrev && !sameSet(or.prev, o.Creds) {
				return "refused-op-changed-listing:" + op, fmt.Sprintf("%s answered %s but the listing went from %s to %s", line, res, fmtEntries(or.prev), fmtEntries(o.Creds))
			}
			break
		}
		k, listed := has(o.Creds, name)
		if op == "delete" {
			if listed {
				return "acknowledged-op-not-listed:delete", fmt.Sprintf("%s acknowledged but %q is still listed", line, name)
			}
		} else {
			want, _ := parseKey(ws[2])
			if !listed || k != want {
				return "acknowledged-op-not-listed:" + op, fmt.Sprintf("%s acknowledged but the listing is %s", line, fmtEntries(o.Creds))
			}
		}
		or.dirty = true
		or.lastMut = op
	case "init":
		if res == "ok" {
			if es, ok := o.File.entries(); ok && !sameSetAsMap(es, o.Creds) {
				return "load-mismatch:init", fmt.Sprintf("registered on %s but the listing is %s", o.File, fmtEntries(o.Creds))
			}
			or.lastSync = o.File
		}
	case "reload":
		if res == "ok" && o.File != or.lastSync {
			// a changed file was taken: listing == file
			es, ok := o.File.entries()
			if !ok || !sameSetAsMap(es, o.Creds) {
				return "load-mismatch:reload", fmt.Sprintf("reload of %s acknowledged but the listing is %s", o.File, fmtEntries(o.Creds))
			}
			or.lastSync = o.File
		}
		if res != "ok" && or.havePrev && !sameSet(or.prev, o.Creds) {
			return "refused-op-changed-listing:reload", fmt.Sprintf("reload answered %s but the listing went from %s to %s", res, fmtEntries(or.prev), fmtEntries(o.Creds))
		}
	case "tick":
		if or.dirty {
			es, ok := o.File.entries()
			if !ok || !sameSet(es, o.Creds) {
				return "file-mismatch-after-save:" + or.lastMut, fmt.Sprintf("the save after an acknowledged %s has had its time, file is %s but the listing is %s", or.lastMut, o.File, fmtEntries(o.Creds))
			}
			or.dirty = false
			or.lastSync = o.File
		}
	}
	or.prev = o.Creds
	or.havePrev = true
	return "", ""
}

// sameSetAsMap: a hand-edited file may repeat a member name; the last one counts (JSON object semantics).
func sameSetAsMap(file []DocEntry, listed []DocEntry) bool {
	m := map[string]Key{}
	for _, e := range file {
		m[e.Name] = e.Key
	}
	var es []DocEntry
	for n, k := range m {
		es = append(es, DocEntry{n, k})
	}
	return sameSet(es, listed)
}
