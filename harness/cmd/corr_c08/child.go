package main

import (
	"bufio"
	"encoding/json"
	"fmt"
	"os"
	"path/filepath"
	"strings"
	"sync"
	"sync/atomic"
	"testing"
	"testing/synctest"
	"time"

	"ssvharness/internal/common"
)

// Everything that touches the real code runs in child processes of this binary (C08_CHILD=1):
// a fatal runtime error (concurrent map access), a deadlock inside a synctest bubble or a wedged
// mutex after a panic kills or blocks only the child; the parent sees which case was running.

// Event is one event of a history as observed on the implementation.
type Event struct {
	Line string `json:"line"` // protocol line
	Res  string `json:"res"`  // result word
	Obs  Obs    `json:"obs"`
}

type Outcome struct {
	Ress []string `json:"ress"` // result word per raced operation
	Obs  Obs      `json:"obs"`  // at quiescence, after the debounced save
	N    int      `json:"n"`
}

type Result struct {
	Idx        int       `json:"idx"`
	Events     []Event   `json:"events,omitempty"`
	InitFailed string    `json:"init_failed,omitempty"` // RegisterServer error class
	Outcomes   []Outcome `json:"outcomes,omitempty"`    // race: distinct outcomes over the repetitions
	Panic      string    `json:"panic,omitempty"`
	HarnessErr string    `json:"harness_err,omitempty"`
	HammerFail string    `json:"hammer_fail,omitempty"` // hammer: oracle failure key
	HammerInfo string    `json:"hammer_info,omitempty"`
}

type IndexedCase struct {
	Idx  int  `json:"idx"`
	Case Case `json:"case"`
}

func childMain(t *testing.T) {
	in := bufio.NewReaderSize(os.Stdin, 1<<20)
	out := bufio.NewWriter(os.Stdout)
	for {
		line, err := in.ReadBytes('\n')
		if len(line) > 1 {
			var ic IndexedCase
			if jerr := json.Unmarshal(line, &ic); jerr != nil {
				fmt.Fprintln(os.Stderr, "child: bad case:", jerr)
				os.Exit(3)
			}
			// announce the case first: if the process dies, the parent knows which one it was
			fmt.Fprintf(out, "START %d\n", ic.Idx)
			out.Flush()
			var res Result
			emitted := false
			emit := func(r Result) {
				if emitted {
					return
				}
				emitted = true
				r.Idx = ic.Idx
				b, _ := json.Marshal(r)
				out.Write(b)
				out.WriteByte('\n')
				out.Flush()
			}
			switch ic.Case.Kind {
			case "seq":
				// a panic inside the manager may leave s.mu locked: the result is written from inside the bubble,
				// before the bubble (which then cannot be left cleanly) takes the process down
				synctest.Test(t, func(t *testing.T) {
					res = runSeq(ic.Case)
					if res.Panic != "" {
						emit(res)
					}
				})
			case "race":
				res = runRace(t, ic.Case, emit)
			case "hammer":
				res = runHammer(ic.Case)
			}
			emit(res)
		}
		if err != nil {
			break
		}
	}
	os.Exit(0)
}

func runSeq(c Case) (res Result) {
	var im *Impl
	defer func() {
		if im != nil && res.Panic == "" {
			im.Close()
		} else if im != nil {
			// after a panic s.mu may be held: no Stop(), but the saver is told to leave and the files go
			if im.cancel != nil {
				im.cancel()
			}
			os.RemoveAll(im.dir)
		}
	}()
	p := common.Safely(func() {
		var err error
		im, err = newImplFB(c.PSKLen, c.TCP, c.UDP, c.Init, true, c.Fallback)
		if err != nil {
			if strings.HasPrefix(err.Error(), "harness:") {
				res.HarnessErr = err.Error()
			} else {
				res.InitFailed = classify(unwrapRegister(err), true)
			}
			return
		}
		o, err := im.observe()
		if err != nil {
			res.HarnessErr = err.Error()
			return
		}
		res.Events = append(res.Events, Event{Line: c.initLine(), Res: "ok", Obs: o})
		for _, line := range c.Ops {
			r := im.do(line)
			o, err := im.observe()
			if err != nil {
				res.HarnessErr = err.Error()
				return
			}
			res.Events = append(res.Events, Event{Line: line, Res: r, Obs: o})
		}
	})
	if p != nil {
		res.Panic = fmt.Sprint(p)
	}
	return
}

// unwrapRegister strips RegisterServer's "failed to load credentials for server" wrapper.
func unwrapRegister(err error) error {
	type unwrapper interface{ Unwrap() error }
	if u, ok := err.(unwrapper); ok && strings.HasPrefix(err.Error(), "failed to load credentials") {
		return u.Unwrap()
	}
	return err
}

// runRace: the same prefix, then the raced operations released together; repeated Reps times.
func runRace(t *testing.T, c Case, emit func(Result)) (res Result) {
	seen := map[string]int{}
	for rep := 0; rep < c.Reps && res.Panic == "" && res.HarnessErr == ""; rep++ {
		synctest.Test(t, func(t *testing.T) {
			var im *Impl
			p := common.Safely(func() {
				var err error
				im, err = newImpl(c.PSKLen, c.TCP, c.UDP, c.Init, true)
				if err != nil {
					res.HarnessErr = "race prefix: registration failed: " + err.Error()
					return
				}
				for _, line := range c.Ops {
					im.do(line)
				}
				if rep == 0 {
					pre, err := im.observe()
					if err != nil {
						res.HarnessErr = err.Error()
						return
					}
					res.Events = []Event{{Line: "prefix", Res: "ok", Obs: pre}}
				}
				ress := make([]string, len(c.Race))
				start := make(chan struct{})
				var wg sync.WaitGroup
				for i, line := range c.Race {
					wg.Add(1)
					go func() {
						defer wg.Done()
						<-start
						ress[i] = im.do(line)
					}()
				}
				close(start)
				wg.Wait()
				im.do("tick")
				o, err := im.observe()
				if err != nil {
					res.HarnessErr = err.Error()
					return
				}
				sig := strings.Join(ress, ",") + ";" + o.dump(im.keys)
				if j, ok := seen[sig]; ok {
					res.Outcomes[j].N++
				} else {
					seen[sig] = len(res.Outcomes)
					res.Outcomes = append(res.Outcomes, Outcome{Ress: ress, Obs: o, N: 1})
				}
			})
			if p != nil {
				res.Panic = fmt.Sprint(p)
				emit(res)
				if im != nil {
					if im.cancel != nil {
						im.cancel()
					}
					os.RemoveAll(im.dir)
				}
				return
			}
			if im != nil {
				im.Close()
			}
		})
	}
	return
}

// heartbeat tells the parent that a long single case is still making progress (whole line, written directly).
var lastBeat time.Time

func heartbeat() {
	if time.Since(lastBeat) > 2*time.Second {
		lastBeat = time.Now()
		os.Stdout.Write([]byte("HB\n"))
	}
}

// runHammer: one race template repeated many times on one manager with lookup-level observation
// (no handshakes, no saver). The raced operations run on persistent goroutines released by a spinning
// barrier (so that they really start together), with a small varying stagger; after each repetition the
// statement's "accepted set == listed set" is checked at quiescence, then the clean-up lines (Ops) run.
// Template "reload-loop": LoadFromFile over two alternating (large) files in a loop while Race runs in a loop.
func runHammer(c Case) (res Result) {
	if len(c.Ops) > 0 && c.Ops[0] == "stale-reload" {
		return runStale(c)
	}
	im, err := newImpl(c.PSKLen, c.TCP, c.UDP, c.Init, false)
	if err != nil {
		res.HarnessErr = "hammer: registration failed: " + err.Error()
		return
	}
	defer im.Close()
	im.cheapObs = true
	check := func(rep int) bool {
		o, err := im.observe()
		if err != nil {
			res.HarnessErr = err.Error()
			return false
		}
		if k, d := views(o, "race"); k != "" {
			res.HammerFail = k
			res.HammerInfo = fmt.Sprintf("repetition %d: %s (listing %s)", rep, d, fmtEntries(o.Creds))
			return false
		}
		return true
	}
	if len(c.Ops) > 0 && c.Ops[0] == "reload-loop" {
		docs := []Doc{Doc(c.Ops[1]), Doc(c.Ops[2])}
		var stop atomic.Bool
		var wg sync.WaitGroup
		wg.Add(2)
		deadline := time.Now().Add(time.Duration(c.Reps) * time.Millisecond) // Reps = run time in ms
		go func() {
			defer wg.Done()
			defer stop.Store(true)
			for i := 0; time.Now().Before(deadline); i++ {
				heartbeat()
				tmp := filepath.Join(im.dir, "new.json")
				os.WriteFile(tmp, docs[i%2].text(), 0o644)
				os.Rename(tmp, im.path) // never truncate a file the manager may have mapped
				im.ms.LoadFromFile()
			}
		}()
		go func() {
			defer wg.Done()
			for !stop.Load() {
				for _, line := range c.Race {
					im.do(line)
				}
			}
		}()
		wg.Wait()
		check(c.Reps)
		return
	}
	if len(c.Ops) > 0 && c.Ops[0] == "starve" {
		runStarve(im, c, check)
		return
	}
	for rep := 1; rep <= c.Reps; rep++ {
		heartbeat()
		start := make(chan struct{})
		var wg sync.WaitGroup
		for _, line := range c.Race {
			wg.Add(1)
			go func() {
				defer wg.Done()
				<-start
				im.do(line)
			}()
		}
		close(start)
		wg.Wait()
		if !check(rep) {
			return
		}
		for _, line := range c.Ops { // clean-up lines
			im.do(line)
		}
	}
	return
}

// runStarve: the schedule that makes the window between "cache updated, s.mu released" and "live maps
// updated" wide. A reload of a large file holds s.mu for milliseconds; meanwhile Race[0] (say add c),
// then Race[1] (say delete c) queue up on s.mu behind a goroutine that keeps taking s.mu in a loop.
// Having waited > 1 ms the waiters put the mutex into starvation mode, in which Unlock hands the lock
// to the next waiter and yields the processor: Race[0] is paused right after its Unlock, Race[1] runs
// to completion, then Race[0] goes on. Ops = ["starve", docA, docB, clean-up lines...]; Reps trials.
func runStarve(im *Impl, c Case, check func(int) bool) {
	docs := []Doc{Doc(c.Ops[1]), Doc(c.Ops[2])}
	for rep := 1; rep <= c.Reps; rep++ {
		heartbeat()
		tmp := filepath.Join(im.dir, "new.json")
		os.WriteFile(tmp, docs[rep%2].text(), 0o644)
		os.Rename(tmp, im.path)
		var stop atomic.Bool
		var wg, wd sync.WaitGroup
		wg.Add(1)
		go func() { defer wg.Done(); im.ms.LoadFromFile() }()
		time.Sleep(1500 * time.Microsecond)
		wd.Add(1)
		go func() {
			defer wd.Done()
			for !stop.Load() {
				im.ms.DeleteCredential("nobody")
			}
		}()
		for _, line := range c.Race {
			wg.Add(1)
			go func() { defer wg.Done(); im.do(line) }()
			time.Sleep(200 * time.Microsecond)
		}
		wg.Wait()
		stop.Store(true)
		wd.Wait()
		if !check(rep) {
			return
		}
		for _, line := range c.Ops[3:] {
			im.do(line)
		}
	}
}

// runStale: an acknowledged change whose save is due, against reloads. Real clock, started manager:
// Race[0] (an add/update/delete) is acknowledged; LoadFromFile runs in a loop (as repeated reload
// requests / SIGUSR1 would) until the debounced save (5 s) has rewritten the store file; then everything
// is left alone and the three views are observed. A reload that read the old file just before the saver
// replaced it must not roll the acknowledged change back. Reps = trials.
func runStale(c Case) (res Result) {
	for trial := 1; trial <= c.Reps; trial++ {
		im, err := newImpl(c.PSKLen, c.TCP, c.UDP, c.Init, true)
		if err != nil {
			res.HarnessErr = "stale-reload: registration failed: " + err.Error()
			return
		}
		im.cheapObs = true
		ress := make([]string, len(c.Race))
		for i, line := range c.Race {
			ress[i] = im.do(line)
		}
		// the reload requests stop with the first one that returns after the store file has been replaced
		// (a later reload would see a changed file and repair the damage, which is not the point here)
		fi0, _ := os.Stat(im.path)
		saved := false
		var wg sync.WaitGroup
		wg.Add(1)
		go func() {
			defer wg.Done()
			deadline := time.Now().Add(9 * time.Second)
			for time.Now().Before(deadline) {
				im.ms.LoadFromFile()
				if fi, err := os.Stat(im.path); err == nil && !os.SameFile(fi0, fi) {
					saved = true
					return
				}
			}
		}()
		for done := false; !done; {
			heartbeat()
			c := make(chan struct{})
			go func() { wg.Wait(); close(c) }()
			select {
			case <-c:
				done = true
			case <-time.After(time.Second):
			}
		}
		time.Sleep(50 * time.Millisecond)
		if !saved {
			res.HarnessErr = "stale-reload: the debounced save did not happen within 9 s"
			im.Close()
			return
		}
		o, err := im.observe()
		im.Close()
		if err != nil {
			res.HarnessErr = err.Error()
			return
		}
		if k, d := views(o, "race"); k != "" {
			res.HammerFail = k
			res.HammerInfo = fmt.Sprintf("trial %d: %s", trial, d)
			return
		}
		or := &Oracle{}
		lastKey, lastDetail := "", ""
		for i, line := range c.Race { // the acknowledged changes must be listed; the file must hold the listed set
			prev := or.prev
			if k, d := or.step(line, ress[i], o); k != "" && lastKey == "" {
				lastKey, lastDetail = k, d
			}
			or.prev = prev
			or.havePrev = false
		}
		if lastKey == "" {
			if es, ok := o.File.entries(); !ok || !sameSet(es, o.Creds) {
				lastKey = "file-mismatch-after-save:race"
				lastDetail = fmt.Sprintf("file holds %d users, listing %d users", len(es), len(o.Creds))
			}
		}
		if lastKey != "" {
			res.HammerFail = "stale-reload:" + strings.SplitN(lastKey, ":", 2)[0]
			res.HammerInfo = fmt.Sprintf("trial %d: %v acknowledged as %v, reloads of the unchanged store file running until the save had happened; at quiescence: %s", trial, c.Race, ress, lastDetail)
			return
		}
	}
	return
}
