package main

import (
	"bytes"
	"context"
	"encoding/base64"
	"encoding/json"
	"errors"
	"fmt"
	"io/fs"
	"net/netip"
	"os"
	"path/filepath"
	"sort"
	"strconv"
	"strings"
	"time"

	"github.com/database64128/shadowsocks-go/conn"
	"github.com/database64128/shadowsocks-go/cred"
	"github.com/database64128/shadowsocks-go/netio"
	"github.com/database64128/shadowsocks-go/netiotest"
	"github.com/database64128/shadowsocks-go/ss2022"
	"go.uber.org/zap"
)

// ---------- universe: names and keys ----------

// Key is a user PSK of the universe: Id names the byte string, Len is its length.
type Key struct {
	Id  int
	Len int
}

func (k Key) String() string { return strconv.Itoa(k.Id) + "/" + strconv.Itoa(k.Len) }

func (k Key) Bytes() []byte {
	b := make([]byte, k.Len)
	for i := range b {
		b[i] = byte(k.Id*37 + i*11 + k.Len)
	}
	b[0] = byte(k.Id)
	b[1] = byte(k.Id >> 8)
	return b
}

func parseKey(s string) (Key, bool) {
	a, b, ok := strings.Cut(s, "/")
	if !ok {
		return Key{}, false
	}
	i, e1 := strconv.Atoi(a)
	l, e2 := strconv.Atoi(b)
	return Key{i, l}, e1 == nil && e2 == nil
}

func encName(n string) string {
	if n == "" {
		return "-"
	}
	return n
}

func decName(n string) string {
	if n == "-" {
		return ""
	}
	return n
}

// universe of keys observed in dumps for a server with the given PSK length
func universe(pskLen int) []Key {
	return []Key{{1, pskLen}, {2, pskLen}, {3, pskLen}, {4, pskLen}}
}

func wrongKey(pskLen int) Key { return Key{9, 48 - pskLen} }

var keyTable = func() map[string]Key {
	m := map[string]Key{}
	for _, l := range []int{16, 32} {
		for id := 1; id < 3000; id++ {
			k := Key{id, l}
			m[string(k.Bytes())] = k
		}
	}
	return m
}()

func keyOfBytes(b []byte) string {
	if k, ok := keyTable[string(b)]; ok {
		return k.String()
	}
	return "?" + base64.StdEncoding.EncodeToString(b)
}

// ---------- store documents ----------

type DocEntry struct {
	Name string
	Key  Key
}

// Doc is the content of the store file in the protocol's notation: E | G | J:name=key,...
type Doc string

func mkDoc(es []DocEntry) Doc {
	parts := make([]string, len(es))
	for i, e := range es {
		parts[i] = encName(e.Name) + "=" + e.Key.String()
	}
	return Doc("J:" + strings.Join(parts, ","))
}

func (d Doc) entries() ([]DocEntry, bool) {
	s := string(d)
	if !strings.HasPrefix(s, "J:") {
		return nil, false
	}
	s = s[2:]
	if s == "" {
		return nil, true
	}
	var es []DocEntry
	for _, p := range strings.Split(s, ",") {
		n, k, ok := strings.Cut(p, "=")
		key, ok2 := parseKey(k)
		if !ok || !ok2 {
			return nil, false
		}
		es = append(es, DocEntry{decName(n), key})
	}
	return es, true
}

const garbageText = "{\"a\": 5}\n"

// text renders the document in exactly the layout saveToFile produces
// (json.MarshalIndent of a map with four-space indentation plus a newline), members in the given order.
func (d Doc) text() []byte {
	switch d {
	case "E":
		return nil
	case "G":
		return []byte(garbageText)
	}
	es, _ := d.entries()
	if len(es) == 0 {
		return []byte("{}\n")
	}
	var sb bytes.Buffer
	sb.WriteString("{\n")
	for i, e := range es {
		nb, _ := json.Marshal(e.Name)
		sb.WriteString("    ")
		sb.Write(nb)
		sb.WriteString(": \"")
		sb.WriteString(base64.StdEncoding.EncodeToString(e.Key.Bytes()))
		sb.WriteString("\"")
		if i != len(es)-1 {
			sb.WriteString(",")
		}
		sb.WriteString("\n")
	}
	sb.WriteString("}\n")
	return sb.Bytes()
}

// docOfText reads a store file back into the notation (member order and duplicates kept).
func docOfText(b []byte) Doc {
	if len(b) == 0 {
		return "E"
	}
	d := json.NewDecoder(bytes.NewReader(b))
	tok, err := d.Token()
	if err != nil || tok != json.Delim('{') {
		return "G"
	}
	var es []DocEntry
	for d.More() {
		kt, err := d.Token()
		name, ok := kt.(string)
		if err != nil || !ok {
			return "G"
		}
		vt, err := d.Token()
		val, ok := vt.(string)
		if err != nil || !ok {
			return "G"
		}
		kb, err := base64.StdEncoding.DecodeString(val)
		if err != nil {
			return "G"
		}
		k, ok := parseKey(keyOfBytes(kb))
		if !ok {
			return "G"
		}
		es = append(es, DocEntry{name, k})
	}
	if tok, err = d.Token(); err != nil || tok != json.Delim('}') {
		return "G"
	}
	return mkDoc(es)
}

// selfCheckDocText: the harness's writer and json.MarshalIndent agree on sorted documents
// (so that "file unchanged" is decided on the same bytes the manager would write).
func selfCheckDocText() error {
	es := []DocEntry{{"", Key{4, 16}}, {"a", Key{1, 16}}, {"b", Key{2, 16}}}
	m := map[string][]byte{}
	for _, e := range es {
		m[e.Name] = e.Key.Bytes()
	}
	b, _ := json.MarshalIndent(m, "", "    ")
	b = append(b, '\n')
	if !bytes.Equal(b, mkDoc(es).text()) {
		return fmt.Errorf("document writer disagrees with json.MarshalIndent:\n%s\n%s", b, mkDoc(es).text())
	}
	b, _ = json.MarshalIndent(map[string][]byte{}, "", "    ")
	if !bytes.Equal(append(b, '\n'), Doc("J:").text()) {
		return fmt.Errorf("empty document writer disagrees with json.MarshalIndent")
	}
	return nil
}

// ---------- the real system ----------

type Impl struct {
	pskLen   int
	ipsk     []byte
	tcp      *ss2022.StreamServer
	udp      *ss2022.UDPServer
	mgr      *cred.Manager
	ms       *cred.ManagedServer
	dir      string
	path     string
	cancel   context.CancelFunc
	logger   *zap.Logger
	keys     []Key
	started  bool
	psc      *netiotest.PipeStreamClient
	pscCh    <-chan *netiotest.PipeConn
	cheapObs bool // lookups only (no handshakes)
	fallback bool // the TCP server has an unsafe fallback address (unauthenticated connections are forwarded there)
}

var serverAddr = conn.AddrFromIPAndPort(netip.IPv6Loopback(), 20220)
var targetAddr = conn.AddrFromIPAndPort(netip.IPv6Loopback(), 53)
var fallbackAddr = conn.AddrFromIPAndPort(netip.IPv6Loopback(), 8080)

// newImpl builds the servers as service.ServerConfig does (identity cipher config from the server PSK,
// the cred stores of the TCP/UDP servers handed to RegisterServer) and registers the store file.
func newImpl(pskLen int, hasTCP, hasUDP bool, init Doc, start bool) (*Impl, error) {
	return newImplFB(pskLen, hasTCP, hasUDP, init, start, false)
}

// newImplFB: as newImpl; with fallback the stream server is configured with an unsafe fallback address.
func newImplFB(pskLen int, hasTCP, hasUDP bool, init Doc, start, fallback bool) (*Impl, error) {
	im := &Impl{pskLen: pskLen, logger: zap.NewNop(), keys: universe(pskLen), fallback: fallback && hasTCP}
	im.ipsk = bytes.Repeat([]byte{0xA5}, pskLen)
	icc, err := ss2022.NewServerIdentityCipherConfig(im.ipsk, true)
	if err != nil {
		return nil, fmt.Errorf("harness: %w", err)
	}
	var tcpStore, udpStore *ss2022.CredStore
	if hasTCP {
		scc := ss2022.StreamServerConfig{IdentityCipherConfig: icc}
		if fallback {
			scc.UnsafeFallbackAddr = fallbackAddr
		}
		im.tcp = scc.NewStreamServer()
		tcpStore = &im.tcp.CredStore
		im.psc, im.pscCh = netiotest.NewPipeStreamClient(netio.StreamDialerInfo{Name: "c08", NativeInitialPayload: true})
	}
	if hasUDP {
		im.udp = ss2022.NewUDPServer(0, ss2022.UserCipherConfig{}, icc, ss2022.NoPadding)
		udpStore = &im.udp.CredStore
	}
	im.dir, err = os.MkdirTemp("", "c08-")
	if err != nil {
		return nil, fmt.Errorf("harness: %w", err)
	}
	im.path = filepath.Join(im.dir, "upsks.json")
	if err := os.WriteFile(im.path, init.text(), 0o644); err != nil {
		return nil, fmt.Errorf("harness: %w", err)
	}
	im.mgr = cred.NewManager(im.logger)
	ms, err := im.mgr.RegisterServer("s", im.path, pskLen, tcpStore, udpStore)
	if err != nil {
		return im, err
	}
	im.ms = ms
	if start {
		ctx, cancel := context.WithCancel(context.Background())
		im.cancel = cancel
		ms.Start(ctx)
		im.started = true
	}
	return im, nil
}

func (im *Impl) Close() {
	if im.started {
		im.cancel()
		im.ms.Stop()
	}
	if im.dir != "" {
		os.RemoveAll(im.dir)
	}
}

func classify(err error, load bool) string {
	if err == nil {
		return "ok"
	}
	var ple *ss2022.PSKLengthError
	var pe *fs.PathError
	msg := err.Error()
	switch {
	case errors.Is(err, cred.ErrEmptyUsername):
		return "err:empty-name"
	case errors.As(err, &ple):
		if load {
			return "err:invalid"
		}
		return "err:len"
	case errors.Is(err, cred.ErrNonexistentUser):
		return "err:nouser"
	case strings.Contains(msg, "already exists"):
		return "err:exists"
	case strings.Contains(msg, "already has the same uPSK"):
		return "err:same"
	case strings.Contains(msg, "duplicate uPSK"):
		if load {
			return "err:invalid"
		}
		return "err:dup"
	case errors.As(err, &pe):
		return "err:io"
	case load:
		return "err:parse"
	}
	return "err:?" + msg
}

// do executes one protocol line on the real manager and returns its result word.
func (im *Impl) do(line string) string {
	ws := strings.Fields(line)
	switch ws[0] {
	case "add":
		k, _ := parseKey(ws[2])
		return classify(im.ms.AddCredential(decName(ws[1]), k.Bytes()), false)
	case "update":
		k, _ := parseKey(ws[2])
		return classify(im.ms.UpdateCredential(decName(ws[1]), k.Bytes()), false)
	case "delete":
		return classify(im.ms.DeleteCredential(decName(ws[1])), false)
	case "reload":
		return classify(im.ms.LoadFromFile(), true)
	case "edit":
		// somebody else replaces the store file: written aside and renamed over it (an editor that truncated
		// the file in place under a reader that has it mapped would be a different hazard, not this property's)
		tmp := im.path + ".edit"
		if err := os.WriteFile(tmp, Doc(ws[1]).text(), 0o644); err != nil {
			return "harness-error:" + err.Error()
		}
		if err := os.Rename(tmp, im.path); err != nil {
			return "harness-error:" + err.Error()
		}
		return "ok"
	case "tick":
		// more than the 5 s cool-down of dequeueSave on the (fake) clock, nothing else going on
		time.Sleep(7 * time.Second)
		return "ok"
	}
	return "bad-op"
}

// Obs is what the statement's observers see.
type Obs struct {
	Creds []DocEntry        // Credentials()
	Look  [2]map[int]string // LookupUser per universe key (tcp, udp); "!" = absent
	Hs    [2]map[int]string // handshake outcome per universe key: username or "!" = rejected
	Have  [2]bool
	File  Doc
	// Forged: violations seen when unauthenticated connections were presented to a TCP server with a fallback
	// address ("<variant>: <what happened>"); empty when all of them came back as anonymous fallback requests.
	Forged []string `json:",omitempty"`
}

func (im *Impl) observe() (o Obs, err error) {
	for _, uc := range im.ms.Credentials() {
		k, ok := parseKey(keyOfBytes(uc.UPSK))
		if !ok {
			return o, fmt.Errorf("Credentials() lists a key outside the universe: %s=%x", uc.Name, uc.UPSK)
		}
		o.Creds = append(o.Creds, DocEntry{uc.Name, k})
	}
	for i := 0; i < 2; i++ {
		o.Look[i] = map[int]string{}
		o.Hs[i] = map[int]string{}
	}
	for _, k := range im.keys {
		h := ss2022.PSKHash(k.Bytes())
		if im.tcp != nil {
			o.Have[0] = true
			if c, ok := im.tcp.LookupUser(h); ok {
				o.Look[0][k.Id] = encName(c.Name)
			} else {
				o.Look[0][k.Id] = "!"
			}
			if im.cheapObs {
				o.Hs[0][k.Id] = o.Look[0][k.Id]
			} else {
				u, ok, herr := im.tcpHandshake(k)
				if herr != nil {
					return o, herr
				}
				if ok {
					o.Hs[0][k.Id] = encName(u)
				} else {
					o.Hs[0][k.Id] = "!"
				}
			}
		}
		if im.udp != nil {
			o.Have[1] = true
			if c, ok := im.udp.LookupUser(h); ok {
				o.Look[1][k.Id] = encName(c.Name)
			} else {
				o.Look[1][k.Id] = "!"
			}
			if im.cheapObs {
				o.Hs[1][k.Id] = o.Look[1][k.Id]
			} else {
				u, ok, herr := im.udpSessionOpen(k)
				if herr != nil {
					return o, herr
				}
				if ok {
					o.Hs[1][k.Id] = encName(u)
				} else {
					o.Hs[1][k.Id] = "!"
				}
			}
		}
	}
	if im.fallback && im.tcp != nil && !im.cheapObs {
		if o.Forged, err = im.unauthenticated(o); err != nil {
			return o, err
		}
	}
	b, rerr := os.ReadFile(im.path)
	if rerr != nil {
		return o, rerr
	}
	o.File = docOfText(b)
	return o, nil
}

// captureClient records the bytes a real ss2022 client would send for its handshake.
type captureClient struct{ sent []byte }

func (c *captureClient) NewStreamDialer() (netio.StreamDialer, netio.StreamDialerInfo) {
	return c, netio.StreamDialerInfo{Name: "capture", NativeInitialPayload: true}
}

func (c *captureClient) DialStream(_ context.Context, _ conn.Addr, payload []byte) (netio.Conn, error) {
	c.sent = append([]byte(nil), payload...)
	pl, pr := netio.NewPipe()
	pr.Close()
	return pl, nil
}

// clientBytes: the genuine handshake bytes of a client holding user key k.
func (im *Impl) clientBytes(k Key) ([]byte, error) {
	ccc, err := ss2022.NewClientCipherConfig(k.Bytes(), [][]byte{im.ipsk}, false)
	if err != nil {
		return nil, fmt.Errorf("harness: client cipher config: %w", err)
	}
	cap := &captureClient{}
	cc := ss2022.StreamClientConfig{Name: "c08", InnerClient: cap, Addr: serverAddr, CipherConfig: ccc}
	c, err := cc.NewStreamClient().DialStream(context.Background(), targetAddr, []byte("hello c08"))
	if err != nil {
		return nil, fmt.Errorf("harness: capture dial: %w", err)
	}
	c.Close()
	return cap.sent, nil
}

// present hands raw bytes to the real stream server as a new connection.
func (im *Impl) present(b []byte) (netio.ConnRequest, error) {
	pl, pr := netio.NewPipe()
	done := make(chan struct{})
	go func() {
		defer close(done)
		pl.Write(b)
		pl.CloseWrite()
	}()
	req, err := im.tcp.HandleStream(pr, im.logger)
	pr.Close()
	pl.Close()
	<-done
	return req, err
}

// unauthenticated presents connections that must NOT authenticate to a server with a fallback address and
// reports every one that is not handed back as an anonymous fallback request: for every listed user V
//
//	forged-identity: V's identity header (every user holds the server iPSK and sees uPSK hashes) in front of a
//	                 fixed-length header sealed under another universe key (listed or not);
//	garbage-header:  V's identity header, random bytes where the sealed header should be;
//	replay:          V's own genuine handshake presented a second time;
//
// and unknown-identity: a genuine handshake of a key that is not listed.
func (im *Impl) unauthenticated(o Obs) (bad []string, err error) {
	saltLen := im.pskLen
	icc, err := ss2022.NewServerIdentityCipherConfig(im.ipsk, false)
	if err != nil {
		return nil, fmt.Errorf("harness: %w", err)
	}
	check := func(variant, what string, b []byte) {
		req, herr := im.present(b)
		switch {
		case herr != nil:
			bad = append(bad, fmt.Sprintf("%s: %s: refused (%v) although a fallback address is configured", variant, what, herr))
		case !req.Addr.Equals(fallbackAddr):
			bad = append(bad, fmt.Sprintf("%s: %s: accepted as a request to %v for user %q", variant, what, req.Addr, req.Username))
		case req.Username != "":
			bad = append(bad, fmt.Sprintf("%s: %s: handed to the fallback address but attributed to user %q", variant, what, req.Username))
		}
	}
	for _, v := range im.keys {
		owner := o.Look[0][v.Id]
		if owner == "!" {
			b, err := im.clientBytes(v)
			if err != nil {
				return nil, err
			}
			check("unknown-identity", fmt.Sprintf("genuine handshake under unlisted key %d", v.Id), b)
			continue
		}
		vh := ss2022.PSKHash(v.Bytes())
		for _, a := range im.keys {
			if a == v {
				continue
			}
			b, err := im.clientBytes(a)
			if err != nil {
				return nil, err
			}
			blk, err := icc.TCP(b[:saltLen])
			if err != nil {
				return nil, fmt.Errorf("harness: identity cipher: %w", err)
			}
			blk.Encrypt(b[saltLen:saltLen+ss2022.IdentityHeaderLength], vh[:])
			check("forged-identity", fmt.Sprintf("identity header of %s (key %d) in front of a header sealed under key %d", owner, v.Id, a.Id), b)
		}
		b, err := im.clientBytes(v)
		if err != nil {
			return nil, err
		}
		g := append([]byte(nil), b...)
		for i := saltLen + ss2022.IdentityHeaderLength; i < len(g); i++ {
			g[i] ^= byte(0x5a + i)
		}
		check("garbage-header", fmt.Sprintf("identity header of %s (key %d) in front of garbage", owner, v.Id), g)
		if req, herr := im.present(b); herr != nil || !req.Addr.Equals(targetAddr) || encName(req.Username) != owner {
			bad = append(bad, fmt.Sprintf("genuine: handshake of %s (key %d) with a fallback address configured: err=%v addr=%v user=%q", owner, v.Id, herr, req.Addr, req.Username))
		}
		check("replay", fmt.Sprintf("genuine handshake of %s (key %d) presented again", owner, v.Id), b)
	}
	return bad, nil
}

// tcpHandshake: a real ss2022 client with this user key dials through a pipe; the real stream server handles it.
func (im *Impl) tcpHandshake(k Key) (user string, accepted bool, err error) {
	ccc, err := ss2022.NewClientCipherConfig(k.Bytes(), [][]byte{im.ipsk}, false)
	if err != nil {
		return "", false, fmt.Errorf("harness: client cipher config: %w", err)
	}
	cc := ss2022.StreamClientConfig{Name: "c08", InnerClient: im.psc, Addr: serverAddr, CipherConfig: ccc}
	client := cc.NewStreamClient()
	done := make(chan struct{})
	go func() {
		defer close(done)
		c, derr := client.DialStream(context.Background(), targetAddr, []byte("hello c08"))
		if derr == nil {
			c.Close()
		}
	}()
	pc := <-im.pscCh
	req, herr := im.tcp.HandleStream(pc, im.logger)
	pc.Close()
	<-done
	if herr != nil {
		return "", false, nil
	}
	if im.fallback && req.Addr.Equals(fallbackAddr) {
		// not authenticated: forwarded to the fallback address; it must be nobody's
		if req.Username != "" {
			return "", false, fmt.Errorf("fallback request for a rejected key is attributed to user %q", req.Username)
		}
		return "", false, nil
	}
	if !req.Addr.Equals(targetAddr) {
		return "", false, fmt.Errorf("accepted handshake carries target %v", req.Addr)
	}
	return req.Username, true, nil
}

// udpSessionOpen: a real ss2022 UDP client session packs its first packet; the real UDP server opens a session for it.
func (im *Impl) udpSessionOpen(k Key) (user string, accepted bool, err error) {
	ccc, err := ss2022.NewClientCipherConfig(k.Bytes(), [][]byte{im.ipsk}, true)
	if err != nil {
		return "", false, fmt.Errorf("harness: client cipher config: %w", err)
	}
	c := ss2022.NewUDPClient("c08", "ip", serverAddr, 1500, conn.DefaultUDPClientListenConfig, 0, ccc, ss2022.NoPadding)
	ctx := context.Background()
	info, sess, err := c.NewSession(ctx)
	if err != nil {
		return "", false, fmt.Errorf("harness: NewSession: %w", err)
	}
	defer sess.Close()
	const payloadLen = 32
	front := info.PackerHeadroom.Front + 8
	b := make([]byte, front+payloadLen+info.PackerHeadroom.Rear)
	copy(b[front:], "c08 udp session open payload 32b")
	_, ps, pl, err := sess.Packer.PackInPlace(ctx, b, targetAddr, front, payloadLen)
	if err != nil {
		return "", false, fmt.Errorf("harness: PackInPlace: %w", err)
	}
	p := b[ps : ps+pl]
	csid, err := im.udp.SessionInfo(p)
	if err != nil {
		return "", false, nil
	}
	unp, username, err := im.udp.NewUnpacker(p, csid)
	if err != nil {
		return "", false, nil
	}
	ta, _, _, err := unp.UnpackInPlace(b, netip.AddrPortFrom(netip.IPv6Loopback(), 10800), ps, pl)
	if err != nil {
		return "", false, nil
	}
	if !ta.Equals(targetAddr) {
		return "", false, fmt.Errorf("accepted packet carries target %v", ta)
	}
	return username, true, nil
}

// dump renders an observation exactly as the Lean driver renders the model state.
func (o Obs) dump(keys []Key) string {
	var sb strings.Builder
	sb.WriteString("creds=")
	for i, e := range o.Creds {
		if i > 0 {
			sb.WriteByte(',')
		}
		sb.WriteString(encName(e.Name) + ":" + e.Key.String())
	}
	live := func(tag string, have bool, m map[int]string) {
		sb.WriteString(";" + tag + "=")
		if !have {
			sb.WriteString("none")
			return
		}
		for i, k := range keys {
			if i > 0 {
				sb.WriteByte(',')
			}
			sb.WriteString(strconv.Itoa(k.Id) + ":" + m[k.Id])
		}
	}
	live("tcp", o.Have[0], o.Look[0])
	live("htcp", o.Have[0], o.Hs[0])
	live("udp", o.Have[1], o.Look[1])
	live("hudp", o.Have[1], o.Hs[1])
	sb.WriteString(";file=" + string(o.File))
	return sb.String()
}

func sortedEntries(es []DocEntry) []DocEntry {
	c := append([]DocEntry(nil), es...)
	sort.Slice(c, func(i, j int) bool {
		if c[i].Name != c[j].Name {
			return c[i].Name < c[j].Name
		}
		return c[i].Key.String() < c[j].Key.String()
	})
	return c
}
