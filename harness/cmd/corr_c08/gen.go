package main

import (
	"fmt"
	"strings"

	"ssvharness/internal/common"
)

// Case is one history (engine "cred") or one race (engine "conc").
type Case struct {
	Kind     string   `json:"kind"` // seq | race
	PSKLen   int      `json:"psk_len"`
	TCP      bool     `json:"tcp"`
	UDP      bool     `json:"udp"`
	Fallback bool     `json:"fallback,omitempty"` // the TCP server has an unsafe fallback address
	Init     Doc      `json:"init"`
	Ops      []string `json:"ops"`            // protocol lines (seq: the history; race: the sequential prefix)
	Race     []string `json:"race,omitempty"` // race: the operations started together
	Reps     int      `json:"reps,omitempty"` // race: how often the race is repeated from the same start
}

func (c Case) initLine() string {
	ks := make([]string, 0, 4)
	for _, k := range universe(c.PSKLen) {
		ks = append(ks, k.String())
	}
	b := func(x bool) string {
		if x {
			return "1"
		}
		return "0"
	}
	return fmt.Sprintf("init %d %s %s %s %s", c.PSKLen, b(c.TCP), b(c.UDP), c.Init, strings.Join(ks, ","))
}

func (c Case) sig() string {
	fb := ""
	if c.Fallback {
		fb = "fb|"
	}
	return fb + c.initLine() + "|" + strings.Join(c.Ops, "|") + "||" + strings.Join(c.Race, ";")
}

var names = []string{"a", "b", "c", "d"}

// genState is the generator's own rough idea of the listing (only used to aim at collisions;
// it deliberately ignores duplicate-key rejection so that both outcomes are exercised).
type genState struct {
	r      *common.Rng
	pskLen int
	users  map[string]Key
}

func (g *genState) name() string {
	if g.r.Chance(1, 30) {
		return ""
	}
	return common.Pick(g.r, names)
}

func (g *genState) existing() (string, bool) {
	var ns []string
	for _, n := range append([]string{""}, names...) {
		if _, ok := g.users[n]; ok {
			ns = append(ns, n)
		}
	}
	if len(ns) == 0 {
		return "", false
	}
	return common.Pick(g.r, ns), true
}

func (g *genState) key(avoidOwner string) Key {
	if g.r.Chance(1, 25) {
		return wrongKey(g.pskLen)
	}
	// a key somebody else owns (the duplicate-key shape), fairly often
	if g.r.Chance(1, 3) {
		for _, n := range append([]string{""}, names...) {
			if k, ok := g.users[n]; ok && n != avoidOwner && g.r.Bool() {
				return k
			}
		}
	}
	return common.Pick(g.r, universe(g.pskLen))
}

func (g *genState) doc() Doc {
	switch g.r.Intn(12) {
	case 0:
		return "G"
	case 1:
		return "E"
	case 2:
		return "J:"
	}
	// start from the current idea of the listing, then disturb it
	var es []DocEntry
	for _, n := range append([]string{""}, names...) {
		if k, ok := g.users[n]; ok {
			es = append(es, DocEntry{n, k})
		}
	}
	nmut := g.r.Intn(3)
	if len(es) == 0 {
		nmut = 1 + g.r.Intn(3)
	}
	for i := 0; i < nmut; i++ {
		switch g.r.Intn(7) {
		case 0, 1: // add / replace a member
			e := DocEntry{g.name(), g.key("")}
			es = append(es, e)
		case 2: // drop a member
			if len(es) > 0 {
				j := g.r.Intn(len(es))
				es = append(es[:j], es[j+1:]...)
			}
		case 3: // rotate a member's key
			if len(es) > 0 {
				es[g.r.Intn(len(es))].Key = g.key("")
			}
		case 4: // member order (same set, different bytes)
			if len(es) > 1 {
				j := g.r.Intn(len(es) - 1)
				es[j], es[j+1] = es[j+1], es[j]
			}
		case 5: // two users, one key
			if len(es) > 0 {
				es = append(es, DocEntry{g.name(), es[g.r.Intn(len(es))].Key})
			}
		case 6: // same member name twice
			if len(es) > 0 {
				es = append(es, DocEntry{es[g.r.Intn(len(es))].Name, g.key("")})
			}
		}
	}
	return mkDoc(es)
}

// adopt: the generator's idea after a reload of doc d (if it is plausible that it loads)
func (g *genState) adopt(d Doc) {
	es, ok := d.entries()
	if !ok {
		return
	}
	m := map[string]Key{}
	seen := map[Key]bool{}
	for _, e := range es {
		m[e.Name] = e.Key
	}
	for _, k := range m {
		if k.Len != g.pskLen || seen[k] {
			return
		}
		seen[k] = true
	}
	g.users = m
}

func (g *genState) op() string {
	switch x := g.r.Intn(100); {
	case x < 28:
		n := g.name()
		k := g.key(n)
		if _, ok := g.users[n]; !ok && n != "" && k.Len == g.pskLen {
			g.users[n] = k
		}
		return "add " + encName(n) + " " + k.String()
	case x < 50:
		n, ok := g.existing()
		if !ok || g.r.Chance(1, 8) {
			n = g.name()
		}
		k := g.key(n)
		if g.r.Chance(1, 8) { // same-key update
			if cur, ok := g.users[n]; ok {
				k = cur
			}
		}
		if _, ok := g.users[n]; ok && k.Len == g.pskLen {
			g.users[n] = k
		}
		return "update " + encName(n) + " " + k.String()
	case x < 65:
		n, ok := g.existing()
		if !ok || g.r.Chance(1, 6) {
			n = g.name()
		}
		delete(g.users, n)
		return "delete " + encName(n)
	case x < 73:
		return "reload"
	case x < 85:
		return "edit " + string(g.doc())
	default:
		return "tick"
	}
}

func genInit(g *genState) Doc {
	switch g.r.Intn(10) {
	case 0:
		return "J:"
	case 1:
		return g.doc() // may be garbage / duplicate keys: registration must fail cleanly
	}
	n := 1 + g.r.Intn(3)
	var es []DocEntry
	ks := universe(g.pskLen)
	perm := []int{0, 1, 2, 3}
	for i := 3; i > 0; i-- {
		j := g.r.Intn(i + 1)
		perm[i], perm[j] = perm[j], perm[i]
	}
	for i := 0; i < n; i++ {
		es = append(es, DocEntry{names[perm[i]], ks[g.r.Intn(4)]})
		if i > 0 && g.r.Chance(3, 4) {
			es[i].Key = ks[perm[i]]
		}
	}
	d := mkDoc(es)
	g.adopt(d)
	return d
}

func genSeq(r *common.Rng, maxOps int) Case {
	g := &genState{r: r, users: map[string]Key{}}
	g.pskLen = common.Pick(r, []int{16, 32})
	c := Case{Kind: "seq", PSKLen: g.pskLen}
	switch r.Intn(4) {
	case 0:
		c.TCP = true
	case 1:
		c.UDP = true
	default:
		c.TCP, c.UDP = true, true
	}
	c.Fallback = c.TCP && r.Chance(1, 4)
	c.Init = genInit(g)
	n := r.Range(1, maxOps)
	pendingEdit := Doc("")
	for i := 0; i < n; i++ {
		op := g.op()
		if pendingEdit != "" && r.Chance(2, 3) {
			op = "reload"
		}
		if strings.HasPrefix(op, "edit ") {
			pendingEdit = Doc(op[5:])
		} else if op == "reload" && pendingEdit != "" {
			g.adopt(pendingEdit)
			pendingEdit = ""
		}
		c.Ops = append(c.Ops, op)
	}
	if r.Chance(2, 3) {
		c.Ops = append(c.Ops, "tick")
	}
	return c
}

// genRace: a short sequential prefix, then two or three operations aimed at the same user / key / file.
func genRace(r *common.Rng) Case {
	g := &genState{r: r, users: map[string]Key{}}
	g.pskLen = common.Pick(r, []int{16, 32})
	c := Case{Kind: "race", PSKLen: g.pskLen, TCP: true, UDP: true, Reps: 6}
	if r.Chance(1, 4) {
		c.UDP = false
	}
	var es []DocEntry
	ks := universe(g.pskLen)
	for i := 0; i < r.Intn(3); i++ {
		es = append(es, DocEntry{names[i], ks[i]})
	}
	c.Init = mkDoc(es)
	g.adopt(c.Init)
	for i := 0; i < r.Intn(3); i++ {
		op := g.op()
		if strings.HasPrefix(op, "edit ") || op == "reload" || op == "tick" {
			continue
		}
		c.Ops = append(c.Ops, op)
	}
	c.Ops = append(c.Ops, "tick")
	// the contended user and key
	n := common.Pick(r, names[:3])
	k := common.Pick(r, ks)
	mk := func() string {
		switch r.Intn(10) {
		case 0, 1, 2:
			return "add " + n + " " + k.String()
		case 3:
			return "add " + common.Pick(r, names) + " " + k.String() // other user, same key
		case 4, 5:
			return "update " + n + " " + common.Pick(r, ks).String()
		case 6, 7:
			return "delete " + n
		default:
			return "reload"
		}
	}
	m := 2 + r.Intn(2)
	hasReload := false
	for i := 0; i < m; i++ {
		op := mk()
		hasReload = hasReload || op == "reload"
		c.Race = append(c.Race, op)
	}
	if hasReload {
		if r.Bool() {
			// the file was edited before the race starts, so that the reload takes it
			c.Ops = append(c.Ops, "edit "+string(g.doc()))
		} else {
			// ... or it is edited while the operations run
			c.Race = append(c.Race, "edit "+string(g.doc()))
		}
	}
	return c
}
