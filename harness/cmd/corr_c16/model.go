package main

import "ssvharness/internal/common"

func compareModel(res []result, o *common.Options, rep *common.Report) error { return nil }
func stringsEngine(r *common.Rng, o *common.Options, rep *common.Report) error { return nil }
