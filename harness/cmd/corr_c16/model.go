package main

import (
	"encoding/hex"
	"fmt"
	"net/http"
	"os"
	"sort"
	"strings"

	"ssvharness/internal/common"

	"github.com/database64128/shadowsocks-go/conn"
)

func hx(s string) string {
	if s == "" {
		return "-"
	}
	return hex.EncodeToString([]byte(s))
}

func unhx(s string) string {
	if s == "-" {
		return ""
	}
	b, _ := hex.DecodeString(s)
	return string(b)
}

var framingNames = map[string]bool{"host": true, "content-length": true, "transfer-encoding": true, "trailer": true}

// fields as net/http hands them to the proxy code: values without optional white space, framing fields taken out
func fieldsArg(hs []HF) string {
	var parts []string
	for _, h := range hs {
		if framingNames[strings.ToLower(h.K)] {
			continue
		}
		parts = append(parts, hx(h.K)+":"+hx(ows(h.V)))
	}
	if len(parts) == 0 {
		return "-"
	}
	return strings.Join(parts, ",")
}

func namesArg(ns []string) string {
	if len(ns) == 0 {
		return "-"
	}
	var parts []string
	for _, n := range ns {
		parts = append(parts, hx(n))
	}
	return strings.Join(parts, ",")
}

func b01(b bool) string {
	if b {
		return "1"
	}
	return "0"
}

// canonical form of a field list for comparison: sorted by name, values of one name in order
func canonFields(hs []HF, skip func(HF) bool) string {
	type kv struct{ k, v string }
	var xs []kv
	for _, h := range hs {
		if skip != nil && skip(h) {
			continue
		}
		xs = append(xs, kv{h.K, ows(h.V)})
	}
	sort.SliceStable(xs, func(i, j int) bool { return xs[i].k < xs[j].k })
	var sb strings.Builder
	for _, x := range xs {
		fmt.Fprintf(&sb, "%q=%q;", x.k, x.v)
	}
	return sb.String()
}

func parseModelFields(s string) []HF {
	if s == "-" {
		return nil
	}
	var hs []HF
	for _, kv := range strings.Split(s, ",") {
		k, v, _ := strings.Cut(kv, ":")
		hs = append(hs, HF{K: unhx(k), V: unhx(v)})
	}
	return hs
}

func skipFramingImpl(h HF) bool {
	n := strings.ToLower(h.K)
	return framingNames[n] || n == "connection"
}

// expected address for a host according to the model's case split, evaluated with the repository's parsers
func addrFor(class string) (string, bool) {
	f := strings.Fields(class)
	switch f[0] {
	case "empty":
		return "", false
	case "hp80":
		a, err := conn.AddrFromHostPort(unhx(f[1]), 80)
		return a.String(), err == nil
	case "parse":
		a, err := conn.ParseAddr(unhx(f[1]))
		return a.String(), err == nil
	}
	return "", false
}

func compareModel(res []result, o *common.Options, rep *common.Report) error {
	// pass 1: the case split of hostHeaderToAddr for every request
	var l1 []string
	for _, r := range res {
		for _, q := range r.c.Reqs {
			l1 = append(l1, "hostclass "+hx(q.Host))
		}
	}
	classes, err := common.RunDriverOnce(o.Driver, l1)
	if err != nil {
		return err
	}
	// pass 2: sessions
	var l2 []string
	type span struct{ reqAt, nReq, respAt, nResp int }
	spans := make([]span, len(res))
	addrs := make([][]string, len(res))
	ci := 0
	for i, r := range res {
		c, obs := r.c, r.obs
		var toks []string
		for _, u := range c.Users {
			toks = append(toks, hx(token(u)))
		}
		if len(toks) == 0 {
			toks = []string{"-"}
		}
		l2 = append(l2, "cfg "+b01(c.Auth)+" "+strings.Join(toks, ","))
		sp := span{reqAt: len(l2)}
		for j, q := range c.Reqs {
			class := classes[ci]
			ci++
			addr, ok := addrFor(class)
			if q.Method == "CONNECT" && q.Garbage == "" {
				a, err := conn.ParseAddr(q.Target)
				addr, ok = a.String(), err == nil
			}
			addrs[i] = append(addrs[i], addr)
			if j >= obs.ClientHeads { // the proxy acts on a request as soon as it has its head
				continue
			}
			if q.Garbage != "" {
				l2 = append(l2, "garbage")
			} else {
				l2 = append(l2, strings.Join([]string{"req", hx(q.Method), hx(q.Host), b01(q.Close), b01(ok), fieldsArg(q.Headers), namesArg(q.Body.Announce), fieldsArg(q.Body.Trailers)}, " "))
			}
			sp.nReq++
		}
		sp.respAt = len(l2)
		for _, kj := range obs.OriginSent {
			idx := c.FirstFwd + kj[0]
			if idx >= len(c.Scripts) {
				break
			}
			p := c.Scripts[idx].Resps[kj[1]]
			if p.Garbage != "" {
				l2 = append(l2, "badresp")
			} else {
				loc := "n"
				if p.LocState == "one" {
					loc = "h" + hx(p.LocHost)
					if p.LocHost == "" {
						loc = "h-"
					}
				}
				method := ""
				if kj[0] < len(obs.Origin) {
					method, _, _ = strings.Cut(obs.Origin[kj[0]].Line, " ")
				}
				eof := p.Body.Kind == "eof" && method != "HEAD"
				l2 = append(l2, strings.Join([]string{"resp", fmt.Sprint(p.Status), b01(p.Close), b01(eof), loc, fieldsArg(p.Headers), namesArg(p.Body.Announce), fieldsArg(p.Body.Trailers)}, " "))
			}
			sp.nResp++
		}
		spans[i] = sp
	}
	out, err := common.RunDriverOnce(o.Driver, l2)
	if err != nil {
		return err
	}
	if os.Getenv("C16_SHOWMODEL") != "" {
		for i := range l2 {
			fmt.Fprintf(os.Stderr, "%.150s\n    => %.150s\n", l2[i], out[i])
		}
	}
	for i, r := range res {
		c, obs := r.c, r.obs
		if obs.Panic != "" || obs.Hang {
			rep.Diverge(common.Divergence{Engine: "httpproxy", Case: c, Impl: "panic/hang: " + obs.Panic, Model: "total"})
			continue
		}
		sp := spans[i]
		mreq := out[sp.reqAt : sp.reqAt+sp.nReq]
		mresp := out[sp.respAt : sp.respAt+sp.nResp]
		diverge := func(what string, impl, model any) {
			rep.Diverge(common.Divergence{Engine: "httpproxy", Case: c, Impl: impl, Model: model, Note: what})
		}
		// (a) the handshake
		n407 := 0
		handle := ""
		first := -1
		for j, m := range mreq {
			switch {
			case m == "407":
				n407++
				continue
			case m == "407-closed":
				handle = fmt.Sprintf("err:authfail-close:%d", n407+1)
			case m == "readerr":
				handle = "err:readerr"
				if n407 > 0 {
					handle = fmt.Sprintf("err:authfail-then-readerr:%d", n407)
				}
			case m == "connect":
				handle = "connect"
			case m == "400":
				handle = "err:badhost"
				if c.Reqs[j].Method == "CONNECT" {
					handle = "err:badtarget"
				}
			case strings.HasPrefix(m, "fwd "):
				handle = "fwd"
			default:
				handle = "?" + m
			}
			first = j
			break
		}
		if handle == "" { // the client's requests ran out during the handshake: ReadRequest sees EOF (or the cut request)
			handle = "err:readerr"
			if n407 > 0 {
				handle = fmt.Sprintf("err:authfail-then-readerr:%d", n407)
			}
		}
		if obs.Handle != handle {
			diverge("ServerHandle outcome", obs.Handle, handle)
			continue
		}
		if (handle == "fwd" || handle == "connect") && obs.Addr != addrs[i][first] {
			diverge("target address", obs.Addr, addrs[i][first])
		}
		if handle == "fwd" && c.Auth {
			// the user the connection is attributed to owns a token the accepted request carries
			okUser := false
			for _, u := range c.Users {
				if u.Name == obs.User {
					for _, h := range c.Reqs[first].Headers {
						if strings.EqualFold(h.K, "Proxy-Authorization") && strings.HasSuffix(ows(h.V), " "+token(u)) {
							okUser = true
						}
					}
				}
			}
			if !okUser {
				diverge("username", obs.User, "owner of a presented token")
			}
		}
		if handle != "fwd" {
			if len(obs.Origin) > 0 {
				diverge("origin contacted", len(obs.Origin), 0)
			}
			continue
		}
		// (b) requests at the origin: a prefix of the model's forward list
		var fwd []string
		for _, m := range mreq[first:] {
			if strings.HasPrefix(m, "fwd ") {
				fwd = append(fwd, m)
			} else {
				break
			}
		}
		nComplete := 0
		for k, m := range obs.Origin {
			if !m.Complete {
				break
			}
			nComplete++
			if k >= len(fwd) {
				diverge("more requests at the origin than the model forwards", len(obs.Origin), len(fwd))
				break
			}
			f := strings.Fields(fwd[k])
			implH := canonFields(m.Headers, func(h HF) bool {
				n := strings.ToLower(h.K)
				return framingNames[n] || (n == "connection" && strings.EqualFold(h.V, "close"))
			})
			modH := canonFields(parseModelFields(f[1]), nil)
			if implH != modH {
				diverge(fmt.Sprintf("header of origin request %d", k), implH, modH)
			}
			implT, modT := canonFields(m.Trailers, nil), canonFields(parseModelFields(f[2]), nil)
			if implT != modT {
				diverge(fmt.Sprintf("trailer of origin request %d", k), implT, modT)
			}
		}
		quiet := c.OriginCloseAfter < 0 && c.ClientCut < 0
		for _, m := range mresp {
			if !strings.HasPrefix(m, "deliver 0 ") {
				quiet = false
			}
		}
		if quiet && nComplete != len(fwd) {
			diverge("number of requests at the origin (nothing ended the connection early)", nComplete, len(fwd))
		}
		// (c) responses at the client
		var fromOrigin []*Msg
		got502 := false
		for _, m := range obs.Client {
			if len(m.get("X-Resp-Id")) > 0 {
				if m.Complete {
					fromOrigin = append(fromOrigin, m)
				}
			} else if statusOf(m.Line) == 502 {
				got502 = true
			}
		}
		n := 0
		want502 := false
		for _, m := range mresp {
			if m == "502" {
				want502 = true
			}
			if !strings.HasPrefix(m, "deliver ") {
				continue
			}
			f := strings.Fields(m)
			if n >= len(fromOrigin) {
				n++
				continue
			}
			cm := fromOrigin[n]
			implH := canonFields(cm.Headers, skipFramingImpl)
			modH := canonFields(parseModelFields(f[3]), skipFramingImpl)
			if implH != modH {
				diverge(fmt.Sprintf("header of client response %d", n), implH, modH)
			}
			implT, modT := canonFields(cm.Trailers, nil), canonFields(parseModelFields(f[4]), nil)
			if implT != modT {
				diverge(fmt.Sprintf("trailer of client response %d", n), implT, modT)
			}
			hasClose := false
			for _, v := range cm.get("Connection") {
				if strings.EqualFold(v, "close") {
					hasClose = true
				}
			}
			_ = hasClose // whether Response.Write announces close is net/http's serialisation (e.g. a HEAD response without Content-Length); the end of the connection is compared through the counts
			n++
		}
		if n != len(fromOrigin) {
			diverge("number of responses delivered to the client", len(fromOrigin), n)
		}
		if want502 != got502 && c.OriginCut < 0 && c.ClientCut < 0 && c.OriginCloseAfter < 0 { // a response cut by the origin may or may not parse; what the client then sees is net/http's
			diverge("502 after a malformed response", got502, want502)
		}
	}
	return nil
}

// stringsEngine: CanonicalHeaderKey and TrimSpace against the model's functions.
func stringsEngine(r *common.Rng, o *common.Options, rep *common.Report) error {
	n := o.Budget(3000, 60000)
	alph := []string{"a", "Z", "-", "_", "x", "0", " ", "\t", ",", ":", "\u00e9", "\u00a0", "\u0085", "\u2003", "\u3000", "\u200b", "\v", "\f", "\r", "\n", "~", "|", "(", "@", "A-b", "te", "CONNECTION", "\u1680", "\u2028", "\u202f", "\u205f", "\u180e", "\x7f", "\x1f", "\u2000", "\u200a", "\u1fff"}
	var ins []string
	var lines []string
	for i := 0; i < n; i++ {
		var sb strings.Builder
		k := r.Range(0, 8)
		for j := 0; j < k; j++ {
			sb.WriteString(common.Pick(r, alph))
		}
		s := sb.String()
		if r.Chance(1, 4) {
			s = recase(r, common.Pick(r, append(append([]string{}, e2eReqNames...), hopNames...)))
		}
		ins = append(ins, s)
		lines = append(lines, "canon "+hx(s), "trim "+hx(s))
	}
	out, err := common.RunDriverOnce(o.Driver, lines)
	if err != nil {
		return err
	}
	for i, s := range ins {
		rep.Case("str:"+s, s != "")
		if got, want := unhx(out[2*i]), http.CanonicalHeaderKey(s); got != want {
			rep.Diverge(common.Divergence{Engine: "strings", Case: map[string]string{"canon": s}, Impl: want, Model: got})
		}
		if got, want := unhx(out[2*i+1]), strings.TrimSpace(s); got != want {
			rep.Diverge(common.Divergence{Engine: "strings", Case: map[string]string{"trim": s}, Impl: want, Model: got})
		}
	}
	rep.Count(fmt.Sprintf("strings=%d", n))
	return nil
}
