// corr_c16: correspondence + property oracle for C16 (plain-HTTP proxying).
//
// Engine "httpproxy": the real httpproxy.ProxyServer (HandleStream = ServerHandle, then Proceed) between a scripted
// client and a scripted origin over netio pipes. The bytes received by the origin and by the client are parsed by the
// harness's own HTTP/1.1 reader and (a) judged by the property oracle written from the statement, (b) compared with
// the Lean model (SSV.Model.HttpProxy through the ssv_c16 driver). Engine "strings": CanonicalHeaderKey / TrimSpace /
// hostHeaderToAddr's case split against the model's string functions.
package main

import (
	"encoding/json"
	"fmt"
	"os"
	"runtime"
	"strconv"
	"strings"
	"sync"

	"ssvharness/internal/common"
)

type result struct {
	c   *Case
	obs *Obs
}

func runCases(cases []*Case) []result {
	res := make([]result, len(cases))
	var wg sync.WaitGroup
	sem := make(chan struct{}, max(2, min(8, runtime.NumCPU()/2)))
	for i := range cases {
		wg.Add(1)
		sem <- struct{}{}
		go func(i int) {
			defer wg.Done()
			defer func() { <-sem }()
			res[i] = result{cases[i], runImpl(cases[i])}
		}(i)
	}
	wg.Wait()
	return res
}

func sig(c *Case) string {
	b, _ := json.Marshal(c)
	return fmt.Sprintf("%x", fnv(b))
}

func fnv(b []byte) uint64 {
	h := uint64(14695981039346656037)
	for _, x := range b {
		h ^= uint64(x)
		h *= 1099511628211
	}
	return h
}

var obsSeen = map[string]bool{}

func evalCases(cases []*Case, o *common.Options, rep *common.Report) error {
	res := runCases(cases)
	for _, r := range res {
		c, obs := r.c, r.obs
		if debugObs != nil {
			debugObs(c, obs)
		}
		nontrivial := obs.Handle == "fwd" && len(obs.Origin) > 0 && len(obs.Client) > 0
		rep.Case(sig(c), nontrivial)
		rep.Count("kind=" + c.Kind)
		rep.Count("handle=" + strings.SplitN(obs.Handle, ":", 3)[min(1, len(strings.SplitN(obs.Handle, ":", 3))-1)])
		rep.Count(fmt.Sprintf("reqs<=%d", (len(c.Reqs)+4)/5*5))
		rep.Count(fmt.Sprintf("depth=%d", c.Depth))
		if c.OriginMode != "" {
			rep.Count("mode=" + c.OriginMode)
		}
		if c.Auth {
			rep.Count("auth=on")
		}
		for _, q := range c.Reqs {
			rep.Count("reqbody=" + q.Body.Kind)
			if len(q.Body.Trailers) > 0 {
				rep.Count("req-trailers")
			}
		}
		fails, observations := oracle(c, obs)
		for _, n := range observations {
			key, _, _ := strings.Cut(n, " | ")
			rep.Count(key)
			if !obsSeen[key] {
				obsSeen[key] = true
				rep.Note("observation outside the statement (not a failure): %.300s", n)
			}
		}
		for _, f := range fails {
			rep.Fail(f)
			if strings.HasPrefix(f.Key, "F16:") || strings.HasPrefix(f.Key, "F17:") || strings.HasPrefix(f.Key, "N1:") {
				rep.FindingsProbed[f.Key] = true
			}
		}
		if len(rep.Samples) < 3 && nontrivial {
			rep.Sample(map[string]any{"kind": c.Kind, "requests": len(c.Reqs), "origin_first": firstLine(obs.Origin), "client_first": firstLine(obs.Client), "handle": obs.Handle})
		}
	}
	if o.Driver != "" {
		if err := compareModel(res, o, rep); err != nil {
			return err
		}
	}
	rep.TracesValidated += len(res)
	return nil
}

func firstLine(ms []*Msg) string {
	if len(ms) == 0 {
		return ""
	}
	return ms[0].Line
}

func main() {
	o := common.ParseFlags()
	rep := common.NewReport("C16", o)
	rep.Engines = []string{"httpproxy", "strings"}
	rep.Rule = "engine httpproxy: one case = one client connection through the real ProxyServer.HandleStream + Proceed with a scripted client " +
		"(1..24 requests: methods, absolute/origin-form targets, random field sets with Connection nominations in random case/white space, hop-by-hop and credential fields, " +
		"bodies by Content-Length or chunked with announced/unannounced trailers, Expect/100-continue waits, pipelining depth 1..20, host changes incl. case/port near misses, " +
		"CONNECT first/later, malformed requests, client cut mid-request, auth on/off with failing attempts first) and a scripted origin (interim 1xx early or late, finals incl. 3xx with Location variants, " +
		"Connection: close, close-delimited bodies, chunked with trailers, HEAD, malformed responses, early close / cut, withheld responses up to 16 requests). " +
		"non-trivial = at least one request reached the origin and one response reached the client; distinct by the whole case. engine strings: random and boundary strings through canon/trim/host split."
	var err error
	if o.Replay != "" {
		var c Case
		if err = common.LoadReplay(o.Replay, &c); err == nil {
			err = evalCases([]*Case{&c}, o, rep)
		}
	} else {
		r := common.NewRng(o.Seed)
		// directed probes of the assigned findings first (stable keys F16:…, F17:…)
		probes := findingProbes()
		err = evalCases(probes, o, rep)
		rep.Note("observation probe (notes only): response `Connection: close, X-Secret` + `X-Secret: ...` -> X-Secret reached the client: %v",
			rep.Distribution["resp-hop-by-hop-forwarded:OBS:nominated"] > 0)
		for _, k := range []string{"F16:trailer-fields-escape-filter", "F17:user-agent-invented", "N1:close-after-interim-drops-final"} {
			if _, ok := rep.FindingsProbed[k]; !ok {
				rep.FindingsProbed[k] = false
			}
		}
		if err == nil && o.Driver != "" {
			err = stringsEngine(r.Fork(1<<40), o, rep)
		}
		n := o.Budget(1500, 30000)
		if v, e := strconv.Atoi(os.Getenv("C16_N")); e == nil {
			n = v
		}
		var cases []*Case
		for i := 0; i < n && err == nil; i++ {
			if hangs.Load() > 40 {
				rep.Note("stopped after %d cases: more than 40 exchanges did not finish", i)
				if len(cases) > 0 {
					err = evalCases(cases, o, rep)
				}
				break
			}
			c := genCase(r.Fork(uint64(i)), o.Search)
			cases = append(cases, &c)
			if len(cases) == 500 || i == n-1 {
				err = evalCases(cases, o, rep)
				cases = cases[:0]
			}
		}
	}
	if err != nil {
		fmt.Fprintln(os.Stderr, "corr_c16:", err)
		rep.Note("engine error: %v", err)
		rep.Write(o.Out)
		os.Exit(3)
	}
	if err := rep.Write(o.Out); err != nil {
		fmt.Fprintln(os.Stderr, err)
		os.Exit(3)
	}
}

// findingProbes: the witnesses of F16 and F17 (DESIGN §6), as ordinary cases.
func findingProbes() []*Case {
	base := func() *Case {
		return &Case{Users: []User{{"hello", "world"}}, Depth: 1, ClientCutReq: -1, ClientCut: -1, OriginCloseAfter: -1, OriginCut: -1, Kind: "probe"}
	}
	ok := Script{Resps: []Resp{{Status: 200, Reason: "OK", Headers: []HF{{K: "X-Resp-Id", V: "r0", Pad: " "}}, Body: Body{Kind: "cl", Data: []byte("hi")}}}}
	// F16: chunked request, Connection: X-Foo, trailers X-Foo and Proxy-Authorization
	f16 := base()
	f16.Reqs = []Req{{Method: "POST", Target: "http://example.com/upload", HostHdr: "example.com", SendHost: true, Host: "example.com", Path: "/upload",
		Headers: []HF{{K: "Connection", V: "X-Foo", Pad: " "}, {K: "User-Agent", V: "probe", Pad: " "}, {K: "X-Rid", V: "0", Pad: " "}},
		Body: Body{Kind: "chunked", Data: []byte("payload"), Chunks: []int{7}, Announce: []string{"X-Foo", "X-Keep"},
			Trailers: []HF{{K: "X-Foo", V: "secret", Pad: " "}, {K: "X-Keep", V: "kept", Pad: " "}, {K: "Proxy-Authorization", V: "Basic zzz", Pad: " "}}}}}
	f16.Scripts = []Script{ok}
	// F17: request without User-Agent
	f17 := base()
	f17.Reqs = []Req{{Method: "GET", Target: "http://example.com/", HostHdr: "example.com", SendHost: true, Host: "example.com", Path: "/",
		Headers: []HF{{K: "Accept", V: "*/*", Pad: " "}, {K: "X-Rid", V: "0", Pad: " "}}, Body: Body{Kind: "none"}}}
	f17.Scripts = []Script{ok}
	// N1: a request with Connection: close answered by an interim and a final response
	n1 := base()
	n1.Reqs = []Req{{Method: "POST", Target: "http://example.com/once", HostHdr: "example.com", SendHost: true, Host: "example.com", Path: "/once", Close: true,
		Headers: []HF{{K: "Connection", V: "close", Pad: " "}, {K: "User-Agent", V: "probe", Pad: " "}, {K: "X-Rid", V: "0", Pad: " "}}, Body: Body{Kind: "cl", Data: []byte("data")}}}
	n1.Scripts = []Script{{Resps: []Resp{{Status: 100, Reason: "Continue", Headers: []HF{{K: "X-Resp-Id", V: "r0.0", Pad: " "}}, Body: Body{Kind: "none"}}, ok.Resps[0]}}}
	// observation (notes only, outside the statement): a response whose Connection field carries `close` AND nominates a field:
	// net/http deletes that Connection field while parsing, so the nomination is lost before the filter runs
	ob := base()
	ob.Kind = "probe-observation"
	ob.Reqs = []Req{f17.Reqs[0]}
	ob.Reqs[0].Headers = append([]HF{{K: "User-Agent", V: "probe", Pad: " "}}, ob.Reqs[0].Headers...)
	ob.Scripts = []Script{{Resps: []Resp{{Status: 200, Reason: "OK", Close: true, Body: Body{Kind: "cl", Data: []byte("hi")},
		Headers: []HF{{K: "Connection", V: "close, X-Secret", Pad: " "}, {K: "X-Secret", V: "hop-by-hop", Pad: " "}, {K: "X-Resp-Id", V: "r0", Pad: " "}}}}}}
	// authentication enabled with an empty user list: well-formed credentials of a user that does not exist must get 407
	nu := base()
	nu.Auth, nu.Users, nu.Kind, nu.FirstFwd = true, nil, "probe-auth-no-users", 2
	r0 := f17.Reqs[0]
	r0.Headers = []HF{{K: "User-Agent", V: "probe", Pad: " "}, {K: "X-Rid", V: "0", Pad: " "}}
	r1 := r0
	r1.Headers = []HF{{K: "User-Agent", V: "probe", Pad: " "}, {K: "Proxy-Authorization", V: "Basic " + token(User{"hello", "world"}), Pad: " "}, {K: "X-Rid", V: "1", Pad: " "}}
	nu.Reqs = []Req{r0, r1}
	nu.Scripts = []Script{ok, ok}
	return []*Case{f16, f17, n1, ob, nu}
}

func init() {
	if os.Getenv("C16_SHOWOBS") != "" {
		debugObs = func(c *Case, o *Obs) {
			b, _ := json.MarshalIndent(o, "", " ")
			fmt.Fprintln(os.Stderr, string(b))
		}
	}
}

var debugObs func(c *Case, o *Obs)
