package main

import (
	"bufio"
	"bytes"
	"encoding/json"
	"errors"
	"fmt"
	"io"
	"os"
	"runtime"
	"sort"
	"strconv"
	"strings"
	"sync"
	"sync/atomic"
	"time"

	"ssvharness/internal/common"

	"github.com/database64128/shadowsocks-go/httpproxy"
	"github.com/database64128/shadowsocks-go/netio"
	"go.uber.org/zap"
)

// Msg is a message as parsed by the harness's own HTTP/1.1 reader (independent of net/http).
type Msg struct {
	Line     string `json:"line"`
	Headers  []HF   `json:"headers"`
	Body     []byte `json:"-"`
	BodyLen  int    `json:"body_len"`
	Trailers []HF   `json:"trailers,omitempty"`
	Chunked  bool   `json:"chunked,omitempty"`
	Complete bool   `json:"complete"`
}

func (m *Msg) get(name string) (vals []string) {
	for _, h := range m.Headers {
		if strings.EqualFold(h.K, name) {
			vals = append(vals, h.V)
		}
	}
	return
}

func readLine(br *bufio.Reader) (string, error) {
	s, err := br.ReadString('\n')
	if err != nil {
		return s, err
	}
	return strings.TrimRight(s, "\r\n"), nil
}

func readFields(br *bufio.Reader) ([]HF, error) {
	var hs []HF
	for {
		l, err := readLine(br)
		if err != nil {
			return hs, err
		}
		if l == "" {
			return hs, nil
		}
		k, v, ok := strings.Cut(l, ":")
		if !ok {
			return hs, fmt.Errorf("field line without colon: %q", l)
		}
		hs = append(hs, HF{K: k, V: strings.Trim(v, " \t")})
	}
}

func readHead(br *bufio.Reader) (*Msg, error) {
	l, err := readLine(br)
	if err != nil {
		if l == "" { // the peer went away between two messages (with EOF or with its own error)
			return nil, io.EOF
		}
		return &Msg{Line: l}, io.ErrUnexpectedEOF
	}
	m := &Msg{Line: l}
	m.Headers, err = readFields(br)
	if err == io.EOF {
		err = io.ErrUnexpectedEOF
	}
	return m, err
}

// readBody reads the payload according to the framing fields. noBody: HEAD response, 1xx/204/304, 2xx to CONNECT.
func readBody(br *bufio.Reader, m *Msg, noBody, isResp bool) error {
	if noBody {
		m.Complete = true
		return nil
	}
	te := strings.ToLower(strings.Join(m.get("Transfer-Encoding"), ","))
	if strings.Contains(te, "chunked") {
		m.Chunked = true
		for {
			l, err := readLine(br)
			if err != nil {
				return io.ErrUnexpectedEOF
			}
			sz, _, _ := strings.Cut(l, ";")
			n, err := strconv.ParseUint(strings.TrimSpace(sz), 16, 31)
			if err != nil {
				return fmt.Errorf("bad chunk size line %q", l)
			}
			if n == 0 {
				break
			}
			buf := make([]byte, n+2)
			if _, err := io.ReadFull(br, buf); err != nil {
				m.Body = append(m.Body, buf...)
				return io.ErrUnexpectedEOF
			}
			if buf[n] != '\r' || buf[n+1] != '\n' {
				return fmt.Errorf("chunk not terminated by CRLF")
			}
			m.Body = append(m.Body, buf[:n]...)
		}
		var err error
		m.Trailers, err = readFields(br)
		if err != nil {
			return io.ErrUnexpectedEOF
		}
		m.Complete = true
		return nil
	}
	if cl := m.get("Content-Length"); len(cl) > 0 {
		n, err := strconv.ParseUint(cl[0], 10, 31)
		if err != nil {
			return fmt.Errorf("bad Content-Length %q", cl[0])
		}
		m.Body = make([]byte, n)
		k, err := io.ReadFull(br, m.Body)
		m.Body = m.Body[:k]
		if err != nil {
			return io.ErrUnexpectedEOF
		}
		m.Complete = true
		return nil
	}
	if !isResp {
		m.Complete = true
		return nil
	}
	// delimited by close
	b, err := io.ReadAll(br)
	m.Body = b
	m.Complete = err == nil
	return io.EOF
}

func statusOf(line string) int {
	f := strings.SplitN(line, " ", 3)
	if len(f) < 2 {
		return -1
	}
	n, err := strconv.Atoi(f[1])
	if err != nil {
		return -1
	}
	return n
}

// Obs is what the harness observed around the real proxy for one case.
type Obs struct {
	Handle      string   `json:"handle"` // fwd | connect | err:<class>
	Addr        string   `json:"addr,omitempty"`
	User        string   `json:"user,omitempty"`
	Origin      []*Msg   `json:"origin"` // requests received by the origin (the last may be incomplete)
	OriginSent  [][2]int `json:"origin_sent"`
	Client      []*Msg   `json:"client"` // responses received by the client (the last may be incomplete)
	ClientEOF   bool     `json:"client_eof"`
	ClientSent  int      `json:"client_sent"`  // number of requests the client wrote completely
	ClientHeads int      `json:"client_heads"` // number of requests whose head the client wrote completely
	Hang        bool     `json:"hang,omitempty"`
	Panic       string   `json:"panic,omitempty"`
}

type clientState struct {
	mu       sync.Mutex
	cond     *sync.Cond
	finals   int
	interims int // interim responses since the last final one
	eof      bool
}

func handleErrClass(err error) string {
	var fa httpproxy.FailedAuthAttemptsError
	s := err.Error()
	switch {
	case errors.As(err, &fa) && strings.Contains(s, "failed to read HTTP request"):
		return fmt.Sprintf("err:authfail-then-readerr:%d", fa.Attempts)
	case errors.As(err, &fa) && strings.Contains(s, "failed to send 407"):
		return fmt.Sprintf("err:authfail-send:%d", fa.Attempts)
	case errors.As(err, &fa):
		return fmt.Sprintf("err:authfail-close:%d", fa.Attempts)
	case strings.Contains(s, "failed to parse host header"):
		return "err:badhost"
	case strings.Contains(s, "failed to parse request target"):
		return "err:badtarget"
	case strings.Contains(s, "failed to read HTTP request"):
		return "err:readerr"
	}
	return "err:other:" + s
}

var watchdog = 90 * time.Second

func init() {
	if v := os.Getenv("C16_WATCHDOG_S"); v != "" {
		if n, err := strconv.Atoi(v); err == nil {
			watchdog = time.Duration(n) * time.Second
		}
	}
}

var dumpOnce sync.Once

// hangs counts the cases cut by the watchdog in this run.
var hangs atomic.Int64

// runImpl plays the case against the real proxy server: client <-pipe-> HandleStream/Proceed <-> origin.
func runImpl(c *Case) *Obs {
	obs := &Obs{}
	cfg := httpproxy.ServerConfig{EnableBasicAuth: c.Auth}
	for _, u := range c.Users {
		cfg.Users = append(cfg.Users, httpproxy.ServerUserCredentials{Username: u.Name, Password: u.Pass})
	}
	server, err := cfg.NewProxyServer()
	if err != nil {
		obs.Panic = "NewProxyServer: " + err.Error()
		return obs
	}
	logger := zap.NewNop()
	cl, sv := netio.NewPipe()
	var obsMu sync.Mutex
	var wg sync.WaitGroup
	var originConn netio.Conn
	var ocMu sync.Mutex

	recoverTo := func(where string) {
		if p := recover(); p != nil {
			obsMu.Lock()
			obs.Panic = fmt.Sprintf("%s: %v", where, p)
			obsMu.Unlock()
			cl.Close()
			sv.Close()
		}
	}

	// ---- server + origin ----
	wg.Go(func() {
		defer recoverTo("server")
		req, err := server.HandleStream(sv, logger)
		if err != nil {
			obsMu.Lock()
			obs.Handle = handleErrClass(err)
			obsMu.Unlock()
			sv.Close()
			return
		}
		obsMu.Lock()
		obs.Addr = req.Addr.String()
		obs.User = req.Username
		obsMu.Unlock()
		oc, err := req.PendingConn.Proceed()
		if err != nil {
			obsMu.Lock()
			obs.Handle = "err:proceed"
			obsMu.Unlock()
			sv.Close()
			return
		}
		if oc == netio.Conn(sv) { // CONNECT: the tunnel is the client connection itself
			obsMu.Lock()
			obs.Handle = "connect"
			obsMu.Unlock()
			sv.Close()
			return
		}
		obsMu.Lock()
		obs.Handle = "fwd"
		obsMu.Unlock()
		ocMu.Lock()
		originConn = oc
		ocMu.Unlock()
		runOrigin(c, oc, obs, &obsMu)
	})

	// ---- client ----
	st := &clientState{}
	st.cond = sync.NewCond(&st.mu)
	wg.Go(func() { // reader
		defer recoverTo("client-reader")
		br := bufio.NewReaderSize(cl, 1<<16)
		k := 0 // index of the request the next final response belongs to
		for {
			m, err := readHead(br)
			if m != nil {
				obsMu.Lock()
				obs.Client = append(obs.Client, m)
				obsMu.Unlock()
			}
			if err != nil {
				break
			}
			code := statusOf(m.Line)
			method := ""
			if k < len(c.Reqs) {
				method = c.Reqs[k].Method
				if c.Reqs[k].Garbage != "" {
					method = ""
				}
			}
			noBody := code/100 == 1 || code == 204 || code == 304 || method == "HEAD" || (method == "CONNECT" && code/100 == 2)
			if code == 407 && len(m.get("Content-Length")) == 0 && len(m.get("Transfer-Encoding")) == 0 {
				noBody = true // the proxy's own 407 carries no framing fields and the connection stays open
			}
			err = readBody(br, m, noBody, true)
			m.BodyLen = len(m.Body)
			st.mu.Lock()
			if code/100 == 1 {
				st.interims++
			} else {
				st.finals++
				st.interims = 0
				k++
			}
			st.cond.Broadcast()
			st.mu.Unlock()
			if err != nil {
				if os.Getenv("C16_SHOWOBS") != "" {
					fmt.Fprintln(os.Stderr, "client reader stops:", err)
				}
				break
			}
		}
		st.mu.Lock()
		st.eof = true
		st.cond.Broadcast()
		st.mu.Unlock()
		obsMu.Lock()
		obs.ClientEOF = true
		obsMu.Unlock()
		cl.Close() // the proxy ended the connection (or broke the framing): the client goes away
	})
	wg.Go(func() { // writer
		defer recoverTo("client-writer")
		for i, q := range c.Reqs {
			st.mu.Lock()
			for !st.eof && i-st.finals >= c.Depth {
				st.cond.Wait()
			}
			dead := st.eof
			st.mu.Unlock()
			if dead {
				return
			}
			head, body := q.wire()
			cut := -1
			if c.ClientCutReq == i {
				cut = c.ClientCut
			}
			if cut >= 0 && cut < len(head) {
				cl.Write(head[:cut])
				cl.CloseWrite()
				return
			}
			if _, err := cl.Write(head); err != nil {
				return
			}
			obsMu.Lock()
			obs.ClientHeads = i + 1
			obsMu.Unlock()
			if q.WaitContinue {
				st.mu.Lock()
				for !st.eof && !(st.finals > i || (st.finals == i && st.interims > 0)) {
					st.cond.Wait()
				}
				st.mu.Unlock()
			}
			if cut >= 0 && cut-len(head) < len(body) {
				if cut-len(head) > 0 {
					cl.Write(body[:cut-len(head)])
				}
				cl.CloseWrite()
				return
			}
			if len(body) > 0 {
				// written in a few pieces so that the proxy sees partial bodies
				for len(body) > 0 {
					n := min(len(body), 16384)
					if _, err := cl.Write(body[:n]); err != nil {
						return
					}
					body = body[n:]
				}
			}
			obsMu.Lock()
			obs.ClientSent = i + 1
			obsMu.Unlock()
		}
		// all requests sent: wait for their responses, then leave
		st.mu.Lock()
		for !st.eof && st.finals < len(c.Reqs) {
			st.cond.Wait()
		}
		st.mu.Unlock()
		cl.CloseWrite()
	})

	done := make(chan struct{})
	go func() { wg.Wait(); close(done) }()
	wd := watchdog
	if hangs.Load() >= 2 { // hanging is established: the generous limit is only needed to avoid a false first verdict
		wd = min(watchdog, 10*time.Second)
	}
	select {
	case <-done:
	case <-time.After(wd):
		hangs.Add(1)
		obsMu.Lock()
		obs.Hang = true
		obsMu.Unlock()
		if os.Getenv("C16_DUMP") != "" {
			dumpOnce.Do(func() {
				buf := make([]byte, 1<<20)
				buf = buf[:runtime.Stack(buf, true)]
				os.WriteFile(os.Getenv("C16_DUMP"), buf, 0o644)
				b, _ := json.Marshal(c)
				os.WriteFile(os.Getenv("C16_DUMP")+".case.json", append([]byte(`{"case":`), append(b, '}')...), 0o644)
			})
		}
		cl.Close()
		sv.Close()
		ocMu.Lock()
		if originConn != nil {
			originConn.Close()
		}
		ocMu.Unlock()
		select {
		case <-done:
		case <-time.After(10 * time.Second):
		}
	}
	obsMu.Lock()
	defer obsMu.Unlock()
	cp := *obs
	return &cp
}

type originEvent struct {
	k    int
	kind int // 0 = head read, 1 = request complete
}

func runOrigin(c *Case, oc netio.Conn, obs *Obs, obsMu *sync.Mutex) {
	events := make(chan originEvent, 4096)
	var wg sync.WaitGroup
	received := 0
	var rmu sync.Mutex
	rcond := sync.NewCond(&rmu)
	readerDone := false
	wg.Go(func() { // reader
		br := bufio.NewReaderSize(oc, 1<<16)
		for k := 0; ; k++ {
			m, err := readHead(br)
			if m != nil {
				obsMu.Lock()
				obs.Origin = append(obs.Origin, m)
				obsMu.Unlock()
			}
			if err != nil {
				break
			}
			events <- originEvent{k, 0}
			err = readBody(br, m, false, false)
			m.BodyLen = len(m.Body)
			if err != nil {
				break
			}
			rmu.Lock()
			received = k + 1
			rcond.Broadcast()
			rmu.Unlock()
			events <- originEvent{k, 1}
		}
		rmu.Lock()
		readerDone = true
		rcond.Broadcast()
		rmu.Unlock()
		close(events)
	})
	wg.Go(func() { // writer
		defer func() {
			// the origin is done: close, and keep draining events so that the reader never blocks
			oc.Close()
			for range events {
			}
		}()
		next := func(k, kind int) bool {
			for ev := range events {
				if ev.k == k && ev.kind == kind {
					return true
				}
			}
			return false
		}
		send := func(k, j int, b []byte) bool {
			if c.OriginMode == "split" && len(b) > 3 && c.Scripts[c.FirstFwd+k].Resps[j].Garbage == "" {
				// several writes: one cut inside the head, one or two inside the body
				rr := common.NewRng(c.SplitSeed ^ uint64(k*64+j+1)*0x9e3779b97f4a7c15)
				headEnd := bytes.Index(b, []byte("\r\n\r\n"))
				if headEnd < 1 {
					headEnd = len(b) - 1
				}
				cuts := []int{rr.Range(1, headEnd)}
				if rr.Bool() {
					cuts = append(cuts, min(headEnd+rr.Range(1, 4), len(b)-1))
				}
				for n := rr.Range(0, 2); n > 0 && len(b)-headEnd-4 > 2; n-- {
					cuts = append(cuts, headEnd+4+rr.Intn(len(b)-headEnd-4))
				}
				sort.Ints(cuts)
				pos := 0
				for _, cut := range cuts {
					if cut <= pos || cut >= len(b) {
						continue
					}
					if _, err := oc.Write(b[pos:cut]); err != nil {
						return false
					}
					pos = cut
				}
				b = b[pos:]
			}
			if _, err := oc.Write(b); err != nil {
				return false
			}
			obsMu.Lock()
			obs.OriginSent = append(obs.OriginSent, [2]int{k, j})
			obsMu.Unlock()
			return true
		}
		for k := 0; ; k++ {
			if c.OriginCloseAfter == k && c.OriginCut < 0 {
				return
			}
			if !next(k, 0) {
				return
			}
			idx := c.FirstFwd + k
			if idx >= len(c.Scripts) {
				return
			}
			s := c.Scripts[idx]
			method := ""
			obsMu.Lock()
			if k < len(obs.Origin) {
				method, _, _ = strings.Cut(obs.Origin[k].Line, " ")
			}
			obsMu.Unlock()
			j := 0
			if s.EarlyInterim && len(s.Resps) > 1 && c.OriginHold <= 1 {
				if !send(k, 0, s.Resps[0].wire(method)) {
					return
				}
				j = 1
			}
			if !next(k, 1) {
				return
			}
			if c.OriginHold > 1 {
				rmu.Lock()
				for received < c.OriginHold && !readerDone {
					rcond.Wait()
				}
				rmu.Unlock()
			}
			if c.OriginMode == "coalesce" && k == 0 && c.OriginHold > 1 {
				// ONE write with everything the origin has to say to the first OriginHold requests
				type seg struct {
					k, j, end int
					garbage   bool
				}
				var batch []byte
				var segs []seg
				for kk := 0; kk < c.OriginHold && c.FirstFwd+kk < len(c.Scripts); kk++ {
					m := ""
					obsMu.Lock()
					if kk < len(obs.Origin) {
						m, _, _ = strings.Cut(obs.Origin[kk].Line, " ")
					}
					obsMu.Unlock()
					for jj, p := range c.Scripts[c.FirstFwd+kk].Resps {
						start := len(batch)
						batch = append(batch, p.wire(m)...)
						if p.Garbage != "" { // a malformed response takes effect as soon as its first bytes are read
							segs = append(segs, seg{kk, jj, start + 1, true})
						} else {
							segs = append(segs, seg{kk, jj, len(batch), false})
						}
					}
				}
				n, err := oc.Write(batch)
				obsMu.Lock()
				for _, sg := range segs {
					if sg.end <= n {
						obs.OriginSent = append(obs.OriginSent, [2]int{sg.k, sg.j})
					}
				}
				obsMu.Unlock()
				if err != nil {
					return
				}
				k = c.OriginHold - 1
				continue
			}
			for ; j < len(s.Resps); j++ {
				b := s.Resps[j].wire(method)
				if c.OriginCloseAfter == k && c.OriginCut >= 0 && j == len(s.Resps)-1 {
					// (a body delimited by close cannot be cut short observably: any prefix of it is a complete response)
					if c.OriginCut >= len(b) || (s.Resps[j].Body.Kind == "eof" && s.Resps[j].Garbage == "") {
						send(k, j, b)
					} else {
						oc.Write(b[:c.OriginCut])
					}
					return
				}
				if !send(k, j, b) {
					return
				}
				if s.Resps[j].Body.Kind == "eof" && s.Resps[j].Garbage == "" && method != "HEAD" {
					return // a body delimited by close: the origin closes
				}
			}
		}
	})
	wg.Wait()
}

var _ = bytes.Equal
