package main

import (
	"encoding/base64"
	"fmt"
	"strings"

	"ssvharness/internal/common"
)

// HF is one header (or trailer) field as it is put on the wire: name with the sender's casing,
// value without the optional white space around it (Pad is added around the value on the wire).
type HF struct {
	K   string `json:"k"`
	V   string `json:"v"`
	Pad string `json:"pad,omitempty"` // optional white space put before and after the value on the wire
}

// Body describes the payload of a message and how it is framed.
type Body struct {
	Kind     string   `json:"kind"`               // none | cl | chunked | eof (responses only: delimited by close)
	Data     []byte   `json:"data,omitempty"`     // payload
	Chunks   []int    `json:"chunks,omitempty"`   // chunk sizes (chunked), sum == len(Data)
	Trailers []HF     `json:"trailers,omitempty"` // trailer fields sent after the last chunk
	Announce []string `json:"announce,omitempty"` // names listed in the Trailer header field
}

type Req struct {
	Method       string `json:"method"`
	Target       string `json:"target"`            // request-target as sent (absolute-form or origin-form)
	HostHdr      string `json:"host_hdr"`          // Host header field value
	SendHost     bool   `json:"send_host"`         // whether a Host header field is sent
	Host         string `json:"host"`              // effective host: authority of an absolute-form target, else HostHdr
	Path         string `json:"path"`              // the origin-form target the origin must see
	Headers      []HF   `json:"headers"`           // fields as sent, excluding Host and the framing fields
	Close        bool   `json:"close"`             // a Connection field carries the close option
	Body         Body   `json:"body"`              //
	WaitContinue bool   `json:"wait_continue"`     // client sends the body only after an interim response (or a final one)
	Garbage      string `json:"garbage,omitempty"` // if set, these raw bytes are sent instead of a request
}

type Resp struct {
	Status  int    `json:"status"`
	Reason  string `json:"reason"`
	Headers []HF   `json:"headers"`
	Close   bool   `json:"close"` // Connection: close sent by the origin
	Body    Body   `json:"body"`
	// LocHost: for 3xx, what net/url finds as the host of the single Location value: "-" = no/unparsable/multiple
	LocState string `json:"loc_state,omitempty"` // "" (no Location) | "one" | "many" | "bad"
	LocHost  string `json:"loc_host,omitempty"`
	Garbage  string `json:"garbage,omitempty"`
}

// Script is what the origin sends for the k-th request it receives.
type Script struct {
	EarlyInterim bool   `json:"early_interim"` // send the first interim response as soon as the head of the request was read
	Resps        []Resp `json:"resps"`         // interim responses, then exactly one final response (last)
}

type User struct {
	Name string `json:"name"`
	Pass string `json:"pass"`
}

type Case struct {
	Auth  bool   `json:"auth"`
	Users []User `json:"users"`
	Reqs  []Req  `json:"reqs"`
	// Scripts[i] answers client request i (if it reaches the origin). FirstFwd = index of the first client
	// request that is expected to reach the origin (the origin answers the k-th request it receives with Scripts[FirstFwd+k]).
	Scripts  []Script `json:"scripts"`
	FirstFwd int      `json:"first_fwd"`
	Depth    int      `json:"depth"` // max. number of requests in flight on the client side
	// ClientCut: if >= 0 the client stops after this many bytes of request ClientCutReq and closes its write side.
	ClientCutReq int `json:"client_cut_req"`
	ClientCut    int `json:"client_cut"`
	// OriginCloseAfter: the origin closes after having answered this many requests (-1: it closes after the proxy did).
	OriginCloseAfter int `json:"origin_close_after"`
	// OriginCut: if >= 0 the final response to request number OriginCloseAfter (0-based, counted at the origin) is cut after this many bytes, then the origin closes.
	OriginCut int `json:"origin_cut"`
	// OriginHold: the origin withholds all responses until it has received this many requests.
	OriginHold int `json:"origin_hold"`
	// OriginMode: how the origin puts its responses on the wire: "" = one write per response; "coalesce" = the responses to
	// the first OriginHold requests in ONE write (they arrive together in the proxy's read buffer); "split" = every response in
	// several writes cut inside the head and inside the body (cut points derived from SplitSeed).
	OriginMode string `json:"origin_mode,omitempty"`
	SplitSeed  uint64 `json:"split_seed,omitempty"`
	Kind       string `json:"kind"` // generator bucket (for the distribution only)
}

// ---------- wire encoding (harness side, independent of net/http) ----------

func (h HF) wire() string { return h.K + ":" + h.Pad + h.V + h.Pad + "\r\n" }

func chunkedBytes(b Body) []byte {
	var sb strings.Builder
	pos := 0
	for _, n := range b.Chunks {
		if n == 0 {
			continue
		}
		fmt.Fprintf(&sb, "%x\r\n", n)
		sb.Write(b.Data[pos : pos+n])
		sb.WriteString("\r\n")
		pos += n
	}
	if pos < len(b.Data) {
		fmt.Fprintf(&sb, "%x\r\n", len(b.Data)-pos)
		sb.Write(b.Data[pos:])
		sb.WriteString("\r\n")
	}
	sb.WriteString("0\r\n")
	for _, t := range b.Trailers {
		sb.WriteString(t.wire())
	}
	sb.WriteString("\r\n")
	return []byte(sb.String())
}

func framing(b Body, headResp bool) (hdr string, body []byte) {
	switch b.Kind {
	case "cl":
		hdr = fmt.Sprintf("Content-Length: %d\r\n", len(b.Data))
		body = b.Data
		if headResp {
			body = nil
		}
	case "chunked":
		hdr = "Transfer-Encoding: chunked\r\n"
		if len(b.Announce) > 0 {
			hdr += "Trailer: " + strings.Join(b.Announce, ", ") + "\r\n"
		}
		body = chunkedBytes(b)
		if headResp {
			body = nil
		}
	case "eof":
		body = b.Data
	}
	return
}

// head and body bytes of a request as the client sends them.
func (r Req) wire() (head, body []byte) {
	if r.Garbage != "" {
		return []byte(r.Garbage), nil
	}
	var sb strings.Builder
	sb.WriteString(r.Method + " " + r.Target + " HTTP/1.1\r\n")
	if r.SendHost {
		sb.WriteString("Host: " + r.HostHdr + "\r\n")
	}
	fh, fb := framing(r.Body, false)
	// framing fields in the middle of the other fields
	for i, h := range r.Headers {
		if i == len(r.Headers)/2 {
			sb.WriteString(fh)
			fh = ""
		}
		sb.WriteString(h.wire())
	}
	sb.WriteString(fh)
	sb.WriteString("\r\n")
	return []byte(sb.String()), fb
}

func (r Resp) wire(reqMethod string) []byte {
	if r.Garbage != "" {
		return []byte(r.Garbage)
	}
	var sb strings.Builder
	fmt.Fprintf(&sb, "HTTP/1.1 %03d %s\r\n", r.Status, r.Reason)
	fh, fb := framing(r.Body, reqMethod == "HEAD")
	for i, h := range r.Headers {
		if i == len(r.Headers)/2 {
			sb.WriteString(fh)
			fh = ""
		}
		sb.WriteString(h.wire())
	}
	sb.WriteString(fh)
	sb.WriteString("\r\n")
	return append([]byte(sb.String()), fb...)
}

func token(u User) string {
	return base64.StdEncoding.EncodeToString([]byte(u.Name + ":" + u.Pass))
}

// ---------- generator ----------

var e2eReqNames = []string{"Accept", "Accept-Encoding", "Accept-Language", "Authorization", "Cache-Control", "Content-Type", "Cookie", "If-None-Match",
	"Range", "Referer", "X-Foo", "X-Bar", "X-Request-Id", "X-Forwarded-For", "Via", "Expect-Ct", "Dnt", "Origin", "X_Under.score", "X-A-B-C"}
var e2eRespNames = []string{"Content-Type", "Etag", "Set-Cookie", "Cache-Control", "Vary", "X-Foo", "X-Bar", "Server", "Date", "Www-Authenticate", "Age", "Via", "X-Resp"}
var hopNames = []string{"Proxy-Connection", "Keep-Alive", "TE", "Upgrade", "Proxy-Authenticate", "Proxy-Authorization", "Proxy-Authentication-Info"}
var trailerNames = []string{"X-Checksum", "X-Foo", "X-Bar", "Server-Timing", "X-Trailer-1", "Etag"}

func recase(r *common.Rng, s string) string {
	switch r.Intn(5) {
	case 0:
		return strings.ToLower(s)
	case 1:
		return strings.ToUpper(s)
	case 2:
		b := []byte(s)
		for i := range b {
			if r.Bool() {
				if 'a' <= b[i] && b[i] <= 'z' {
					b[i] -= 32
				} else if 'A' <= b[i] && b[i] <= 'Z' {
					b[i] += 32
				}
			}
		}
		return string(b)
	default:
		return s
	}
}

const valueAlphabet = "abcdefghijklmnopqrstuvwxyzABCDEFGHIJKLMNOPQRSTUVWXYZ0123456789 ,;=:/\"'()<>@[]{}?*+-._~!#$%&|^`\t"

func genValue(r *common.Rng) string {
	n := r.Range(0, 24)
	if r.Chance(1, 30) {
		n = r.Range(200, 5000) // longer than the proxy's 4096-byte bufio buffers
	}
	b := make([]byte, n)
	for i := range b {
		b[i] = valueAlphabet[r.Intn(len(valueAlphabet))]
	}
	s := strings.Trim(string(b), " \t")
	return s
}

func genPad(r *common.Rng) string {
	return common.Pick(r, []string{" ", " ", " ", "", "  ", "\t", " \t "})
}

// genConnValue builds a Connection field value: a comma-separated list of options drawn from names.
func genConnValue(r *common.Rng, names []string, withClose bool) string {
	var opts []string
	n := r.Range(0, 3)
	for i := 0; i < n; i++ {
		var o string
		switch r.Intn(10) {
		case 0:
			o = "keep-alive"
		case 1:
			o = common.Pick(r, []string{"upgrade", "Upgrade", "UPGRADE"})
		case 2:
			o = "" // empty list element
		case 3:
			o = common.Pick(r, []string{"content-length", "host", "trailer", "user-agent", "connection", "closed", "close-x", "x close"})
		default:
			o = common.Pick(r, names)
		}
		opts = append(opts, recase(r, o))
	}
	if withClose {
		opts = append(opts, common.Pick(r, []string{"close", "Close", "CLOSE", "cLoSe"}))
		// random position
		j := r.Intn(len(opts))
		opts[j], opts[len(opts)-1] = opts[len(opts)-1], opts[j]
	}
	var sb strings.Builder
	for i, o := range opts {
		if i > 0 {
			sb.WriteString(",")
		}
		sb.WriteString(common.Pick(r, []string{"", " ", "", "  ", "\t"}))
		sb.WriteString(o)
		sb.WriteString(common.Pick(r, []string{"", "", " ", " \t"}))
	}
	return strings.Trim(sb.String(), " \t")
}

// genFields: a random multiset of fields; returns the fields and the names used.
func genFields(r *common.Rng, e2e []string, maxE2E int, isReq bool, close bool, trailerPool []string) []HF {
	var hs []HF
	var used []string
	n := r.Range(0, maxE2E)
	for i := 0; i < n; i++ {
		k := common.Pick(r, e2e)
		used = append(used, k)
		hs = append(hs, HF{K: recase(r, k), V: genValue(r), Pad: genPad(r)})
		if r.Chance(1, 6) { // repeated field
			hs = append(hs, HF{K: recase(r, k), V: genValue(r), Pad: genPad(r)})
		}
	}
	// hop-by-hop fields
	if r.Chance(1, 2) {
		m := r.Range(1, 3)
		for i := 0; i < m; i++ {
			k := common.Pick(r, hopNames)
			if !isReq && k == "TE" {
				k = "Keep-Alive"
			}
			v := genValue(r)
			if k == "TE" {
				v = common.Pick(r, []string{"trailers", "trailers, deflate;q=0.5", ""})
			}
			if k == "Upgrade" {
				v = common.Pick(r, []string{"websocket", "HTTP/3.0", "h2c"})
			}
			hs = append(hs, HF{K: recase(r, k), V: v, Pad: genPad(r)})
		}
	}
	// Connection fields
	nc := 0
	if r.Chance(3, 5) {
		nc = r.Range(1, 2)
	}
	if close && nc == 0 {
		nc = 1
	}
	pool := append(append([]string{}, used...), trailerPool...)
	pool = append(pool, common.Pick(r, e2e), "X-Absent")
	closeAt := -1
	if close {
		closeAt = r.Intn(nc)
	}
	for i := 0; i < nc; i++ {
		hs = append(hs, HF{K: recase(r, "Connection"), V: genConnValue(r, pool, i == closeAt), Pad: genPad(r)})
	}
	// shuffle
	for i := len(hs) - 1; i > 0; i-- {
		j := r.Intn(i + 1)
		hs[i], hs[j] = hs[j], hs[i]
	}
	return hs
}

func genData(r *common.Rng, id string) []byte {
	n := 0
	switch r.Intn(8) {
	case 0:
		n = 0
	case 1, 2, 3:
		n = r.Range(1, 64)
	case 4, 5:
		n = r.Range(65, 5000)
	case 6:
		n = common.Pick(r, []int{4095, 4096, 4097, 8192, 8193})
	default:
		n = r.Range(5000, 65536)
	}
	b := make([]byte, n)
	tag := []byte("<" + id + ">")
	for i := range b {
		b[i] = tag[i%len(tag)]
	}
	// sprinkle bytes that look like framing
	for k := 0; k < 3 && n > 8; k++ {
		copy(b[r.Intn(n-6):], "\r\n0\r\n")
	}
	return b
}

func genBody(r *common.Rng, id string, allowEOF bool, kinds []string) Body {
	kind := common.Pick(r, kinds)
	if kind == "eof" && !allowEOF {
		kind = "cl"
	}
	b := Body{Kind: kind}
	if kind == "none" {
		return b
	}
	b.Data = genData(r, id)
	if kind == "chunked" {
		rest := len(b.Data)
		for rest > 0 {
			n := r.Range(1, rest)
			if r.Chance(1, 2) && rest > 16 {
				n = r.Range(1, 16)
			}
			b.Chunks = append(b.Chunks, n)
			rest -= n
		}
		if r.Chance(1, 2) {
			nt := r.Range(1, 3)
			for i := 0; i < nt; i++ {
				k := common.Pick(r, trailerNames)
				if r.Chance(1, 8) {
					k = common.Pick(r, []string{"Proxy-Authorization", "Keep-Alive", "Proxy-Connection", "Proxy-Authenticate"})
				}
				// net/http refuses a trailer section that does not fit its 4096-byte read buffer ("suspiciously long trailer"): keep it short
				v := genValue(r)
				if len(v) > 64 {
					v = v[:64]
				}
				b.Trailers = append(b.Trailers, HF{K: recase(r, k), V: strings.Trim(v, " \t"), Pad: genPad(r)})
				if !r.Chance(1, 10) { // mostly announced
					b.Announce = append(b.Announce, recase(r, k))
				}
			}
		}
	}
	return b
}

var hostPool = []string{"example.com", "example.com:80", "EXAMPLE.com", "example.com:8080", "origin.test", "origin.test:443", "1.2.3.4", "1.2.3.4:8080",
	"[2001:db8::1]", "[2001:db8::1]:8080", "a.b.c.example.org", "xn--nxasmq6b.example"}

func genPath(r *common.Rng) string {
	const al = "abcdefghijklmnopqrstuvwxyz0123456789-._~"
	var sb strings.Builder
	n := r.Range(0, 3)
	for i := 0; i < n; i++ {
		sb.WriteByte('/')
		m := r.Range(0, 8)
		for j := 0; j < m; j++ {
			if r.Chance(1, 10) {
				sb.WriteString(common.Pick(r, []string{"%20", "%2F", "%C3%A9", "+", "!", "$", "&", "'", "(", ")", "*", ",", ";", "=", ":", "@"}))
			} else {
				sb.WriteByte(al[r.Intn(len(al))])
			}
		}
	}
	if n == 0 && r.Bool() {
		sb.WriteByte('/')
	}
	if r.Chance(1, 3) {
		sb.WriteString("?" + common.Pick(r, []string{"", "a=1", "a=1&b=%20x", "q=a+b", "x=/y?z"}))
	}
	return sb.String()
}

// phantomUsers: credentials that look valid; they are valid only if the case configures them.
var phantomUsers = []User{{"hello", "world"}, {"u2", "p:w"}}

// authField: a Proxy-Authorization field. valid: a configured user's token (with no users configured: a
// well-formed token of a user that does not exist).
func authField(r *common.Rng, c *Case, valid bool) HF {
	users := c.Users
	if len(users) == 0 {
		users = phantomUsers
	}
	v := ""
	if valid {
		v = common.Pick(r, []string{"Basic", "basic", "BASIC", "bAsIc"}) + " " + token(common.Pick(r, users))
	} else {
		v = common.Pick(r, []string{
			"Basic " + base64.StdEncoding.EncodeToString([]byte("hello:wrong!")),
			"Basic", "Basic ", "Basic  " + token(users[0]), "Bas1c " + token(users[0]), "Digest username=\"x\"", "Bearer " + token(users[0]), "",
			"Basic " + token(users[0]) + "x", "Basic " + strings.ToLower(token(users[0])) + "=",
		})
	}
	return HF{K: recase(r, "Proxy-Authorization"), V: v, Pad: common.Pick(r, []string{" ", "", "  "})}
}

func genReq(r *common.Rng, c *Case, i int, host string) Req {
	q := Req{Method: common.Pick(r, []string{"GET", "GET", "GET", "POST", "PUT", "HEAD", "DELETE", "OPTIONS", "PATCH", "get", "PROPFIND"}), Host: host}
	path := genPath(r)
	if r.Chance(4, 5) { // absolute-form
		q.Target = "http://" + host + path
		q.Path = path
		if !strings.HasPrefix(path, "/") {
			q.Path = "/" + path
		}
		q.SendHost = r.Chance(9, 10)
		q.HostHdr = host
		if r.Chance(1, 10) {
			q.HostHdr = "ignored.invalid"
		}
	} else { // origin-form + Host
		if !strings.HasPrefix(path, "/") {
			path = "/" + path
		}
		q.Target, q.Path, q.SendHost, q.HostHdr = path, path, true, host
	}
	q.Close = r.Chance(1, 12)
	switch q.Method {
	case "GET", "HEAD", "get":
		if r.Chance(1, 10) {
			q.Body = genBody(r, fmt.Sprintf("q%d", i), false, []string{"cl", "chunked"})
		} else {
			q.Body = Body{Kind: "none"}
		}
	case "POST", "PUT", "PATCH":
		q.Body = genBody(r, fmt.Sprintf("q%d", i), false, []string{"cl", "cl", "chunked", "chunked", "none"})
	default:
		q.Body = genBody(r, fmt.Sprintf("q%d", i), false, []string{"none", "none", "cl", "chunked"})
	}
	var tp []string
	for _, t := range q.Body.Trailers {
		tp = append(tp, t.K)
	}
	q.Headers = genFields(r, e2eReqNames, 6, true, q.Close, tp)
	if r.Chance(1, 2) {
		q.Headers = append(q.Headers, HF{K: recase(r, "User-Agent"), V: "ua/" + genValue(r), Pad: " "})
	}
	// every request carries an id so that a human can follow a replay
	q.Headers = append(q.Headers, HF{K: "X-Rid", V: fmt.Sprint(i), Pad: " "})
	// remove credentials the generic generator may have put in; authentication is decided by the caller
	hs := q.Headers[:0]
	for _, h := range q.Headers {
		if !strings.EqualFold(h.K, "Proxy-Authorization") {
			hs = append(hs, h)
		}
	}
	q.Headers = hs
	return q
}

func genResp(r *common.Rng, id string, status int, reqMethod, reqHost string, final bool) Resp {
	p := Resp{Status: status, Reason: common.Pick(r, []string{"OK", "Whatever", "Not Really", ""})}
	if p.Reason == "" {
		p.Reason = "X"
	}
	if !final {
		p.Headers = genFields(r, e2eRespNames, 2, false, false, nil)
		p.Headers = append(p.Headers, HF{K: "X-Resp-Id", V: id, Pad: " "})
		p.Body = Body{Kind: "none"}
		return p
	}
	p.Close = r.Chance(1, 15)
	switch {
	case status == 204 || status == 304:
		p.Body = Body{Kind: "none"}
	case reqMethod == "HEAD":
		p.Body = genBody(r, id, false, []string{"cl", "none"})
	default:
		p.Body = genBody(r, id, true, []string{"cl", "cl", "cl", "chunked", "chunked", "none", "eof"})
		if p.Body.Kind == "none" { // a final response that allows a body needs a delimiter: zero length
			p.Body = Body{Kind: "cl"}
		}
	}
	var tp []string
	for _, t := range p.Body.Trailers {
		tp = append(tp, t.K)
	}
	p.Headers = genFields(r, e2eRespNames, 4, false, p.Close, tp)
	p.Headers = append(p.Headers, HF{K: "X-Resp-Id", V: id, Pad: " "})
	if status/100 == 3 {
		switch r.Intn(8) {
		case 0:
			p.LocState = ""
		case 1:
			p.LocState, p.LocHost = "one", ""
			p.Headers = append(p.Headers, HF{K: recase(r, "Location"), V: "/relative/path?x=1", Pad: " "})
		case 2, 3:
			p.LocState, p.LocHost = "one", reqHost
			p.Headers = append(p.Headers, HF{K: recase(r, "Location"), V: "http://" + reqHost + "/moved", Pad: " "})
		case 4, 5:
			h := common.Pick(r, hostPool)
			p.LocState, p.LocHost = "one", h
			p.Headers = append(p.Headers, HF{K: recase(r, "Location"), V: "https://" + h + "/elsewhere", Pad: " "})
		case 6:
			p.LocState = "many"
			p.Headers = append(p.Headers, HF{K: "Location", V: "http://other.test/a", Pad: " "}, HF{K: "location", V: "http://other.test/b", Pad: " "})
		default:
			p.LocState = "bad"
			p.Headers = append(p.Headers, HF{K: "Location", V: "http://other.test/%zz", Pad: " "})
		}
	}
	return p
}

func genScript(r *common.Rng, i int, q Req, search bool) Script {
	var s Script
	ni := 0
	if r.Chance(1, 4) {
		ni = r.Range(1, 2)
	}
	if q.WaitContinue && ni == 0 { // the client waits for an interim response before it sends the body
		ni = 1
	}
	for k := 0; k < ni; k++ {
		s.Resps = append(s.Resps, genResp(r, fmt.Sprintf("r%d.%d", i, k), common.Pick(r, []int{100, 102, 103}), q.Method, q.Host, false))
	}
	if q.WaitContinue && ni > 0 {
		s.EarlyInterim = true
	} else if ni > 0 && r.Chance(1, 3) {
		s.EarlyInterim = true
	}
	st := common.Pick(r, []int{200, 200, 200, 201, 204, 304, 301, 302, 307, 308, 303, 404, 500})
	if r.Chance(1, 40) {
		s.Resps = append(s.Resps, Resp{Garbage: common.Pick(r, []string{"HTP/1.1 200 OK\r\n\r\n", "HTTP/1.1 abc OK\r\n\r\n", "garbage\r\n\r\n"})})
		return s
	}
	s.Resps = append(s.Resps, genResp(r, fmt.Sprintf("r%d", i), st, q.Method, q.Host, true))
	return s
}

func genCase(r *common.Rng, search bool) Case {
	c := Case{ClientCutReq: -1, ClientCut: -1, OriginCloseAfter: -1, OriginCut: -1}
	c.Auth = r.Chance(2, 5)
	// the configuration dimension of the authentication gate: 0, 1, many users, duplicates, empty name / password
	switch r.Intn(10) {
	case 0: // authentication enabled and NO user: nothing may ever be forwarded
		c.Users, c.Auth = nil, true
	case 1:
		c.Users = []User{common.Pick(r, []User{{"hello", "world"}, {"", "pw"}, {"name", ""}, {"", ""}, {"u", "p:w:x"}})}
	case 2:
		c.Users = []User{{"a", "1"}, {"b", "2"}, {"a", "1"}, {"c", "3"}, {"a", "other"}, {"", ""}, {"hello", "world"}}
	case 3:
		c.Users = []User{{"", "pw"}, {"name", ""}}
	default:
		c.Users = []User{{"hello", "world"}, {"u2", "p:w"}}
	}
	noUsers := c.Auth && len(c.Users) == 0
	n := r.Range(1, 6)
	switch r.Intn(10) {
	case 0, 1:
		n = r.Range(6, 24)
	case 2:
		n = 1
	}
	c.Depth = common.Pick(r, []int{1, 1, 2, 3, 5, 8, 16, 17, 20})
	host := common.Pick(r, hostPool)
	c.Kind = "plain"
	// authentication prelude
	nfail := 0
	if c.Auth {
		if r.Chance(1, 2) {
			nfail = r.Range(1, 3)
		}
	}
	if noUsers { // every request fails the check: none / malformed / well-formed credentials of users that do not exist
		nfail, n = r.Range(1, 5), 0
		c.Kind = "auth-no-users"
	}
	for i := 0; i < nfail; i++ {
		q := genReq(r, &c, i, host)
		q.WaitContinue = false
		// ServerHandle does not drain the body of a request it answers with 407, so a retry on the same
		// connection only works for requests without a body (noted in the report; outside C16's statement)
		q.Body = Body{Kind: "none"}
		cred := r.Intn(4)
		if noUsers && r.Bool() {
			cred = 4
		}
		switch cred {
		case 4: // well-formed Basic credentials (of a user that is not configured)
			q.Headers = append(q.Headers, authField(r, &c, true))
		case 0: // no credentials at all
		case 1: // a wrong one first, a valid one second: the first Basic value decides
			q.Headers = append([]HF{authField(r, &c, false)}, q.Headers...)
			if r.Bool() && strings.HasPrefix(q.Headers[0].V, "Basic ") && len(q.Headers[0].V) > 6 {
				q.Headers = append(q.Headers, authField(r, &c, true))
			}
		default:
			q.Headers = append(q.Headers, authField(r, &c, false))
		}
		if q.Close {
			c.Kind = "auth-fail-close"
		}
		c.Reqs = append(c.Reqs, q)
	}
	c.FirstFwd = nfail
	special := r.Intn(12)
	if noUsers && special != 2 && special != 4 {
		special = 11
	}
	if search && !noUsers && r.Chance(2, 3) { // violation search: early closes and arrival patterns at the origin side
		special = common.Pick(r, []int{4, 5, 6, 7, 8, 7, 8, 2})
	}
	if (special == 7 || special == 8) && n < 2 {
		n = r.Range(2, 8)
	}
	for i := nfail; i < nfail+n; i++ {
		q := genReq(r, &c, i, host)
		if c.Auth && (i == nfail || r.Chance(1, 2)) {
			q.Headers = append(q.Headers, authField(r, &c, true))
			if r.Chance(1, 6) { // non-Basic scheme first: skipped by the check
				q.Headers = append([]HF{{K: "Proxy-Authorization", V: "Digest abc", Pad: " "}}, q.Headers...)
			}
		} else if !c.Auth && r.Chance(1, 4) {
			q.Headers = append(q.Headers, authField(r, &c, r.Bool()))
		} else if c.Auth && i > nfail && r.Chance(1, 3) {
			q.Headers = append(q.Headers, authField(r, &c, false)) // later requests are not re-checked
		}
		if q.Body.Kind != "none" && r.Chance(1, 5) {
			q.WaitContinue = true
			q.Headers = append(q.Headers, HF{K: "Expect", V: "100-continue", Pad: " "})
		}
		c.Reqs = append(c.Reqs, q)
	}
	last := len(c.Reqs) - 1
	switch special {
	case 0: // host change somewhere after the first forwarded request
		if n >= 2 {
			j := r.Range(nfail+1, last)
			nh := common.Pick(r, hostPool)
			if r.Bool() { // near misses: case / port variants of the fixed host
				nh = common.Pick(r, []string{strings.ToUpper(host), host + ":80", strings.TrimSuffix(host, ":80"), host + ".", " " + host})
				nh = strings.TrimSpace(nh)
			}
			q := c.Reqs[j]
			q.Target = strings.Replace(q.Target, "http://"+host, "http://"+nh, 1)
			q.Host = nh
			if q.HostHdr == host {
				q.HostHdr = nh
			}
			c.Reqs[j] = q
			c.Kind = "host-change"
		}
	case 1: // CONNECT later
		if n >= 2 {
			j := r.Range(nfail+1, last)
			q := c.Reqs[j]
			q.Method, q.Target, q.Body, q.WaitContinue = "CONNECT", common.Pick(r, []string{host, "other.test:443", "example.com:443"}), Body{Kind: "none"}, false
			if !strings.Contains(q.Target, ":") {
				q.Target += ":443"
			}
			q.SendHost, q.HostHdr, q.Host = true, q.Target, q.Target
			c.Reqs[j] = q
			c.Kind = "connect-later"
		}
	case 2: // garbage request
		j := r.Range(0, last)
		c.Reqs[j].Garbage = common.Pick(r, []string{"GET / HTTP/1.1\r\nBad Header\r\n\r\n", "NOTHTTP\r\n\r\n", "GET http://example.com/ HTTP/1.1\r\n: z\r\n\r\n", "GET /x HTTP/9.9.9\r\n\r\n"})
		c.Kind = "garbage-request"
	case 3: // first accepted request is CONNECT
		if r.Chance(1, 2) {
			q := c.Reqs[nfail]
			q.Method, q.Target, q.Body, q.WaitContinue = "CONNECT", common.Pick(r, []string{"example.com:443", "1.2.3.4:22", "[2001:db8::1]:443", "example.com", "example.com:99999", ":80"}), Body{Kind: "none"}, false
			q.SendHost, q.HostHdr, q.Host = true, q.Target, q.Target
			c.Reqs[nfail] = q
			c.Kind = "connect-first"
		} else { // bad / empty host on the first accepted request
			q := c.Reqs[nfail]
			bad := common.Pick(r, []string{"", "example.com:99999", "example.com:", "a:b:c", "[::1", "example.com:80x", strings.Repeat("a", 256)})
			q.Target, q.SendHost, q.HostHdr, q.Host = q.Path, bad != "" || r.Bool(), bad, bad
			c.Reqs[nfail] = q
			c.Kind = "bad-host"
		}
	case 4: // client stops in the middle of a request
		j := r.Range(0, last)
		if c.Reqs[j].Garbage == "" {
			h, b := c.Reqs[j].wire()
			c.ClientCutReq, c.ClientCut = j, r.Range(1, len(h)+len(b))
			if r.Bool() {
				c.ClientCut = len(h) + len(b) - r.Range(0, min(len(b), 8))
			}
			c.Reqs = c.Reqs[:j+1]
			c.Kind = "client-cut"
		}
	case 5: // origin closes early
		c.OriginCloseAfter = r.Range(0, n)
		c.Kind = "origin-close"
		if r.Bool() && c.OriginCloseAfter < n {
			c.OriginCut = r.Range(1, 60)
			c.Kind = "origin-cut"
		}
	case 6: // the origin answers only after several requests have arrived
		if c.Depth >= 2 && c.Kind == "plain" {
			c.OriginHold = min(c.Depth, n, 16)
			for i := nfail; i < len(c.Reqs); i++ {
				c.Reqs[i].WaitContinue = false
				c.Reqs[i].Close = false
				c.Reqs[i].Headers = stripClose(c.Reqs[i].Headers)
			}
			c.Kind = "origin-hold"
		}
	case 7, 8: // the origin answers several pipelined requests in one write; a non-last response ends the connection
		if c.Kind == "plain" {
			if c.Depth < 2 {
				c.Depth = common.Pick(r, []int{2, 3, 5, 8, 16, 20})
			}
			c.OriginHold = min(c.Depth, n, 16)
			c.OriginMode = "coalesce"
			for i := nfail; i < len(c.Reqs); i++ {
				c.Reqs[i].WaitContinue = false
			}
			c.Kind = "origin-coalesce"
		}
	}
	if c.OriginMode == "" && c.OriginHold <= 1 && r.Chance(1, 4) {
		c.OriginMode, c.SplitSeed = "split", r.U64()
	}
	for i, q := range c.Reqs {
		c.Scripts = append(c.Scripts, genScript(r, i, q, search))
	}
	if c.OriginMode == "coalesce" {
		nb := c.OriginHold
		for k := 0; k < nb; k++ {
			sc := &c.Scripts[nfail+k]
			for j := range sc.Resps {
				p := &sc.Resps[j]
				if p.Body.Kind == "eof" { // a body delimited by close would swallow the rest of the write
					p.Body.Kind = "cl"
				}
				if len(p.Body.Data) > 150 && r.Chance(5, 6) { // small, so that several responses share the proxy's 4096-byte buffer
					p.Body.Data = p.Body.Data[:r.Range(0, 150)]
					p.Body.Chunks = nil
				}
				var hs []HF
				for _, h := range p.Headers {
					if len(h.V) > 100 {
						h.V = strings.Trim(h.V[:100], " \t")
					}
					hs = append(hs, h)
				}
				p.Headers = hs
			}
		}
		j := nfail + r.Intn(nb-1) // a non-last request of the batch
		fin := &c.Scripts[j].Resps[len(c.Scripts[j].Resps)-1]
		switch r.Intn(8) {
		case 0, 1, 2, 3: // Connection: close on a non-last response
			if fin.Garbage == "" && !fin.Close {
				fin.Close = true
				fin.Headers = append(fin.Headers, HF{K: recase(r, "Connection"), V: common.Pick(r, []string{"close", "Close", "x-absent, close"}), Pad: " "})
			}
		case 4, 5: // a non-last request asked to close
			if !c.Reqs[j].Close {
				c.Reqs[j].Close = true
				c.Reqs[j].Headers = append(c.Reqs[j].Headers, HF{K: "Connection", V: "close", Pad: " "})
			}
		case 6: // garbage after k good responses
			g := nfail + r.Range(1, nb-1)
			c.Scripts[g] = Script{Resps: []Resp{{Garbage: common.Pick(r, []string{"HTP/1.1 200 OK\r\n\r\n", "HTTP/1.1 abc OK\r\n\r\n", "garbage\r\n\r\n"})}}}
		}
	}
	if c.OriginHold > 1 { // withheld responses must not end the connection before the hold is released
		for i := range c.Scripts {
			c.Scripts[i].EarlyInterim = false
		}
	}
	return c
}

// stripClose removes the close option the generator put into Connection fields (used when a scenario needs a persistent connection).
func stripClose(hs []HF) []HF {
	out := hs[:0]
	for _, h := range hs {
		if strings.EqualFold(h.K, "Connection") {
			var keep []string
			for _, o := range strings.Split(h.V, ",") {
				if !strings.EqualFold(strings.Trim(o, " \t"), "close") {
					keep = append(keep, o)
				}
			}
			h.V = strings.Trim(strings.Join(keep, ","), " \t")
		}
		out = append(out, h)
	}
	return out
}
