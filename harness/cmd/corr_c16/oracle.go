package main

import (
	"bytes"
	"fmt"
	"sort"
	"strconv"
	"strings"

	"ssvharness/internal/common"
)

// The property oracle: written from the statement of C16 and RFC 9110 §7.6.1, evaluated on the bytes the
// harness origin and the harness client received around the real proxy. It does not consult the model.

var listedHopByHop = map[string]string{
	"connection": "listed", "proxy-connection": "listed", "keep-alive": "listed", "te": "listed", "transfer-encoding": "listed",
	"upgrade":             "upgrade",
	"proxy-authorization": "credential", "proxy-authenticate": "credential", "proxy-authentication-info": "credential",
}

func ows(s string) string { return strings.Trim(s, " \t") }

// nominated: the connection options of all Connection fields (lower-cased), except `close`.
func nominated(hs []HF) map[string]bool {
	m := map[string]bool{}
	for _, h := range hs {
		if !strings.EqualFold(h.K, "Connection") {
			continue
		}
		for _, o := range strings.Split(h.V, ",") {
			o = strings.ToLower(ows(o))
			if o != "" && o != "close" {
				m[o] = true
			}
		}
	}
	return m
}

// forbiddenClass says why a field must not be forwarded ("" = it must be forwarded).
func forbiddenClass(name string, nom map[string]bool, isReq bool) string {
	n := strings.ToLower(name)
	if cl, ok := listedHopByHop[n]; ok {
		if cl == "upgrade" && !isReq {
			return "" // the statement demands the removal of Upgrade for requests only
		}
		return cl + ":" + n
	}
	if nom[n] {
		return "nominated"
	}
	return ""
}

type multimap map[string][]string

func toMultimap(hs []HF, skip func(string) bool) multimap {
	m := multimap{}
	for _, h := range hs {
		n := strings.ToLower(h.K)
		if skip(n) {
			continue
		}
		m[n] = append(m[n], ows(h.V))
	}
	return m
}

func keysOf(ms ...multimap) []string {
	set := map[string]bool{}
	for _, m := range ms {
		for k := range m {
			set[k] = true
		}
	}
	var ks []string
	for k := range set {
		ks = append(ks, k)
	}
	sort.Strings(ks)
	return ks
}

func eqStrs(a, b []string) bool {
	if len(a) != len(b) {
		return false
	}
	for i := range a {
		if a[i] != b[i] {
			return false
		}
	}
	return true
}

type failer func(key, detail string)

// Response-side leaks of hop-by-hop / nominated fields are outside the statement of C16 (which demands their removal
// from requests, and order + intact bodies of responses). They are counted as observations (notes), not failures; the
// behaviour is still compared with the model field by field.
const obsPrefix = "OBS:"

var reqFraming = map[string]bool{"host": true, "content-length": true, "transfer-encoding": true, "trailer": true}

// checkFields compares the fields seen behind the proxy with the fields sent in front of it.
func checkFields(fail failer, pfx, where string, sent, got []HF, nom map[string]bool, isReq bool, skip func(string) bool, sentUA bool) {
	exp := multimap{}
	for _, h := range sent {
		n := strings.ToLower(h.K)
		if skip(n) || forbiddenClass(n, nom, isReq) != "" {
			continue
		}
		exp[n] = append(exp[n], ows(h.V))
	}
	act := toMultimap(got, skip)
	for _, k := range keysOf(exp, act) {
		e, a := exp[k], act[k]
		switch {
		case isReq && k == "user-agent" && len(a) == 1 && strings.HasPrefix(a[0], "Go-http-client/") && !eqStrs(e, a):
			// net/http's default User-Agent: the client sent none (or nominated it in Connection, so that none may be forwarded)
			fail("F17:user-agent-invented", fmt.Sprintf("%s: no User-Agent of the client is to be forwarded (sent: %v), the origin received %q", where, sentUA, a[0]))
		case len(e) == 0:
			if cl := forbiddenClass(k, nom, isReq); cl != "" {
				if !isReq {
					cl = obsPrefix + cl
				}
				fail(pfx+"hop-by-hop-forwarded:"+cl, fmt.Sprintf("%s: field %q %q must not be forwarded (%s)", where, k, a, cl))
			} else {
				fail(pfx+"hdr-added:"+k, fmt.Sprintf("%s: field %q %q was not sent", where, k, a))
			}
		case len(a) == 0:
			fail(pfx+"hdr-lost", fmt.Sprintf("%s: end-to-end field %q %q did not arrive", where, k, e))
		case !eqStrs(e, a):
			fail(pfx+"hdr-value-changed", fmt.Sprintf("%s: field %q sent %q arrived %q", where, k, e, a))
		}
	}
}

func checkTrailers(fail failer, pfx, where string, b Body, got []HF, nom map[string]bool, isReq bool) {
	announced := map[string]bool{}
	for _, a := range b.Announce {
		announced[strings.ToLower(a)] = true
	}
	exp := multimap{}      // all admissible fields
	mustHave := multimap{} // announced ones: must arrive (unannounced ones may be discarded in transit, RFC 9110 §6.5.1)
	for _, h := range b.Trailers {
		n := strings.ToLower(h.K)
		if forbiddenClass(n, nom, isReq) != "" {
			continue
		}
		exp[n] = append(exp[n], ows(h.V))
	}
	for k, v := range exp {
		if announced[k] {
			mustHave[k] = v
		}
	}
	act := toMultimap(got, func(string) bool { return false })
	for _, k := range keysOf(exp, act) {
		e, a := exp[k], act[k]
		switch {
		case len(e) == 0:
			if cl := forbiddenClass(k, nom, isReq); cl != "" && !isReq {
				fail(obsPrefix+"resp-trailer-hop-by-hop-forwarded", fmt.Sprintf("%s: trailer field %q %q (%s)", where, k, a, cl))
			} else if cl != "" {
				fail("F16:trailer-fields-escape-filter", fmt.Sprintf("%s: trailer field %q %q must not be forwarded (%s)", where, k, a, cl))
			} else {
				fail(pfx+"trailer-added", fmt.Sprintf("%s: trailer field %q %q was not sent", where, k, a))
			}
		case len(a) == 0:
			if _, ok := mustHave[k]; ok {
				fail(pfx+"trailer-lost", fmt.Sprintf("%s: announced trailer field %q did not arrive", where, k))
			}
		case !eqStrs(e, a):
			fail(pfx+"trailer-value-changed", fmt.Sprintf("%s: trailer field %q sent %q arrived %q", where, k, e, a))
		}
	}
}

func hasValidToken(c *Case, q Req) bool {
	if q.Garbage != "" {
		return false
	}
	for _, h := range q.Headers {
		if !strings.EqualFold(h.K, "Proxy-Authorization") {
			continue
		}
		v := ows(h.V)
		if len(v) > 6 && strings.EqualFold(v[:6], "Basic ") {
			for _, u := range c.Users {
				if v[6:] == token(u) {
					return true
				}
			}
		}
	}
	return false
}

func ridOf(m *Msg) (int, bool) {
	v := m.get("X-Rid")
	if len(v) != 1 {
		return 0, false
	}
	n, err := strconv.Atoi(v[0])
	return n, err == nil
}

func oracle(c *Case, o *Obs) (fs []common.OracleFailure, obsNotes []string) {
	seen := map[string]bool{}
	fail := func(key, detail string) {
		if seen[key] {
			return
		}
		seen[key] = true
		if strings.Contains(key, obsPrefix) {
			obsNotes = append(obsNotes, key+" | "+detail)
			return
		}
		fs = append(fs, common.OracleFailure{Engine: "httpproxy", Key: key, Case: c, Detail: detail})
	}
	if o.Panic != "" {
		fail("panic", o.Panic)
		return
	}
	if o.Hang {
		fail("hang", "the exchange did not finish (no side of a correct proxy ever waits for the other here)")
		return
	}

	// ---- what reached the origin ----
	f0 := c.FirstFwd
	if len(o.Origin) > 0 {
		if rid, ok := ridOf(o.Origin[0]); ok && rid < len(c.Reqs) {
			f0 = rid
		}
		if c.Auth {
			j := -1
			for i, q := range c.Reqs {
				if hasValidToken(c, q) {
					j = i
					break
				}
			}
			if len(c.Users) == 0 {
				fail("forwarded-before-auth:no-users", fmt.Sprintf("authentication is enabled and no user is configured, yet client request %d reached the origin", f0))
			} else if j < 0 || f0 < j {
				fail("forwarded-before-auth", fmt.Sprintf("client request %d reached the origin; first request with valid credentials: %d", f0, j))
			}
		}
	}
	if c.Auth && o.Handle == "connect" {
		any := false
		for _, q := range c.Reqs {
			any = any || hasValidToken(c, q)
		}
		if !any {
			key := "tunnel-before-auth"
			if len(c.Users) == 0 {
				key += ":no-users"
			}
			fail(key, "a CONNECT tunnel was granted although no request carried valid credentials")
		}
	}
	ended := -1 // index of the first client request (>= f0) after which nothing may be forwarded any more
	for k, m := range o.Origin {
		i := f0 + k
		where := fmt.Sprintf("origin request %d", k)
		if i >= len(c.Reqs) {
			fail("request-invented", where+": more requests at the origin than the client sent")
			break
		}
		q := c.Reqs[i]
		if ended >= 0 {
			fail("forwarded-after-end", fmt.Sprintf("%s (client request %d) was forwarded although client request %d had to end the connection", where, i, ended))
		}
		if q.Garbage != "" {
			fail("garbage-forwarded", where+": malformed client request forwarded")
			break
		}
		f := strings.SplitN(m.Line, " ", 3)
		if len(f) != 3 {
			if m.Complete {
				fail("request-line-broken", where+": "+m.Line)
			}
			break
		}
		if q.Method == "CONNECT" {
			fail("connect-forwarded", where+": a CONNECT request was forwarded to the origin")
		}
		if q.Host != c.Reqs[f0].Host {
			fail("other-host-forwarded"+hostDiffClass(q.Host, c.Reqs[f0].Host), fmt.Sprintf("%s: request for host %q sent on the connection to %q", where, q.Host, c.Reqs[f0].Host))
		}
		if q.Method == "CONNECT" || q.Host != c.Reqs[f0].Host {
			if ended < 0 {
				ended = i
			}
		}
		if f[0] != q.Method {
			fail("method-changed", fmt.Sprintf("%s: method %q, sent %q", where, f[0], q.Method))
		}
		if f[1] != q.Path {
			fail("target-changed", fmt.Sprintf("%s: target %q, expected %q (client sent %q)", where, f[1], q.Path, q.Target))
		}
		if len(m.Headers) == 0 && !m.Complete {
			break
		}
		if m.Complete || len(m.get("Host")) > 0 {
			if hv := m.get("Host"); len(hv) != 1 || hv[0] != q.Host {
				fail("host-changed", fmt.Sprintf("%s: Host %q, expected %q", where, hv, q.Host))
			}
		}
		if !m.Complete && k == len(o.Origin)-1 {
			// an incomplete last request (a side went away): its head may be incomplete too; only leaks are checked
			nom := nominated(q.Headers)
			for _, h := range m.Headers {
				if cl := forbiddenClass(h.K, nom, true); cl != "" && !(strings.EqualFold(h.K, "Connection") && strings.EqualFold(h.V, "close")) && !reqFraming[strings.ToLower(h.K)] {
					fail("hop-by-hop-forwarded:"+cl, fmt.Sprintf("%s: field %q must not be forwarded", where, h.K))
				}
			}
			break
		}
		nom := nominated(q.Headers)
		sentUA := false
		for _, h := range q.Headers {
			if strings.EqualFold(h.K, "User-Agent") {
				sentUA = true
			}
		}
		// the proxy's own connection management towards the origin: `Connection: close` only
		got := make([]HF, 0, len(m.Headers))
		for _, h := range m.Headers {
			if strings.EqualFold(h.K, "Connection") && strings.EqualFold(h.V, "close") {
				continue
			}
			got = append(got, h)
		}
		checkFields(fail, "", where, q.Headers, got, nom, true, func(n string) bool { return reqFraming[n] }, sentUA)
		if !bytes.Equal(m.Body, q.Body.Data) {
			fail("body-changed", fmt.Sprintf("%s: body of %d bytes, sent %d bytes", where, len(m.Body), len(q.Body.Data)))
		}
		checkTrailers(fail, "", where, q.Body, m.Trailers, nom, true)
	}

	// ---- what came back to the client ----
	// responses that the proxy made itself carry no X-Resp-Id
	var fromOrigin []*Msg
	for _, m := range o.Client {
		if len(m.get("X-Resp-Id")) > 0 {
			fromOrigin = append(fromOrigin, m)
		} else if len(fromOrigin) > 0 && m.Complete {
			code := statusOf(m.Line)
			if code != 502 {
				fail("resp-invented", fmt.Sprintf("client received %q after responses of the origin", m.Line))
			}
		}
	}
	// the sequence the origin sent, up to the first response after which the connection has to end
	type sent struct {
		k, j  int
		r     Resp
		q     Req
		final bool
	}
	var seq []sent
	hardEnd, softEnd := -1, -1
	for _, kj := range o.OriginSent {
		i := f0 + kj[0]
		if i >= len(c.Reqs) || i >= len(c.Scripts) {
			break
		}
		s := c.Scripts[c.FirstFwd+kj[0]]
		r := s.Resps[kj[1]]
		e := sent{k: kj[0], j: kj[1], r: r, q: c.Reqs[i], final: kj[1] == len(s.Resps)-1}
		if r.Garbage != "" {
			if softEnd < 0 {
				softEnd = len(seq)
			}
			if hardEnd < 0 {
				hardEnd = len(seq) - 1
			}
			break
		}
		seq = append(seq, e)
		if e.final && hardEnd < 0 && (r.Close || r.Body.Kind == "eof" || e.q.Close) {
			hardEnd = len(seq) - 1
		}
		if e.final && softEnd < 0 && r.Status/100 == 3 && r.LocState == "one" && r.LocHost != "" && r.LocHost != e.q.Host {
			softEnd = len(seq) // the proxy may close after a redirect to another host
		}
	}
	if hardEnd >= 0 && len(fromOrigin) > hardEnd+1 {
		fail("resp-after-close", fmt.Sprintf("client received %d responses of the origin; the connection had to end after %d", len(fromOrigin), hardEnd+1))
	}
	required := len(seq)
	if hardEnd >= 0 {
		required = min(required, hardEnd+1)
	}
	if softEnd >= 0 {
		required = min(required, softEnd)
	}
	complete := 0
	for _, m := range fromOrigin {
		if m.Complete {
			complete++
		}
	}
	if complete < required {
		// what ended the connection decides the key: responses the origin had sent before the close indication /
		// before a malformed response / without any end of the connection at all
		key := "resp-lost:no-end-indication"
		switch {
		case hardEnd >= 0 && required == hardEnd+1:
			key = "resp-lost:sent-before-close"
		case softEnd >= 0 && required == softEnd:
			key = "resp-lost:sent-before-malformed-or-redirect"
		}
		fail(key, fmt.Sprintf("the origin sent %d responses that had to be delivered (the connection may end only after them), the client received %d complete ones (last: %q)", required, complete, lastLine(fromOrigin)))
	}
	// every request the origin received completely (and answers: the scripted origin answers each one) gets its final
	// response, up to the first response that ends the connection
	if c.OriginHold <= 1 {
		need, ended := 0, false
		for k, m := range o.Origin {
			if !m.Complete || ended || c.FirstFwd+k >= len(c.Scripts) || (c.OriginCloseAfter >= 0 && k >= c.OriginCloseAfter) {
				break
			}
			q := c.Reqs[min(f0+k, len(c.Reqs)-1)]
			for j, r := range c.Scripts[c.FirstFwd+k].Resps {
				final := j == len(c.Scripts[c.FirstFwd+k].Resps)-1
				if r.Garbage != "" || (final && r.Status/100 == 3 && r.LocState == "one" && r.LocHost != "" && r.LocHost != q.Host) {
					ended = true
					break
				}
				need++
				if final && (r.Close || r.Body.Kind == "eof" || q.Close) {
					ended = true
				}
			}
		}
		if complete < need {
			key := "resp-lost:answered-request"
			if len(fromOrigin) > 0 && complete == len(fromOrigin) && complete < len(seq)+1 && complete >= 1 {
				last := fromOrigin[complete-1]
				if statusOf(last.Line)/100 == 1 {
					key = "N1:close-after-interim-drops-final"
				}
			}
			fail(key, fmt.Sprintf("the origin received %d complete requests whose %d responses had to come back; the client received %d (last: %q)", len(o.Origin), need, complete, lastLine(fromOrigin)))
		}
	}
	for n, m := range fromOrigin {
		where := fmt.Sprintf("client response %d", n)
		if n >= len(seq) {
			fail("resp-invented", where+": more responses than the origin sent")
			break
		}
		e := seq[n]
		id := fmt.Sprintf("r%d", c.FirstFwd+e.k)
		if !e.final {
			id = fmt.Sprintf("r%d.%d", c.FirstFwd+e.k, e.j)
		}
		if got := m.get("X-Resp-Id"); len(got) != 1 || got[0] != id {
			fail("resp-order", fmt.Sprintf("%s: carries id %q, expected %q (responses out of order or mangled)", where, got, id))
			break
		}
		if statusOf(m.Line) != e.r.Status {
			fail("resp-status", fmt.Sprintf("%s: status line %q, origin sent %d", where, m.Line, e.r.Status))
		}
		if !m.Complete {
			continue
		}
		nom := nominated(e.r.Headers)
		isHead := e.q.Method == "HEAD"
		skip := func(n string) bool {
			if n == "content-length" { // framing, except in a response to HEAD (where it is metadata unless the origin nominated it)
				return !isHead || nom[n]
			}
			return n == "transfer-encoding" || n == "trailer" || n == "connection" || n == "upgrade"
		}
		srcHdr := e.r.Headers
		if isHead && e.r.Body.Kind == "cl" {
			srcHdr = append(append([]HF{}, srcHdr...), HF{K: "Content-Length", V: strconv.Itoa(len(e.r.Body.Data))})
		}
		checkFields(fail, "resp-", where, srcHdr, m.Headers, nom, false, skip, true)
		for _, v := range m.get("Connection") {
			if !strings.EqualFold(v, "close") {
				fail("resp-hop-by-hop-forwarded:listed:connection", fmt.Sprintf("%s: Connection %q", where, v))
			}
		}
		want := e.r.Body.Data
		if isHead || e.r.Body.Kind == "none" {
			want = nil
		}
		if !bytes.Equal(m.Body, want) {
			fail("resp-body-changed", fmt.Sprintf("%s: body of %d bytes, origin sent %d bytes", where, len(m.Body), len(want)))
		}
		if !isHead {
			checkTrailers(fail, "resp-", where, e.r.Body, m.Trailers, nom, false)
		}
	}
	return
}

func lastLine(ms []*Msg) string {
	if len(ms) == 0 {
		return ""
	}
	return ms[len(ms)-1].Line
}

// hostDiffClass says how two different Host values differ (part of the oracle key).
func hostDiffClass(a, b string) string {
	strip := func(h string) string {
		if i := strings.LastIndexByte(h, ':'); i >= 0 && !strings.HasSuffix(h, "]") {
			return h[:i]
		}
		return h
	}
	switch {
	case strings.EqualFold(a, b):
		return ":case-only"
	case strings.EqualFold(strip(a), strip(b)):
		return ":port-only"
	}
	return ""
}
