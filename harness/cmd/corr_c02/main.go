// corr_c02: correspondence + property oracle for C02 (tampered, spliced or foreign SS2022 TCP
// traffic is never delivered as data).
//
// Engine "tamper": a genuine session A (and, for splices, a second genuine session B under the same
// or under a different key) is recorded as in C01; a tamper operator {bit flip, cut, delete /
// duplicate / swap of AEAD chunks, splice with B, response swap, foreign key} is applied at a
// structural position to the real wire and — same operator, same byte offsets — to the model wire
// inside the Lean driver; the altered wire is presented to a fresh real server (client->server) or to
// A's own client conn (server->client) and to the model; compared: HandleStream result (request /
// error class / fallback payload length) and the outcome of every reader call.
// The oracle is written from the statement of C02 and does not look at the model.
package main

import (
	"bytes"
	"fmt"
	"os"
	"strings"
	"sync"
	"time"

	"ssvharness/internal/common"
	. "ssvharness/internal/sstream"
)

type Tamper struct {
	Op string `json:"op"` // flip | cut | del | dup | swap | splice | spliceins
	// positions: byte offsets into A's wire (Off), lengths, offset into B's wire (OOff)
	Off  int `json:"off"`
	Bit  int `json:"bit,omitempty"`
	Len  int `json:"len,omitempty"`
	Len2 int `json:"len2,omitempty"`
	OOff int `json:"ooff,omitempty"`
}

type TCase struct {
	A       Case01 `json:"a"`
	B       Case01 `json:"b"`
	UseB    bool   `json:"use_b"`
	Dir     string `json:"dir"` // c2s | s2c
	T       Tamper `json:"tamper"`
	Kind    string `json:"kind"` // generator label of the operator/position
	Reads   []ROp  `json:"reads"`
	SegMode string `json:"seg"` // one | bytes
}

type Case01 = struct {
	Cfg     Cfg    `json:"cfg"`
	Target  Target `json:"target"`
	Payload Data   `json:"payload"`
	Writes  []WOp  `json:"writes"` // the side whose direction is tampered with writes these
}

func (t Tamper) args() string {
	switch t.Op {
	case "flip":
		return fmt.Sprintf("flip %d %d", t.Off, t.Bit)
	case "cut":
		return fmt.Sprintf("cut %d", t.Off)
	case "del":
		return fmt.Sprintf("del %d %d", t.Off, t.Len)
	case "dup":
		return fmt.Sprintf("dup %d %d", t.Off, t.Len)
	case "swap":
		return fmt.Sprintf("swap %d %d %d", t.Off, t.Len, t.Len2)
	case "splice":
		return fmt.Sprintf("splice %d %d", t.Off, t.OOff)
	default:
		return fmt.Sprintf("splice %d %d %d", t.Off, t.OOff, t.Len)
	}
}

// apply mirrors SSV.Stream.Drv.tamper (List.take / List.drop saturate at the ends).
func (t Tamper) apply(w, other []byte) ([]byte, bool) {
	take := func(b []byte, n int) []byte { return b[:min(max(n, 0), len(b))] }
	drop := func(b []byte, n int) []byte { return b[min(max(n, 0), len(b)):] }
	cat := func(xs ...[]byte) []byte { return bytes.Join(xs, nil) }
	switch t.Op {
	case "flip":
		if t.Off >= len(w) {
			return nil, false
		}
		o := bytes.Clone(w)
		o[t.Off] ^= 1 << t.Bit
		return o, true
	case "cut":
		return bytes.Clone(take(w, t.Off)), true
	case "del":
		return cat(take(w, t.Off), drop(w, t.Off+t.Len)), true
	case "dup":
		return cat(take(w, t.Off+t.Len), take(drop(w, t.Off), t.Len), drop(w, t.Off+t.Len)), true
	case "swap":
		return cat(take(w, t.Off), take(drop(w, t.Off+t.Len), t.Len2), take(drop(w, t.Off), t.Len), drop(w, t.Off+t.Len+t.Len2)), true
	case "splice":
		return cat(take(w, t.Off), drop(other, t.OOff)), true
	default:
		return cat(take(w, t.Off), take(drop(other, t.OOff), t.Len), drop(w, t.Off+t.Len)), true
	}
}

// layout of a genuine wire: AEAD chunk boundaries, and for every data-carrying chunk its end offset
// and the number of application bytes it carries.
type layout struct {
	wire   []byte
	bounds []int
	hsEnd  int // end of the handshake (c2s: variable-length header; s2c: response header)
	data   [][2]int
	stream []byte
}

func (l layout) deliverable(d int) int {
	n := 0
	for _, c := range l.data {
		if c[0] <= d {
			n += c[1]
		}
	}
	return n
}

func (l layout) isBoundary(d int) bool {
	for _, b := range l.bounds {
		if b == d {
			return true
		}
	}
	return false
}

type result struct {
	c              TCase
	sc             Script
	la, lb         layout
	altered        []byte
	h              HandleObs
	ops            []OpObs
	harnessErr     string
	sameKey        bool
	firstReadShort bool
}

func toSession(c Case01, dir string) (s Case) {
	s.Cfg, s.Target, s.Payload = c.Cfg, c.Target, c.Payload
	s.C2S, s.S2C = Seg{Mode: "one"}, Seg{Mode: "one"}
	if dir == "c2s" {
		s.CWrites = c.Writes
	} else {
		s.SWrites = c.Writes
	}
	return
}

func mkLayout(dir string, cfg Cfg, obs Obs, stream []byte) (l layout, err string) {
	if obs.Panic != "" || obs.DialErr != "" || obs.ReqFrames.Err != "" || !obs.StripOK {
		return l, "genuine session failed: " + obs.Panic + obs.DialErr + obs.ReqFrames.Err
	}
	l.stream = stream
	if dir == "c2s" {
		l.wire = obs.ServerWire
		l.bounds = ReqBoundaries(cfg, obs.ReqFrames, true)
		idx := 3
		if cfg.NIPSK > 0 {
			idx = 4
		}
		l.hsEnd = l.bounds[idx]
		l.data = append(l.data, [2]int{l.hsEnd, len(obs.ReqPayload)})
		for i, ch := range obs.ReqFrames.Chunks {
			l.data = append(l.data, [2]int{l.bounds[idx+2+2*i], len(ch)})
		}
		if obs.HandleKind != "request" {
			return l, "genuine request not accepted: " + obs.HandleErr
		}
		return
	}
	if obs.RespFrames.Err != "" || obs.SWriteErr != "" || obs.HandleKind != "request" {
		return l, "genuine response failed: " + obs.RespFrames.Err + obs.SWriteErr + obs.HandleErr
	}
	l.wire = obs.ST.Wire()
	l.bounds = RespBoundaries(cfg, obs.RespFrames)
	if len(l.bounds) >= 4 {
		l.hsEnd = l.bounds[2]
		l.data = append(l.data, [2]int{l.bounds[3], len(obs.RespFrames.First)})
		for i, ch := range obs.RespFrames.Chunks {
			l.data = append(l.data, [2]int{l.bounds[5+2*i], len(ch)})
		}
	}
	return
}

// resolve turns the generator's symbolic positions into byte offsets now that the wires are known:
// negative Off = -(1+i) means "boundary i" (same for OOff in B); Len < 0 = -(k) means "k AEAD chunks".
func resolve(t Tamper, la, lb layout) Tamper {
	bAt := func(l layout, i int) int {
		if len(l.bounds) == 0 {
			return 0
		}
		return l.bounds[i%len(l.bounds)]
	}
	span := func(l layout, off, k int) int { // length of k chunks starting at boundary offset off
		i := 0
		for i < len(l.bounds) && l.bounds[i] < off {
			i++
		}
		j := min(i+k, len(l.bounds)-1)
		if j < 0 {
			return 0
		}
		return max(l.bounds[j]-off, 0)
	}
	if t.Off < 0 {
		t.Off = bAt(la, -t.Off-1)
	}
	if t.OOff < 0 {
		t.OOff = bAt(lb, -t.OOff-1)
	}
	if t.Len < 0 {
		k := -t.Len
		t.Len = span(la, t.Off, k)
		if t.Op == "spliceins" {
			t.Len = span(lb, t.OOff, k)
		}
	}
	if t.Len2 < 0 {
		t.Len2 = span(la, t.Off+t.Len, -t.Len2)
	}
	if (t.Op == "flip" || t.Op == "cut") && len(la.wire) > 0 {
		t.Off = t.Off % len(la.wire)
	}
	return t
}

func runCase(c TCase) (r result) {
	r.c = c
	sa := toSession(c.A, c.Dir)
	obsA, scA := Run(sa, 0)
	r.sc = scA
	var err string
	stream := append(c.A.Payload.Bytes(), patternOf(c.A.Writes)...)
	if c.Dir == "s2c" {
		stream = patternOf(c.A.Writes)
	}
	if r.la, err = mkLayout(c.Dir, c.A.Cfg, obsA, stream); err != "" {
		r.harnessErr = err
		return
	}
	r.sameKey = true
	if c.UseB {
		sb := toSession(c.B, c.Dir)
		obsB, scB := Run(sb, 1)
		r.sc.Lines = append(r.sc.Lines, scB.Lines...)
		r.sc.Expect = append(r.sc.Expect, scB.Expect...)
		sb2 := append(c.B.Payload.Bytes(), patternOf(c.B.Writes)...)
		if c.Dir == "s2c" {
			sb2 = patternOf(c.B.Writes)
		}
		if r.lb, err = mkLayout(c.Dir, c.B.Cfg, obsB, sb2); err != "" {
			r.harnessErr = "B: " + err
			return
		}
		r.sameKey = c.A.Cfg.KeySeed == c.B.Cfg.KeySeed && c.A.Cfg.KeyLen == c.B.Cfg.KeyLen && c.A.Cfg.NIPSK == c.B.Cfg.NIPSK
	}
	t := resolve(c.T, r.la, r.lb)
	r.c.T = t
	w, ok := t.apply(r.la.wire, r.lb.wire)
	if !ok {
		r.harnessErr = "operator does not apply"
		return
	}
	r.altered = w
	r.sc.Add(fmt.Sprintf("0 tamper %s 1 %s %s", c.Dir, c.Dir, t.args()), fmt.Sprintf("ok-len %d", len(w)))
	sizes := []int{len(w)}
	if c.SegMode == "bytes" {
		sizes = make([]int, len(w))
		for i := range sizes {
			sizes[i] = 1
		}
	}
	if c.Dir == "c2s" {
		h, sconn, _ := Present(c.A.Cfg, w, sizes, 0, &r.sc)
		r.h = h
		if sconn != nil {
			r.ops = RunOps(sconn, c.Reads, c.A.Cfg, c.A.Target, false, true, true)
			for _, o := range r.ops {
				r.sc.Add(OpLine(0, "s", o.Op, 0, true), OpExpect(o, false))
			}
		}
		return
	}
	obsA.CT.SetScript(w, sizes)
	first := len(w)
	if len(sizes) > 0 {
		first = min(sizes[0], len(w))
	}
	rfixed := c.A.Cfg.RespPrefix.Len + c.A.Cfg.KeyLen + 11 + c.A.Cfg.KeyLen + TagSize
	r.firstReadShort = !c.A.Cfg.AllowSeg && first < rfixed
	if c.SegMode == "bytes" {
		r.sc.Add(fmt.Sprintf("0 cseg %d 1 -", first), "ok")
	} else {
		r.sc.Add(fmt.Sprintf("0 cseg %d 0 -", first), "ok")
	}
	now := time.Now().Unix()
	r.ops = RunOps(obsA.CC, c.Reads, c.A.Cfg, c.A.Target, true, true, true)
	for _, o := range r.ops {
		r.sc.Add(OpLine(0, "c", o.Op, now, true), OpExpect(o, false))
	}
	return
}

func patternOf(ops []WOp) []byte {
	var b []byte
	for _, o := range ops {
		b = append(b, o.Data.Bytes()...)
	}
	return b
}

// ---------- oracle (from the statement of C02) ----------

func firstDiff(a, b []byte) int {
	n := min(len(a), len(b))
	for i := 0; i < n; i++ {
		if a[i] != b[i] {
			return i
		}
	}
	if len(a) == len(b) {
		return -1
	}
	return n
}

func oracle(r result) (string, string) {
	c := r.c
	if r.harnessErr != "" {
		return "", ""
	}
	w := r.altered
	gen := r.la // the genuine session the receiver may legitimately be following
	have := 0
	if c.Dir == "c2s" {
		eqA := len(w) >= r.la.hsEnd && bytes.Equal(w[:r.la.hsEnd], r.la.wire[:r.la.hsEnd])
		eqB := c.UseB && r.sameKey && len(w) >= r.lb.hsEnd && bytes.Equal(w[:r.lb.hsEnd], r.lb.wire[:r.lb.hsEnd])
		switch r.h.Kind {
		case "request":
			if !eqA && !eqB {
				return "c2s:request-from-altered-or-foreign-handshake", fmt.Sprintf("%s: server produced a request although the handshake bytes are neither A's nor a genuine same-key B's", c.Kind)
			}
			if !eqA {
				gen = r.lb
			}
			if !bytes.HasPrefix(gen.stream, r.h.Payload) {
				return "c2s:request-payload-not-genuine", c.Kind
			}
			have = len(r.h.Payload)
		case "fallback":
			if len(r.h.FallbackPay) == 0 || !bytes.HasPrefix(w, r.h.FallbackPay) {
				return "c2s:fallback-payload-modified", fmt.Sprintf("%s: fallback payload (%d bytes) is not the untouched received prefix", c.Kind, len(r.h.FallbackPay))
			}
			if !r.h.FallbackConn || !bytes.Equal(append(bytes.Clone(r.h.FallbackPay), r.h.FallbackRest...), w) {
				return "c2s:fallback-stream-not-the-received-bytes", fmt.Sprintf("%s: the fallback destination got %d payload + %d further bytes, which are not the %d bytes received, unmodified", c.Kind, len(r.h.FallbackPay), len(r.h.FallbackRest), len(w))
			}
			if eqA || eqB {
				// a genuine handshake was not accepted: only legitimate if the transport cut the fixed part (first-read) — one segment here
				if c.SegMode != "bytes" || c.A.Cfg.AllowSeg {
					return "c2s:genuine-handshake-refused", c.Kind + ": fallback"
				}
			}
			return "", ""
		default:
			if strings.HasPrefix(r.h.Err, "panic:") || strings.HasPrefix(r.h.Err, "other:") {
				return "c2s:handle-" + r.h.Err, c.Kind
			}
			if (eqA || eqB) && (c.SegMode != "bytes" || c.A.Cfg.AllowSeg) {
				// genuine handshake followed by altered data: errors are only legitimate for reads, not for the handshake
				// (the variable-length header is part of hsEnd, so it is complete here)
				return "c2s:genuine-handshake-refused", c.Kind + ": " + r.h.Err
			}
			return "", ""
		}
	}
	d := firstDiff(w, gen.wire)
	limit := len(gen.stream)
	if d >= 0 {
		limit = gen.deliverable(d)
	}
	pos := have
	sawRead := false
	sawErr := false
	for i, o := range r.ops {
		if strings.HasPrefix(o.Err, "panic:") || strings.HasPrefix(o.Err, "harness:") || strings.HasPrefix(o.Err, "sink-wire") {
			return c.Dir + ":" + strings.SplitN(o.Err, ":", 2)[0], fmt.Sprintf("%s op %d: %s", c.Kind, i, o.Err)
		}
		rem := gen.stream[min(pos, len(gen.stream)):]
		if sawErr && len(o.Bytes) > 0 && !bytes.HasPrefix(rem, o.Bytes) {
			// bytes handed over by a call issued after an earlier call had failed
			if bytes.Contains(rem, o.Bytes) && len(o.Bytes) > 4 {
				return c.Dir + ":resync-after-error", fmt.Sprintf("%s op %d (%s): after a failed call the conn went on and delivered %d later bytes of the stream (a hole: not a prefix)", c.Kind, i, o.Op.Kind, len(o.Bytes))
			}
			return "F22:read-after-error-delivers-non-genuine", fmt.Sprintf("%s op %d (%s): after a failed call the conn delivered %x, which the genuine peer never sent at this point (offset %d)", c.Kind, i, o.Op.Kind, o.Bytes[:min(len(o.Bytes), 16)], pos)
		}
		if !bytes.HasPrefix(rem, o.Bytes) && sawRead && o.Op.Kind != "read" && len(o.Bytes) > 0 {
			// the copy skipped a stretch of at most one chunk and went on with genuine bytes: the left-over of the earlier Read was dropped (finding F1)
			if x := bytes.Index(rem[:min(len(rem), 65535+len(o.Bytes))], o.Bytes); x > 0 {
				return "F1:read-then-" + o.Op.Kind + "-leftover", fmt.Sprintf("%s op %d: %s after Read skipped %d buffered bytes", c.Kind, i, o.Op.Kind, x)
			}
		}
		if !bytes.HasPrefix(rem, o.Bytes) {
			return c.Dir + ":delivered-not-genuine-prefix", fmt.Sprintf("%s op %d (%s): %d bytes delivered at offset %d are not what the genuine peer wrote", c.Kind, i, o.Op.Kind, len(o.Bytes), pos)
		}
		pos += len(o.Bytes)
		if pos > limit && !sawErr {
			return c.Dir + ":delivered-beyond-alteration", fmt.Sprintf("%s op %d (%s): %d bytes delivered, only %d are carried by chunks wholly before the first altered offset %d", c.Kind, i, o.Op.Kind, pos, limit, d)
		}
		ended := (o.Op.Kind == "read" && o.Err == "eof") || (o.Op.Kind != "read" && o.Err == "ok")
		if ended && sawErr {
			// the stream failed earlier: only the prefix rule above applies to what later calls hand over
			continue
		}
		if ended {
			cleanCut := d < 0 || (d == len(w) && (d == 0 || gen.isBoundary(d)))
			if !cleanCut {
				return c.Dir + ":clean-eof-on-altered-stream", fmt.Sprintf("%s op %d (%s): end of stream reported although the wire is altered at offset %d (len %d)", c.Kind, i, o.Op.Kind, d, len(w))
			}
			if pos != limit && sawRead && o.Op.Kind != "read" && len(o.Bytes) == 0 && limit-pos <= 65535 {
				return "F1:read-then-" + o.Op.Kind + "-leftover", fmt.Sprintf("%s op %d: %s after Read returned cleanly, %d buffered bytes were never delivered", c.Kind, i, o.Op.Kind, limit-pos)
			}
			if pos != limit {
				return c.Dir + ":early-eof", fmt.Sprintf("%s op %d: end of stream after %d of %d deliverable bytes", c.Kind, i, pos, limit)
			}
		}
		if o.Op.Kind == "read" && o.Err == "ok" && o.Op.N > 0 && len(o.Bytes) == 0 {
			return c.Dir + ":stall", c.Kind
		}
		if o.Op.Kind == "read" {
			sawRead = true
		}
		if o.Err != "ok" && o.Err != "eof" {
			sawErr = true
		}
	}
	return "", ""
}

// ---------- generator ----------

func genSession(r *common.Rng, cfg Cfg, nwrites int) Case01 {
	s := Case01{Cfg: cfg}
	s.Target = Target{Kind: "4", IP: fmt.Sprintf("10.%d.%d.%d", r.Intn(256), r.Intn(256), r.Intn(256)), Port: uint16(r.Intn(65536))}
	if r.Chance(1, 3) {
		s.Target = Target{Kind: "d", Dom: Data{Seed: r.U64(), Len: r.Range(1, 40)}, Port: uint16(r.Intn(65536))}
	}
	s.Payload = Data{Seed: r.U64(), Len: common.Pick(r, []int{0, 0, 1, 2, 50, 899, 900, 1200})}
	for i := 0; i < nwrites; i++ {
		if r.Chance(1, 5) {
			// a 2-byte write whose content reads as a small chunk length (cf. F22: a payload chunk opened as a length chunk)
			s.Writes = append(s.Writes, WOp{Kind: "write", Data: RawData([]byte{0, byte(common.Pick(r, []int{1, 2, 2, 2, 16, 18}))})})
			continue
		}
		s.Writes = append(s.Writes, WOp{Kind: "write", Data: Data{Seed: r.U64(), Len: common.Pick(r, []int{1, 2, 2, 2, 16, 18, 100, 1000, r.Range(1, 5000)})}})
	}
	if r.Chance(1, 40) {
		s.Writes = append(s.Writes, WOp{Kind: "write", Data: Data{Seed: r.U64(), Len: 70000}})
	}
	return s
}

func genCfg(r *common.Rng) Cfg {
	c := Cfg{KeyLen: common.Pick(r, []int{16, 32}), KeySeed: r.U64() >> 8, NIPSK: common.Pick(r, []int{0, 0, 1, 1, 2}),
		AllowSeg: r.Bool(), Fallback: r.Chance(1, 3)}
	if r.Chance(1, 4) {
		c.ReqPrefix = Data{Seed: r.U64(), Len: r.Range(1, 24)}
	}
	if r.Chance(1, 4) {
		c.RespPrefix = Data{Seed: r.U64(), Len: r.Range(1, 24)}
	}
	return c
}

func genReads(r *common.Rng) []ROp {
	var ops []ROp
	again := []ROp{{Kind: "read", N: 70000}, {Kind: common.Pick(r, []string{"writeto", "tunnel", "read"}), N: 100}, {Kind: "read", N: 70000}, {Kind: "read", N: 2}}
	switch r.Intn(6) {
	case 0:
		return append([]ROp{{Kind: "writeto"}}, again...)
	case 1:
		return append([]ROp{{Kind: "tunnel", ViaReadFrom: r.Bool()}}, again...)
	case 2:
		ops = append(ops, ROp{Kind: "read", N: common.Pick(r, []int{1, 2, 100})}, ROp{Kind: common.Pick(r, []string{"writeto", "tunnel"})})
		return append(ops, again...)
	}
	n := common.Pick(r, []int{70000, 70000, 65551, 4096, 100, 17, 2})
	for i := 0; i < 60; i++ {
		ops = append(ops, ROp{Kind: "read", N: n})
	}
	// the caller goes on after whatever happened: more reads, then the copy paths
	switch r.Intn(3) {
	case 0:
		ops = append(ops, ROp{Kind: "writeto"}, ROp{Kind: "read", N: n})
	case 1:
		ops = append(ops, ROp{Kind: "tunnel", ViaReadFrom: r.Bool()}, ROp{Kind: "read", N: n})
	}
	return ops
}

// genCase draws one tamper case; idx walks the structural positions systematically so that a run
// of consecutive indices covers "every byte of the handshake and of the length chunks".
func genCase(r *common.Rng, idx int) TCase {
	c := TCase{Dir: common.Pick(r, []string{"c2s", "c2s", "s2c"}), SegMode: "one"}
	cfg := genCfg(r)
	c.A = genSession(r, cfg, r.Range(1, 5))
	c.Reads = genReads(r)
	if r.Chance(1, 12) {
		c.SegMode = "bytes"
	}
	nb := 40 // an upper bound of interesting boundaries
	switch k := r.Intn(20); {
	case k < 6: // bit flip at byte idx of the handshake / early chunks (walks through all offsets as idx grows)
		c.Kind = "flip"
		c.T = Tamper{Op: "flip", Off: idx % 400, Bit: r.Intn(8)}
	case k < 8: // bit flip anywhere (sampled payload bytes and tags)
		c.Kind = "flip-any"
		c.T = Tamper{Op: "flip", Off: r.Intn(12000), Bit: r.Intn(8)}
	case k < 10:
		c.Kind = "cut"
		c.T = Tamper{Op: "cut", Off: idx % 500}
		if r.Bool() {
			c.Kind = "cut-boundary"
			c.T.Off = -(1 + r.Intn(nb))
		}
	case k < 12:
		c.Kind = "drop-chunks"
		c.T = Tamper{Op: "del", Off: -(1 + r.Intn(nb)), Len: -r.Range(1, 3)}
	case k < 14:
		c.Kind = "dup-chunks"
		c.T = Tamper{Op: "dup", Off: -(1 + r.Intn(nb)), Len: -r.Range(1, 3)}
	case k < 16:
		c.Kind = "swap-chunks"
		c.T = Tamper{Op: "swap", Off: -(1 + r.Intn(nb)), Len: -r.Range(1, 2), Len2: -r.Range(1, 2)}
	default:
		c.UseB = true
		bcfg := cfg
		same := r.Bool()
		if !same {
			bcfg.KeySeed = cfg.KeySeed + 1 + uint64(r.Intn(5))
		}
		c.B = genSession(r, bcfg, r.Range(1, 5))
		if r.Chance(1, 3) { // same shape: B writes the same sizes
			c.B.Payload.Len = c.A.Payload.Len
			c.B.Target = c.A.Target
			c.B.Writes = nil
			for _, w := range c.A.Writes {
				c.B.Writes = append(c.B.Writes, WOp{Kind: "write", Data: Data{Seed: r.U64(), Len: w.Data.Len}})
			}
		}
		key := "same-key"
		if !same {
			key = "other-key"
		}
		switch r.Intn(4) {
		case 0: // whole wire of B: response swap / foreign client
			c.Kind = "swap-whole-" + key
			c.T = Tamper{Op: "splice", Off: 0, OOff: 0}
		case 1: // continue with B's stream from the same boundary
			i := r.Intn(nb)
			c.Kind = "splice-tail-" + key
			c.T = Tamper{Op: "splice", Off: -(1 + i), OOff: -(1 + i)}
		case 2: // B's handshake, A's data
			c.Kind = "splice-head-" + key
			c.T = Tamper{Op: "spliceins", Off: 0, OOff: 0, Len: -common.Pick(r, []int{2, 3, 4, 5})}
		default: // replace k chunks in the middle by B's
			i := r.Intn(nb)
			c.Kind = "splice-mid-" + key
			c.T = Tamper{Op: "spliceins", Off: -(1 + i), OOff: -(1 + i), Len: -r.Range(1, 2)}
		}
	}
	return c
}

// directed probes of finding F22 (errors of the unrepaired code are not sticky: a read issued after
// an authentication failure opens a genuine 2-byte payload chunk as a length chunk and hands the next
// length field to the caller)
func probes() []TCase {
	w := []WOp{{Kind: "write", Data: RawData([]byte("hello"))}, {Kind: "write", Data: RawData([]byte{0, 2})}, {Kind: "write", Data: RawData([]byte("7bytes!"))}}
	a := Case01{Cfg: Cfg{KeyLen: 32, KeySeed: 7}, Target: Target{Kind: "4", IP: "1.2.3.4", Port: 80}, Writes: w}
	rd := []ROp{{Kind: "read", N: 70000}, {Kind: "read", N: 70000}, {Kind: "read", N: 70000}, {Kind: "read", N: 70000}, {Kind: "writeto"}}
	return []TCase{
		// client->server: duplicate the length chunk of the 2-byte write (boundary 5 = end of the first data chunk)
		{A: a, Dir: "c2s", Kind: "probe-F22-dup-length-chunk", T: Tamper{Op: "dup", Off: -6, Len: -1}, Reads: rd, SegMode: "one"},
		// server->client: "hello" travels with the response header, boundary 3 = end of the first payload chunk
		{A: a, Dir: "s2c", Kind: "probe-F22-dup-length-chunk", T: Tamper{Op: "dup", Off: -4, Len: -1}, Reads: rd, SegMode: "one"},
	}
}

// ---------- evaluation ----------

func evalCases(cases []TCase, o *common.Options, rep *common.Report) error {
	res := make([]result, len(cases))
	var wg sync.WaitGroup
	sem := make(chan struct{}, 8)
	for i, c := range cases {
		wg.Add(1)
		sem <- struct{}{}
		go func() {
			defer wg.Done()
			defer func() { <-sem }()
			for attempt := 0; attempt < 3; attempt++ {
				t0 := time.Now()
				if pan := common.Safely(func() { res[i] = runCase(c) }); pan != nil {
					res[i] = result{c: c, harnessErr: fmt.Sprintf("panic in harness: %v", pan)}
				}
				// real timestamps are validated within ±30 s by the code under test: a stalled session is not an answer
				if time.Since(t0) <= 15*time.Second {
					break
				}
				res[i] = result{c: c, harnessErr: "infrastructure: session stalled"}
			}
		}()
	}
	wg.Wait()
	answers := make([][]string, len(cases))
	if o.Driver != "" {
		shards := 12
		errs := make([]error, shards)
		for s := 0; s < shards; s++ {
			wg.Add(1)
			go func() {
				defer wg.Done()
				var lines []string
				var idx []int
				for i := s; i < len(res); i += shards {
					lines = append(lines, res[i].sc.Lines...)
					idx = append(idx, i)
				}
				if len(lines) == 0 {
					return
				}
				out, err := common.RunDriverOnce(o.Driver, lines)
				if err != nil {
					errs[s] = err
					return
				}
				pos := 0
				for _, i := range idx {
					n := len(res[i].sc.Lines)
					answers[i] = out[pos : pos+n]
					pos += n
				}
			}()
		}
		wg.Wait()
		for _, e := range errs {
			if e != nil {
				return e
			}
		}
	}
	for i, r := range res {
		c := r.c
		if r.harnessErr != "" {
			rep.Count("skipped:" + strings.SplitN(r.harnessErr, ":", 2)[0])
			rep.Case(fmt.Sprintf("%+v", c), false)
			if strings.HasPrefix(r.harnessErr, "panic") {
				rep.Note("harness: %s", r.harnessErr)
			}
			continue
		}
		d := firstDiff(r.altered, r.la.wire)
		rep.Case(fmt.Sprintf("%+v", c), d >= 0)
		rep.Count("op=" + c.Dir + ":" + c.Kind)
		where := "none"
		switch {
		case d < 0:
		case d < r.la.hsEnd:
			where = "handshake"
		default:
			where = "data"
		}
		rep.Count("altered=" + c.Dir + ":" + where)
		out := "handle=" + r.h.Kind + ":" + r.h.Err
		if c.Dir == "s2c" {
			out = "client-first-op=none"
			if len(r.ops) > 0 {
				out = "client-first-op=" + r.ops[0].Err
			}
		} else if len(r.ops) > 0 {
			rep.Count("server-last-op=" + r.ops[len(r.ops)-1].Err)
		}
		rep.Count(out)
		if i < 3 {
			rep.Sample(map[string]any{"case": c, "script": r.sc.Lines, "impl": r.sc.Expect})
		}
		if key, detail := oracle(r); key != "" {
			rep.Fail(common.OracleFailure{Engine: "tamper", Key: key, Case: c, Detail: detail})
			if strings.HasPrefix(key, "F22") {
				rep.FindingsProbed[key] = true
			}
		}
		if answers[i] != nil {
			for j, a := range answers[i] {
				if !Match(r.sc.Expect[j], a) {
					rep.Diverge(common.Divergence{Engine: "tamper", Case: c, Impl: r.sc.Expect[j], Model: a, Note: "line " + r.sc.Lines[j]})
					break
				}
			}
			rep.TracesValidated++
		}
	}
	return nil
}

func main() {
	o := common.ParseFlags()
	rep := common.NewReport("C02", o)
	rep.Engines = []string{"tamper"}
	rep.Rule = "engine tamper: one case = genuine session A (+ genuine session B under the same or another key for splices), one operator " +
		"{bit flip at byte i (i walks through the handshake and the first chunks) / at a sampled later byte, cut at byte i / at an AEAD chunk boundary, drop / duplicate / swap of 1..3 AEAD chunks at a boundary, " +
		"whole-wire swap (response swap, foreign client), splice of B's tail / head (handshake) / middle chunks} applied to the client->server wire (presented to a fresh server) or to the server->client wire (presented to A's client), " +
		"transport in one segment or 1-byte segments, reader = Read loop (7 buffer sizes), WriteTo, tunnel, Read-then-copy; compared with the Lean model (same operator at the same offsets on the toy wire); " +
		"non-trivial = the presented wire differs from the genuine one; distinct by the whole case description"
	var err error
	if o.Replay != "" {
		var c TCase
		if err = common.LoadReplay(o.Replay, &c); err == nil {
			err = evalCases([]TCase{c}, o, rep)
		}
	} else {
		rep.FindingsProbed["F22:read-after-error-delivers-non-genuine"] = false
		err = evalCases(probes(), o, rep)
		r := common.NewRng(o.Seed)
		n := o.Budget(3000, 100000)
		var cases []TCase
		for i := 0; i < n && err == nil; i++ {
			cases = append(cases, genCase(r.Fork(uint64(i)), i))
			if len(cases) == 1200 || i == n-1 {
				err = evalCases(cases, o, rep)
				cases = cases[:0]
			}
		}
	}
	if err != nil {
		fmt.Fprintln(os.Stderr, "corr_c02:", err)
		rep.Note("engine error: %v", err)
		rep.Write(o.Out)
		os.Exit(3)
	}
	if err := rep.Write(o.Out); err != nil {
		fmt.Fprintln(os.Stderr, err)
		os.Exit(3)
	}
}
