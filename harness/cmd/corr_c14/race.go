package main

import (
	"bytes"
	"encoding/json"
	"fmt"
	"os"
	"os/exec"
	"path/filepath"
	"regexp"
	"strings"

	"ssvharness/internal/common"
)

// raceChild: thorough tier only. The concurrent engine is rebuilt with the race detector and run in a
// child process (a data race in stats/ or api/ssm is a violation candidate of its own: the model treats
// every counter operation as atomic). If the race build is not available the fact is noted, not hidden.
func raceChild(o *common.Options, rep *common.Report) {
	dir, err := os.MkdirTemp("", "c14-race-")
	if err != nil {
		rep.Note("race child: %v", err)
		return
	}
	defer os.RemoveAll(dir)
	bin := filepath.Join(dir, "corr_c14_race")
	args := []string{"build", "-race", "-tags", "verif", "-o", bin}
	if repo := os.Getenv("VERIF_REPO"); repo != "" && repo != "/repo" {
		mf := fmt.Sprintf("go.scratch.%s.mod", regexp.MustCompile(`\W+`).ReplaceAllString(repo, "_"))
		if _, err := os.Stat(mf); err == nil {
			args = append(args, "-modfile", mf)
		}
	}
	args = append(args, "./cmd/corr_c14")
	env := append(os.Environ(), "GOFLAGS=-mod=mod", "GOPROXY=off", "GOTOOLCHAIN=auto")
	var out []byte
	for _, g := range [][]string{{"go"}, {"go1.26.8"}} {
		cmd := exec.Command(g[0], args...)
		cmd.Env = env
		if g[0] != "go" {
			cmd.Env = append(env, "GOTOOLCHAIN=local")
		}
		if out, err = cmd.CombinedOutput(); err == nil {
			break
		}
	}
	if err != nil {
		rep.Note("race child: -race build not available (%v): %s", err, strings.TrimSpace(string(out)))
		return
	}
	report := filepath.Join(dir, "report.json")
	cmd := exec.Command(bin, "--tier", "thorough", "--seed", fmt.Sprint(o.Seed), "--out", report)
	cmd.Env = append(os.Environ(), "C14_RACE_CHILD=1", "GORACE=halt_on_error=0")
	var stderr bytes.Buffer
	cmd.Stderr = &stderr
	runErr := cmd.Run()
	if strings.Contains(stderr.String(), "DATA RACE") {
		txt := stderr.String()
		if i := strings.Index(txt, "WARNING: DATA RACE"); i >= 0 {
			txt = txt[i:]
		}
		if len(txt) > 3000 {
			txt = txt[:3000]
		}
		rep.Fail(common.OracleFailure{Engine: "conc", Key: "conc:data-race", Case: Case{Engine: "conc"}, Detail: txt})
	}
	b, err := os.ReadFile(report)
	if err != nil {
		rep.Note("race child: no report (%v, exit %v): %s", err, runErr, tail(stderr.String(), 500))
		return
	}
	var child common.Report
	if err := json.Unmarshal(b, &child); err != nil {
		rep.Note("race child: unreadable report: %v", err)
		return
	}
	for _, f := range child.OracleFailures {
		rep.Fail(f)
	}
	for k, v := range child.Distribution {
		rep.Distribution["race:"+k] += v
	}
	rep.Evaluations += child.Evaluations
	rep.Note("race child: %d concurrent runs under the race detector, %d oracle failures, data race reported: %v",
		child.Evaluations, len(child.OracleFailures), strings.Contains(stderr.String(), "DATA RACE"))
}

func tail(s string, n int) string {
	if len(s) > n {
		return s[len(s)-n:]
	}
	return s
}
