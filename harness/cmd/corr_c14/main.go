// corr_c14: correspondence + property oracle for C14 (traffic statistics).
//
// Engine "seq":  sequential operation sequences (Collect* for named users, the anonymous user and users
//
//	first seen mid-run; Snapshot; SnapshotAndReset; GET …/stats[?clear…]; GET …/users/{u})
//	on the real stats.Collector and the real api/ssm handlers (registered on an
//	http.ServeMux exactly as api.Config.NewServer does), against the Lean model
//	(SSV.Model.Stats through ssv_c14) and against the ledger oracle.
//
// Engine "conc": concurrent hammer — collectors, snapshotters, resetting snapshotters and API GETs run
//
//	concurrently; the conservation oracle checks Σ resetting snapshots + final snapshot ==
//	Σ recorded, per counter, per user and for the server totals; the summed figures are also
//	compared with the model's sequential run of the same collects.
//
// Probe F10:     GET /servers/{s}/users/{u} must show u's figures (directed witness of finding F10).
package main

import (
	"fmt"
	"net/url"
	"os"
	"sort"
	"strconv"
	"strings"

	"ssvharness/internal/common"
)

type Op struct {
	Op   string   `json:"op"` // tcp | udpdown | udpup | snap | reset | stats | user
	User string   `json:"user,omitempty"`
	A    uint64   `json:"a,omitempty"`
	B    uint64   `json:"b,omitempty"`
	Vals []string `json:"vals,omitempty"` // stats: values of the `clear` query parameter
}

type Case struct {
	Engine string   `json:"engine"`
	Creds  []string `json:"creds"`
	Ops    []Op     `json:"ops,omitempty"`
	Conc   *ConcCfg `json:"conc,omitempty"`
}

func dash(u string) string {
	if u == "" {
		return "-"
	}
	return u
}

func (c Case) lines() []string {
	cs := "-"
	if len(c.Creds) > 0 {
		cs = strings.Join(c.Creds, ",")
	}
	ls := []string{"new " + cs}
	for _, o := range c.Ops {
		ls = append(ls, o.line())
	}
	return ls
}

func (o Op) line() string {
	switch o.Op {
	case "tcp", "udpdown", "udpup":
		return fmt.Sprintf("%s %s %d %d", o.Op, dash(o.User), o.A, o.B)
	case "stats":
		l := "stats " + strconv.Itoa(len(o.Vals))
		for _, v := range o.Vals {
			if v == "" {
				v = "E"
			}
			l += " " + v
		}
		return l
	case "user":
		return "user " + dash(o.User)
	}
	return o.Op
}

// ---------- generators ----------

var namePool = []string{"alice", "bob", "carol", "dave", "erin", "u0", "u1", "u2", "u3", "zed"}

// nameAlphabets: username sets chosen so that different notions of "order" and "equality" of names disagree
// (byte-wise vs case-insensitive vs locale collation vs natural numbers, prefixes, case-only differences,
// UTF-8, URL escapes, long names, many names). A per-user projection that depends on the order or shape of
// the snapshot's user list, or on the alphabet of the names, shows on one of these.
// Excluded only by the line protocol: whitespace, ',', a lone "-", "." / "..", '/'.
var nameAlphabets = [][]string{
	namePool,
	{"Zoe", "adam", "Bob", "carol", "Dave", "erin", "Frank", "gina", "HAL", "ivy"},
	{"bob", "Bob", "BOB", "bOb", "boB", "alice", "Alice", "ALICE", "aLICE"},
	{"a", "ab", "abc", "abcd", "aB", "Ab", "AB", "b", "ba", "a0", "a_", "a~", "ab0"},
	{"\u00e9mile", "\u00c9mile", "zo\u00eb", "Zoe", "zoe", "\u00df", "ss", "\u00ff", "z", "\u65e5\u672c", "\u65e5\u672c\u8a9e", "\u0436", "\u0416", "\uff41", "a", "\u00e9", "e\u0301", "\U0001f600"}, // UTF-8: NFC/NFD, fullwidth, CJK, Cyrillic, astral
	{"0", "9", "A", "Z", "_", "a", "z", "~", "!", "10", "2", "Z9", "a1", "%41", "a+b", "+", "a%2Fb", "@", "a@b"},
	{strings.Repeat("x", 200), strings.Repeat("x", 199) + "y", strings.Repeat("X", 200), "x", "X", strings.Repeat("xy", 100), strings.Repeat("x", 201)},
	manyNames(64),
}

func manyNames(n int) []string {
	var ns []string
	for i := 0; i < n; i++ {
		switch i % 4 {
		case 0:
			ns = append(ns, fmt.Sprintf("user%02d", i))
		case 1:
			ns = append(ns, fmt.Sprintf("User%02d", i))
		case 2:
			ns = append(ns, fmt.Sprintf("USER%d", i))
		default:
			ns = append(ns, fmt.Sprintf("u%d_%c", i, 'A'+rune(i%26)))
		}
	}
	return ns
}

// pickNames: 1..max names from one alphabet (sometimes two mixed), in random order
func pickNames(r *common.Rng) []string {
	al := append([]string{}, common.Pick(r, nameAlphabets)...)
	if r.Chance(1, 6) {
		al = append(al, common.Pick(r, nameAlphabets[:7])...)
	}
	seen := map[string]bool{}
	var uniq []string
	for _, n := range al {
		if !seen[n] {
			seen[n] = true
			uniq = append(uniq, n)
		}
	}
	for i := len(uniq) - 1; i > 0; i-- {
		j := r.Intn(i + 1)
		uniq[i], uniq[j] = uniq[j], uniq[i]
	}
	k := r.Range(1, len(uniq))
	if len(uniq) > 12 && !r.Chance(1, 3) { // many users only sometimes at full size
		k = r.Range(1, 12)
	}
	return uniq[:k]
}

func genValue(r *common.Rng) uint64 {
	switch r.Intn(20) {
	case 0:
		return 0
	case 1:
		return 1
	case 2:
		return 1 << 32
	case 3:
		return 1<<63 + uint64(r.Intn(3))
	case 4:
		return ^uint64(0) - uint64(r.Intn(3))
	case 5, 6, 7:
		return uint64(r.Intn(1 << 20))
	default:
		return uint64(r.Intn(2000))
	}
}

var clearVariants = [][]string{nil, {""}, {"true"}, {"false"}, {"1"}, {"true", "true"}, {"", "true"}, {"TRUE"}}

func genCase(r *common.Rng, maxOps int) Case {
	c := Case{Engine: "seq"}
	pool := pickNames(r)
	var noTraffic []string // names that get a credential but never traffic, and names with neither
	for _, n := range pool {
		if r.Chance(3, 4) {
			c.Creds = append(c.Creds, n)
		}
	}
	for _, n := range common.Pick(r, nameAlphabets[:6]) {
		if len(noTraffic) < 2 && !contains(pool, n) {
			noTraffic = append(noTraffic, n)
		}
	}
	if len(noTraffic) > 0 && r.Chance(1, 2) {
		c.Creds = append(c.Creds, noTraffic[0])
	}
	askable := append(append([]string{}, pool...), noTraffic...)
	sweep := func() { // GET user for EVERY name of the case: with/without credential, with/without traffic
		for _, n := range askable {
			c.Ops = append(c.Ops, Op{Op: "user", User: n})
		}
	}
	n := r.Range(1, maxOps)
	for i := 0; i < n; i++ {
		user := ""
		if !r.Chance(1, 5) {
			user = common.Pick(r, pool)
		}
		switch k := r.Intn(100); {
		case k < 24:
			c.Ops = append(c.Ops, Op{Op: "tcp", User: user, A: genValue(r), B: genValue(r)})
		case k < 46:
			c.Ops = append(c.Ops, Op{Op: "udpdown", User: user, A: genValue(r), B: genValue(r)})
		case k < 66:
			c.Ops = append(c.Ops, Op{Op: "udpup", User: user, A: genValue(r), B: genValue(r)})
		case k < 73:
			c.Ops = append(c.Ops, Op{Op: "snap"})
		case k < 80:
			c.Ops = append(c.Ops, Op{Op: "reset"})
		case k < 89:
			c.Ops = append(c.Ops, Op{Op: "stats", Vals: common.Pick(r, clearVariants)})
		case k < 97:
			c.Ops = append(c.Ops, Op{Op: "user", User: common.Pick(r, askable)})
		case k < 98:
			c.Ops = append(c.Ops, Op{Op: "user", User: ""}) // no such route segment: 404
		default:
			if len(askable) <= 16 {
				sweep()
			}
		}
	}
	sweep() // after every history: every user's answer is compared with that user's figures
	return c
}

// nameFeatures classifies the usernames with traffic in a case (input distribution of the evidence)
func nameFeatures(c Case) []string {
	seen := map[string]bool{}
	lower := map[string]int{}
	var fs []string
	mixed, nonASCII, long, esc := false, false, false, false
	for _, o := range c.Ops {
		if (o.Op == "tcp" || o.Op == "udpdown" || o.Op == "udpup") && o.User != "" && !seen[o.User] {
			seen[o.User] = true
			lower[strings.ToLower(o.User)]++
			mixed = mixed || strings.ToLower(o.User) != o.User
			long = long || len(o.User) >= 100
			esc = esc || strings.ContainsAny(o.User, "%+!@~")
			for _, r := range o.User {
				nonASCII = nonASCII || r > 127
			}
		}
	}
	caseOnly := false
	for _, n := range lower {
		caseOnly = caseOnly || n > 1
	}
	for k, b := range map[string]bool{"upper-and-lower-case": mixed, "differ-only-in-case": caseOnly, "non-ascii": nonASCII, "long(>=100)": long, "url-special": esc, "users>=16": len(seen) >= 16} {
		if b {
			fs = append(fs, k)
		}
	}
	sort.Strings(fs)
	return fs
}

func contains(xs []string, x string) bool {
	for _, y := range xs {
		if x == y {
			return true
		}
	}
	return false
}

// ---------- ledger oracle (written from the property statement and the Collector interface) ----------

var fieldNames = [6]string{"downlinkPackets", "downlinkBytes", "uplinkPackets", "uplinkBytes", "tcpSessions", "udpSessions"}

type fig [6]uint64

func (f *fig) add(g fig) {
	for i := range f {
		f[i] += g[i]
	}
}

func (f fig) String() string {
	s := make([]string, 6)
	for i, v := range f {
		s[i] = strconv.FormatUint(v, 10)
	}
	return strings.Join(s, ",")
}

// sessionFigures: what one recorded session contributes, from the documentation of stats.Collector:
// a TCP session counts its downlink and uplink bytes and one TCP session; the downlink half of a UDP
// session counts packets, bytes and the session itself; the uplink half counts packets and bytes.
func sessionFigures(op string, a, b uint64) (f fig) {
	switch op {
	case "tcp":
		f[1], f[3], f[4] = a, b, 1
	case "udpdown":
		f[0], f[1], f[5] = a, b, 1
	case "udpup":
		f[2], f[3] = a, b
	}
	return
}

type snapView struct {
	Total fig
	Users []userView
}

type userView struct {
	Name string
	F    fig
}

func (s snapView) String() string {
	us := make([]string, len(s.Users))
	for i, u := range s.Users {
		us[i] = u.Name + ":" + u.F.String()
	}
	return "T=" + s.Total.String() + " U=" + strings.Join(us, ";")
}

// ledger: per user (""=anonymous) the traffic recorded since that user's figures were last reset.
type ledger struct {
	cur  map[string]fig
	seen map[string]bool // named users that have had a session recorded
}

func newLedger() *ledger { return &ledger{cur: map[string]fig{}, seen: map[string]bool{}} }

func (l *ledger) record(user, op string, a, b uint64) {
	f := l.cur[user]
	f.add(sessionFigures(op, a, b))
	l.cur[user] = f
	if user != "" {
		l.seen[user] = true
	}
}

func (l *ledger) expected() snapView {
	var s snapView
	s.Total = l.cur[""]
	var names []string
	for n := range l.seen {
		names = append(names, n)
	}
	sort.Strings(names)
	for _, n := range names {
		s.Users = append(s.Users, userView{n, l.cur[n]})
		s.Total.add(l.cur[n])
	}
	return s
}

func (l *ledger) reset() { l.cur = map[string]fig{} }

// checkSnapshot compares a snapshot the implementation returned with the ledger. Key names the part that is wrong.
func checkSnapshot(got, want snapView) (string, string) {
	if len(got.Users) != len(want.Users) {
		return "snapshot-users-list", fmt.Sprintf("snapshot lists %d users, %d have recorded sessions: got %s want %s", len(got.Users), len(want.Users), got, want)
	}
	for i := range got.Users {
		if got.Users[i].Name != want.Users[i].Name {
			return "snapshot-users-list", fmt.Sprintf("user %d (by name) is %q, expected %q (each user with recorded sessions exactly once): got %s", i, got.Users[i].Name, want.Users[i].Name, got)
		}
		if got.Users[i].F != want.Users[i].F {
			return "snapshot-user-figures", fmt.Sprintf("user %q: snapshot %s, recorded since last reset %s", got.Users[i].Name, got.Users[i].F, want.Users[i].F)
		}
	}
	if got.Total != want.Total {
		return "snapshot-totals", fmt.Sprintf("server totals %s, sum of all recorded sessions since last reset %s", got.Total, want.Total)
	}
	return "", ""
}

// ---------- evaluation of sequential cases ----------

const f10Key = "F10:get-user-returns-server-totals"

func runSeq(c Case) (out []string, fails []common.OracleFailure, panicked any) {
	led := newLedger()
	fail := func(key, detail string, i int) {
		fails = append(fails, common.OracleFailure{Engine: "seq", Key: key, Case: c, Detail: fmt.Sprintf("op %d (%s): %s", i, c.Ops[i].line(), detail)})
	}
	panicked = common.Safely(func() {
		srv, err := newImpl(c.Creds)
		if err != nil {
			panic(err)
		}
		defer srv.close()
		out = append(out, "ok")
		hasCred := map[string]bool{}
		for _, n := range c.Creds {
			hasCred[n] = true
		}
		for i, o := range c.Ops {
			switch o.Op {
			case "tcp":
				srv.col.CollectTCPSession(o.User, o.A, o.B)
				led.record(o.User, o.Op, o.A, o.B)
				out = append(out, "ok")
			case "udpdown":
				srv.col.CollectUDPSessionDownlink(o.User, o.A, o.B)
				led.record(o.User, o.Op, o.A, o.B)
				out = append(out, "ok")
			case "udpup":
				srv.col.CollectUDPSessionUplink(o.User, o.A, o.B)
				led.record(o.User, o.Op, o.A, o.B)
				out = append(out, "ok")
			case "snap", "reset":
				var v snapView
				if o.Op == "snap" {
					v = viewOf(srv.col.Snapshot())
				} else {
					v = viewOf(srv.col.SnapshotAndReset())
				}
				out = append(out, v.String())
				if k, d := checkSnapshot(v, led.expected()); k != "" {
					fail("seq:"+k, d, i)
				}
				if o.Op == "reset" {
					led.reset()
				}
			case "stats":
				status, body := srv.get("/servers/" + serverName + "/stats" + clearQuery(o.Vals))
				line, v, perr := renderStats(status, body)
				out = append(out, line)
				clear := len(o.Vals) == 1 && (o.Vals[0] == "" || o.Vals[0] == "true") // SSM API: ?clear / ?clear=true
				switch {
				case perr != nil || status != 200:
					fail("api:stats-response", fmt.Sprintf("status %d, body %q: %v", status, body, perr), i)
				default:
					if k, d := checkSnapshot(v, led.expected()); k != "" {
						fail("api:stats-"+k, "body "+strings.TrimSpace(body)+": "+d, i)
					}
				}
				if clear {
					led.reset()
				} else if status == 200 {
					// a request without clear must not reset anything: verified by the next snapshot's ledger check
				}
			case "user":
				status, body := srv.get("/servers/" + serverName + "/users/" + url.PathEscape(o.User))
				line, name, f, perr := renderUser(status, body)
				out = append(out, line)
				switch {
				case !hasCred[o.User]:
					if status != 404 {
						fail("api:get-user-status", fmt.Sprintf("user without credential: status %d body %q", status, body), i)
					}
				case status != 200 || perr != nil:
					fail("api:get-user-status", fmt.Sprintf("status %d, body %q: %v", status, body, perr), i)
				default:
					want := led.cur[o.User]
					if name != o.User {
						fail("api:get-user-name", fmt.Sprintf("body names %q", name), i)
					}
					if f != want {
						if f == led.expected().Total {
							fail(f10Key, fmt.Sprintf("GET /servers/%s/users/%s shows %s = the server-wide totals; the user's own figures are %s", serverName, o.User, f, want), i)
						} else {
							fail("api:get-user-wrong-figures", fmt.Sprintf("body shows %s, the user's figures are %s", f, want), i)
						}
					}
				}
			default:
				panic("unknown op " + o.Op)
			}
		}
	})
	return
}

func sig(c Case) string {
	var sb strings.Builder
	sb.WriteString(strings.Join(c.Creds, ","))
	for _, o := range c.Ops {
		sb.WriteByte('|')
		sb.WriteString(o.line())
	}
	return sb.String()
}

func nontrivialSeq(c Case) bool {
	users := map[string]bool{}
	obs := false
	for _, o := range c.Ops {
		switch o.Op {
		case "tcp", "udpdown", "udpup":
			users[o.User] = true
		default:
			if len(users) >= 2 {
				obs = true
			}
		}
	}
	return obs
}

func evalSeq(cases []Case, o *common.Options, rep *common.Report) error {
	var model []string
	if o.Driver != "" {
		var lines []string
		for _, c := range cases {
			lines = append(lines, c.lines()...)
		}
		var err error
		if model, err = runDriver(o.Driver, lines); err != nil {
			return err
		}
	}
	pos := 0
	for _, c := range cases {
		n := len(c.Ops) + 1
		impl, fails, pan := runSeq(c)
		rep.Case(sig(c), nontrivialSeq(c))
		rep.Count(fmt.Sprintf("seq:ops<=%d", (len(c.Ops)+9)/10*10))
		for _, k := range nameFeatures(c) {
			rep.Count("seq:names:" + k)
		}
		for _, op := range c.Ops {
			rep.Count("seq:op=" + op.Op)
		}
		rep.Sample(map[string]any{"case": c.lines(), "impl": impl})
		if pan != nil {
			rep.Fail(common.OracleFailure{Engine: "seq", Key: "seq:panic", Case: c, Detail: fmt.Sprint(pan)})
			pos += n
			continue
		}
		for _, f := range fails {
			rep.Fail(f)
		}
		if model != nil {
			mo := model[pos : pos+n]
			for i := range mo {
				if mo[i] != impl[i] {
					rep.Diverge(common.Divergence{Engine: "seq", Case: c, Impl: impl[i], Model: mo[i], Note: fmt.Sprintf("line %d (%s)", i, c.lines()[i])})
					break
				}
			}
			rep.TracesValidated++
		}
		pos += n
	}
	return nil
}

// probeF10: the witness of finding F10 (DESIGN §6), evaluated through the same oracle.
func probeF10(o *common.Options, rep *common.Report) error {
	c := Case{Engine: "seq", Creds: []string{"alice", "bob"}, Ops: []Op{
		{Op: "tcp", User: "alice", A: 100, B: 200},
		{Op: "tcp", User: "bob", A: 1000, B: 2000},
		{Op: "udpdown", User: "", A: 5, B: 500},
		{Op: "user", User: "alice"},
		{Op: "user", User: "bob"},
	}}
	before := len(rep.OracleFailures)
	if err := evalSeq([]Case{c}, o, rep); err != nil {
		return err
	}
	rep.FindingsProbed[f10Key] = false
	for _, f := range rep.OracleFailures[before:] {
		if f.Key == f10Key {
			rep.FindingsProbed[f10Key] = true
		}
	}
	return nil
}

func main() {
	o := common.ParseFlags()
	rep := common.NewReport("C14", o)
	rep.Engines = []string{"seq", "conc"}
	rep.Rule = "engine seq: op sequences (Collect* with boundary values incl. 2^64-1 for named users, the anonymous user, users first seen mid-run; Snapshot; SnapshotAndReset; " +
		"GET stats with 8 variants of the clear query; GET user for users with/without credential and with/without traffic) — impl vs Lean driver line by line, and vs the ledger oracle; " +
		"non-trivial = an observation after traffic of at least 2 distinct users; distinct by (credentials, op sequence); the API requests go through the real api/ssm handlers on an http.ServeMux " +
		"(patterns built as api.Config.NewServer builds them) and, for a smaller batch, through the real API server (api.Config.NewServer + Start) over a unix socket. " +
		"engine conc: concurrent collectors/snapshotters/resetters/API readers; non-trivial = at least one resetting snapshot overlapped the recording; distinct by generated configuration"
	err := run(o, rep)
	cleanupTmp()
	if err != nil {
		fmt.Fprintln(os.Stderr, "corr_c14:", err)
		rep.Note("engine error: %v", err)
		rep.Write(o.Out)
		os.Exit(3)
	}
	if err := rep.Write(o.Out); err != nil {
		fmt.Fprintln(os.Stderr, err)
		os.Exit(3)
	}
}

func run(o *common.Options, rep *common.Report) error {
	if o.Replay != "" {
		var c Case
		if err := common.LoadReplay(o.Replay, &c); err != nil {
			return err
		}
		if c.Engine == "conc" && c.Conc != nil {
			return evalConc([]ConcCfg{*c.Conc}, o, rep)
		}
		return evalSeq([]Case{c}, o, rep)
	}
	if os.Getenv("C14_RACE_CHILD") != "" { // child built with -race: the concurrent engine only, oracle only
		o.Driver = ""
		var cfgs []ConcCfg
		rc := common.NewRng(o.Seed ^ 0x7ace)
		for i := 0; i < 300; i++ {
			cfgs = append(cfgs, genConc(rc.Fork(uint64(i)), uint64(i), o))
		}
		return evalConc(cfgs, o, rep)
	}
	if err := probeF10(o, rep); err != nil {
		return err
	}
	r := common.NewRng(o.Seed)
	n := o.Budget(5000, 100000)
	var cases []Case
	for i := 0; i < n; i++ {
		cases = append(cases, genCase(r.Fork(uint64(i)), 40))
		if len(cases) == 1000 {
			if err := evalSeq(cases, o, rep); err != nil {
				return err
			}
			cases = cases[:0]
		}
	}
	if len(cases) > 0 {
		if err := evalSeq(cases, o, rep); err != nil {
			return err
		}
	}
	// the same kind of cases through the real API server (api.Config.NewServer, Start, HTTP over a unix socket)
	realServer.Store(true)
	cases = cases[:0]
	rr := common.NewRng(o.Seed ^ 0xa91)
	for i := 0; i < o.Budget(60, 1500); i++ {
		cases = append(cases, genCase(rr.Fork(uint64(i)), 25))
	}
	err := evalSeq(cases, o, rep)
	realServer.Store(false)
	if err != nil {
		return err
	}
	rep.Count(fmt.Sprintf("seq:cases-through-real-api-server=%d", len(cases)))
	nc := o.Budget(200, 3000)
	var cfgs []ConcCfg
	rc := common.NewRng(o.Seed ^ 0xc14c14)
	for i := 0; i < nc; i++ {
		cfgs = append(cfgs, genConc(rc.Fork(uint64(i)), uint64(i), o))
	}
	if err := evalConc(cfgs, o, rep); err != nil {
		return err
	}
	if o.Thorough() {
		raceChild(o, rep)
	}
	return nil
}
