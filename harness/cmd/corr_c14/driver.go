package main

import (
	"bytes"
	"context"
	"fmt"
	"os"
	"os/exec"
	"runtime"
	"strings"
	"syscall"
	"time"
)

// runDriver feeds a script to the Lean driver and returns one answer per line. The driver reads stdin until
// EOF (Driver.loop) and then exits; on top of that the child is bound to this process: it is killed when the
// engine dies (PDEATHSIG), when the script takes longer than the limit, and on every error path (Wait after
// Kill), so that no ssv_c14 process can outlive the engine.
func runDriver(path string, lines []string) ([]string, error) {
	runtime.LockOSThread() // PDEATHSIG is tied to the creating thread
	defer runtime.UnlockOSThread()
	limit := 10*time.Minute + time.Duration(len(lines))*2*time.Millisecond
	ctx, cancel := context.WithTimeout(context.Background(), limit)
	defer cancel()
	cmd := exec.CommandContext(ctx, path)
	cmd.SysProcAttr = &syscall.SysProcAttr{Pdeathsig: syscall.SIGKILL}
	cmd.WaitDelay = 5 * time.Second
	cmd.Stdin = strings.NewReader(strings.Join(lines, "\n") + "\n")
	var out bytes.Buffer
	cmd.Stdout = &out
	cmd.Stderr = os.Stderr
	if err := cmd.Run(); err != nil { // Run = Start + Wait; on ctx expiry the child is killed first
		if cmd.Process != nil {
			cmd.Process.Kill()
		}
		return nil, fmt.Errorf("driver %s: %w", path, err)
	}
	res := strings.Split(strings.TrimRight(out.String(), "\n"), "\n")
	if len(res) != len(lines) {
		return res, fmt.Errorf("driver %s answered %d lines for %d operations", path, len(res), len(lines))
	}
	return res, nil
}
