package main

import (
	"bytes"
	"context"
	"encoding/base64"
	"encoding/json"
	"fmt"
	"io"
	"net"
	"net/http"
	"net/http/httptest"
	"net/url"
	"os"
	"path/filepath"
	"sort"
	"strings"
	"sync"
	"sync/atomic"
	"time"

	"github.com/database64128/shadowsocks-go/api"
	"github.com/database64128/shadowsocks-go/api/ssm"
	"github.com/database64128/shadowsocks-go/conn"
	"github.com/database64128/shadowsocks-go/cred"
	"github.com/database64128/shadowsocks-go/stats"
	"github.com/database64128/shadowsocks-go/tlscerts"
	"go.uber.org/zap"
)

const (
	serverName = "srv"
	apiPrefix  = "/api/ssm/v1" // api.Config.NewServer mounts the SSM API below basePath + this
)

var (
	tmpOnce sync.Once
	tmpDir  string
	tmpSeq  atomic.Uint64
)

func tmp() string {
	tmpOnce.Do(func() {
		d, err := os.MkdirTemp("", "c14-corr-")
		if err != nil {
			panic(err)
		}
		tmpDir = d
	})
	return tmpDir
}

func cleanupTmp() {
	if tmpDir != "" {
		os.RemoveAll(tmpDir)
	}
}

// regMux receives the routes; restapi.HandlerFunc lives in an internal package, so the registration
// callback is a generic function whose handler type is inferred at the call of RegisterHandlers.
var (
	regMu  sync.Mutex
	regMux *http.ServeMux
)

func register[H ~func(http.ResponseWriter, *http.Request) (int, error)](method, path string, h H) {
	// same pattern construction as api.Config.NewServer: method + " " + joinPatternPath(apiSSMv1Path, path)
	regMux.HandleFunc(method+" "+apiPrefix+path, func(w http.ResponseWriter, r *http.Request) { h(w, r) })
}

type impl struct {
	col  stats.Collector
	mux  *http.ServeMux
	path string
	// real API server (api.Config.NewServer + Start) on a unix socket, when requested
	real   *api.Server
	client *http.Client
}

// realServer: route requests through the real API server instead of the in-process mux.
var realServer atomic.Bool

func newImpl(creds []string) (*impl, error) {
	m := map[string][]byte{}
	for i, n := range creds {
		psk := make([]byte, 16)
		psk[0], psk[1], psk[2] = byte(i+1), byte((i+1)>>8), 0xc1
		copy(psk[3:], n)
		m[n] = psk
	}
	b, err := json.Marshal(m)
	if err != nil {
		return nil, err
	}
	p := filepath.Join(tmp(), fmt.Sprintf("upsks-%d.json", tmpSeq.Add(1)))
	if err := os.WriteFile(p, b, 0o600); err != nil {
		return nil, err
	}
	mgr := cred.NewManager(zap.NewNop())
	ms, err := mgr.RegisterServer(serverName, p, 16, nil, nil)
	if err != nil {
		return nil, err
	}
	col := stats.Config{Enabled: true}.Collector()
	sm := ssm.NewServerManager(map[string]ssm.Server{serverName: {CredentialManager: ms, StatsCollector: col}}, []string{serverName})
	mux := http.NewServeMux()
	regMu.Lock()
	regMux = mux
	sm.RegisterHandlers(register)
	regMux = nil
	regMu.Unlock()
	im := &impl{col: col, mux: mux, path: p}
	if realServer.Load() {
		sock := filepath.Join(tmp(), fmt.Sprintf("api-%d.sock", tmpSeq.Add(1)))
		cfg := api.Config{Enabled: true, Listeners: []api.ListenerConfig{{Network: "unix", Address: sock}}}
		srv, err := cfg.NewServer(zap.NewNop(), conn.NewListenConfigCache(), &tlscerts.Store{},
			map[string]ssm.Server{serverName: {CredentialManager: ms, StatsCollector: col}}, []string{serverName})
		if err != nil {
			return nil, fmt.Errorf("api.Config.NewServer: %w", err)
		}
		if err := srv.Start(context.Background()); err != nil {
			return nil, fmt.Errorf("api server start: %w", err)
		}
		im.real = srv
		im.client = &http.Client{Timeout: 20 * time.Second, Transport: &http.Transport{
			DialContext: func(ctx context.Context, _, _ string) (net.Conn, error) {
				var d net.Dialer
				return d.DialContext(ctx, "unix", sock)
			}}}
	}
	return im, nil
}

func (s *impl) close() {
	if s.real != nil {
		s.client.CloseIdleConnections()
		s.real.Stop()
	}
	os.Remove(s.path)
}

func (s *impl) get(path string) (int, string) {
	if s.real != nil {
		resp, err := s.client.Get("http://api" + apiPrefix + path)
		if err != nil {
			return -1, err.Error()
		}
		defer resp.Body.Close()
		b, _ := io.ReadAll(resp.Body)
		return resp.StatusCode, string(b)
	}
	req := httptest.NewRequest(http.MethodGet, apiPrefix+path, nil)
	rec := httptest.NewRecorder()
	s.mux.ServeHTTP(rec, req)
	return rec.Code, rec.Body.String()
}

func clearQuery(vals []string) string {
	if len(vals) == 0 {
		return ""
	}
	var parts []string
	for _, v := range vals {
		if v == "" {
			parts = append(parts, "clear")
		} else {
			parts = append(parts, "clear="+url.QueryEscape(v))
		}
	}
	return "?" + strings.Join(parts, "&")
}

func figOf(t stats.Traffic) fig {
	return fig{t.DownlinkPackets, t.DownlinkBytes, t.UplinkPackets, t.UplinkBytes, t.TCPSessions, t.UDPSessions}
}

func viewOf(s stats.Server) snapView {
	v := snapView{Total: figOf(s.Traffic)}
	for _, u := range s.Users {
		v.Users = append(v.Users, userView{u.Name, figOf(u.Traffic)})
	}
	sortUsers(v.Users)
	return v
}

// sortUsers: the order of the user list is not part of C14 (the code sorts it; a map order would do as well):
// canonicalise before comparing. A user listed twice stays visible (adjacent equal names).
func sortUsers(us []userView) {
	sort.SliceStable(us, func(i, j int) bool { return us[i].Name < us[j].Name })
}

// ---- JSON bodies: rendered from the keys actually present (sorted), and read back through the
// names the SSM API documents (fieldNames) for the oracle ----

func decodeObj(body string) (map[string]any, error) {
	d := json.NewDecoder(bytes.NewReader([]byte(body)))
	d.UseNumber()
	var m map[string]any
	if err := d.Decode(&m); err != nil {
		return nil, err
	}
	if d.More() {
		return nil, fmt.Errorf("trailing data after the JSON object")
	}
	return m, nil
}

func numPairs(m map[string]any) string {
	var ks []string
	for k, v := range m {
		if _, ok := v.(json.Number); ok {
			ks = append(ks, k)
		}
	}
	sort.Strings(ks)
	ps := make([]string, len(ks))
	for i, k := range ks {
		ps[i] = k + "=" + m[k].(json.Number).String()
	}
	return strings.Join(ps, ",")
}

func figFromObj(m map[string]any) (f fig, err error) {
	for i, n := range fieldNames {
		v, ok := m[n].(json.Number)
		if !ok {
			return f, fmt.Errorf("field %q missing", n)
		}
		var x uint64
		if _, e := fmt.Sscan(v.String(), &x); e != nil {
			return f, fmt.Errorf("field %q = %s: %v", n, v, e)
		}
		f[i] = x
	}
	return f, nil
}

func strKeys(m map[string]any, skip string) string {
	var ks []string
	for k, v := range m {
		if _, ok := v.(string); ok && k != skip {
			ks = append(ks, k)
		}
	}
	sort.Strings(ks)
	ps := make([]string, len(ks))
	for i, k := range ks {
		ps[i] = k + "=" + m[k].(string)
	}
	return strings.Join(ps, ",")
}

// renderStats: "200 <pairs> users=[username=<n>,<pairs>;…]"
func renderStats(status int, body string) (line string, v snapView, err error) {
	if status != 200 {
		return fmt.Sprint(status), v, nil
	}
	m, err := decodeObj(body)
	if err != nil {
		return "200 unparsable", v, err
	}
	line = "200 " + numPairs(m)
	if v.Total, err = figFromObj(m); err != nil {
		err = fmt.Errorf("totals: %w", err)
	}
	var arrays []string
	for k, x := range m {
		if _, ok := x.([]any); ok {
			arrays = append(arrays, k)
		}
	}
	sort.Strings(arrays)
	for _, k := range arrays {
		type ent struct{ name, s string }
		var us []ent
		for _, x := range m[k].([]any) {
			um, ok := x.(map[string]any)
			if !ok {
				us = append(us, ent{"", "?"})
				continue
			}
			name, _ := um["username"].(string)
			us = append(us, ent{name, strKeys(um, "") + "," + numPairs(um)})
			if k == "users" {
				f, e := figFromObj(um)
				if e != nil && err == nil {
					err = fmt.Errorf("user %q: %w", name, e)
				}
				v.Users = append(v.Users, userView{name, f})
			}
		}
		// the order of the list is not part of C14: canonical order = by name (byte-wise), as the model prints it
		sort.SliceStable(us, func(i, j int) bool { return us[i].name < us[j].name })
		ss := make([]string, len(us))
		for i := range us {
			ss[i] = us[i].s
		}
		line += " " + k + "=[" + strings.Join(ss, ";") + "]"
	}
	sortUsers(v.Users)
	if _, ok := m["users"]; !ok && err == nil {
		err = fmt.Errorf("no \"users\" member")
	}
	return line, v, err
}

// renderUser: "404" | "200 username=<n> <pairs>" (the credential itself, uPSK, is not part of C14)
func renderUser(status int, body string) (line, name string, f fig, err error) {
	if status != 200 {
		return fmt.Sprint(status), "", f, nil
	}
	m, err := decodeObj(body)
	if err != nil {
		return "200 unparsable", "", f, err
	}
	if p, ok := m["uPSK"].(string); ok {
		if _, e := base64.StdEncoding.DecodeString(p); e != nil {
			err = fmt.Errorf("uPSK: %w", e)
		}
	}
	name, _ = m["username"].(string)
	line = "200 " + strKeys(m, "uPSK") + " " + numPairs(m)
	f, e := figFromObj(m)
	if e != nil && err == nil {
		err = e
	}
	return line, name, f, err
}
