package main

import (
	"fmt"
	"net/url"
	"runtime"
	"sync"
	"sync/atomic"

	"ssvharness/internal/common"
)

// ConcCfg: one concurrent hammer run.
type ConcCfg struct {
	Idx          uint64 `json:"idx"`
	Seed         uint64 `json:"seed"`
	Collectors   int    `json:"collectors"`
	PerCollector int    `json:"per_collector"`
	Users        int    `json:"users"`      // named users known from the start
	LateUsers    int    `json:"late_users"` // users whose first session is recorded mid-run (collector created while snapshots run)
	Snapshotters int    `json:"snapshotters"`
	Resetters    int    `json:"resetters"`
	APIResetters int    `json:"api_resetters"`
	Alphabet     int    `json:"alphabet,omitempty"` // index into nameAlphabets for the users known from the start
	Stampede     int    `json:"stampede"`           // fresh names that ALL collectors record for at the same moment (first use races)
	Rounds       int    `json:"rounds,omitempty"`
}

func genConc(r *common.Rng, idx uint64, o *common.Options) ConcCfg {
	c := ConcCfg{Idx: idx, Seed: r.U64(),
		Collectors:   r.Range(1, 8),
		PerCollector: r.Range(20, 400),
		Users:        r.Range(0, 8),
		Alphabet:     r.Intn(len(nameAlphabets)),
		LateUsers:    r.Range(0, 5),
		Snapshotters: r.Range(0, 2),
		Resetters:    r.Range(0, 3),
		APIResetters: r.Range(0, 1),
	}
	if r.Chance(1, 2) {
		c.Stampede = r.Range(1, 6)
	}
	if r.Chance(1, 8) { // no resetting party at all: successive Snapshots must be monotone
		c.Resetters, c.APIResetters, c.Snapshotters = 0, 0, 2
	}
	return c
}

type recorded struct {
	user string
	op   string
	a, b uint64
}

type concOutcome struct {
	calls       [][]recorded // per collector, in program order
	resets      []snapView   // every result of SnapshotAndReset / GET stats?clear, any order
	snaps       [][]snapView // per snapshotter, in order
	final       snapView
	apiStats    snapView
	apiStatsErr string
	apiUsers    map[string]fig
	apiUserErr  string
	overlapped  bool
}

func concUsers(c ConcCfg) (early, late []string) {
	for i := 0; i < c.Users; i++ {
		al := nameAlphabets[c.Alphabet%len(nameAlphabets)]
		if i < len(al) {
			early = append(early, al[i])
		}
	}
	for i := 0; i < c.LateUsers; i++ {
		late = append(late, fmt.Sprintf("late%d", i))
	}
	return
}

func stampedeUsers(c ConcCfg) (s []string) {
	for i := 0; i < c.Stampede; i++ {
		s = append(s, fmt.Sprintf("rush%d", i))
	}
	return
}

// barrier: all parties leave together, as close to simultaneously as the scheduler allows
type barrier struct {
	n       int32
	arrived atomic.Int32
	gate    chan struct{}
}

func newBarrier(n int) *barrier { return &barrier{n: int32(n), gate: make(chan struct{})} }

func (b *barrier) wait() {
	if b.arrived.Add(1) == b.n {
		close(b.gate)
		return
	}
	<-b.gate
}

func runConc(c ConcCfg) (out concOutcome, err error) {
	early, late := concUsers(c)
	all := append(append([]string{}, early...), late...)
	rush := stampedeUsers(c)
	srv, err := newImpl(append(append([]string{}, all...), rush...))
	if err != nil {
		return out, err
	}
	defer srv.close()
	// programs are fixed before the start: the schedule is the only free variable
	out.calls = make([][]recorded, c.Collectors)
	r := common.NewRng(c.Seed)
	for g := range out.calls {
		rg := r.Fork(uint64(g))
		for _, u := range rush { // program prefix: one session per stampede name, behind a barrier each
			out.calls[g] = append(out.calls[g], recorded{u, "tcp", uint64(rg.Intn(1 << 16)), uint64(rg.Intn(1 << 16))})
		}
		for i := 0; i < c.PerCollector; i++ {
			pool := early
			if i >= c.PerCollector/2 {
				pool = all
			}
			user := ""
			if len(pool) > 0 && !rg.Chance(1, 4) {
				user = common.Pick(rg, pool)
			}
			op := common.Pick(rg, []string{"tcp", "udpdown", "udpup"})
			out.calls[g] = append(out.calls[g], recorded{user, op, uint64(rg.Intn(1 << 16)), uint64(rg.Intn(1 << 24))})
		}
	}
	var (
		start   = make(chan struct{})
		wgCol   sync.WaitGroup
		wgObs   sync.WaitGroup
		done    atomic.Bool
		mu      sync.Mutex
		apiFail atomic.Value
	)
	barriers := make([]*barrier, len(rush))
	for i := range barriers {
		barriers[i] = newBarrier(c.Collectors)
	}
	for g := range out.calls {
		wgCol.Add(1)
		go func(prog []recorded) {
			defer wgCol.Done()
			<-start
			for i, x := range prog {
				if i < len(barriers) {
					barriers[i].wait()
				}
				switch x.op {
				case "tcp":
					srv.col.CollectTCPSession(x.user, x.a, x.b)
				case "udpdown":
					srv.col.CollectUDPSessionDownlink(x.user, x.a, x.b)
				case "udpup":
					srv.col.CollectUDPSessionUplink(x.user, x.a, x.b)
				}
				if i%7 == 3 {
					runtime.Gosched()
				}
			}
		}(out.calls[g])
	}
	out.snaps = make([][]snapView, c.Snapshotters)
	for s := 0; s < c.Snapshotters; s++ {
		wgObs.Add(1)
		go func(s int) {
			defer wgObs.Done()
			<-start
			for !done.Load() {
				out.snaps[s] = append(out.snaps[s], viewOf(srv.col.Snapshot()))
				runtime.Gosched()
			}
		}(s)
	}
	resetter := func(api bool) {
		defer wgObs.Done()
		<-start
		var mine []snapView
		for !done.Load() {
			if api {
				status, body := srv.get("/servers/" + serverName + "/stats?clear=true")
				_, v, e := renderStats(status, body)
				if e != nil || status != 200 {
					apiFail.Store(fmt.Sprintf("GET stats?clear=true: status %d body %q: %v", status, body, e))
					return
				}
				mine = append(mine, v)
			} else {
				mine = append(mine, viewOf(srv.col.SnapshotAndReset()))
			}
			runtime.Gosched()
		}
		mu.Lock()
		out.resets = append(out.resets, mine...)
		if len(mine) > 1 {
			out.overlapped = true
		}
		mu.Unlock()
	}
	for s := 0; s < c.Resetters; s++ {
		wgObs.Add(1)
		go resetter(false)
	}
	for s := 0; s < c.APIResetters; s++ {
		wgObs.Add(1)
		go resetter(true)
	}
	close(start)
	wgCol.Wait()
	done.Store(true)
	wgObs.Wait()
	if s, ok := apiFail.Load().(string); ok {
		out.apiStatsErr = s
	}
	// quiescence
	out.final = viewOf(srv.col.Snapshot())
	status, body := srv.get("/servers/" + serverName + "/stats")
	_, v, e := renderStats(status, body)
	if (e != nil || status != 200) && out.apiStatsErr == "" {
		out.apiStatsErr = fmt.Sprintf("GET stats: status %d body %q: %v", status, body, e)
	}
	out.apiStats = v
	out.apiUsers = map[string]fig{}
	for _, u := range append(append([]string{}, all...), rush...) {
		status, body := srv.get("/servers/" + serverName + "/users/" + url.PathEscape(u))
		_, name, f, e := renderUser(status, body)
		if e != nil || status != 200 || name != u {
			out.apiUserErr = fmt.Sprintf("GET users/%s: status %d body %q: %v", u, status, body, e)
			continue
		}
		out.apiUsers[u] = f
	}
	return out, nil
}

// checkConc: the conservation oracle. Returns (key, detail) of the first violated clause.
func checkConc(c ConcCfg, o concOutcome) (string, string) {
	rec := map[string]fig{}
	var recTotal fig
	for _, prog := range o.calls {
		for _, x := range prog {
			d := sessionFigures(x.op, x.a, x.b)
			f := rec[x.user]
			f.add(d)
			rec[x.user] = f
			recTotal.add(d)
		}
	}
	sorted := func(v snapView, what string) (string, string) {
		for i := 1; i < len(v.Users); i++ {
			if v.Users[i-1].Name == v.Users[i].Name {
				return "conc:snapshot-users-list", fmt.Sprintf("%s lists user %q twice: %s", what, v.Users[i].Name, v)
			}
		}
		var sum fig
		for _, u := range v.Users {
			sum.add(u.F)
		}
		for i := range sum {
			if v.Total[i] < sum[i] {
				return "conc:total-below-sum-of-users", fmt.Sprintf("%s: %s total %d < sum over users %d: %s", what, fieldNames[i], v.Total[i], sum[i], v)
			}
		}
		return "", ""
	}
	sumUsers := map[string]fig{}
	var sumTotal fig
	for _, v := range o.resets {
		if k, d := sorted(v, "a resetting snapshot"); k != "" {
			return k, d
		}
		for _, u := range v.Users {
			f := sumUsers[u.Name]
			f.add(u.F)
			sumUsers[u.Name] = f
		}
		sumTotal.add(v.Total)
	}
	if k, d := sorted(o.final, "the final snapshot"); k != "" {
		return k, d
	}
	finalUsers := map[string]bool{}
	for _, u := range o.final.Users {
		f := sumUsers[u.Name]
		f.add(u.F)
		sumUsers[u.Name] = f
		finalUsers[u.Name] = true
	}
	sumTotal.add(o.final.Total)
	for name, f := range rec {
		if name == "" {
			continue
		}
		if !finalUsers[name] {
			return "conc:snapshot-users-list", fmt.Sprintf("user %q has recorded sessions but is missing from the final snapshot %s", name, o.final)
		}
		if sumUsers[name] != f {
			return "conc:conservation-user", fmt.Sprintf("user %q: Σ resetting snapshots + final snapshot = %s, Σ recorded = %s (%d resetting snapshots)", name, sumUsers[name], f, len(o.resets))
		}
	}
	for name := range sumUsers {
		if _, ok := rec[name]; !ok && sumUsers[name] != (fig{}) {
			return "conc:conservation-user", fmt.Sprintf("user %q never had a session recorded but snapshots show %s", name, sumUsers[name])
		}
	}
	if sumTotal != recTotal {
		return "conc:conservation-total", fmt.Sprintf("server totals: Σ resetting snapshots + final snapshot = %s, Σ recorded = %s (%d resetting snapshots)", sumTotal, recTotal, len(o.resets))
	}
	// without any resetting party, what one observer sees only grows, and never exceeds the end state
	if c.Resetters+c.APIResetters == 0 {
		for _, seq := range o.snaps {
			prev := snapView{}
			for _, v := range append(append([]snapView{}, seq...), o.final) {
				if k, d := sorted(v, "a snapshot"); k != "" {
					return k, d
				}
				pu := map[string]fig{}
				for _, u := range prev.Users {
					pu[u.Name] = u.F
				}
				cu := map[string]fig{}
				for _, u := range v.Users {
					cu[u.Name] = u.F
				}
				for n, pf := range pu {
					for i := range pf {
						if cu[n][i] < pf[i] {
							return "conc:snapshot-not-monotone", fmt.Sprintf("user %q %s went from %d to %d without a reset", n, fieldNames[i], pf[i], cu[n][i])
						}
					}
				}
				for i := range prev.Total {
					if v.Total[i] < prev.Total[i] {
						return "conc:snapshot-not-monotone", fmt.Sprintf("total %s went from %d to %d without a reset", fieldNames[i], prev.Total[i], v.Total[i])
					}
				}
				prev = v
			}
		}
	}
	// API at quiescence shows exactly the figures of the final snapshot
	if o.apiStatsErr != "" {
		return "conc:api-stats-response", o.apiStatsErr
	}
	if k, d := checkSnapshot(o.apiStats, o.final); k != "" {
		return "conc:api-stats-" + k, d
	}
	if o.apiUserErr != "" {
		return "conc:api-get-user-status", o.apiUserErr
	}
	fu := map[string]fig{}
	for _, u := range o.final.Users {
		fu[u.Name] = u.F
	}
	for n, f := range o.apiUsers {
		if f != fu[n] {
			if f == o.final.Total {
				return f10Key, fmt.Sprintf("GET /servers/%s/users/%s shows %s = the server-wide totals; the user's own figures are %s", serverName, n, f, fu[n])
			}
			return "conc:api-get-user-wrong-figures", fmt.Sprintf("GET users/%s shows %s, the final snapshot has %s", n, f, fu[n])
		}
	}
	return "", ""
}

// summed: Σ resetting snapshots + final snapshot, in the shape of one snapshot (users of the final one)
func summed(o concOutcome) snapView {
	s := snapView{}
	acc := map[string]fig{}
	for _, v := range append(append([]snapView{}, o.resets...), o.final) {
		s.Total.add(v.Total)
		for _, u := range v.Users {
			f := acc[u.Name]
			f.add(u.F)
			acc[u.Name] = f
		}
	}
	for _, u := range o.final.Users {
		s.Users = append(s.Users, userView{u.Name, acc[u.Name]})
	}
	return s
}

func evalConc(cfgs []ConcCfg, o *common.Options, rep *common.Report) error {
	type pending struct {
		cfg  ConcCfg
		sum  string
		from int
		n    int
	}
	var lines []string
	var pend []pending
	for _, cfg := range cfgs {
		rounds := 1
		if cfg.Rounds > 0 {
			rounds = cfg.Rounds
		} else if o.Replay != "" {
			rounds = 30
		}
		for round := 0; round < rounds; round++ {
			var out concOutcome
			var err error
			pan := common.Safely(func() { out, err = runConc(cfg) })
			cs := Case{Engine: "conc", Conc: &cfg}
			rep.Case(fmt.Sprintf("conc %+v", cfg), out.overlapped)
			rep.Count(fmt.Sprintf("conc:collectors=%d", cfg.Collectors))
			rep.Count(fmt.Sprintf("conc:resetting-parties=%d", cfg.Resetters+cfg.APIResetters))
			if cfg.LateUsers > 0 {
				rep.Count("conc:with-users-first-seen-mid-run")
			}
			if cfg.Stampede > 0 {
				rep.Count("conc:with-simultaneous-first-use")
			}
			if pan != nil {
				rep.Fail(common.OracleFailure{Engine: "conc", Key: "conc:panic", Case: cs, Detail: fmt.Sprint(pan)})
				continue
			}
			if err != nil {
				return err
			}
			rep.Count(fmt.Sprintf("conc:resetting-snapshots<=%d", bucket(len(out.resets))))
			if k, d := checkConc(cfg, out); k != "" {
				rep.Fail(common.OracleFailure{Engine: "conc", Key: k, Case: cs, Detail: d})
			}
			if o.Driver != "" {
				p := pending{cfg: cfg, sum: summed(out).String(), from: len(lines)}
				lines = append(lines, "new -")
				for _, prog := range out.calls {
					for _, x := range prog {
						lines = append(lines, fmt.Sprintf("%s %s %d %d", x.op, dash(x.user), x.a, x.b))
					}
				}
				lines = append(lines, "snap")
				p.n = len(lines) - p.from
				pend = append(pend, p)
			}
		}
	}
	if o.Driver != "" && len(lines) > 0 {
		model, err := runDriver(o.Driver, lines)
		if err != nil {
			return err
		}
		for _, p := range pend {
			got := model[p.from+p.n-1]
			if got != p.sum {
				cfg := p.cfg
				rep.Diverge(common.Divergence{Engine: "conc", Case: Case{Engine: "conc", Conc: &cfg}, Impl: p.sum, Model: got,
					Note: "Σ resetting snapshots + final snapshot of the concurrent run vs the model's snapshot after the same Collect calls"})
			}
			rep.TracesValidated++
		}
	}
	return nil
}

func bucket(n int) int {
	switch {
	case n == 0:
		return 0
	case n <= 10:
		return 10
	case n <= 100:
		return 100
	case n <= 1000:
		return 1000
	}
	return 1000000
}
