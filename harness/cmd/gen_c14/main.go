// gen_c14: regenerates lean/SSV/Gen/C14.lean from /repo:
//
//   - the counter fields of stats.trafficCollector and the matching stats.Traffic fields + JSON names,
//   - the step programs of collectTCPSession / collectUDPSessionDownlink / collectUDPSessionUplink /
//     snapshot / snapshotAndReset (atomic operations in evaluation order), (*Traffic).Add,
//   - the public Collect* wrappers (which inner function, which argument goes where),
//   - the lock program of serverCollector.userCollector and the anonymous-user routing,
//   - the aggregation programs of Snapshot / SnapshotAndReset,
//   - the API projections handleGetStats / handleGetUser and their routes.
//
// Every extractor walks ALL statements of the function it translates and returns an error
// (=> GEN-BROKEN, the tie is broken) on any statement or expression shape it does not recognise.
package main

import (
	"fmt"
	"go/ast"
	"go/parser"
	"go/printer"
	"go/token"
	"os"
	"path/filepath"
	"reflect"
	"strconv"
	"strings"

	"ssvharness/internal/gen"
)

type ex struct {
	p *gen.Pkg
}

func (e ex) src(n ast.Node) string { return e.p.Src(n) }

// synPkg: a package that is only parsed (no type check): api/ssm imports half of the module and
// the extractor needs nothing but the syntax of three functions.
type synPkg struct {
	dir   string
	fset  *token.FileSet
	files []*ast.File
}

func parseOnly(repo, dir string) (*synPkg, error) {
	fset := token.NewFileSet()
	pkgs, err := parser.ParseDir(fset, filepath.Join(repo, dir), func(fi os.FileInfo) bool { return !strings.HasSuffix(fi.Name(), "_test.go") }, parser.SkipObjectResolution)
	if err != nil {
		return nil, err
	}
	sp := &synPkg{dir: dir, fset: fset}
	for _, p := range pkgs {
		for _, f := range p.Files {
			sp.files = append(sp.files, f)
		}
	}
	return sp, nil
}

func (s *synPkg) src(n ast.Node) string {
	var sb strings.Builder
	printer.Fprint(&sb, s.fset, n)
	return strings.Join(strings.Fields(sb.String()), " ")
}

// Func finds a function (recv == "") or a method by receiver type name.
func (s *synPkg) Func(recv, name string) (*ast.FuncDecl, error) {
	var found *ast.FuncDecl
	for _, f := range s.files {
		for _, d := range f.Decls {
			fd, ok := d.(*ast.FuncDecl)
			if !ok || fd.Name.Name != name {
				continue
			}
			ok = recv == "" && fd.Recv == nil
			if recv != "" && fd.Recv != nil && len(fd.Recv.List) == 1 {
				ok = strings.TrimPrefix(s.src(fd.Recv.List[0].Type), "*") == strings.TrimPrefix(recv, "*")
			}
			if ok {
				if found != nil {
					return nil, fmt.Errorf("%s: function %s.%s declared twice", s.dir, recv, name)
				}
				found = fd
			}
		}
	}
	if found == nil {
		return nil, fmt.Errorf("%s: function %s.%s not found", s.dir, recv, name)
	}
	return found, nil
}

func lowerFirst(s string) string {
	// DownlinkPackets -> downlinkPackets, TCPSessions -> tcpSessions, UDPSessions -> udpSessions
	i := 0
	for i < len(s) && s[i] >= 'A' && s[i] <= 'Z' {
		i++
	}
	switch {
	case i == 0:
		return s
	case i == 1:
		return strings.ToLower(s[:1]) + s[1:]
	case i == len(s):
		return strings.ToLower(s)
	default: // an initialism followed by a capitalised word: TCPSessions -> tcp + Sessions
		return strings.ToLower(s[:i-1]) + s[i-1:]
	}
}

func findStruct(p *gen.Pkg, name string) (*ast.StructType, error) {
	for _, f := range p.Files {
		for _, d := range f.Decls {
			gd, ok := d.(*ast.GenDecl)
			if !ok || gd.Tok != token.TYPE {
				continue
			}
			for _, s := range gd.Specs {
				ts := s.(*ast.TypeSpec)
				if ts.Name.Name == name {
					st, ok := ts.Type.(*ast.StructType)
					if !ok {
						return nil, fmt.Errorf("%s.%s is not a struct", p.Dir, name)
					}
					return st, nil
				}
			}
		}
	}
	return nil, fmt.Errorf("%s: type %s not found", p.Dir, name)
}

func jsonTag(f *ast.Field) string {
	if f.Tag == nil {
		return ""
	}
	t, err := strconv.Unquote(f.Tag.Value)
	if err != nil {
		return ""
	}
	return reflect.StructTag(t).Get("json")
}

func body(fd *ast.FuncDecl) []ast.Stmt { return fd.Body.List }

// paramNames returns the names of all parameters in order.
func paramNames(fd *ast.FuncDecl) []string {
	var ns []string
	for _, f := range fd.Type.Params.List {
		for _, n := range f.Names {
			ns = append(ns, n.Name)
		}
	}
	return ns
}

func recvName(fd *ast.FuncDecl) string {
	if fd.Recv == nil || len(fd.Recv.List) != 1 || len(fd.Recv.List[0].Names) != 1 {
		return ""
	}
	return fd.Recv.List[0].Names[0].Name
}

func index(xs []string, x string) int {
	for i, y := range xs {
		if x == y {
			return i
		}
	}
	return -1
}

// atomicCall recognises `<recv>.<field>.<Method>(args...)`.
func atomicCall(e ast.Expr, recv string) (field, method string, args []ast.Expr, ok bool) {
	c, isCall := e.(*ast.CallExpr)
	if !isCall {
		return
	}
	m, isSel := c.Fun.(*ast.SelectorExpr)
	if !isSel {
		return
	}
	f, isSel := m.X.(*ast.SelectorExpr)
	if !isSel {
		return
	}
	r, isIdent := f.X.(*ast.Ident)
	if !isIdent || r.Name != recv {
		return
	}
	return f.Sel.Name, m.Sel.Name, c.Args, true
}

func main() {
	gen.Main("C14", func(c *gen.Ctx, l *gen.Lean) error {
		p, err := c.Load("stats")
		if err != nil {
			return err
		}
		e := ex{p}

		// ---- counters: trafficCollector ----
		tcs, err := findStruct(p, "trafficCollector")
		if err != nil {
			return err
		}
		var fields []string
		for _, f := range tcs.Fields.List {
			if e.src(f.Type) != "atomic.Uint64" {
				return fmt.Errorf("trafficCollector: field %v has type %s, want atomic.Uint64", f.Names, e.src(f.Type))
			}
			if len(f.Names) == 0 {
				return fmt.Errorf("trafficCollector: embedded field %s", e.src(f.Type))
			}
			for _, n := range f.Names {
				fields = append(fields, n.Name)
			}
		}
		if len(fields) == 0 {
			return fmt.Errorf("trafficCollector has no counters")
		}
		isField := func(s string) bool { return index(fields, s) >= 0 }

		// ---- Traffic struct: one uint64 field per counter, JSON tags ----
		ts, err := findStruct(p, "Traffic")
		if err != nil {
			return err
		}
		trafficOf := map[string]string{} // Traffic field name -> counter
		jsonOf := map[string]string{}    // counter -> json name
		goNameOf := map[string]string{}  // counter -> Traffic field name
		for _, f := range ts.Fields.List {
			if e.src(f.Type) != "uint64" || len(f.Names) != 1 {
				return fmt.Errorf("Traffic: unexpected field %s %s", e.src(f), e.src(f.Type))
			}
			n := f.Names[0].Name
			cn := lowerFirst(n)
			if !isField(cn) {
				return fmt.Errorf("Traffic.%s has no counterpart in trafficCollector (expected %s)", n, cn)
			}
			tag := jsonTag(f)
			if tag == "" || strings.Contains(tag, ",") || tag == "-" {
				return fmt.Errorf("Traffic.%s: unexpected json tag %q", n, tag)
			}
			trafficOf[n] = cn
			jsonOf[cn] = tag
			goNameOf[cn] = n
		}
		if len(trafficOf) != len(fields) {
			return fmt.Errorf("Traffic has %d fields, trafficCollector %d", len(trafficOf), len(fields))
		}

		var sb strings.Builder
		w := func(format string, a ...any) { fmt.Fprintf(&sb, format, a...) }
		w("/-- counters of stats.trafficCollector (all atomic.Uint64), in declaration order -/\ninductive Field where\n")
		for _, f := range fields {
			w("  | %s\n", f)
		}
		w("  deriving DecidableEq, Repr\n\n")
		var dots []string
		for _, f := range fields {
			dots = append(dots, "."+f)
		}
		w("def Field.all : List Field := [%s]\n\n", strings.Join(dots, ", "))
		w("/-- JSON name (struct tag) of the stats.Traffic field that carries the counter -/\ndef Field.jsonName : Field → String\n")
		for _, f := range fields {
			w("  | .%s => %s\n", f, gen.LeanString(jsonOf[f]))
		}
		w("\n/-- Go name of the stats.Traffic field that carries the counter -/\ndef Field.trafficName : Field → String\n")
		for _, f := range fields {
			w("  | .%s => %s\n", f, gen.LeanString(goNameOf[f]))
		}
		w(`
/-- argument of an atomic Add: the i-th parameter of the function, or an integer literal -/
inductive Arg where
  | param (i : Nat)
  | lit (n : Nat)
  deriving DecidableEq, Repr

/-- one atomic operation on a counter; ` + "`out`" + ` = the stats.Traffic field the returned value is stored in -/
inductive Step where
  | add (f : Field) (a : Arg)
  | load (f : Field) (out : Field)
  | swap0 (f : Field) (out : Field)
  deriving DecidableEq, Repr

`)

		// ---- collect* step programs ----
		collectProg := func(name string, nparams int) (string, error) {
			fd, err := p.Func("*trafficCollector", name)
			if err != nil {
				return "", err
			}
			ps := paramNames(fd)
			if len(ps) != nparams {
				return "", fmt.Errorf("%s: %d parameters, expected %d", name, len(ps), nparams)
			}
			for _, f := range fd.Type.Params.List {
				if e.src(f.Type) != "uint64" {
					return "", fmt.Errorf("%s: parameter type %s", name, e.src(f.Type))
				}
			}
			if fd.Type.Results != nil {
				return "", fmt.Errorf("%s: unexpected results", name)
			}
			rv := recvName(fd)
			var steps []string
			for _, s := range body(fd) {
				es, ok := s.(*ast.ExprStmt)
				if !ok {
					return "", fmt.Errorf("%s: unrecognised statement `%s`", name, e.src(s))
				}
				f, m, args, ok := atomicCall(es.X, rv)
				if !ok || m != "Add" || len(args) != 1 || !isField(f) {
					return "", fmt.Errorf("%s: unrecognised statement `%s`", name, e.src(s))
				}
				switch a := args[0].(type) {
				case *ast.Ident:
					i := index(ps, a.Name)
					if i < 0 {
						return "", fmt.Errorf("%s: Add argument `%s` is not a parameter", name, a.Name)
					}
					steps = append(steps, fmt.Sprintf(".add .%s (.param %d)", f, i))
				case *ast.BasicLit:
					v, ok := p.EvalInt(a)
					if !ok || strings.HasPrefix(v, "-") {
						return "", fmt.Errorf("%s: Add argument `%s`", name, e.src(a))
					}
					steps = append(steps, fmt.Sprintf(".add .%s (.lit %s)", f, v))
				default:
					return "", fmt.Errorf("%s: unrecognised Add argument `%s`", name, e.src(args[0]))
				}
			}
			return "[" + strings.Join(steps, ", ") + "]", nil
		}
		for _, n := range []string{"collectTCPSession", "collectUDPSessionDownlink", "collectUDPSessionUplink"} {
			prog, err := collectProg(n, 2)
			if err != nil {
				return err
			}
			fd, _ := p.Func("*trafficCollector", n)
			w("/-- stats.(*trafficCollector).%s(%s) -/\ndef %s : List Step := %s\n\n", n, strings.Join(paramNames(fd), ", "), n, prog)
		}

		// ---- snapshot / snapshotAndReset step programs ----
		snapProg := func(name string) (string, error) {
			fd, err := p.Func("*trafficCollector", name)
			if err != nil {
				return "", err
			}
			if len(paramNames(fd)) != 0 || fd.Type.Results == nil || len(fd.Type.Results.List) != 1 || e.src(fd.Type.Results.List[0].Type) != "Traffic" {
				return "", fmt.Errorf("%s: unexpected signature", name)
			}
			rv := recvName(fd)
			b := body(fd)
			if len(b) != 1 {
				return "", fmt.Errorf("%s: expected a single return statement, found %d statements (first unrecognised: `%s`)", name, len(b), e.src(b[0]))
			}
			rs, ok := b[0].(*ast.ReturnStmt)
			if !ok || len(rs.Results) != 1 {
				return "", fmt.Errorf("%s: unrecognised statement `%s`", name, e.src(b[0]))
			}
			cl, ok := rs.Results[0].(*ast.CompositeLit)
			if !ok || e.src(cl.Type) != "Traffic" {
				return "", fmt.Errorf("%s: unrecognised return value `%s`", name, e.src(rs.Results[0]))
			}
			var steps []string
			seen := map[string]bool{}
			for _, el := range cl.Elts {
				kv, ok := el.(*ast.KeyValueExpr)
				if !ok {
					return "", fmt.Errorf("%s: unkeyed element `%s`", name, e.src(el))
				}
				k, ok := kv.Key.(*ast.Ident)
				if !ok || trafficOf[k.Name] == "" || seen[k.Name] {
					return "", fmt.Errorf("%s: unrecognised key `%s`", name, e.src(kv.Key))
				}
				seen[k.Name] = true
				f, m, args, ok := atomicCall(kv.Value, rv)
				if !ok || !isField(f) {
					return "", fmt.Errorf("%s: unrecognised value `%s`", name, e.src(kv.Value))
				}
				switch {
				case m == "Load" && len(args) == 0:
					steps = append(steps, fmt.Sprintf(".load .%s .%s", f, trafficOf[k.Name]))
				case m == "Swap" && len(args) == 1 && e.src(args[0]) == "0":
					steps = append(steps, fmt.Sprintf(".swap0 .%s .%s", f, trafficOf[k.Name]))
				default:
					return "", fmt.Errorf("%s: unrecognised atomic operation `%s`", name, e.src(kv.Value))
				}
			}
			return "[" + strings.Join(steps, ", ") + "]", nil
		}
		for _, n := range []string{"snapshot", "snapshotAndReset"} {
			prog, err := snapProg(n)
			if err != nil {
				return err
			}
			w("/-- stats.(*trafficCollector).%s(): atomic operations in evaluation order, each with the Traffic field it fills -/\ndef %s : List Step := %s\n\n", n, n, prog)
		}

		// ---- (*Traffic).Add ----
		{
			fd, err := p.Func("*Traffic", "Add")
			if err != nil {
				return err
			}
			ps := paramNames(fd)
			if len(ps) != 1 || e.src(fd.Type.Params.List[0].Type) != "Traffic" {
				return fmt.Errorf("Traffic.Add: unexpected signature")
			}
			rv := recvName(fd)
			var pairs []string
			for _, s := range body(fd) {
				as, ok := s.(*ast.AssignStmt)
				if !ok || as.Tok != token.ADD_ASSIGN || len(as.Lhs) != 1 || len(as.Rhs) != 1 {
					return fmt.Errorf("Traffic.Add: unrecognised statement `%s`", e.src(s))
				}
				ls, ok1 := as.Lhs[0].(*ast.SelectorExpr)
				rs, ok2 := as.Rhs[0].(*ast.SelectorExpr)
				if !ok1 || !ok2 || e.src(ls.X) != rv || e.src(rs.X) != ps[0] || trafficOf[ls.Sel.Name] == "" || trafficOf[rs.Sel.Name] == "" {
					return fmt.Errorf("Traffic.Add: unrecognised statement `%s`", e.src(s))
				}
				pairs = append(pairs, fmt.Sprintf("(.%s, .%s)", trafficOf[ls.Sel.Name], trafficOf[rs.Sel.Name]))
			}
			w("/-- stats.(*Traffic).Add(u): `t.dst += u.src` statements in order, as (dst, src) -/\ndef trafficAdd : List (Field × Field) := [%s]\n\n", strings.Join(pairs, ", "))
		}

		// ---- userCollector.snapshot / snapshotAndReset ----
		w("inductive SnapKind where\n  | snapshot\n  | snapshotAndReset\n  deriving DecidableEq, Repr\n\n")
		for _, n := range []string{"snapshot", "snapshotAndReset"} {
			fd, err := p.Func("*userCollector", n)
			if err != nil {
				return err
			}
			ps := paramNames(fd)
			b := body(fd)
			if len(ps) != 1 || len(b) != 1 {
				return fmt.Errorf("userCollector.%s: unexpected shape", n)
			}
			got := e.src(b[0])
			var kind string
			for _, k := range []string{"snapshot", "snapshotAndReset"} {
				if got == fmt.Sprintf("return User{ Name: %s, Traffic: %s.trafficCollector.%s(), }", ps[0], recvName(fd), k) {
					kind = k
				}
			}
			if kind == "" {
				return fmt.Errorf("userCollector.%s: unrecognised statement `%s`", n, got)
			}
			w("/-- stats.(*userCollector).%s(username) = User{Name: username, Traffic: trafficCollector.%s()} -/\ndef user_%s : SnapKind := .%s\n\n", n, kind, n, kind)
		}

		// ---- serverCollector.userCollector: lock program ----
		w(`/-- flat program of serverCollector.userCollector(username); ` + "`skipIfSet n`" + ` = ` + "`if uc == nil { next n steps }`" + ` -/
inductive LStep where
  | rlock | runlock | lock | unlock
  | lookup          -- uc = sc.ucs[username]
  | skipIfSet (n : Nat)
  | create          -- uc = &userCollector{}
  | store           -- sc.ucs[username] = uc
  | ret             -- return uc
  deriving DecidableEq, Repr

`)
		{
			fd, err := p.Func("*serverCollector", "userCollector")
			if err != nil {
				return err
			}
			ps := paramNames(fd)
			if len(ps) != 1 {
				return fmt.Errorf("userCollector: unexpected parameters")
			}
			rv, un := recvName(fd), ps[0]
			var walk func(ss []ast.Stmt) ([]string, error)
			walk = func(ss []ast.Stmt) ([]string, error) {
				var out []string
				for _, s := range ss {
					t := e.src(s)
					switch {
					case t == rv+".mu.RLock()":
						out = append(out, ".rlock")
					case t == rv+".mu.RUnlock()":
						out = append(out, ".runlock")
					case t == rv+".mu.Lock()":
						out = append(out, ".lock")
					case t == rv+".mu.Unlock()":
						out = append(out, ".unlock")
					case t == "uc := "+rv+".ucs["+un+"]" || t == "uc = "+rv+".ucs["+un+"]":
						out = append(out, ".lookup")
					case t == "uc = &userCollector{}":
						out = append(out, ".create")
					case t == rv+".ucs["+un+"] = uc":
						out = append(out, ".store")
					case t == "return uc":
						out = append(out, ".ret")
					default:
						is, ok := s.(*ast.IfStmt)
						if !ok || is.Init != nil || is.Else != nil || e.src(is.Cond) != "uc == nil" {
							return nil, fmt.Errorf("userCollector: unrecognised statement `%s`", t)
						}
						inner, err := walk(is.Body.List)
						if err != nil {
							return nil, err
						}
						out = append(out, fmt.Sprintf(".skipIfSet %d", len(inner)))
						out = append(out, inner...)
					}
				}
				return out, nil
			}
			prog, err := walk(body(fd))
			if err != nil {
				return err
			}
			w("def userCollector : List LStep := [%s]\n\n", strings.Join(prog, ", "))
		}

		// ---- serverCollector.trafficCollector: anonymous routing ----
		{
			fd, err := p.Func("*serverCollector", "trafficCollector")
			if err != nil {
				return err
			}
			ps := paramNames(fd)
			b := body(fd)
			rv := recvName(fd)
			if len(ps) != 1 || len(b) != 2 {
				return fmt.Errorf("serverCollector.trafficCollector: unexpected shape")
			}
			is, ok := b[0].(*ast.IfStmt)
			if !ok || is.Init != nil || is.Else != nil || len(is.Body.List) != 1 || e.src(is.Body.List[0]) != "return &"+rv+".tc" {
				return fmt.Errorf("serverCollector.trafficCollector: unrecognised statement `%s`", e.src(b[0]))
			}
			be, ok := is.Cond.(*ast.BinaryExpr)
			if !ok || be.Op != token.EQL || e.src(be.X) != ps[0] {
				return fmt.Errorf("serverCollector.trafficCollector: unrecognised condition `%s`", e.src(is.Cond))
			}
			lit, ok := be.Y.(*ast.BasicLit)
			if !ok || lit.Kind != token.STRING {
				return fmt.Errorf("serverCollector.trafficCollector: unrecognised condition `%s`", e.src(is.Cond))
			}
			anon, _ := strconv.Unquote(lit.Value)
			if e.src(b[1]) != "return &"+rv+".userCollector("+ps[0]+").trafficCollector" {
				return fmt.Errorf("serverCollector.trafficCollector: unrecognised statement `%s`", e.src(b[1]))
			}
			w("/-- serverCollector.trafficCollector(username): `username == %s` selects the server's own (anonymous) collector `sc.tc`, every other name `sc.userCollector(username)` -/\ndef anonymousUsername : String := %s\n\n", gen.LeanString(anon), gen.LeanString(anon))
		}

		// ---- public Collect* wrappers ----
		w("inductive Inner where\n  | collectTCPSession\n  | collectUDPSessionDownlink\n  | collectUDPSessionUplink\n  deriving DecidableEq, Repr\n\n")
		w("/-- a public Collect* method: `sc.trafficCollector(username).<inner>(args…)`; `args[i]` = index (after username) of the public parameter passed as the inner function's i-th argument -/\nstructure Wrapper where\n  inner : Inner\n  args : List Nat\n  deriving DecidableEq, Repr\n\n")
		for _, n := range []string{"CollectTCPSession", "CollectUDPSessionDownlink", "CollectUDPSessionUplink"} {
			fd, err := p.Func("*serverCollector", n)
			if err != nil {
				return err
			}
			ps := paramNames(fd)
			b := body(fd)
			if len(ps) != 3 || len(b) != 1 || e.src(fd.Type.Params.List[0].Type) != "string" {
				return fmt.Errorf("%s: unexpected shape", n)
			}
			es, ok := b[0].(*ast.ExprStmt)
			if !ok {
				return fmt.Errorf("%s: unrecognised statement `%s`", n, e.src(b[0]))
			}
			call, ok := es.X.(*ast.CallExpr)
			if !ok {
				return fmt.Errorf("%s: unrecognised statement `%s`", n, e.src(b[0]))
			}
			sel, ok := call.Fun.(*ast.SelectorExpr)
			if !ok || e.src(sel.X) != recvName(fd)+".trafficCollector("+ps[0]+")" {
				return fmt.Errorf("%s: unrecognised statement `%s`", n, e.src(b[0]))
			}
			inner := sel.Sel.Name
			if index([]string{"collectTCPSession", "collectUDPSessionDownlink", "collectUDPSessionUplink"}, inner) < 0 || len(call.Args) != 2 {
				return fmt.Errorf("%s: unrecognised callee `%s`", n, e.src(call))
			}
			var idx []string
			for _, a := range call.Args {
				id, ok := a.(*ast.Ident)
				if !ok || index(ps[1:], id.Name) < 0 {
					return fmt.Errorf("%s: unrecognised argument `%s`", n, e.src(a))
				}
				idx = append(idx, strconv.Itoa(index(ps[1:], id.Name)))
			}
			w("/-- stats.(*serverCollector).%s(%s) -/\ndef %s : Wrapper := { inner := .%s, args := [%s] }\n\n", n, strings.Join(ps, ", "), n, inner, strings.Join(idx, ", "))
		}

		// ---- Snapshot / SnapshotAndReset aggregation ----
		w(`inductive LoopOp where
  | userSnap (k : SnapKind)   -- u := uc.<k>(username)
  | addToTotal                -- s.Traffic.Add(u.Traffic)
  | appendUser                -- s.Users = append(s.Users, u)
  deriving DecidableEq, Repr

inductive AggStep where
  | anonInto (k : SnapKind)   -- s.Traffic = sc.tc.<k>()
  | rlock | runlock
  | makeUsers                 -- s.Users = make([]User, 0, len(sc.ucs))
  | forUsers (body : List LoopOp)   -- for username, uc := range sc.ucs { body }
  | sortUsers                 -- slices.SortFunc(s.Users, User.Compare)
  | ret
  deriving DecidableEq, Repr

`)
		for _, n := range []string{"Snapshot", "SnapshotAndReset"} {
			fd, err := p.Func("*serverCollector", n)
			if err != nil {
				return err
			}
			if len(paramNames(fd)) != 0 || e.src(fd.Type) != "func() (s Server)" {
				return fmt.Errorf("%s: unexpected signature %s", n, e.src(fd.Type))
			}
			rv := recvName(fd)
			var prog []string
			for _, s := range body(fd) {
				t := e.src(s)
				switch {
				case t == "s.Traffic = "+rv+".tc.snapshot()":
					prog = append(prog, ".anonInto .snapshot")
				case t == "s.Traffic = "+rv+".tc.snapshotAndReset()":
					prog = append(prog, ".anonInto .snapshotAndReset")
				case t == rv+".mu.RLock()":
					prog = append(prog, ".rlock")
				case t == rv+".mu.RUnlock()":
					prog = append(prog, ".runlock")
				case t == "s.Users = make([]User, 0, len("+rv+".ucs))":
					prog = append(prog, ".makeUsers")
				case t == "slices.SortFunc(s.Users, User.Compare)":
					prog = append(prog, ".sortUsers")
				case t == "return":
					prog = append(prog, ".ret")
				default:
					rs, ok := s.(*ast.RangeStmt)
					if !ok || rs.Tok != token.DEFINE || e.src(rs.Key) != "username" || rs.Value == nil || e.src(rs.Value) != "uc" || e.src(rs.X) != rv+".ucs" {
						return fmt.Errorf("%s: unrecognised statement `%s`", n, t)
					}
					var ops []string
					for _, bs := range rs.Body.List {
						bt := e.src(bs)
						switch bt {
						case "u := uc.snapshot(username)":
							ops = append(ops, ".userSnap .snapshot")
						case "u := uc.snapshotAndReset(username)":
							ops = append(ops, ".userSnap .snapshotAndReset")
						case "s.Traffic.Add(u.Traffic)":
							ops = append(ops, ".addToTotal")
						case "s.Users = append(s.Users, u)":
							ops = append(ops, ".appendUser")
						default:
							return fmt.Errorf("%s: unrecognised statement in the user loop `%s`", n, bt)
						}
					}
					prog = append(prog, ".forUsers ["+strings.Join(ops, ", ")+"]")
				}
			}
			w("/-- stats.(*serverCollector).%s() -/\ndef %s : List AggStep := [%s]\n\n", n, n, strings.Join(prog, ", "))
		}

		// ---- JSON names of Server / User ----
		{
			st, err := findStruct(p, "Server")
			if err != nil {
				return err
			}
			if len(st.Fields.List) != 2 || len(st.Fields.List[0].Names) != 0 || e.src(st.Fields.List[0].Type) != "Traffic" || st.Fields.List[0].Tag != nil ||
				len(st.Fields.List[1].Names) != 1 || st.Fields.List[1].Names[0].Name != "Users" || e.src(st.Fields.List[1].Type) != "[]User" {
				return fmt.Errorf("stats.Server: unexpected fields")
			}
			tag := jsonTag(st.Fields.List[1])
			name, opts, _ := strings.Cut(tag, ",")
			if name == "" || name == "-" || (opts != "" && opts != "omitzero" && opts != "omitempty") {
				return fmt.Errorf("stats.Server.Users: unexpected json tag %q", tag)
			}
			w("/-- stats.Server = embedded Traffic (totals, inlined in JSON) + Users under this JSON name (omitted when nil) -/\ndef usersJSONName : String := %s\n\n", gen.LeanString(name))
			su, err := findStruct(p, "User")
			if err != nil {
				return err
			}
			if len(su.Fields.List) != 2 || len(su.Fields.List[0].Names) != 1 || su.Fields.List[0].Names[0].Name != "Name" || e.src(su.Fields.List[0].Type) != "string" ||
				len(su.Fields.List[1].Names) != 0 || e.src(su.Fields.List[1].Type) != "Traffic" || su.Fields.List[1].Tag != nil {
				return fmt.Errorf("stats.User: unexpected fields")
			}
			utag := jsonTag(su.Fields.List[0])
			if utag == "" || strings.Contains(utag, ",") || utag == "-" {
				return fmt.Errorf("stats.User.Name: unexpected json tag %q", utag)
			}
			w("/-- stats.User = Name under this JSON name + embedded Traffic -/\ndef usernameJSONName : String := %s\n\n", gen.LeanString(utag))
		}

		// ---- API projections (api/ssm) ----
		q, err := parseOnly(c.Repo, "api/ssm")
		if err != nil {
			return err
		}
		a := q
		{
			fd, err := q.Func("", "handleGetStats")
			if err != nil {
				return err
			}
			b := body(fd)
			if len(b) != 3 {
				return fmt.Errorf("handleGetStats: expected 3 statements, found %d", len(b))
			}
			if a.src(b[0]) != "var serverStats stats.Server" {
				return fmt.Errorf("handleGetStats: unrecognised statement `%s`", a.src(b[0]))
			}
			is, ok := b[1].(*ast.IfStmt)
			if !ok || is.Init == nil || a.src(is.Init) != `v := r.URL.Query()["clear"]` {
				return fmt.Errorf("handleGetStats: unrecognised statement `%s`", a.src(b[1]))
			}
			// condition: len(v) == 1 && (v[0] == "" || v[0] == "true")
			cond := a.src(is.Cond)
			const pre = "len(v) == 1 && ("
			if !strings.HasPrefix(cond, pre) || !strings.HasSuffix(cond, ")") {
				return fmt.Errorf("handleGetStats: unrecognised condition `%s`", cond)
			}
			var vals []string
			for _, alt := range strings.Split(cond[len(pre):len(cond)-1], " || ") {
				rest, ok := strings.CutPrefix(alt, "v[0] == ")
				if !ok {
					return fmt.Errorf("handleGetStats: unrecognised condition `%s`", cond)
				}
				s, err := strconv.Unquote(rest)
				if err != nil {
					return fmt.Errorf("handleGetStats: unrecognised condition `%s`", cond)
				}
				vals = append(vals, s)
			}
			eb, ok := is.Else.(*ast.BlockStmt)
			if !ok || len(is.Body.List) != 1 || len(eb.List) != 1 ||
				a.src(is.Body.List[0]) != "serverStats = sc.SnapshotAndReset()" || a.src(eb.List[0]) != "serverStats = sc.Snapshot()" {
				return fmt.Errorf("handleGetStats: unrecognised branches `%s`", a.src(b[1]))
			}
			if a.src(b[2]) != "return restapi.EncodeResponse(w, http.StatusOK, serverStats)" {
				return fmt.Errorf("handleGetStats: unrecognised statement `%s`", a.src(b[2]))
			}
			w("/-- api/ssm handleGetStats: responds 200 with SnapshotAndReset() iff the query has exactly one `clear` value and it is one of these; otherwise with Snapshot() -/\ndef statsClearValues : List String := %s\n\n", gen.LeanStrList(vals))
		}
		{
			fd, err := q.Func("", "handleGetUser")
			if err != nil {
				return err
			}
			b := body(fd)
			if len(b) != 5 {
				return fmt.Errorf("handleGetUser: expected 5 statements, found %d", len(b))
			}
			want := []string{
				"type response struct { cred.UserCredential stats.Traffic }",
				`username := r.PathValue("username")`,
				"userCred, ok := s.CredentialManager.GetCredential(username)",
				"if !ok { return restapi.EncodeResponse(w, http.StatusNotFound, &userNotFoundJSON) }",
			}
			for i, x := range want {
				if a.src(b[i]) != x {
					return fmt.Errorf("handleGetUser: unrecognised statement `%s`", a.src(b[i]))
				}
			}
			var proj string
			switch a.src(b[4]) {
			case "return restapi.EncodeResponse(w, http.StatusOK, response{userCred, s.StatsCollector.Snapshot().Traffic})":
				proj = "serverTotals"
			case "return restapi.EncodeResponse(w, http.StatusOK, response{userCred, userTraffic(s.StatsCollector.Snapshot(), username)})":
				ut, err := q.Func("", "userTraffic")
				if err != nil {
					return err
				}
				ps := paramNames(ut)
				if len(ps) != 2 {
					return fmt.Errorf("userTraffic: unexpected parameters")
				}
				wantBody := fmt.Sprintf("{ for i := range %[1]s.Users { if %[1]s.Users[i].Name == %[2]s { return %[1]s.Users[i].Traffic } } return stats.Traffic{} }", ps[0], ps[1])
				if a.src(ut.Body) != wantBody {
					return fmt.Errorf("userTraffic: unrecognised body `%s`", a.src(ut.Body))
				}
				proj = "userLookup"
			default:
				return fmt.Errorf("handleGetUser: unrecognised statement `%s`", a.src(b[4]))
			}
			w(`/-- which figures of a Snapshot() api/ssm handleGetUser puts next to the credential (404 when the credential manager does not know the user) -/
inductive UserProjection where
  | serverTotals   -- Snapshot().Traffic : the server-wide totals
  | userLookup     -- the Traffic of the entry of Snapshot().Users with Name == username, zero Traffic when there is none
  deriving DecidableEq, Repr

def getUserProjection : UserProjection := .%s

`, proj)
		}
		{
			fd, err := q.Func("*ServerManager", "RegisterHandlers")
			if err != nil {
				return err
			}
			var statsRoute, userRoute string
			for _, s := range body(fd) {
				t := a.src(s)
				const pre = "register(http.Method"
				if !strings.HasPrefix(t, pre) {
					return fmt.Errorf("RegisterHandlers: unrecognised statement `%s`", t)
				}
				es := s.(*ast.ExprStmt).X.(*ast.CallExpr)
				if len(es.Args) != 3 {
					return fmt.Errorf("RegisterHandlers: unrecognised statement `%s`", t)
				}
				method := strings.ToUpper(strings.TrimPrefix(a.src(es.Args[0]), "http.Method"))
				path, err := strconv.Unquote(a.src(es.Args[1]))
				if err != nil {
					return fmt.Errorf("RegisterHandlers: unrecognised path `%s`", a.src(es.Args[1]))
				}
				switch a.src(es.Args[2]) {
				case "sm.requireServerStats(handleGetStats)":
					statsRoute = method + " " + path
				case "sm.requireServerUsers(handleGetUser)":
					userRoute = method + " " + path
				}
			}
			if statsRoute == "" || userRoute == "" {
				return fmt.Errorf("RegisterHandlers: handleGetStats / handleGetUser are not registered")
			}
			w("def statsRoute : String := %s\ndef userRoute : String := %s\n", gen.LeanString(statsRoute), gen.LeanString(userRoute))
		}
		l.Raw(sb.String())
		return nil
	})
}
