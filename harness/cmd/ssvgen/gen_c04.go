package main

func init() { registry["C04"] = genC04 }

func genC04(c *Ctx, l *Lean) error {
	p, err := c.Load("ss2022")
	if err != nil {
		return err
	}
	return l.Consts(p, "swfBlockBits", "DefaultSlidingWindowFilterSize", "MaxEpochDiff", "ReplayWindowDuration")
}
