// gen_c15: regenerates lean/SSV/Gen/C15.lean from /repo/netio/pipe.go.
//
// What is extracted (as plain `List String` data; SSV/Props/C15.lean compares it with the model by `decide`):
// the case expressions of the pre-check switch, the comm clauses of the select (in source order) and the
// statements of every clause body of read / writeTo / write; the lock prologue, loop header and epilogue of
// write; the statements of the close functions (order `Store; close`), of Set{Read,Write}Deadline, of
// pipeDeadline.set / wait, onceError.Store / Load, isClosedChan, the close error mappers; every builtin
// `close(...)` and `make(chan ...)` in the file; the channel wiring of NewPipe.
//
// The three call bodies are walked strictly: any statement outside the expected shape
// (switch ; [lock prologue] ; [for] select) makes the extractor fail => GEN-BROKEN.
package main

import (
	"fmt"
	"go/ast"
	"strings"

	"ssvharness/internal/gen"
)

type ex struct {
	p *gen.Pkg
	l *gen.Lean
}

func (x *ex) strs(name string, xs []string) {
	x.l.Raw(fmt.Sprintf("def %s : List String := %s\n", name, gen.LeanStrList(xs)))
}

func (x *ex) strss(name string, xss [][]string) {
	parts := make([]string, len(xss))
	for i, xs := range xss {
		parts[i] = gen.LeanStrList(xs)
	}
	x.l.Raw(fmt.Sprintf("def %s : List (List String) := [%s]\n", name, strings.Join(parts, ", ")))
}

func (x *ex) stmtTexts(ss []ast.Stmt) []string {
	out := make([]string, 0, len(ss))
	for _, s := range ss {
		out = append(out, x.p.Src(s))
	}
	return out
}

// body emits all top-level statements of a function as text.
func (x *ex) body(lean, recv, name string) error {
	fd, err := x.p.Func(recv, name)
	if err != nil {
		return err
	}
	if fd.Body == nil {
		return fmt.Errorf("%s.%s has no body", recv, name)
	}
	x.strs(lean, x.stmtTexts(fd.Body.List))
	return nil
}

// precheck: tagless switch whose every clause is `case <expr>: return ...`.
func (x *ex) precheck(prefix string, s ast.Stmt) error {
	sw, ok := s.(*ast.SwitchStmt)
	if !ok || sw.Init != nil || sw.Tag != nil {
		return fmt.Errorf("%s: expected a tagless switch as pre-check, found %s", prefix, x.p.Src(s))
	}
	var conds, rets []string
	for _, c := range sw.Body.List {
		cc := c.(*ast.CaseClause)
		if len(cc.List) != 1 {
			return fmt.Errorf("%s: pre-check clause with %d expressions (default?)", prefix, len(cc.List))
		}
		if len(cc.Body) != 1 {
			return fmt.Errorf("%s: pre-check clause body is not a single statement", prefix)
		}
		if _, ok := cc.Body[0].(*ast.ReturnStmt); !ok {
			return fmt.Errorf("%s: pre-check clause body is not a return: %s", prefix, x.p.Src(cc.Body[0]))
		}
		conds = append(conds, x.p.Src(cc.List[0]))
		rets = append(rets, x.p.Src(cc.Body[0]))
	}
	x.strs(prefix+"Precheck", conds)
	x.strs(prefix+"PrecheckRet", rets)
	return nil
}

// commText: the channel operation of a comm clause (`x := <-c` => `<-c`).
func (x *ex) commText(c ast.Stmt) (string, error) {
	switch s := c.(type) {
	case nil:
		return "default", nil
	case *ast.SendStmt:
		return x.p.Src(s), nil
	case *ast.ExprStmt:
		return x.p.Src(s.X), nil
	case *ast.AssignStmt:
		if len(s.Rhs) == 1 {
			return x.p.Src(s.Rhs[0]), nil
		}
	}
	return "", fmt.Errorf("unrecognised comm clause %s", x.p.Src(c))
}

func (x *ex) selectStmt(prefix string, s ast.Stmt) error {
	sel, ok := s.(*ast.SelectStmt)
	if !ok {
		return fmt.Errorf("%s: expected a select, found %s", prefix, x.p.Src(s))
	}
	var comms []string
	var bodies [][]string
	for _, c := range sel.Body.List {
		cc := c.(*ast.CommClause)
		t, err := x.commText(cc.Comm)
		if err != nil {
			return fmt.Errorf("%s: %v", prefix, err)
		}
		comms = append(comms, t)
		bodies = append(bodies, x.stmtTexts(cc.Body))
	}
	x.strs(prefix+"Select", comms)
	x.strss(prefix+"SelectBodies", bodies)
	return nil
}

func (x *ex) loopHeader(f *ast.ForStmt) []string {
	h := []string{"", "", ""}
	if f.Init != nil {
		h[0] = x.p.Src(f.Init)
	}
	if f.Cond != nil {
		h[1] = x.p.Src(f.Cond)
	}
	if f.Post != nil {
		h[2] = x.p.Src(f.Post)
	}
	return h
}

func (x *ex) read() error {
	fd, err := x.p.Func("*PipeConn", "read")
	if err != nil {
		return err
	}
	b := fd.Body.List
	if len(b) != 2 {
		return fmt.Errorf("read: expected exactly (switch; select), found %d statements", len(b))
	}
	if err := x.precheck("read", b[0]); err != nil {
		return err
	}
	return x.selectStmt("read", b[1])
}

func (x *ex) writeTo() error {
	fd, err := x.p.Func("*PipeConn", "writeTo")
	if err != nil {
		return err
	}
	b := fd.Body.List
	if len(b) != 1 {
		return fmt.Errorf("writeTo: expected exactly one for statement, found %d statements", len(b))
	}
	f, ok := b[0].(*ast.ForStmt)
	if !ok {
		return fmt.Errorf("writeTo: expected a for statement, found %s", x.p.Src(b[0]))
	}
	x.strs("writeToLoop", x.loopHeader(f))
	if len(f.Body.List) != 2 {
		return fmt.Errorf("writeTo: loop body is not (switch; select)")
	}
	if err := x.precheck("writeTo", f.Body.List[0]); err != nil {
		return err
	}
	return x.selectStmt("writeTo", f.Body.List[1])
}

func (x *ex) write() error {
	fd, err := x.p.Func("*PipeConn", "write")
	if err != nil {
		return err
	}
	b := fd.Body.List
	if len(b) < 2 {
		return fmt.Errorf("write: body too short")
	}
	if err := x.precheck("write", b[0]); err != nil {
		return err
	}
	fi := -1
	for i, s := range b {
		if _, ok := s.(*ast.ForStmt); ok {
			if fi >= 0 {
				return fmt.Errorf("write: more than one for statement")
			}
			fi = i
		}
	}
	if fi < 1 {
		return fmt.Errorf("write: no for statement after the pre-check")
	}
	x.strs("writePrologue", x.stmtTexts(b[1:fi]))
	x.strs("writeEpilogue", x.stmtTexts(b[fi+1:]))
	f := b[fi].(*ast.ForStmt)
	x.strs("writeLoop", x.loopHeader(f))
	if len(f.Body.List) != 1 {
		return fmt.Errorf("write: loop body is not a single select")
	}
	return x.selectStmt("write", f.Body.List[0])
}

func (x *ex) fileWide() error {
	var file *ast.File
	for _, f := range x.p.Files {
		for _, d := range f.Decls {
			if fd, ok := d.(*ast.FuncDecl); ok && fd.Name.Name == "NewPipe" {
				file = f
			}
		}
	}
	if file == nil {
		return fmt.Errorf("NewPipe not found")
	}
	var closes, makes []string
	ast.Inspect(file, func(n ast.Node) bool {
		switch v := n.(type) {
		case *ast.CallExpr:
			if id, ok := v.Fun.(*ast.Ident); ok && id.Name == "close" {
				closes = append(closes, x.p.Src(v))
			}
		case *ast.AssignStmt:
			for i, r := range v.Rhs {
				if c, ok := r.(*ast.CallExpr); ok && i < len(v.Lhs) {
					if id, ok := c.Fun.(*ast.Ident); ok && id.Name == "make" && len(c.Args) > 0 {
						if _, isChan := c.Args[0].(*ast.ChanType); isChan {
							makes = append(makes, x.p.Src(v.Lhs[i])+"="+x.p.Src(c))
						}
					}
				}
			}
		case *ast.KeyValueExpr:
			if c, ok := v.Value.(*ast.CallExpr); ok {
				if id, ok := c.Fun.(*ast.Ident); ok && id.Name == "make" && len(c.Args) > 0 {
					if _, isChan := c.Args[0].(*ast.ChanType); isChan {
						makes = append(makes, x.p.Src(v.Key)+"="+x.p.Src(c))
					}
				}
			}
		}
		return true
	})
	x.strs("closeCalls", closes)
	x.strs("makeChans", makes)

	// NewPipe: the two composite literals and the OnceFunc wrappers
	fd, _ := x.p.Func("", "NewPipe")
	var lits [][]string
	var once []string
	ast.Inspect(fd.Body, func(n ast.Node) bool {
		switch v := n.(type) {
		case *ast.CompositeLit:
			if id, ok := v.Type.(*ast.Ident); ok && id.Name == "PipeConn" {
				var kv []string
				for _, e := range v.Elts {
					if k, ok := e.(*ast.KeyValueExpr); ok {
						kv = append(kv, x.p.Src(k.Key)+"="+x.p.Src(k.Value))
					} else {
						kv = append(kv, "?"+x.p.Src(e))
					}
				}
				lits = append(lits, kv)
			}
		case *ast.AssignStmt:
			if len(v.Rhs) == 1 {
				if c, ok := v.Rhs[0].(*ast.CallExpr); ok && x.p.Src(c.Fun) == "sync.OnceFunc" {
					once = append(once, x.p.Src(v))
				}
			}
		}
		return true
	})
	if len(lits) != 2 {
		return fmt.Errorf("NewPipe: expected two PipeConn literals, found %d", len(lits))
	}
	x.strs("pipeLeft", lits[0])
	x.strs("pipeRight", lits[1])
	x.strs("onceFuncs", once)
	return nil
}

func main() {
	gen.Main("C15", func(c *gen.Ctx, l *gen.Lean) error {
		p, err := c.Load("netio")
		if err != nil {
			return err
		}
		x := &ex{p: p, l: l}
		l.Comment("source: netio/pipe.go")
		if err := x.read(); err != nil {
			return err
		}
		if err := x.writeTo(); err != nil {
			return err
		}
		if err := x.write(); err != nil {
			return err
		}
		for _, b := range [][3]string{
			{"closeReadSteps", "*PipeConn", "CloseReadWithError"},
			{"closeWriteSteps", "*PipeConn", "CloseWriteWithError"},
			{"closeWithErrorSteps", "*PipeConn", "CloseWithError"},
			{"closeReadBody", "*PipeConn", "CloseRead"},
			{"closeWriteBody", "*PipeConn", "CloseWrite"},
			{"closeBody", "*PipeConn", "Close"},
			{"setReadDeadlineSteps", "*PipeConn", "SetReadDeadline"},
			{"setWriteDeadlineSteps", "*PipeConn", "SetWriteDeadline"},
			{"setDeadlineSteps", "*PipeConn", "SetDeadline"},
			{"writeCloseErrorBody", "*PipeConn", "writeCloseError"},
			{"writeToReadCloseErrorBody", "*PipeConn", "writeToReadCloseError"},
			{"readWrapper", "*PipeConn", "Read"},
			{"writeWrapper", "*PipeConn", "Write"},
			{"writeToWrapper", "*PipeConn", "WriteTo"},
			{"onceStoreBody", "*onceError", "Store"},
			{"onceLoadBody", "*onceError", "Load"},
			{"isClosedChanBody", "", "isClosedChan"},
			{"deadlineWaitBody", "*pipeDeadline", "wait"},
			{"deadlineSetBody", "*pipeDeadline", "set"},
			{"makeDeadlineBody", "", "makePipeDeadline"},
		} {
			if err := x.body(b[0], b[1], b[2]); err != nil {
				return err
			}
		}
		return x.fileWide()
	})
}
