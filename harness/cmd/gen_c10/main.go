// gen_c10: regenerates lean/SSV/Gen/C10.lean from /repo: the matcher thresholds, the text-format
// prefixes / capacity-hint framing of domainset, the literal probe length used by BuilderFromText,
// the geometry of portset.PortSet, and the representation thresholds of the router's port criteria.
package main

import (
	"fmt"
	"go/ast"
	"go/token"
	"go/types"
	"sort"
	"strconv"
	"strings"

	"ssvharness/internal/gen"
)

func bytesList(s string) string {
	var sb strings.Builder
	sb.WriteByte('[')
	for i := 0; i < len(s); i++ {
		if i > 0 {
			sb.WriteString(", ")
		}
		fmt.Fprintf(&sb, "%d", s[i])
	}
	sb.WriteByte(']')
	return sb.String()
}

func main() {
	gen.Main("C10", func(c *gen.Ctx, l *gen.Lean) error {
		ds, err := c.Load("domainset")
		if err != nil {
			return err
		}
		if err := l.Consts(ds, "MaxLinearDomains", "MaxLinearSuffixes"); err != nil {
			return err
		}
		for _, n := range []string{"domainPrefix", "suffixPrefix", "keywordPrefix", "regexpPrefix", "capacityHintPrefix", "capacityHintSuffix"} {
			v, err := ds.ConstString(n)
			if err != nil {
				return err
			}
			l.Raw(fmt.Sprintf("/-- domainset.%s = %s (as bytes) -/\ndef %s : List UInt8 := %s\n", n, gen.LeanString(v), n, bytesList(v)))
		}
		// BuilderFromText compares a fixed-length probe of the line against the prefixes: every integer literal
		// in its body other than 0 must be that one length.
		fd, err := ds.Func("", "BuilderFromText")
		if err != nil {
			return err
		}
		// the clamp of the capacity hints: `maxRuleCount := (len(line)+len(text))/D + A` followed by
		// `for i := range dskr { dskr[i] = min(dskr[i], maxRuleCount) }`, before the builders are made
		var clampDiv, clampAdd string
		var clampStmt ast.Node
		clampPos, loopPos, makePos := token.NoPos, token.NoPos, token.NoPos
		for _, st := range fd.Body.List {
			src := ds.Src(st)
			if as, ok := st.(*ast.AssignStmt); ok && len(as.Lhs) == 1 && ds.Src(as.Lhs[0]) == "maxRuleCount" {
				be, ok := as.Rhs[0].(*ast.BinaryExpr)
				if !ok || be.Op != token.ADD {
					return fmt.Errorf("domainset.BuilderFromText: unrecognised clamp %q", src)
				}
				q, ok := be.X.(*ast.BinaryExpr)
				if !ok || q.Op != token.QUO || ds.Src(q.X) != "(len(line) + len(text))" {
					return fmt.Errorf("domainset.BuilderFromText: unrecognised clamp %q", src)
				}
				d, ok1 := ds.EvalInt(q.Y)
				a, ok2 := ds.EvalInt(be.Y)
				if !ok1 || !ok2 {
					return fmt.Errorf("domainset.BuilderFromText: non-constant clamp %q", src)
				}
				clampDiv, clampAdd, clampStmt, clampPos = d, a, st, st.Pos()
			}
			if src == "for i := range dskr { dskr[i] = min(dskr[i], maxRuleCount) }" {
				loopPos = st.Pos()
			}
			if strings.HasPrefix(src, "dsb := Builder{") {
				makePos = st.Pos()
			}
		}
		if clampStmt == nil || loopPos == token.NoPos || makePos == token.NoPos || !(clampPos < loopPos && loopPos < makePos) {
			return fmt.Errorf("domainset.BuilderFromText: the capacity hints are not clamped by the text size before the builders are made (clamp %v, loop %v, make %v)", clampPos != token.NoPos, loopPos != token.NoPos, makePos != token.NoPos)
		}
		l.NatDef("hintClampDiv", clampDiv, "domainset.BuilderFromText: maxRuleCount := (len(line)+len(text))/D + A")
		l.NatDef("hintClampAdd", clampAdd, "domainset.BuilderFromText: maxRuleCount := (len(line)+len(text))/D + A")
		lits := map[string]int{}
		ast.Inspect(fd.Body, func(n ast.Node) bool {
			if n == clampStmt {
				return false
			}
			if ix, ok := n.(*ast.IndexExpr); ok {
				if id, ok := ix.X.(*ast.Ident); ok && id.Name == "dskr" {
					return false // the capacity-hint slots dskr[0..3]
				}
			}
			if b, ok := n.(*ast.BasicLit); ok && b.Kind == token.INT && b.Value != "0" {
				lits[b.Value]++
			}
			return true
		})
		if len(lits) != 1 {
			keys := []string{}
			for k := range lits {
				keys = append(keys, k)
			}
			sort.Strings(keys)
			return fmt.Errorf("domainset.BuilderFromText: expected exactly one non-zero integer literal (the probe length), found %v", keys)
		}
		for k, n := range lits {
			if n != 5 {
				return fmt.Errorf("domainset.BuilderFromText: probe-length literal %s occurs %d times, expected 5 (len(line) > n, line[:n], keywordPrefix[:n], line[n], keywordPrefix[n])", k, n)
			}
			l.NatDef("textProbeLen", k, "domainset.BuilderFromText: the literal probe length")
		}
		// the switch order of the four prefixes (informational; they are pairwise distinct, see Props)
		var order []string
		ast.Inspect(fd.Body, func(n ast.Node) bool {
			if cc, ok := n.(*ast.CaseClause); ok {
				for _, e := range cc.List {
					order = append(order, ds.Src(e))
				}
			}
			return true
		})
		want := []string{"suffixPrefix", "domainPrefix", "regexpPrefix", "keywordPrefix[:7]"}
		if strings.Join(order, ",") != strings.Join(want, ",") {
			return fmt.Errorf("domainset.BuilderFromText: unrecognised case list %v", order)
		}
		l.Raw("/-- domainset.BuilderFromText: case order of the prefix switch -/\ndef textCaseOrder : List String := " + gen.LeanStrList(order) + "\n")

		// which builder each text/gob loader slot uses
		src := ds.Src(fd.Body)
		for _, ctor := range []string{"NewDomainMapMatcher(dskr[0])", "NewDomainSuffixTrieMatcherBuilder(dskr[1])", "NewKeywordLinearMatcher(dskr[2])", "NewRegexpMatcherBuilder(dskr[3])"} {
			if !strings.Contains(src, ctor) {
				return fmt.Errorf("domainset.BuilderFromText: builder slot %s not found", ctor)
			}
		}
		l.Raw("/-- domainset.BuilderFromText builds (DomainMapMatcher, DomainSuffixTrie, KeywordLinearMatcher, RegexpMatcherBuilder) -/\ndef textBuilderSlots : List String := [\"map\", \"trie\", \"linear\", \"regexp\"]\n")

		ps, err := c.Load("portset")
		if err != nil {
			return err
		}
		if err := l.Consts(ps, "portsetBlockBits=blockBits"); err != nil {
			return err
		}
		obj := ps.Types.Scope().Lookup("PortSet")
		if obj == nil {
			return fmt.Errorf("portset.PortSet not found")
		}
		st, ok := obj.Type().Underlying().(*types.Struct)
		if !ok || st.NumFields() != 1 {
			return fmt.Errorf("portset.PortSet: expected a struct with one field")
		}
		arr, ok := st.Field(0).Type().(*types.Array)
		if !ok {
			return fmt.Errorf("portset.PortSet.%s: expected an array", st.Field(0).Name())
		}
		if b, ok := arr.Elem().(*types.Basic); !ok || b.Kind() != types.Uint {
			return fmt.Errorf("portset.PortSet.%s: expected [N]uint", st.Field(0).Name())
		}
		l.NatDef("portsetBlocks", fmt.Sprint(arr.Len()), "len(portset.PortSet.blocks)")

		// router: representation chosen by port count / range count
		rt, err := c.Load("router")
		if err != nil {
			return err
		}
		rf, err := rt.Func("*RouteConfig", "Route")
		if err != nil {
			return err
		}
		var maxRanges []string
		var cases []string
		ast.Inspect(rf.Body, func(n ast.Node) bool {
			switch x := n.(type) {
			case *ast.BinaryExpr:
				if id, ok := x.X.(*ast.Ident); ok && id.Name == "portRangeCount" {
					if x.Op != token.LEQ {
						maxRanges = append(maxRanges, "bad-op:"+x.Op.String())
					} else if v, ok := rt.EvalInt(x.Y); ok {
						maxRanges = append(maxRanges, v)
					} else {
						maxRanges = append(maxRanges, "non-constant")
					}
				}
			case *ast.SwitchStmt:
				if id, ok := x.Tag.(*ast.Ident); ok && id.Name == "portCount" {
					for _, s := range x.Body.List {
						cc := s.(*ast.CaseClause)
						if cc.List == nil {
							cases = append(cases, "default")
						}
						for _, e := range cc.List {
							v, _ := rt.EvalInt(e)
							cases = append(cases, v)
						}
					}
				}
			}
			return true
		})
		if len(maxRanges) != 2 || maxRanges[0] != maxRanges[1] || strings.ContainsAny(maxRanges[0], "-:") {
			return fmt.Errorf("router.Route: expected two identical `portRangeCount <= N` tests, found %v", maxRanges)
		}
		if strings.Join(cases, ",") != "0,1,65535,default,0,1,65535,default" {
			return fmt.Errorf("router.Route: unrecognised portCount switch %v", cases)
		}
		l.NatDef("routerMaxPortRanges", maxRanges[0], "router.Route: `portRangeCount <= N` selects the range-set criterion")
		l.Raw("/-- router.Route: `switch portCount` cases (0 unreachable, 1 single port, 65535 rejected, default range set / bit set) -/\ndef routerPortCountCases : List Nat := [0, 1, 65535]\n")

		// converter: the text/gob paths are exactly the domainset functions
		cv, err := c.Load("cmd/shadowsocks-go-domain-set-converter")
		if err != nil {
			return err
		}
		mf, err := cv.Func("", "main")
		if err != nil {
			return err
		}
		msrc := cv.Src(mf.Body)
		for _, need := range []string{"inFunc = domainset.BuilderFromText", "inFunc = domainset.BuilderFromGobString", "err = dsb.WriteText(fout)", "err = dsb.WriteGob(fout)", "dsb, err := inFunc(data)"} {
			if !strings.Contains(msrc, need) {
				return fmt.Errorf("converter main: expected statement %q not found", need)
			}
		}
		l.Raw("/-- converter main: inText/inGob -> BuilderFromText/BuilderFromGobString; outText/outGob -> WriteText/WriteGob -/\ndef converterUsesDomainsetIO : Bool := true\n")
		// the dlc reader of the converter: its four local prefix constants and the four builder slots
		df, err := cv.Func("", "DomainSetBuilderFromDlc")
		if err != nil {
			return err
		}
		local := map[string]string{}
		ast.Inspect(df.Body, func(n ast.Node) bool {
			if vs, ok := n.(*ast.ValueSpec); ok {
				for i, nm := range vs.Names {
					if i < len(vs.Values) {
						if bl, ok := vs.Values[i].(*ast.BasicLit); ok && bl.Kind == token.STRING {
							if v, err := strconv.Unquote(bl.Value); err == nil {
								local[nm.Name] = v
							}
						}
					}
				}
			}
			return true
		})
		for _, pair := range [][2]string{{"dlcFullPrefix", "domainPrefix"}, {"dlcDomainPrefix", "suffixPrefix"}, {"dlcKeywordPrefix", "keywordPrefix"}, {"dlcRegexpPrefix", "regexpPrefix"}} {
			v, ok := local[pair[1]]
			if !ok {
				return fmt.Errorf("DomainSetBuilderFromDlc: local constant %s not found", pair[1])
			}
			l.Raw(fmt.Sprintf("/-- converter DomainSetBuilderFromDlc: %s = %s (as bytes) -/\ndef %s : List UInt8 := %s\n", pair[1], gen.LeanString(v), pair[0], bytesList(v)))
		}
		dsrc := cv.Src(df.Body)
		for _, need := range []string{"for line := range bytestrings.NonEmptyLines(text)", "if line[0] == '#' { continue }", "end := strings.IndexByte(line, '@')", "if end == 0 {",
			"case strings.HasPrefix(line, domainPrefix): dsb.DomainMatcherBuilder().Insert(line[domainPrefixLen:end])",
			"case strings.HasPrefix(line, suffixPrefix): dsb.SuffixMatcherBuilder().Insert(line[suffixPrefixLen:end])",
			"case strings.HasPrefix(line, keywordPrefix): dsb.KeywordMatcherBuilder().Insert(line[keywordPrefixLen:end])",
			"case strings.HasPrefix(line, regexpPrefix): dsb.RegexpMatcherBuilder().Insert(line[regexpPrefixLen:end])",
			"if end == -1 || line[end+1:] != tag {"} {
			if !strings.Contains(dsrc, need) {
				return fmt.Errorf("DomainSetBuilderFromDlc: expected statement %q not found", need)
			}
		}
		return nil
	})
}
