// corr_c01: correspondence + property oracle for C01 (SS2022 TCP tunnel delivers the exact byte
// stream both ways).
//
// Engine "stream": real ss2022 client/server pairs over scripted transports (every Conn.Write is
// recorded as one segment; the reading side gets the recorded wire back in scripted segments:
// as written, coalesced, 1-byte, cut inside every header/tag, random). The harness decodes the real
// wire with the session keys (independent decoder), re-encodes it with the toy AEAD of the Lean
// driver (same lengths, so same offsets) and compares, line by line, with the model: every transport
// write, the request seen by the server, the outcome of every Read / WriteTo / tunnel copy.
// The oracle is written from the property statement and does not look at the model.
package main

import (
	"bytes"
	"fmt"
	"os"
	"strings"
	"sync"
	"time"

	"ssvharness/internal/common"
	. "ssvharness/internal/sstream"
)

const maxPayload = 0xFFFF

// ---------- oracle (from the statement of C01) ----------

func normAddrBytes(t Target) []byte {
	port := []byte{byte(t.Port >> 8), byte(t.Port)}
	switch t.Kind {
	case "d":
		d := t.Domain()
		return append(append([]byte{3, byte(len(d))}, d...), port...)
	}
	a := t.Addr().IP()
	if a.Is4() || a.Is4In6() {
		b := a.As4()
		return append(append([]byte{1}, b[:]...), port...)
	}
	b := a.As16()
	return append(append([]byte{4}, b[:]...), port...)
}

// streamOracle checks one direction: `have` bytes already delivered (request payload), then the ops.
// touts: the read deadlines scripted for this direction's transport (nil: none); mid: the deadline
// falls strictly inside a chunk (the conn may, and after the repair must, stay failed afterwards).
func streamOracle(dir string, want []byte, have int, ops []OpObs, sinkStarted bool, touts []int, mid bool) (string, string) {
	pos := have
	sawRead := false
	nTimeouts := 0
	for i, o := range ops {
		k := o.Op.Kind
		if strings.HasPrefix(o.Err, "panic:") {
			if dir == "s2c" && k == "tunnel" && !sinkStarted && sawRead && strings.Contains(o.Err, "nil pointer") {
				return "F1b:client-read-then-tunnel-unstarted-server-panic", fmt.Sprintf("%s op %d (%s): %s", dir, i, k, o.Err)
			}
			return "panic:" + dir + ":" + k, fmt.Sprintf("%s op %d: %s", dir, i, o.Err)
		}
		if strings.HasPrefix(o.Err, "harness:") {
			return "harness-error", o.Err
		}
		if k == "writeto-badsink" {
			return "", "" // sink outside the io.Writer contract: evidence only
		}
		if int(o.N) != len(o.Bytes) {
			return "count:" + dir + ":" + k, fmt.Sprintf("%s op %d (%s) returned n=%d but delivered %d bytes", dir, i, k, o.N, len(o.Bytes))
		}
		rem := want[pos:]
		if !bytes.HasPrefix(rem, o.Bytes) {
			if (k == "writeto" || k == "tunnel") && sawRead && len(o.Bytes) < len(rem) && bytes.HasSuffix(rem, o.Bytes) {
				return "F1:read-then-" + k + "-leftover", fmt.Sprintf("%s op %d: %s after Read delivered the last %d of the %d bytes still due: %d bytes buffered by the earlier Read were dropped",
					dir, i, k, len(o.Bytes), len(rem), len(rem)-len(o.Bytes))
			}
			return "mismatch:" + dir + ":" + k, fmt.Sprintf("%s op %d (%s n=%d): delivered %d bytes that are not the next bytes of the peer's stream (at offset %d of %d)", dir, i, k, o.Op.N, len(o.Bytes), pos, len(want))
		}
		pos += len(o.Bytes)
		switch {
		case k == "read" && o.Err == "ok":
			if len(o.Bytes) > o.Op.N {
				return "overrun:" + dir, fmt.Sprintf("%s op %d: Read(%d) returned %d bytes", dir, i, o.Op.N, len(o.Bytes))
			}
			if o.Op.N > 0 && len(o.Bytes) == 0 {
				return "stall:" + dir, fmt.Sprintf("%s op %d: Read(%d) returned 0, nil", dir, i, o.Op.N)
			}
		case (k == "read" && o.Err == "eof") || (k != "read" && o.Err == "ok"):
			if pos != len(want) {
				if k != "read" && sawRead && len(o.Bytes) == 0 && len(want)-pos <= maxPayload {
					return "F1:read-then-" + k + "-leftover", fmt.Sprintf("%s op %d: %s after Read returned cleanly, the %d bytes buffered by the earlier Read were never delivered", dir, i, k, len(want)-pos)
				}
				return "early-eof:" + dir + ":" + k, fmt.Sprintf("%s op %d (%s): end of stream reported after %d of %d bytes", dir, i, k, pos, len(want))
			}
		case (k == "writeto-sink" || k == "tunnel-fail") && o.Err == "sink-error":
			// the caller's own sink failed: what it took is a prefix (checked above); what the conn had already
			// pulled off the stream for that Write is gone with the failed copy (as with io.Copy): no further claim
			return "", ""
		case k == "writeto-badsink":
			return "", ""
		case o.Err == "timeout" && len(touts) > 0:
			// the transport reported a read deadline: the caller simply calls again
			nTimeouts++
			if !mid && nTimeouts > len(touts) {
				return "transient-timeout:" + dir + ":conn-dead-after-boundary-deadline", fmt.Sprintf("%s op %d (%s): the transport reported %d read deadlines, all at chunk boundaries (offsets %v, nothing of the next chunk consumed), but this is timeout error number %d: the conn stays failed although cipher and stream are in step; %d of %d bytes delivered",
					dir, i, k, len(touts), touts, nTimeouts, pos, len(want))
			}
		default:
			return "error:" + dir + ":" + k + ":" + o.Err, fmt.Sprintf("%s op %d (%s): unexpected error %s at offset %d of %d", dir, i, k, o.Err, pos, len(want))
		}
		if k == "read" {
			sawRead = true
		}
	}
	return "", ""
}

func oracle(c Case, o Obs) (string, string) {
	if o.Panic != "" {
		return "panic:session", o.Panic
	}
	if o.DialErr != "" {
		return "dial-error", o.DialErr
	}
	if o.ReqFrames.Err != "" {
		return "c2s-wire-undecodable", o.ReqFrames.Err
	}
	if !o.StripOK {
		return "identity-header-wrong", "a relay holding the client's iPSK does not find the next hop's key hash in the identity header"
	}
	idLen := 0
	if c.Cfg.NIPSK > 0 {
		idLen = 16
	}
	fixedLen := c.Cfg.ReqPrefix.Len + c.Cfg.KeyLen + idLen + 11 + TagSize
	if !c.Cfg.AllowSeg && o.FirstSeg < fixedLen {
		// outside the statement's "valid" transports for this configuration: the code must refuse
		switch o.HandleKind {
		case "error":
			if o.HandleErr == "first-read" {
				return "", ""
			}
		case "fallback":
			if bytes.Equal(o.FallbackPay, o.ServerWire[:min(len(o.FallbackPay), len(o.ServerWire))]) && len(o.FallbackPay) == o.FirstSeg {
				return "", ""
			}
		}
		return "segmented-header-not-refused", fmt.Sprintf("first segment %d < %d, result %s %s", o.FirstSeg, fixedLen, o.HandleKind, o.HandleErr)
	}
	if o.HandleKind != "request" {
		return "handshake-rejected:" + o.HandleErr, fmt.Sprintf("genuine request answered with %s %s", o.HandleKind, o.HandleErr)
	}
	if o.HandleErr != "" {
		return "proceed-error", o.HandleErr
	}
	if want := normAddrBytes(c.Target); !bytes.Equal(o.ReqAddr, want) {
		return "target-mismatch", fmt.Sprintf("server saw %x, client dialled %x", o.ReqAddr, want)
	}
	if o.ReqUser != c.Cfg.ExpectedUser() {
		return "user-mismatch", fmt.Sprintf("server saw user %q, want %q", o.ReqUser, c.Cfg.ExpectedUser())
	}
	p := c.Payload.Bytes()
	room := maxPayload - len(normAddrBytes(c.Target)) - 2
	if want := p[:min(len(p), room)]; !bytes.Equal(o.ReqPayload, want) {
		return "request-payload", fmt.Sprintf("request carried %d payload bytes, want the first %d of %d", len(o.ReqPayload), len(want), len(p))
	}
	// every Write / ReadFrom of the session must succeed (a scripted source's own error excepted): in particular the dial
	// context, cancelled or expired after DialStream returned, must not reach into the session
	for i, e := range o.CWriteErrs {
		if e != "ok" && e != "source-error" {
			return "write-failed:c2s:" + e + ":dialctx=" + c.DialCtx, fmt.Sprintf("client writer call %d returned %s (dial context: %q, ended after DialStream returned; %d function(s) were still registered on it); the bytes never arrive", i, e, c.DialCtx, o.DialCtxArmed)
		}
	}
	for i, e := range o.SWriteErrs {
		if e != "ok" && e != "source-error" {
			return "write-failed:s2c:" + e, fmt.Sprintf("server writer call %d returned %s", i, e)
		}
	}
	// the request the server holds must stay what it was for the whole session
	for _, seen := range o.ReqLater {
		if seen.Panic != "" {
			return "request-mutated:" + seen.When + ":panic", seen.Panic
		}
		if !bytes.Equal(seen.Addr, o.ReqAddr) {
			return "request-mutated:addr:" + seen.When, fmt.Sprintf("target address in the ConnRequest read %x right after HandleStream and %x %s", o.ReqAddr, seen.Addr, seen.When)
		}
		if seen.User != o.ReqUser {
			return "request-mutated:user:" + seen.When, fmt.Sprintf("username %q right after HandleStream, %q %s", o.ReqUser, seen.User, seen.When)
		}
	}
	if k, d := streamOracle("c2s", o.C2SHanded, len(o.ReqPayload), o.SOps, true, o.C2STouts, c.C2STout.Mode == "mid"); k != "" {
		return k, d
	}
	if o.SWriteErr != "" {
		return "server-write-error", o.SWriteErr
	}
	if o.RespFrames.Err != "" {
		return "s2c-wire-undecodable", o.RespFrames.Err
	}
	rfixed := c.Cfg.RespPrefix.Len + c.Cfg.KeyLen + 11 + c.Cfg.KeyLen + TagSize
	if !c.Cfg.AllowSeg && o.CFirstSeg < rfixed && len(o.S2CHanded) > 0 && len(o.S2CWrites) > 0 {
		// outside the statement's admissible transports: the client must refuse. Read deadlines scripted
		// at offset 0 (nothing of the response consumed) are reported first, one call each.
		ops := o.COps
		for _, t := range o.S2CTouts {
			if t == 0 && len(ops) > 0 && ops[0].Err == "timeout" && len(ops[0].Bytes) == 0 {
				ops = ops[1:]
			}
		}
		if len(ops) == 0 {
			return "", ""
		}
		if ops[0].Err == "first-read" && len(ops[0].Bytes) == 0 {
			for _, op := range ops[1:] {
				if len(op.Bytes) > 0 {
					return "segmented-response-data-after-refusal", fmt.Sprintf("%s delivered %d bytes after the segmented response header was refused", op.Op.Kind, len(op.Bytes))
				}
			}
			return "", ""
		}
		return "segmented-response-not-refused", fmt.Sprintf("first segment %d < %d: %s", o.CFirstSeg, rfixed, ops[0].Err)
	}
	return streamOracle("s2c", o.S2CHanded, 0, o.COps, c.SinkStarted, o.S2CTouts, c.S2CTout.Mode == "mid")
}

// ---------- generator ----------

var readSizes = []int{0, 1, 2, 17, 18, 4096, 65550, 65551, 65552}

func genTarget(r *common.Rng) Target {
	port := uint16(r.Intn(65536))
	switch r.Intn(5) {
	case 0:
		return Target{Kind: "4", IP: fmt.Sprintf("%d.%d.%d.%d", r.Intn(256), r.Intn(256), r.Intn(256), r.Intn(256)), Port: port}
	case 1:
		return Target{Kind: "6", IP: fmt.Sprintf("2001:db8::%x:%x", r.Intn(65536), r.Intn(65536)), Port: port}
	case 2:
		return Target{Kind: "4in6", IP: fmt.Sprintf("::ffff:%d.%d.%d.%d", r.Intn(256), r.Intn(256), r.Intn(256), r.Intn(256)), Port: port}
	default:
		return Target{Kind: "d", Dom: Data{Seed: r.U64(), Len: common.Pick(r, []int{1, 2, 11, 63, 254, 255})}, Port: port}
	}
}

func genPrefix(r *common.Rng, big bool) Data {
	switch x := r.Intn(20); {
	case x < 12:
		return Data{}
	case x < 18 || !big:
		return Data{Seed: r.U64(), Len: r.Range(1, 40)}
	default:
		return Data{Seed: r.U64(), Len: common.Pick(r, []int{4000, 9000, 65536, 70 * 1024, 70*1024 + r.Intn(5000)})}
	}
}

func genLen(r *common.Rng, room int, budget *int) int {
	var n int
	switch x := r.Intn(100); {
	case x < 30:
		n = common.Pick(r, []int{0, 1, 2, 17, 899, 900, 901})
	case x < 55:
		n = r.Range(0, 3000)
	case x < 80:
		n = common.Pick(r, []int{room - 1, room, room + 1, 65534, 65535, 65536, 2*65535 - 1, 2 * 65535, 2*65535 + 1})
	case x < 97:
		n = r.Range(3000, 200000)
	default:
		n = 1 << 20
	}
	if n > *budget {
		n = common.Pick(r, []int{0, 1, 899, 900, 901, r.Range(0, 3000)})
	}
	*budget -= n
	return n
}

func genWrites(r *common.Rng, room int, budget *int, first []int) []WOp {
	var ops []WOp
	k := common.Pick(r, []int{0, 1, 1, 2, 3, 6})
	for i := 0; i < k; i++ {
		n := genLen(r, room, budget)
		if i == 0 && len(first) > 0 && r.Chance(1, 2) {
			n = common.Pick(r, first)
			*budget -= n
		}
		op := WOp{Kind: "write", Data: Data{Seed: r.U64(), Len: n}}
		if r.Chance(2, 5) {
			// ReadFrom with a scripted io.Reader: short reads of every size, (0, nil) reads, data returned
			// together with io.EOF (iotest.DataErrReader style) or with another error
			op.Kind = "readfrom"
			left := n
			for left > 0 && len(op.Items) < 12 {
				s := common.Pick(r, []int{0, 1, 17, 4096, 65535, 65536, 70000, r.Range(1, 3000), r.Range(1, 140000)})
				it := SrcIt{Len: s}
				if r.Chance(1, 12) {
					it.Err = "err"
				}
				op.Items = append(op.Items, it)
				left -= s
			}
			switch r.Intn(5) {
			case 0, 1: // the last result carries io.EOF together with its data
				if len(op.Items) == 0 {
					op.Items = []SrcIt{{Len: n}}
				}
				op.Items[len(op.Items)-1].Len = max(left+op.Items[len(op.Items)-1].Len, 0)
				op.Items[len(op.Items)-1].Err = "eof"
			case 2: // everything in one result, with io.EOF
				op.Items = []SrcIt{{Len: n, Err: "eof"}}
			}
		}
		ops = append(ops, op)
	}
	return ops
}

func genSeg(r *common.Rng, total int) Seg {
	s := Seg{Seed: r.U64()}
	switch x := r.Intn(20); {
	case x < 6:
		s.Mode = "atomic"
	case x < 8:
		s.Mode = "one"
	case x < 10:
		s.Mode = "bytes"
		if total > 150000 {
			s.Mode = "random"
		}
	case x < 15:
		s.Mode = "cuts"
	default:
		s.Mode = "random"
	}
	s.ShortFirst = r.Chance(1, 25)
	return s
}

func genReads(r *common.Rng, total int) []ROp {
	var ops []ROp
	rd := func() ROp {
		n := common.Pick(r, readSizes)
		if r.Chance(1, 3) {
			n = r.Range(0, 70000)
		}
		return ROp{Kind: "read", N: n}
	}
	switch r.Intn(10) {
	case 0: // copy only
	case 1, 2: // drain by reads of one size
		n := common.Pick(r, []int{1, 2, 17, 18, 4096, 65550, 65551, 65552, r.Range(1, 70000)})
		if total/n > 400 {
			n = 4096
		}
		cnt := min(total/n+total/65535*2+6, 450)
		for i := 0; i < cnt; i++ {
			ops = append(ops, ROp{Kind: "read", N: n})
		}
		return ops
	default:
		for i, k := 0, r.Range(1, 8); i < k; i++ {
			ops = append(ops, rd())
		}
	}
	switch r.Intn(7) {
	case 0:
	case 1, 2:
		ops = append(ops, ROp{Kind: "writeto"})
	case 3:
		// a sink that fails mid-way: some full writes, then a short write together with an error
		var sk []SinkIt
		for i, k := 0, r.Intn(3); i < k; i++ {
			sk = append(sk, SinkIt{Accept: 1 << 20})
		}
		sk = append(sk, SinkIt{Accept: common.Pick(r, []int{0, 1, 17, 4096, 65534, 1 << 20}), Err: true})
		ops = append(ops, ROp{Kind: "writeto-sink", Sink: sk}, ROp{Kind: "writeto"})
	case 5:
		// tunnel copy into a conn whose transport fails at its k-th write, after some bytes of it; the caller then goes on
		ops = append(ops, ROp{Kind: "tunnel-fail", FailAt: r.Range(1, 4), FailKeep: common.Pick(r, []int{0, 1, 17, 18, 19, 4096}), ViaReadFrom: r.Bool()},
			ROp{Kind: "read", N: common.Pick(r, []int{100, 70000})}, ROp{Kind: "writeto"})
	case 4:
		if r.Chance(1, 4) {
			ops = append(ops, ROp{Kind: "writeto-badsink"})
		} else {
			ops = append(ops, ROp{Kind: "writeto-sink"})
		}
	default:
		ops = append(ops, ROp{Kind: "tunnel", ViaReadFrom: r.Bool()})
	}
	if r.Chance(1, 4) {
		ops = append(ops, rd())
	}
	if r.Chance(1, 8) {
		ops = append(ops, ROp{Kind: "writeto"})
	}
	return ops
}

func genCase(r *common.Rng) Case {
	c := Case{}
	big := r.Chance(1, 6)
	c.Cfg = Cfg{KeyLen: common.Pick(r, []int{16, 32}), KeySeed: r.U64() >> 8, NIPSK: common.Pick(r, []int{0, 0, 1, 1, 2, 3}),
		ReqPrefix: genPrefix(r, big), RespPrefix: genPrefix(r, big), AllowSeg: r.Bool(), Fallback: r.Chance(1, 6)}
	c.Target = genTarget(r)
	room := maxPayload - len(normAddrBytes(c.Target)) - 2
	budget := 40000
	if r.Chance(1, 4) {
		budget = 450000
	}
	if r.Chance(1, 60) {
		budget = 1200000
	}
	c.Payload = Data{Seed: r.U64(), Len: genLen(r, room, &budget)}
	c.CWrites = genWrites(r, room, &budget, nil)
	total := c.Payload.Len
	for _, w := range c.CWrites {
		total += w.Data.Len
	}
	c.C2S = genSeg(r, total)
	c.SReads = genReads(r, total)
	budget2 := 40000
	if r.Chance(1, 4) {
		budget2 = 300000
	}
	// first-write sizes around the first-chunk capacity (65535 normally, smaller behind a long response prefix)
	c.SWrites = genWrites(r, room, &budget2, []int{4095, 4096, 4097, 8176, 12272, 65535, 65536, 1})
	total2 := 0
	for _, w := range c.SWrites {
		total2 += w.Data.Len
	}
	c.S2C = genSeg(r, total2)
	c.CReads = genReads(r, total2)
	c.SinkStarted = r.Bool()
	c.WriteFirst = r.Bool()
	// read deadlines of the transports: the caller calls again after each
	again := func(ops []ROp, n int) []ROp {
		for i := 0; i < n+2; i++ {
			switch r.Intn(4) {
			case 0:
				ops = append(ops, ROp{Kind: "writeto"})
			case 1:
				ops = append(ops, ROp{Kind: "tunnel", ViaReadFrom: r.Bool()})
			default:
				ops = append(ops, ROp{Kind: "read", N: common.Pick(r, []int{1, 17, 100, 4096, 65551, 70000})})
			}
		}
		return append(ops, ROp{Kind: common.Pick(r, []string{"writeto", "tunnel", "writeto"})}, ROp{Kind: "read", N: 70000})
	}
	gt := func() Tout {
		if r.Chance(1, 5) {
			return Tout{Mode: "mid", Seed: r.U64()}
		}
		return Tout{Mode: "boundary", Seed: r.U64(), Count: r.Range(1, 6)}
	}
	// the dial context ends after the dial; the session goes on
	switch r.Intn(6) {
	case 0, 1:
		c.DialCtx = "cancel"
	case 2:
		c.DialCtx = "deadline"
	}
	plain := func(ops []ROp) []ROp { // scripted sinks are not combined with read deadlines
		for i := range ops {
			if strings.HasPrefix(ops[i].Kind, "writeto-") || ops[i].Kind == "tunnel-fail" {
				ops[i] = ROp{Kind: "writeto"}
			}
		}
		return ops
	}
	if r.Chance(1, 4) {
		c.C2STout = gt()
		c.SReads = again(plain(c.SReads), c.C2STout.Count)
	}
	if r.Chance(1, 4) {
		c.S2CTout = gt()
		c.CReads = again(plain(c.CReads), c.S2CTout.Count)
	}
	return c
}

// directed probes of the findings assigned to C01
func probes() []Case {
	cfg := Cfg{KeyLen: 32, KeySeed: 7}
	t := Target{Kind: "4", IP: "1.2.3.4", Port: 80}
	two := []WOp{{Kind: "write", Data: Data{Seed: 1, Len: 5000}}, {Kind: "write", Data: Data{Seed: 2, Len: 5000}}}
	rd := []ROp{{Kind: "read", N: 100}, {Kind: "read", N: 70000}, {Kind: "writeto"}, {Kind: "tunnel"}, {Kind: "read", N: 1}, {Kind: "writeto"}, {Kind: "writeto"}, {Kind: "tunnel"}, {Kind: "writeto"}, {Kind: "read", N: 70000}}
	three := append(append([]WOp{}, two...), WOp{Kind: "write", Data: Data{Seed: 3, Len: 70000}})
	de := func(n int, seed uint64) []WOp {
		return []WOp{{Kind: "readfrom", Data: Data{Seed: seed, Len: n}, Items: []SrcIt{{Len: n, Err: "eof"}}}}
	}
	drain := []ROp{{Kind: "read", N: 70000}, {Kind: "read", N: 70000}, {Kind: "writeto"}}
	wr := func(n int, seed uint64) WOp { return WOp{Kind: "write", Data: Data{Seed: seed, Len: n}} }
	room := maxPayload - 7 - 2
	var ctxProbes []Case
	for i, pl := range []int{room - 1, room, room + 1, 65536, 2*65535 + 1} {
		for _, mode := range []string{"cancel", "deadline"} {
			ctxProbes = append(ctxProbes, Case{Cfg: cfg, Target: t, Payload: Data{Seed: uint64(30 + i), Len: pl}, DialCtx: mode,
				CWrites: []WOp{wr(100, 40), {Kind: "readfrom", Data: Data{Seed: 41, Len: 70000}, Items: []SrcIt{{Len: 70000, Err: "eof"}}}, wr(1, 42)},
				C2S:     Seg{Mode: "atomic"}, SReads: drain, SWrites: []WOp{wr(10, 43)}, S2C: Seg{Mode: "atomic"}, CReads: drain})
		}
	}
	return append(ctxProbes, []Case{
		// io.Reader contract at the copy-path boundaries: the whole (short) stream comes in one Read together with io.EOF,
		// nothing written before: server's first write, client's ReadFrom; and data together with another error
		{Cfg: cfg, Target: t, CWrites: de(100, 11), C2S: Seg{Mode: "atomic"}, SReads: drain, SWrites: de(100, 12), S2C: Seg{Mode: "atomic"}, CReads: drain},
		{Cfg: cfg, Target: t, CWrites: de(70000, 13), C2S: Seg{Mode: "atomic"}, SReads: drain, SWrites: de(70000, 14), S2C: Seg{Mode: "atomic"}, CReads: drain},
		{Cfg: cfg, Target: t, C2S: Seg{Mode: "atomic"},
			CWrites: []WOp{{Kind: "readfrom", Data: Data{Seed: 15, Len: 300}, Items: []SrcIt{{Len: 0}, {Len: 100, Err: "err"}, {Len: 200}}}, {Kind: "write", Data: Data{Seed: 16, Len: 10}}}, SReads: drain,
			SWrites: []WOp{{Kind: "readfrom", Data: Data{Seed: 17, Len: 300}, Items: []SrcIt{{Len: 0}, {Len: 100, Err: "err"}, {Len: 200, Err: "eof"}}}, {Kind: "readfrom", Data: Data{Seed: 18, Len: 50}, Items: []SrcIt{{Len: 50, Err: "eof"}}}},
			S2C:     Seg{Mode: "atomic"}, CReads: drain},
		// transient-timeout-at-chunk-boundary, both directions, and the negative (deadline inside a chunk)
		{Cfg: cfg, Target: t, CWrites: three, C2S: Seg{Mode: "atomic"}, SReads: rd, SWrites: three, S2C: Seg{Mode: "atomic"}, CReads: rd, SinkStarted: true,
			C2STout: Tout{Mode: "boundary", Seed: 1, Count: 5}, S2CTout: Tout{Mode: "boundary", Seed: 2, Count: 5}},
		{Cfg: cfg, Target: t, CWrites: three, C2S: Seg{Mode: "random", Seed: 5}, SReads: rd, SWrites: three, S2C: Seg{Mode: "cuts"}, CReads: rd,
			C2STout: Tout{Mode: "mid", Seed: 3}, S2CTout: Tout{Mode: "mid", Seed: 4}},
		{Cfg: cfg, Target: t, CWrites: two, C2S: Seg{Mode: "atomic"}, SReads: []ROp{{Kind: "read", N: 100}, {Kind: "writeto"}}, S2C: Seg{Mode: "atomic"}},
		{Cfg: cfg, Target: t, CWrites: two, C2S: Seg{Mode: "atomic"}, SReads: []ROp{{Kind: "read", N: 100}, {Kind: "tunnel"}}, S2C: Seg{Mode: "atomic"}},
		{Cfg: cfg, Target: t, C2S: Seg{Mode: "atomic"}, SWrites: two, S2C: Seg{Mode: "atomic"}, CReads: []ROp{{Kind: "read", N: 100}, {Kind: "tunnel"}}, SinkStarted: false},
		{Cfg: cfg, Target: t, C2S: Seg{Mode: "atomic"}, SWrites: two, S2C: Seg{Mode: "atomic"}, CReads: []ROp{{Kind: "read", N: 100}, {Kind: "writeto"}}},
		{Cfg: cfg, Target: t, C2S: Seg{Mode: "atomic"}, SWrites: two, S2C: Seg{Mode: "atomic"}, CReads: []ROp{{Kind: "read", N: 100}, {Kind: "tunnel", ViaReadFrom: true}}, SinkStarted: true},
	}...)
}

// ---------- evaluation ----------

func sig(c Case) string {
	return fmt.Sprintf("%+v", c)
}

type result struct {
	c       Case
	obs     Obs
	sc      Script
	stalled bool
}

// stallLimit: a session normally takes milliseconds (1 MiB payloads: < 1 s).
const stallLimit = 15 * time.Second

func evalCases(cases []Case, o *common.Options, rep *common.Report, probe bool) error {
	res := make([]result, len(cases))
	var wg sync.WaitGroup
	sem := make(chan struct{}, 8)
	for i, c := range cases {
		wg.Add(1)
		sem <- struct{}{}
		go func() {
			defer wg.Done()
			defer func() { <-sem }()
			// The sessions carry real timestamps (validated against time.Now() within ±30 s by the code under
			// test): a session during which the machine stalled is not an answer of the implementation.
			for attempt := 0; attempt < 3; attempt++ {
				t0 := time.Now()
				obs, sc := Run(c, 0)
				res[i] = result{c, obs, sc, time.Since(t0) > stallLimit}
				if !res[i].stalled {
					break
				}
			}
		}()
	}
	wg.Wait()
	// model: shard the scripts over several driver processes
	answers := make([][]string, len(cases))
	if o.Driver != "" {
		shards := 12
		errs := make([]error, shards)
		for s := 0; s < shards; s++ {
			wg.Add(1)
			go func() {
				defer wg.Done()
				var lines []string
				var idx []int
				for i := s; i < len(res); i += shards {
					lines = append(lines, res[i].sc.Lines...)
					idx = append(idx, i)
				}
				if len(lines) == 0 {
					return
				}
				out, err := common.RunDriverOnce(o.Driver, lines)
				if err != nil {
					errs[s] = err
					return
				}
				pos := 0
				for _, i := range idx {
					n := len(res[i].sc.Lines)
					answers[i] = out[pos : pos+n]
					pos += n
				}
			}()
		}
		wg.Wait()
		for _, e := range errs {
			if e != nil {
				return e
			}
		}
	}
	for i, r := range res {
		c, obs := r.c, r.obs
		if r.stalled {
			rep.Count("infrastructure:session-stalled(skipped)")
			rep.Note("case %d took more than %s of wall time three times in a row (machine stalled); not evaluated", i, stallLimit)
			continue
		}
		total := len(obs.C2SHanded) + len(obs.S2CHanded)
		nontrivial := obs.HandleKind == "request" && total > 0 && len(obs.SOps)+len(obs.COps) > 0
		rep.Case(sig(c), nontrivial)
		rep.Count("handle=" + obs.HandleKind + obs.HandleErr)
		rep.Count(fmt.Sprintf("cfg:aes%d/ipsk%d", c.Cfg.KeyLen*8, c.Cfg.NIPSK))
		rep.Count(fmt.Sprintf("cfg:reqprefix%s/respprefix%s", pbucket(c.Cfg.ReqPrefix.Len), pbucket(c.Cfg.RespPrefix.Len)))
		rep.Count(fmt.Sprintf("cfg:allowseg=%v", c.Cfg.AllowSeg))
		rep.Count("payload=" + bucket(c.Payload.Len))
		rep.Count("c2s-seg=" + c.C2S.Mode)
		rep.Count("s2c-seg=" + c.S2C.Mode)
		rep.Count("target=" + c.Target.Kind)
		if c.DialCtx != "" {
			ex := "payload<=room"
			if c.Payload.Len > maxPayload-len(normAddrBytes(c.Target))-2 {
				ex = "payload>room(excess written through ConnWriteContext)"
			}
			rep.Count("dial-ctx=" + c.DialCtx + "-after-dial/" + ex)
		}
		if c.C2STout.Mode != "" || c.S2CTout.Mode != "" {
			rep.Count("read-deadlines=c2s:" + c.C2STout.Mode + "/s2c:" + c.S2CTout.Mode)
		}
		for _, ops := range [][]OpObs{obs.SOps, obs.COps} {
			seenRead := false
			for _, op := range ops {
				k := op.Op.Kind
				if k != "read" && seenRead {
					k = "read-then-" + k
				}
				rep.Count("op=" + k)
				if op.Op.Kind == "read" {
					seenRead = true
				}
			}
		}
		if i < 2 && !probe {
			rep.Sample(map[string]any{"case": c, "script": r.sc.Lines, "impl": r.sc.Expect})
		}
		for _, seen := range obs.ReqLater {
			if seen.When == "after-server-write" && len(obs.S2CWrites) > 0 && len(obs.ReqPayload) > 0 {
				if bytes.Equal(seen.Payload, obs.ReqPayload) {
					rep.Count("payload-slice-after-server-write=unchanged")
				} else {
					rep.Count("payload-slice-after-server-write=overwritten(borrowed buffer)")
				}
			}
		}
		for _, ops := range [][]OpObs{obs.SOps, obs.COps} {
			for _, op := range ops {
				if op.Op.Kind == "writeto-badsink" {
					rep.Count("sink-breaking-io.Writer-contract(n<len,nil): WriteTo returned " + strings.TrimPrefix(op.Err, "badsink:"))
				}
			}
		}
		key, detail := oracle(c, obs)
		if key != "" {
			rep.Fail(common.OracleFailure{Engine: "stream", Key: key, Case: c, Detail: detail})
			if strings.HasPrefix(key, "F1") {
				rep.FindingsProbed[key] = true
			}
		}
		if answers[i] != nil {
			for j, a := range answers[i] {
				if !Match(r.sc.Expect[j], a) {
					rep.Diverge(common.Divergence{Engine: "stream", Case: c, Impl: r.sc.Expect[j], Model: a, Note: "line " + r.sc.Lines[j]})
					break
				}
			}
			rep.TracesValidated++
		}
	}
	return nil
}

func pbucket(n int) string {
	switch {
	case n == 0:
		return "0"
	case n <= 40:
		return "short"
	}
	return "long"
}

func bucket(n int) string {
	switch {
	case n == 0:
		return "0"
	case n < 900:
		return "<900"
	case n <= 901:
		return "900±1"
	case n < 65000:
		return "<65000"
	case n <= 65540:
		return "~65535"
	case n < 140000:
		return "<140000"
	}
	return ">=140000"
}

func main() {
	o := common.ParseFlags()
	rep := common.NewReport("C01", o)
	rep.Engines = []string{"stream"}
	rep.Rule = "engine stream: one case = one client/server session (config matrix aes-128/256 x 0..3 iPSK x {no,short,long} request/response prefix x allowSegmented x fallback x 4 target kinds), " +
		"initial payload and write sizes from {0,1,899,900,901,room-1,room,room+1,65534..65536,2*65535±1,1MiB} ∪ random, Write and ReadFrom (scripted source piece sizes), " +
		"transport segmentation {as written, one segment, 1-byte, cut inside every header/tag, random}, reader schedules mixing Read(n) (n from {0,1,2,17,18,4096,65550..65552} ∪ random), WriteTo and tunnel copy (both entry points, sink started or not), " +
		"both directions; compared with the Lean model: every transport write (toy re-encoding of the decrypted wire), HandleStream result, outcome of every reader call; " +
		"non-trivial = request accepted, data flowed and at least one reader call ran; distinct by the whole case description"
	for _, k := range []string{"F1:read-then-writeto-leftover", "F1:read-then-tunnel-leftover", "F1b:client-read-then-tunnel-unstarted-server-panic"} {
		rep.FindingsProbed[k] = false
	}
	var err error
	if o.Replay != "" {
		var c Case
		if err = common.LoadReplay(o.Replay, &c); err == nil {
			err = evalCases([]Case{c}, o, rep, false)
		}
	} else {
		err = evalCases(probes(), o, rep, true)
		r := common.NewRng(o.Seed)
		n := o.Budget(600, 12000)
		var cases []Case
		for i := 0; i < n && err == nil; i++ {
			cases = append(cases, genCase(r.Fork(uint64(i))))
			if len(cases) == 240 || i == n-1 {
				err = evalCases(cases, o, rep, false)
				cases = cases[:0]
			}
		}
	}
	if err != nil {
		fmt.Fprintln(os.Stderr, "corr_c01:", err)
		rep.Note("engine error: %v", err)
		rep.Write(o.Out)
		os.Exit(3)
	}
	if err := rep.Write(o.Out); err != nil {
		fmt.Fprintln(os.Stderr, err)
		os.Exit(3)
	}
}
