// gen_c05: regenerates lean/SSV/Gen/C05.lean from /repo.
//
// Emitted (all from the CURRENT source):
//   - the header-length / address-length / IP-overhead constants and minimumMTU;
//   - the eight headroom literals (direct/packet.go vars, ss2022 var + func) as Lean definitions;
//   - the offset arithmetic of every PackInPlace / UnpackInPlace (maxPaddingLen, messageHeaderStart,
//     packetStart, packetLen, payloadStart, payloadLen, the size guards) translated expression by
//     expression into Lean `Int` terms;
//   - zerocopy.MaxPacketSizeForAddr, UDPRelayHeadroom, MaxHeadroom;
//   - the buffer layout the relay services compute (service/server.go UDPRelay, udp_nat.go,
//     udp_session.go): size expressions translated, call shapes verified verbatim.
//
// Every extractor aborts (GEN-BROKEN) when the statement it expects is missing, duplicated with a
// different right-hand side, or contains an expression form the translator does not know.
package main

import (
	"fmt"
	"go/ast"
	"go/parser"
	"go/printer"
	"go/token"
	"go/types"
	"path/filepath"
	"sort"
	"strconv"
	"strings"

	"ssvharness/internal/gen"
)

// pkgI is what the extractors need from a package: *gen.Pkg (type-checked) or lite (parsed only).
type pkgI interface {
	Src(n ast.Node) string
	EvalInt(e ast.Expr) (string, bool)
	Func(recv, name string) (*ast.FuncDecl, error)
	DirName() string
	AllFiles() []*ast.File
}

type full struct{ *gen.Pkg }

func (f full) DirName() string        { return f.Dir }
func (f full) AllFiles() []*ast.File { return f.Files }

// lite: a package that is only parsed (service: type-checking it from source drags in the whole module
// and costs minutes; only statement shapes and literal constants are needed from it).
type lite struct {
	dir   string
	fset  *token.FileSet
	files []*ast.File
}

func loadLite(c *gen.Ctx, dir string, names ...string) (*lite, error) {
	p := &lite{dir: dir, fset: c.Fset}
	for _, n := range names {
		f, err := parser.ParseFile(c.Fset, filepath.Join(c.Repo, dir, n), nil, parser.ParseComments|parser.SkipObjectResolution)
		if err != nil {
			return nil, err
		}
		p.files = append(p.files, f)
	}
	return p, nil
}

func (p *lite) DirName() string        { return p.dir }
func (p *lite) AllFiles() []*ast.File { return p.files }
func (p *lite) Src(n ast.Node) string {
	var sb strings.Builder
	printer.Fprint(&sb, p.fset, n)
	return strings.Join(strings.Fields(sb.String()), " ")
}
func (p *lite) EvalInt(e ast.Expr) (string, bool) {
	if b, ok := e.(*ast.BasicLit); ok && b.Kind == token.INT {
		if v, err := strconv.ParseInt(b.Value, 0, 64); err == nil {
			return strconv.FormatInt(v, 10), true
		}
	}
	return "", false
}
func (p *lite) Func(recv, name string) (*ast.FuncDecl, error) {
	for _, f := range p.files {
		for _, d := range f.Decls {
			fd, ok := d.(*ast.FuncDecl)
			if !ok || fd.Name.Name != name {
				continue
			}
			if recv == "" && fd.Recv == nil {
				return fd, nil
			}
			if recv != "" && fd.Recv != nil && len(fd.Recv.List) == 1 &&
				strings.TrimPrefix(p.Src(fd.Recv.List[0].Type), "*") == strings.TrimPrefix(recv, "*") {
				return fd, nil
			}
		}
	}
	return nil, fmt.Errorf("%s: function %s.%s not found", p.dir, recv, name)
}

// constLit returns the integer literal a package-level constant is declared with.
func (p *lite) constLit(name string) (string, error) {
	for _, f := range p.files {
		for _, d := range f.Decls {
			gd, ok := d.(*ast.GenDecl)
			if !ok || gd.Tok != token.CONST {
				continue
			}
			for _, sp := range gd.Specs {
				vs := sp.(*ast.ValueSpec)
				for i, n := range vs.Names {
					if n.Name == name && i < len(vs.Values) {
						if v, ok := p.EvalInt(vs.Values[i]); ok {
							return v, nil
						}
						return "", fmt.Errorf("%s.%s: not an integer literal: %s", p.dir, name, p.Src(vs.Values[i]))
					}
				}
			}
		}
	}
	return "", fmt.Errorf("%s.%s: no such constant", p.dir, name)
}

type tr struct {
	p   pkgI
	env map[string]string // Go source text of a sub-expression -> Lean variable
}

// expr translates a Go integer expression into a Lean Int term.
func (t tr) expr(e ast.Expr) (string, error) {
	src := t.p.Src(e)
	if v, ok := t.env[src]; ok {
		return v, nil
	}
	switch x := e.(type) {
	case *ast.ParenExpr:
		return t.expr(x.X)
	case *ast.BasicLit:
		if x.Kind == token.INT {
			if v, ok := t.p.EvalInt(e); ok {
				return v, nil
			}
		}
	case *ast.BinaryExpr:
		var op string
		switch x.Op {
		case token.ADD:
			op = "+"
		case token.SUB:
			op = "-"
		case token.MUL:
			op = "*"
		default:
			return "", fmt.Errorf("operator %s in %q not translatable", x.Op, src)
		}
		l, err := t.expr(x.X)
		if err != nil {
			return "", err
		}
		r, err := t.expr(x.Y)
		if err != nil {
			return "", err
		}
		return "(" + l + " " + op + " " + r + ")", nil
	case *ast.CallExpr:
		if id, ok := x.Fun.(*ast.Ident); ok && (id.Name == "min" || id.Name == "max") && len(x.Args) >= 2 {
			acc, err := t.expr(x.Args[len(x.Args)-1])
			if err != nil {
				return "", err
			}
			for i := len(x.Args) - 2; i >= 0; i-- {
				a, err := t.expr(x.Args[i])
				if err != nil {
					return "", err
				}
				acc = "(" + id.Name + " " + a + " " + acc + ")"
			}
			return acc, nil
		}
	}
	// a constant expression (named constant, math.MaxUint16, ...)
	if v, ok := t.p.EvalInt(e); ok {
		if strings.HasPrefix(v, "-") {
			return "(" + v + ")", nil
		}
		return v, nil
	}
	return "", fmt.Errorf("expression %q not translatable (free names must be in the extractor's environment)", src)
}

// cond translates a comparison into a Lean Bool term.
func (t tr) cond(e ast.Expr) (string, error) {
	b, ok := e.(*ast.BinaryExpr)
	if !ok {
		return "", fmt.Errorf("condition %q is not a comparison", t.p.Src(e))
	}
	var op string
	switch b.Op {
	case token.LSS:
		op = "<"
	case token.GTR:
		op = ">"
	case token.LEQ:
		op = "≤"
	case token.GEQ:
		op = "≥"
	default:
		return "", fmt.Errorf("condition %q: operator not translatable", t.p.Src(e))
	}
	l, err := t.expr(b.X)
	if err != nil {
		return "", err
	}
	r, err := t.expr(b.Y)
	if err != nil {
		return "", err
	}
	return "decide (" + l + " " + op + " " + r + ")", nil
}

// assigned returns the unique right-hand side assigned (= or :=) to the single left-hand side `lhs` in fd.
func assigned(p pkgI, fd *ast.FuncDecl, lhs string) (ast.Expr, error) {
	var found ast.Expr
	var err error
	ast.Inspect(fd.Body, func(n ast.Node) bool {
		as, ok := n.(*ast.AssignStmt)
		if !ok || len(as.Lhs) != 1 || len(as.Rhs) != 1 || p.Src(as.Lhs[0]) != lhs {
			return true
		}
		if as.Tok != token.ASSIGN && as.Tok != token.DEFINE {
			err = fmt.Errorf("%s: %s is updated with %s", fd.Name.Name, lhs, as.Tok)
			return true
		}
		if found != nil && p.Src(found) != p.Src(as.Rhs[0]) {
			err = fmt.Errorf("%s: %s is assigned two different expressions (%q, %q)", fd.Name.Name, lhs, p.Src(found), p.Src(as.Rhs[0]))
		}
		found = as.Rhs[0]
		return true
	})
	if err != nil {
		return nil, err
	}
	if found == nil {
		return nil, fmt.Errorf("%s: no assignment to %s", fd.Name.Name, lhs)
	}
	return found, nil
}

// stmtTexts returns the canonical text of every statement (at any depth) of fd.
func stmtTexts(p pkgI, fd *ast.FuncDecl) map[string]int {
	m := map[string]int{}
	ast.Inspect(fd.Body, func(n ast.Node) bool {
		if s, ok := n.(ast.Stmt); ok {
			switch s.(type) {
			case *ast.BlockStmt:
			default:
				m[p.Src(s)]++
			}
		}
		return true
	})
	return m
}

type emitter struct {
	l    *gen.Lean
	p    pkgI
	fd   *ast.FuncDecl
	name string // for messages
}

// def emits `def lean (vars : Int) : Int := <translation of the expression assigned to lhs>`.
func (e emitter) def(lean, lhs string, vars []string, env map[string]string) error {
	rhs, err := assigned(e.p, e.fd, lhs)
	if err != nil {
		return fmt.Errorf("%s: %w", e.name, err)
	}
	return e.defExpr(lean, lhs+" = "+e.p.Src(rhs), rhs, vars, env)
}

func (e emitter) defExpr(lean, origin string, rhs ast.Expr, vars []string, env map[string]string) error {
	s, err := tr{e.p, env}.expr(rhs)
	if err != nil {
		return fmt.Errorf("%s: %w", e.name, err)
	}
	e.l.Raw(fmt.Sprintf("/-- %s: `%s` -/\ndef %s %s: Int := %s\n", e.name, origin, lean, binders(vars), s))
	return nil
}

func binders(vars []string) string {
	if len(vars) == 0 {
		return ""
	}
	return "(" + strings.Join(vars, " ") + " : Int) "
}

// guard finds the unique `if cond { ... }` whose body text is bodyText and emits cond as a Bool definition.
func (e emitter) guard(lean, bodyText string, vars []string, env map[string]string) error {
	var conds []ast.Expr
	ast.Inspect(e.fd.Body, func(n ast.Node) bool {
		if is, ok := n.(*ast.IfStmt); ok && is.Init == nil && e.p.Src(is.Body) == bodyText {
			conds = append(conds, is.Cond)
		}
		return true
	})
	if len(conds) != 1 {
		return fmt.Errorf("%s: expected exactly one `if … %s`, found %d", e.name, bodyText, len(conds))
	}
	s, err := tr{e.p, env}.cond(conds[0])
	if err != nil {
		return fmt.Errorf("%s: %w", e.name, err)
	}
	e.l.Raw(fmt.Sprintf("/-- %s: `if %s %s` -/\ndef %s %s: Bool := %s\n", e.name, e.p.Src(conds[0]), bodyText, lean, binders(vars), s))
	return nil
}

// require checks that each text is a statement of fd (verbatim, canonical formatting).
func (e emitter) require(texts ...string) error {
	have := stmtTexts(e.p, e.fd)
	for _, t := range texts {
		if have[t] == 0 {
			var near []string
			key := t
			if i := strings.IndexAny(t, " (="); i > 0 {
				key = t[:i]
			}
			for h := range have {
				if strings.HasPrefix(h, key) && len(h) < 200 {
					near = append(near, h)
				}
			}
			sort.Strings(near)
			return fmt.Errorf("%s: statement `%s` not found (similar: %v)", e.name, t, near)
		}
	}
	for _, t := range texts {
		e.l.Comment("%s: `%s`", e.name, t)
	}
	return nil
}

func fn(l *gen.Lean, p pkgI, recv, name string) (emitter, error) {
	fd, err := p.Func(recv, name)
	if err != nil {
		return emitter{}, err
	}
	n := name
	if recv != "" {
		n = recv + "." + name
	}
	return emitter{l, p, fd, p.DirName() + "." + n}, nil
}

// headroomLit emits Front/Rear of a `zerocopy.Headroom{Front: …, Rear: …}` composite literal.
func headroomLit(l *gen.Lean, p pkgI, lean, origin string, e ast.Expr, vars []string, env map[string]string) error {
	cl, ok := e.(*ast.CompositeLit)
	if !ok || p.Src(cl.Type) != "zerocopy.Headroom" {
		return fmt.Errorf("%s: not a zerocopy.Headroom literal: %s", origin, p.Src(e))
	}
	got := map[string]ast.Expr{}
	for _, el := range cl.Elts {
		kv, ok := el.(*ast.KeyValueExpr)
		if !ok {
			return fmt.Errorf("%s: unkeyed Headroom literal", origin)
		}
		got[p.Src(kv.Key)] = kv.Value
	}
	if len(got) != 2 || got["Front"] == nil || got["Rear"] == nil {
		return fmt.Errorf("%s: Headroom literal must have exactly Front and Rear: %s", origin, p.Src(e))
	}
	for _, k := range []string{"Front", "Rear"} {
		s, err := tr{p, env}.expr(got[k])
		if err != nil {
			return fmt.Errorf("%s: %w", origin, err)
		}
		l.Raw(fmt.Sprintf("/-- %s: `%s: %s` -/\ndef %s%s %s: Int := %s\n", origin, k, p.Src(got[k]), lean, k, binders(vars), s))
	}
	return nil
}

func headroomVar(l *gen.Lean, p pkgI, lean, goName string) error {
	for _, f := range p.AllFiles() {
		for _, d := range f.Decls {
			gd, ok := d.(*ast.GenDecl)
			if !ok || gd.Tok != token.VAR {
				continue
			}
			for _, sp := range gd.Specs {
				vs := sp.(*ast.ValueSpec)
				for i, n := range vs.Names {
					if n.Name == goName && i < len(vs.Values) {
						return headroomLit(l, p, lean, p.DirName()+"."+goName, vs.Values[i], nil, nil)
					}
				}
			}
		}
	}
	return fmt.Errorf("%s: var %s not found", p.DirName(), goName)
}

func generate(c *gen.Ctx, l *gen.Lean) error {
	ssP, err := c.Load("ss2022")
	if err != nil {
		return err
	}
	s5P, err := c.Load("socks5")
	if err != nil {
		return err
	}
	zcP, err := c.Load("zerocopy")
	if err != nil {
		return err
	}
	drP, err := c.Load("direct")
	if err != nil {
		return err
	}
	ss, s5, zc, dr := full{ssP}, full{s5P}, full{zcP}, full{drP}
	sv, err := loadLite(c, "service", "udp.go", "server.go", "udp_nat.go", "udp_session.go", "udp_nat_mmsg.go", "udp_session_mmsg.go", "udp_transparent_linux.go")
	if err != nil {
		return err
	}

	// ---------- constants ----------
	if err := l.Consts(ssP, "IdentityHeaderLength", "UDPSeparateHeaderLength", "UDPClientMessageHeaderFixedLength",
		"UDPServerMessageHeaderFixedLength", "UDPClientMessageHeaderMaxLength", "UDPServerMessageHeaderMaxLength",
		"MaxPaddingLength", "MaxEpochDiff", "HeaderTypeClientPacket", "HeaderTypeServerPacket"); err != nil {
		return err
	}
	if err := l.Consts(s5P, "AtypIPv4", "AtypDomainName", "AtypIPv6", "IPv4AddrLen", "IPv6AddrLen", "MaxAddrLen"); err != nil {
		return err
	}
	if err := l.Consts(zcP, "IPv4HeaderLength", "IPv6HeaderLength", "UDPHeaderLength", "JumboPayloadOptionLength"); err != nil {
		return err
	}
	if v, err := sv.constLit("minimumMTU"); err != nil {
		return err
	} else {
		l.NatDef("minimumMTU", v, "service.minimumMTU")
	}

	// ---------- zerocopy ----------
	{
		e, err := fn(l, zc, "", "MaxPacketSizeForAddr")
		if err != nil {
			return err
		}
		// shape: if <v4 family> { return A }; if mtu > N { return B }; return C
		st := e.fd.Body.List
		if len(st) != 3 {
			return fmt.Errorf("%s: expected 3 statements, found %d", e.name, len(st))
		}
		if1, ok1 := st[0].(*ast.IfStmt)
		if2, ok2 := st[1].(*ast.IfStmt)
		ret3, ok3 := st[2].(*ast.ReturnStmt)
		if !ok1 || !ok2 || !ok3 || if1.Else != nil || if2.Else != nil || if1.Init != nil || if2.Init != nil {
			return fmt.Errorf("%s: unrecognised shape", e.name)
		}
		if zc.Src(if1.Cond) != "addr.Is4() || addr.Is4In6()" {
			return fmt.Errorf("%s: first condition is %q", e.name, zc.Src(if1.Cond))
		}
		retOf := func(b *ast.BlockStmt) (ast.Expr, error) {
			if len(b.List) == 1 {
				if r, ok := b.List[0].(*ast.ReturnStmt); ok && len(r.Results) == 1 {
					return r.Results[0], nil
				}
			}
			return nil, fmt.Errorf("%s: branch is not a single return", e.name)
		}
		t := tr{zc, map[string]string{"mtu": "mtu"}}
		r1, err := retOf(if1.Body)
		if err != nil {
			return err
		}
		r2, err := retOf(if2.Body)
		if err != nil {
			return err
		}
		if len(ret3.Results) != 1 {
			return fmt.Errorf("%s: final return", e.name)
		}
		a, err := t.expr(r1)
		if err != nil {
			return err
		}
		cnd, err := t.cond(if2.Cond)
		if err != nil {
			return err
		}
		b, err := t.expr(r2)
		if err != nil {
			return err
		}
		cc, err := t.expr(ret3.Results[0])
		if err != nil {
			return err
		}
		l.Raw(fmt.Sprintf("/-- %s: `if %s { return %s }; if %s { return %s }; return %s` (v4family = addr.Is4() || addr.Is4In6()) -/\n"+
			"def maxPacketSizeForAddr (mtu : Int) (v4family : Bool) : Int :=\n  if v4family then %s else if %s then %s else %s\n",
			e.name, zc.Src(if1.Cond), zc.Src(r1), zc.Src(if2.Cond), zc.Src(r2), zc.Src(ret3.Results[0]), a, cnd, b, cc))
	}
	for _, f := range []struct{ fn, lean, a, b string }{
		{"UDPRelayHeadroom", "relayHeadroom", "packerHeadroom", "unpackerHeadroom"},
		{"MaxHeadroom", "maxHeadroom", "first", "second"},
	} {
		e, err := fn(l, zc, "", f.fn)
		if err != nil {
			return err
		}
		if len(e.fd.Body.List) != 1 {
			return fmt.Errorf("%s: expected a single return", e.name)
		}
		r, ok := e.fd.Body.List[0].(*ast.ReturnStmt)
		if !ok || len(r.Results) != 1 {
			return fmt.Errorf("%s: expected a single return", e.name)
		}
		cl, ok := r.Results[0].(*ast.CompositeLit)
		if !ok || zc.Src(cl.Type) != "Headroom" || len(cl.Elts) != 2 {
			return fmt.Errorf("%s: expected a Headroom literal", e.name)
		}
		for _, el := range cl.Elts {
			kv, ok := el.(*ast.KeyValueExpr)
			if !ok {
				return fmt.Errorf("%s: unkeyed literal", e.name)
			}
			k := zc.Src(kv.Key)
			if k != "Front" && k != "Rear" {
				return fmt.Errorf("%s: field %s", e.name, k)
			}
			env := map[string]string{f.a + "." + k: "a", f.b + "." + k: "b"}
			if err := e.defExpr(f.lean+k, k+": "+zc.Src(kv.Value)+"  (a = "+f.a+"."+k+", b = "+f.b+"."+k+")", kv.Value, []string{"a", "b"}, env); err != nil {
				return err
			}
		}
	}

	// ---------- headroom literals ----------
	if err := headroomVar(l, ss, "ssServerHeadroom", "ShadowPacketServerMessageHeadroom"); err != nil {
		return err
	}
	{
		e, err := fn(l, ss, "", "ShadowPacketClientMessageHeadroom")
		if err != nil {
			return err
		}
		if len(e.fd.Body.List) != 1 {
			return fmt.Errorf("%s: expected a single return", e.name)
		}
		r, ok := e.fd.Body.List[0].(*ast.ReturnStmt)
		if !ok || len(r.Results) != 1 {
			return fmt.Errorf("%s: expected a single return", e.name)
		}
		if len(e.fd.Type.Params.List) != 1 || len(e.fd.Type.Params.List[0].Names) != 1 {
			return fmt.Errorf("%s: expected one parameter", e.name)
		}
		par := e.fd.Type.Params.List[0].Names[0].Name
		if err := headroomLit(l, ss, "ssClientHeadroom", e.name, r.Results[0], []string{"identityHeadersLen"}, map[string]string{par: "identityHeadersLen"}); err != nil {
			return err
		}
	}
	for _, v := range [][2]string{
		{"noneClientHeadroom", "ShadowsocksNonePacketClientMessageHeadroom"},
		{"noneServerHeadroom", "ShadowsocksNonePacketServerMessageHeadroom"},
		{"socks5ClientHeadroom", "Socks5PacketClientMessageHeadroom"},
		{"socks5ServerHeadroom", "Socks5PacketServerMessageHeadroom"},
	} {
		if err := headroomVar(l, dr, v[0], v[1]); err != nil {
			return err
		}
	}

	// ---------- ss2022 client packer ----------
	{
		e, err := fn(l, ss, "*ShadowPacketClientPacker", "PackInPlace")
		if err != nil {
			return err
		}
		env := map[string]string{"p.nonAEADHeaderLen": "nonAEADHeaderLen", "targetAddrLen": "targetAddrLen", "p.maxPacketSize": "maxPacketSize",
			"headerNoPaddingLen": "headerNoPaddingLen", "payloadLen": "payloadLen", "payloadStart": "payloadStart", "p.aead.Overhead()": "overhead",
			"paddingLen": "paddingLen", "messageHeaderStart": "messageHeaderStart", "packetStart": "packetStart"}
		if err := e.def("cHeaderNoPaddingLen", "headerNoPaddingLen", []string{"nonAEADHeaderLen", "targetAddrLen"}, env); err != nil {
			return err
		}
		if err := e.def("cMaxPaddingLen", "maxPaddingLen", []string{"maxPacketSize", "headerNoPaddingLen", "payloadStart", "payloadLen", "overhead"}, env); err != nil {
			return err
		}
		if err := e.def("cMessageHeaderStart", "messageHeaderStart", []string{"payloadStart", "targetAddrLen", "paddingLen"}, env); err != nil {
			return err
		}
		if err := e.def("cPacketStart", "packetStart", []string{"messageHeaderStart", "nonAEADHeaderLen"}, env); err != nil {
			return err
		}
		if err := e.def("cPacketLen", "packetLen", []string{"payloadStart", "packetStart", "payloadLen", "overhead"}, env); err != nil {
			return err
		}
		if err := e.def("cIdentityHeadersStart", "identityHeadersStart", []string{"packetStart"}, env); err != nil {
			return err
		}
		if err := e.require(
			"targetAddrLen := socks5.LengthOfAddrFromConnAddr(targetAddr)",
			"err = zerocopy.ErrPayloadTooBig",
			"paddingLen = 1 + mrand.IntN(maxPaddingLen)",
			"PutUDPClientMessageHeader(b[messageHeaderStart:payloadStart], time.Now(), paddingLen, targetAddr)",
			"separateHeader := b[packetStart:identityHeadersStart]",
			"nonce := separateHeader[4:16]",
			"plaintext := b[messageHeaderStart : payloadStart+payloadLen]",
			"PutSessionIDAndPacketID(separateHeader, p.csid, p.cpid)",
			"start := identityHeadersStart + i*IdentityHeaderLength",
			"identityHeader := b[start : start+IdentityHeaderLength]",
			"subtle.XORBytes(identityHeader, p.eihPSKHashes[i][:], separateHeader)",
			"p.eihCiphers[i].Encrypt(identityHeader, identityHeader)",
			"p.aead.Seal(plaintext[:0], nonce, plaintext, nil)",
			"p.block.Encrypt(separateHeader, separateHeader)",
		); err != nil {
			return err
		}
		if err := switchFacts(e, "maxPaddingLen < 0", "maxPaddingLen > 0 && p.shouldPad(targetAddr)"); err != nil {
			return err
		}
	}
	// ---------- ss2022 server packer ----------
	{
		e, err := fn(l, ss, "*ShadowPacketServerPacker", "PackInPlace")
		if err != nil {
			return err
		}
		env := map[string]string{"sourceAddrLen": "sourceAddrLen", "maxPacketLen": "maxPacketLen",
			"headerNoPaddingLen": "headerNoPaddingLen", "payloadLen": "payloadLen", "payloadStart": "payloadStart", "p.aead.Overhead()": "overhead",
			"paddingLen": "paddingLen", "messageHeaderStart": "messageHeaderStart", "packetStart": "packetStart"}
		if err := e.def("sHeaderNoPaddingLen", "headerNoPaddingLen", []string{"sourceAddrLen"}, env); err != nil {
			return err
		}
		if err := e.def("sMaxPaddingLen", "maxPaddingLen", []string{"maxPacketLen", "headerNoPaddingLen", "payloadStart", "payloadLen", "overhead"}, env); err != nil {
			return err
		}
		if err := e.def("sMessageHeaderStart", "messageHeaderStart", []string{"payloadStart", "sourceAddrLen", "paddingLen"}, env); err != nil {
			return err
		}
		if err := e.def("sPacketStart", "packetStart", []string{"messageHeaderStart"}, env); err != nil {
			return err
		}
		if err := e.def("sPacketLen", "packetLen", []string{"payloadStart", "packetStart", "payloadLen", "overhead"}, env); err != nil {
			return err
		}
		if err := e.require(
			"sourceAddrLen := socks5.LengthOfAddrFromAddrPort(sourceAddrPort)",
			"err = zerocopy.ErrPayloadTooBig",
			"paddingLen = 1 + mrand.IntN(maxPaddingLen)",
			"PutUDPServerMessageHeader(b[messageHeaderStart:payloadStart], time.Now(), p.csid, paddingLen, sourceAddrPort)",
			"separateHeader := b[packetStart:messageHeaderStart]",
			"nonce := separateHeader[4:16]",
			"plaintext := b[messageHeaderStart : payloadStart+payloadLen]",
			"PutSessionIDAndPacketID(separateHeader, p.ssid, p.spid)",
			"p.aead.Seal(plaintext[:0], nonce, plaintext, nil)",
			"p.block.Encrypt(separateHeader, separateHeader)",
		); err != nil {
			return err
		}
		if err := switchFacts(e, "maxPaddingLen < 0", "maxPaddingLen > 0 && p.shouldPad(conn.AddrFromIPPort(sourceAddrPort))"); err != nil {
			return err
		}
	}
	// ---------- ss2022 unpackers ----------
	{
		e, err := fn(l, ss, "*ShadowPacketServerUnpacker", "UnpackInPlace")
		if err != nil {
			return err
		}
		env := map[string]string{"packetLen": "packetLen", "p.nonAEADHeaderLen": "nonAEADHeaderLen", "p.aead.Overhead()": "overhead", "packetStart": "packetStart"}
		if err := e.guard("sUnpackTooSmall", `{ err = fmt.Errorf("%w: %d", zerocopy.ErrPacketTooSmall, packetLen) return }`, []string{"packetLen", "nonAEADHeaderLen", "overhead"}, env); err != nil {
			return err
		}
		if err := e.def("sUnpackMessageHeaderStart", "messageHeaderStart", []string{"packetStart", "nonAEADHeaderLen"}, env); err != nil {
			return err
		}
		if err := e.require(
			"separateHeader := b[packetStart : packetStart+UDPSeparateHeaderLength]",
			"nonce := separateHeader[4:16]",
			"ciphertext := b[messageHeaderStart : packetStart+packetLen]",
			"plaintext, err := p.aead.Open(ciphertext[:0], nonce, ciphertext, nil)",
			"targetAddr, payloadStart, payloadLen, err = ParseUDPClientMessageHeader(plaintext, time.Now(), &p.domainCache)",
			"payloadStart += messageHeaderStart",
		); err != nil {
			return err
		}
	}
	{
		e, err := fn(l, ss, "*ShadowPacketClientUnpacker", "UnpackInPlace")
		if err != nil {
			return err
		}
		env := map[string]string{"packetLen": "packetLen", "packetStart": "packetStart"}
		if err := e.guard("cUnpackTooSmall", `{ err = fmt.Errorf("%w: %d", zerocopy.ErrPacketTooSmall, packetLen) return }`, []string{"packetLen"}, env); err != nil {
			return err
		}
		if err := e.def("cUnpackMessageHeaderStart", "messageHeaderStart", []string{"packetStart"}, env); err != nil {
			return err
		}
		if err := e.require(
			"separateHeader := b[packetStart:messageHeaderStart]",
			"nonce := separateHeader[4:16]",
			"ciphertext := b[messageHeaderStart : packetStart+packetLen]",
			"p.cipherConfig.Block().Decrypt(separateHeader, separateHeader)",
			"plaintext, err := saead.Open(ciphertext[:0], nonce, ciphertext, nil)",
			"payloadSourceAddrPort, payloadStart, payloadLen, err = ParseUDPServerMessageHeader(plaintext, now, p.csid)",
			"payloadStart += messageHeaderStart",
		); err != nil {
			return err
		}
	}
	// message header parsers: the fixed offsets
	{
		e, err := fn(l, ss, "", "ParseUDPClientMessageHeader")
		if err != nil {
			return err
		}
		if err := e.require(
			"payloadStart = UDPClientMessageHeaderFixedLength + paddingLen",
			"paddingLen := int(binary.BigEndian.Uint16(b[1+8:]))",
			"err = ValidateUnixEpochTimestamp(b[1:1+8], now)",
			"targetAddr, n, err = domainCache.ConnAddrFromSlice(b[payloadStart:])",
			"payloadStart += n",
			"payloadLen = len(b) - payloadStart",
		); err != nil {
			return err
		}
		if err := ifConds(e, "{ err = ErrPacketIncompleteHeader return }", "len(b) < UDPClientMessageHeaderFixedLength", "payloadStart > len(b)"); err != nil {
			return err
		}
		e, err = fn(l, ss, "", "ParseUDPServerMessageHeader")
		if err != nil {
			return err
		}
		if err := e.require(
			"payloadStart = UDPServerMessageHeaderFixedLength + paddingLen",
			"paddingLen := int(binary.BigEndian.Uint16(b[1+8+8:]))",
			"err = ValidateUnixEpochTimestamp(b[1:1+8], now)",
			"pcsid := binary.BigEndian.Uint64(b[1+8:])",
			"payloadSourceAddrPort, n, err := socks5.AddrPortFromSlice(b[payloadStart:])",
			"payloadStart += n",
			"payloadLen = len(b) - payloadStart",
		); err != nil {
			return err
		}
		if err := ifConds(e, "{ err = ErrPacketIncompleteHeader return }", "len(b) < UDPServerMessageHeaderFixedLength", "payloadStart > len(b)"); err != nil {
			return err
		}
	}

	// ---------- none / socks5 / direct ----------
	type pk struct {
		recv, lean, addrLen, limit string
		extra                     []string
	}
	for _, k := range []pk{
		{"*ShadowsocksNonePacketClientPacker", "noneC", "targetAddrLen", "p.maxPacketSize",
			[]string{"targetAddrLen := socks5.LengthOfAddrFromConnAddr(targetAddr)", "socks5.WriteAddrFromConnAddr(b[packetStart:], targetAddr)"}},
		{"ShadowsocksNonePacketServerPacker", "noneS", "targetAddrLen", "maxPacketLen",
			[]string{"targetAddrLen := socks5.LengthOfAddrFromAddrPort(sourceAddrPort)", "socks5.WriteAddrFromAddrPort(b[packetStart:], sourceAddrPort)"}},
		{"*Socks5PacketClientPacker", "socks5C", "targetAddrLen", "p.maxPacketSize",
			[]string{"targetAddrLen := socks5.LengthOfAddrFromConnAddr(targetAddr)", "socks5.WritePacketHeader(b[packetStart:])", "socks5.WriteAddrFromConnAddr(b[packetStart+3:], targetAddr)"}},
		{"Socks5PacketServerPacker", "socks5S", "targetAddrLen", "maxPacketLen",
			[]string{"targetAddrLen := socks5.LengthOfAddrFromAddrPort(sourceAddrPort)", "socks5.WritePacketHeader(b[packetStart:])", "socks5.WriteAddrFromAddrPort(b[packetStart+3:], sourceAddrPort)"}},
	} {
		e, err := fn(l, dr, k.recv, "PackInPlace")
		if err != nil {
			return err
		}
		env := map[string]string{"payloadStart": "payloadStart", "payloadLen": "payloadLen", k.addrLen: "addrLen", "packetLen": "packetLen", k.limit: "limit"}
		if err := e.def(k.lean+"PacketStart", "packetStart", []string{"payloadStart", "addrLen"}, env); err != nil {
			return err
		}
		if err := e.def(k.lean+"PacketLen", "packetLen", []string{"payloadLen", "addrLen"}, env); err != nil {
			return err
		}
		if err := e.guard(k.lean+"TooBig", "{ err = zerocopy.ErrPayloadTooBig }", []string{"packetLen", "limit"}, env); err != nil {
			return err
		}
		if err := e.require(k.extra...); err != nil {
			return err
		}
	}
	type upk struct {
		recv, lean, addrLen string
		socks               bool
		extra               []string
	}
	for _, k := range []upk{
		{"*ShadowsocksNonePacketServerUnpacker", "noneSU", "targetAddrLen", false,
			[]string{"targetAddr, targetAddrLen, err = p.domainCache.ConnAddrFromSlice(b[packetStart : packetStart+packetLen])"}},
		{"*ShadowsocksNonePacketClientUnpacker", "noneCU", "payloadSourceAddrLen", false,
			[]string{"payloadSourceAddrPort, payloadSourceAddrLen, err = socks5.AddrPortFromSlice(b[packetStart : packetStart+packetLen])"}},
		{"*Socks5PacketServerUnpacker", "socks5SU", "targetAddrLen", true,
			[]string{"pkt := b[packetStart : packetStart+packetLen]", "err = socks5.ValidatePacketHeader(pkt)", "targetAddr, targetAddrLen, err = p.domainCache.ConnAddrFromSlice(pkt[3:])"}},
		{"*Socks5PacketClientUnpacker", "socks5CU", "payloadSourceAddrLen", true,
			[]string{"pkt := b[packetStart : packetStart+packetLen]", "err = socks5.ValidatePacketHeader(pkt)", "payloadSourceAddrPort, payloadSourceAddrLen, err = socks5.AddrPortFromSlice(pkt[3:])"}},
	} {
		e, err := fn(l, dr, k.recv, "UnpackInPlace")
		if err != nil {
			return err
		}
		env := map[string]string{"packetStart": "packetStart", "packetLen": "packetLen", k.addrLen: "addrLen"}
		if err := e.def(k.lean+"PayloadStart", "payloadStart", []string{"packetStart", "addrLen"}, env); err != nil {
			return err
		}
		if err := e.def(k.lean+"PayloadLen", "payloadLen", []string{"packetLen", "addrLen"}, env); err != nil {
			return err
		}
		if k.socks {
			if err := e.guard(k.lean+"TooSmall", `{ err = fmt.Errorf("%w: %d", zerocopy.ErrPacketTooSmall, packetLen) return }`, []string{"packetLen"}, env); err != nil {
				return err
			}
		}
		if err := e.require(k.extra...); err != nil {
			return err
		}
	}
	{
		e, err := fn(l, dr, "*DirectPacketClientPacker", "PackInPlace")
		if err != nil {
			return err
		}
		env := map[string]string{"packetLen": "packetLen", "maxPacketLen": "limit"}
		if err := e.require("packetStart = payloadStart", "packetLen = payloadLen", "maxPacketLen := zerocopy.MaxPacketSizeForAddr(p.mtu, destAddrPort.Addr())", "destAddrPort = targetAddr.IPPort()"); err != nil {
			return err
		}
		if err := e.guard("directCTooBig", "{ err = zerocopy.ErrPayloadTooBig }", []string{"packetLen", "limit"}, env); err != nil {
			return err
		}
		e, err = fn(l, dr, "*DirectPacketServerPackUnpacker", "PackInPlace")
		if err != nil {
			return err
		}
		if err := e.require("packetStart = payloadStart", "packetLen = payloadLen"); err != nil {
			return err
		}
		if err := e.guard("directSTooBig", "{ err = zerocopy.ErrPayloadTooBig }", []string{"packetLen", "limit"}, env); err != nil {
			return err
		}
		if err := ifConds(e, `{ err = fmt.Errorf("dropped packet from non-target source %s", sourceAddrPort) }`, "p.targetAddrOnly && !conn.AddrPortMappedEqual(sourceAddrPort, p.targetAddr.IPPort())"); err != nil {
			return err
		}
		e, err = fn(l, dr, "*DirectPacketServerPackUnpacker", "UnpackInPlace")
		if err != nil {
			return err
		}
		if err := e.require("targetAddr = p.targetAddr", "payloadStart = packetStart", "payloadLen = packetLen"); err != nil {
			return err
		}
		e, err = fn(l, dr, "DirectPacketClientUnpacker", "UnpackInPlace")
		if err != nil {
			return err
		}
		if err := e.require("payloadSourceAddr = packetSourceAddrPort", "payloadStart = packetStart", "payloadLen = packetLen"); err != nil {
			return err
		}
	}
	// socks5 address writers / length functions: the literal lengths
	{
		e, err := fn(l, s5, "", "LengthOfAddrFromAddrPort")
		if err != nil {
			return err
		}
		// shape: if ip := …; ip.Is4() || ip.Is4In6() { return A }; return B
		if len(e.fd.Body.List) != 2 {
			return fmt.Errorf("%s: expected `if … { return } return`", e.name)
		}
		is, ok1 := e.fd.Body.List[0].(*ast.IfStmt)
		rt, ok2 := e.fd.Body.List[1].(*ast.ReturnStmt)
		if !ok1 || !ok2 || is.Else != nil || len(is.Body.List) != 1 || len(rt.Results) != 1 || s5.Src(is.Cond) != "ip.Is4() || ip.Is4In6()" {
			return fmt.Errorf("%s: unrecognised shape", e.name)
		}
		r4, ok := is.Body.List[0].(*ast.ReturnStmt)
		if !ok || len(r4.Results) != 1 {
			return fmt.Errorf("%s: unrecognised shape", e.name)
		}
		if err := e.defExpr("addrLenV4", "return "+s5.Src(r4.Results[0])+"  (ip.Is4() || ip.Is4In6())", r4.Results[0], nil, nil); err != nil {
			return err
		}
		if err := e.defExpr("addrLenV6", "return "+s5.Src(rt.Results[0]), rt.Results[0], nil, nil); err != nil {
			return err
		}
		if err := e.require("return 1 + 4 + 2", "return 1 + 16 + 2"); err != nil {
			return err
		}
		if err := ifConds(e, "{ return 1 + 4 + 2 }", "ip.Is4() || ip.Is4In6()"); err != nil {
			return err
		}
		e, err = fn(l, s5, "", "LengthOfAddrFromConnAddr")
		if err != nil {
			return err
		}
		if err := e.require("return 1 + 4 + 2", "return LengthOfAddrFromAddrPort(addr.IPPort())", "return 1 + 1 + len(domain) + 2"); err != nil {
			return err
		}
		if err := ifConds(e, "{ return 1 + 4 + 2 }", "!addr.IsValid()"); err != nil {
			return err
		}
		if err := ifConds(e, "{ return LengthOfAddrFromAddrPort(addr.IPPort()) }", "addr.IsIP()"); err != nil {
			return err
		}
		{
			last, ok := e.fd.Body.List[len(e.fd.Body.List)-1].(*ast.ReturnStmt)
			if !ok || len(last.Results) != 1 {
				return fmt.Errorf("%s: last statement is not a return", e.name)
			}
			if err := e.defExpr("addrLenDomain", "return "+s5.Src(last.Results[0]), last.Results[0], []string{"domainLen"}, map[string]string{"len(domain)": "domainLen"}); err != nil {
				return err
			}
			first, ok := e.fd.Body.List[0].(*ast.IfStmt)
			if !ok || len(first.Body.List) != 1 {
				return fmt.Errorf("%s: first statement is not the IsValid guard", e.name)
			}
			rz, ok := first.Body.List[0].(*ast.ReturnStmt)
			if !ok || len(rz.Results) != 1 {
				return fmt.Errorf("%s: IsValid guard does not return", e.name)
			}
			if err := e.defExpr("addrLenZero", "if !addr.IsValid() { return "+s5.Src(rz.Results[0])+" }", rz.Results[0], nil, nil); err != nil {
				return err
			}
		}
	}

	// ---------- the layout the relay services compute ----------
	{
		e, err := fn(l, sv, "*ServerConfig", "UDPRelay")
		if err != nil {
			return err
		}
		if err := e.require(
			"packetBufHeadroom := zerocopy.UDPRelayHeadroom(maxClientPackerHeadroom, serverUnpackerHeadroom)",
			"packetBufRecvSize := zerocopy.MaxPacketSizeForAddr(sc.MTU, netip.IPv4Unspecified())",
			"serverUnpackerHeadroom = natServer.Info().UnpackerHeadroom",
			"serverUnpackerHeadroom = info.UnpackerHeadroom",
			"return NewUDPNATRelay(sc.Name, sc.index, sc.MTU, packetBufHeadroom.Front, packetBufRecvSize, packetBufSize, listeners, natServer, sc.collector, sc.router, sc.logger), nil",
			"return NewUDPSessionRelay(sc.Name, sc.index, sc.MTU, packetBufHeadroom.Front, packetBufRecvSize, packetBufSize, listeners, sessionServer, sc.collector, sc.router, sc.logger), nil",
		); err != nil {
			return err
		}
		if err := ifConds(e, "{ return nil, ErrMTUTooSmall }", "sc.MTU < minimumMTU"); err != nil {
			return err
		}
		env := map[string]string{"packetBufHeadroom.Front": "front", "packetBufRecvSize": "recvSize", "packetBufHeadroom.Rear": "rear"}
		if err := e.def("uplinkBufSize", "packetBufSize", []string{"front", "recvSize", "rear"}, env); err != nil {
			return err
		}
	}
	for _, r := range []struct{ recv, file string }{{"*UDPNATRelay", "udp_nat"}, {"*UDPSessionRelay", "udp_session"}} {
		// constructor: field wiring + buffer allocation
		ctor := "New" + strings.TrimPrefix(r.recv, "*")
		e, err := fn(l, sv, "", ctor)
		if err != nil {
			return err
		}
		txt := sv.Src(e.fd.Body)
		for _, want := range []string{"packetBufFrontHeadroom: packetBufFrontHeadroom", "packetBufRecvSize: packetBufRecvSize", "buf: make([]byte, packetBufSize)", "mtu: mtu"} {
			if !strings.Contains(txt, want) {
				return fmt.Errorf("%s: `%s` not found", e.name, want)
			}
			l.Comment("%s: `%s`", e.name, want)
		}
		e, err = fn(l, sv, r.recv, "recvFromServerConnGeneric")
		if err != nil {
			return err
		}
		recvStmt := "recvBuf := packetBuf[s.packetBufFrontHeadroom : s.packetBufFrontHeadroom+s.packetBufRecvSize]"
		unpackStmt := "queuedPacket.targetAddr, queuedPacket.start, queuedPacket.length, err = entry.serverConnUnpacker.UnpackInPlace(packetBuf, clientAddrPort, s.packetBufFrontHeadroom, n)"
		if r.file == "udp_session" {
			recvStmt = "recvBuf := queuedPacket.buf[s.packetBufFrontHeadroom : s.packetBufFrontHeadroom+s.packetBufRecvSize]"
			unpackStmt = "queuedPacket.targetAddr, queuedPacket.start, queuedPacket.length, err = entry.serverConnUnpacker.UnpackInPlace(queuedPacket.buf, queuedPacket.clientAddrPort, s.packetBufFrontHeadroom, n)"
		}
		if err := e.require(recvStmt, unpackStmt); err != nil {
			return err
		}
		e, err = fn(l, sv, r.recv, "relayServerConnToNatConnGeneric")
		if err != nil {
			return err
		}
		if err := e.require(
			"destAddrPort, packetStart, packetLength, err = uplink.natConnPacker.PackInPlace(ctx, queuedPacket.buf, queuedPacket.targetAddr, queuedPacket.start, queuedPacket.length)",
			"_, err = uplink.natConn.WriteToUDPAddrPort(queuedPacket.buf[packetStart:packetStart+packetLength], destAddrPort)",
		); err != nil {
			return err
		}
		e, err = fn(l, sv, r.recv, "relayNatConnToServerConnGeneric")
		if err != nil {
			return err
		}
		maxStmt := "maxClientPacketSize := zerocopy.MaxPacketSizeForAddr(s.mtu, downlink.clientAddrPort.Addr())"
		writeStmt := "_, _, err = downlink.serverConn.WriteMsgUDPAddrPort(packetBuf[packetStart:packetStart+packetLength], clientPktinfo, downlink.clientAddrPort)"
		if r.file == "udp_session" {
			maxStmt = "maxClientPacketSize := zerocopy.MaxPacketSizeForAddr(s.mtu, clientAddrPort.Addr())"
			writeStmt = "_, _, err = downlink.serverConn.WriteMsgUDPAddrPort(packetBuf[packetStart:packetStart+packetLength], clientPktinfo, clientAddrPort)"
		}
		if err := e.require(
			maxStmt,
			"serverConnPackerInfo := downlink.serverConnPacker.ServerPackerInfo()",
			"natConnUnpackerInfo := downlink.natConnUnpacker.ClientUnpackerInfo()",
			"headroom := zerocopy.UDPRelayHeadroom(serverConnPackerInfo.Headroom, natConnUnpackerInfo.Headroom)",
			"recvBuf := packetBuf[headroom.Front : headroom.Front+downlink.natConnRecvBufSize]",
			"payloadSourceAddrPort, payloadStart, payloadLength, err := downlink.natConnUnpacker.UnpackInPlace(packetBuf, packetSourceAddrPort, headroom.Front, n)",
			"packetStart, packetLength, err := downlink.serverConnPacker.PackInPlace(packetBuf, payloadSourceAddrPort, payloadStart, payloadLength, maxClientPacketSize)",
			writeStmt,
		); err != nil {
			return err
		}
		// packetBuf := make([]byte, headroom.Front+downlink.natConnRecvBufSize+headroom.Rear)
		rhs, err := assigned(sv, e.fd, "packetBuf")
		if err != nil {
			return err
		}
		call, ok := rhs.(*ast.CallExpr)
		if !ok || sv.Src(call.Fun) != "make" || len(call.Args) != 2 || sv.Src(call.Args[0]) != "[]byte" {
			return fmt.Errorf("%s: packetBuf is not make([]byte, n): %s", e.name, sv.Src(rhs))
		}
		env := map[string]string{"headroom.Front": "front", "downlink.natConnRecvBufSize": "recvSize", "headroom.Rear": "rear"}
		if err := e.defExpr("downlinkBufSize_"+r.file, "packetBuf := "+sv.Src(rhs), call.Args[1], []string{"front", "recvSize", "rear"}, env); err != nil {
			return err
		}
		// natConnRecvBufSize: clientSession.MaxPacketSize  (in the function that starts the session goroutines)
		found := false
		for _, f := range sv.AllFiles() {
			ast.Inspect(f, func(n ast.Node) bool {
				if kv, ok := n.(*ast.KeyValueExpr); ok && sv.Src(kv.Key) == "natConnRecvBufSize" && sv.Src(kv.Value) == "clientSession.MaxPacketSize" {
					if strings.HasSuffix(c.Fset.Position(kv.Pos()).Filename, r.file+".go") {
						found = true
					}
				}
				return true
			})
		}
		if !found {
			return fmt.Errorf("service/%s.go: `natConnRecvBufSize: clientSession.MaxPacketSize` not found", r.file)
		}
		l.Comment("service/%s.go: `natConnRecvBufSize: clientSession.MaxPacketSize`", r.file)
	}
	if err := limitSites(c, l, sv); err != nil {
		return err
	}
	if err := codecState(l, s5P, drP); err != nil {
		return err
	}
	return nil
}

// ---------- where the relays compute / cache MaxPacketSizeForAddr ----------

// limitSites (1) inventories every call of zerocopy.MaxPacketSizeForAddr in package service: the set of
// (file, function, assigned variable and operator) must be exactly the known one and every *initial* computation
// must name the address the packets of that loop are sent to; (2) translates the block that refreshes the cached
// limit of a session downlink when the client address info changes into a statement program (LimStmt) for both
// the generic and the sendmmsg loop. Unknown statements, deeper nesting or other guards abort.
func limitSites(c *gen.Ctx, l *gen.Lean, sv *lite) error {
	type site struct{ file, fn, stmt string }
	var got []string
	for _, f := range sv.files {
		file := filepath.Base(c.Fset.Position(f.Pos()).Filename)
		for _, d := range f.Decls {
			fd, ok := d.(*ast.FuncDecl)
			if !ok || fd.Body == nil {
				continue
			}
			var stack []ast.Node
			ast.Inspect(fd.Body, func(n ast.Node) bool {
				if n == nil {
					stack = stack[:len(stack)-1]
					return true
				}
				stack = append(stack, n)
				if call, ok := n.(*ast.CallExpr); ok && sv.Src(call.Fun) == "zerocopy.MaxPacketSizeForAddr" {
					stmt := "?"
					for i := len(stack) - 1; i >= 0; i-- {
						if as, ok := stack[i].(*ast.AssignStmt); ok && len(as.Lhs) == 1 {
							stmt = sv.Src(as.Lhs[0]) + " " + as.Tok.String()
							if as.Tok == token.DEFINE { // initial computations are pinned verbatim
								stmt = sv.Src(as)
							}
							break
						}
					}
					got = append(got, file+" | "+fd.Name.Name+" | "+stmt)
				}
				return true
			})
		}
	}
	sort.Strings(got)
	want := []string{
		"server.go | UDPRelay | packetBufRecvSize := zerocopy.MaxPacketSizeForAddr(sc.MTU, netip.IPv4Unspecified())",
		"udp_nat.go | relayNatConnToServerConnGeneric | maxClientPacketSize := zerocopy.MaxPacketSizeForAddr(s.mtu, downlink.clientAddrPort.Addr())",
		"udp_nat_mmsg.go | relayNatConnToServerConnSendmmsg | maxClientPacketSize := zerocopy.MaxPacketSizeForAddr(s.mtu, downlink.clientAddrPort.Addr())",
		"udp_session.go | relayNatConnToServerConnGeneric | maxClientPacketSize :=  zerocopy.MaxPacketSizeForAddr(s.mtu, clientAddrPort.Addr())",
		"udp_session.go | relayNatConnToServerConnGeneric | maxClientPacketSize =",
		"udp_session_mmsg.go | relayNatConnToServerConnSendmmsg | maxClientPacketSize := zerocopy.MaxPacketSizeForAddr(s.mtu, clientAddrPort.Addr())",
		"udp_session_mmsg.go | relayNatConnToServerConnSendmmsg | maxClientPacketSize =",
		"udp_transparent_linux.go | relayNatConnToTransparentConnSendmmsg | maxClientPacketSize := zerocopy.MaxPacketSizeForAddr(s.mtu, downlink.clientAddrPort.Addr())",
	}
	want[3] = strings.Replace(want[3], ":=  ", ":= ", 1)
	sort.Strings(want)
	if strings.Join(got, "\n") != strings.Join(want, "\n") {
		return fmt.Errorf("service: the call sites of zerocopy.MaxPacketSizeForAddr changed: have %q, expected %q", got, want)
	}
	for _, g := range got {
		l.Comment("MaxPacketSizeForAddr call site: %s", g)
	}

	// NAT relays: one client address per entry; packets are written to that same address
	type natSite struct{ recv, fn string; stmts []string }
	for _, n := range []natSite{
		{"*UDPNATRelay", "relayNatConnToServerConnGeneric", []string{
			"_, _, err = downlink.serverConn.WriteMsgUDPAddrPort(packetBuf[packetStart:packetStart+packetLength], clientPktinfo, downlink.clientAddrPort)"}},
		{"*UDPNATRelay", "relayNatConnToServerConnSendmmsg", []string{
			"name, namelen := conn.AddrPortToSockaddr(downlink.clientAddrPort)",
			"packetStart, packetLength, err := downlink.serverConnPacker.PackInPlace(packetBuf, payloadSourceAddrPort, payloadStart, payloadLength, maxClientPacketSize)"}},
	} {
		e, err := fn(l, sv, n.recv, n.fn)
		if err != nil {
			return err
		}
		if err := e.require(n.stmts...); err != nil {
			return err
		}
		if k, err := assignCount(sv, e.fd, "maxClientPacketSize"); err != nil || k != 1 {
			return fmt.Errorf("%s: maxClientPacketSize is assigned %d times (expected once) %v", e.name, k, err)
		}
	}

	l.Raw(`/-- operations of the block that follows a change of the session's client address info -/
inductive LimOp
  | setInfoPtr | setAddrFromNew | setPktinfoFromNew   -- clientAddrInfop = caip; clientAddrPort = caip.addrPort; clientPktinfo = caip.pktinfo
  | setLimitFromCur   -- maxClientPacketSize = zerocopy.MaxPacketSizeForAddr(s.mtu, clientAddrPort.Addr())
  | setLimitFromNew   -- maxClientPacketSize = zerocopy.MaxPacketSizeForAddr(s.mtu, caip.addrPort.Addr())
  | setDestFromCur    -- the address packets are sent to := clientAddrPort
  | other             -- touches none of the tracked variables
deriving DecidableEq, Repr

/-- a statement of that block; ifIs4Differs: it sits inside if caip.addrPort.Addr().Is4() != clientAddrPort.Addr().Is4() -/
structure LimStmt where
  ifIs4Differs : Bool
  op : LimOp
deriving DecidableEq, Repr
`)
	for _, r := range []struct{ fnName, lean string; mmsg bool }{
		{"relayNatConnToServerConnGeneric", "sessionRefreshGeneric", false},
		{"relayNatConnToServerConnSendmmsg", "sessionRefreshMmsg", true},
	} {
		e, err := fn(l, sv, "*UDPSessionRelay", r.fnName)
		if err != nil {
			return err
		}
		init := []string{"clientAddrInfop := downlink.clientAddrInfop", "clientAddrPort := clientAddrInfop.addrPort"}
		if r.mmsg {
			init = []string{"clientAddrInfop := downlink.clientAddrInfop", "clientAddrPort := downlink.clientAddrInfop.addrPort",
				"conn.SockaddrPutAddrPort(&name, &namelen, clientAddrPort)"}
		} else {
			init = append(init, "_, _, err = downlink.serverConn.WriteMsgUDPAddrPort(packetBuf[packetStart:packetStart+packetLength], clientPktinfo, clientAddrPort)")
		}
		init = append(init, "packetStart, packetLength, err := downlink.serverConnPacker.PackInPlace(packetBuf, payloadSourceAddrPort, payloadStart, payloadLength, maxClientPacketSize)")
		if err := e.require(init...); err != nil {
			return err
		}
		if r.mmsg {
			// once when the loop is set up, once in the refresh block
			if k := stmtTexts(sv, e.fd)["conn.SockaddrPutAddrPort(&name, &namelen, clientAddrPort)"]; k != 2 {
				return fmt.Errorf("%s: the destination sockaddr is set %d times (expected: at set-up and in the refresh block)", e.name, k)
			}
		}
		// the refresh block
		var blocks []*ast.IfStmt
		ast.Inspect(e.fd.Body, func(n ast.Node) bool {
			if is, ok := n.(*ast.IfStmt); ok && is.Init != nil && sv.Src(is.Init) == "caip := downlink.clientAddrInfo.Load()" {
				blocks = append(blocks, is)
			}
			return true
		})
		if len(blocks) != 1 || sv.Src(blocks[0].Cond) != "caip != clientAddrInfop" || blocks[0].Else != nil {
			return fmt.Errorf("%s: expected exactly one `if caip := downlink.clientAddrInfo.Load(); caip != clientAddrInfop { … }`, found %d", e.name, len(blocks))
		}
		var prog []string
		var tr func(list []ast.Stmt, guarded bool) error
		tracked := map[string]bool{"clientAddrInfop": true, "clientAddrPort": true, "clientPktinfo": true, "maxClientPacketSize": true, "name": true, "namelen": true}
		emit := func(guarded bool, op, src string) {
			prog = append(prog, fmt.Sprintf("  ⟨%v, .%s⟩  -- %s", guarded, op, src))
		}
		tr = func(list []ast.Stmt, guarded bool) error {
			for _, st := range list {
				src := sv.Src(st)
				switch x := st.(type) {
				case *ast.AssignStmt:
					if len(x.Lhs) != 1 || len(x.Rhs) != 1 || x.Tok != token.ASSIGN {
						return fmt.Errorf("%s: refresh block: unrecognised assignment `%s`", e.name, src)
					}
					lhs, rhs := sv.Src(x.Lhs[0]), sv.Src(x.Rhs[0])
					switch {
					case lhs == "clientAddrInfop" && rhs == "caip":
						emit(guarded, "setInfoPtr", src)
					case lhs == "clientAddrPort" && rhs == "caip.addrPort":
						if guarded {
							return fmt.Errorf("%s: refresh block: the client address is updated under a guard: `%s`", e.name, src)
						}
						emit(guarded, "setAddrFromNew", src)
					case lhs == "clientPktinfo" && rhs == "caip.pktinfo":
						emit(guarded, "setPktinfoFromNew", src)
					case lhs == "maxClientPacketSize" && rhs == "zerocopy.MaxPacketSizeForAddr(s.mtu, clientAddrPort.Addr())":
						emit(guarded, "setLimitFromCur", src)
					case lhs == "maxClientPacketSize" && rhs == "zerocopy.MaxPacketSizeForAddr(s.mtu, caip.addrPort.Addr())":
						emit(guarded, "setLimitFromNew", src)
					default:
						return fmt.Errorf("%s: refresh block: unrecognised assignment `%s`", e.name, src)
					}
				case *ast.IfStmt:
					c := sv.Src(x.Cond)
					if guarded || x.Init != nil || x.Else != nil ||
						(c != "caip.addrPort.Addr().Is4() != clientAddrPort.Addr().Is4()" && c != "clientAddrPort.Addr().Is4() != caip.addrPort.Addr().Is4()") {
						return fmt.Errorf("%s: refresh block: unrecognised conditional `if %s`", e.name, c)
					}
					// the guard compares against clientAddrPort as it is when the guard is evaluated: only statements
					// that do not change it may follow inside (checked above: no guarded address update)
					if err := tr(x.Body.List, true); err != nil {
						return err
					}
				case *ast.ExprStmt:
					if r.mmsg && src == "conn.SockaddrPutAddrPort(&name, &namelen, clientAddrPort)" {
						if guarded {
							return fmt.Errorf("%s: refresh block: the destination sockaddr is updated under a guard", e.name)
						}
						emit(guarded, "setDestFromCur", src)
						continue
					}
					return fmt.Errorf("%s: refresh block: unrecognised statement `%s`", e.name, src)
				case *ast.RangeStmt:
					bad := false
					ast.Inspect(x.Body, func(n ast.Node) bool {
						if as, ok := n.(*ast.AssignStmt); ok {
							for _, lh := range as.Lhs {
								if id, ok := lh.(*ast.Ident); ok && tracked[id.Name] {
									bad = true
								}
							}
						}
						return true
					})
					if bad {
						return fmt.Errorf("%s: refresh block: a loop assigns a tracked variable: `%s`", e.name, src)
					}
					emit(guarded, "other", "for … { "+strconv.Itoa(len(x.Body.List))+" statements on smsgvec }")
				default:
					return fmt.Errorf("%s: refresh block: unrecognised statement `%s`", e.name, src)
				}
			}
			return nil
		}
		if err := tr(blocks[0].Body.List, false); err != nil {
			return err
		}
		if !r.mmsg {
			// the generic loop writes to clientAddrPort itself (WriteMsgUDPAddrPort(…, clientAddrPort), required above)
			prog = append(prog, "  ⟨false, .setDestFromCur⟩  -- WriteMsgUDPAddrPort(…, clientPktinfo, clientAddrPort)")
		}
		// no assignment to the cached limit or the address outside the initialisation and this block
		inBlock := func(name string) int {
			k := 0
			ast.Inspect(blocks[0].Body, func(n ast.Node) bool {
				if as, ok := n.(*ast.AssignStmt); ok {
					for _, lh := range as.Lhs {
						if sv.Src(lh) == name {
							k++
						}
					}
				}
				return true
			})
			return k
		}
		for _, v := range []string{"maxClientPacketSize", "clientAddrPort"} {
			k, err := assignCount(sv, e.fd, v)
			if err != nil {
				return err
			}
			if k != 1+inBlock(v) {
				return fmt.Errorf("%s: %s is assigned outside its initialisation and the refresh block (%d assignments)", e.name, v, k)
			}
		}
		// Lean needs the comment after the separator: put "," before the comment
		var sb strings.Builder
		for i, p := range prog {
			code, cm, _ := strings.Cut(p, "  -- ")
			sep := ","
			if i == len(prog)-1 {
				sep = ""
			}
			sb.WriteString(code + sep + "  -- " + cm + "\n")
		}
		l.Raw(fmt.Sprintf("/-- service.*UDPSessionRelay.%s: the statements of `if caip := downlink.clientAddrInfo.Load(); caip != clientAddrInfop { … }` in order -/\ndef %s : List LimStmt := [\n%s]\n", r.fnName, r.lean, sb.String()))
	}

	// uplink: a client session's limit is derived from the very address its packets are sent to
	return nil
}

// ---------- state the codecs carry from packet to packet ----------

// codecState: (1) socks5.DomainCache (the target-address parser state of the none / SOCKS5 / ss2022 server
// unpackers) must keep VALUE COPIES of domain names only: its fields are pinned, and every assignment to receiver
// state and every argument handed to a method of receiver state inside ConnAddrFromSlice must not be slice-typed
// (a `b[2:domainEnd]` kept across calls aliases the caller's packet buffer); (2) the resolver cache of
// direct.DirectPacketClientPacker.updateDomainIPCache is translated into an op program (ResOp).
func codecState(l *gen.Lean, s5 *gen.Pkg, dr *gen.Pkg) error {
	// --- DomainCache ---
	var fields []string
	for _, f := range s5.Files {
		for _, d := range f.Decls {
			gd, ok := d.(*ast.GenDecl)
			if !ok || gd.Tok != token.TYPE {
				continue
			}
			for _, sp := range gd.Specs {
				ts := sp.(*ast.TypeSpec)
				if ts.Name.Name != "DomainCache" {
					continue
				}
				st, ok := ts.Type.(*ast.StructType)
				if !ok {
					return fmt.Errorf("socks5.DomainCache is not a struct")
				}
				for _, fl := range st.Fields.List {
					for _, n := range fl.Names {
						fields = append(fields, n.Name+" "+s5.Src(fl.Type))
					}
				}
			}
		}
	}
	if want := "handleByDomain *cache.BoundedCache[string, unique.Handle[string]]"; strings.Join(fields, "; ") != want {
		return fmt.Errorf("socks5.DomainCache: fields are %q, expected %q (state that is not a string-keyed value cache is not modelled)", fields, want)
	}
	l.Comment("socks5.DomainCache: fields `%s`", strings.Join(fields, "; "))
	fd, err := s5.Func("*DomainCache", "ConnAddrFromSlice")
	if err != nil {
		return err
	}
	if fd.Recv == nil || len(fd.Recv.List[0].Names) != 1 {
		return fmt.Errorf("socks5.DomainCache.ConnAddrFromSlice: receiver")
	}
	recv := fd.Recv.List[0].Names[0].Name
	rooted := func(e ast.Expr) bool { // e is recv.x.y…
		for {
			switch x := e.(type) {
			case *ast.SelectorExpr:
				e = x.X
			case *ast.Ident:
				return x.Name == recv
			default:
				return false
			}
		}
	}
	isSlice := func(e ast.Expr) bool {
		tv, ok := s5.Info.Types[e]
		if !ok || tv.Type == nil {
			return true // unknown: treat as unsafe
		}
		switch tv.Type.Underlying().(type) {
		case *types.Slice, *types.Pointer, *types.Array:
			// pointers and arrays of bytes could alias as well; the only pointer stored is the cache itself
			if _, isPtr := tv.Type.Underlying().(*types.Pointer); isPtr {
				return !strings.Contains(tv.Type.String(), "BoundedCache")
			}
			return true
		}
		return false
	}
	var bad []string
	stores, calls := 0, 0
	ast.Inspect(fd.Body, func(n ast.Node) bool {
		switch x := n.(type) {
		case *ast.AssignStmt:
			for i, lh := range x.Lhs {
				if rooted(lh) {
					stores++
					if i < len(x.Rhs) && isSlice(x.Rhs[i]) {
						bad = append(bad, s5.Src(x))
					}
				}
			}
		case *ast.CallExpr:
			if sel, ok := x.Fun.(*ast.SelectorExpr); ok && rooted(sel.X) {
				calls++
				for _, a := range x.Args {
					if isSlice(a) {
						bad = append(bad, s5.Src(x))
					}
				}
			}
		}
		return true
	})
	if len(bad) > 0 {
		return fmt.Errorf("socks5.DomainCache.ConnAddrFromSlice keeps or hands on a slice of the caller's buffer: %q", bad)
	}
	if stores != 1 || calls != 2 {
		return fmt.Errorf("socks5.DomainCache.ConnAddrFromSlice: %d stores into receiver state and %d calls on it (expected 1 and 2: cache creation, GetEntry, InsertUnchecked)", stores, calls)
	}
	have := map[string]bool{}
	ast.Inspect(fd.Body, func(n ast.Node) bool {
		if st, ok := n.(ast.Stmt); ok {
			have[s5.Src(st)] = true
		}
		return true
	})
	for _, w := range []string{
		"domainBytes := b[2:domainEnd]",
		"entry, ok := c.handleByDomain.GetEntry(string(domainBytes))",
		"handle := unique.Make(string(domainBytes))",
		"domain = handle.Value()",
		"c.handleByDomain.InsertUnchecked(domain, handle)",
		"domain = entry.Key",
		"addr, err := conn.AddrFromDomainPort(domain, port)",
	} {
		if !have[w] {
			return fmt.Errorf("socks5.DomainCache.ConnAddrFromSlice: statement `%s` not found", w)
		}
		l.Comment("socks5.*DomainCache.ConnAddrFromSlice: `%s`", w)
	}
	size := ""
	ast.Inspect(fd.Body, func(n ast.Node) bool {
		if vs, ok := n.(*ast.ValueSpec); ok && len(vs.Names) == 1 && vs.Names[0].Name == "domainCacheSize" && len(vs.Values) == 1 {
			if v, ok := s5.EvalInt(vs.Values[0]); ok {
				size = v
			}
		}
		return true
	})
	if size == "" {
		return fmt.Errorf("socks5.DomainCache.ConnAddrFromSlice: const domainCacheSize not found")
	}
	l.NatDef("domainCacheSize", size, "socks5.(*DomainCache).ConnAddrFromSlice: const domainCacheSize")

	// --- DirectPacketClientPacker.updateDomainIPCache ---
	ufd, err := dr.Func("*DirectPacketClientPacker", "updateDomainIPCache")
	if err != nil {
		return err
	}
	name := "direct.*DirectPacketClientPacker.updateDomainIPCache"
	domExpr := map[string]bool{"targetAddr.Domain()": true}
	var ops []string
	emit := func(op, src string) { ops = append(ops, "  ."+op+",  -- "+src) }
	var tr func(list []ast.Stmt, top bool) error
	tr = func(list []ast.Stmt, top bool) error {
		for i, st := range list {
			src := dr.Src(st)
			switch x := st.(type) {
			case *ast.AssignStmt:
				if len(x.Lhs) == 1 && len(x.Rhs) == 1 && x.Tok == token.DEFINE && dr.Src(x.Rhs[0]) == "targetAddr.Domain()" {
					domExpr[dr.Src(x.Lhs[0])] = true // a local alias of the domain
					continue
				}
				if len(x.Lhs) == 2 && len(x.Rhs) == 1 && dr.Src(x.Lhs[0]) == "ip" && dr.Src(x.Lhs[1]) == "err" && dr.Src(x.Rhs[0]) == "targetAddr.ResolveIP(ctx, p.network)" {
					emit("resolve", src)
					continue
				}
				if len(x.Lhs) == 1 && len(x.Rhs) == 1 && x.Tok == token.ASSIGN {
					lhs, rhs := dr.Src(x.Lhs[0]), dr.Src(x.Rhs[0])
					if lhs == "p.cachedDomain" && domExpr[rhs] {
						emit("setDomain", src)
						continue
					}
					if lhs == "p.cachedDomainIP" && rhs == "ip" {
						emit("setIP", src)
						continue
					}
				}
				return fmt.Errorf("%s: unrecognised assignment `%s`", name, src)
			case *ast.IfStmt:
				if x.Init != nil || x.Else != nil {
					return fmt.Errorf("%s: unrecognised conditional `%s`", name, src)
				}
				c, ok := x.Cond.(*ast.BinaryExpr)
				if !ok {
					return fmt.Errorf("%s: unrecognised condition `%s`", name, dr.Src(x.Cond))
				}
				l, r := dr.Src(c.X), dr.Src(c.Y)
				isCmp := (l == "p.cachedDomain" && domExpr[r]) || (r == "p.cachedDomain" && domExpr[l])
				body := dr.Src(x.Body)
				switch {
				case isCmp && c.Op == token.EQL && body == "{ return nil }":
					emit("returnIfCached", src)
				case isCmp && c.Op == token.NEQ && top && i == len(list)-2 && dr.Src(list[len(list)-1]) == "return nil":
					// if cached != domain { BODY }; return nil  ==  if cached == domain { return nil }; BODY; return nil
					emit("returnIfCached", "if "+dr.Src(x.Cond)+" { … } return nil")
					if err := tr(x.Body.List, false); err != nil {
						return err
					}
				case l == "err" && r == "nil" && c.Op == token.NEQ && body == "{ return err }":
					emit("returnOnErr", src)
				default:
					return fmt.Errorf("%s: unrecognised conditional `%s`", name, src)
				}
			case *ast.ReturnStmt:
				if src != "return nil" || !top || i != len(list)-1 {
					return fmt.Errorf("%s: unrecognised return `%s`", name, src)
				}
			default:
				return fmt.Errorf("%s: unrecognised statement `%s`", name, src)
			}
		}
		return nil
	}
	if err := tr(ufd.Body.List, true); err != nil {
		return err
	}
	// the packer uses the cache after the update: destAddrPort = netip.AddrPortFrom(p.cachedDomainIP, targetAddr.Port())
	pfd, err := dr.Func("*DirectPacketClientPacker", "PackInPlace")
	if err != nil {
		return err
	}
	phave := map[string]bool{}
	ast.Inspect(pfd.Body, func(n ast.Node) bool {
		if st, ok := n.(ast.Stmt); ok {
			phave[dr.Src(st)] = true
		}
		return true
	})
	for _, w := range []string{"err = p.updateDomainIPCache(ctx, targetAddr)", "destAddrPort = netip.AddrPortFrom(p.cachedDomainIP, targetAddr.Port())", "destAddrPort = targetAddr.IPPort()"} {
		if !phave[w] {
			return fmt.Errorf("direct.*DirectPacketClientPacker.PackInPlace: statement `%s` not found", w)
		}
	}
	var sb strings.Builder
	for i, o := range ops {
		code, cm, _ := strings.Cut(o, ",  -- ")
		sep := ","
		if i == len(ops)-1 {
			sep = ""
		}
		sb.WriteString(code + sep + "  -- " + cm + "\n")
	}
	l.Raw("/-- operations of `DirectPacketClientPacker.updateDomainIPCache` -/\ninductive ResOp\n  | returnIfCached  -- if p.cachedDomain == targetAddr.Domain() { return nil }\n  | resolve         -- ip, err := targetAddr.ResolveIP(ctx, p.network)\n  | returnOnErr     -- if err != nil { return err }\n  | setDomain       -- p.cachedDomain = targetAddr.Domain()\n  | setIP           -- p.cachedDomainIP = ip\nderiving DecidableEq, Repr\n")
	l.Raw(fmt.Sprintf("/-- %s, statement by statement -/\ndef updateDomainIPCacheProg : List ResOp := [\n%s]\n", name, sb.String()))
	return nil
}

// assignCount counts assignments (= and :=) to the identifier name in fd.
func assignCount(p pkgI, fd *ast.FuncDecl, name string) (int, error) {
	k := 0
	ast.Inspect(fd.Body, func(n ast.Node) bool {
		if as, ok := n.(*ast.AssignStmt); ok {
			for _, lh := range as.Lhs {
				if p.Src(lh) == name {
					k++
				}
			}
		}
		return true
	})
	return k, nil
}

// switchFacts checks that fd holds a tagless switch whose first two case conditions are exactly c1, c2.
func switchFacts(e emitter, c1, c2 string) error {
	var ok bool
	ast.Inspect(e.fd.Body, func(n ast.Node) bool {
		sw, is := n.(*ast.SwitchStmt)
		if !is || sw.Tag != nil || sw.Init != nil || len(sw.Body.List) != 2 {
			return true
		}
		a := sw.Body.List[0].(*ast.CaseClause)
		b := sw.Body.List[1].(*ast.CaseClause)
		if len(a.List) == 1 && len(b.List) == 1 && e.p.Src(a.List[0]) == c1 && e.p.Src(b.List[0]) == c2 &&
			len(a.Body) == 2 && e.p.Src(a.Body[0]) == "err = zerocopy.ErrPayloadTooBig" && e.p.Src(a.Body[1]) == "return" &&
			len(b.Body) == 1 && e.p.Src(b.Body[0]) == "paddingLen = 1 + mrand.IntN(maxPaddingLen)" {
			ok = true
		}
		return true
	})
	if !ok {
		return fmt.Errorf("%s: padding switch `case %s: ErrPayloadTooBig; case %s: paddingLen = 1 + mrand.IntN(maxPaddingLen)` not recognised", e.name, c1, c2)
	}
	e.l.Comment("%s: `switch { case %s: err = zerocopy.ErrPayloadTooBig; return; case %s: paddingLen = 1 + mrand.IntN(maxPaddingLen) }`", e.name, c1, c2)
	return nil
}

// ifConds checks that the `if` statements with the given body are exactly those with the given conditions (in order).
func ifConds(e emitter, bodyText string, conds ...string) error {
	var got []string
	ast.Inspect(e.fd.Body, func(n ast.Node) bool {
		if is, ok := n.(*ast.IfStmt); ok && e.p.Src(is.Body) == bodyText {
			got = append(got, e.p.Src(is.Cond))
		}
		return true
	})
	if strings.Join(got, " ## ") != strings.Join(conds, " ## ") {
		return fmt.Errorf("%s: guards with body %s are %q, expected %q", e.name, bodyText, got, conds)
	}
	for _, c := range conds {
		e.l.Comment("%s: `if %s %s`", e.name, c, bodyText)
	}
	return nil
}

func main() { gen.Main("C05", generate) }
