package main

import (
	"encoding/json"
	"fmt"
	"os"
	"os/exec"
	"path/filepath"
	"regexp"
	"strconv"
	"strings"

	"ssvharness/internal/common"
)

// Thorough tier only: the concurrent round-robin cases (and a slice of the group cases) are run once more in a
// race-instrumented build of this same command (`go build -race`), so that a selection that is no longer one
// atomic operation is reported deterministically and not only when two threads happen to collide.
// If the instrumented build cannot be produced (no toolchain / no cgo) the pass is skipped with a note.

const onlyEnv = "CORR_C19_ONLY"

func racePass(o *common.Options, reportPath string) {
	b, err := os.ReadFile(reportPath)
	if err != nil {
		return
	}
	var rep common.Report
	if json.Unmarshal(b, &rep) != nil {
		return
	}
	note := func(format string, a ...any) {
		rep.Notes = append(rep.Notes, fmt.Sprintf(format, a...))
		rep.Write(reportPath)
	}
	harness, _ := os.Getwd()
	if d := os.Getenv("VERIF_DIR"); d != "" {
		harness = filepath.Join(d, "harness")
	}
	tmp, err := os.MkdirTemp("", "corr_c19_race_*")
	if err != nil {
		note("race pass skipped: %v", err)
		return
	}
	defer os.RemoveAll(tmp)
	bin := filepath.Join(tmp, "corr_c19_race")
	args := []string{"build"}
	if repo := os.Getenv("VERIF_REPO"); repo != "" && repo != "/repo" {
		mf := filepath.Join(harness, "go.scratch."+regexp.MustCompile(`\W+`).ReplaceAllString(repo, "_")+".mod")
		if _, err := os.Stat(mf); err == nil {
			args = append(args, "-modfile", mf)
		}
	}
	args = append(args, "-race", "-tags", "verif", "-o", bin, "./cmd/corr_c19")
	env := []string{"GOFLAGS=-mod=mod", "GOPROXY=off", "GOTOOLCHAIN=auto", "CGO_ENABLED=1"}
	for _, kv := range os.Environ() {
		if strings.HasPrefix(kv, "GOFLAGS=") || strings.HasPrefix(kv, "GOPROXY=") || strings.HasPrefix(kv, "GOSUMDB=") || strings.HasPrefix(kv, "GOTOOLCHAIN=") || strings.HasPrefix(kv, "CGO_ENABLED=") {
			continue
		}
		env = append(env, kv)
	}
	build := exec.Command("go", args...)
	build.Dir = harness
	build.Env = env
	if out, err := build.CombinedOutput(); err != nil {
		note("race pass skipped: the race-instrumented build failed: %v: %s", err, lastLines(string(out), 4))
		return
	}
	prog := filepath.Join(tmp, "progress")
	out := filepath.Join(tmp, "report.json")
	cargs := []string{"--tier", o.Tier, "--seed", strconv.FormatUint(o.Seed, 10), "--out", out}
	if o.Driver != "" {
		cargs = append(cargs, "--driver", o.Driver)
	}
	cmd := exec.Command(bin, cargs...)
	cmd.Env = append(os.Environ(), progressEnv+"="+prog, onlyEnv+"=race", "GORACE=halt_on_error=1 exitcode=66")
	var stderr tailBuf
	cmd.Stdout = &stderr
	cmd.Stderr = &stderr
	runErr := cmd.Run()
	var rr common.Report
	if rb, err := os.ReadFile(out); err == nil && json.Unmarshal(rb, &rr) == nil && runErr == nil {
		rep.Evaluations += rr.Evaluations
		rep.DistinctNontrivial += rr.DistinctNontrivial
		rep.TracesValidated += rr.TracesValidated
		for k, v := range rr.Distribution {
			rep.Distribution["race-build:"+k] += v
		}
		rep.Divergences = append(rep.Divergences, rr.Divergences...)
		rep.OracleFailures = append(rep.OracleFailures, rr.OracleFailures...)
		rep.Notes = append(rep.Notes, fmt.Sprintf("race pass: %d cases in a -race build, no data race reported", rr.Evaluations))
		rep.Write(reportPath)
		return
	}
	var cur Case
	pb, _ := os.ReadFile(prog)
	text := string(stderr.b)
	if json.Unmarshal(pb, &cur) == nil && cur.Engine != "" {
		key := "crash:" + cur.Engine + ":" + cur.Proto + ":" + cur.Policy
		detail := "the race-instrumented process died while this case was running: " + lastLines(text, 12)
		if i := strings.Index(text, "WARNING: DATA RACE"); i >= 0 {
			key = "data-race:" + cur.Engine + ":" + cur.Proto + ":" + cur.Policy
			detail = "the race detector reports unsynchronised accesses while this case was running (selections are no longer atomic): " + raceSummary(text[i:])
		}
		rep.OracleFailures = append(rep.OracleFailures, common.OracleFailure{Engine: cur.Engine, Key: key, Case: cur, Detail: detail})
		rep.Distribution["ORACLE-FAIL:"+key]++
		rep.Write(reportPath)
		return
	}
	note("race pass inconclusive: %v: %s", runErr, lastLines(text, 6))
}

// raceSummary keeps the lines of a race report that name repository code.
func raceSummary(s string) string {
	var keep []string
	for _, l := range strings.Split(s, "\n") {
		l = strings.TrimSpace(l)
		if strings.Contains(l, "shadowsocks-go/") || strings.HasPrefix(l, "Write at") || strings.HasPrefix(l, "Read at") || strings.HasPrefix(l, "Previous") {
			keep = append(keep, l)
		}
		if len(keep) >= 8 {
			break
		}
	}
	return strings.Join(keep, " | ")
}
