package main

import (
	"context"
	"errors"
	"fmt"
	"net"
	"net/netip"
	"os"
	"strconv"
	"sync"
	"testing"
	"testing/synctest"
	"time"

	"github.com/database64128/shadowsocks-go/conn"
	"github.com/database64128/shadowsocks-go/zerocopy"
	"golang.org/x/net/dns/dnsmessage"
)

// UDP groups: the probe (probe/udp.go) opens a real UDP socket through the session's ListenConfig, so the
// DNS exchange itself goes over loopback to a responder that lives OUTSIDE the synctest bubble and answers at
// once; a blocked socket read is not "durably blocked", so the fake clock stands still during the exchange and
// the measured latency is exactly the scripted fake-clock delay inside NewSession. A probe that waits for a
// packet that never comes could not time out on the fake clock, therefore scripted UDP failures are session
// creation errors (after a delay) only; the deadline path is exercised by the TCP groups.

var udpProbeAddr = conn.AddrFromIPAndPort(netip.AddrFrom4([4]byte{192, 0, 2, 53}), 53)

type obsKey struct{}

var (
	responderOnce sync.Once
	responderAP   netip.AddrPort
	responderErr  error
)

// startResponder starts the loopback DNS responder (once per process, outside any bubble).
func startResponder() (netip.AddrPort, error) {
	responderOnce.Do(func() {
		pc, err := net.ListenUDP("udp4", &net.UDPAddr{IP: net.IPv4(127, 0, 0, 1)})
		if err != nil {
			responderErr = err
			return
		}
		responderAP = pc.LocalAddr().(*net.UDPAddr).AddrPort()
		go func() {
			buf := make([]byte, 2048)
			for {
				n, from, err := pc.ReadFromUDPAddrPort(buf)
				if err != nil {
					return
				}
				var p dnsmessage.Parser
				h, err := p.Start(buf[:n])
				if err != nil {
					continue
				}
				q, err := p.Question()
				if err != nil {
					continue
				}
				msg := dnsmessage.Message{
					Header:    dnsmessage.Header{ID: h.ID, Response: true, RecursionAvailable: true, RCode: dnsmessage.RCodeSuccess},
					Questions: []dnsmessage.Question{q},
				}
				out, err := msg.Pack()
				if err != nil {
					continue
				}
				pc.WriteToUDPAddrPort(out, from)
			}
		}()
	})
	return responderAP, responderErr
}

type udpScripted struct {
	id int
	w  *world
}

func (c *udpScripted) headroom() zerocopy.Headroom {
	return zerocopy.Headroom{Front: 3 + c.id%5, Rear: c.id % 3}
}

func (c *udpScripted) Info() zerocopy.UDPClientInfo {
	return zerocopy.UDPClientInfo{Name: "h" + strconv.Itoa(c.id), PackerHeadroom: c.headroom()}
}

func (c *udpScripted) NewSession(ctx context.Context) (zerocopy.UDPClientSessionInfo, zerocopy.UDPClientSession, error) {
	info := zerocopy.UDPClientSessionInfo{
		Name:           "h" + strconv.Itoa(c.id),
		PackerHeadroom: c.headroom(),
		MTU:            1500,
		ListenConfig:   conn.DefaultUDPClientListenConfig,
	}
	if c.w == nil || ctx.Value(obsKey{}) != nil {
		return info, zerocopy.UDPClientSession{}, idErr{c.id}
	}
	w := c.w
	k, act, ok := w.nextAct(c.id)
	if !ok {
		<-ctx.Done()
		return info, zerocopy.UDPClientSession{}, ctx.Err()
	}
	w.observeMid(k, c.id, "start")
	began := time.Now()
	time.Sleep(time.Duration(act.Lat))
	w.observeMid(k, c.id, "dialed")
	if !act.OK && !(w.realtime && act.Mode == 3) {
		w.doneCh <- c.id
		return info, zerocopy.UDPClientSession{}, errors.New("scripted session failure")
	}
	pu := &udpPassthrough{dest: responderAP, hr: c.headroom(), w: w}
	if !act.OK {
		pu.dest = blackholeAP // real-time engine: the query goes where nobody answers; only the probe's deadline ends it
	}
	return info, zerocopy.UDPClientSession{
		MaxPacketSize: 1400,
		Packer:        pu,
		Unpacker:      pu,
		Close: func() error {
			if w.realtime {
				w.mu.Lock()
				w.durations = append(w.durations, probeDur{Round: k, Client: c.id, Ns: time.Since(began).Nanoseconds()})
				w.mu.Unlock()
			}
			w.doneCh <- c.id
			return nil
		},
	}, nil
}

type udpPassthrough struct {
	dest netip.AddrPort
	hr   zerocopy.Headroom
	w    *world
}

func (p *udpPassthrough) ClientPackerInfo() zerocopy.ClientPackerInfo {
	return zerocopy.ClientPackerInfo{Headroom: p.hr}
}

func (p *udpPassthrough) ClientUnpackerInfo() zerocopy.ClientUnpackerInfo {
	return zerocopy.ClientUnpackerInfo{}
}

func (p *udpPassthrough) PackInPlace(ctx context.Context, b []byte, targetAddr conn.Addr, payloadStart, payloadLen int) (netip.AddrPort, int, int, error) {
	if !targetAddr.Equals(udpProbeAddr) {
		p.w.complain("UDP probe targets %s, configured %s", targetAddr, udpProbeAddr)
	}
	if payloadStart < p.hr.Front || len(b)-payloadStart-payloadLen < p.hr.Rear {
		p.w.complain("UDP probe gave headroom %d/%d, needs %d/%d", payloadStart, len(b)-payloadStart-payloadLen, p.hr.Front, p.hr.Rear)
	}
	return p.dest, payloadStart, payloadLen, nil
}

func (p *udpPassthrough) UnpackInPlace(b []byte, packetSourceAddrPort netip.AddrPort, packetStart, packetLen int) (netip.AddrPort, int, int, error) {
	return udpProbeAddr.IPPort(), packetStart, packetLen, nil
}

func observeUDP(g zerocopy.UDPClient) int {
	info, _, err := g.NewSession(context.WithValue(context.Background(), obsKey{}, true))
	var ie idErr
	if !errors.As(err, &ie) || info.Name != "h"+strconv.Itoa(ie.id) {
		return nonMember
	}
	return ie.id
}

// runBubble runs body in a synctest bubble, guarded by a real-time watchdog outside the bubble:
// if a loopback datagram were lost, the probe would wait for it while the fake clock cannot advance.
func runBubble(t *testing.T, udp bool, body func(*testing.T)) {
	if udp {
		if _, err := startResponder(); err != nil {
			fmt.Fprintln(os.Stderr, "corr_c19: UDP responder:", err)
			os.Exit(3)
		}
	}
	done := make(chan struct{})
	go func() {
		select {
		case <-done:
		case <-time.After(120 * time.Second):
			fmt.Fprintln(os.Stderr, "fatal error: corr_c19 watchdog: a group case did not finish within 120 s of real time")
			os.Exit(97)
		}
	}()
	synctest.Test(t, body)
	close(done)
}
