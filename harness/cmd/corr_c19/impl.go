package main

import (
	"context"
	"errors"
	"fmt"
	"io"
	"net/netip"
	"strconv"
	"strings"
	"sync"
	"testing"
	"testing/synctest"
	"time"

	"ssvharness/internal/common"

	"github.com/database64128/shadowsocks-go"
	"github.com/database64128/shadowsocks-go/clientgroups"
	"github.com/database64128/shadowsocks-go/conn"
	"github.com/database64128/shadowsocks-go/jsoncfg"
	"github.com/database64128/shadowsocks-go/netio"
	"github.com/database64128/shadowsocks-go/zerocopy"
	"go.uber.org/zap"
)

// ---------- what a run of the implementation yields ----------

type midObs struct {
	Round  int    `json:"round"`
	Client int    `json:"client"` // whose probe was at this point
	At     string `json:"at"`     // start | dialed | responding
	Sel    int    `json:"sel"`
}

type groupsObs struct {
	Initial int       `json:"initial"`          // selection before the service is started
	Started int       `json:"started"`          // selection after Start, before the first tick
	After   []int     `json:"after"`            // selection after round k
	Mid     []midObs  `json:"mid"`              // selections seen while round k was running
	Order   [][]int   `json:"order"`            // per round: clients in the order their probes ended
	Starts  [][]int64 `json:"starts"`           // per round, per client: fake-clock instant (ns) at which its probe started
	Events  []string  `json:"events,omitempty"` // per round: what the harness clients saw, in order (job <i> / mid)
	Err     string    `json:"err,omitempty"`
}

const nonMember = -1 // identity of something that is not a client of the group

var (
	probeAddr   = conn.AddrFromIPAndPort(netip.AddrFrom4([4]byte{192, 0, 2, 1}), 80)
	observeAddr = conn.AddrFromIPAndPort(netip.AddrFrom4([4]byte{192, 0, 2, 99}), 9)
)

const (
	probePath = "/verif_204"
	probeHost = "probe.verif.test"
)

// idErr is how a harness client answers a non-probe dial: it only reveals who was asked.
type idErr struct{ id int }

func (e idErr) Error() string { return "harness client " + strconv.Itoa(e.id) }

type world struct {
	c      Case
	T      time.Duration
	mu     sync.Mutex
	calls  []int
	doneCh chan int
	mid    []midObs
	events [][]string
	group  netio.StreamClient
	ugroup zerocopy.UDPClient
	bad    []string // protocol-level surprises (wrong probe request, ...)
	starts [][]int64
	// real-time UDP engine only
	realtime  bool
	durations []probeDur
}

func (w *world) observe() int {
	if w.c.Proto == "udp" {
		return observeUDP(w.ugroup)
	}
	return observeTCP(w.group, 0)
}

func (w *world) observeMid(round, client int, at string) {
	sel := w.observe()
	w.mu.Lock()
	w.mid = append(w.mid, midObs{Round: round, Client: client, At: at, Sel: sel})
	w.mu.Unlock()
}

func (w *world) nextAct(id int) (int, Act, bool) {
	w.mu.Lock()
	defer w.mu.Unlock()
	k := w.calls[id]
	if k < len(w.starts) && id < len(w.starts[k]) {
		w.starts[k][id] = time.Now().UnixNano()
	}
	w.calls[id]++
	if k >= len(w.c.Rounds) {
		return k, Act{}, false
	}
	return k, w.c.Rounds[k][id], true
}

func (w *world) complain(format string, a ...any) {
	if w.c.Excluded && strings.Contains(format, "response not read") {
		return // the probe gave up at its deadline before the late answer
	}
	w.mu.Lock()
	if len(w.bad) < 5 {
		w.bad = append(w.bad, fmt.Sprintf(format, a...))
	}
	w.mu.Unlock()
}

// ---------- TCP harness client ----------

type tcpScripted struct {
	id int
	w  *world // nil for clients that only reveal their identity (rr / random engines)
}

func (c *tcpScripted) NewStreamDialer() (netio.StreamDialer, netio.StreamDialerInfo) {
	return c, netio.StreamDialerInfo{Name: "h" + strconv.Itoa(c.id)}
}

func splitDelay(a Act) (dial, resp time.Duration) {
	l := time.Duration(a.Lat)
	switch a.Mode {
	case 0:
		return l, 0
	case 1:
		return 0, l
	default:
		return l / 2, l - l/2
	}
}

func (c *tcpScripted) DialStream(ctx context.Context, addr conn.Addr, payload []byte) (netio.Conn, error) {
	if c.w == nil || addr.Equals(observeAddr) {
		return nil, idErr{c.id}
	}
	w := c.w
	k, act, ok := w.nextAct(c.id)
	if !ok {
		// a round started after the scripted history: stay in flight until the harness stops the service
		<-ctx.Done()
		return nil, ctx.Err()
	}
	if !addr.Equals(probeAddr) {
		w.complain("probe dials %s, configured %s", addr, probeAddr)
	}
	if want := "GET " + probePath + " HTTP/1.1\r\nHost: " + probeHost + "\r\n\r\n"; string(payload) != want {
		w.complain("probe request %q, expected %q", payload, want)
	}
	w.observeMid(k, c.id, "start")
	if !act.OK && act.Mode == 0 {
		time.Sleep(time.Duration(act.Lat))
		w.observeMid(k, c.id, "dialed")
		w.doneCh <- c.id
		return nil, errors.New("scripted dial failure")
	}
	var dialDelay, respDelay time.Duration
	respond := ""
	switch {
	case act.OK:
		dialDelay, respDelay = splitDelay(act)
		respond = "HTTP/1.1 204 No Content\r\n\r\n"
	case act.Mode == 1:
		dialDelay, respDelay = 0, time.Duration(act.Lat)
		respond = "HTTP/1.1 500 Internal Server Error\r\nContent-Length: 0\r\n\r\n"
	case act.Mode == 2:
		dialDelay, respDelay = 0, time.Duration(act.Lat)
	default: // silence until the deadline
		respDelay = -1
	}
	if dialDelay > 0 {
		time.Sleep(dialDelay)
		w.observeMid(k, c.id, "dialed")
	}
	pl, pr := netio.NewPipe()
	go func() {
		defer func() { w.doneCh <- c.id }()
		defer pr.Close()
		if respDelay >= 0 {
			time.Sleep(respDelay)
			w.observeMid(k, c.id, "responding")
			if respond == "" {
				return
			}
			if _, err := pr.Write([]byte(respond)); err != nil {
				w.complain("round %d client %d: response not read: %v", k, c.id, err)
				return
			}
		}
		// wait until the probe closes its end
		io.Copy(io.Discard, pr)
	}()
	return pl, nil
}

func observeTCP(g netio.StreamClient, via int) int {
	if via == 1 {
		_, err := g.DialStream(context.Background(), observeAddr, nil)
		var ie idErr
		if errors.As(err, &ie) {
			return ie.id
		}
		return nonMember
	}
	d, info := g.NewStreamDialer()
	tc, ok := d.(*tcpScripted)
	if !ok || info.Name != "h"+strconv.Itoa(tc.id) {
		return nonMember
	}
	return tc.id
}

// ---------- building a group through the public constructor ----------

const outsiders = 2 // clients that exist in the client maps but are not listed in the group

func memberNames(n int) []string {
	names := make([]string, n)
	for i := range names {
		names[i] = "c" + strconv.Itoa(i)
	}
	return names
}

func buildGroup(c Case, w *world) (tcp netio.StreamClient, udp zerocopy.UDPClient, svcs []shadowsocks.Service, err error) {
	tcpMap := map[string]netio.StreamClient{}
	udpMap := map[string]zerocopy.UDPClient{}
	for i := 0; i < c.N+outsiders; i++ {
		name := "c" + strconv.Itoa(i)
		id := i
		if i >= c.N {
			name = "x" + strconv.Itoa(i-c.N)
			id = 100 + i
		}
		if c.Proto == "udp" {
			udpMap[name] = &udpScripted{id: id, w: w}
		} else {
			tcpMap[name] = &tcpScripted{id: id, w: w}
		}
	}
	cpc := clientgroups.ConnectivityProbeConfig{
		Timeout:     jsoncfg.Duration(c.TimeoutNs),
		Interval:    jsoncfg.Duration(c.IntervalNs),
		Concurrency: c.Concurrency,
	}
	cfg := clientgroups.ClientGroupConfig{Name: "g"}
	if c.Proto == "udp" {
		cfg.UDP.Policy = clientgroups.ClientSelectionPolicy(c.Policy)
		cfg.UDP.Clients = memberNames(c.N)
		cfg.UDP.Probe = clientgroups.UDPConnectivityProbeConfig{ConnectivityProbeConfig: cpc, Address: udpProbeAddr}
	} else {
		cfg.TCP.Policy = clientgroups.ClientSelectionPolicy(c.Policy)
		cfg.TCP.Clients = memberNames(c.N)
		cfg.TCP.Probe = clientgroups.TCPConnectivityProbeConfig{ConnectivityProbeConfig: cpc, Address: probeAddr, EscapedPath: probePath, Host: probeHost}
	}
	err = cfg.AddClientGroup(zap.NewNop(), tcpMap, udpMap, func(s shadowsocks.Service) { svcs = append(svcs, s) })
	if err != nil {
		return nil, nil, nil, err
	}
	return tcpMap["g"], udpMap["g"], svcs, nil
}

// ---------- engine "groups" ----------

func runGroups(t *testing.T, c Case) (obs groupsObs) {
	w := &world{c: c, T: time.Duration(c.effTimeout()), calls: make([]int, c.N+outsiders+200)}
	body := func(t *testing.T) {
		w.starts = make([][]int64, len(c.Rounds))
		for k := range w.starts {
			w.starts[k] = make([]int64, c.N)
		}
		// channels must be created inside the bubble: waiting on an outside channel is not "durably blocked"
		w.doneCh = make(chan int, 4*c.N+8)
		ctx, cancel := context.WithCancel(context.Background())
		defer cancel()
		tg, ug, svcs, err := buildGroup(c, w)
		if err != nil {
			obs.Err = "AddClientGroup: " + err.Error()
			return
		}
		if len(svcs) != 1 {
			obs.Err = fmt.Sprintf("AddClientGroup registered %d probe services", len(svcs))
			return
		}
		w.group, w.ugroup = tg, ug
		obs.Initial = w.observe()
		if err := svcs[0].Start(ctx); err != nil {
			obs.Err = "Start: " + err.Error()
			return
		}
		synctest.Wait()
		obs.Started = w.observe()
		for range c.Rounds {
			order := make([]int, 0, c.N)
			for len(order) < c.N {
				order = append(order, <-w.doneCh)
			}
			synctest.Wait()
			obs.After = append(obs.After, w.observe())
			obs.Order = append(obs.Order, order)
		}
		cancel()
		svcs[0].Stop()
		// drain completions of probes that were started after the script ended
		synctest.Wait()
	}
	runBubble(t, c.Proto == "udp", body)
	w.mu.Lock()
	obs.Mid = w.mid
	obs.Starts = w.starts
	if len(w.bad) > 0 && obs.Err == "" {
		obs.Err = "probe protocol: " + strings.Join(w.bad, "; ")
	}
	w.mu.Unlock()
	return obs
}

// ---------- engines "rr" and "random" ----------

type selObs struct {
	PerThread [][]int `json:"per_thread"`
	Err       string  `json:"err,omitempty"`
}

func runSelects(c Case) (obs selObs) {
	tg, ug, svcs, err := buildGroup(c, nil)
	if err != nil {
		obs.Err = "AddClientGroup: " + err.Error()
		return
	}
	if len(svcs) != 0 {
		obs.Err = "a probe service was registered for a " + c.Policy + " group"
		return
	}
	sel := func() int {
		if c.Proto == "udp" {
			return observeUDP(ug)
		}
		return observeTCP(tg, c.Via)
	}
	th := max(c.Threads, 1)
	obs.PerThread = make([][]int, th)
	if th == 1 {
		for range c.Selects {
			obs.PerThread[0] = append(obs.PerThread[0], sel())
		}
		return
	}
	var wg sync.WaitGroup
	start := make(chan struct{})
	for k := range th {
		share := c.Selects / th
		if k < c.Selects%th {
			share++
		}
		wg.Add(1)
		go func() {
			defer wg.Done()
			<-start
			for range share {
				obs.PerThread[k] = append(obs.PerThread[k], sel())
			}
		}()
	}
	close(start)
	wg.Wait()
	return
}

// ---------- evaluation ----------

type eng struct {
	t        *testing.T
	o        *common.Options
	rep      *common.Report
	drv      *common.Driver
	progress string
	idx      int
}
