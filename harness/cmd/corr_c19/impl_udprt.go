package main

import (
	"context"
	"fmt"
	"net"
	"net/netip"
	"sync"
	"time"

	"ssvharness/internal/common"
)

// Engine "udprt": the deadline path of the UDP probe (probe/udp.go waits on a REAL socket for an answer that
// never comes; only `context.AfterFunc(ctx, SetReadDeadline(long ago))` ends it). conn.ListenConfig.ListenUDP
// returns a *net.UDPConn, so the wait cannot be put on a channel, and a goroutine blocked on a socket keeps a
// synctest clock from advancing: this path can only run in real time. The engine uses real timeouts of 1-1.2 s,
// clients that answer at once / fail at once / stay silent, two rounds, and compares ONLY the group's choice
// after each round with the SET of choices the statement allows, given that the real latencies of the answering
// clients are noise (far below the timeout). No wall-clock duration is asserted: the probe's deadline is derived
// in job.Run BEFORE the session is created, so every instant the harness can see is later than the real start by
// an amount the scheduler decides. Timing anomalies (an answered probe that took more than half the timeout of
// real time, a round that does not end) make the case inconclusive and are reported as notes; a choice outside
// the allowed set is only reported if it reproduces on three independent runs of the case.

type probeDur struct {
	Round  int   `json:"round"`
	Client int   `json:"client"`
	Ns     int64 `json:"ns"`
}

var (
	blackholeOnce sync.Once
	blackholeAP   netip.AddrPort
)

func startBlackhole() {
	blackholeOnce.Do(func() {
		pc, err := net.ListenUDP("udp4", &net.UDPAddr{IP: net.IPv4(127, 0, 0, 1)})
		if err != nil {
			return
		}
		blackholeAP = pc.LocalAddr().(*net.UDPAddr).AddrPort()
		go func() {
			buf := make([]byte, 2048)
			for {
				if _, _, err := pc.ReadFromUDPAddrPort(buf); err != nil {
					return
				}
			}
		}()
	})
}

type rtObs struct {
	Initial      int        `json:"initial"`
	After        []int      `json:"after"`
	Allowed      [][]int    `json:"allowed"`
	Durations    []probeDur `json:"durations"`
	Inconclusive string     `json:"inconclusive,omitempty"`
	Attempts     int        `json:"attempts,omitempty"`
	Err          string     `json:"err,omitempty"`
}

func genUDPRT(r *common.Rng) Case {
	c := Case{Engine: "udprt", Proto: "udp"}
	c.Policy = common.Pick(r, []string{"availability", "latency", "min-max-latency"})
	c.N = r.Range(2, 3)
	c.TimeoutNs = int64(r.Range(1000, 1200)) * 1_000_000
	c.Concurrency = common.Pick(r, []int{0, 1, c.N})
	per := c.TimeoutNs
	if c.effConcurrency() < c.N {
		per = c.TimeoutNs * int64(c.N)
	}
	c.IntervalNs = per + 3_000_000_000
	R := 2
	for k := 0; k < R; k++ {
		row := make([]Act, c.N)
		for i := range row {
			switch r.Intn(4) {
			case 0, 1:
				row[i] = Act{OK: true}
			case 2:
				row[i] = Act{OK: false, Mode: 3} // silent: ends at the probe's deadline
			default:
				row[i] = Act{OK: false, Mode: 0} // session error at once
			}
		}
		if k == 0 && r.Bool() {
			row[0] = Act{OK: false, Mode: 3} // the first client is often the silent one: the group must move away from it
		}
		c.Rounds = append(c.Rounds, row)
	}
	return c
}

// allowedAfter: the choices the statement allows after round r, real latencies of answering clients being noise.
func allowedAfter(c Case, r int) []int {
	fails := make([]int, c.N)
	for k := 0; k <= r; k++ {
		for i, a := range c.Rounds[k] {
			if !a.OK {
				fails[i]++
			}
		}
	}
	minF := fails[0]
	for _, f := range fails {
		minF = min(minF, f)
	}
	var set []int
	switch c.Policy {
	case "availability": // exact: most successes, first on ties
		for i, f := range fails {
			if f == minF {
				return []int{i}
			}
		}
	case "latency":
		// sums are fails*timeout + noise: the fewest failures win; with no success at all the sums are exactly equal
		for i, f := range fails {
			if f == minF {
				set = append(set, i)
			}
		}
		if minF == r+1 {
			return set[:1]
		}
	case "min-max-latency":
		// worst = exactly the timeout with a failure, noise without
		for i, f := range fails {
			if f == 0 {
				set = append(set, i)
			}
		}
		if len(set) == 0 {
			return []int{0} // nobody is below the timeout: the first client
		}
	}
	return set
}

// runUDPRealtime runs the case; a choice outside the allowed set must reproduce on three independent runs
// (a defect of the code does, a scheduling hiccup of a loaded machine does not).
func runUDPRealtime(c Case) (obs rtObs) {
	for attempt := 0; attempt < 3; attempt++ {
		obs = runUDPRealtimeOnce(c)
		obs.Attempts = attempt + 1
		if obs.Err != "" || obs.Inconclusive != "" || obs.withinAllowed() {
			return obs
		}
	}
	return obs
}

func (o rtObs) withinAllowed() bool {
	if o.Initial != 0 {
		return false
	}
	for k, sel := range o.After {
		ok := false
		for _, a := range o.Allowed[k] {
			ok = ok || a == sel
		}
		if !ok {
			return false
		}
	}
	return true
}

func runUDPRealtimeOnce(c Case) (obs rtObs) {
	if _, err := startResponder(); err != nil {
		obs.Err = err.Error()
		return
	}
	startBlackhole()
	if !blackholeAP.IsValid() {
		obs.Err = "no blackhole socket"
		return
	}
	w := &world{c: c, T: time.Duration(c.effTimeout()), calls: make([]int, c.N+outsiders+200), realtime: true}
	w.doneCh = make(chan int, 16*c.N)
	ctx, cancel := context.WithCancel(context.Background())
	defer cancel()
	_, ug, svcs, err := buildGroup(c, w)
	if err != nil || len(svcs) != 1 {
		obs.Err = fmt.Sprintf("AddClientGroup: %v (%d services)", err, len(svcs))
		return
	}
	w.ugroup = ug
	obs.Initial = observeUDP(ug)
	if err := svcs[0].Start(ctx); err != nil {
		obs.Err = "Start: " + err.Error()
		return
	}
	T := time.Duration(c.effTimeout())
	for k := range c.Rounds {
		guard := time.After(time.Duration(c.effInterval())*2 + 60*time.Second)
		for got := 0; got < c.N; {
			select {
			case <-w.doneCh:
				got++
			case <-guard:
				obs.Inconclusive = fmt.Sprintf("round %d: only %d of %d probes ended within the guard time", k, got, c.N)
				return
			}
		}
		allowed := allowedAfter(c, k)
		obs.Allowed = append(obs.Allowed, allowed)
		in := func(x int) bool {
			for _, a := range allowed {
				if a == x {
					return true
				}
			}
			return false
		}
		sel := observeUDP(ug)
		for t0 := time.Now(); !in(sel) && time.Since(t0) < 2500*time.Millisecond; {
			time.Sleep(5 * time.Millisecond)
			sel = observeUDP(ug)
		}
		obs.After = append(obs.After, sel)
	}
	cancel()
	w.mu.Lock()
	obs.Durations = append([]probeDur(nil), w.durations...)
	w.mu.Unlock()
	for _, d := range obs.Durations {
		a := c.Rounds[d.Round][d.Client]
		if a.OK && time.Duration(d.Ns) > T/2 {
			obs.Inconclusive = fmt.Sprintf("round %d client %d: an answered probe took %v of real time (timeout %v)", d.Round, d.Client, time.Duration(d.Ns), T)
		}
	}
	return
}
