package main

import (
	"encoding/json"
	"fmt"
	"strconv"
	"strings"

	"ssvharness/internal/common"
)

// Act is the scripted behaviour of one client in one probe round.
//
// OK: the probe succeeds after exactly Lat nanoseconds (fake clock). Mode says where the delay sits:
// 0 = inside the dial / session creation, 1 = before the response is written, 2 = half and half.
// !OK: the probe fails. Mode: 0 = dial / session error after Lat ns, 1 = wrong HTTP status after Lat ns,
// 2 = connection closed without a response after Lat ns, 3 = silence until the probe's deadline.
// (UDP clients know failure mode 0 only; see impl_udp.go.)
type Act struct {
	OK   bool  `json:"ok"`
	Lat  int64 `json:"lat"`
	Mode int   `json:"mode,omitempty"`
}

type Case struct {
	Engine string `json:"engine"` // groups | rr | random
	Proto  string `json:"proto"`  // tcp | udp
	Policy string `json:"policy"` // availability | latency | min-max-latency | round-robin | random
	N      int    `json:"n"`

	// groups
	TimeoutNs   int64   `json:"timeout_ns,omitempty"`  // 0 = leave the field unset (documented default 5 s)
	IntervalNs  int64   `json:"interval_ns,omitempty"` // 0 = leave the field unset (documented default 30 s)
	Concurrency int     `json:"concurrency,omitempty"` // 0 = unset (documented default 32)
	Rounds      [][]Act `json:"rounds,omitempty"`
	// Excluded: some probes answer at or after the deadline (latency >= timeout), which the theorems exclude by
	// hypothesis; whether such a probe counts as a success is a race between the deadline and the answer, so only
	// member-only and unchanged-during-round are asserted and the model is not consulted.
	Excluded bool `json:"excluded,omitempty"`

	// rr / random
	Selects int `json:"selects,omitempty"`
	Threads int `json:"threads,omitempty"` // 0/1 = sequential
	Via     int `json:"via,omitempty"`     // which group method performs the selection (0 NewStreamDialer/NewSession, 1 DialStream)
}

func (c Case) sig() string {
	b, _ := json.Marshal(c)
	return string(b)
}

// documented defaults (field comments of ConnectivityProbeConfig), independent of the source constants
const (
	docDefaultTimeoutNs  = int64(5_000_000_000)
	docDefaultIntervalNs = int64(30_000_000_000)
)

func (c Case) effTimeout() int64 {
	if c.TimeoutNs <= 0 {
		return docDefaultTimeoutNs
	}
	return c.TimeoutNs
}

func (c Case) effInterval() int64 {
	if c.IntervalNs <= 0 {
		return docDefaultIntervalNs
	}
	return c.IntervalNs
}

var modelPolicy = map[string]string{"availability": "avail", "latency": "lat", "min-max-latency": "minmax"}

func outcomeTok(a Act) string {
	if !a.OK {
		return "f"
	}
	return strconv.FormatInt(a.Lat, 10)
}

// scriptTok: the client's behaviour relative to its probe's own start, for the model's timed round.
func scriptTok(a Act) string {
	switch {
	case a.OK:
		return strconv.FormatInt(a.Lat, 10)
	case a.Mode == 3:
		return "f"
	default:
		return "x" + strconv.FormatInt(a.Lat, 10)
	}
}

// effConcurrency: the documented meaning of the concurrency field (0 = default 32), capped by the group size.
func (c Case) effConcurrency() int {
	k := c.Concurrency
	if k <= 0 {
		k = 32
	}
	return min(k, c.N)
}

// ---------- the property oracle (from the statement) ----------

const (
	availRetention   = 64 // "the retained history": the last 64 rounds of success bits ...
	latencyRetention = 32 // ... and the last 32 latencies
)

// scoreOf computes, by brute force from the whole history, the figure the statement ranks clients by,
// for client i after rounds[0..r]. Larger is better for availability, smaller for the latency policies.
func scoreOf(policy string, rounds [][]Act, r, i int, timeout int64) int64 {
	switch policy {
	case "availability":
		var succ int64
		for k := max(0, r+1-availRetention); k <= r; k++ {
			if rounds[k][i].OK {
				succ++
			}
		}
		return succ
	case "latency":
		// average latency over the retained history, a failed probe counting as the timeout. The average is
		// taken at the clock's resolution (integer nanoseconds) over the fixed 32-round window; rounds that have
		// not happened yet contribute the same (nothing) to every client, so the ranking is that of the sums.
		var sum int64
		for k := max(0, r+1-latencyRetention); k <= r; k++ {
			if rounds[k][i].OK {
				sum += rounds[k][i].Lat
			} else {
				sum += timeout
			}
		}
		return sum / latencyRetention
	case "min-max-latency":
		var worst int64
		for k := max(0, r+1-latencyRetention); k <= r; k++ {
			l := timeout
			if rounds[k][i].OK {
				l = rounds[k][i].Lat
			}
			worst = max(worst, l)
		}
		return worst
	}
	panic("unknown policy " + policy)
}

// exactLatencySum is used only to report how often the nanosecond truncation of the mean decides a case.
func exactLatencySum(rounds [][]Act, r, i int, timeout int64) int64 {
	var sum int64
	for k := max(0, r+1-latencyRetention); k <= r; k++ {
		if rounds[k][i].OK {
			sum += rounds[k][i].Lat
		} else {
			sum += timeout
		}
	}
	return sum
}

// expectedSelection: the first client in configuration order with the best score. Also reports whether
// two different clients tie for the best score.
func expectedSelection(policy string, rounds [][]Act, r, n int, timeout int64) (first int, tie bool, scores []int64) {
	scores = make([]int64, n)
	for i := range n {
		scores[i] = scoreOf(policy, rounds, r, i, timeout)
	}
	best := scores[0]
	for _, s := range scores {
		if policy == "availability" {
			best = max(best, s)
		} else {
			best = min(best, s)
		}
	}
	first = -1
	cnt := 0
	for i, s := range scores {
		if s == best {
			if first < 0 {
				first = i
			}
			cnt++
		}
	}
	return first, cnt > 1, scores
}

// ---------- generator ----------

func genGroups(r *common.Rng, search bool) Case {
	c := Case{Engine: "groups", Proto: "tcp"}
	c.Policy = common.Pick(r, []string{"availability", "latency", "min-max-latency"})
	c.N = r.Range(1, 5)
	if r.Chance(1, 12) {
		c.N = 1
	}
	// timeout
	switch r.Intn(6) {
	case 0:
		c.TimeoutNs = 0 // default
	case 1:
		c.TimeoutNs = int64(r.Range(40, 400)) // tiny: sums below / around 32 ns (truncated-mean ties)
	case 2:
		c.TimeoutNs = 1_000_000
	case 3:
		c.TimeoutNs = 50_000_000
	case 4:
		c.TimeoutNs = int64(r.Range(1000, 100000))
	default:
		c.TimeoutNs = 2_000_000_000
	}
	T := c.effTimeout()
	// concurrency
	switch r.Intn(5) {
	case 0:
		c.Concurrency = 0
	case 1:
		c.Concurrency = 1
	case 2:
		c.Concurrency = c.N
	case 3:
		c.Concurrency = c.N + 3
	default:
		c.Concurrency = r.Range(1, c.N)
	}
	// interval: usually longer than the longest possible round, sometimes shorter (ticks are dropped)
	switch r.Intn(5) {
	case 0:
		c.IntervalNs = 0
	case 1:
		c.IntervalNs = T/2 + 1
	case 2:
		c.IntervalNs = 1
	default:
		c.IntervalNs = T*int64(c.N) + int64(r.Range(1, 1000))
	}
	// number of rounds: around the retention boundaries
	var R int
	switch r.Intn(8) {
	case 0:
		R = r.Range(1, 6)
	case 1, 2:
		R = r.Range(30, 36)
	case 3, 4:
		R = r.Range(62, 70)
	case 5:
		R = r.Range(95, 100)
	default:
		R = r.Range(7, 100)
	}
	if c.Policy != "availability" && r.Chance(1, 2) && R > 70 {
		R = r.Range(33, 70)
	}
	// latency alphabet of the case
	var alpha []int64
	switch r.Intn(5) {
	case 0: // two letters: sums tie often
		a := 1 + int64(r.U64()%uint64(max64(T-1, 1)))
		alpha = []int64{a, a}
		if r.Bool() {
			alpha = append(alpha, 1+int64(r.U64()%uint64(max64(T-1, 1))))
		}
	case 1: // fine: a base and neighbours a few ns away
		b := int64(r.U64() % uint64(max64(T-8, 1)))
		alpha = []int64{b, b + 1, b + 2, b + 5}
	case 2: // boundary values
		alpha = []int64{0, 1, T - 1, T / 2, T - 2}
	case 3: // coarse
		for k := int64(0); k < 8; k++ {
			alpha = append(alpha, k*T/8)
		}
	default:
		for k := 0; k < 6; k++ {
			alpha = append(alpha, int64(r.U64()%uint64(T)))
		}
	}
	for i := range alpha {
		if alpha[i] >= T {
			alpha[i] = T - 1
		}
		if alpha[i] < 0 {
			alpha[i] = 0
		}
	}
	// per-client profiles, with one regime change
	type prof struct{ failNum, failDen int }
	mk := func() prof {
		switch r.Intn(5) {
		case 0:
			return prof{0, 1}
		case 1:
			return prof{1, 1}
		case 2:
			return prof{1, 2}
		case 3:
			return prof{1, 8}
		default:
			return prof{7, 8}
		}
	}
	p1 := make([]prof, c.N)
	p2 := make([]prof, c.N)
	clone := make([]int, c.N) // clone[i] = j < i: copy client j's outcome; -1 = own
	for i := range c.N {
		p1[i], p2[i] = mk(), mk()
		if r.Bool() {
			p2[i] = p1[i]
		}
		clone[i] = -1
		if i > 0 && r.Chance(1, 3) {
			clone[i] = r.Intn(i)
		}
	}
	change := r.Range(0, R)
	cloneUntil := r.Range(0, R+R/2) // clones diverge after this round (or never)
	for k := 0; k < R; k++ {
		row := make([]Act, c.N)
		for i := range c.N {
			if clone[i] >= 0 && k < cloneUntil {
				row[i] = row[clone[i]]
				// same outcome and latency, possibly a different way of failing / place of the delay
				if r.Bool() {
					row[i].Mode = pickMode(r, row[i].OK)
				}
				continue
			}
			p := p1[i]
			if k >= change {
				p = p2[i]
			}
			ok := !r.Chance(p.failNum, p.failDen)
			a := Act{OK: ok, Mode: pickMode(r, ok)}
			if ok {
				a.Lat = common.Pick(r, alpha)
			} else if a.Mode != 3 {
				a.Lat = common.Pick(r, alpha) // the failure shows after this long (must not matter)
			}
			row[i] = a
		}
		c.Rounds = append(c.Rounds, row)
	}
	if r.Chance(1, 25) {
		c.Excluded = true
		c.IntervalNs = 2*T*int64(c.N) + 7
		for _, row := range c.Rounds {
			for i := range row {
				if row[i].OK && r.Chance(1, 3) {
					row[i].Lat = common.Pick(r, []int64{T, T + 1, 2 * T})
				}
			}
		}
	}
	normalize(&c)
	return c
}

// normalize: when the interval is not longer than the longest possible round, a tick can be pending at the
// end of a round and the next round starts at the same fake instant; every probe then takes at least 1 ns,
// so that the harness can look at the group between two rounds.
func normalize(c *Case) {
	if c.effInterval() > c.effTimeout()*int64(c.N) {
		return
	}
	for _, row := range c.Rounds {
		for i := range row {
			if row[i].Lat == 0 && (row[i].OK || row[i].Mode != 3) {
				row[i].Lat = 1
			}
		}
	}
}

func pickMode(r *common.Rng, ok bool) int {
	if ok {
		return r.Intn(3)
	}
	return r.Intn(4)
}

func max64(a, b int64) int64 {
	if a > b {
		return a
	}
	return b
}

func genRR(r *common.Rng) Case {
	c := Case{Engine: "rr", Policy: "round-robin", Proto: common.Pick(r, []string{"tcp", "udp"})}
	c.N = r.Range(1, 5)
	c.Via = 0
	if c.Proto == "tcp" {
		c.Via = r.Intn(2)
	}
	if r.Bool() {
		c.Threads = 1
		c.Selects = r.Range(1, 40)
	} else {
		c.Threads = r.Range(2, 8)
		c.Selects = r.Range(c.Threads, 600)
	}
	return c
}

func genRandom(r *common.Rng) Case {
	c := Case{Engine: "random", Policy: "random", Proto: common.Pick(r, []string{"tcp", "udp"})}
	c.N = r.Range(1, 5)
	if c.Proto == "tcp" {
		c.Via = r.Intn(2)
	}
	c.Threads = 1
	c.Selects = r.Range(1, 200)
	return c
}

// ---------- helpers for reports ----------

func shortCase(c Case) map[string]any {
	m := map[string]any{"engine": c.Engine, "proto": c.Proto, "policy": c.Policy, "n": c.N}
	if c.Engine == "groups" {
		m["timeout_ns"] = c.TimeoutNs
		m["interval_ns"] = c.IntervalNs
		m["concurrency"] = c.Concurrency
		m["rounds"] = len(c.Rounds)
		var sb strings.Builder
		for k, row := range c.Rounds {
			if k == 3 {
				sb.WriteString("...")
				break
			}
			sb.WriteString("[")
			for i, a := range row {
				if i > 0 {
					sb.WriteString(" ")
				}
				sb.WriteString(outcomeTok(a))
			}
			sb.WriteString("]")
		}
		m["first_rounds"] = sb.String()
	} else {
		m["selects"] = c.Selects
		m["threads"] = c.Threads
	}
	return m
}

func bucketRounds(n int) string {
	switch {
	case n <= 6:
		return "rounds<=6"
	case n <= 32:
		return "rounds<=32"
	case n <= 64:
		return "rounds<=64"
	default:
		return "rounds>64"
	}
}

func fmtScores(s []int64) string { return fmt.Sprint(s) }
