// corr_c19: correspondence + property oracle for C19 (client groups pick clients as their policy says).
//
// Engines (all through the exported clientgroups.ClientGroupConfig.AddClientGroup):
//   - "groups": availability / latency / min-max-latency groups of 1..5 scripted harness clients whose
//     probe outcome and latency are fixed per round; the real probe loop (ticker, workers, TCP HTTP-204
//     probe over netio pipes, UDP DNS probe over loopback) runs inside a testing/synctest bubble, so
//     latencies are exact fake-clock durations. Observed: the identity of the client the group hands
//     out before the first round, at several instants during every round, and after every round.
//   - "rr": round-robin groups: sequential selections, and concurrent selections (multiset).
//   - "random": random groups: member-only.
//
// Every case is evaluated three ways: the implementation, the executable Lean model (ssv_c19 driver),
// and the property oracle written from the statement (brute-force best-first over the retained history).
//
// The binary is an ordinary `go build` command; testing/synctest needs a *testing.T, which it gets by
// running the engine as the single test of testing.Main. Cases run in a child process (same binary):
// a fatal error inside a probe goroutine cannot be recovered in-process; the parent then reports the
// case that was running.
package main

import (
	"encoding/json"
	"fmt"
	"os"
	"os/exec"
	"strconv"
	"strings"
	"testing"

	"ssvharness/internal/common"
)

const progressEnv = "CORR_C19_PROGRESS"

func main() {
	o := common.ParseFlags()
	if os.Getenv(progressEnv) == "" {
		os.Exit(parent(o))
	}
	// child: run the engine as a test so that synctest bubbles are available
	testing.Init()
	testing.Main(func(pat, str string) (bool, error) { return true, nil },
		[]testing.InternalTest{{Name: "corr_c19", F: func(t *testing.T) {
			if code := engine(t, o); code != 0 {
				os.Exit(code)
			}
		}}}, nil, nil)
}

// parent re-executes itself as the child and turns a crash of the child into an oracle failure
// naming the case that was running.
func parent(o *common.Options) int {
	prog, err := os.CreateTemp("", "corr_c19_progress_*")
	if err != nil {
		fmt.Fprintln(os.Stderr, err)
		return 3
	}
	prog.Close()
	defer os.Remove(prog.Name())
	childOut := o.Out
	if childOut == "" || childOut == "-" {
		f, _ := os.CreateTemp("", "corr_c19_report_*")
		f.Close()
		childOut = f.Name()
		defer os.Remove(childOut)
	}
	os.Remove(childOut)
	args := []string{"--tier", o.Tier, "--seed", strconv.FormatUint(o.Seed, 10), "--out", childOut}
	if o.Driver != "" {
		args = append(args, "--driver", o.Driver)
	}
	if o.Replay != "" {
		args = append(args, "--replay", o.Replay)
	}
	if o.Search {
		args = append(args, "--search")
	}
	cmd := exec.Command(os.Args[0], args...)
	cmd.Env = append(os.Environ(), progressEnv+"="+prog.Name())
	var stderr tailBuf
	cmd.Stdout = &stderr // the test framework's own "PASS" line is of no interest
	cmd.Stderr = &stderr
	runErr := cmd.Run()
	if b, err := os.ReadFile(childOut); err == nil && json.Valid(b) {
		if runErr != nil {
			if o.Out == "" || o.Out == "-" {
				os.Stdout.Write(b)
			}
			os.Stderr.Write(stderr.b)
			if ee, ok := runErr.(*exec.ExitError); ok {
				return ee.ExitCode()
			}
			return 3
		}
		if o.Thorough() && o.Replay == "" && os.Getenv(onlyEnv) == "" && os.Getenv("CORR_C19_NORACE") == "" {
			racePass(o, childOut)
			if o.Out == "" || o.Out == "-" {
				if b, err := os.ReadFile(childOut); err == nil {
					os.Stdout.Write(b)
				}
			}
		} else if o.Out == "" || o.Out == "-" {
			os.Stdout.Write(b)
		}
		return 0
	}
	// the child died without a report
	if ee, ok := runErr.(*exec.ExitError); ok && ee.ExitCode() == 97 {
		// the harness's own watchdog (a lost loopback datagram): an engine problem, not an observation
		os.Stderr.Write(stderr.b)
		r := common.NewReport("C19", o)
		r.Note("engine error: UDP watchdog fired: %s", lastLines(string(stderr.b), 3))
		r.Write(o.Out)
		return 3
	}
	rep := common.NewReport("C19", o)
	rep.Engines = engineNames
	rep.Rule = ruleText
	var cur Case
	pb, _ := os.ReadFile(prog.Name())
	if err := json.Unmarshal(pb, &cur); err == nil && cur.Engine != "" {
		rep.Fail(common.OracleFailure{Engine: cur.Engine, Key: "crash:" + cur.Engine + ":" + cur.Proto + ":" + cur.Policy, Case: cur,
			Detail: "the process died while this case was running (a fatal error in the group's goroutines): " + lastLines(string(stderr.b), 12)})
		rep.Case(cur.sig(), true)
	} else {
		rep.Note("child exited without a report and without a running case: %v: %s", runErr, lastLines(string(stderr.b), 12))
		rep.Write(o.Out)
		return 3
	}
	if err := rep.Write(o.Out); err != nil {
		fmt.Fprintln(os.Stderr, err)
		return 3
	}
	return 0
}

type tailBuf struct{ b []byte }

func (t *tailBuf) Write(p []byte) (int, error) {
	t.b = append(t.b, p...)
	if len(t.b) > 1<<16 {
		t.b = t.b[len(t.b)-(1<<15):]
	}
	return len(p), nil
}

func lastLines(s string, n int) string {
	ls := strings.Split(strings.TrimSpace(s), "\n")
	// the panic message is at the top of a goroutine dump: keep the first lines that mention it
	for i, l := range ls {
		if strings.HasPrefix(l, "panic:") || strings.HasPrefix(l, "fatal error:") {
			end := min(i+n, len(ls))
			return strings.Join(ls[i:end], " | ")
		}
	}
	if len(ls) > n {
		ls = ls[len(ls)-n:]
	}
	return strings.Join(ls, " | ")
}

var engineNames = []string{"groups", "random", "rr", "udprt"}

const ruleText = "engine groups: scripted probe histories (success with a fake-clock latency / failure by dial error, bad status, close or silence until the deadline) " +
	"for availability, latency and min-max-latency groups of 1..5 TCP (netio pipe, inside a synctest bubble) or UDP (loopback DNS responder) clients, " +
	"1..100 rounds with lengths concentrated around the 32- and 64-round retention, tie-heavy latency alphabets, clone clients, regime changes, " +
	"default and explicit timeout/interval/concurrency; selection observed before the first round, during every round (at every probe start and end) and after every round; " +
	"a groups case is non-trivial if the selection changed at least once or at least one round had a tie for the best score between different clients; " +
	"engine rr: sequential and concurrent selections on round-robin groups of 1..5 (non-trivial if n>=2); engine random: member-only (non-trivial if n>=2); " +
	"engine udprt (real time, UDP only): groups of 2..4 with clients that answer at once / fail at once / stay silent until the probe's deadline (1-1.2 s), 2 rounds; no wall-clock assertion; the choice after each round is compared with the set the statement allows (real latencies of answering clients are noise); non-trivial if a silent probe occurred; " +
	"distinct by full case content"

func engine(t *testing.T, o *common.Options) int {
	rep := common.NewReport("C19", o)
	rep.Engines = engineNames
	rep.Rule = ruleText
	e := &eng{t: t, o: o, rep: rep, progress: os.Getenv(progressEnv)}
	var err error
	if o.Driver != "" {
		e.drv, err = common.StartDriver(o.Driver)
		if err != nil {
			fmt.Fprintln(os.Stderr, "corr_c19:", err)
			rep.Note("engine error: %v", err)
			rep.Write(o.Out)
			return 3
		}
		defer e.drv.Close()
	}
	if o.Replay != "" {
		var c Case
		if err = common.LoadReplay(o.Replay, &c); err == nil {
			err = e.evalCase(c)
		}
	} else {
		err = e.generateAndRun()
	}
	if err != nil {
		fmt.Fprintln(os.Stderr, "corr_c19:", err)
		rep.Note("engine error: %v", err)
		rep.Write(o.Out)
		return 3
	}
	if err := rep.Write(o.Out); err != nil {
		fmt.Fprintln(os.Stderr, err)
		return 3
	}
	return 0
}
