package main

import (
	"encoding/json"
	"fmt"
	"os"
	"sort"
	"strconv"
	"strings"

	"ssvharness/internal/common"
)

func (e *eng) markProgress(c Case) {
	if e.progress == "" {
		return
	}
	b, _ := json.Marshal(c)
	os.WriteFile(e.progress, b, 0o644)
}

func (e *eng) ask(lines []string) ([]string, error) {
	if e.drv == nil {
		return nil, nil
	}
	return e.drv.Batch(lines)
}

func (e *eng) evalCase(c Case) error {
	e.markProgress(c)
	switch c.Engine {
	case "groups":
		return e.evalGroups(c)
	case "rr":
		return e.evalRR(c)
	case "random":
		return e.evalRandom(c)
	case "udprt":
		e.reportUDPRT(c, runUDPRealtime(c))
		return nil
	}
	return fmt.Errorf("unknown engine %q", c.Engine)
}

func (e *eng) fail(c Case, key, detail string) {
	e.rep.Fail(common.OracleFailure{Engine: c.Engine, Key: key, Case: c, Detail: detail})
}

// ---------- groups ----------

func (e *eng) evalGroups(c Case) error {
	rep := e.rep
	obs := runGroups(e.t, c)
	n, T := c.N, c.effTimeout()
	pre := c.Proto + ":" + c.Policy + ":"
	rep.Count("groups:" + c.Proto + ":" + c.Policy)
	rep.Count("groups:n=" + strconv.Itoa(n))
	rep.Count("groups:" + bucketRounds(len(c.Rounds)))
	if c.effInterval() <= T*int64(n) {
		rep.Count("groups:interval-shorter-than-a-round")
	}
	if c.effConcurrency() < n {
		rep.Count("groups:concurrency<n(queued-probes)")
	}
	if obs.Err != "" {
		rep.Case(c.sig(), false)
		rep.Diverge(common.Divergence{Engine: "groups", Case: c, Impl: obs.Err, Model: "a group that runs", Note: "the harness could not drive the group"})
		return nil
	}

	// ---- the oracle, from the statement ----
	changed, ties, truncDecides := false, 0, 0
	member := func(id int) bool { return id >= 0 && id < n }
	if !member(obs.Initial) || !member(obs.Started) {
		e.fail(c, pre+"non-member", fmt.Sprintf("before the first round the group hands out client %d / %d (members are 0..%d)", obs.Initial, obs.Started, n-1))
	} else if obs.Initial != obs.Started {
		e.fail(c, pre+"changed-outside-round", fmt.Sprintf("selection changed from %d to %d although no probe round has run", obs.Initial, obs.Started))
	}
	if c.Excluded {
		rep.Count("groups:excluded-points(latency>=timeout)")
		prev := obs.Started
		for k := range c.Rounds {
			for _, m := range obs.Mid {
				if m.At != "start" {
					continue // a late answer may be written after the probe gave up and the round ended
				}
				if m.Round == k && member(m.Sel) && m.Sel != prev {
					e.fail(c, pre+"changed-during-round", fmt.Sprintf("round %d: the group hands out client %d during the round, before it was %d", k, m.Sel, prev))
				}
				if m.Round == k && !member(m.Sel) {
					e.fail(c, pre+"non-member", fmt.Sprintf("during round %d the group hands out client %d", k, m.Sel))
				}
			}
			if !member(obs.After[k]) {
				e.fail(c, pre+"non-member", fmt.Sprintf("after round %d the group hands out client %d", k, obs.After[k]))
			}
			prev = obs.After[k]
		}
		rep.Case(c.sig(), false)
		rep.TracesValidated++
		return nil
	}
	prev := obs.Started
	exp := make([]int, len(c.Rounds))
	midByRound := map[int][]midObs{}
	for _, m := range obs.Mid {
		midByRound[m.Round] = append(midByRound[m.Round], m)
	}
	reported := map[string]bool{}
	once := func(key, detail string) {
		if !reported[key] {
			reported[key] = true
			e.fail(c, key, detail)
		}
	}
	for k := range c.Rounds {
		for _, m := range midByRound[k] {
			if !member(m.Sel) {
				once(pre+"non-member", fmt.Sprintf("during round %d the group hands out client %d", k, m.Sel))
			} else if m.Sel != prev {
				once(pre+"changed-during-round", fmt.Sprintf("round %d, while the probe of client %d was at %q: the group hands out client %d, before the round it was %d", k, m.Client, m.At, m.Sel, prev))
			}
		}
		first, tie, scores := expectedSelection(c.Policy, c.Rounds, k, n, T)
		exp[k] = first
		if tie {
			ties++
		}
		if c.Policy == "latency" {
			// does the nanosecond truncation of the mean decide this round?
			bestSum, arg := int64(-1), -1
			for i := range n {
				s := exactLatencySum(c.Rounds, k, i, T)
				if arg < 0 || s < bestSum {
					bestSum, arg = s, i
				}
			}
			if arg != first {
				truncDecides++
			}
		}
		got := obs.After[k]
		switch {
		case !member(got):
			once(pre+"non-member", fmt.Sprintf("after round %d the group hands out client %d", k, got))
		case got != first && scores[got] == scores[first]:
			once(pre+"tie-not-first", fmt.Sprintf("after round %d the group hands out client %d; client %d comes first in configuration order and has the same score (scores %s, retained history ends at round %d)", k, got, first, fmtScores(scores), k))
		case got != first:
			key := pre + "not-best"
			if k >= retentionOf(c.Policy) {
				key += ":history-longer-than-retention"
			}
			once(key, fmt.Sprintf("after round %d the group hands out client %d; the first client with the best score over the retained history is %d (scores %s)", k, got, first, fmtScores(scores)))
		}
		if got != prev {
			changed = true
		}
		prev = got
	}
	rep.Case(c.sig(), changed || ties > 0)
	if ties > 0 {
		rep.Count("groups:cases-with-ties")
	}
	if changed {
		rep.Count("groups:cases-with-selection-change")
	}
	if truncDecides > 0 {
		rep.Count("groups:latency-ns-truncation-decides")
	}
	rep.Sample(map[string]any{"case": shortCase(c), "after": obs.After})

	// ---- the model ----
	if e.drv != nil {
		smallStep := len(c.Rounds)%2 == 1 // odd histories: job-by-job in the observed completion order; even: big-step rounds
		lines := []string{fmt.Sprintf("new %s %d %d", modelPolicy[c.Policy], n, T)}
		type ref struct{ round, kind int } // kind: 0 = after round, 1 = job step (selection must stay)
		refs := []ref{{-1, 0}}
		for k, row := range c.Rounds {
			if smallStep {
				for _, i := range obs.Order[k] {
					lines = append(lines, fmt.Sprintf("job %d %s", i, outcomeTok(row[i])))
					refs = append(refs, ref{k, 1})
				}
				lines = append(lines, "finish")
				refs = append(refs, ref{k, 0})
			} else {
				// the whole round on the clock: worker pool of the effective concurrency, per-probe deadlines
				toks := make([]string, n)
				for i, a := range row {
					toks[i] = scriptTok(a)
				}
				lines = append(lines, fmt.Sprintf("tround %d %s", c.effConcurrency(), strings.Join(toks, " ")))
				refs = append(refs, ref{k, 2})
			}
		}
		out, err := e.ask(lines)
		if err != nil {
			return err
		}
		var modelAfter []int
		bad := ""
		for j, r := range refs {
			ans := out[j]
			if r.kind == 2 {
				// "<sel> <start_0,...>": compare the instants at which the probes started (relative to the first one)
				selTok, startsTok, _ := strings.Cut(ans, " ")
				ans = selTok
				first := obs.Starts[r.round][0]
				for _, s := range obs.Starts[r.round] {
					first = min(first, s)
				}
				impl := make([]string, n)
				for i, s := range obs.Starts[r.round] {
					impl[i] = strconv.FormatInt(s-first, 10)
				}
				if got := strings.Join(impl, ","); got != startsTok && bad == "" {
					bad = fmt.Sprintf("round %d: probes started at +[%s] ns, the model's dispatch (c=%d) starts them at +[%s]", r.round, got, c.effConcurrency(), startsTok)
				}
				r.kind = 0
				rep.Count("groups:rounds-with-probe-start-times-compared")
			}
			v, err := strconv.Atoi(ans)
			if err != nil {
				return fmt.Errorf("driver answered %q to %q", out[j], lines[j])
			}
			switch {
			case r.round < 0:
				if v != obs.Initial && bad == "" {
					bad = fmt.Sprintf("initial selection: impl %d model %d", obs.Initial, v)
				}
			case r.kind == 1:
				// the implementation's view during round k is in obs.Mid; the model must not move either
				want := obs.Started
				if r.round > 0 {
					want = obs.After[r.round-1]
				}
				if v != want && bad == "" {
					bad = fmt.Sprintf("round %d, during the round: impl serves %d, model %d", r.round, want, v)
				}
			default:
				modelAfter = append(modelAfter, v)
				if v != obs.After[r.round] && bad == "" {
					bad = fmt.Sprintf("after round %d: impl %d model %d", r.round, obs.After[r.round], v)
				}
			}
		}
		if bad != "" {
			rep.Diverge(common.Divergence{Engine: "groups", Case: c, Impl: obs.After, Model: modelAfter, Note: bad})
		}
	}
	rep.TracesValidated++
	return nil
}

func retentionOf(policy string) int {
	if policy == "availability" {
		return availRetention
	}
	return latencyRetention
}

// ---------- round-robin ----------

func (e *eng) evalRR(c Case) error {
	rep := e.rep
	obs := runSelects(c)
	n := c.N
	rep.Count("rr:" + c.Proto)
	rep.Count("rr:n=" + strconv.Itoa(n))
	if c.Threads > 1 {
		rep.Count("rr:concurrent")
	} else {
		rep.Count("rr:sequential")
	}
	rep.Case(c.sig(), n >= 2)
	if obs.Err != "" {
		rep.Diverge(common.Divergence{Engine: "rr", Case: c, Impl: obs.Err, Model: "a group that runs"})
		return nil
	}
	pre := "rr:" + c.Proto + ":"
	var all []int
	for _, p := range obs.PerThread {
		all = append(all, p...)
	}
	if len(all) != c.Selects {
		return fmt.Errorf("rr: %d selections recorded, %d requested", len(all), c.Selects)
	}
	counts := make([]int, n)
	for _, id := range all {
		if id < 0 || id >= n {
			e.fail(c, pre+"non-member", fmt.Sprintf("the group handed out client %d (members are 0..%d)", id, n-1))
			return nil
		}
		counts[id]++
	}
	if c.Threads <= 1 {
		for k, id := range all {
			if id != k%n {
				e.fail(c, pre+"not-cyclic", fmt.Sprintf("selection %d is client %d, cyclic configuration order gives %d (sequence %v)", k, id, k%n, all[:min(len(all), 12)]))
				break
			}
		}
	} else {
		for i := range n {
			want := c.Selects / n
			if i < c.Selects%n {
				want++
			}
			if counts[i] != want {
				e.fail(c, pre+"concurrent-multiset", fmt.Sprintf("%d concurrent selections by %d threads: client %d was handed out %d times, %d expected (counts %v)", c.Selects, c.Threads, i, counts[i], want, counts))
				break
			}
		}
	}
	if e.drv != nil {
		lines := []string{"rrnew"}
		for range c.Selects {
			lines = append(lines, "rr "+strconv.Itoa(n))
		}
		out, err := e.ask(lines)
		if err != nil {
			return err
		}
		model := make([]int, 0, c.Selects)
		for _, s := range out[1:] {
			v, err := strconv.Atoi(s)
			if err != nil {
				return fmt.Errorf("driver answered %q to rr", s)
			}
			model = append(model, v)
		}
		impl := append([]int(nil), all...)
		if c.Threads > 1 {
			sort.Ints(impl)
			sort.Ints(model)
		}
		if fmt.Sprint(impl) != fmt.Sprint(model) {
			rep.Diverge(common.Divergence{Engine: "rr", Case: c, Impl: impl, Model: model})
		}
	}
	rep.Sample(map[string]any{"case": shortCase(c), "first": all[:min(len(all), 10)]})
	rep.TracesValidated++
	return nil
}

// ---------- random ----------

func (e *eng) evalRandom(c Case) error {
	rep := e.rep
	obs := runSelects(c)
	rep.Count("random:" + c.Proto)
	rep.Case(c.sig(), c.N >= 2)
	if obs.Err != "" {
		rep.Diverge(common.Divergence{Engine: "random", Case: c, Impl: obs.Err, Model: "a group that runs"})
		return nil
	}
	for _, id := range obs.PerThread[0] {
		if id < 0 || id >= c.N {
			e.fail(c, "random:"+c.Proto+":non-member", fmt.Sprintf("the group handed out client %d (members are 0..%d)", id, c.N-1))
			break
		}
	}
	rep.TracesValidated++
	return nil
}

// ---------- UDP deadline path, real time ----------

func (e *eng) reportUDPRT(c Case, obs rtObs) {
	rep := e.rep
	rep.Count("udprt:" + c.Policy)
	pre := "udp-deadline:" + c.Policy + ":"
	if obs.Err != "" {
		rep.Case(c.sig(), false)
		rep.Diverge(common.Divergence{Engine: "udprt", Case: c, Impl: obs.Err, Model: "a group that runs"})
		return
	}
	if obs.Inconclusive != "" {
		// a timing anomaly of the machine, not an observation about the code
		rep.Count("udprt:inconclusive(timing)")
		rep.Note("udprt: case inconclusive, nothing asserted: %s", obs.Inconclusive)
		rep.Case(c.sig(), false)
		return
	}
	silent := 0
	for _, row := range c.Rounds {
		for _, a := range row {
			if !a.OK && a.Mode == 3 {
				silent++
			}
		}
	}
	if silent > 0 {
		rep.Count("udprt:cases-with-silent-probes")
	}
	if obs.Attempts > 1 {
		rep.Count("udprt:cases-repeated")
	}
	rep.Case(c.sig(), silent > 0)
	if obs.Initial != 0 {
		e.fail(c, pre+"initial", fmt.Sprintf("before the first round the group hands out client %d", obs.Initial))
	}
	for k, sel := range obs.After {
		ok := false
		for _, a := range obs.Allowed[k] {
			ok = ok || a == sel
		}
		if sel < 0 || sel >= c.N {
			e.fail(c, pre+"non-member", fmt.Sprintf("after round %d the group hands out client %d", k, sel))
		} else if !ok {
			e.fail(c, pre+"not-best", fmt.Sprintf("after round %d (a silent client's probe ends at its deadline and counts as a failure / the timeout) the group hands out client %d; the statement allows %v (reproduced on %d independent runs)", k, sel, obs.Allowed[k], obs.Attempts))
			break
		}
	}
	// the model on the same history: its choice must be among the allowed ones too (answering clients get latency 0)
	if e.drv != nil {
		lines := []string{fmt.Sprintf("new %s %d %d", modelPolicy[c.Policy], c.N, c.effTimeout())}
		for _, row := range c.Rounds {
			toks := make([]string, c.N)
			for i, a := range row {
				toks[i] = scriptTok(a)
				if !a.OK && a.Mode == 0 {
					toks[i] = "x0"
				}
			}
			lines = append(lines, fmt.Sprintf("tround %d %s", c.effConcurrency(), strings.Join(toks, " ")))
		}
		if out, err := e.ask(lines); err == nil {
			for k := range c.Rounds {
				selTok, _, _ := strings.Cut(out[k+1], " ")
				v, _ := strconv.Atoi(selTok)
				ok := false
				for _, a := range obs.Allowed[k] {
					ok = ok || a == v
				}
				if !ok {
					rep.Diverge(common.Divergence{Engine: "udprt", Case: c, Impl: obs.After, Model: out[1:], Note: fmt.Sprintf("after round %d the model serves %d, allowed %v", k, v, obs.Allowed[k])})
					break
				}
			}
		}
	}
	rep.Sample(map[string]any{"case": shortCase(c), "after": obs.After, "allowed": obs.Allowed})
	rep.TracesValidated++
}

// ---------- budgets ----------

func (e *eng) generateAndRun() error {
	o := e.o
	r := common.NewRng(o.Seed)
	nGroups := o.Budget(700, 10000)
	nUDP := o.Budget(60, 1000)
	nRR := o.Budget(300, 6000)
	nRandom := o.Budget(60, 600)
	idx := uint64(0)
	next := func() *common.Rng { idx++; return r.Fork(idx) }
	// the real-time UDP cases run beside the fake-clock engines (they mostly sleep) and are reported at the end
	nRT := o.Budget(3, 24)
	if os.Getenv(onlyEnv) == "race" {
		nRT = 4
	}
	type rtRes struct {
		c   Case
		obs rtObs
	}
	rtCh := make(chan rtRes, nRT)
	go func() {
		sem := make(chan struct{}, 10)
		for i := 0; i < nRT; i++ {
			c := genUDPRT(r.Fork(uint64(1)<<40 + uint64(i)))
			sem <- struct{}{}
			go func() {
				rtCh <- rtRes{c, runUDPRealtime(c)}
				<-sem
			}()
		}
	}()
	defer func() {
		for i := 0; i < nRT; i++ {
			x := <-rtCh
			e.reportUDPRT(x.c, x.obs)
		}
	}()
	if os.Getenv(onlyEnv) == "race" {
		// the race-instrumented pass: heavy concurrent round-robin, a slice of everything else
		idx = 1 << 32
		for i := 0; i < 400; i++ {
			c := genRR(next())
			c.Threads = 4 + i%13
			c.Selects = c.Threads * (20 + i%80)
			if err := e.evalCase(c); err != nil {
				return err
			}
		}
		for i := 0; i < 150; i++ {
			c := genGroups(next(), false)
			if i%5 == 0 {
				toUDP(&c)
			}
			if err := e.evalCase(c); err != nil {
				return err
			}
		}
		for i := 0; i < 40; i++ {
			if err := e.evalCase(genRandom(next())); err != nil {
				return err
			}
		}
		return nil
	}
	for i := 0; i < nGroups; i++ {
		if err := e.evalCase(genGroups(next(), o.Search)); err != nil {
			return err
		}
	}
	for i := 0; i < nUDP; i++ {
		c := genGroups(next(), o.Search)
		toUDP(&c)
		if err := e.evalCase(c); err != nil {
			return err
		}
	}
	for i := 0; i < nRR; i++ {
		if err := e.evalCase(genRR(next())); err != nil {
			return err
		}
	}
	for i := 0; i < nRandom; i++ {
		if err := e.evalCase(genRandom(next())); err != nil {
			return err
		}
	}
	d := e.rep.Distribution
	e.rep.Note("excluded points: %d group cases had probes answering at or after the deadline (latency >= timeout, outside the theorems' hypothesis); on these the implementation is only required to hand out members and not to switch during a round (a breach would be listed as an oracle failure)", d["groups:excluded-points(latency>=timeout)"])
	e.rep.Note("mean latency is ranked at nanosecond resolution over the fixed 32-round window (as the code computes it); in %d cases two clients' exact sums differed but their truncated means tied, and the first in configuration order was expected and served", d["groups:latency-ns-truncation-decides"])
	e.rep.Note("the round-robin counter cannot be brought near 2^63 through the exported API; the wrap is covered by the Lean theorems rr_counter_wrap / rr_wrap_witness only")
	return nil
}

// toUDP turns a generated TCP history into one a UDP group can play: every failure is a session error.
func toUDP(c *Case) {
	c.Proto = "udp"
	for _, row := range c.Rounds {
		for i := range row {
			row[i].Mode = 0
		}
	}
	if len(c.Rounds) > 70 {
		c.Rounds = c.Rounds[:70]
	}
	normalize(c)
}
