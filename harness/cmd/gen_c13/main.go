// gen_c13: regenerates lean/SSV/Gen/C13.lean from /repo.
//
// Facts extracted (every extractor aborts with GEN-BROKEN on a statement shape it does not recognise):
//   - the two defaults of service/tcp.go (wait timeout in ns, wait buffer size) and that Configure falls back to them;
//   - the listener flag `waitForInitialPayload` as a conjunction of atoms (service/server.go Configure);
//   - the step program of (*TCPRelay).handleConn: the ORDER of its key calls, the atoms of the wait condition,
//     the step program of the wait block, which read outcomes continue, the guards around Abort/Proceed,
//     the arguments of DialStream / BidirectionalCopy / CollectTCPSession, the counter the payload length is added to;
//   - the two copy loops of netio.BidirectionalCopy (dst, src, CloseWrite receiver, counter, join before return);
//   - the NativeInitialPayload flag of every stream server / stream client the service can configure.
package main

import (
	"fmt"
	"go/ast"
	"go/parser"
	"go/printer"
	"go/token"
	"os"
	"path/filepath"
	"regexp"
	"strconv"
	"strings"

	"ssvharness/internal/gen"
)

// pkg: the non-test files of one directory, parsed only. Everything gen_c13 extracts is syntactic (statement shapes,
// literals, two constant expressions), so the packages are NOT type-checked: type-checking `service` from source pulls in
// the whole dependency graph (minutes of CPU on a loaded machine).
type pkg struct {
	dir   string
	fset  *token.FileSet
	files []*ast.File
}

func loadDir(repo, dir string) (*pkg, error) {
	p := &pkg{dir: dir, fset: token.NewFileSet()}
	ents, err := os.ReadDir(filepath.Join(repo, dir))
	if err != nil {
		return nil, err
	}
	for _, e := range ents {
		n := e.Name()
		if !strings.HasSuffix(n, ".go") || strings.HasSuffix(n, "_test.go") {
			continue
		}
		f, err := parser.ParseFile(p.fset, filepath.Join(repo, dir, n), nil, parser.ParseComments|parser.SkipObjectResolution)
		if err != nil {
			return nil, err
		}
		p.files = append(p.files, f)
	}
	return p, nil
}

// Src prints a node as one line of canonical source text.
func (p *pkg) Src(n ast.Node) string {
	var sb strings.Builder
	printer.Fprint(&sb, p.fset, n)
	return strings.Join(strings.Fields(sb.String()), " ")
}

// Func finds the unique declaration of recv.name ("" = plain function).
func (p *pkg) Func(recv, name string) (*ast.FuncDecl, error) {
	var found []*ast.FuncDecl
	for _, f := range p.files {
		for _, d := range f.Decls {
			fd, ok := d.(*ast.FuncDecl)
			if !ok || fd.Name.Name != name {
				continue
			}
			if recv == "" && fd.Recv == nil {
				found = append(found, fd)
			}
			if recv != "" && fd.Recv != nil && len(fd.Recv.List) == 1 && p.Src(fd.Recv.List[0].Type) == recv {
				found = append(found, fd)
			}
		}
	}
	if len(found) != 1 {
		return nil, fmt.Errorf("%s: %d declarations of %s.%s", p.dir, len(found), recv, name)
	}
	return found[0], nil
}

// constNat evaluates a package-level constant whose value is an integer literal or `<int> * time.<Unit>` (nanoseconds).
func (p *pkg) constNat(name string) (string, error) {
	units := map[string]uint64{"Nanosecond": 1, "Microsecond": 1e3, "Millisecond": 1e6, "Second": 1e9, "Minute": 60e9, "Hour": 3600e9}
	for _, f := range p.files {
		for _, d := range f.Decls {
			gd, ok := d.(*ast.GenDecl)
			if !ok || gd.Tok != token.CONST {
				continue
			}
			for _, sp := range gd.Specs {
				vs := sp.(*ast.ValueSpec)
				for i, id := range vs.Names {
					if id.Name != name {
						continue
					}
					if vs.Type != nil || i >= len(vs.Values) {
						return "", fmt.Errorf("%s.%s: unrecognised constant declaration %s", p.dir, name, p.Src(vs))
					}
					switch v := vs.Values[i].(type) {
					case *ast.BasicLit:
						if v.Kind == token.INT {
							n, err := strconv.ParseUint(strings.ReplaceAll(v.Value, "_", ""), 0, 64)
							if err == nil {
								return strconv.FormatUint(n, 10), nil
							}
						}
					case *ast.BinaryExpr:
						lit, ok1 := v.X.(*ast.BasicLit)
						sel, ok2 := v.Y.(*ast.SelectorExpr)
						if v.Op == token.MUL && ok1 && ok2 && lit.Kind == token.INT && p.Src(sel.X) == "time" {
							if u, ok := units[sel.Sel.Name]; ok {
								n, err := strconv.ParseUint(strings.ReplaceAll(lit.Value, "_", ""), 0, 32)
								if err == nil {
									return strconv.FormatUint(n*u, 10), nil
								}
							}
						}
					}
					return "", fmt.Errorf("%s.%s: unrecognised constant expression %s", p.dir, name, p.Src(vs.Values[i]))
				}
			}
		}
	}
	return "", fmt.Errorf("%s.%s: no such constant", p.dir, name)
}

type ext struct {
	p *pkg
}

func (e ext) src(n ast.Node) string { return e.p.Src(n) }

// isLog reports whether the statement only logs (logger.X(...) or `if ce := logger.Check(...); ce != nil { ce.Write(...) }`).
func (e ext) isLog(st ast.Stmt) bool {
	s := e.src(st)
	if regexp.MustCompile(`^(lnc\.)?logger\.(Debug|Info|Warn|Error)\(`).MatchString(s) {
		return onlyLogCalls(st)
	}
	if strings.HasPrefix(s, "if ce := logger.Check(") {
		return onlyLogCalls(st)
	}
	return false
}

// onlyLogCalls: every call inside n is a logger / zap / ce call (no side effect on the connections).
func onlyLogCalls(n ast.Node) bool {
	ok := true
	ast.Inspect(n, func(x ast.Node) bool {
		c, isCall := x.(*ast.CallExpr)
		if !isCall {
			return true
		}
		switch f := c.Fun.(type) {
		case *ast.SelectorExpr:
			if id, isId := f.X.(*ast.Ident); isId {
				switch id.Name {
				case "logger", "zap", "ce":
					return true
				}
			}
			if sel, isSel := f.X.(*ast.SelectorExpr); isSel && sel.Sel.Name == "logger" {
				return true
			}
		case *ast.Ident:
			if f.Name == "len" {
				return true
			}
		}
		ok = false
		return false
	})
	return ok
}

// errBranch analyses `if err != nil { ... }` that follows a call: it must end in `return`; apart from logging it may
// contain an Abort of the pending connection (possibly guarded by `clientConn == nil`).
type errBranch struct {
	aborts      bool
	guarded     bool   // the Abort is inside `if clientConn == nil { ... }`
	resultFrom  string // "router.DialResultFromError" | "conn.DialResultFromError"
	returnsLast bool
}

func (e ext) parseErrBranch(st ast.Stmt, what string) (errBranch, error) {
	var eb errBranch
	ifs, ok := st.(*ast.IfStmt)
	if !ok || ifs.Init != nil || e.src(ifs.Cond) != "err != nil" || ifs.Else != nil {
		return eb, fmt.Errorf("%s: expected `if err != nil {…}` after the call, found: %s", what, e.src(st))
	}
	return e.parseErrBody(ifs.Body.List, what, false)
}

var abortRe = regexp.MustCompile(`^if err = req\.Abort\(dialResult\); err != nil \{`)

func (e ext) parseErrBody(list []ast.Stmt, what string, nested bool) (errBranch, error) {
	var eb errBranch
	for i, st := range list {
		s := e.src(st)
		switch {
		case e.isLog(st):
		case s == "return":
			if i != len(list)-1 {
				return eb, fmt.Errorf("%s: return is not the last statement of the error branch", what)
			}
			eb.returnsLast = true
		case s == "dialResult := router.DialResultFromError(err)":
			eb.resultFrom = "router.DialResultFromError"
		case s == "dialResult := conn.DialResultFromError(err)":
			eb.resultFrom = "conn.DialResultFromError"
		case abortRe.MatchString(s):
			ifs := st.(*ast.IfStmt)
			for _, b := range ifs.Body.List {
				if !e.isLog(b) {
					return eb, fmt.Errorf("%s: unrecognised statement in the Abort error branch: %s", what, e.src(b))
				}
			}
			eb.aborts = true
		case strings.HasPrefix(s, "if clientConn == nil {") && !nested:
			ifs := st.(*ast.IfStmt)
			if ifs.Init != nil || ifs.Else != nil || e.src(ifs.Cond) != "clientConn == nil" {
				return eb, fmt.Errorf("%s: unrecognised guard: %s", what, s)
			}
			in, err := e.parseErrBody(ifs.Body.List, what, true)
			if err != nil {
				return eb, err
			}
			if in.returnsLast {
				return eb, fmt.Errorf("%s: return inside the `clientConn == nil` guard", what)
			}
			eb.aborts, eb.guarded, eb.resultFrom = in.aborts, in.aborts, in.resultFrom
		default:
			return eb, fmt.Errorf("%s: unrecognised statement in the error branch: %s", what, s)
		}
	}
	if !nested && !eb.returnsLast {
		return eb, fmt.Errorf("%s: the error branch does not end in return", what)
	}
	if eb.aborts && eb.resultFrom == "" {
		return eb, fmt.Errorf("%s: Abort without a recognised dial result", what)
	}
	return eb, nil
}

// conj splits a condition into the operands of its top-level && chain.
func conj(x ast.Expr) []ast.Expr {
	if p, ok := x.(*ast.ParenExpr); ok {
		return conj(p.X)
	}
	if b, ok := x.(*ast.BinaryExpr); ok && b.Op == token.LAND {
		return append(conj(b.X), conj(b.Y)...)
	}
	return []ast.Expr{x}
}

func (e ext) atoms(x ast.Expr, table map[string]string, what string) ([]string, error) {
	var res []string
	for _, a := range conj(x) {
		s := e.src(a)
		n, ok := table[s]
		if !ok {
			return nil, fmt.Errorf("%s: unrecognised conjunct %q in %q", what, s, e.src(x))
		}
		res = append(res, "."+n)
	}
	return res, nil
}

var waitAtoms = map[string]string{
	"len(req.Payload) == 0":            "payloadEmpty",
	"clientInfo.NativeInitialPayload":  "clientNative",
	"lnc.waitForInitialPayload":        "listenerWait",
	"!clientInfo.NativeInitialPayload": "clientNotNative",
	"!lnc.waitForInitialPayload":       "listenerNoWait",
	"len(req.Payload) != 0":            "payloadNonEmpty",
	"len(req.Payload) > 0":             "payloadNonEmpty",
}

var flagAtoms = map[string]string{
	"!serverNativeInitialPayload":    "serverNotNative",
	"!lnc.DisableInitialPayloadWait": "waitNotDisabled",
	"serverNativeInitialPayload":     "serverNative",
	"lnc.DisableInitialPayloadWait":  "waitDisabled",
}

// waitBlock parses the body of the wait `if`.
func (e ext) waitBlock(list []ast.Stmt) (steps []string, cont []string, err error) {
	i := 0
	next := func() ast.Stmt {
		if i < len(list) {
			i++
			return list[i-1]
		}
		return nil
	}
	for i < len(list) {
		st := next()
		s := e.src(st)
		switch {
		case e.isLog(st):
		case s == "clientConn, err = req.PendingConn.Proceed()":
			eb, err := e.parseErrBranch(next(), "wait block Proceed")
			if err != nil {
				return nil, nil, err
			}
			if eb.aborts {
				return nil, nil, fmt.Errorf("wait block: Abort after a failed Proceed")
			}
			steps = append(steps, ".proceed")
		case s == "req.Payload = make([]byte, lnc.initialPayloadWaitBufferSize)":
			steps = append(steps, ".allocBuf")
		case strings.HasPrefix(s, "if err = clientConn.SetReadDeadline(time.Now().Add(lnc.initialPayloadWaitTimeout)); err != nil {"):
			if err := e.initIfReturns(st, "wait block SetReadDeadline"); err != nil {
				return nil, nil, err
			}
			steps = append(steps, ".setDeadline")
		case s == "payloadLength, err := clientConn.Read(req.Payload)":
			steps = append(steps, ".read")
		case strings.HasPrefix(s, "switch {"):
			sw := st.(*ast.SwitchStmt)
			if sw.Init != nil || sw.Tag != nil {
				return nil, nil, fmt.Errorf("wait block: unrecognised switch: %s", s)
			}
			kinds := map[string]string{"err == nil": "data", "err == io.EOF": "eof", "errors.Is(err, os.ErrDeadlineExceeded)": "timeout"}
			sawDefault := false
			for _, c := range sw.Body.List {
				cc := c.(*ast.CaseClause)
				returns := false
				for j, b := range cc.Body {
					if e.src(b) == "return" && j == len(cc.Body)-1 {
						returns = true
					} else if !e.isLog(b) {
						return nil, nil, fmt.Errorf("wait block: unrecognised statement in a read-outcome case: %s", e.src(b))
					}
				}
				if cc.List == nil {
					sawDefault = true
					if !returns {
						cont = append(cont, ".error")
					}
					continue
				}
				if len(cc.List) != 1 {
					return nil, nil, fmt.Errorf("wait block: unrecognised case list: %s", e.src(cc))
				}
				k, ok := kinds[e.src(cc.List[0])]
				if !ok {
					return nil, nil, fmt.Errorf("wait block: unrecognised read-outcome case %q", e.src(cc.List[0]))
				}
				delete(kinds, e.src(cc.List[0]))
				if !returns {
					cont = append(cont, "."+k)
				}
			}
			if !sawDefault {
				return nil, nil, fmt.Errorf("wait block: read-outcome switch without default")
			}
			// a kind that has no case of its own falls into default
			steps = append(steps, ".classify")
		case s == "req.Payload = req.Payload[:payloadLength]":
			steps = append(steps, ".truncate")
		case strings.HasPrefix(s, "if err = clientConn.SetReadDeadline(time.Time{}); err != nil {"):
			if err := e.initIfReturns(st, "wait block clear deadline"); err != nil {
				return nil, nil, err
			}
			steps = append(steps, ".clearDeadline")
		default:
			return nil, nil, fmt.Errorf("wait block: unrecognised statement: %s", s)
		}
	}
	return steps, cont, nil
}

// initIfReturns checks `if err = X; err != nil { log; return }`.
func (e ext) initIfReturns(st ast.Stmt, what string) error {
	ifs := st.(*ast.IfStmt)
	if ifs.Else != nil || e.src(ifs.Cond) != "err != nil" {
		return fmt.Errorf("%s: unrecognised shape: %s", what, e.src(st))
	}
	eb, err := e.parseErrBody(ifs.Body.List, what, false)
	if err != nil {
		return err
	}
	if eb.aborts {
		return fmt.Errorf("%s: Abort in the error branch", what)
	}
	return nil
}

func guardName(eb errBranch) string {
	switch {
	case !eb.aborts:
		return ".never"
	case eb.guarded:
		return ".pendingOnly"
	default:
		return ".always"
	}
}

func handleConn(p *pkg, l *gen.Lean) error {
	e := ext{p}
	fd, err := p.Func("*TCPRelay", "handleConn")
	if err != nil {
		return err
	}
	list := fd.Body.List
	i := 0
	next := func() ast.Stmt {
		if i < len(list) {
			i++
			return list[i-1]
		}
		return nil
	}
	var prog []string
	var waitCond, waitSteps, readCont []string
	routeGuard, dialGuard := "", ""
	routeFrom, dialFrom := "", ""
	collectDown, collectUp, payloadTo := "", "", ""
	copied, errChecked := false, false
	skipRe := regexp.MustCompile(`^(var clientConn netio\.Conn|clientAddrPort := clientTCPConn\.RemoteAddr\(\)\.\(\*net\.TCPAddr\)\.AddrPort\(\)|clientAddress := clientAddrPort\.String\(\)|logger :?= (lnc\.)?logger\.With\(.*\)|targetAddress := req\.Addr\.String\(\))$`)
	collectRe := regexp.MustCompile(`^s\.collector\.CollectTCPSession\(req\.Username, uint64\((nl2r|nr2l)\), uint64\((nl2r|nr2l)\)\)$`)
	addRe := regexp.MustCompile(`^(nl2r|nr2l) \+= int64\(len\(req\.Payload\)\)$`)
	for i < len(list) {
		st := next()
		s := e.src(st)
		switch {
		case skipRe.MatchString(s) && onlyPure(st):
		case e.isLog(st):
		case s == "defer func() { if clientConn != nil { _ = clientConn.Close() } else { _ = clientTCPConn.Close() } }()":
			prog = append(prog, ".deferCloseClient")
		case s == "req, err := s.server.HandleStream(clientTCPConn, logger)":
			hb := next()
			ifs, ok := hb.(*ast.IfStmt)
			if !ok || e.src(ifs.Cond) != "err != nil" || ifs.Else != nil || ifs.Init != nil {
				return fmt.Errorf("handleConn: unrecognised statement after HandleStream: %s", e.src(hb))
			}
			for _, b := range ifs.Body.List {
				bs := e.src(b)
				if e.isLog(b) || bs == "return" {
					continue
				}
				if strings.HasPrefix(bs, "if err == netio.ErrHandleStreamDone {") && onlyLogOrReturn(e, b.(*ast.IfStmt).Body.List) {
					continue
				}
				return fmt.Errorf("handleConn: unrecognised statement in the HandleStream error branch: %s", bs)
			}
			if e.src(ifs.Body.List[len(ifs.Body.List)-1]) != "return" {
				return fmt.Errorf("handleConn: the HandleStream error branch does not return")
			}
			prog = append(prog, ".handleStream")
		case strings.HasPrefix(s, "c, err := s.router.GetTCPClient(ctx, router.RequestInfo{"):
			for _, f := range []string{"ServerIndex: s.serverIndex", "Username: req.Username", "SourceAddrPort: clientAddrPort", "TargetAddr: req.Addr"} {
				if !strings.Contains(s, f) {
					return fmt.Errorf("handleConn: router request lacks %q: %s", f, s)
				}
			}
			eb, err := e.parseErrBranch(next(), "route")
			if err != nil {
				return err
			}
			if eb.guarded {
				return fmt.Errorf("handleConn: guarded Abort in the route error branch")
			}
			routeGuard, routeFrom = guardName(eb), eb.resultFrom
			prog = append(prog, ".route")
		case s == "dialer, clientInfo := c.NewStreamDialer()":
			prog = append(prog, ".newDialer")
		case s == "remoteConn, err := dialer.DialStream(ctx, req.Addr, req.Payload)":
			eb, err := e.parseErrBranch(next(), "dial")
			if err != nil {
				return err
			}
			dialGuard, dialFrom = guardName(eb), eb.resultFrom
			prog = append(prog, ".dial")
		case s == "defer remoteConn.Close()":
			prog = append(prog, ".deferCloseRemote")
		case strings.HasPrefix(s, "if clientConn == nil {"):
			ifs := st.(*ast.IfStmt)
			if ifs.Init != nil || ifs.Else != nil || e.src(ifs.Cond) != "clientConn == nil" || len(ifs.Body.List) != 2 ||
				e.src(ifs.Body.List[0]) != "clientConn, err = req.PendingConn.Proceed()" {
				return fmt.Errorf("handleConn: unrecognised `clientConn == nil` block: %s", s)
			}
			eb, err := e.parseErrBranch(ifs.Body.List[1], "late Proceed")
			if err != nil {
				return err
			}
			if eb.aborts {
				return fmt.Errorf("handleConn: Abort after a failed Proceed")
			}
			prog = append(prog, ".proceedIfPending")
		case s == "clientConn, err = req.PendingConn.Proceed()":
			eb, err := e.parseErrBranch(next(), "unguarded Proceed")
			if err != nil {
				return err
			}
			if eb.aborts {
				return fmt.Errorf("handleConn: Abort after a failed Proceed")
			}
			prog = append(prog, ".proceedAlways")
		case s == "nl2r, nr2l, err := netio.BidirectionalCopy(clientConn, remoteConn)":
			copied = true
			prog = append(prog, ".copy")
		case addRe.MatchString(s):
			payloadTo = "." + addRe.FindStringSubmatch(s)[1]
			prog = append(prog, ".addPayloadLen")
		case collectRe.MatchString(s):
			m := collectRe.FindStringSubmatch(s)
			collectDown, collectUp = "."+m[1], "."+m[2]
			prog = append(prog, ".collect")
		case strings.HasPrefix(s, "if err != nil {") && copied && !errChecked:
			// the error of BidirectionalCopy (no other statement between the copy and here assigns err: every statement
			// in between was recognised above as addPayloadLen / collect / logging)
			ifs := st.(*ast.IfStmt)
			if ifs.Init != nil || ifs.Else != nil || e.src(ifs.Cond) != "err != nil" || !onlyLogOrReturn(e, ifs.Body.List) ||
				len(ifs.Body.List) == 0 || e.src(ifs.Body.List[len(ifs.Body.List)-1]) != "return" {
				return fmt.Errorf("handleConn: unrecognised statement after the copy: %s", s)
			}
			errChecked = true
			prog = append(prog, ".returnIfCopyErr")
		default:
			ifs, ok := st.(*ast.IfStmt)
			if ok && ifs.Init == nil && ifs.Else == nil && waitCond == nil && strings.Contains(s, "req.PendingConn.Proceed()") {
				waitCond, err = e.atoms(ifs.Cond, waitAtoms, "wait condition")
				if err != nil {
					return err
				}
				waitSteps, readCont, err = e.waitBlock(ifs.Body.List)
				if err != nil {
					return err
				}
				prog = append(prog, ".waitBlock")
				continue
			}
			return fmt.Errorf("handleConn: unrecognised statement: %s", s)
		}
	}
	if routeGuard == "" || dialGuard == "" || collectDown == "" {
		return fmt.Errorf("handleConn: route / dial / collect step not found (program %v)", prog)
	}
	if payloadTo == "" {
		payloadTo = ".none"
	}
	if routeFrom == "" {
		routeFrom = "-"
	}
	if dialFrom == "" {
		dialFrom = "-"
	}
	l.Raw(`
/-- atoms of the conditions around the initial-payload wait -/
inductive Atom where
  | payloadEmpty | payloadNonEmpty | clientNative | clientNotNative | listenerWait | listenerNoWait
  | serverNotNative | serverNative | waitNotDisabled | waitDisabled
deriving DecidableEq, Repr

/-- key calls of service.(*TCPRelay).handleConn, in source order -/
inductive Step where
  | deferCloseClient | handleStream | route | newDialer | waitBlock | dial | deferCloseRemote
  | proceedIfPending | proceedAlways | copy | addPayloadLen | collect | returnIfCopyErr
deriving DecidableEq, Repr

/-- statements of the wait block -/
inductive WStep where
  | proceed | allocBuf | setDeadline | read | classify | truncate | clearDeadline
deriving DecidableEq, Repr

inductive ReadKind where
  | data | eof | timeout | error
deriving DecidableEq, Repr

/-- when the error branch of a step calls req.Abort -/
inductive AbortGuard where
  | never | pendingOnly | always
deriving DecidableEq, Repr

inductive Counter where
  | nl2r | nr2l | none
deriving DecidableEq, Repr

inductive Side where
  | left | right
deriving DecidableEq, Repr

`)
	l.Raw(fmt.Sprintf("/-- service/tcp.go handleConn: order of the key calls -/\ndef handleConnProgram : List Step := [%s]\n", strings.Join(prog, ", ")))
	l.Raw(fmt.Sprintf("/-- service/tcp.go handleConn: the wait condition (conjunction) -/\ndef waitCond : List Atom := [%s]\n", strings.Join(waitCond, ", ")))
	l.Raw(fmt.Sprintf("/-- service/tcp.go handleConn: statements of the wait block -/\ndef waitProgram : List WStep := [%s]\n", strings.Join(waitSteps, ", ")))
	l.Raw(fmt.Sprintf("/-- read outcomes after which the wait block goes on (the others return) -/\ndef readContinues : List ReadKind := [%s]\n", strings.Join(readCont, ", ")))
	l.Raw(fmt.Sprintf("/-- route error branch: Abort(%s) -/\ndef routeAbort : AbortGuard := %s\n", routeFrom, routeGuard))
	l.Raw(fmt.Sprintf("/-- dial error branch: Abort(%s) -/\ndef dialAbort : AbortGuard := %s\n", dialFrom, dialGuard))
	l.Raw(fmt.Sprintf("/-- `x += int64(len(req.Payload))` -/\ndef payloadAddedTo : Counter := %s\n", payloadTo))
	l.Raw(fmt.Sprintf("/-- CollectTCPSession(req.Username, downlink, uplink) -/\ndef collectDown : Counter := %s\ndef collectUp : Counter := %s\n", collectDown, collectUp))
	return nil
}

func onlyLogOrReturn(e ext, list []ast.Stmt) bool {
	for _, b := range list {
		if !e.isLog(b) && e.src(b) != "return" {
			return false
		}
	}
	return true
}

// onlyPure: the statement contains no call that touches the connections (Proceed/Abort/Read/Write/Close/Dial/Copy/Collect).
func onlyPure(n ast.Node) bool {
	ok := true
	ast.Inspect(n, func(x ast.Node) bool {
		if c, isCall := x.(*ast.CallExpr); isCall {
			if sel, isSel := c.Fun.(*ast.SelectorExpr); isSel {
				switch sel.Sel.Name {
				case "Proceed", "Abort", "Read", "Write", "Close", "CloseWrite", "DialStream", "BidirectionalCopy", "CollectTCPSession", "SetReadDeadline", "HandleStream", "GetTCPClient":
					ok = false
				}
			}
		}
		return ok
	})
	return ok
}

func listenerFlag(p *pkg, l *gen.Lean) error {
	e := ext{p}
	fd, err := p.Func("*TCPListenerConfig", "Configure")
	if err != nil {
		return err
	}
	var flag ast.Expr
	ast.Inspect(fd.Body, func(x ast.Node) bool {
		if kv, ok := x.(*ast.KeyValueExpr); ok && e.src(kv.Key) == "waitForInitialPayload" {
			flag = kv.Value
		}
		return true
	})
	if flag == nil {
		return fmt.Errorf("Configure: no waitForInitialPayload field in the returned tcpRelayListener")
	}
	at, err := e.atoms(flag, flagAtoms, "listener wait flag")
	if err != nil {
		return err
	}
	body := e.src(fd.Body)
	for _, need := range []string{
		"initialPayloadWaitTimeout := lnc.InitialPayloadWaitTimeout.Value()",
		"case initialPayloadWaitTimeout == 0: initialPayloadWaitTimeout = defaultInitialPayloadWaitTimeout",
		"initialPayloadWaitBufferSize := lnc.InitialPayloadWaitBufferSize",
		"case initialPayloadWaitBufferSize == 0: initialPayloadWaitBufferSize = defaultInitialPayloadWaitBufferSize",
		"initialPayloadWaitTimeout: initialPayloadWaitTimeout,",
		"initialPayloadWaitBufferSize: initialPayloadWaitBufferSize,",
	} {
		if !strings.Contains(body, need) {
			return fmt.Errorf("Configure: expected %q", need)
		}
	}
	if got := e.src(fd.Type); got != "func(listenConfigCache conn.ListenConfigCache, transparent, serverNativeInitialPayload bool) (tcpRelayListener, error)" {
		return fmt.Errorf("Configure: unrecognised signature %s", got)
	}
	tr, err := p.Func("*ServerConfig", "TCPRelay")
	if err != nil {
		return err
	}
	tb := e.src(tr.Body)
	for _, need := range []string{
		"serverInfo := server.StreamServerInfo()",
		"sc.TCPListeners[i].Configure(sc.listenConfigCache, listenerTransparent, serverInfo.NativeInitialPayload)",
	} {
		if !strings.Contains(tb, need) {
			return fmt.Errorf("ServerConfig.TCPRelay: expected %q", need)
		}
	}
	l.Raw(fmt.Sprintf("/-- service/server.go Configure: waitForInitialPayload (conjunction); third argument = server.StreamServerInfo().NativeInitialPayload -/\ndef listenerWaitCond : List Atom := [%s]\n", strings.Join(at, ", ")))
	return nil
}

func bidi(p *pkg, l *gen.Lean) error {
	e := ext{p}
	fd, err := p.Func("", "BidirectionalCopy")
	if err != nil {
		return err
	}
	if got := e.src(fd.Type); got != "func(left, right ReadWriter) (nl2r, nr2l int64, err error)" {
		return fmt.Errorf("BidirectionalCopy: unrecognised signature %s", got)
	}
	copyRe := regexp.MustCompile(`^(nl2r|nr2l), (l2rErr|err) = io\.Copy\((left|right), (left|right)\)$`)
	closeRe := regexp.MustCompile(`^_ = (left|right)\.CloseWrite\(\)$`)
	type loop struct{ counter, dst, src, closeOn string }
	parseLoop := func(list []ast.Stmt, what string) (loop, error) {
		if len(list) != 2 {
			return loop{}, fmt.Errorf("BidirectionalCopy %s: expected io.Copy then CloseWrite", what)
		}
		m := copyRe.FindStringSubmatch(e.src(list[0]))
		c := closeRe.FindStringSubmatch(e.src(list[1]))
		if m == nil || c == nil {
			return loop{}, fmt.Errorf("BidirectionalCopy %s: unrecognised statements: %s; %s", what, e.src(list[0]), e.src(list[1]))
		}
		return loop{m[1], m[3], m[4], c[1]}, nil
	}
	var loops []loop
	joined, returned := false, false
	list := fd.Body.List
	for i := 0; i < len(list); i++ {
		s := e.src(list[i])
		switch {
		case strings.HasPrefix(s, "var ("):
		case strings.HasPrefix(s, "wg.Go(func() {"):
			call := list[i].(*ast.ExprStmt).X.(*ast.CallExpr)
			fl, ok := call.Args[0].(*ast.FuncLit)
			if !ok || len(call.Args) != 1 {
				return fmt.Errorf("BidirectionalCopy: unrecognised goroutine: %s", s)
			}
			lp, err := parseLoop(fl.Body.List, "goroutine")
			if err != nil {
				return err
			}
			if joined {
				return fmt.Errorf("BidirectionalCopy: goroutine started after wg.Wait")
			}
			loops = append(loops, lp)
		case copyRe.MatchString(s):
			if i+1 >= len(list) {
				return fmt.Errorf("BidirectionalCopy: io.Copy without CloseWrite")
			}
			lp, err := parseLoop(list[i:i+2], "inline loop")
			if err != nil {
				return err
			}
			loops = append(loops, lp)
			i++
		case s == "wg.Wait()":
			joined = true
		case s == "return nl2r, nr2l, errors.Join(l2rErr, err)":
			if !joined {
				return fmt.Errorf("BidirectionalCopy: returns before wg.Wait")
			}
			returned = true
		default:
			return fmt.Errorf("BidirectionalCopy: unrecognised statement: %s", s)
		}
	}
	if len(loops) != 2 || !returned {
		return fmt.Errorf("BidirectionalCopy: expected two copy loops and a joined return")
	}
	l.Raw(`
/-- one copy loop of netio.BidirectionalCopy: ` + "`counter, _ = io.Copy(dst, src); _ = closeOn.CloseWrite()`" + ` -/
structure CopyLoop where
  counter : Counter
  dst : Side
  src : Side
  closeOn : Side
deriving DecidableEq, Repr

`)
	var ls []string
	for _, lp := range loops {
		ls = append(ls, fmt.Sprintf("{ counter := .%s, dst := .%s, src := .%s, closeOn := .%s }", lp.counter, lp.dst, lp.src, lp.closeOn))
	}
	l.Raw(fmt.Sprintf("/-- netio/stream.go BidirectionalCopy: both loops are joined (wg.Wait) before `return nl2r, nr2l, …` -/\ndef copyLoops : List CopyLoop := [%s]\n", strings.Join(ls, ", ")))
	return nil
}

// nativeFlag extracts the NativeInitialPayload field of the info literal returned by recv.method.
func nativeFlag(p *pkg, recv, method string) (string, error) {
	e := ext{p}
	fd, err := p.Func(recv, method)
	if err != nil {
		return "", err
	}
	var val string
	n := 0
	ast.Inspect(fd.Body, func(x ast.Node) bool {
		if kv, ok := x.(*ast.KeyValueExpr); ok && e.src(kv.Key) == "NativeInitialPayload" {
			val = e.src(kv.Value)
			n++
		}
		return true
	})
	if n != 1 {
		return "", fmt.Errorf("%s.%s.%s: expected exactly one NativeInitialPayload field", p.dir, recv, method)
	}
	switch val {
	case "true", "false":
		return ".const " + val, nil
	case "c.dialer.TFO()":
		return ".tfo", nil
	}
	return "", fmt.Errorf("%s.%s.%s: unrecognised NativeInitialPayload value %q", p.dir, recv, method, val)
}

func natives(c *gen.Ctx, l *gen.Lean) error {
	l.Raw(`
/-- value of a NativeInitialPayload flag: a literal, or the dialer's TFO() -/
inductive Native where
  | const (b : Bool) | tfo
deriving DecidableEq, Repr

`)
	type item struct{ dir, recv, method, name string }
	servers := []item{
		{"netio", "*StreamProxyServer", "StreamServerInfo", "direct"},
		{"ssnone", "StreamServer", "StreamServerInfo", "none"},
		{"socks5", "StreamServer", "StreamServerInfo", "socks5"},
		{"socks5", "AuthStreamServer", "StreamServerInfo", "socks5auth"},
		{"httpproxy", "ProxyServer", "StreamServerInfo", "http"},
		{"ss2022", "*StreamServer", "StreamServerInfo", "ss2022"},
	}
	clients := []item{
		{"netio", "*TCPClient", "NewStreamDialer", "direct"},
		{"ssnone", "*StreamClient", "NewStreamDialer", "none"},
		{"socks5", "*StreamClient", "NewStreamDialer", "socks5"},
		{"socks5", "*AuthStreamClient", "NewStreamDialer", "socks5auth"},
		{"httpproxy", "*ProxyClient", "NewStreamDialer", "http"},
		{"ss2022", "*StreamClient", "NewStreamDialer", "ss2022"},
	}
	emit := func(items []item, def, doc string) error {
		var xs []string
		for _, it := range items {
			p, err := loadDir(c.Repo, it.dir)
			if err != nil {
				return err
			}
			v, err := nativeFlag(p, it.recv, it.method)
			if err != nil {
				return err
			}
			xs = append(xs, fmt.Sprintf("(%s, %s)", gen.LeanString(it.name), v))
		}
		l.Raw(fmt.Sprintf("/-- %s -/\ndef %s : List (String × Native) := [%s]\n", doc, def, strings.Join(xs, ", ")))
		return nil
	}
	if err := emit(servers, "serverNative", "StreamServerInfo().NativeInitialPayload per server protocol"); err != nil {
		return err
	}
	return emit(clients, "clientNative", "NewStreamDialer() info.NativeInitialPayload per client protocol")
}

func main() {
	gen.Main("C13", func(c *gen.Ctx, l *gen.Lean) error {
		p, err := loadDir(c.Repo, "service")
		if err != nil {
			return err
		}
		for _, name := range []string{"defaultInitialPayloadWaitBufferSize", "defaultInitialPayloadWaitTimeout"} {
			v, err := p.constNat(name)
			if err != nil {
				return err
			}
			l.NatDef(name, v, "service."+name)
		}
		if err := handleConn(p, l); err != nil {
			return err
		}
		if err := listenerFlag(p, l); err != nil {
			return err
		}
		np, err := loadDir(c.Repo, "netio")
		if err != nil {
			return err
		}
		if err := bidi(np, l); err != nil {
			return err
		}
		return natives(c, l)
	})
}
