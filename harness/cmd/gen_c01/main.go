// gen_c01: regenerates lean/SSV/Gen/C01.lean from /repo: the constants of the SS2022 stream
// codec / handshake and three facts about the copy paths of ss2022/stream.go that the C01/C02
// theorems depend on (does WriteTo / the tunnel copy flush the left-over of earlier Reads first;
// does the client->server tunnel path cope with a server conn that has not written yet).
package main

import (
	"fmt"
	"go/ast"
	"go/constant"
	"go/parser"
	"go/printer"
	"go/token"
	"go/types"
	"os"
	"path/filepath"
	"strings"

	"ssvharness/internal/gen"
)

// pkg is a light-weight view of one package directory: parsed non-test files, type-checked with
// a stub importer (imported packages are empty), which is enough to evaluate the package's own
// integer constants (all the ones used here are built from literals and local constants) and to
// inspect function bodies. A full source-importer type-check of ss2022's dependency closure takes
// minutes on a loaded machine; none of it is needed for these facts. A constant that cannot be
// evaluated this way is an error (GEN-BROKEN), never a guess.
type pkg struct {
	dir   string
	fset  *token.FileSet
	files []*ast.File
	types *types.Package
}

type stubImporter struct{}

func (stubImporter) Import(path string) (*types.Package, error) {
	p := types.NewPackage(path, filepath.Base(path))
	p.MarkComplete()
	return p, nil
}

func load(repo, dir string) (*pkg, error) {
	fset := token.NewFileSet()
	ents, err := os.ReadDir(filepath.Join(repo, dir))
	if err != nil {
		return nil, err
	}
	p := &pkg{dir: dir, fset: fset}
	for _, e := range ents {
		n := e.Name()
		if !strings.HasSuffix(n, ".go") || strings.HasSuffix(n, "_test.go") {
			continue
		}
		f, err := parser.ParseFile(fset, filepath.Join(repo, dir, n), nil, parser.SkipObjectResolution)
		if err != nil {
			return nil, err
		}
		p.files = append(p.files, f)
	}
	conf := types.Config{Importer: stubImporter{}, Error: func(error) {}}
	p.types, _ = conf.Check("github.com/database64128/shadowsocks-go/"+dir, fset, p.files, nil)
	if p.types == nil {
		return nil, fmt.Errorf("type-check of %s failed", dir)
	}
	return p, nil
}

func (p *pkg) constInt(name string) (string, error) {
	c, ok := p.types.Scope().Lookup(name).(*types.Const)
	if !ok || c.Val().Kind() == constant.Unknown {
		return "", fmt.Errorf("%s.%s: constant not found or not evaluable", p.dir, name)
	}
	v := constant.ToInt(c.Val())
	if v.Kind() != constant.Int {
		return "", fmt.Errorf("%s.%s: not an integer constant (%s)", p.dir, name, c.Val())
	}
	return v.ExactString(), nil
}

func (p *pkg) consts(l *gen.Lean, names ...string) error {
	for _, n := range names {
		v, err := p.constInt(n)
		if err != nil {
			return err
		}
		l.NatDef(n, v, p.dir+"."+n)
	}
	return nil
}

func (p *pkg) Func(recv, name string) (*ast.FuncDecl, error) {
	for _, f := range p.files {
		for _, d := range f.Decls {
			fd, ok := d.(*ast.FuncDecl)
			if !ok || fd.Name.Name != name || fd.Recv == nil || len(fd.Recv.List) != 1 {
				continue
			}
			if strings.TrimPrefix(p.Src(fd.Recv.List[0].Type), "*") == strings.TrimPrefix(recv, "*") {
				return fd, nil
			}
		}
	}
	return nil, fmt.Errorf("%s: method %s.%s not found", p.dir, recv, name)
}

func (p *pkg) Src(n ast.Node) string {
	var sb strings.Builder
	printer.Fprint(&sb, p.fset, n)
	return strings.Join(strings.Fields(sb.String()), " ")
}

// stmtsBeforeLoop returns the source text of the statements of fd's body that precede its single
// top-level `for` statement. Any other shape is an error (the extractor does not guess).
func stmtsBeforeLoop(p *pkg, fd *ast.FuncDecl) ([]string, error) {
	var pre []string
	loops := 0
	for _, st := range fd.Body.List {
		if _, ok := st.(*ast.ForStmt); ok {
			loops++
			continue
		}
		if loops == 0 {
			pre = append(pre, p.Src(st))
		} else {
			return nil, fmt.Errorf("%s: statement after the copy loop: %s", fd.Name.Name, p.Src(st))
		}
	}
	if loops != 1 {
		return nil, fmt.Errorf("%s: expected exactly one top-level for loop, found %d", fd.Name.Name, loops)
	}
	return pre, nil
}

// flushFact decides whether the prologue of a copy function hands readBuf[readStart:] to the
// destination (call `call`) before the loop. Recognised prologues: plain assignments / declarations
// (no flush) and one `if` statement over c.readBuf[c.readStart:] containing the write call and
// advancing c.readStart (flush). Everything else is an unrecognised shape.
func flushFact(p *pkg, fd *ast.FuncDecl, call string) (bool, error) {
	pre, err := stmtsBeforeLoop(p, fd)
	if err != nil {
		return false, err
	}
	flush := false
	for i, st := range fd.Body.List[:len(pre)] {
		src := pre[i]
		switch s := st.(type) {
		case *ast.AssignStmt, *ast.DeclStmt:
			if strings.Contains(src, "readStart") {
				return false, fmt.Errorf("%s: unrecognised use of readStart in %q", fd.Name.Name, src)
			}
		case *ast.IfStmt:
			if s.Else != nil || !strings.Contains(src, "c.readBuf[c.readStart:]") || !strings.Contains(src, call) ||
				!(strings.Contains(src, "c.readStart = len(c.readBuf)") || strings.Contains(src, "c.readStart += nw")) {
				return false, fmt.Errorf("%s: unrecognised if statement before the copy loop: %s", fd.Name.Name, src)
			}
			flush = true
		default:
			return false, fmt.Errorf("%s: unrecognised statement before the copy loop: %s", fd.Name.Name, src)
		}
	}
	return flush, nil
}

// unstartedGuard: in (*ShadowStreamClientConn).writeToServerConn, between the first-read block
// (`if c.ShadowStreamConn.readCipher == nil {...}`) and the final tunnel call there may be a guard
// `if w...writeCipher == nil { return c.ShadowStreamConn.WriteTo(w) }`.
func unstartedGuard(p *pkg, fd *ast.FuncDecl) (bool, error) {
	l := fd.Body.List
	if len(l) < 2 {
		return false, fmt.Errorf("writeToServerConn: body too short")
	}
	first, ok := l[0].(*ast.IfStmt)
	if !ok || p.Src(first.Cond) != "c.ShadowStreamConn.readCipher == nil" {
		return false, fmt.Errorf("writeToServerConn: first statement is not the first-read block")
	}
	last, ok := l[len(l)-1].(*ast.ReturnStmt)
	if !ok || !strings.Contains(p.Src(last), "writeToShadowStreamConn(&w.ShadowStreamConn)") {
		return false, fmt.Errorf("writeToServerConn: last statement is not the tunnel call: %s", p.Src(l[len(l)-1]))
	}
	switch len(l) {
	case 2:
		return false, nil
	case 3:
		g, ok := l[1].(*ast.IfStmt)
		if ok && g.Else == nil && strings.Contains(p.Src(g.Cond), "writeCipher == nil") && len(g.Body.List) == 1 &&
			strings.Contains(p.Src(g.Body.List[0]), "return c.ShadowStreamConn.WriteTo(w)") {
			return true, nil
		}
	}
	return false, fmt.Errorf("writeToServerConn: unrecognised statements between the first-read block and the tunnel call")
}


// stickyFact: (sticky, boundaryRetryable). Three recognised shapes of (*ShadowStreamConn).read and
// the client's initRead / readFirstPayloadChunk:
//   - no mention of readErr at all: (false, true);
//   - "F22": guard, `n, err = c.readChunk(b)`, `if err != nil && err != io.EOF { c.readErr = err }`;
//     initRead records the failures after the read cipher is assigned: (true, false) — every failure
//     other than io.EOF is permanent, also one that consumed nothing;
//   - "F22b": guard; the first io.ReadFull records only when nr > 0; every other failure site goes
//     through failRead, except the io.EOF passthrough of the second io.ReadFull; initRead starts with the
//     guard, records a failed first read only when n > 0, and records every later failure: (true, true).
// Anything else: unrecognised.
func stickyFact(p *pkg) (bool, bool, error) {
	rd, err := p.Func("*ShadowStreamConn", "read")
	if err != nil {
		return false, false, err
	}
	src := p.Src(rd.Body)
	ir, err := p.Func("*ShadowStreamClientConn", "initRead")
	if err != nil {
		return false, false, err
	}
	fp, err := p.Func("*ShadowStreamClientConn", "readFirstPayloadChunk")
	if err != nil {
		return false, false, err
	}
	isrc, fsrc := p.Src(ir.Body), p.Src(fp.Body)
	if !strings.Contains(src, "readErr") {
		if strings.Contains(isrc, "readErr") || strings.Contains(fsrc, "readErr") {
			return false, false, fmt.Errorf("readErr used by the client paths but not by read")
		}
		return false, true, nil
	}
	has := func(fd *ast.FuncDecl, want string) int {
		for i, st := range fd.Body.List {
			if p.Src(st) == want {
				return i
			}
		}
		return -1
	}
	guard := has(rd, "if c.readErr != nil { return 0, c.readErr }")
	if guard < 0 {
		return false, false, fmt.Errorf("read: readErr is used but the guard is missing: %s", src)
	}
	if strings.Count(fsrc, "c.ShadowStreamConn.readErr = err") != 2 {
		return false, false, fmt.Errorf("readFirstPayloadChunk does not record its failures in the recognised way")
	}
	after := isrc[strings.Index(isrc, "c.ShadowStreamConn.readCipher = shadowStreamCipher"):]
	if strings.Count(after, "return 0, err") != strings.Count(after, "c.ShadowStreamConn.readErr = err return 0, err") {
		return false, false, fmt.Errorf("initRead: an error return after the read cipher is assigned does not record the error")
	}
	// F22
	call, rec := has(rd, "n, err = c.readChunk(b)"), has(rd, "if err != nil && err != io.EOF { c.readErr = err }")
	if call >= 0 || rec >= 0 {
		if !(guard < call && call < rec) || strings.Count(isrc, "c.ShadowStreamConn.readErr = err") != 2 {
			return false, false, fmt.Errorf("read: unrecognised use of readErr: %s", src)
		}
		return true, false, nil
	}
	// F22b
	first := has(rd, "if nr, err := io.ReadFull(c.Conn, ciphertext); err != nil { if nr > 0 { c.readErr = err } return 0, err }")
	second := has(rd, "if _, err = io.ReadFull(c.Conn, ciphertext); err != nil { if err == io.EOF { return 0, err } return c.failRead(err) }")
	zero := has(rd, "if length == 0 { return c.failRead(ErrZeroLengthChunk) }")
	if !(guard < first && first < zero && zero < second) || strings.Count(src, "if _, err = c.readCipher.DecryptInPlace(ciphertext); err != nil { return c.failRead(err) }") != 2 {
		return false, false, fmt.Errorf("read: unrecognised use of readErr: %s", src)
	}
	// no other way out of read with an error
	if strings.Count(src, "return 0, err") != 2 || strings.Count(src, "return ") != 2+1+4+1 {
		return false, false, fmt.Errorf("read: unrecognised return statements: %s", src)
	}
	fr, err := p.Func("*ShadowStreamConn", "failRead")
	if err != nil {
		return false, false, err
	}
	if p.Src(fr.Body) != "{ c.readErr = err return 0, err }" {
		return false, false, fmt.Errorf("failRead: unrecognised body: %s", p.Src(fr.Body))
	}
	if has(ir, "if c.ShadowStreamConn.readErr != nil { return 0, c.ShadowStreamConn.readErr }") != 0 ||
		has(ir, "if n, err := c.readOnceOrFull(c.ShadowStreamConn.Conn, hb); err != nil { if n > 0 { c.ShadowStreamConn.readErr = err } return 0, err }") < 0 ||
		strings.Count(isrc, "c.ShadowStreamConn.readErr = err") != 4 {
		return false, false, fmt.Errorf("initRead: unrecognised use of readErr: %s", isrc)
	}
	return true, true, nil
}

// decryptFact: do the three Decrypt helpers advance the nonce only after a successful open?
func decryptFact(p *pkg) (bool, error) {
	only := 0
	always := 0
	for _, name := range []string{"DecryptInPlace", "DecryptTo", "DecryptAppend"} {
		fd, err := p.Func("*ShadowStreamCipher", name)
		if err != nil {
			return false, err
		}
		if len(fd.Body.List) != 3 {
			return false, fmt.Errorf("%s: unrecognised body: %s", name, p.Src(fd.Body))
		}
		if !strings.Contains(p.Src(fd.Body.List[0]), "= c.aead.Open(") || p.Src(fd.Body.List[2]) != "return" {
			return false, fmt.Errorf("%s: unrecognised body: %s", name, p.Src(fd.Body))
		}
		switch p.Src(fd.Body.List[1]) {
		case "if err == nil { increment(c.nonce[:]) }":
			only++
		case "increment(c.nonce[:])":
			always++
		default:
			return false, fmt.Errorf("%s: unrecognised nonce handling: %s", name, p.Src(fd.Body.List[1]))
		}
	}
	if only == 3 {
		return true, nil
	}
	if always == 3 {
		return false, nil
	}
	return false, fmt.Errorf("the Decrypt helpers disagree on when the nonce advances")
}

// copyFact: does socks5.ConnAddrFromSlice copy the domain name out of the slice (string(...)
// conversion) or alias it (unsafe.String)? ss2022 parses the request inside a buffer it goes on using.
func copyFact(p, s *pkg) (bool, error) {
	var pv *ast.FuncDecl
	for _, f := range p.files {
		for _, d := range f.Decls {
			if fd, ok := d.(*ast.FuncDecl); ok && fd.Recv == nil && fd.Name.Name == "ParseTCPRequestVariableLengthHeader" {
				pv = fd
			}
		}
	}
	if pv == nil || !strings.Contains(p.Src(pv.Body), "socks5.ConnAddrFromSlice(b)") {
		return false, fmt.Errorf("ParseTCPRequestVariableLengthHeader no longer parses the address with socks5.ConnAddrFromSlice")
	}
	var fn *ast.FuncDecl
	for _, f := range s.files {
		for _, d := range f.Decls {
			if fd, ok := d.(*ast.FuncDecl); ok && fd.Recv == nil && fd.Name.Name == "ConnAddrFromSlice" {
				fn = fd
			}
		}
	}
	if fn == nil {
		return false, fmt.Errorf("socks5.ConnAddrFromSlice not found")
	}
	found, copies := 0, true
	var bad error
	ast.Inspect(fn.Body, func(n ast.Node) bool {
		as, ok := n.(*ast.AssignStmt)
		if !ok || len(as.Lhs) != 1 || s.Src(as.Lhs[0]) != "domain" {
			return true
		}
		found++
		rhs := s.Src(as.Rhs[0])
		switch {
		case strings.HasPrefix(rhs, "string(b["):
		case strings.Contains(rhs, "unsafe.String"):
			copies = false
		default:
			bad = fmt.Errorf("ConnAddrFromSlice: unrecognised construction of the domain string: %s", rhs)
		}
		return true
	})
	if bad != nil {
		return false, bad
	}
	if found != 1 {
		return false, fmt.Errorf("ConnAddrFromSlice: expected one assignment to domain, found %d", found)
	}
	return copies, nil
}


// readLoopFact fingerprints a `for { nr, err := r.Read(buf); if nr > 0 {…}; if err != nil {…} }` loop:
// true if the data (`nr > 0`) is handled before the error is looked at (an io.Reader may return data
// together with io.EOF or another error), false if the error check comes first; any other loop
// body is an unrecognised shape.
func readLoopFact(p *pkg, name string, loop *ast.ForStmt) (bool, error) {
	if loop == nil || loop.Cond != nil || loop.Init != nil || loop.Post != nil {
		return false, fmt.Errorf("%s: read loop not found", name)
	}
	l := loop.Body.List
	if len(l) != 3 || !strings.HasPrefix(p.Src(l[0]), "nr, err := r.Read(payloadBuf") {
		return false, fmt.Errorf("%s: unrecognised read loop: %s", name, p.Src(loop.Body))
	}
	conds := []string{}
	for _, st := range l[1:] {
		ifs, ok := st.(*ast.IfStmt)
		if !ok || ifs.Init != nil || ifs.Else != nil {
			return false, fmt.Errorf("%s: unrecognised statement in the read loop: %s", name, p.Src(st))
		}
		conds = append(conds, p.Src(ifs.Cond))
	}
	switch {
	case conds[0] == "nr > 0" && conds[1] == "err != nil":
		return true, nil
	case conds[0] == "err != nil" && conds[1] == "nr > 0":
		return false, nil
	}
	return false, fmt.Errorf("%s: unrecognised conditions in the read loop: %v", name, conds)
}

func topLoop(stmts []ast.Stmt) *ast.ForStmt {
	var found *ast.ForStmt
	for _, st := range stmts {
		if f, ok := st.(*ast.ForStmt); ok {
			if found != nil {
				return nil
			}
			found = f
		}
	}
	return found
}


// ctxFact: does netio.ConnWriteContextFunc always call stop() (detach the interruptor from the context)
// before it returns? Recognised epilogues of its deferred function: `if !stop() && err == nil {…}` (stop() is
// evaluated unconditionally: true) and `if err != nil && !stop() {…}` (short-circuit: not called after a
// successful write: false). ss2022.DialStream must use it through netio.ConnWriteContext for the excess payload.
func ctxFact(n, p *pkg) (bool, error) {
	var fn *ast.FuncDecl
	for _, f := range n.files {
		for _, d := range f.Decls {
			if fd, ok := d.(*ast.FuncDecl); ok && fd.Recv == nil && fd.Name.Name == "ConnWriteContextFunc" {
				fn = fd
			}
		}
	}
	if fn == nil {
		return false, fmt.Errorf("netio.ConnWriteContextFunc not found")
	}
	ds, err := p.Func("*StreamClient", "DialStream")
	if err != nil {
		return false, err
	}
	if !strings.Contains(p.Src(ds.Body), "if len(excessPayload) > 0 { if _, err = netio.ConnWriteContext(ctx, clientConn, excessPayload); err != nil {") {
		return false, fmt.Errorf("DialStream no longer writes the excess payload through netio.ConnWriteContext in the recognised way")
	}
	var cond string
	defers := 0
	for _, st := range fn.Body.List {
		d, ok := st.(*ast.DeferStmt)
		if !ok {
			continue
		}
		defers++
		lit, ok := d.Call.Fun.(*ast.FuncLit)
		if !ok || len(lit.Body.List) != 1 {
			return false, fmt.Errorf("ConnWriteContextFunc: unrecognised deferred function: %s", n.Src(d))
		}
		ifs, ok := lit.Body.List[0].(*ast.IfStmt)
		if !ok || ifs.Else != nil || ifs.Init != nil {
			return false, fmt.Errorf("ConnWriteContextFunc: unrecognised deferred function: %s", n.Src(d))
		}
		cond = n.Src(ifs.Cond)
	}
	if defers != 1 || !strings.Contains(n.Src(fn.Body), "stop := context.AfterFunc(ctx, func() { _ = c.SetWriteDeadline(conn.ALongTimeAgo) })") {
		return false, fmt.Errorf("ConnWriteContextFunc: unrecognised body: %s", n.Src(fn.Body))
	}
	switch cond {
	case "!stop() && err == nil":
		return true, nil
	case "err != nil && !stop()":
		return false, nil
	}
	return false, fmt.Errorf("ConnWriteContextFunc: unrecognised epilogue condition: %s", cond)
}

func main() {
	gen.Main("C01", func(c *gen.Ctx, l *gen.Lean) error {
		p, err := load(c.Repo, "ss2022")
		if err != nil {
			return err
		}
		if err := p.consts(l, "streamMaxPayloadSize", "streamReadMinBufferSize", "streamWriteBufferSize", "tagSize", "nonceSize",
			"MaxPaddingLength", "IdentityHeaderLength", "TCPRequestFixedLengthHeaderLength",
			"HeaderTypeClientStream", "HeaderTypeServerStream", "MaxEpochDiff"); err != nil {
			return err
		}
		s, err := load(c.Repo, "socks5")
		if err != nil {
			return err
		}
		if err := s.consts(l, "MaxAddrLen", "IPv4AddrLen", "IPv6AddrLen", "AtypIPv4", "AtypDomainName", "AtypIPv6"); err != nil {
			return err
		}
		wt, err := p.Func("*ShadowStreamConn", "WriteTo")
		if err != nil {
			return err
		}
		f1, err := flushFact(p, wt, "w.Write(")
		if err != nil {
			return err
		}
		l.BoolDef("writeToFlushesLeftover", f1, "ss2022.(*ShadowStreamConn).WriteTo hands readBuf[readStart:] to the writer before its read loop")
		tn, err := p.Func("*ShadowStreamConn", "writeToShadowStreamConn")
		if err != nil {
			return err
		}
		f2, err := flushFact(p, tn, "w.write(")
		if err != nil {
			return err
		}
		l.BoolDef("tunnelFlushesLeftover", f2, "ss2022.(*ShadowStreamConn).writeToShadowStreamConn re-encrypts readBuf[readStart:] before its read loop")
		ws, err := p.Func("*ShadowStreamClientConn", "writeToServerConn")
		if err != nil {
			return err
		}
		f3, err := unstartedGuard(p, ws)
		if err != nil {
			return err
		}
		l.BoolDef("tunnelGuardsUnstartedServer", f3, "ss2022.(*ShadowStreamClientConn).writeToServerConn takes the generic path while the server conn has no write cipher yet")
		f4, f4b, err := stickyFact(p)
		if err != nil {
			return err
		}
		l.BoolDef("readErrorsSticky", f4, "ss2022.(*ShadowStreamConn).read refuses to run after a recorded failure (readErr); the client's initRead / readFirstPayloadChunk record their failures too")
		l.BoolDef("boundaryTimeoutRetryable", f4b, "a failure of read's first io.ReadFull (resp. of initRead's first read) that consumed nothing is not recorded: the call can be retried")
		f5, err := decryptFact(p)
		if err != nil {
			return err
		}
		l.BoolDef("decryptAdvancesOnlyOnSuccess", f5, "ss2022.(*ShadowStreamCipher).Decrypt{InPlace,To,Append} increment the nonce only when the AEAD open succeeded")
		rf, err := p.Func("*ShadowStreamConn", "ReadFrom")
		if err != nil {
			return err
		}
		f7, err := readLoopFact(p, "ShadowStreamConn.ReadFrom", topLoop(rf.Body.List))
		if err != nil {
			return err
		}
		l.BoolDef("readFromHandlesDataFirst", f7, "the loop of ss2022.(*ShadowStreamConn).ReadFrom writes the bytes of a read before it looks at the read's error")
		rg, err := p.Func("*ShadowStreamServerConn", "readFromGeneric")
		if err != nil {
			return err
		}
		var firstBlock *ast.IfStmt
		if len(rg.Body.List) > 0 {
			firstBlock, _ = rg.Body.List[0].(*ast.IfStmt)
		}
		if firstBlock == nil || p.Src(firstBlock.Cond) != "c.ShadowStreamConn.writeCipher == nil" {
			return fmt.Errorf("readFromGeneric: first-write block not found")
		}
		f8, err := readLoopFact(p, "ShadowStreamServerConn.readFromGeneric", topLoop(firstBlock.Body.List))
		if err != nil {
			return err
		}
		l.BoolDef("serverFirstReadHandlesDataFirst", f8, "the first-chunk loop of ss2022.(*ShadowStreamServerConn).readFromGeneric sends the bytes of a read before it looks at the read's error")
		nio, err := load(c.Repo, "netio")
		if err != nil {
			return err
		}
		f9, err := ctxFact(nio, p)
		if err != nil {
			return err
		}
		l.BoolDef("connWriteContextAlwaysStops", f9, "netio.ConnWriteContextFunc (used by ss2022.DialStream for the excess payload) detaches its interruptor from the context before it returns, also after a successful write")
		f6, err := copyFact(p, s)
		if err != nil {
			return err
		}
		l.BoolDef("connAddrFromSliceCopies", f6, "socks5.ConnAddrFromSlice (used by ss2022.ParseTCPRequestVariableLengthHeader on the conn's buffer) copies the domain name out of the slice")
		return nil
	})
}
