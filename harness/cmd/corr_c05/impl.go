package main

// Implementation side: real packers / unpackers of every UDP protocol, built through the exported
// constructors, plus the helpers that read back what the code chose (padding, timestamp, ids) by
// decrypting a COPY of the packet with the keys the harness holds.

import (
	"context"
	"crypto/aes"
	"crypto/cipher"
	"encoding/binary"
	"encoding/hex"
	"errors"
	"fmt"
	"net"
	"net/netip"
	"strconv"
	"strings"
	"time"

	"github.com/database64128/shadowsocks-go/conn"
	"github.com/database64128/shadowsocks-go/direct"
	"github.com/database64128/shadowsocks-go/socks5"
	"github.com/database64128/shadowsocks-go/ss2022"
	"github.com/database64128/shadowsocks-go/zerocopy"
)

// ---------- protocol names ----------

type proto struct {
	name string // direct | none | socks5 | ss
	k    int    // identity headers (ss only)
}

func parseProto(s string) proto {
	if strings.HasPrefix(s, "ss:") {
		k, _ := strconv.Atoi(s[3:])
		return proto{"ss", k}
	}
	return proto{s, 0}
}

func (p proto) String() string {
	if p.name == "ss" {
		return fmt.Sprintf("ss:%d", p.k)
	}
	return p.name
}

// ---------- addresses in the model's notation ----------

// "4:<8 hex>:port" | "6:<32 hex>:port" | "d:<hex name>:port" | "z"
func connAddr(s string) (conn.Addr, error) {
	f := strings.Split(s, ":")
	switch {
	case s == "z":
		return conn.Addr{}, nil
	case len(f) == 3 && f[0] == "d":
		n, err := hex.DecodeString(f[1])
		if err != nil {
			return conn.Addr{}, err
		}
		p, err := strconv.Atoi(f[2])
		if err != nil {
			return conn.Addr{}, err
		}
		return conn.AddrFromDomainPort(string(n), uint16(p))
	default:
		ap, err := addrPort(s)
		if err != nil {
			return conn.Addr{}, err
		}
		return conn.AddrFromIPPort(ap), nil
	}
}

func addrPort(s string) (netip.AddrPort, error) {
	f := strings.Split(s, ":")
	if len(f) != 3 {
		return netip.AddrPort{}, fmt.Errorf("bad address %q", s)
	}
	b, err := hex.DecodeString(f[1])
	if err != nil {
		return netip.AddrPort{}, err
	}
	p, err := strconv.Atoi(f[2])
	if err != nil {
		return netip.AddrPort{}, err
	}
	switch {
	case f[0] == "4" && len(b) == 4:
		return netip.AddrPortFrom(netip.AddrFrom4([4]byte(b)), uint16(p)), nil
	case f[0] == "6" && len(b) == 16:
		return netip.AddrPortFrom(netip.AddrFrom16([16]byte(b)), uint16(p)), nil
	}
	return netip.AddrPort{}, fmt.Errorf("bad address %q", s)
}

func showAddrPort(ap netip.AddrPort) string {
	a := ap.Addr()
	if a.Is4() {
		b := a.As4()
		return fmt.Sprintf("4:%s:%d", hex.EncodeToString(b[:]), ap.Port())
	}
	b := a.As16()
	return fmt.Sprintf("6:%s:%d", hex.EncodeToString(b[:]), ap.Port())
}

func showConnAddr(a conn.Addr) string {
	switch {
	case !a.IsValid():
		return "z"
	case a.IsIP():
		return showAddrPort(a.IPPort())
	default:
		return fmt.Sprintf("d:%s:%d", hex.EncodeToString([]byte(a.Domain())), a.Port())
	}
}

// ---------- error classes (the model's Err names) ----------

func errClass(err error) string {
	switch {
	case err == nil:
		return ""
	case errors.Is(err, zerocopy.ErrPayloadTooBig):
		return "tooBig"
	case errors.Is(err, zerocopy.ErrPacketTooSmall):
		return "tooSmall"
	case errors.Is(err, ss2022.ErrPacketIncompleteHeader):
		return "incomplete"
	case errors.Is(err, ss2022.ErrTypeMismatch):
		return "typeMismatch"
	case errors.Is(err, ss2022.ErrBadTimestamp):
		return "badTimestamp"
	case errors.Is(err, ss2022.ErrClientSessionIDMismatch):
		return "csidMismatch"
	case errors.Is(err, socks5.ErrFragmentationNotSupported):
		return "frag"
	case errors.Is(err, ss2022.ErrIdentityHeaderUserPSKNotFound):
		return "userNotFound"
	case errors.Is(err, ss2022.ErrTooManyServerSessions):
		return "tooManySessions"
	case errors.Is(err, ss2022.ErrReplay):
		return "replay"
	}
	var de *net.DNSError
	if errors.As(err, &de) {
		return "resolve"
	}
	m := err.Error()
	switch {
	case strings.Contains(m, "message authentication failed"):
		return "open"
	case strings.Contains(m, "dropped packet from non-"):
		return "source"
	case strings.Contains(m, "addr length"), strings.Contains(m, "invalid ATYP"), strings.Contains(m, "addr is a domain"), strings.Contains(m, "length of domain"):
		return "addr"
	}
	return "other:" + m
}

// ---------- buffers ----------

func canaryBuf(n int, seed uint64) []byte {
	b := make([]byte, n, n) // cap == len, as the services allocate
	for i := range b {
		b[i] = byte(uint64(i)*167 + uint64(i/256)*13 + seed)
	}
	return b
}

func fillPayload(b []byte, start, n int, seed uint64) {
	for j := 0; j < n; j++ {
		b[start+j] = byte(uint64(j)*59 + uint64(j/256)*7 + seed*3 + 101)
	}
}

func fnv(b []byte) string {
	h := uint64(0xcbf29ce484222325)
	for _, x := range b {
		h = (h ^ uint64(x)) * 0x100000001b3
	}
	return strconv.FormatUint(h, 10)
}

// ---------- worlds ----------

var policies = map[string]ss2022.PaddingPolicy{"n": ss2022.NoPadding, "d": ss2022.PadPlainDNS, "a": ss2022.PadAll}

// world = one client configuration of a protocol together with the server it talks to.
type world struct {
	p        proto
	mtu      int
	serverAP netip.AddrPort

	cInfo     zerocopy.Headroom // UDPClient.Info().PackerHeadroom
	cPacker   zerocopy.ClientPacker
	cUnpacker zerocopy.ClientUnpacker
	cMax      int // clientSession.MaxPacketSize

	suInfo    zerocopy.Headroom // server Info().UnpackerHeadroom
	sUnpacker zerocopy.ServerUnpacker
	sPacker   zerocopy.ServerPacker
	ssServer  *ss2022.UDPServer

	// ss2022 key material
	psk         []byte
	ipsks       [][]byte
	ccfg        *ss2022.ClientCipherConfig
	userCfg     ss2022.UserCipherConfig
	hashes      []byte // concatenated identity hashes as the client embeds them
	otherHashes []byte // multi-user server: PSK hashes of the other users in the lookup map
	userPos     int    // …and where the model's user table lists the client's user among them
	sepBlock    cipher.Block
	userBlock   cipher.Block
	idBlocks    []cipher.Block

	dc             socks5.DomainCache // of the harness-assembled unpacker (more than one identity header)
	res            string             // direct client: what the scripted resolver answers for a domain target ("" = failure)
	statefulClient bool               // hist: the client unpacker instance is reused, the model threads its state
	tunnel         conn.Addr
	polC, polS     string // padding policies of the client / of the server (ss2022)
	only           bool   // direct server: tunnelUDPTargetOnly
}

func serverAddrPort(v6 bool) netip.AddrPort {
	if v6 {
		return netip.MustParseAddrPort("[2001:db8::1]:8388")
	}
	return netip.MustParseAddrPort("192.0.2.1:8388")
}

func derivKey(seed uint64, i, n int) []byte {
	k := make([]byte, n)
	for j := range k {
		k[j] = byte(seed>>uint(8*(j%8))) ^ byte(31*i+7*j+1)
	}
	return k
}

func newWorld(p proto, mtu int, srv6 bool, polC, polS string, tunnel conn.Addr, only bool, keySeed uint64) (*world, error) {
	w := &world{p: p, mtu: mtu, serverAP: serverAddrPort(srv6), tunnel: tunnel, polC: polC, polS: polS, only: only}
	ctx := context.Background()
	serverAddr := conn.AddrFromIPPort(w.serverAP)
	switch p.name {
	case "direct":
		c := direct.NewDirectUDPClient("c", "ip", mtu, conn.DefaultUDPClientListenConfig)
		w.cInfo = c.Info().PackerHeadroom
		_, sess, err := c.NewSession(ctx)
		if err != nil {
			return nil, err
		}
		w.cPacker, w.cUnpacker, w.cMax = sess.Packer, sess.Unpacker, sess.MaxPacketSize
		s := direct.NewDirectUDPNATServer(tunnel, only)
		w.suInfo = s.Info().UnpackerHeadroom
		u, err := s.NewUnpacker()
		if err != nil {
			return nil, err
		}
		w.sUnpacker = u
		w.sPacker, err = u.NewPacker()
		if err != nil {
			return nil, err
		}
	case "none":
		c := direct.NewShadowsocksNoneUDPClient("c", "ip", serverAddr, mtu, conn.DefaultUDPClientListenConfig)
		w.cInfo = c.Info().PackerHeadroom
		_, sess, err := c.NewSession(ctx)
		if err != nil {
			return nil, err
		}
		w.cPacker, w.cUnpacker, w.cMax = sess.Packer, sess.Unpacker, sess.MaxPacketSize
		s := direct.ShadowsocksNoneUDPNATServer{}
		w.suInfo = s.Info().UnpackerHeadroom
		u, _ := s.NewUnpacker()
		w.sUnpacker = u
		w.sPacker, _ = u.NewPacker()
	case "socks5":
		cfg := direct.Socks5UDPClientConfig{Name: "c", MTU: mtu, ListenConfig: conn.DefaultUDPClientListenConfig}
		c := cfg.NewClient()
		w.cInfo = c.Info().PackerHeadroom
		// NewSession dials the SOCKS5 server over TCP; the session it builds is exactly this (direct/udp.go newSession):
		w.cMax = zerocopy.MaxPacketSizeForAddr(mtu, w.serverAP.Addr())
		w.cPacker = direct.NewSocks5PacketClientPacker(w.serverAP, w.cMax)
		w.cUnpacker = direct.NewSocks5PacketClientUnpacker(w.serverAP)
		s := direct.Socks5UDPNATServer{}
		w.suInfo = s.Info().UnpackerHeadroom
		u, _ := s.NewUnpacker()
		w.sUnpacker = u
		w.sPacker, _ = u.NewPacker()
	case "ss":
		keyLen := 16
		if keySeed&1 == 1 {
			keyLen = 32
		}
		w.psk = derivKey(keySeed, 0, keyLen)
		for i := 0; i < p.k; i++ {
			w.ipsks = append(w.ipsks, derivKey(keySeed, i+1, keyLen))
		}
		var err error
		w.ccfg, err = ss2022.NewClientCipherConfig(w.psk, w.ipsks, true)
		if err != nil {
			return nil, err
		}
		w.userCfg = w.ccfg.UserCipherConfig
		for _, h := range w.ccfg.EIHPSKHashes() {
			w.hashes = append(w.hashes, h[:]...)
		}
		w.userBlock, _ = aes.NewCipher(w.psk)
		w.sepBlock = w.userBlock
		for i := range w.ipsks {
			bl, _ := aes.NewCipher(w.ipsks[i])
			w.idBlocks = append(w.idBlocks, bl)
		}
		if p.k > 0 {
			w.sepBlock = w.idBlocks[0]
		}
		c := ss2022.NewUDPClient("c", "ip", serverAddr, mtu, conn.DefaultUDPClientListenConfig, 0, w.ccfg, policies[polC])
		w.cInfo = c.Info().PackerHeadroom
		_, sess, err := c.NewSession(ctx)
		if err != nil {
			return nil, err
		}
		w.cPacker, w.cUnpacker, w.cMax = sess.Packer, sess.Unpacker, sess.MaxPacketSize
		switch p.k {
		case 0:
			ucfg, err := ss2022.NewUserCipherConfig(w.psk, true)
			if err != nil {
				return nil, err
			}
			w.ssServer = ss2022.NewUDPServer(0, ucfg, ss2022.ServerIdentityCipherConfig{}, policies[polS])
		case 1:
			icfg, err := ss2022.NewServerIdentityCipherConfig(w.ipsks[0], true)
			if err != nil {
				return nil, err
			}
			w.ssServer = ss2022.NewUDPServer(0, ss2022.UserCipherConfig{}, icfg, policies[polS])
			su, err := ss2022.NewServerUserCipherConfig("u", w.psk, true)
			if err != nil {
				return nil, err
			}
			// a multi-user server: 2 or 3 users in the lookup map, the client is one of them
			ulm := ss2022.UserLookupMap{ss2022.PSKHash(w.psk): su}
			nOthers := 1 + int(keySeed>>3)%2
			for i := 0; i < nOthers; i++ {
				opsk := derivKey(keySeed^0x5bd1e995, 100+i, keyLen)
				ou, err := ss2022.NewServerUserCipherConfig(fmt.Sprintf("other%d", i), opsk, true)
				if err != nil {
					return nil, err
				}
				h := ss2022.PSKHash(opsk)
				ulm[h] = ou
				w.otherHashes = append(w.otherHashes, h[:]...)
			}
			w.userPos = int(keySeed>>5) % (nOthers + 1)
			w.ssServer.ReplaceUserLookupMap(ulm)
		default:
			// the repository's server handles one identity layer; for k >= 2 the receiving side is
			// assembled by the harness from the exported primitives (see assembledServerUnpack)
		}
		if w.ssServer != nil {
			w.suInfo = w.ssServer.Info().UnpackerHeadroom
		} else {
			w.suInfo = ss2022.ShadowPacketClientMessageHeadroom(ss2022.IdentityHeaderLength * p.k)
		}
	default:
		return nil, fmt.Errorf("unknown protocol %q", p.name)
	}
	return w, nil
}

// ---------- ss2022: reading back what the code chose ----------

type ssPlain struct {
	sep   []byte // decrypted separate header (16)
	plain []byte // message header + payload
	pad   int
	ts    []byte // 8
	ok    bool
}

// openClientPacket decrypts a copy of a client->server packet.
func (w *world) openClientPacket(pkt []byte) (r ssPlain) {
	non := 16 + 16*w.p.k
	if len(pkt) < non+16 {
		return
	}
	c := append([]byte(nil), pkt...)
	w.sepBlock.Decrypt(c[:16], c[:16])
	r.sep = c[:16]
	for i := 0; i < w.p.k; i++ {
		ih := c[16+16*i : 32+16*i]
		w.idBlocks[i].Decrypt(ih, ih)
		for j := range ih {
			ih[j] ^= r.sep[j]
		}
		if string(ih) != string(w.hashes[16*i:16*i+16]) {
			return
		}
	}
	aead, err := w.userCfg.AEAD(r.sep[:8])
	if err != nil {
		return
	}
	pt, err := aead.Open(nil, r.sep[4:16], c[non:], nil)
	if err != nil || len(pt) < 11 {
		return
	}
	r.plain = pt
	r.ts = pt[1:9]
	r.pad = int(binary.BigEndian.Uint16(pt[9:11]))
	r.ok = true
	return
}

// openServerPacket decrypts a copy of a server->client packet.
func (w *world) openServerPacket(pkt []byte) (r ssPlain) {
	if len(pkt) < 32 {
		return
	}
	c := append([]byte(nil), pkt...)
	w.userBlock.Decrypt(c[:16], c[:16])
	r.sep = c[:16]
	aead, err := w.userCfg.AEAD(r.sep[:8])
	if err != nil {
		return
	}
	pt, err := aead.Open(nil, r.sep[4:16], c[16:], nil)
	if err != nil || len(pt) < 19 {
		return
	}
	r.plain = pt
	r.ts = pt[1:9]
	r.pad = int(binary.BigEndian.Uint16(pt[17:19]))
	r.ok = true
	return
}

// assembledServerUnpack: receiving side of a client packet with k >= 2 identity headers, made of the
// exported primitives (AES block decrypt, UserCipherConfig.AEAD, ParseUDPClientMessageHeader).
func (w *world) assembledServerUnpack(b []byte, packetStart, packetLen int, dc *socks5.DomainCache) (conn.Addr, int, int, error) {
	non := 16 + 16*w.p.k
	if packetLen < non+16 {
		return conn.Addr{}, 0, 0, zerocopy.ErrPacketTooSmall
	}
	sep := b[packetStart : packetStart+16]
	w.sepBlock.Decrypt(sep, sep)
	aead, err := w.userCfg.AEAD(sep[:8])
	if err != nil {
		return conn.Addr{}, 0, 0, err
	}
	ct := b[packetStart+non : packetStart+packetLen]
	pt, err := aead.Open(ct[:0], sep[4:16], ct, nil)
	if err != nil {
		return conn.Addr{}, 0, 0, err
	}
	a, ps, pl, err := ss2022.ParseUDPClientMessageHeader(pt, time.Now(), dc)
	return a, ps + packetStart + non, pl, err
}
