package main

// Generators: boundary-directed, derived from the quantifier text of C05.

import (
	"encoding/hex"
	"fmt"

	"ssvharness/internal/common"
)

var mtus = []int{1280, 1492, 1500, 9000, 65535}
var pols = []string{"n", "d", "a"}
var clientProtos = []string{"direct", "none", "socks5", "ss:0", "ss:1", "ss:2", "ss:3"}
var serverProtos = []string{"direct", "none", "socks5", "ss:0", "ss:1"}

func genPort(r *common.Rng) int {
	switch r.Intn(6) {
	case 0:
		return 0
	case 1:
		return 1
	case 2, 3:
		return 53
	case 4:
		return 65535
	}
	return r.Range(0, 65535)
}

func genIP4(r *common.Rng) string {
	switch r.Intn(4) {
	case 0:
		return "00000000"
	case 1:
		return "ffffffff"
	}
	return hex.EncodeToString(r.Bytes(4))
}

func genIP6(r *common.Rng) string {
	switch r.Intn(6) {
	case 0:
		return "00000000000000000000000000000000"
	case 1:
		return "ffffffffffffffffffffffffffffffff"
	case 2: // almost IPv4-mapped: one bit off the ::ffff:0:0/96 prefix
		b := append([]byte{0, 0, 0, 0, 0, 0, 0, 0, 0, 0, 0xff, 0xff}, r.Bytes(4)...)
		i := r.Intn(12)
		b[i] ^= 1 << uint(r.Intn(8))
		return hex.EncodeToString(b)
	}
	b := r.Bytes(16)
	if b[10] == 0xff && b[11] == 0xff {
		b[0] |= 1
	}
	return hex.EncodeToString(b)
}

// genAddrPort: netip.AddrPort kinds: IPv4, IPv4-mapped IPv6, IPv6.
func genAddrPort(r *common.Rng) string {
	switch r.Intn(3) {
	case 0:
		return fmt.Sprintf("4:%s:%d", genIP4(r), genPort(r))
	case 1:
		return fmt.Sprintf("6:00000000000000000000ffff%s:%d", genIP4(r), genPort(r))
	}
	return fmt.Sprintf("6:%s:%d", genIP6(r), genPort(r))
}

func genDomain(r *common.Rng) string {
	var n int
	switch r.Intn(8) {
	case 0:
		n = 1
	case 1:
		n = 2
	case 2:
		n = 254
	case 3:
		n = 255
	case 4:
		n = r.Range(1, 255)
	default:
		n = r.Range(3, 40)
	}
	b := make([]byte, n)
	for i := range b {
		switch r.Intn(12) {
		case 0:
			b[i] = '.'
		case 1:
			b[i] = byte(r.Range(0, 255)) // the wire format carries any byte
		default:
			b[i] = byte('a' + r.Intn(26))
		}
	}
	return fmt.Sprintf("d:%s:%d", hex.EncodeToString(b), genPort(r))
}

// genAddr: conn.Addr kinds.
func genAddr(r *common.Rng, ipOnly, allowZero bool) string {
	k := r.Intn(10)
	switch {
	case k < 4 && !ipOnly:
		return genDomain(r)
	case k == 4 && allowZero && !ipOnly:
		return "z"
	}
	return genAddrPort(r)
}

func genMTU(r *common.Rng) int {
	switch r.Intn(40) {
	case 0:
		return 65576 // first MTU with the jumbo payload option
	case 1:
		return 65575
	case 2:
		return 131072
	}
	// 65535 costs 64 KiB buffers near the upper end: weight it lower
	if r.Intn(8) == 0 {
		return 65535
	}
	return mtus[r.Intn(4)]
}

func genSlack(r *common.Rng) int {
	switch r.Intn(20) {
	case 0:
		return -1
	case 1, 2, 3, 4, 5:
		return 0
	case 6, 7:
		return 1
	case 8, 9, 10:
		return r.Range(2, 64)
	case 11, 12, 13:
		return r.Range(65, 1000)
	case 14, 15, 16:
		return 900 + r.Range(0, 300) // what the headroom constants reserve for padding
	case 17:
		return r.Range(1000, 5000)
	case 18:
		if r.Intn(4) == 0 {
			return 65535 + r.Range(-2, 40) // room for the largest padding length
		}
		return r.Range(2, 64)
	}
	return r.Range(0, 16)
}

func genRear(r *common.Rng, ss bool) int {
	switch r.Intn(12) {
	case 0:
		if ss {
			return -r.Range(1, 16)
		}
		return 0
	case 1, 2:
		return r.Range(1, 64)
	}
	return 0
}

// genLen picks a payload length around the ends of [0, max].
func genLen(r *common.Rng, max int, big bool) int {
	if max < 0 {
		max = 0
	}
	k := r.Intn(20)
	if big && k >= 4 && k < 13 && r.Intn(3) != 0 {
		k = 13 // spare the 64 KiB buffers most of the time
	}
	switch {
	case k < 4:
		return r.Range(0, 3)
	case k < 13:
		return clamp0(max + r.Range(-3, 2))
	case k < 19:
		if big {
			return r.Range(0, 3000)
		}
		return r.Range(0, max)
	}
	return max + r.Range(3, 400)
}

// genHost: a DNS-valid, case-unique host name for the scripted resolver (cases run concurrently).
func genHost(r *common.Rng) string {
	n := r.Range(1, 24)
	b := make([]byte, n)
	for i := range b {
		b[i] = byte('a' + r.Intn(26))
	}
	name := fmt.Sprintf("%s-%x.c05test", b, r.U64()&0xffffffff)
	return fmt.Sprintf("d:%s:%d", hex.EncodeToString([]byte(name)), genPort(r))
}

var resolverAnswers = []string{"4:01010101", "4:c6336407", "6:20010db8000000000000000000000001", "6:00000000000000000000ffff08080808"}

// directTarget: for the direct client half of the targets are scripted hosts (answer or failure in c.Res).
func directTarget(r *common.Rng, c *Case) string {
	if r.Bool() {
		return genAddrPort(r)
	}
	if r.Intn(5) != 0 {
		c.Res = common.Pick(r, resolverAnswers)
	}
	return genHost(r)
}

func genPair(r *common.Rng) Case {
	c := Case{Kind: "pair", Seed: r.U64()}
	switch k := r.Intn(10); {
	case k < 1:
		c.C = "direct"
	case k < 3:
		c.C = "none"
	case k < 5:
		c.C = "socks5"
	default:
		c.C = fmt.Sprintf("ss:%d", r.Intn(4))
	}
	p := parseProto(c.C)
	c.MTU = genMTU(r)
	c.Srv6, c.Cli6 = r.Bool(), r.Bool()
	c.Addr = genAddr(r, p.name == "direct", true)
	if p.name == "direct" {
		c.Addr = directTarget(r, &c)
	}
	c.Src = genAddrPort(r)
	c.PolC, c.PolS = common.Pick(r, pols), common.Pick(r, pols)
	c.Slack = genSlack(r)
	c.RearSlack = genRear(r, p.name == "ss")
	big := c.MTU > 9000
	limit := specLimit(c.MTU, c.Srv6)
	if p.name == "direct" {
		limit = dirLimit(c.MTU, c.Addr, c.Res)
	}
	c.Len = genLen(r, limit-specFront(p, false, specAddrLen(c.Addr))-specRear(p), big)
	c.Len2 = genLen(r, specLimit(c.MTU, c.Cli6)-specFront(p, true, specAddrLen(c.Src))-specRear(p), big)
	if p.name == "direct" {
		c.Tunnel = genAddr(r, false, false)
		if r.Intn(3) == 0 {
			// tunnelUDPTargetOnly requires an IP tunnel address (a domain panics: finding F4, decided under C06/C18)
			c.Only = true
			c.Tunnel = genAddrPort(r)
			if r.Bool() {
				c.Src = c.Tunnel
			}
		}
	}
	if c.Slack > 5000 && c.MTU < 65535 {
		c.Slack = r.Range(0, 1200)
	}
	return c
}

func genRelay(r *common.Rng, i int) Case {
	c := Case{Seed: r.U64()}
	if r.Bool() {
		c.Kind = "up"
	} else {
		c.Kind = "down"
	}
	// walk the pairs systematically, randomise the rest
	pairs := len(serverProtos) * len(clientProtos)
	c.S = serverProtos[(i/2)%pairs/len(clientProtos)]
	c.C = clientProtos[(i/2)%pairs%len(clientProtos)]
	if c.Kind == "down" && parseProto(c.C).k > 1 {
		c.C = fmt.Sprintf("ss:%d", r.Intn(2)) // no server packer exists for more than one identity layer
	}
	sp, cp := parseProto(c.S), parseProto(c.C)
	c.MTU, c.CMTU, c.RMTU = genMTU(r), genMTU(r), genMTU(r)
	if r.Intn(3) != 0 {
		// comparable MTUs: otherwise most packets are dropped before the interesting step
		c.CMTU, c.RMTU = c.MTU, c.MTU
	}
	c.Srv6, c.Cli6 = r.Bool(), r.Bool()
	c.PolC, c.PolS = common.Pick(r, pols), common.Pick(r, pols)
	c.Addr = genAddr(r, cp.name == "direct", true)
	if cp.name == "direct" && c.Kind == "up" && sp.name != "direct" {
		c.Addr = directTarget(r, &c) // the remote client names a scripted host; our direct client resolves it
	}
	c.Src = genAddrPort(r)
	for n := r.Intn(3); n > 0; n-- {
		c.Others = append(c.Others, common.Pick(r, clientProtos))
	}
	c.Slack = clamp0(genSlack(r))
	c.RearSlack = clamp0(genRear(r, false))
	if sp.name == "direct" {
		c.Tunnel = genAddr(r, cp.name == "direct", false)
		if r.Intn(3) == 0 {
			c.Only = true
			c.Tunnel = genAddrPort(r)
			if r.Intn(4) != 0 {
				c.Src = c.Tunnel
			}
		}
	}
	// the incoming packet must fit the receive window; aim at its ends
	var recv, over int
	if c.Kind == "up" {
		recv = specLimit(c.MTU, false)
		if m := specLimit(c.RMTU, false); m < recv {
			recv = m
		}
		over = specFront(sp, false, specAddrLen(c.Addr)) + specRear(sp)
		if sp.name == "direct" {
			over = 0
		}
	} else {
		recv = specLimit(c.CMTU, c.Srv6)
		if m := specLimit(c.RMTU, false); m < recv {
			recv = m
		}
		over = specFront(cp, true, specAddrLen(c.Src)) + specRear(cp)
	}
	big := recv > 9000
	c.Len = genLen(r, recv-over, big)
	if c.Slack > 5000 && !big {
		c.Slack = r.Range(0, 1200)
	}
	return c
}

// directed: the corners the statement names, always run first.
func directed() []Case {
	var cs []Case
	seed := uint64(1000)
	add := func(c Case) {
		seed++
		c.Seed = seed
		if c.PolC == "" {
			c.PolC = "a"
		}
		if c.PolS == "" {
			c.PolS = "a"
		}
		if c.Src == "" {
			c.Src = "6:20010db8000000000000000000000035:53"
		}
		cs = append(cs, c)
	}
	dom255 := "d:" + hex.EncodeToString(make255()) + ":53"
	addrs := []string{"4:01020304:53", "6:00000000000000000000ffff01020304:53", "6:20010db8000000000000000000000001:443", "d:61:0", dom255, "z"}
	for _, p := range clientProtos {
		pr := parseProto(p)
		for _, mtu := range mtus {
			for _, a := range addrs {
				if pr.name == "direct" && (a[0] == 'd' || a == "z") {
					continue
				}
				for _, v6 := range []bool{false, true} {
					limit := specLimit(mtu, v6)
					if pr.name == "direct" {
						limit = dirLimit(mtu, a)
					}
					max := limit - specFront(pr, false, specAddrLen(a)) - specRear(pr)
					max2 := specLimit(mtu, v6) - specFront(pr, true, specAddrLen("6:20010db8000000000000000000000035:53")) - specRear(pr)
					for _, d := range []int{0, 1} {
						if mtu == 65535 && (a != addrs[0] || v6) {
							continue
						}
						add(Case{Kind: "pair", C: p, MTU: mtu, Srv6: v6, Cli6: v6, Addr: a, Slack: 0, Len: max + d, Len2: max2 + d})
					}
				}
			}
		}
		add(Case{Kind: "pair", C: p, MTU: 1500, Addr: "4:01020304:53", Slack: 1171, Len: 0, Len2: 0})
	}
	// every server x client pair, smallest and largest incoming packet, tight and padded
	for _, s := range serverProtos {
		for _, c := range clientProtos {
			for _, pol := range []string{"n", "a"} {
				for _, a := range []string{"4:01020304:53", "d:61:53", dom255} {
					if (c == "direct") && a[0] == 'd' {
						continue
					}
					sp := parseProto(s)
					over := specFront(sp, false, specAddrLen(a)) + specRear(sp)
					if s == "direct" {
						over = 0
					}
					for _, ln := range []int{0, 1472 - over, 1472 - over - 300} {
						tun := ""
						if s == "direct" {
							tun = a
						}
						add(Case{Kind: "up", S: s, C: c, MTU: 1500, CMTU: 1500, RMTU: 1500, Addr: a, Tunnel: tun, Len: clamp0(ln), PolC: pol, PolS: pol, Others: []string{"ss:3", "socks5"}})
					}
				}
				if parseProto(c).k > 1 {
					continue
				}
				for _, src := range []string{"4:01020304:53", "6:00000000000000000000ffff01020304:53", "6:20010db8000000000000000000000001:53"} {
					cp := parseProto(c)
					over := specFront(cp, true, specAddrLen(src)) + specRear(cp)
					for _, ln := range []int{0, 1472 - over, 1472 - over - 300} {
						add(Case{Kind: "down", S: s, C: c, MTU: 1500, CMTU: 1500, RMTU: 1500, Src: src, Addr: "4:01020304:53", Len: clamp0(ln), PolC: pol, PolS: pol})
					}
				}
			}
		}
	}
	return cs
}

func make255() []byte {
	b := make([]byte, 255)
	for i := range b {
		b[i] = byte('a' + i%26)
	}
	return b
}

// roamCases: every history of the client's address family up to length 3 for both loops of the session relay,
// the NAT relay as the non-roaming control, plus random longer histories and other MTUs.
func roamCases(r *common.Rng, o *common.Options) []Case {
	var cs []Case
	seed := uint64(5000)
	add := func(s, batch, hist string, mtu int) {
		seed++
		cs = append(cs, Case{Kind: "roam", S: s, Batch: batch, Hist: hist, MTU: mtu, Seed: seed + r.U64()%1000*7919})
	}
	hists := []string{"46", "64", "464", "646", "446", "466"}
	for _, batch := range []string{"no", ""} {
		for _, h := range hists {
			add("ss", batch, h, 1500)
		}
		add("none", batch, "46", 1500)
	}
	n := o.Budget(4, 120)
	for i := 0; i < n; i++ {
		ln := r.Range(2, 6)
		h := make([]byte, ln)
		for j := range h {
			h[j] = "46"[r.Intn(2)]
		}
		s := "ss"
		if r.Intn(5) == 0 {
			s = "none"
		}
		add(s, common.Pick(r, []string{"no", ""}), string(h), common.Pick(r, []int{1280, 1492, 1500, 9000}))
	}
	return cs
}
