// corr_c05: correspondence + property oracle for C05 (UDP pack/unpack round trip, MTU bound, frame, relay safety).
//
// Engine "packet": every case is run on the real packers/unpackers (ss2022 with 0..3 identity headers,
// Shadowsocks none, SOCKS5, direct) and, operation by operation, on the Lean model (driver ssv_c05):
//
//	pair : client packs -> server unpacks; server packs a reply -> client unpacks
//	up   : a remote client's packet arrives in the relay's uplink buffer (layout as service/server.go computes it),
//	       the server unpacker unpacks it, the configured client re-packs it in place, the far server unpacks it
//	down : the mirror image with the downlink buffer of relayNatConnToServerConnGeneric
//
// The oracle is written from the property statement with its own constants (RFC header sizes, wire formats).
package main

import (
	"bytes"
	"encoding/hex"
	"encoding/json"
	"fmt"
	"net/netip"
	"os"
	"os/exec"
	"path/filepath"
	"strings"
	"sync"

	"ssvharness/internal/common"

	"github.com/database64128/shadowsocks-go/conn"
	"github.com/database64128/shadowsocks-go/zerocopy"
)

type Case struct {
	Kind      string   `json:"kind"`             // pair | up | down
	S         string   `json:"s,omitempty"`      // relay: protocol of our server (direct none socks5 ss:0 ss:1)
	C         string   `json:"c"`                // protocol of the client (pair: the pair; relay: our outgoing client)
	Others    []string `json:"others,omitempty"` // relay up: further configured clients (their headroom enters MaxHeadroom)
	MTU       int      `json:"mtu"`              // pair: the MTU; relay: MTU of our server
	CMTU      int      `json:"cmtu,omitempty"`   // relay: MTU of our client
	RMTU      int      `json:"rmtu,omitempty"`   // relay: MTU of the remote peer that produces the incoming packet
	Srv6      bool     `json:"srv6"`             // address family of the proxy server the client talks to
	Cli6      bool     `json:"cli6"`             // address family of the downstream client
	Addr      string   `json:"addr"`             // target address (conn.Addr)
	Src       string   `json:"src"`              // payload source address of replies (netip.AddrPort)
	Slack     int      `json:"slack"`            // payloadStart = minimal front + slack (-1: excluded point)
	RearSlack int      `json:"rear_slack"`       // bytes behind the payload = minimal rear + rear_slack
	Len       int      `json:"len"`              // payload length (client->server direction / incoming packet)
	Len2      int      `json:"len2"`             // payload length of the reply (pair)
	PolC      string   `json:"polc"`
	PolS      string   `json:"pols"`
	Tunnel    string   `json:"tunnel,omitempty"` // direct server: tunnel address
	Only      bool     `json:"only,omitempty"`   // direct server: tunnelUDPTargetOnly
	Seed      uint64   `json:"seed"`
	Batch     string   `json:"batch,omitempty"` // roam: batchMode of the relay ("no" = generic loop, "" = platform default = sendmmsg)
	Hist      string   `json:"hist,omitempty"`  // roam: the client's address family per step, e.g. "464"
	Steps     []HStep  `json:"steps,omitempty"` // hist: the packets of the history
	Down      bool     `json:"down,omitempty"`  // hist: server -> client direction
	Res       string   `json:"res,omitempty"`   // direct client with a domain target: the scripted resolver's answer ("4:hex" / "6:hex"), "" = failure
}

// ---------- the statement's own arithmetic ----------

func isMapped(hex32 string) bool { return strings.HasPrefix(hex32, "00000000000000000000ffff") }

func specAddrLen(a string) int {
	f := strings.Split(a, ":")
	switch f[0] {
	case "z", "4":
		return 1 + 4 + 2
	case "6":
		if isMapped(f[1]) {
			return 1 + 4 + 2
		}
		return 1 + 16 + 2
	default:
		return 1 + 1 + len(f[1])/2 + 2
	}
}

// specNorm: the address a peer must see (IPv4-mapped IPv6 -> IPv4, zero value -> 0.0.0.0:0).
func specNorm(a string) string {
	f := strings.Split(a, ":")
	switch {
	case f[0] == "z":
		return "4:00000000:0"
	case f[0] == "6" && isMapped(f[1]):
		return "4:" + f[1][24:] + ":" + f[2]
	}
	return a
}

func isV6(a string) bool {
	f := strings.Split(a, ":")
	return f[0] == "6" && !isMapped(f[1])
}

// specLimit: largest UDP payload that fits the MTU (IPv4 20, IPv6 40 (+8 jumbo option above 65575), UDP 8).
func specLimit(mtu int, v6 bool) int {
	if !v6 {
		return mtu - 20 - 8
	}
	if mtu > 65575 {
		return mtu - 40 - 8 - 8
	}
	return mtu - 40 - 8
}

// specFront: bytes a packer of protocol p must put in front of the payload (no padding).
func specFront(p proto, server bool, alen int) int {
	switch p.name {
	case "none":
		return alen
	case "socks5":
		return 3 + alen
	case "ss":
		if server {
			return 16 + (1 + 8 + 8 + 2) + alen
		}
		return 16 + 16*p.k + (1 + 8 + 2) + alen
	}
	return 0
}

func specRear(p proto) int {
	if p.name == "ss" {
		return 16
	}
	return 0
}

// ---------- oracles ----------

func (s *script) oraclePack(key string, inContract bool, r packRes, b, before []byte, start, n, limit int, fits bool, allowed string) {
	if !inContract {
		s.tag("excluded:" + r.class)
		return
	}
	switch {
	case r.class == "panic":
		s.fail(key+":panic", fmt.Sprintf("PackInPlace panicked (payloadStart=%d payloadLen=%d buffer=%d)", start, n, len(b)))
	case r.class == "noRoom":
		s.fail(key+":packet-outside-buffer", fmt.Sprintf("reported packet [%d,%d) does not lie in the %d-byte buffer (no room to seal in place)", r.ps, r.ps+r.pl, len(b)))
	case r.class == "err:tooBig":
		if fits {
			s.fail(key+":fitting-payload-refused", fmt.Sprintf("ErrPayloadTooBig for payloadLen=%d although it fits the limit %d", n, limit))
		}
		s.tag("toobig")
	case strings.HasPrefix(r.class, "err:"):
		if r.class != allowed {
			s.fail(key+":unexpected-error", r.class)
		}
	default:
		if !fits || r.pl > limit {
			s.fail(key+":exceeds-mtu", fmt.Sprintf("packetLen=%d accepted, limit %d (payloadLen=%d)", r.pl, limit, n))
		}
		if r.ps > start || r.ps+r.pl < start+n {
			s.fail(key+":window", fmt.Sprintf("packet [%d,%d) does not contain the payload [%d,%d)", r.ps, r.ps+r.pl, start, start+n))
		}
		if !bytes.Equal(b[:r.ps], before[:r.ps]) || !bytes.Equal(b[r.ps+r.pl:], before[r.ps+r.pl:]) {
			s.fail(key+":canary", fmt.Sprintf("bytes outside the packet [%d,%d) were modified", r.ps, r.ps+r.pl))
		}
	}
	if r.class != "ok" && r.class != "panic" && start+n <= len(b) {
		if !bytes.Equal(b[start:], before[start:]) {
			s.fail(key+":canary-on-error", "payload or bytes behind it modified although packing failed")
		}
	}
}

func (s *script) oracleUnpack(key string, u unpackRes, b, before []byte, wps, wpl int, wantAddr string, payload []byte) {
	switch {
	case u.class == "panic":
		s.fail(key+":panic", "UnpackInPlace panicked on a packet its peer packed")
		return
	case !u.ok():
		s.fail(key+":unpack-failed", u.class)
		return
	}
	if u.addr != wantAddr {
		s.fail(key+":roundtrip-addr", fmt.Sprintf("address %s came out as %s", wantAddr, u.addr))
	}
	if u.ps < 0 || u.pl < 0 || u.ps+u.pl > len(b) || !bytes.Equal(b[u.ps:u.ps+u.pl], payload) {
		s.fail(key+":roundtrip-payload", fmt.Sprintf("payload [%d,%d) differs from the %d bytes packed", u.ps, u.ps+u.pl, len(payload)))
	}
	if !bytes.Equal(b[:wps], before[:wps]) || !bytes.Equal(b[wps+wpl:], before[wps+wpl:]) {
		s.fail(key+":canary", fmt.Sprintf("bytes outside the packet [%d,%d) were modified by unpacking", wps, wps+wpl))
	}
}

func clone(b []byte) []byte { return append([]byte(nil), b...) }

var clientAP = netip.MustParseAddrPort("198.51.100.7:40000")
var clientAP6 = netip.MustParseAddrPort("[2001:db8:7::7]:40000")

func downstream(v6 bool) netip.AddrPort {
	if v6 {
		return clientAP6
	}
	return clientAP
}

// tsOf returns the timestamp (and, for ss, session id) of a packed ss2022 packet; zeros otherwise.
func (w *world) tsOfClientPacket(b []byte, r packRes) (ts, sid []byte) {
	if w.p.name == "ss" && r.ok() {
		if o := w.openClientPacket(b[r.ps : r.ps+r.pl]); o.ok {
			return clone(o.ts), clone(o.sep[:8])
		}
	}
	return zero8, zero8
}

func (w *world) tsOfServerPacket(b []byte, r packRes) (ts, csid []byte) {
	if w.p.name == "ss" && r.ok() {
		if o := w.openServerPacket(b[r.ps : r.ps+r.pl]); o.ok {
			return clone(o.ts), clone(o.plain[9:17])
		}
	}
	return zero8, zero8
}

// prime makes the server side of an ss2022 world complete (unpacker + packer) by one throw-away exchange.
func (w *world) prime() error {
	if w.p.name != "ss" || w.sPacker != nil {
		return nil
	}
	if w.p.k > 1 {
		return fmt.Errorf("no server packer for %d identity headers", w.p.k)
	}
	s := &script{}
	b := canaryBuf(2000, 1)
	r := s.clientPack(w, b, "4:7f000001:9", 1500, 8, "n", nil)
	if !r.ok() {
		return fmt.Errorf("prime: pack %s", r.class)
	}
	ts, _ := w.tsOfClientPacket(b, r)
	if u := s.serverUnpack(w, b, clientAP, r.ps, r.pl, ts, nil); !u.ok() {
		return fmt.Errorf("prime: unpack %s", u.class)
	}
	return nil
}

// dirLimit: the direct client's limit follows the family of the address the packet goes to; for a domain
// target that is the resolver's answer.
func dirLimit(mtu int, addr string, res ...string) int {
	if strings.HasPrefix(addr, "d:") && len(res) == 1 && res[0] != "" {
		return specLimit(mtu, isV6(res[0]+":0"))
	}
	return specLimit(mtu, isV6(addr))
}

// directAllowed: a domain target whose resolution fails is refused with the resolver's error.
func directAllowed(p proto, addr, res string) string {
	if p.name == "direct" && strings.HasPrefix(addr, "d:") && res == "" {
		return "err:resolve"
	}
	return ""
}

// ---------- flows ----------

func runCase(c Case) (s *script) {
	s = &script{}
	defer func() {
		if p := recover(); p != nil {
			s.notes = append(s.notes, fmt.Sprintf("harness error: %v", p))
			s.fail("harness", fmt.Sprint(p))
		}
	}()
	switch c.Kind {
	case "pair":
		runPair(s, c)
	case "up":
		runUp(s, c)
	case "down":
		runDown(s, c)
	case "roam":
		runRoam(s, c)
	case "hist":
		runHist(s, c)
	default:
		panic("unknown case kind " + c.Kind)
	}
	return
}

func mustWorld(p proto, mtu int, srv6 bool, c Case, salt uint64) *world {
	tun := c.Tunnel
	if tun == "" {
		tun = "4:c0000209:5353"
	}
	t, err := connAddr(tun)
	if err != nil {
		panic(err)
	}
	w, err := newWorld(p, mtu, srv6, c.PolC, c.PolS, t, c.Only, c.Seed*2654435761+salt)
	if err != nil {
		panic(err)
	}
	w.res = c.Res
	return w
}

func clamp0(x int) int {
	if x < 0 {
		return 0
	}
	return x
}

func runPair(s *script, c Case) {
	p := parseProto(c.C)
	w := mustWorld(p, c.MTU, c.Srv6, c, 1)
	s.info(w, c.Srv6)
	key := "pair:" + p.name

	// ---- client packs, server unpacks ----
	alen := specAddrLen(c.Addr)
	front, rear := specFront(p, false, alen), specRear(p)
	start, behind := clamp0(front+c.Slack), clamp0(rear+c.RearSlack)
	b := s.newBuf(start+c.Len+behind, c.Seed)
	s.fill(b, start, c.Len, c.Seed>>8)
	before := clone(b)
	limit := specLimit(c.MTU, c.Srv6)
	if p.name == "direct" {
		limit = dirLimit(c.MTU, c.Addr, c.Res)
	}
	r := s.clientPack(w, b, c.Addr, start, c.Len, c.PolC, nil)
	inContract := start >= front && behind >= rear
	s.oraclePack(key+":client-pack", inContract, r, b, before, start, c.Len, limit, front+c.Len+rear <= limit, directAllowed(p, c.Addr, c.Res))
	if r.ok() {
		s.tag("pack-ok")
		ts, _ := w.tsOfClientPacket(b, r)
		pre := clone(b)
		u := s.serverUnpack(w, b, downstream(c.Cli6), r.ps, r.pl, ts, nil)
		want := specNorm(c.Addr)
		if p.name == "direct" {
			want = showConnAddr(w.tunnel) // the direct server names its configured tunnel address
		}
		s.oracleUnpack(key+":server-unpack", u, b, pre, r.ps, r.pl, want, before[start:start+c.Len])
	}

	// ---- server packs a reply, client unpacks ----
	if p.name == "ss" && p.k > 1 {
		return // this repository has no server for more than one identity layer
	}
	if err := w.prime(); err != nil {
		panic(err)
	}
	alen2 := specAddrLen(c.Src)
	front2 := specFront(p, true, alen2)
	start2 := clamp0(front2 + c.Slack)
	b2 := s.newBuf(start2+c.Len2+behind, c.Seed+1)
	s.fill(b2, start2, c.Len2, c.Seed>>16)
	before2 := clone(b2)
	limit2 := specLimit(c.MTU, c.Cli6)
	maxClientPacketSize := zerocopy.MaxPacketSizeForAddr(c.MTU, downstream(c.Cli6).Addr())
	r2 := s.serverPack(w, b2, c.Src, start2, c.Len2, maxClientPacketSize, c.PolS, c.Only, nil)
	allowed := ""
	if p.name == "direct" && c.Only && specNorm(c.Src) != specNorm(showConnAddr(w.tunnel)) {
		allowed = "err:source" // tunnelUDPTargetOnly drops packets from other sources by design
	}
	s.oraclePack(key+":server-pack", start2 >= front2 && behind >= rear, r2, b2, before2, start2, c.Len2, limit2, front2+c.Len2+rear <= limit2, allowed)
	if r2.ok() {
		s.tag("reply-ok")
		ts, csid := w.tsOfServerPacket(b2, r2)
		pre := clone(b2)
		from := w.serverAP
		want := specNorm(c.Src)
		if p.name == "direct" {
			from, _ = addrPort(c.Src)
			want = c.Src // the direct client reports the socket's source address as it is
		}
		u2 := s.clientUnpack(w, b2, from, r2.ps, r2.pl, ts, csid, nil)
		s.oracleUnpack(key+":client-unpack", u2, b2, pre, r2.ps, r2.pl, want, before2[start2:start2+c.Len2])
	}
}

var infoCache sync.Map // proto string -> zerocopy.Headroom of UDPClient.Info()

func clientInfo(p string) zerocopy.Headroom {
	if h, ok := infoCache.Load(p); ok {
		return h.(zerocopy.Headroom)
	}
	w, err := newWorld(parseProto(p), 1500, false, "n", "n", mustTunnel("4:c0000209:5353"), false, 7)
	if err != nil {
		panic(err)
	}
	infoCache.Store(p, w.cInfo)
	return w.cInfo
}

func mustTunnel(t string) conn.Addr {
	a, err := connAddr(t)
	if err != nil {
		panic(err)
	}
	return a
}

func runUp(s *script, c Case) {
	sp, cp := parseProto(c.S), parseProto(c.C)
	ws := mustWorld(sp, c.RMTU, false, c, 2)  // remote client + our server
	wc := mustWorld(cp, c.CMTU, c.Srv6, c, 3) // our client + the far server
	s.info(ws, false)
	s.info(wc, c.Srv6)
	key := "up:" + sp.name + ">" + cp.name

	// the layout ServerConfig.UDPRelay computes
	maxClient := wc.cInfo
	for _, o := range c.Others {
		h := clientInfo(o)
		s.add(fmt.Sprintf("maxheadroom af=%d ar=%d bf=%d br=%d", maxClient.Front, maxClient.Rear, h.Front, h.Rear),
			fmt.Sprintf("%d %d", zerocopy.MaxHeadroom(maxClient, h).Front, zerocopy.MaxHeadroom(maxClient, h).Rear))
		maxClient = zerocopy.MaxHeadroom(maxClient, h)
	}
	h := zerocopy.UDPRelayHeadroom(maxClient, ws.suInfo)
	recvSize := zerocopy.MaxPacketSizeForAddr(c.MTU, netip.IPv4Unspecified())
	size := h.Front + recvSize + h.Rear
	s.add(fmt.Sprintf("layout up mtu=%d cf=%d cr=%d server=%s", c.MTU, maxClient.Front, maxClient.Rear, sp),
		fmt.Sprintf("%d %d %d", h.Front, recvSize, size))

	// the remote client produces the packet that arrives
	addr := c.Addr
	if sp.name == "direct" {
		addr = "4:7f000001:7" // a direct client sends the bare payload; the address is the server's tunnel address
	}
	alen := specAddrLen(addr)
	front, rear := specFront(sp, false, alen), specRear(sp)
	start := front + clamp0(c.Slack)
	rb := s.newBuf(start+c.Len+rear+clamp0(c.RearSlack), c.Seed)
	s.fill(rb, start, c.Len, c.Seed>>8)
	payload := clone(rb[start : start+c.Len])
	r := s.clientPack(ws, rb, addr, start, c.Len, c.PolC, nil)
	if !r.ok() {
		s.tag("remote-pack:" + r.class)
		return
	}
	if r.pl > recvSize {
		s.tag("remote-packet-larger-than-recv-window")
		return
	}
	ts, _ := ws.tsOfClientPacket(rb, r)
	b := s.move(rb, r.ps, r.pl, size, h.Front, c.Seed+1)
	pre := clone(b)
	u := s.serverUnpack(ws, b, downstream(c.Cli6), h.Front, r.pl, ts, nil)
	want := specNorm(addr)
	if sp.name == "direct" {
		want = showConnAddr(ws.tunnel)
	}
	s.oracleUnpack(key+":server-unpack", u, b, pre, h.Front, r.pl, want, payload)
	if !u.ok() {
		return
	}

	// our client re-packs in place
	alen2 := specAddrLen(u.addr)
	front2, rear2 := specFront(cp, false, alen2), specRear(cp)
	limit := specLimit(c.CMTU, c.Srv6)
	if cp.name == "direct" {
		limit = dirLimit(c.CMTU, u.addr, c.Res)
	}
	before := clone(b)
	r2 := s.clientPack(wc, b, u.addr, u.ps, u.pl, c.PolS, &win{h.Front, h.Front + r.pl})
	s.oraclePack(key+":client-repack", true, r2, b, before, u.ps, u.pl, limit, front2+u.pl+rear2 <= limit, directAllowed(cp, u.addr, c.Res))
	if !r2.ok() {
		return
	}
	s.tag("relayed")
	ts2, _ := wc.tsOfClientPacket(b, r2)
	pre2 := clone(b)
	u2 := s.serverUnpack(wc, b, clientAP, r2.ps, r2.pl, ts2, &win{h.Front, h.Front + r.pl})
	want2 := specNorm(u.addr)
	if cp.name == "direct" {
		want2 = showConnAddr(wc.tunnel)
	}
	s.oracleUnpack(key+":far-server-unpack", u2, b, pre2, r2.ps, r2.pl, want2, payload)
}

func runDown(s *script, c Case) {
	sp, cp := parseProto(c.S), parseProto(c.C)
	ws := mustWorld(sp, c.MTU, false, c, 4)   // our server + the downstream client
	wc := mustWorld(cp, c.CMTU, c.Srv6, c, 5) // our client + the far server (MTU of the far server: RMTU)
	if err := ws.prime(); err != nil {
		panic(err)
	}
	if err := wc.prime(); err != nil {
		panic(err)
	}
	s.info(ws, false)
	s.info(wc, c.Srv6)
	key := "down:" + sp.name + "<" + cp.name

	// the layout relayNatConnToServerConnGeneric computes
	pk, un := ws.sPacker.ServerPackerInfo().Headroom, wc.cUnpacker.ClientUnpackerInfo().Headroom
	h := zerocopy.UDPRelayHeadroom(pk, un)
	recvSize := wc.cMax
	size := h.Front + recvSize + h.Rear
	sess := 0
	if sp.name == "ss" {
		sess = 1
	}
	s.add(fmt.Sprintf("layout down session=%d recv=%d server=%s client=%s", sess, recvSize, sp, cp), fmt.Sprintf("%d %d %d", h.Front, recvSize, size))

	// the far server produces the reply that arrives
	alen := specAddrLen(c.Src)
	front, rear := specFront(cp, true, alen), specRear(cp)
	start := front + clamp0(c.Slack)
	fb := s.newBuf(start+c.Len+rear+clamp0(c.RearSlack), c.Seed)
	s.fill(fb, start, c.Len, c.Seed>>8)
	payload := clone(fb[start : start+c.Len])
	farLimit := zerocopy.MaxPacketSizeForAddr(c.RMTU, netip.IPv4Unspecified())
	r := s.serverPack(wc, fb, c.Src, start, c.Len, farLimit, c.PolC, false, nil)
	if !r.ok() {
		s.tag("remote-pack:" + r.class)
		return
	}
	if r.pl > recvSize {
		s.tag("remote-packet-larger-than-recv-window")
		return
	}
	ts, csid := wc.tsOfServerPacket(fb, r)
	b := s.move(fb, r.ps, r.pl, size, h.Front, c.Seed+1)
	pre := clone(b)
	from := wc.serverAP
	want := specNorm(c.Src)
	if cp.name == "direct" {
		from, _ = addrPort(c.Src)
		want = c.Src
	}
	u := s.clientUnpack(wc, b, from, h.Front, r.pl, ts, csid, nil)
	s.oracleUnpack(key+":client-unpack", u, b, pre, h.Front, r.pl, want, payload)
	if !u.ok() {
		return
	}

	// our server re-packs in place for the downstream client
	alen2 := specAddrLen(u.addr)
	front2, rear2 := specFront(sp, true, alen2), specRear(sp)
	limit := specLimit(c.MTU, c.Cli6)
	maxClientPacketSize := zerocopy.MaxPacketSizeForAddr(c.MTU, downstream(c.Cli6).Addr())
	before := clone(b)
	allowed := ""
	if sp.name == "direct" && c.Only && specNorm(u.addr) != specNorm(showConnAddr(ws.tunnel)) {
		allowed = "err:source"
	}
	r2 := s.serverPack(ws, b, u.addr, u.ps, u.pl, maxClientPacketSize, c.PolS, c.Only, &win{h.Front, h.Front + r.pl})
	s.oraclePack(key+":server-repack", true, r2, b, before, u.ps, u.pl, limit, front2+u.pl+rear2 <= limit, allowed)
	if !r2.ok() {
		return
	}
	s.tag("relayed")
	ts2, csid2 := ws.tsOfServerPacket(b, r2)
	pre2 := clone(b)
	from2 := ws.serverAP
	want2 := specNorm(u.addr)
	if sp.name == "direct" {
		from2, _ = addrPort(u.addr)
		want2 = u.addr
	}
	u2 := s.clientUnpack(ws, b, from2, r2.ps, r2.pl, ts2, csid2, &win{h.Front, h.Front + r.pl})
	s.oracleUnpack(key+":downstream-unpack", u2, b, pre2, r2.ps, r2.pl, want2, payload)
}

// ---------- evaluation ----------

type result struct {
	c      Case
	s      *script
	model  []string
	drvErr error
}

func evalBatch(cases []Case, driver string) []result {
	res := make([]result, len(cases))
	var lines []string
	for i, c := range cases {
		res[i] = result{c: c, s: runCase(c)}
		lines = append(lines, res[i].s.lines...)
	}
	if driver == "" || len(lines) == 0 {
		return res // nothing to compare (e.g. a relay scenario abandoned before its first operation)
	}
	out, err := common.RunDriverOnce(driver, lines)
	pos := 0
	for i := range res {
		n := len(res[i].s.lines)
		if err != nil {
			res[i].drvErr = err
			continue
		}
		res[i].model = out[pos : pos+n]
		pos += n
	}
	return res
}

func sig(c Case) string {
	b, _ := json.Marshal(c)
	return string(b)
}

func record(rep *common.Report, r result, haveDriver bool) {
	c, s := r.c, r.s
	relayed := false
	for _, t := range s.tags {
		rep.Count(c.Kind + ":" + t)
		if t == "relayed" || t == "reply-ok" || t == "pack-ok" {
			relayed = true
		}
	}
	rep.Case(sig(c), relayed)
	switch c.Kind {
	case "pair":
		rep.Count("pair " + c.C)
	case "roam":
		rep.Count("roam " + c.S + " batch=" + c.Batch)
	case "hist":
		if c.Down {
			rep.Count("hist-down " + c.C)
		} else {
			rep.Count("hist " + c.C)
		}
	default:
		rep.Count(c.Kind + " " + c.S + "/" + c.C)
	}
	if (c.Kind == "pair" || c.Kind == "up") && c.C == "direct" && strings.HasPrefix(c.Addr, "d:") {
		rep.Count("direct-client domain target, resolver " + map[bool]string{true: "fails", false: "answers"}[c.Res == ""])
	}
	rep.Count(fmt.Sprintf("mtu=%d", c.MTU))
	if c.Kind != "roam" && c.Kind != "hist" {
		rep.Count("addr=" + strings.SplitN(c.Addr, ":", 2)[0])
	}
	for _, f := range s.fails {
		f.Case = c
		rep.Fail(f)
	}
	for _, n := range s.notes {
		rep.Note("%s", n)
	}
	if haveDriver {
		if r.drvErr != nil {
			rep.Diverge(common.Divergence{Engine: "packet", Case: c, Impl: "-", Model: "driver failed: " + r.drvErr.Error()})
			return
		}
		for i := range s.lines {
			if s.impl[i] != r.model[i] {
				rep.Diverge(common.Divergence{Engine: "packet", Case: c, Impl: s.impl[i], Model: r.model[i], Note: s.lines[i]})
				break
			}
		}
		rep.TracesValidated++
	}
	if len(rep.Samples) < 6 && relayed {
		rep.Sample(map[string]any{"case": c, "ops": len(s.lines), "last_op": s.lines[len(s.lines)-1], "impl": s.impl[len(s.impl)-1]})
	}
}

func evalAll(all []Case, o *common.Options, rep *common.Report) {
	var cases, roams []Case
	for _, c := range all {
		if c.Kind == "roam" && os.Getenv("C05_ROAM_CHILD") == "" {
			roams = append(roams, c)
		} else {
			cases = append(cases, c)
		}
	}
	// relay-level scenarios run a real relay whose goroutines can panic (Go cannot recover another goroutine's
	// panic): every scenario runs in a child process; a child that dies is the failing input.
	for lo := 0; lo < len(roams); lo += 4 {
		hi := min(lo+4, len(roams))
		var wg sync.WaitGroup
		rs := make([]roamChildResult, hi-lo)
		for i := lo; i < hi; i++ {
			wg.Add(1)
			go func(i int) {
				defer wg.Done()
				rs[i-lo] = runRoamChild(roams[i], o)
			}(i)
		}
		wg.Wait()
		for i, r := range rs {
			mergeRoam(rep, roams[lo+i], r, o.Driver != "")
		}
	}
	const batch = 150
	workers := 12
	type job struct{ lo, hi int }
	jobs := make(chan job)
	results := make([][]result, (len(cases)+batch-1)/batch)
	var wg sync.WaitGroup
	for w := 0; w < workers; w++ {
		wg.Add(1)
		go func() {
			defer wg.Done()
			for j := range jobs {
				results[j.lo/batch] = evalBatch(cases[j.lo:j.hi], o.Driver)
			}
		}()
	}
	for lo := 0; lo < len(cases); lo += batch {
		hi := lo + batch
		if hi > len(cases) {
			hi = len(cases)
		}
		jobs <- job{lo, hi}
	}
	close(jobs)
	wg.Wait()
	for _, rs := range results {
		for _, r := range rs {
			record(rep, r, o.Driver != "")
		}
	}
}

func main() {
	o := common.ParseFlags()
	rep := common.NewReport("C05", o)
	rep.Engines = []string{"packet", "roam"}
	rep.Rule = "engine packet: (pair) client pack -> server unpack and server pack -> client unpack for direct/none/socks5/ss2022 with 0..3 identity headers; " +
		"(up/down) a remote peer's packet placed at the service's receive offset of the relay buffer (UDPRelayHeadroom layout), unpacked, re-packed in place by every other protocol, unpacked by the far peer; " +
		"canary-filled buffers with cap=len, payloadStart = minimal front + slack (slack -1 = excluded point, compared with the model only), payload lengths 0..3, max-3..max+2 and random, " +
		"addresses IPv4 / IPv4-mapped / IPv6 / domain 1..255 / zero value, ports 0,1,53,65535,random, MTU {1280,1492,1500,9000,65535,+jumbo}, padding policies; " +
		"the padding length, timestamp and ids the code chose are read back by decrypting a copy and given to the model; compared per operation: outcome class, offsets, address, hash of the plaintext packet, of the payload and of the bytes before/behind the packet; " +
		"a case is non-trivial if at least one pack+unpack round trip succeeded; distinct by the full case description. " +
		"histories (kind hist): 2..8 packets of one session through the SAME packer/unpacker instances and the SAME backing buffer at a fixed offset (and shifted offsets): domains of equal length, repeated domains, IP targets and refused packets in between; " +
		"for the direct client a scripted resolver (net.DefaultResolver replaced) answers or fails per name and step; oracle per packet: what comes out is what this packet carried / a domain target is addressed only to an address the resolver gave for that very name. " +
		"engine roam: a relay built through service.Config->Manager on a dual-stack loopback socket (ss2022 session relay or none NAT relay, generic and sendmmsg loops) with the direct client and a UDP echo target; " +
		"one ss2022 client session moves between 127.0.0.1 (seen as ::ffff:127.0.0.1) and ::1 along every history of length <= 3 (+ random longer ones); after each move replies sized MTU-48±2 and MTU-28±2 are requested; " +
		"oracle: no datagram delivered to a client exceeds the limit of the MTU and that client's address family, delivered payloads are the ones sent, fitting replies arrive; compared with the model: the largest reply let through = the cached limit the Lean model predicts for that history"
	if o.Replay != "" {
		var c Case
		if err := common.LoadReplay(o.Replay, &c); err != nil {
			fmt.Fprintln(os.Stderr, "corr_c05:", err)
			os.Exit(3)
		}
		evalAll([]Case{c}, o, rep)
	} else {
		r := common.NewRng(o.Seed)
		var cases []Case
		cases = append(cases, directed()...)
		cases = append(cases, roamCases(r.Fork(1<<40), o)...)
		cases = append(cases, directedHist()...)
		nHist := o.Budget(1500, 60000)
		for i := 0; i < nHist; i++ {
			cases = append(cases, genHist(r.Fork(uint64(1<<41+i)), i))
		}
		for i := 0; i < nHist/2; i++ {
			cases = append(cases, genHistDown(r.Fork(uint64(1<<42+i)), i))
		}
		nPair := o.Budget(4000, 120000)
		nRelay := o.Budget(2500, 60000)
		for i := 0; i < nPair; i++ {
			cases = append(cases, genPair(r.Fork(uint64(i))))
		}
		for i := 0; i < nRelay; i++ {
			cases = append(cases, genRelay(r.Fork(uint64(1<<32+i)), i))
		}
		evalAll(cases, o, rep)
	}
	if err := rep.Write(o.Out); err != nil {
		fmt.Fprintln(os.Stderr, err)
		os.Exit(3)
	}
}

var _ = hex.EncodeToString

// ---------- child processes for the relay-level scenarios ----------

type roamChildResult struct {
	rep  *common.Report
	died string // non-empty: the child exited without a report (stderr tail)
}

func runRoamChild(c Case, o *common.Options) roamChildResult {
	dir, err := os.MkdirTemp("", "c05roam")
	if err != nil {
		return roamChildResult{died: err.Error()}
	}
	defer os.RemoveAll(dir)
	body, _ := json.Marshal(map[string]any{"case": c})
	in, out := filepath.Join(dir, "case.json"), filepath.Join(dir, "rep.json")
	if err := os.WriteFile(in, body, 0o644); err != nil {
		return roamChildResult{died: err.Error()}
	}
	args := []string{"--tier", o.Tier, "--seed", fmt.Sprint(o.Seed), "--replay", in, "--out", out}
	if o.Driver != "" {
		args = append(args, "--driver", o.Driver)
	}
	cmd := exec.Command(os.Args[0], args...)
	cmd.Env = append(os.Environ(), "C05_ROAM_CHILD=1")
	var stderr bytes.Buffer
	cmd.Stderr = &stderr
	runErr := cmd.Run()
	if b, err := os.ReadFile(out); err == nil {
		var r common.Report
		if json.Unmarshal(b, &r) == nil {
			return roamChildResult{rep: &r}
		}
	}
	tail := stderr.String()
	// keep the head of the crash (panic message and the first frames), not the goroutine dump's tail
	if i := strings.Index(tail, "panic:"); i >= 0 {
		tail = tail[i:]
	} else if i := strings.Index(tail, "fatal error:"); i >= 0 {
		tail = tail[i:]
	}
	if len(tail) > 700 {
		tail = tail[:700]
	}
	return roamChildResult{died: fmt.Sprintf("%v: %s", runErr, tail)}
}

func mergeRoam(rep *common.Report, c Case, r roamChildResult, haveDriver bool) {
	rep.Count("roam " + c.S + " batch=" + c.Batch)
	if r.rep == nil {
		loop := "generic"
		if c.Batch == "" {
			loop = "mmsg"
		}
		rep.Case(sig(c), false)
		rep.Fail(common.OracleFailure{Engine: "roam", Key: "roam:" + c.S + ":" + loop + ":relay-process-died", Case: c,
			Detail: "the process running the relay died during this scenario (a panic in a relay goroutine cannot be recovered): " + r.died})
		return
	}
	ch := r.rep
	rep.Case(sig(c), ch.DistinctNontrivial > 0)
	for k, v := range ch.Distribution {
		if strings.HasPrefix(k, "roam:") {
			rep.Distribution[k] += v
		}
	}
	for _, d := range ch.Divergences {
		d.Engine = "roam"
		rep.Diverge(d)
	}
	for _, f := range ch.OracleFailures {
		f.Engine = "roam"
		rep.Fail(f)
	}
	for _, n := range ch.Notes {
		rep.Note("%s", n)
	}
	if haveDriver {
		rep.TracesValidated += ch.TracesValidated
	}
}
