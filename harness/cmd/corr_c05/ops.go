package main

// One case = a script: every operation is executed on the real code and, as a line of the driver's
// protocol, on the Lean model; the implementation's observable result is rendered in the format the
// driver prints, so correspondence is line-by-line string equality.

import (
	"context"
	"encoding/hex"
	"fmt"
	"net/netip"
	"strings"

	"ssvharness/internal/common"

	"github.com/database64128/shadowsocks-go/conn"
	"github.com/database64128/shadowsocks-go/zerocopy"
)

type script struct {
	lines []string
	impl  []string
	fails []common.OracleFailure
	notes []string
	tags  []string // distribution buckets
}

func (s *script) add(line, impl string) {
	s.lines = append(s.lines, line)
	s.impl = append(s.impl, impl)
}

func (s *script) fail(key, detail string) {
	s.fails = append(s.fails, common.OracleFailure{Engine: "packet", Key: key, Detail: detail})
}

func (s *script) tag(t string) { s.tags = append(s.tags, t) }

func (s *script) newBuf(n int, seed uint64) []byte {
	s.add(fmt.Sprintf("buf %d %d", n, seed%256), "ok")
	return canaryBuf(n, seed%256)
}

func (s *script) fill(b []byte, start, n int, seed uint64) {
	s.add(fmt.Sprintf("fill %d %d %d", start, n, seed%256), "ok")
	fillPayload(b, start, n, seed%256)
}

// move copies src[ps:ps+pl] into a fresh canary buffer of the given size at offset `at`.
func (s *script) move(src []byte, ps, pl, size, at int, seed uint64) []byte {
	s.add(fmt.Sprintf("take %d %d", ps, pl), "ok")
	b := s.newBuf(size, seed)
	s.add(fmt.Sprintf("put %d", at), "ok")
	copy(b[at:], src[ps:ps+pl])
	return b
}

type packRes struct {
	class  string // ok | err:<class> | panic | noRoom
	ps, pl int
	dest   netip.AddrPort
}

func (r packRes) ok() bool { return r.class == "ok" }

func hx(b []byte) string {
	if len(b) == 0 {
		return "-"
	}
	return hex.EncodeToString(b)
}

var zero8 = make([]byte, 8)

// win: an earlier packet window (relay: the receive window) whose bytes depend on the cipher; the
// compared prefix/suffix hashes stay outside both windows.
type win struct{ s, e int }

func (w *win) arg() string {
	if w == nil {
		return ""
	}
	return fmt.Sprintf(" ws=%d we=%d", w.s, w.e)
}

func renderPack(b []byte, class string, ps, pl int, view []byte, w *win) string {
	if class != "ok" {
		if len(class) > 4 && class[:4] == "err:" {
			return "err " + class[4:]
		}
		return class
	}
	lo, hi := ps, ps+pl
	if w != nil {
		lo, hi = min(lo, w.s), max(hi, w.e)
	}
	return fmt.Sprintf("ok %d %d %s %s %s", ps, pl, fnv(view), fnv(b[:lo]), fnv(b[hi:]))
}

func classify(pan any, err error, b []byte, ps, pl int) string {
	switch {
	case pan != nil:
		return "panic"
	case err != nil:
		return "err:" + errClass(err)
	case ps < 0 || pl < 0 || ps+pl > len(b):
		// the packet the function reports does not lie in the buffer: the in-place seal had no room
		// (Go sealed into a fresh allocation) or the payload window was outside the buffer
		return "noRoom"
	}
	return "ok"
}

// clientPack runs w's client packer on b.
func (s *script) clientPack(w *world, b []byte, addr string, start, n int, pol string, rw *win) packRes {
	ca, err := connAddr(addr)
	if err != nil {
		panic(err)
	}
	var r packRes
	var e error
	if w.p.name == "direct" && strings.HasPrefix(addr, "d:") {
		// the target is a scripted host: its answer (or failure) is part of the case
		name := ca.Domain()
		if w.res == "" {
			scriptDNS().fail(name)
		} else {
			ip, err := addrPort(w.res + ":0")
			if err != nil {
				panic(err)
			}
			scriptDNS().set(name, ip.Addr())
		}
	}
	pan := common.Safely(func() { r.dest, r.ps, r.pl, e = w.cPacker.PackInPlace(context.Background(), b, ca, start, n) })
	r.class = classify(pan, e, b, r.ps, r.pl)
	var line string
	view := []byte(nil)
	switch w.p.name {
	case "ss":
		rnd, ts, sid, pid := 0, zero8, zero8, zero8
		if r.ok() {
			o := w.openClientPacket(b[r.ps : r.ps+r.pl])
			if !o.ok {
				s.fail("pack:ssc:packet-not-decryptable", fmt.Sprintf("client packet at [%d,%d) does not open with the session keys", r.ps, r.ps+r.pl))
				r.class = "err:undecryptable"
			} else {
				if o.pad > 0 {
					rnd = o.pad - 1
				}
				ts, sid, pid = o.ts, o.sep[:8], o.sep[8:]
				view = append(append(append([]byte(nil), o.sep...), w.hashes...), o.plain...)
			}
		}
		line = fmt.Sprintf("pack ssc eih=%s mps=%d pol=%s addr=%s start=%d len=%d rand=%d ts=%s sid=%s pid=%s",
			hx(w.hashes), w.cMax, w.polC, addr, start, n, rnd, hx(ts), hx(sid), hx(pid))
	case "none":
		line = fmt.Sprintf("pack nonec limit=%d addr=%s start=%d len=%d", w.cMax, addr, start, n)
	case "socks5":
		line = fmt.Sprintf("pack socks5c limit=%d addr=%s start=%d len=%d", w.cMax, addr, start, n)
	case "direct":
		res := "-"
		if strings.HasPrefix(addr, "d:") && w.res != "" {
			res = w.res
		}
		line = fmt.Sprintf("pack directc mtu=%d res=%s addr=%s start=%d len=%d", w.mtu, res, addr, start, n)
	}
	if r.ok() && view == nil {
		view = b[r.ps : r.ps+r.pl]
	}
	s.add(line+rw.arg(), renderPack(b, r.class, r.ps, r.pl, view, rw)+refusedSuffix(w, r.class, b, rw))
	return r
}

// refusedSuffix: a refused none / SOCKS5 pack has still written its header; what the buffer holds afterwards is
// compared with the model's refused buffer.
func refusedSuffix(w *world, class string, b []byte, rw *win) string {
	// (not in the relay flows: there the buffer holds cipher-dependent leftovers of the preceding unpack)
	if rw == nil && (w.p.name == "none" || w.p.name == "socks5") && strings.HasPrefix(class, "err:") {
		return " " + fnv(b)
	}
	return ""
}

// serverPack runs w's server packer on b (the packer exists once the server has unpacked a packet).
func (s *script) serverPack(w *world, b []byte, src string, start, n, maxPacketLen int, pol string, only bool, rw *win) packRes {
	ap, err := addrPort(src)
	if err != nil {
		panic(err)
	}
	var r packRes
	var e error
	pan := common.Safely(func() { r.ps, r.pl, e = w.sPacker.PackInPlace(b, ap, start, n, maxPacketLen) })
	r.class = classify(pan, e, b, r.ps, r.pl)
	var line string
	view := []byte(nil)
	switch w.p.name {
	case "ss":
		rnd, ts, ssid, spid, csid := 0, zero8, zero8, zero8, zero8
		if r.ok() {
			o := w.openServerPacket(b[r.ps : r.ps+r.pl])
			if !o.ok {
				s.fail("pack:sss:packet-not-decryptable", fmt.Sprintf("server packet at [%d,%d) does not open with the session keys", r.ps, r.ps+r.pl))
				r.class = "err:undecryptable"
			} else {
				if o.pad > 0 {
					rnd = o.pad - 1
				}
				ts, ssid, spid, csid = o.ts, o.sep[:8], o.sep[8:], o.plain[9:17]
				view = append(append([]byte(nil), o.sep...), o.plain...)
			}
		}
		line = fmt.Sprintf("pack sss pol=%s src=%s start=%d len=%d max=%d rand=%d ts=%s ssid=%s spid=%s csid=%s",
			w.polS, src, start, n, maxPacketLen, rnd, hx(ts), hx(ssid), hx(spid), hx(csid))
	case "none":
		line = fmt.Sprintf("pack nones src=%s start=%d len=%d max=%d", src, start, n, maxPacketLen)
	case "socks5":
		line = fmt.Sprintf("pack socks5s src=%s start=%d len=%d max=%d", src, start, n, maxPacketLen)
	case "direct":
		o := 0
		if w.only {
			o = 1
		}
		line = fmt.Sprintf("pack directs target=%s only=%d src=%s start=%d len=%d max=%d", showConnAddr(w.tunnel), o, src, start, n, maxPacketLen)
	}
	if r.ok() && view == nil {
		view = b[r.ps : r.ps+r.pl]
	}
	s.add(line+rw.arg(), renderPack(b, r.class, r.ps, r.pl, view, rw)+refusedSuffix(w, r.class, b, rw))
	return r
}

type unpackRes struct {
	class  string
	addr   string // model notation
	ps, pl int
}

func (r unpackRes) ok() bool { return r.class == "ok" }

func renderUnpack(b []byte, r unpackRes, wps, wpl int, w *win) string {
	if r.class != "ok" {
		if len(r.class) > 4 && r.class[:4] == "err:" {
			return "err " + r.class[4:]
		}
		return r.class
	}
	pay := []byte(nil)
	if r.ps >= 0 && r.pl >= 0 && r.ps+r.pl <= len(b) {
		pay = b[r.ps : r.ps+r.pl]
	}
	lo, hi := wps, wps+wpl
	if w != nil {
		lo, hi = min(lo, w.s), max(hi, w.e)
	}
	return fmt.Sprintf("ok %s %d %d %s %s %s", r.addr, r.ps, r.pl, fnv(pay), fnv(b[:lo]), fnv(b[hi:]))
}

// serverUnpack runs the server side of w on the packet b[ps:ps+pl] the way the relay services do.
// ts = the timestamp inside the packet (the model validates against it; the code uses time.Now()).
func (s *script) serverUnpack(w *world, b []byte, from netip.AddrPort, ps, pl int, ts []byte, rw *win) unpackRes {
	var r unpackRes
	var a conn.Addr
	var e error
	now := int64(0)
	for _, x := range ts {
		now = now<<8 | int64(x)
	}
	pan := common.Safely(func() {
		switch {
		case w.p.name == "ss" && w.p.k <= 1:
			pkt := b[ps : ps+pl]
			var csid uint64
			csid, e = w.ssServer.SessionInfo(pkt)
			if e != nil {
				return
			}
			if w.sUnpacker == nil {
				var u zerocopy.ServerUnpacker
				u, _, e = w.ssServer.NewUnpacker(pkt, csid)
				if e != nil {
					return
				}
				w.sUnpacker = u
			}
			a, r.ps, r.pl, e = w.sUnpacker.UnpackInPlace(b, from, ps, pl)
			if e == nil && w.sPacker == nil {
				w.sPacker, e = w.sUnpacker.NewPacker()
			}
		case w.p.name == "ss":
			a, r.ps, r.pl, e = w.assembledServerUnpack(b, ps, pl, &w.dc) // one DomainCache per unpacker, as in the real one
		default:
			a, r.ps, r.pl, e = w.sUnpacker.UnpackInPlace(b, from, ps, pl)
		}
	})
	switch {
	case pan != nil:
		r.class = "panic"
	case e != nil:
		r.class = "err:" + errClass(e)
	default:
		r.class = "ok"
		r.addr = showConnAddr(a)
	}
	var line string
	switch w.p.name {
	case "ss":
		lookup, uhash := 0, "-"
		if w.p.k == 1 {
			lookup, uhash = 1, hx(w.hashes[:16])
		}
		line = fmt.Sprintf("unpack sss idh=%d lookup=%d uhash=%s others=%s upos=%d now=%d start=%d len=%d", w.p.k, lookup, uhash, hx(w.otherHashes), w.userPos, now, ps, pl)
	case "none":
		line = fmt.Sprintf("unpack nones start=%d len=%d", ps, pl)
	case "socks5":
		line = fmt.Sprintf("unpack socks5s start=%d len=%d", ps, pl)
	case "direct":
		line = fmt.Sprintf("unpack directs target=%s start=%d len=%d", showConnAddr(w.tunnel), ps, pl)
	}
	s.add(line+rw.arg(), renderUnpack(b, r, ps, pl, rw))
	return r
}

// clientUnpack runs w's client unpacker on the packet b[ps:ps+pl] received from `from`.
func (s *script) clientUnpack(w *world, b []byte, from netip.AddrPort, ps, pl int, ts, csid []byte, rw *win) unpackRes {
	var r unpackRes
	var ap netip.AddrPort
	var e error
	now := int64(0)
	for _, x := range ts {
		now = now<<8 | int64(x)
	}
	pan := common.Safely(func() { ap, r.ps, r.pl, e = w.cUnpacker.UnpackInPlace(b, from, ps, pl) })
	switch {
	case pan != nil:
		r.class = "panic"
	case e != nil:
		r.class = "err:" + errClass(e)
	default:
		r.class = "ok"
		r.addr = showAddrPort(ap)
	}
	var line string
	switch w.p.name {
	case "ss":
		op := "ssc"
		if w.statefulClient {
			op = "sscs" // the same unpacker instance over a history: the model threads its session state
		}
		line = fmt.Sprintf("unpack %s idh=%d csid=%s now=%d start=%d len=%d", op, w.p.k, hx(csid), now, ps, pl)
	case "none":
		line = fmt.Sprintf("unpack nonec server=%s from=%s start=%d len=%d", showAddrPort(w.serverAP), showAddrPort(from), ps, pl)
	case "socks5":
		line = fmt.Sprintf("unpack socks5c server=%s from=%s start=%d len=%d", showAddrPort(w.serverAP), showAddrPort(from), ps, pl)
	case "direct":
		line = fmt.Sprintf("unpack directc from=%s start=%d len=%d", showAddrPort(from), ps, pl)
	}
	s.add(line+rw.arg(), renderUnpack(b, r, ps, pl, rw))
	return r
}

// info emits the headroom / max-packet-size facts of a world: the values the real objects report
// against the model's tables.
func (s *script) info(w *world, srv6 bool) {
	hr := func(h zerocopy.Headroom) string { return fmt.Sprintf("%d %d", h.Front, h.Rear) }
	p := w.p.String()
	s.add("headroom cp "+p, hr(w.cInfo))
	s.add("headroom cp "+p, hr(w.cPacker.ClientPackerInfo().Headroom))
	s.add("headroom cu "+p, hr(w.cUnpacker.ClientUnpackerInfo().Headroom))
	s.add("headroom su "+p, hr(w.suInfo))
	if w.sUnpacker != nil {
		s.add("headroom su "+p, hr(w.sUnpacker.ServerUnpackerInfo().Headroom))
	}
	if w.sPacker != nil {
		s.add("headroom sp "+p, hr(w.sPacker.ServerPackerInfo().Headroom))
	}
	fam := "4"
	if srv6 {
		fam = "6"
	}
	if w.p.name != "direct" {
		s.add(fmt.Sprintf("mps %d %s", w.mtu, fam), fmt.Sprint(w.cMax))
	} else {
		s.add(fmt.Sprintf("mps %d 4", w.mtu), fmt.Sprint(w.cMax))
	}
}
