package main

// Histories: 2..8 packets of one session through the SAME packer / unpacker instances and the SAME backing
// buffer (the relays pool their packet buffers and receive at a fixed offset), with domains of equal length,
// alternating domains and IP targets, shifted offsets, refused packets in between and — for the direct client —
// a scripted resolver that answers or fails per name and step.  Oracle per packet, from the statement: what comes
// out is what THIS packet carried, whatever came before.

import (
	"bytes"
	"context"
	"encoding/hex"
	"fmt"
	"net/netip"
	"strings"
	"time"

	"ssvharness/internal/common"

	"github.com/database64128/shadowsocks-go/conn"
)

type HStep struct {
	Addr    string `json:"addr"`              // target; for the direct client a domain step names a scripted host
	Len     int    `json:"len"`               // payload length
	Shift   int    `json:"shift,omitempty"`   // offset of the packet in the shared buffer, relative to the usual one
	Res     string `json:"res,omitempty"`     // direct client: what the resolver answers for this name now ("4:hex" / "6:hex"), "" = failure
	Restart bool   `json:"restart,omitempty"` // down, ss2022: the server starts a new server session before this reply
}

// shape names what the history did before this packet (for the failure key).
func histShape(steps []HStep, i int) string {
	cur := steps[i]
	if !strings.HasPrefix(cur.Addr, "d:") {
		return "ip-target"
	}
	cn := strings.Split(cur.Addr, ":")[1]
	for j := i - 1; j >= 0; j-- {
		if strings.HasPrefix(steps[j].Addr, "d:") {
			pn := strings.Split(steps[j].Addr, ":")[1]
			switch {
			case pn == cn:
				return "same-domain-again"
			case len(pn) == len(cn) && steps[j].Shift == cur.Shift:
				return "same-length-domain-at-same-offset"
			case len(pn) == len(cn):
				return "same-length-domain-at-other-offset"
			default:
				return "other-length-domain"
			}
		}
	}
	return "first-domain"
}

// runHistDown: replies of one server packer through ONE client unpacker instance over one reused buffer.
func runHistDown(s *script, c Case) {
	p := parseProto(c.C)
	w := mustWorld(p, c.MTU, c.Srv6, c, 8)
	if err := w.prime(); err != nil {
		panic(err)
	}
	w.statefulClient = true
	s.add("newsession", "ok")
	const base = 96
	recv := specLimit(c.MTU, false)
	shared := s.newBuf(base+48+recv+64, c.Seed)
	s.add("stash", "ok")
	key := "hist-down:" + p.name
	sessions := 1 // server sessions the client unpacker has been shown so far
	for i, st := range c.Steps {
		if st.Restart && p.name == "ss" {
			np, err := w.sUnpacker.NewPacker()
			if err != nil {
				panic(err)
			}
			w.sPacker = np
			sessions++
		}
		alen := specAddrLen(st.Addr)
		front, rear := specFront(p, true, alen), specRear(p)
		fb := s.newBuf(front+st.Len+rear, c.Seed+uint64(i)+1)
		s.fill(fb, front, st.Len, (c.Seed>>8)+uint64(i))
		payload := clone(fb[front : front+st.Len])
		r := s.serverPack(w, fb, st.Addr, front, st.Len, recv, "", false, nil)
		if !r.ok() {
			s.tag("step-refused")
			continue
		}
		ts, csid := w.tsOfServerPacket(fb, r)
		at := base + st.Shift
		s.add(fmt.Sprintf("take %d %d", r.ps, r.pl), "ok")
		s.add("unstash", "ok")
		s.add(fmt.Sprintf("put %d", at), "ok")
		copy(shared[at:], fb[r.ps:r.ps+r.pl])
		pre := clone(shared)
		u := s.clientUnpack(w, shared, w.serverAP, at, r.pl, ts, csid, &win{0, len(shared)})
		if sessions >= 2 && u.class == "err:tooManySessions" {
			// the unpacker counts the first server session as a change: a further new session within the minute is
			// refused (stricter than the statement, never laxer; C04 documents it) — not delivered, not corrupted
			s.tag("step-refused-by-session-rule")
			if !bytes.Equal(shared[:at], pre[:at]) || !bytes.Equal(shared[at+r.pl:], pre[at+r.pl:]) {
				s.fail(key+":client-unpack:canary-on-error", "bytes outside the packet modified by a refused unpack")
			}
		} else {
			s.oracleUnpack(fmt.Sprintf("%s:client-unpack:reply-%d-of-session", key, min(i, 2)), u, shared, pre, at, r.pl, specNorm(st.Addr), payload)
		}
		s.add("stash", "ok")
		if u.ok() {
			s.tag("relayed")
		}
	}
}

func runHist(s *script, c Case) {
	if c.Down {
		runHistDown(s, c)
		return
	}
	p := parseProto(c.C)
	if p.name == "direct" {
		runHistDirect(s, c)
		return
	}
	w := mustWorld(p, c.MTU, c.Srv6, c, 6)
	s.add("newsession", "ok")
	const base = 96 // the fixed receive offset of this "relay"
	maxShift := 0
	for _, st := range c.Steps {
		if st.Shift > maxShift {
			maxShift = st.Shift
		}
	}
	recv := specLimit(c.MTU, false)
	shared := s.newBuf(base+maxShift+recv+64, c.Seed)
	s.add("stash", "ok")
	key := "hist:" + p.name
	for i, st := range c.Steps {
		alen := specAddrLen(st.Addr)
		front, rear := specFront(p, false, alen), specRear(p)
		rb := s.newBuf(front+st.Len+rear, c.Seed+uint64(i)+1)
		s.fill(rb, front, st.Len, (c.Seed>>8)+uint64(i))
		payload := clone(rb[front : front+st.Len])
		r := s.clientPack(w, rb, st.Addr, front, st.Len, "", nil)
		if !r.ok() || r.pl > recv {
			s.tag("step-refused")
			continue
		}
		ts, _ := w.tsOfClientPacket(rb, r)
		at := base + st.Shift
		s.add(fmt.Sprintf("take %d %d", r.ps, r.pl), "ok")
		s.add("unstash", "ok")
		s.add(fmt.Sprintf("put %d", at), "ok")
		copy(shared[at:], rb[r.ps:r.ps+r.pl])
		pre := clone(shared)
		u := s.serverUnpack(w, shared, clientAP, at, r.pl, ts, &win{0, len(shared)})
		s.oracleUnpack(key+":server-unpack:"+histShape(c.Steps, i), u, shared, pre, at, r.pl, specNorm(st.Addr), payload)
		s.add("stash", "ok")
		if u.ok() {
			s.tag("relayed")
			s.tag("step " + histShape(c.Steps, i))
		}
	}
}

func hostName(seed uint64, addr string) string {
	// the scripted host of a domain step: the step's name made unique for this case (cases run concurrently)
	n, _ := hex.DecodeString(strings.Split(addr, ":")[1])
	return fmt.Sprintf("%s-%x.c05test", n, seed&0xffffff)
}

func runHistDirect(s *script, c Case) {
	dns := scriptDNS()
	w := mustWorld(proto{"direct", 0}, c.MTU, false, c, 7)
	s.add("newsession", "ok")
	b := canaryBuf(70000, c.Seed%256)
	given := map[string]map[string]bool{} // name -> addresses the resolver has given for it so far
	for i, st := range c.Steps {
		addr := st.Addr
		name := ""
		if strings.HasPrefix(addr, "d:") {
			name = hostName(c.Seed, addr)
			f := strings.Split(addr, ":")
			addr = "d:" + hex.EncodeToString([]byte(name)) + ":" + f[2]
			if st.Res == "" {
				dns.fail(name)
			} else {
				ip, err := addrPort(st.Res + ":0")
				if err != nil {
					panic(err)
				}
				dns.set(name, ip.Addr())
				if given[name] == nil {
					given[name] = map[string]bool{}
				}
				given[name][st.Res] = true
			}
		}
		ca, err := connAddr(addr)
		if err != nil {
			panic(err)
		}
		before := clone(b[:st.Len+64])
		var dest netip.AddrPort
		var ps, pl int
		var e error
		ctx, cancel := context.WithTimeout(context.Background(), 5*time.Second)
		pan := common.Safely(func() { dest, ps, pl, e = w.cPacker.PackInPlace(ctx, b, ca, 32, st.Len) })
		cancel()
		var out string
		switch {
		case pan != nil:
			out = "panic"
		case e != nil && errClass(e) == "tooBig":
			out = "err tooBig"
		case e != nil:
			out = "err resolve"
		default:
			d := "-"
			if dest.Addr().IsValid() {
				d = strings.TrimSuffix(showAddrPort(netip.AddrPortFrom(dest.Addr(), 0)), ":0")
			}
			out = fmt.Sprintf("ok %d %d %s", ps, pl, d)
		}
		res := st.Res
		if res == "" || name == "" {
			res = "-"
		}
		s.add(fmt.Sprintf("pack directh mtu=%d res=%s addr=%s start=32 len=%d", c.MTU, res, addr, st.Len), out)
		// oracle
		key := "hist:direct:client-pack"
		switch {
		case pan != nil:
			s.fail(key+":panic", fmt.Sprintf("step %d: PackInPlace panicked: %v", i, pan))
		case e == nil:
			if !bytes.Equal(b[:st.Len+64], before) || ps != 32 || pl != st.Len {
				s.fail(key+":frame", fmt.Sprintf("step %d: the direct packer moved or modified the payload", i))
			}
			d := strings.TrimSuffix(showAddrPort(netip.AddrPortFrom(dest.Addr(), 0)), ":0")
			if name == "" {
				if want := strings.TrimSuffix(st.Addr, st.Addr[strings.LastIndex(st.Addr, ":"):]); d != want {
					s.fail(key+":ip-target-rewritten", fmt.Sprintf("step %d: packet for %s addressed to %s", i, st.Addr, d))
				}
			} else if !dest.Addr().IsValid() || !given[name][d] {
				s.fail(key+":addressed-to-an-address-never-given-for-this-name",
					fmt.Sprintf("step %d: the packet for %s was addressed to %s; the resolver has given %v for that name (it %s at this step)",
						i, name, dest.Addr(), keys(given[name]), map[bool]string{true: "failed", false: "answered"}[st.Res == ""]))
			}
			if dest.Addr().IsValid() && st.Len > specLimit(c.MTU, dest.Addr().Is6() && !dest.Addr().Is4In6()) {
				s.fail(key+":exceeds-mtu", fmt.Sprintf("step %d: %d bytes to %s, MTU %d", i, st.Len, dest.Addr(), c.MTU))
			}
			s.tag("relayed")
		}
		if e != nil {
			s.tag("step-refused")
		}
	}
	_ = conn.Addr{}
}

func keys(m map[string]bool) []string {
	var ks []string
	for k := range m {
		ks = append(ks, k)
	}
	return ks
}

// ---------- generator ----------

func genHist(r *common.Rng, i int) Case {
	c := Case{Kind: "hist", Seed: r.U64(), PolC: common.Pick(r, pols), PolS: "n"}
	protos := []string{"none", "socks5", "ss:0", "ss:1", "ss:2", "direct"}
	c.C = protos[i%len(protos)]
	c.MTU = common.Pick(r, []int{1280, 1500, 9000})
	c.Srv6 = r.Bool()
	n := r.Range(2, 8)
	if c.C == "direct" {
		// a few scripted hosts; each step: IP target, or a host that answers / fails now
		hosts := []string{"a", "b", "cc"}
		ips := []string{"4:01010101", "4:08080808", "6:20010db8000000000000000000000001", "4:09090909"}
		for j := 0; j < n; j++ {
			st := HStep{Len: common.Pick(r, []int{0, 1, 100, 1200, specLimit(c.MTU, false) - 1, specLimit(c.MTU, true) + 1})}
			if r.Intn(4) == 0 {
				st.Addr = genAddrPort(r)
			} else {
				h := common.Pick(r, hosts)
				st.Addr = fmt.Sprintf("d:%s:%d", hex.EncodeToString([]byte(h)), genPort(r))
				if r.Intn(3) != 0 {
					// a host keeps its address most of the time, sometimes it moves
					st.Res = ips[(int(h[0])+r.Intn(8)/7)%len(ips)]
				}
			}
			c.Steps = append(c.Steps, st)
		}
		return c
	}
	// a small vocabulary of domains, several of the same length
	ln := common.Pick(r, []int{1, 3, 11, 63, 255})
	var doms []string
	for k := 0; k < 3; k++ {
		b := make([]byte, ln)
		for x := range b {
			b[x] = byte('a' + r.Intn(26))
		}
		doms = append(doms, hex.EncodeToString(b))
	}
	other := make([]byte, ln%200+2)
	for x := range other {
		other[x] = byte('a' + r.Intn(26))
	}
	doms = append(doms, hex.EncodeToString(other))
	for j := 0; j < n; j++ {
		st := HStep{Len: common.Pick(r, []int{0, 1, 64, 700, 1100})}
		switch r.Intn(6) {
		case 0:
			st.Addr = genAddrPort(r)
		default:
			st.Addr = fmt.Sprintf("d:%s:%d", common.Pick(r, doms), genPort(r))
		}
		if r.Intn(5) == 0 {
			st.Shift = common.Pick(r, []int{1, 2, 16, 40})
		}
		if r.Intn(10) == 0 {
			st.Len = specLimit(c.MTU, false) + 10 // a packet that is refused in between
		}
		c.Steps = append(c.Steps, st)
	}
	return c
}

func genHistDown(r *common.Rng, i int) Case {
	c := Case{Kind: "hist", Down: true, Seed: r.U64(), PolC: "n", PolS: common.Pick(r, pols)}
	c.C = []string{"none", "socks5", "ss:0", "ss:1"}[i%4]
	c.MTU = common.Pick(r, []int{1280, 1500, 9000})
	c.Srv6 = r.Bool()
	n := r.Range(2, 8)
	for j := 0; j < n; j++ {
		st := HStep{Addr: genAddrPort(r), Len: common.Pick(r, []int{0, 1, 64, 700, 1100})}
		if r.Intn(5) == 0 {
			st.Shift = common.Pick(r, []int{1, 2, 16, 40})
		}
		if r.Intn(10) == 0 {
			st.Len = specLimit(c.MTU, false) + 10
		}
		if j > 0 && r.Intn(9) == 0 {
			st.Restart = true
		}
		c.Steps = append(c.Steps, st)
	}
	return c
}

// directedHist: the histories the statement names.
func directedHist() []Case {
	var cs []Case
	seed := uint64(9000)
	add := func(c Case) {
		seed++
		c.Kind, c.Seed, c.PolC, c.PolS = "hist", seed, "n", "n"
		if c.MTU == 0 {
			c.MTU = 1500
		}
		cs = append(cs, c)
	}
	d := func(n string, port int) string { return fmt.Sprintf("d:%s:%d", hex.EncodeToString([]byte(n)), port) }
	for _, p := range []string{"none", "socks5", "ss:0", "ss:1", "ss:3"} {
		add(Case{C: p, Steps: []HStep{{Addr: d("one.example", 53), Len: 10}, {Addr: d("two.example", 443), Len: 20}}})
		add(Case{C: p, Steps: []HStep{{Addr: d("one.example", 53), Len: 10}, {Addr: "4:01020304:80", Len: 5}, {Addr: d("two.example", 443), Len: 20}, {Addr: d("one.example", 1), Len: 0}}})
		add(Case{C: p, Steps: []HStep{{Addr: d("a", 1), Len: 1}, {Addr: d("b", 2), Len: 1}, {Addr: d("a", 3), Len: 1}, {Addr: d("bb", 4), Len: 1}, {Addr: d("c", 5), Len: 1}}})
		add(Case{C: p, Steps: []HStep{{Addr: d("one.example", 53), Len: 10}, {Addr: d("two.example", 443), Len: 20, Shift: 3}, {Addr: d("six.example", 8), Len: 7}}})
	}
	add(Case{C: "direct", Steps: []HStep{{Addr: d("a", 53), Len: 10, Res: "4:01010101"}, {Addr: d("b", 53), Len: 10}, {Addr: d("b", 53), Len: 10}, {Addr: d("a", 53), Len: 10}}})
	add(Case{C: "direct", Steps: []HStep{{Addr: d("b", 53), Len: 10}, {Addr: d("b", 53), Len: 10}, {Addr: d("b", 53), Len: 10, Res: "4:08080808"}}})
	add(Case{C: "direct", Steps: []HStep{{Addr: d("a", 53), Len: 1460, Res: "4:01010101"}, {Addr: d("b", 53), Len: 1460}, {Addr: d("b", 53), Len: 1460, Res: "6:20010db8000000000000000000000001"}, {Addr: d("b", 53), Len: 1452}}})
	add(Case{C: "direct", Steps: []HStep{{Addr: d("a", 53), Len: 10, Res: "4:01010101"}, {Addr: "4:05050505:9", Len: 3}, {Addr: d("b", 53), Len: 10}, {Addr: "6:20010db8000000000000000000000009:9", Len: 3}, {Addr: d("b", 1), Len: 10}}})
	return cs
}
