package main

// A scripted resolver behind net.DefaultResolver (PreferGo + Dial hook): conn.ResolveIP =
// net.DefaultResolver.LookupNetIP then gets, per name, the answer (or the failure) the history prescribes.

import (
	"context"
	"encoding/binary"
	"io"
	"net"
	"net/netip"
	"strings"
	"sync"
	"time"

	"golang.org/x/net/dns/dnsmessage"
)

type scriptedDNS struct {
	mu  sync.Mutex
	ans map[string]netip.Addr // name (no trailing dot) -> answer; absent or invalid = NXDOMAIN
}

var (
	dnsOnce sync.Once
	theDNS  *scriptedDNS
)

func scriptDNS() *scriptedDNS {
	dnsOnce.Do(func() {
		d := &scriptedDNS{ans: map[string]netip.Addr{}}
		net.DefaultResolver = &net.Resolver{
			PreferGo: true,
			Dial: func(ctx context.Context, network, address string) (net.Conn, error) {
				c1, c2 := net.Pipe()
				go d.serve(c2)
				return c1, nil
			},
		}
		theDNS = d
	})
	return theDNS
}

func (d *scriptedDNS) set(name string, ip netip.Addr) {
	d.mu.Lock()
	d.ans[name] = ip
	d.mu.Unlock()
}

func (d *scriptedDNS) fail(name string) {
	d.mu.Lock()
	delete(d.ans, name)
	d.mu.Unlock()
}

func (d *scriptedDNS) serve(c net.Conn) {
	defer c.Close()
	for {
		var lb [2]byte
		if _, err := io.ReadFull(c, lb[:]); err != nil {
			return
		}
		msg := make([]byte, binary.BigEndian.Uint16(lb[:]))
		if _, err := io.ReadFull(c, msg); err != nil {
			return
		}
		var p dnsmessage.Parser
		h, err := p.Start(msg)
		if err != nil {
			return
		}
		q, err := p.Question()
		if err != nil {
			return
		}
		name := strings.TrimSuffix(q.Name.String(), ".")
		go func() { // the pipe is unbuffered: answer asynchronously
			resp := dnsmessage.Message{Header: dnsmessage.Header{ID: h.ID, Response: true, RecursionAvailable: true, RecursionDesired: h.RecursionDesired},
				Questions: []dnsmessage.Question{q}}
			d.mu.Lock()
			ip, ok := d.ans[name]
			d.mu.Unlock()
			switch {
			case !ok || !ip.IsValid():
				resp.Header.RCode = dnsmessage.RCodeNameError
			case q.Type == dnsmessage.TypeA && ip.Is4():
				resp.Answers = []dnsmessage.Resource{{Header: dnsmessage.ResourceHeader{Name: q.Name, Type: dnsmessage.TypeA, Class: dnsmessage.ClassINET},
					Body: &dnsmessage.AResource{A: ip.As4()}}}
			case q.Type == dnsmessage.TypeAAAA && ip.Is6():
				resp.Answers = []dnsmessage.Resource{{Header: dnsmessage.ResourceHeader{Name: q.Name, Type: dnsmessage.TypeAAAA, Class: dnsmessage.ClassINET},
					Body: &dnsmessage.AAAAResource{AAAA: ip.As16()}}}
			}
			b, err := resp.Pack()
			if err != nil {
				return
			}
			out := make([]byte, 2+len(b))
			binary.BigEndian.PutUint16(out, uint16(len(b)))
			copy(out[2:], b)
			c.SetWriteDeadline(time.Now().Add(5 * time.Second))
			c.Write(out)
		}()
	}
}
