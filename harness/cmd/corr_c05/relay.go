package main

// Engine "roam": a relay built through the exported service.Config -> Manager path on a dual-stack loopback
// socket ([::]:0), the default direct client behind it, a UDP echo server as the target.
//
//	S = "ss"  : Shadowsocks 2022 session relay; ONE client session talks to it from 127.0.0.1 (seen by the
//	            dual-stack socket as ::ffff:127.0.0.1) and from ::1 in the order the history gives (roaming);
//	S = "none": Shadowsocks-none NAT relay; the two sockets are two NAT entries.
//
// After every move a ladder of replies sized (MTU-48-2 … MTU-48+2) ∪ (MTU-28-2 … MTU-28+2) is requested.
// Oracle (from the statement): no datagram delivered to a client exceeds the size derived from the MTU and
// THAT client's address family; what is delivered is the payload that was sent (no truncation).
// Correspondence: the largest reply the relay lets through equals the limit the Lean model of the cached
// `maxClientPacketSize` (SSV.Model.PacketLimit over the refresh program extracted by Gen) predicts.

import (
	"bytes"
	"context"
	"errors"
	"fmt"
	"net"
	"net/netip"
	"strings"
	"time"

	"ssvharness/internal/common"

	"github.com/database64128/shadowsocks-go/conn"
	"github.com/database64128/shadowsocks-go/direct"
	"github.com/database64128/shadowsocks-go/service"
	"github.com/database64128/shadowsocks-go/ss2022"
	"github.com/database64128/shadowsocks-go/zerocopy"
	"go.uber.org/zap"
	"go.uber.org/zap/zapcore"
	"go.uber.org/zap/zaptest/observer"
)

type roamRelay struct {
	cancel context.CancelFunc
	done   chan struct{}
	port   uint16
	logs   *observer.ObservedLogs
}

func (p *roamRelay) stop() {
	p.cancel()
	select {
	case <-p.done:
	case <-time.After(8 * time.Second):
	}
}

var roamPSK = []byte("c05-roam-psk-016")

func startRoamRelay(proto, batch string, mtu int) (*roamRelay, error) {
	sc := service.ServerConfig{
		Name: "c05",
		MTU:  mtu,
		UDPListeners: []service.UDPListenerConfig{{
			ListenerConfig: service.ListenerConfig{Network: "udp", Address: "[::]:0"},
			UDPPerfConfig:  service.UDPPerfConfig{BatchMode: batch},
		}},
	}
	switch proto {
	case "ss":
		np, err := ss2022.NewPaddingPolicyField("NoPadding")
		if err != nil {
			return nil, err
		}
		sc.Protocol, sc.PSK, sc.PaddingPolicy = "2022-blake3-aes-128-gcm", roamPSK, np
	case "none":
		sc.Protocol = "none"
	default:
		return nil, fmt.Errorf("roam: server protocol %q", proto)
	}
	// the outgoing direct client gets a path MTU that never limits the uplink of this scenario (the default
	// client has MTU 1500 and rightly refuses the large datagrams the MTU-9000 ladders need)
	cc := service.ClientConfig{Name: "direct", Protocol: "direct", EnableUDP: true, MTU: 65535}
	cfg := service.Config{Servers: []service.ServerConfig{sc}, Clients: []service.ClientConfig{cc}}
	core, logs := observer.New(zapcore.InfoLevel)
	mgr, err := cfg.Manager(zap.New(core))
	if err != nil {
		return nil, fmt.Errorf("manager: %w", err)
	}
	ctx, cancel := context.WithCancel(context.Background())
	p := &roamRelay{cancel: cancel, done: make(chan struct{}), logs: logs}
	go func() {
		mgr.Run(ctx)
		mgr.Close()
		close(p.done)
	}()
	deadline := time.Now().Add(10 * time.Second)
	for {
		for _, e := range logs.All() {
			switch {
			case strings.HasPrefix(e.Message, "Started UDP") && strings.HasSuffix(e.Message, "relay service listener"):
				if v, ok := e.ContextMap()["listenAddress"].(string); ok {
					ap, err := netip.ParseAddrPort(v)
					if err != nil {
						p.stop()
						return nil, err
					}
					p.port = ap.Port()
					return p, nil
				}
			case e.Message == "Failed to start service":
				p.stop()
				return nil, fmt.Errorf("service failed to start: %v", e.ContextMap())
			}
		}
		if time.Now().After(deadline) {
			p.stop()
			return nil, errors.New("relay did not start in 10 s")
		}
		time.Sleep(time.Millisecond)
	}
}

// roamEnd is one client socket with the codec that talks to the relay through it.
type roamEnd struct {
	c      *net.UDPConn
	relay  netip.AddrPort // where the relay is reached from this socket
	seenAs netip.AddrPort // how the relay's dual-stack socket sees this client
	v6     bool
	pack   func(payload []byte) ([]byte, error)
	unpack func(pkt []byte) ([]byte, error)
}

func (e *roamEnd) send(payload []byte) error {
	pkt, err := e.pack(payload)
	if err != nil {
		return err
	}
	_, err = e.c.WriteToUDPAddrPort(pkt, e.relay)
	return err
}

// recv returns (packet size, payload) of the next datagram, or ok=false on timeout.
func (e *roamEnd) recv(d time.Duration) (int, []byte, bool, error) {
	b := make([]byte, 70000)
	e.c.SetReadDeadline(time.Now().Add(d))
	n, _, err := e.c.ReadFromUDPAddrPort(b)
	if err != nil {
		return 0, nil, false, nil
	}
	p, err := e.unpack(b[:n])
	if err != nil {
		return n, nil, true, err
	}
	return n, p, true, nil
}

func roamPayload(r *common.Rng, n int) []byte {
	if n < 0 {
		n = 0
	}
	return r.Bytes(n)
}

func runRoam(s *script, c Case) {
	mtu := c.MTU
	echo, err := net.ListenUDP("udp4", &net.UDPAddr{IP: net.IPv4(127, 0, 0, 1)})
	if err != nil {
		panic(err)
	}
	defer echo.Close()
	go func() {
		b := make([]byte, 70000)
		for {
			n, from, err := echo.ReadFromUDPAddrPort(b)
			if err != nil {
				return
			}
			echo.WriteToUDPAddrPort(b[:n], from)
		}
	}()
	target := conn.AddrFromIPPort(echo.LocalAddr().(*net.UDPAddr).AddrPort())

	relay, err := startRoamRelay(c.S, c.Batch, mtu)
	if err != nil {
		panic(err)
	}
	defer relay.stop()
	relay4 := netip.AddrPortFrom(netip.AddrFrom4([4]byte{127, 0, 0, 1}), relay.port)
	relay6 := netip.AddrPortFrom(netip.IPv6Loopback(), relay.port)

	conn4, err := net.ListenUDP("udp4", &net.UDPAddr{IP: net.IPv4(127, 0, 0, 1)})
	if err != nil {
		panic(err)
	}
	defer conn4.Close()
	conn6, err := net.ListenUDP("udp6", &net.UDPAddr{IP: net.IPv6loopback})
	if err != nil {
		s.notes = append(s.notes, "roam: IPv6 loopback not available: "+err.Error())
		return
	}
	defer conn6.Close()
	p4 := uint16(conn4.LocalAddr().(*net.UDPAddr).Port)
	p6 := uint16(conn6.LocalAddr().(*net.UDPAddr).Port)
	end4 := &roamEnd{c: conn4, relay: relay4, seenAs: netip.AddrPortFrom(netip.AddrFrom16(netip.AddrFrom4([4]byte{127, 0, 0, 1}).As16()), p4)}
	end6 := &roamEnd{c: conn6, relay: relay6, seenAs: netip.AddrPortFrom(netip.IPv6Loopback(), p6), v6: true}

	var overhead int // what the server packer adds to the echoed payload (source address is IPv4: 7 bytes)
	ctx := context.Background()
	switch c.S {
	case "ss":
		ccfg, err := ss2022.NewClientCipherConfig(roamPSK, nil, true)
		if err != nil {
			panic(err)
		}
		cl := ss2022.NewUDPClient("h", "ip", conn.AddrFromIPPort(relay6), 65535, conn.DefaultUDPClientListenConfig, 0, ccfg, ss2022.NoPadding)
		info, sess, err := cl.NewSession(ctx)
		if err != nil {
			panic(err)
		}
		pack := func(payload []byte) ([]byte, error) {
			f, r := info.PackerHeadroom.Front, info.PackerHeadroom.Rear
			b := make([]byte, f+len(payload)+r)
			copy(b[f:], payload)
			_, ps, pl, err := sess.Packer.PackInPlace(ctx, b, target, f, len(payload))
			if err != nil {
				return nil, err
			}
			if ps < 0 || pl < 0 || ps+pl > len(b) {
				return nil, fmt.Errorf("packet [%d,%d) outside the %d-byte buffer sized by the client's declared headroom", ps, ps+pl, len(b))
			}
			return b[ps : ps+pl], nil
		}
		unpack := func(pkt []byte) ([]byte, error) {
			b := append([]byte(nil), pkt...)
			_, ps, pl, err := sess.Unpacker.UnpackInPlace(b, relay6, 0, len(b))
			if err != nil {
				return nil, err
			}
			return b[ps : ps+pl], nil
		}
		end4.pack, end4.unpack, end6.pack, end6.unpack = pack, unpack, pack, unpack // ONE session, two sockets
		overhead = 16 + (1 + 8 + 8 + 2) + 7 + 16
	case "none":
		for _, e := range []*roamEnd{end4, end6} {
			e := e
			pk := direct.NewShadowsocksNonePacketClientPacker(e.relay, 70000)
			up := direct.NewShadowsocksNonePacketClientUnpacker(e.relay)
			e.pack = func(payload []byte) ([]byte, error) {
				f := direct.ShadowsocksNonePacketClientMessageHeadroom.Front
				b := make([]byte, f+len(payload))
				copy(b[f:], payload)
				_, ps, pl, err := pk.PackInPlace(ctx, b, target, f, len(payload))
				if err != nil {
					return nil, err
				}
				return b[ps : ps+pl], nil
			}
			e.unpack = func(pkt []byte) ([]byte, error) {
				b := append([]byte(nil), pkt...)
				_, ps, pl, err := up.UnpackInPlace(b, e.relay, 0, len(b))
				if err != nil {
					return nil, err
				}
				return b[ps : ps+pl], nil
			}
		}
		overhead = 7
	}

	loop := "generic"
	prog := "g"
	if c.Batch == "" {
		loop, prog = "mmsg", "m"
	}
	r := common.NewRng(c.Seed)
	max4, max6 := specLimit(mtu, false), specLimit(mtu, true)
	var sizes []int
	for d := -2; d <= 2; d++ {
		sizes = append(sizes, max6+d)
	}
	for d := -2; d <= 2; d++ {
		sizes = append(sizes, max4+d)
	}
	marker := roamPayload(r, 24)
	sent := map[string]bool{} // every payload ever sent: a late duplicate of one of them is not a corrupted datagram
	var events []string
	var first *roamEnd
	prev := "-"
	for step, h := range c.Hist {
		e := end4
		if h == '6' {
			e = end6
		}
		cur := string(h)
		limit := max4
		if e.v6 {
			limit = max6
		}
		key := fmt.Sprintf("roam:%s:%s", c.S, loop)
		// move: make the relay see this socket (and wait for the echo so that the downlink has the new address)
		moved := false
		for try := 0; try < 8 && !moved; try++ {
			hello := roamPayload(r, 40)
			sent[string(hello)] = true
			if err := e.send(hello); err != nil {
				s.fail(key+":client-pack-failed", fmt.Sprintf("step %d: the harness client could not pack/send a 40-byte datagram: %v", step, err))
				return
			}
			for {
				_, p, ok, err := e.recv(1500 * time.Millisecond)
				if !ok {
					break
				}
				if err == nil && bytes.Equal(p, hello) {
					moved = true
					break
				}
			}
		}
		if !moved {
			s.notes = append(s.notes, fmt.Sprintf("roam: step %d (%s): the relay did not answer; case abandoned", step, cur))
			return
		}
		if first == nil {
			first = e
		} else if c.S == "ss" {
			events = append(events, showAddrPort(e.seenAs))
		}
		// the ladder
		boundary, conclusive := 0, true
		for _, size := range sizes {
			want := roamPayload(r, size-overhead)
			sent[string(want)] = true
			delivered, done := false, false
			for try := 0; try < 3 && !done; try++ {
				if err := e.send(want); err != nil {
					s.fail(key+":client-pack-failed", fmt.Sprintf("step %d: the harness client could not pack/send %d bytes: %v", step, len(want), err))
					return
				}
				if err := e.send(marker); err != nil {
					s.fail(key+":client-pack-failed", fmt.Sprintf("step %d: the harness client could not pack/send the marker: %v", step, err))
					return
				}
				for {
					n, p, ok, err := e.recv(900 * time.Millisecond)
					if !ok {
						break // marker lost or slow: try again
					}
					if n > limit {
						s.fail(fmt.Sprintf("%s:over-mtu:%s>%s", key, prev, cur),
							fmt.Sprintf("step %d: the relay sent a %d-byte datagram to the client at %s; the limit for MTU %d and that address is %d", step, n, e.seenAs, mtu, limit))
					}
					if err != nil {
						s.fail(key+":undecodable", fmt.Sprintf("step %d: %d-byte datagram does not unpack: %v", step, n, err))
						continue
					}
					if bytes.Equal(p, marker) {
						done = true
						break
					}
					if bytes.Equal(p, want) {
						delivered = true
						if n > boundary {
							boundary = n
						}
						if n != size {
							s.fail(key+":size", fmt.Sprintf("step %d: reply packed to %d bytes, expected %d", step, n, size))
						}
					} else if !sent[string(p)] { // a late duplicate of an earlier datagram is harmless; anything else is not what was sent
						s.fail(key+":payload", fmt.Sprintf("step %d: a delivered %d-byte datagram carries a payload that was not sent (truncated or corrupted)", step, n))
					}
				}
			}
			if !done {
				conclusive = false
				continue
			}
			if size <= limit && !delivered {
				// a lost datagram on loopback is possible under load: only a repeated miss counts
				again := false
				for try := 0; try < 4 && !again; try++ {
					e.send(want)
					for {
						_, p, ok, err := e.recv(3 * time.Second)
						if !ok {
							break
						}
						if err == nil && bytes.Equal(p, want) {
							again = true
							if size > boundary {
								boundary = size
							}
							break
						}
					}
				}
				if !again {
					s.fail(fmt.Sprintf("%s:fitting-reply-dropped:%s>%s", key, prev, cur),
						fmt.Sprintf("step %d: a %d-byte reply (limit %d) never reached the client at %s", step, size, limit, e.seenAs))
				}
			}
		}
		s.tag(fmt.Sprintf("roam-step %s>%s", prev, cur))
		if conclusive {
			a0, ev := showAddrPort(first.seenAs), "-"
			if c.S == "ss" {
				if len(events) > 0 {
					ev = strings.Join(events, ",")
				}
			} else {
				a0 = showAddrPort(e.seenAs) // a NAT entry never changes its client address
			}
			s.add(fmt.Sprintf("limit prog=%s mtu=%d a0=%s ev=%s", prog, mtu, a0, ev), fmt.Sprintf("%d %s", boundary, showAddrPort(e.seenAs)))
			s.tag("relayed")
		} else {
			s.notes = append(s.notes, fmt.Sprintf("roam: step %d inconclusive (markers lost); not compared", step))
		}
		prev = cur
	}
	_ = zerocopy.ErrPayloadTooBig
}
