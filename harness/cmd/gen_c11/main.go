// gen_c11: regenerates lean/SSV/Gen/C11.lean from /repo.
//
// Facts:
//   - packerShared: does (*direct.DirectUDPClient).NewSession hand every session the SAME client packer
//     (a stored one), or construct one per call?  (AST of NewSession + of the constructor.)
//   - clientPackerFresh: for the other zerocopy.UDPClient implementations, is Packer built inside NewSession?
//   - recvProgs: for each of the four relay receive loops (udp_nat.go, udp_nat_mmsg.go, udp_session.go,
//     udp_session_mmsg.go) the straight-line order of {lock, lookup, unpack, unpackfail-continue, insert,
//     spawn, enqueue, unlock}, and for the deferred cleanup of the session goroutine {lock, close, delete, unlock}.
//
// Any shape the extractor does not recognise is an error (GEN-BROKEN): the tie is broken, never skipped.
package main

import (
	"fmt"
	"go/ast"
	"go/parser"
	"go/printer"
	"go/token"
	"os"
	"path/filepath"
	"strings"

	"ssvharness/internal/gen"
)

// apkg: the facts of C11 are shapes of function bodies, so the packages are only PARSED (no type-check:
// type-checking `service` from source pulls in the whole module and costs minutes on a loaded machine).
type apkg struct {
	dir   string
	fset  *token.FileSet
	files []*ast.File
}

var astCache = map[string]*apkg{}

func loadAST(repo, dir string) (*apkg, error) {
	if p, ok := astCache[dir]; ok {
		return p, nil
	}
	full := filepath.Join(repo, dir)
	ents, err := os.ReadDir(full)
	if err != nil {
		return nil, err
	}
	p := &apkg{dir: dir, fset: token.NewFileSet()}
	for _, e := range ents {
		n := e.Name()
		if !strings.HasSuffix(n, ".go") || strings.HasSuffix(n, "_test.go") {
			continue
		}
		f, err := parser.ParseFile(p.fset, filepath.Join(full, n), nil, parser.SkipObjectResolution)
		if err != nil {
			return nil, err
		}
		p.files = append(p.files, f)
	}
	astCache[dir] = p
	return p, nil
}

// Func finds the unique declaration of a function / method (any build variant; two variants = error).
func (p *apkg) Func(recv, name string) (*ast.FuncDecl, error) {
	var found []*ast.FuncDecl
	for _, f := range p.files {
		for _, d := range f.Decls {
			fd, ok := d.(*ast.FuncDecl)
			if !ok || fd.Name.Name != name {
				continue
			}
			if recv == "" && fd.Recv == nil {
				found = append(found, fd)
			}
			if recv != "" && fd.Recv != nil && len(fd.Recv.List) == 1 &&
				strings.TrimPrefix(p.Src(fd.Recv.List[0].Type), "*") == strings.TrimPrefix(recv, "*") {
				found = append(found, fd)
			}
		}
	}
	if len(found) != 1 {
		return nil, fmt.Errorf("%s: %d declarations of %s.%s", p.dir, len(found), recv, name)
	}
	return found[0], nil
}

func (p *apkg) Src(n ast.Node) string {
	var sb strings.Builder
	printer.Fprint(&sb, p.fset, n)
	return strings.Join(strings.Fields(sb.String()), " ")
}

func main() {
	gen.Main("C11", func(c *gen.Ctx, l *gen.Lean) error {
		dp, err := loadAST(c.Repo, "direct")
		if err != nil {
			return err
		}
		shared, how, err := directPackerShared(dp)
		if err != nil {
			return fmt.Errorf("packerShared: %w", err)
		}
		l.BoolDef("packerShared", shared, "direct/udp.go (*DirectUDPClient).NewSession: "+how)

		var fresh []string
		for _, it := range []struct{ pkg, recv, fn string }{
			{"direct", "*ShadowsocksNoneUDPClient", "NewSession"},
			{"direct", "*Socks5UDPClient", "newSession"},
			{"ss2022", "*UDPClient", "NewSession"},
		} {
			p, err := loadAST(c.Repo, it.pkg)
			if err != nil {
				return err
			}
			fd, err := p.Func(it.recv, it.fn)
			if err != nil {
				return err
			}
			ok, how, err := sessionLiteralPackerFresh(p, fd)
			if err != nil {
				return fmt.Errorf("%s.%s.%s: %w", it.pkg, it.recv, it.fn, err)
			}
			fresh = append(fresh, fmt.Sprintf("(%s, %v)", gen.LeanString(it.pkg+"."+strings.TrimPrefix(it.recv, "*")+": "+how), ok))
		}
		l.Raw("/-- other zerocopy.UDPClient implementations: is `Packer` constructed inside NewSession? -/\n")
		l.Raw("def clientPackerFresh : List (String × Bool) := [" + strings.Join(fresh, ", ") + "]\n")

		sp, err := loadAST(c.Repo, "service")
		if err != nil {
			return err
		}
		var progs, defers []string
		for _, it := range []struct{ recv, fn, label string }{
			{"*UDPNATRelay", "recvFromServerConnGeneric", "nat-generic"},
			{"*UDPNATRelay", "recvFromServerConnRecvmmsg", "nat-mmsg"},
			{"*UDPSessionRelay", "recvFromServerConnGeneric", "session-generic"},
			{"*UDPSessionRelay", "recvFromServerConnRecvmmsg", "session-mmsg"},
		} {
			fd, err := sp.Func(it.recv, it.fn)
			if err != nil {
				return err
			}
			prog, dfr, err := recvProgram(sp, fd)
			if err != nil {
				return fmt.Errorf("%s.%s: %w", it.recv, it.fn, err)
			}
			progs = append(progs, fmt.Sprintf("(%s, %s)", gen.LeanString(it.label), gen.LeanStrList(prog)))
			defers = append(defers, fmt.Sprintf("(%s, %s)", gen.LeanString(it.label), gen.LeanStrList(dfr)))
		}
		l.Raw("/-- straight-line event order of each relay receive loop (service/udp_*.go) -/\n")
		l.Raw("def recvProgs : List (String × List String) := [\n  " + strings.Join(progs, ",\n  ") + "]\n")
		l.Raw("/-- the deferred cleanup of each session goroutine -/\n")
		l.Raw("def cleanupProgs : List (String × List String) := [\n  " + strings.Join(defers, ",\n  ") + "]\n")

		// index bookkeeping of the four recvmmsg/sendmmsg relay loops
		var batches []string
		for _, it := range []struct{ recv, fn, label string }{
			{"*UDPNATRelay", "relayServerConnToNatConnSendmmsg", "nat-uplink"},
			{"*UDPNATRelay", "relayNatConnToServerConnSendmmsg", "nat-downlink"},
			{"*UDPSessionRelay", "relayServerConnToNatConnSendmmsg", "session-uplink"},
			{"*UDPSessionRelay", "relayNatConnToServerConnSendmmsg", "session-downlink"},
		} {
			fd, err := sp.Func(it.recv, it.fn)
			if err != nil {
				return err
			}
			kv, err := batchProgram(sp, fd)
			if err != nil {
				return fmt.Errorf("%s.%s: %w", it.recv, it.fn, err)
			}
			var items []string
			for _, e := range kv {
				items = append(items, fmt.Sprintf("(%s, %s)", gen.LeanString(e[0]), gen.LeanString(e[1])))
			}
			batches = append(batches, fmt.Sprintf("(%s, [%s])", gen.LeanString(it.label), strings.Join(items, ", ")))
		}
		l.Raw("/-- index bookkeeping of each sendmmsg relay loop: the counter of kept messages, the index of the received\n")
		l.Raw("    message (downlinks), every index expression used to fill a send-side vector in the keep path (in source order,\n")
		l.Raw("    with the counter increment), the slice handed to WriteMsgs, where the counter is declared, the msgvec→iovec/name links -/\n")
		l.Raw("def batchProgs : List (String × List (String × String)) := [\n  " + strings.Join(batches, ",\n  ") + "]\n")

		// every place where a queued packet buffer is given back (= the packet's journey ends), classified
		var drops []string
		for _, it := range []struct{ recv, fn, label, kind string }{
			{"*UDPNATRelay", "relayServerConnToNatConnGeneric", "nat-uplink-generic", "uplink"},
			{"*UDPNATRelay", "relayServerConnToNatConnSendmmsg", "nat-uplink-mmsg", "uplink"},
			{"*UDPSessionRelay", "relayServerConnToNatConnGeneric", "session-uplink-generic", "uplink"},
			{"*UDPSessionRelay", "relayServerConnToNatConnSendmmsg", "session-uplink-mmsg", "uplink"},
			{"*UDPNATRelay", "recvFromServerConnGeneric", "nat-recv-generic", "recv"},
			{"*UDPNATRelay", "recvFromServerConnRecvmmsg", "nat-recv-mmsg", "recv"},
			{"*UDPSessionRelay", "recvFromServerConnGeneric", "session-recv-generic", "recv"},
			{"*UDPSessionRelay", "recvFromServerConnRecvmmsg", "session-recv-mmsg", "recv"},
		} {
			fd, err := sp.Func(it.recv, it.fn)
			if err != nil {
				return err
			}
			cls, err := dropSites(sp, fd, it.kind)
			if err != nil {
				return fmt.Errorf("%s.%s: %w", it.recv, it.fn, err)
			}
			drops = append(drops, fmt.Sprintf("(%s, %s)", gen.LeanString(it.label), gen.LeanStrList(cls)))
		}
		l.Raw("/-- every `putQueuedPacket` site of the uplink and receive loops, classified, in source order: the complete list of\n")
		l.Raw("    ways the journey of a client datagram can end inside the relay -/\n")
		l.Raw("def dropSites : List (String × List String) := [\n  " + strings.Join(drops, ",\n  ") + "]\n")
		return nil
	})
}

// ---- packer sharing ----

func recvName(fd *ast.FuncDecl) string {
	if fd.Recv == nil || len(fd.Recv.List) != 1 || len(fd.Recv.List[0].Names) != 1 {
		return ""
	}
	return fd.Recv.List[0].Names[0].Name
}

// packerValueKind classifies the expression assigned to the Packer field.
func packerValueKind(p *apkg, rn string, e ast.Expr) (string, error) {
	switch v := e.(type) {
	case *ast.CallExpr:
		if id, ok := v.Fun.(*ast.Ident); ok && strings.HasPrefix(id.Name, "New") {
			return "fresh", nil
		}
	case *ast.UnaryExpr:
		if _, ok := v.X.(*ast.CompositeLit); ok && v.Op.String() == "&" {
			return "fresh", nil
		}
	case *ast.SelectorExpr:
		if root := rootIdent(v); root != nil && root.Name == rn {
			return "stored", nil
		}
	}
	return "", fmt.Errorf("unrecognised Packer expression %q", p.Src(e))
}

func rootIdent(e ast.Expr) *ast.Ident {
	for {
		switch v := e.(type) {
		case *ast.Ident:
			return v
		case *ast.SelectorExpr:
			e = v.X
		default:
			return nil
		}
	}
}

func sessionLit(e ast.Expr) *ast.CompositeLit {
	cl, ok := e.(*ast.CompositeLit)
	if !ok {
		return nil
	}
	if se, ok := cl.Type.(*ast.SelectorExpr); ok && se.Sel.Name == "UDPClientSession" {
		return cl
	}
	return nil
}

func packerField(cl *ast.CompositeLit) ast.Expr {
	for _, el := range cl.Elts {
		if kv, ok := el.(*ast.KeyValueExpr); ok {
			if id, ok := kv.Key.(*ast.Ident); ok && id.Name == "Packer" {
				return kv.Value
			}
		}
	}
	return nil
}

// sessionLiteralPackerFresh: the function must contain exactly one non-empty UDPClientSession literal
// whose Packer is built in place.
func sessionLiteralPackerFresh(p *apkg, fd *ast.FuncDecl) (bool, string, error) {
	var lits []*ast.CompositeLit
	ast.Inspect(fd.Body, func(n ast.Node) bool {
		if e, ok := n.(ast.Expr); ok {
			if cl := sessionLit(e); cl != nil && len(cl.Elts) > 0 {
				lits = append(lits, cl)
			}
		}
		return true
	})
	if len(lits) != 1 {
		return false, "", fmt.Errorf("expected one non-empty UDPClientSession literal, found %d", len(lits))
	}
	pf := packerField(lits[0])
	if pf == nil {
		return false, "", fmt.Errorf("UDPClientSession literal has no Packer field")
	}
	k, err := packerValueKind(p, recvName(fd), pf)
	if err != nil {
		return false, "", err
	}
	src := p.Src(pf)
	if len(src) > 70 {
		src = src[:70] + "…"
	}
	return k == "fresh", "Packer: " + src, nil
}

func directPackerShared(p *apkg) (bool, string, error) {
	fd, err := p.Func("*DirectUDPClient", "NewSession")
	if err != nil {
		return false, "", err
	}
	rn := recvName(fd)
	if len(fd.Body.List) != 1 {
		return false, "", fmt.Errorf("NewSession body has %d statements, expected a single return", len(fd.Body.List))
	}
	ret, ok := fd.Body.List[0].(*ast.ReturnStmt)
	if !ok || len(ret.Results) != 3 {
		return false, "", fmt.Errorf("NewSession: unrecognised body %q", p.Src(fd.Body))
	}
	switch v := ret.Results[1].(type) {
	case *ast.SelectorExpr:
		// `return c.info, c.session, nil`: a session stored in the client; find where it is built
		if root := rootIdent(v); root == nil || root.Name != rn {
			return false, "", fmt.Errorf("NewSession returns %q", p.Src(v))
		}
		field := v.Sel.Name
		ctor, err := p.Func("", "NewDirectUDPClient")
		if err != nil {
			return false, "", err
		}
		var found ast.Expr
		ast.Inspect(ctor.Body, func(n ast.Node) bool {
			if kv, ok := n.(*ast.KeyValueExpr); ok {
				if id, ok := kv.Key.(*ast.Ident); ok && id.Name == field {
					found = kv.Value
				}
			}
			return true
		})
		cl := sessionLit(found)
		if cl == nil || packerField(cl) == nil {
			return false, "", fmt.Errorf("NewDirectUDPClient: field %s is not a UDPClientSession literal with a Packer", field)
		}
		if _, err := packerValueKind(p, "", packerField(cl)); err != nil {
			return false, "", err
		}
		return true, "returns the stored " + p.Src(v) + " (Packer built once in NewDirectUDPClient: " + p.Src(packerField(cl)) + ")", nil
	case *ast.CompositeLit:
		cl := sessionLit(v)
		if cl == nil || packerField(cl) == nil {
			return false, "", fmt.Errorf("NewSession returns %q", p.Src(v))
		}
		k, err := packerValueKind(p, rn, packerField(cl))
		if err != nil {
			return false, "", err
		}
		return k == "stored", "Packer: " + p.Src(packerField(cl)), nil
	}
	return false, "", fmt.Errorf("NewSession returns %q", p.Src(ret.Results[1]))
}

// ---- receive-loop step programs ----

func isCall(p *apkg, e ast.Expr, src string) bool {
	ce, ok := e.(*ast.CallExpr)
	return ok && p.Src(ce.Fun) == src
}

func exprStmtCall(p *apkg, s ast.Stmt, src string) bool {
	es, ok := s.(*ast.ExprStmt)
	return ok && isCall(p, es.X, src)
}

func endsWithJump(b *ast.BlockStmt) bool {
	if len(b.List) == 0 {
		return false
	}
	switch v := b.List[len(b.List)-1].(type) {
	case *ast.BranchStmt:
		return v.Tok.String() == "continue" || v.Tok.String() == "break"
	case *ast.ReturnStmt:
		return true
	}
	return false
}

func containsSrc(p *apkg, n ast.Node, sub string) bool {
	return strings.Contains(p.Src(n), sub)
}

// recvProgram walks the receive function's outer `for` body (descending into the one nested
// per-message `for` of the mmsg variants and into `if !ok { ... }`) in source order.
func recvProgram(p *apkg, fd *ast.FuncDecl) (prog, dfr []string, err error) {
	var outer *ast.ForStmt
	for _, s := range fd.Body.List {
		if f, ok := s.(*ast.ForStmt); ok && f.Cond == nil && f.Init == nil {
			if outer != nil {
				return nil, nil, fmt.Errorf("more than one top-level for loop")
			}
			outer = f
		}
	}
	if outer == nil {
		return nil, nil, fmt.Errorf("no top-level for loop")
	}
	var walk func(list []ast.Stmt, inNotOk bool) error
	prevUnpack := false
	walk = func(list []ast.Stmt, inNotOk bool) error {
		for _, s := range list {
			wasUnpack := prevUnpack
			prevUnpack = false
			switch v := s.(type) {
			case *ast.ExprStmt:
				switch {
				case isCall(p, v.X, "s.mu.Lock"):
					prog = append(prog, "lock")
				case isCall(p, v.X, "s.mu.Unlock"):
					prog = append(prog, "unlock")
				case isCall(p, v.X, "s.wg.Go"):
					prog = append(prog, "spawn")
					ce := v.X.(*ast.CallExpr)
					fl, ok := ce.Args[0].(*ast.FuncLit)
					if !ok {
						return fmt.Errorf("s.wg.Go argument is not a function literal")
					}
					d, err := cleanupProgram(p, fl)
					if err != nil {
						return err
					}
					dfr = d
				default:
					if containsSrc(p, v, "s.table") || containsSrc(p, v, "s.mu.") || containsSrc(p, v, "natConnSendCh") {
						return fmt.Errorf("unrecognised statement %q", p.Src(v))
					}
				}
			case *ast.AssignStmt:
				src := p.Src(v)
				switch {
				case len(v.Lhs) == 1 && containsSrc(p, v.Lhs[0], "s.table["):
					if !inNotOk {
						return fmt.Errorf("table insert outside `if !ok`: %q", src)
					}
					prog = append(prog, "insert")
				case len(v.Rhs) == 1 && containsSrc(p, v.Rhs[0], "s.table["):
					if len(v.Lhs) != 2 || p.Src(v.Lhs[1]) != "ok" {
						return fmt.Errorf("unrecognised table lookup %q", src)
					}
					prog = append(prog, "lookup")
				case strings.Contains(src, ".UnpackInPlace("):
					if p.Src(v.Lhs[len(v.Lhs)-1]) != "err" {
						return fmt.Errorf("unpack result not assigned to err: %q", src)
					}
					prog = append(prog, "unpack")
					prevUnpack = true
				case strings.Contains(src, "s.table") || strings.Contains(src, "s.mu."):
					return fmt.Errorf("unrecognised statement %q", src)
				}
			case *ast.IfStmt:
				cond := p.Src(v.Cond)
				switch {
				case cond == "!ok" && v.Else == nil:
					if err := walk(v.Body.List, true); err != nil {
						return err
					}
				case endsWithJump(v.Body) && v.Else == nil:
					if wasUnpack {
						if cond != "err != nil" {
							return fmt.Errorf("statement after UnpackInPlace is `if %s`", cond)
						}
						prog = append(prog, "unpackfail-continue")
					}
					// an early exit: may unlock, must not touch the table or the channel
					if containsSrc(p, v.Body, "s.table") || containsSrc(p, v.Body, "natConnSendCh") || containsSrc(p, v.Body, "s.mu.Lock") {
						return fmt.Errorf("early exit touches table/channel/lock: %q", cond)
					}
				default:
					if containsSrc(p, v, "s.table") || containsSrc(p, v, "natConnSendCh") || containsSrc(p, v, "UnpackInPlace") || v.Else != nil && containsSrc(p, v, "s.mu.") {
						return fmt.Errorf("unrecognised if statement `if %s` touching table/lock/channel", cond)
					}
					if containsSrc(p, v, "s.mu.") {
						// e.g. the pktinfo update block: only early exits inside may unlock
						if err := walk(v.Body.List, inNotOk); err != nil {
							return err
						}
					}
				}
			case *ast.SelectStmt:
				if len(v.Body.List) != 2 {
					return fmt.Errorf("select with %d clauses", len(v.Body.List))
				}
				c0, c1 := v.Body.List[0].(*ast.CommClause), v.Body.List[1].(*ast.CommClause)
				snd, ok := c0.Comm.(*ast.SendStmt)
				if !ok || p.Src(snd.Chan) != "entry.natConnSendCh" || p.Src(snd.Value) != "queuedPacket" || c1.Comm != nil {
					return fmt.Errorf("unrecognised select %q", p.Src(v))
				}
				prog = append(prog, "enqueue")
			case *ast.ForStmt, *ast.RangeStmt:
				var body *ast.BlockStmt
				if f, ok := v.(*ast.ForStmt); ok {
					body = f.Body
				} else {
					body = v.(*ast.RangeStmt).Body
				}
				if containsSrc(p, body, "s.table") || containsSrc(p, body, "UnpackInPlace") {
					if err := walk(body.List, inNotOk); err != nil {
						return err
					}
				} else if containsSrc(p, body, "s.mu.") || containsSrc(p, body, "natConnSendCh") {
					return fmt.Errorf("unrecognised loop touching lock/channel")
				}
			default:
				if containsSrc(p, s, "s.table") || containsSrc(p, s, "s.mu.") || containsSrc(p, s, "natConnSendCh") || containsSrc(p, s, "UnpackInPlace") {
					return fmt.Errorf("unrecognised statement %q", p.Src(s)[:min(120, len(p.Src(s)))])
				}
			}
		}
		return nil
	}
	if err := walk(outer.Body.List, false); err != nil {
		return nil, nil, err
	}
	if dfr == nil {
		return nil, nil, fmt.Errorf("no session goroutine (s.wg.Go) found")
	}
	return prog, dfr, nil
}

// cleanupProgram: the session goroutine's first deferred function must start with
// s.mu.Lock(); close(natConnSendCh); delete(s.table, k); s.mu.Unlock().
func cleanupProgram(p *apkg, fl *ast.FuncLit) ([]string, error) {
	for _, s := range fl.Body.List {
		ds, ok := s.(*ast.DeferStmt)
		if !ok {
			continue
		}
		dl, ok := ds.Call.Fun.(*ast.FuncLit)
		if !ok {
			return nil, fmt.Errorf("deferred call is not a function literal")
		}
		var prog []string
		for _, st := range dl.Body.List {
			switch {
			case exprStmtCall(p, st, "s.mu.Lock"):
				prog = append(prog, "lock")
			case exprStmtCall(p, st, "s.mu.Unlock"):
				prog = append(prog, "unlock")
			case exprStmtCall(p, st, "close"):
				if !containsSrc(p, st, "natConnSendCh") {
					return nil, fmt.Errorf("deferred cleanup closes %q", p.Src(st))
				}
				prog = append(prog, "close")
			case exprStmtCall(p, st, "delete"):
				if !containsSrc(p, st, "s.table") {
					return nil, fmt.Errorf("deferred cleanup deletes %q", p.Src(st))
				}
				prog = append(prog, "delete")
			default:
				if containsSrc(p, st, "s.table") || containsSrc(p, st, "s.mu.") || containsSrc(p, st, "close(") {
					return nil, fmt.Errorf("unrecognised cleanup statement %q", p.Src(st))
				}
			}
		}
		return prog, nil
	}
	return nil, fmt.Errorf("session goroutine has no deferred cleanup")
}

// ---- sendmmsg batch bookkeeping ----

func isRecvSide(v string) bool {
	switch v {
	case "rmsgvec", "riovec", "savec", "bufvec", "cmsgvec":
		return true
	}
	return false
}

// indexOfVec: `V[E]`, `V[E].F`, `&V[E]` with V an identifier ending in "vec" -> (V, E).
func indexOfVec(p *apkg, e ast.Expr) (string, string, bool) {
	for {
		switch v := e.(type) {
		case *ast.UnaryExpr:
			e = v.X
			continue
		case *ast.SelectorExpr:
			e = v.X
			continue
		case *ast.ParenExpr:
			e = v.X
			continue
		case *ast.IndexExpr:
			if id, ok := v.X.(*ast.Ident); ok && strings.HasSuffix(id.Name, "vec") {
				return id.Name, p.Src(v.Index), true
			}
			return "", "", false
		default:
			return "", "", false
		}
	}
}

// linkTarget: `&Y[idx]` possibly wrapped in `(*byte)(unsafe.Pointer(...))`.
func linkTarget(p *apkg, e ast.Expr) (string, string, bool) {
	for {
		switch v := e.(type) {
		case *ast.CallExpr:
			if len(v.Args) != 1 {
				return "", "", false
			}
			e = v.Args[0]
		case *ast.ParenExpr:
			e = v.X
		case *ast.UnaryExpr:
			if v.Op.String() != "&" {
				return "", "", false
			}
			ix, ok := v.X.(*ast.IndexExpr)
			if !ok {
				return "", "", false
			}
			id, ok := ix.X.(*ast.Ident)
			if !ok || !strings.HasSuffix(id.Name, "vec") {
				return "", "", false
			}
			return id.Name, p.Src(ix.Index), true
		default:
			return "", "", false
		}
	}
}

func batchProgram(p *apkg, fd *ast.FuncDecl) ([][2]string, error) {
	var out [][2]string
	add := func(k, v string) { out = append(out, [2]string{k, v}) }
	var mainLoop *ast.ForStmt
	// 1. set-up loops before the main loop: msgvec[i].Msghdr.{Iov,Name} = &Y[i]
	for _, st := range fd.Body.List {
		if ls, ok := st.(*ast.LabeledStmt); ok {
			st = ls.Stmt
		}
		switch v := st.(type) {
		case *ast.ForStmt:
			if v.Cond == nil && v.Init == nil {
				if mainLoop != nil {
					return nil, fmt.Errorf("more than one main loop")
				}
				mainLoop = v
			}
		case *ast.RangeStmt:
			key := p.Src(v.Key)
			for _, bs := range v.Body.List {
				as, ok := bs.(*ast.AssignStmt)
				if !ok || len(as.Lhs) != 1 || len(as.Rhs) != 1 {
					continue
				}
				lv, li, ok := indexOfVec(p, as.Lhs[0])
				if !ok {
					continue
				}
				if tv, ti, ok := linkTarget(p, as.Rhs[0]); ok {
					if li != key || ti != key {
						add("badlink", fmt.Sprintf("%s[%s]->%s[%s] (loop variable %s)", lv, li, tv, ti, key))
					} else {
						add("link", lv+"->"+tv)
					}
				}
			}
		}
	}
	if mainLoop == nil {
		return nil, fmt.Errorf("no main loop")
	}
	// 2. the main loop
	var counter, iter, sendHi, sendVec string
	counterScope := ""
	var path []string
	seenWrite := false
	_ = seenWrite
	var walk func(list []ast.Stmt, depth int, iterVar string) error
	walk = func(list []ast.Stmt, depth int, iterVar string) error {
		for _, st := range list {
			if ls, ok := st.(*ast.LabeledStmt); ok {
				st = ls.Stmt
			}
			switch v := st.(type) {
			case *ast.DeclStmt:
				src := p.Src(v)
				if strings.HasPrefix(src, "var ") && strings.HasSuffix(src, " int") && !strings.Contains(src, "(") {
					name := strings.Fields(src)[1]
					if name == "ns" || name == "count" {
						counter = name
						if depth == 0 {
							counterScope = "batch"
						} else {
							counterScope = "nested"
						}
					}
				}
			case *ast.AssignStmt:
				for _, lh := range v.Lhs {
					if vec, idx, ok := indexOfVec(p, lh); ok && !isRecvSide(vec) {
						path = append(path, "fill "+idx)
					}
				}
				for _, rh := range v.Rhs {
					if ce, ok := rh.(*ast.CallExpr); ok && strings.HasSuffix(p.Src(ce.Fun), ".WriteMsgs") {
						se, ok := ce.Args[0].(*ast.SliceExpr)
						if !ok || se.High == nil {
							return fmt.Errorf("WriteMsgs argument %q is not a slice expression", p.Src(ce.Args[0]))
						}
						sendVec, sendHi = p.Src(se.X), p.Src(se.High)
						seenWrite = true
					}
					// packetBuf := bufvec[i]
					if vec, idx, ok := indexOfVec(p, rh); ok && vec == "bufvec" {
						add("buf", idx)
					}
				}
			case *ast.ExprStmt:
				if ce, ok := v.X.(*ast.CallExpr); ok {
					fn := p.Src(ce.Fun)
					switch {
					case strings.HasSuffix(fn, ".SetLen"):
						if vec, idx, ok := indexOfVec(p, ce.Fun.(*ast.SelectorExpr).X); ok && !isRecvSide(vec) {
							path = append(path, "fill "+idx)
						}
					case strings.HasSuffix(fn, "PutAddrPort"):
						for _, a := range ce.Args {
							if vec, idx, ok := indexOfVec(p, a); ok && !isRecvSide(vec) {
								path = append(path, "fill "+idx)
							}
						}
					}
				}
			case *ast.IncDecStmt:
				if name := p.Src(v.X); name == "ns" || name == "count" {
					path = append(path, "inc "+name)
				}
			case *ast.RangeStmt:
				if strings.HasPrefix(p.Src(v.X), "rmsgvec") {
					iter = p.Src(v.Key)
					if err := walk(v.Body.List, depth+1, iter); err != nil {
						return err
					}
				}
			case *ast.ForStmt:
				if err := walk(v.Body.List, depth+1, iterVar); err != nil {
					return err
				}
			case *ast.IfStmt:
				// early exits (continue / goto) carry no fills; other ifs are walked
				if containsSrc(p, v.Body, "vec[") {
					if err := walk(v.Body.List, depth+1, iterVar); err != nil {
						return err
					}
				}
			}
		}
		return nil
	}
	if err := walk(mainLoop.Body.List, 0, ""); err != nil {
		return nil, err
	}
	if counter == "" || sendVec == "" || len(path) == 0 {
		return nil, fmt.Errorf("unrecognised batch loop (counter %q, send vector %q, %d keep-path events)", counter, sendVec, len(path))
	}
	// only the fills of vectors that belong to the sent batch: the keep path is the run of events ending in the increment
	add("counter", counter)
	add("counterScope", counterScope)
	add("iter", iter)
	for _, e := range path {
		k, v, _ := strings.Cut(e, " ")
		add(k, v) // ("fill", index expression) / ("inc", counter), in source order
	}
	add("sendVec", sendVec)
	add("sendHi", sendHi)
	return out, nil
}

// ---- where a queued packet's buffer is given back ----

// dropSites classifies every s.putQueuedPacket(...) call of an uplink ("pack-error" | "after-send") or receive
// function ("rejected" before the enqueue, "queue-full" in the select's default, "not-started" in the session
// goroutine's deferred cleanup, "unused-buffer" after the receive loop). Anything else is an error.
func dropSites(p *apkg, fd *ast.FuncDecl, kind string) ([]string, error) {
	var out []string
	var err error
	var visit func(n ast.Node, ctx []ast.Node)
	classify := func(call *ast.CallExpr, ctx []ast.Node) string {
		inDefault, inErrIf, inDefer, inNotClean := false, false, false, false
		var errIf *ast.IfStmt
		for _, c := range ctx {
			switch v := c.(type) {
			case *ast.CommClause:
				if v.Comm == nil {
					inDefault = true
				}
			case *ast.IfStmt:
				if containsSrc(p, v.Cond, "err != nil") || containsSrc(p, v.Cond, "== 0") {
					inErrIf = true
					errIf = v
				}
				if p.Src(v.Cond) == "!sendChClean" {
					inNotClean = true
				}
			case *ast.DeferStmt:
				inDefer = true
			}
		}
		switch {
		case inDefer && inNotClean:
			return "not-started"
		case inDefer:
			return ""
		case kind == "uplink" && inErrIf:
			// the error must be PackInPlace's: the statement before the if in its block
			for _, c := range ctx {
				if b, ok := c.(*ast.BlockStmt); ok {
					for i, st := range b.List {
						if st == ast.Stmt(errIf) && i > 0 && containsSrc(p, b.List[i-1], ".PackInPlace(") {
							return "pack-error"
						}
					}
				}
			}
			return ""
		case kind == "uplink":
			return "after-send"
		case inDefault:
			return "queue-full"
		case inErrIf:
			return "rejected"
		}
		// receive function, not under an error check: only the hand-back of unused receive buffers after the loop
		for _, c := range ctx {
			if _, ok := c.(*ast.ForStmt); ok {
				return ""
			}
		}
		return "unused-buffer"
	}
	visit = func(n ast.Node, ctx []ast.Node) {
		if n == nil || err != nil {
			return
		}
		if ce, ok := n.(*ast.CallExpr); ok && p.Src(ce.Fun) == "s.putQueuedPacket" {
			c := classify(ce, ctx)
			if c == "" {
				err = fmt.Errorf("unclassified putQueuedPacket site %q", p.Src(ce))
				return
			}
			out = append(out, c)
		}
		ctx = append(ctx, n)
		ast.Inspect(n, func(m ast.Node) bool {
			if m == nil || m == n {
				return m == n
			}
			visit(m, ctx)
			return false
		})
	}
	visit(fd.Body, nil)
	return out, err
}
