package main

import (
	"encoding/binary"
	"encoding/hex"

	"ssvharness/internal/common"
)

// ---------- SOCKS address seeds and mutations ----------

var boundaryPorts = []uint16{0, 1, 53, 80, 443, 1024, 65535}

func port(r *common.Rng) uint16 {
	if r.Chance(2, 3) {
		return common.Pick(r, boundaryPorts)
	}
	return uint16(r.U64())
}

func putPort(b []byte, p uint16) []byte { return binary.BigEndian.AppendUint16(b, p) }

func domainBytes(r *common.Rng, n int) []byte {
	const al = "abcdefghijklmnopqrstuvwxyz0123456789-."
	b := make([]byte, n)
	for i := range b {
		switch {
		case r.Chance(1, 40):
			b[i] = byte(r.U64()) // arbitrary octet (NUL, ':', CR, LF, >0x7f ...)
		default:
			b[i] = al[r.Intn(len(al))]
		}
	}
	return b
}

var domainLens = []int{1, 2, 3, 11, 62, 63, 64, 253, 254, 255}

// validAddr returns a well-formed SOCKS address. kind: 0 v4, 1 v6, 2 v4-mapped v6, 3 domain.
func validAddr(r *common.Rng, kind int) []byte {
	switch kind {
	case 0:
		b := []byte{1}
		b = append(b, r.Bytes(4)...)
		if r.Chance(1, 6) {
			copy(b[1:], []byte{0, 0, 0, 0})
		}
		return putPort(b, port(r))
	case 1:
		b := []byte{4}
		b = append(b, r.Bytes(16)...)
		if r.Chance(1, 6) {
			copy(b[1:], make([]byte, 16))
		}
		return putPort(b, port(r))
	case 2:
		b := []byte{4, 0, 0, 0, 0, 0, 0, 0, 0, 0, 0, 0xff, 0xff}
		b = append(b, r.Bytes(4)...)
		return putPort(b, port(r))
	default:
		n := common.Pick(r, domainLens)
		if r.Chance(1, 3) {
			n = r.Range(1, 255)
		}
		b := []byte{3, byte(n)}
		b = append(b, domainBytes(r, n)...)
		return putPort(b, port(r))
	}
}

func anyValidAddr(r *common.Rng) []byte { return validAddr(r, r.Intn(4)) }

// mutate applies one boundary-directed mutation to a byte string.
func mutate(r *common.Rng, b []byte) []byte {
	b = append([]byte(nil), b...)
	switch r.Intn(12) {
	case 0: // truncate anywhere
		return b[:r.Intn(len(b)+1)]
	case 1: // truncate by one / two
		k := r.Range(1, 2)
		if len(b) >= k {
			return b[:len(b)-k]
		}
		return b[:0]
	case 2: // extend
		return append(b, r.Bytes(r.Range(1, 40))...)
	case 3: // first byte (type / atyp / version)
		if len(b) > 0 {
			b[0] = common.Pick(r, []byte{0, 1, 2, 3, 4, 5, 6, 0x7f, 0x80, 0xff})
		}
		return b
	case 4: // second byte (length / nmethods)
		if len(b) > 1 {
			b[1] = common.Pick(r, []byte{0, 1, 2, byte(len(b) - 4), byte(len(b) - 3), byte(len(b) - 2), 0x7f, 0xfe, 0xff})
		}
		return b
	case 5: // flip a random byte
		if len(b) > 0 {
			b[r.Intn(len(b))] ^= byte(1 << r.Intn(8))
		}
		return b
	case 6: // set a random byte to a boundary value
		if len(b) > 0 {
			b[r.Intn(len(b))] = common.Pick(r, []byte{0, 1, 0x7f, 0x80, 0xfe, 0xff})
		}
		return b
	case 7: // zero the tail (port 0 ...)
		for i := len(b) - 2; i >= 0 && i < len(b); i++ {
			b[i] = 0
		}
		return b
	case 8: // duplicate a chunk
		if len(b) > 1 {
			i := r.Intn(len(b))
			j := i + r.Intn(len(b)-i)
			return append(b[:j:j], b[i:]...)
		}
		return b
	case 9: // drop a chunk in the middle
		if len(b) > 2 {
			i := r.Intn(len(b))
			j := i + r.Intn(len(b)-i)
			return append(b[:i:i], b[j:]...)
		}
		return b
	case 10: // pure garbage of a boundary length
		return r.Bytes(common.Pick(r, []int{0, 1, 2, 3, 6, 7, 8, 18, 19, 20, 258, 259, 260}))
	default: // two mutations
		return mutate(r, mutate(r, b))
	}
}

// maybeMutate keeps the seed valid half of the time.
func maybeMutate(r *common.Rng, b []byte) []byte {
	if r.Chance(1, 2) {
		return b
	}
	return mutate(r, b)
}

// allPrefixes returns every truncation of b (boundary corpus).
func allPrefixes(b []byte) [][]byte {
	var out [][]byte
	for i := 0; i <= len(b); i++ {
		out = append(out, b[:i])
	}
	return out
}

// addrCorpus: deterministic seeds whose every truncation is tried.
func addrCorpus() [][]byte {
	r := common.NewRng(0xC06)
	seeds := [][]byte{
		{1, 1, 2, 3, 4, 0, 0},       // 1.2.3.4:0
		{1, 0, 0, 0, 0, 0xff, 0xff}, // 0.0.0.0:65535
		append(append([]byte{4}, make([]byte, 16)...), 0, 0),                                               // [::]:0
		append([]byte{4, 0, 0, 0, 0, 0, 0, 0, 0, 0, 0, 0xff, 0xff, 127, 0, 0, 1}, 0, 53),                    // ::ffff:127.0.0.1
		{3, 0, 0, 80},               // empty name
		{3, 1, 'a', 0, 0},           // 1-byte name, port 0
		{3, 1, 0, 1, 0xbb},          // NUL name
		append(append([]byte{3, 255}, domainBytes(r, 255)...), 1, 0xbb), // longest name
		append(append([]byte{3, 254}, domainBytes(r, 254)...), 1, 0xbb),
		{0, 0}, {2, 0, 0, 0, 0, 0, 0}, {5}, {0xff, 0xff, 0xff},
	}
	var out [][]byte
	for _, s := range seeds {
		out = append(out, allPrefixes(s)...)
		out = append(out, append(append([]byte(nil), s...), 0xaa), append(append([]byte(nil), s...), make([]byte, 300)...))
	}
	return out
}

func hx(b []byte) string { return hex.EncodeToString(b) }

// chunking of n bytes into pieces
func chunks(r *common.Rng, n int) []int {
	switch r.Intn(4) {
	case 0:
		return []int{n}
	case 1: // byte by byte
		cs := make([]int, n)
		for i := range cs {
			cs[i] = 1
		}
		return cs
	default:
		var cs []int
		for n > 0 {
			k := r.Range(1, 1+n)
			if k > n {
				k = n
			}
			cs = append(cs, k)
			n -= k
		}
		return cs
	}
}

// ---------- ss2022 message headers ----------

const baseNow = 1790000000

func tsField(r *common.Rng, now int64) []byte {
	var ts uint64
	switch r.Intn(10) {
	case 0:
		ts = uint64(now - 30)
	case 1:
		ts = uint64(now + 30)
	case 2:
		ts = uint64(now - 31)
	case 3:
		ts = uint64(now + 31)
	case 4:
		ts = common.Pick(r, []uint64{0, 1 << 63, 1<<63 - 1, ^uint64(0), 1 << 32})
	case 5:
		ts = r.U64()
	default:
		ts = uint64(now + int64(r.Range(0, 60)) - 30)
	}
	return binary.BigEndian.AppendUint64(nil, ts)
}

func paddingLen(r *common.Rng) int {
	switch r.Intn(6) {
	case 0:
		return common.Pick(r, []int{1, 2, 899, 900, 901, 65535})
	case 1:
		return r.Range(1, 64)
	default:
		return 0
	}
}

// udpClientMsg builds a well-formed UDP client message (type 0).
func udpClientMsg(r *common.Rng, now int64) []byte {
	b := []byte{0}
	if r.Chance(1, 12) {
		b[0] = common.Pick(r, []byte{1, 2, 0xff})
	}
	b = append(b, tsField(r, now)...)
	pl := paddingLen(r)
	b = binary.BigEndian.AppendUint16(b, uint16(pl))
	if pl <= 2000 || r.Chance(1, 4) {
		b = append(b, make([]byte, pl)...)
	}
	b = append(b, anyValidAddr(r)...)
	return append(b, r.Bytes(common.Pick(r, []int{0, 0, 1, 16, 100}))...)
}

func udpServerMsg(r *common.Rng, now int64, csid uint64) []byte {
	b := []byte{1}
	if r.Chance(1, 12) {
		b[0] = common.Pick(r, []byte{0, 2, 0xff})
	}
	b = append(b, tsField(r, now)...)
	if r.Chance(1, 10) {
		csid ^= 1 << r.Intn(64)
	}
	b = binary.BigEndian.AppendUint64(b, csid)
	pl := paddingLen(r)
	b = binary.BigEndian.AppendUint16(b, uint16(pl))
	if pl <= 2000 || r.Chance(1, 4) {
		b = append(b, make([]byte, pl)...)
	}
	b = append(b, validAddr(r, r.Intn(7)%4)...) // mostly IP, sometimes a domain (refused by the client)
	return append(b, r.Bytes(common.Pick(r, []int{0, 0, 1, 16, 100}))...)
}

// tcpVarHeader builds a well-formed TCP request variable-length header.
func tcpVarHeader(r *common.Rng) []byte {
	b := anyValidAddr(r)
	pl := paddingLen(r)
	b = binary.BigEndian.AppendUint16(b, uint16(pl))
	if pl <= 2000 || r.Chance(1, 4) {
		b = append(b, make([]byte, pl)...)
	}
	return append(b, r.Bytes(common.Pick(r, []int{0, 0, 1, 2, 16, 100}))...)
}
