package main

import (
	"context"
	"crypto/aes"
	"encoding/binary"
	"fmt"
	"net/netip"

	"ssvharness/internal/common"

	"github.com/database64128/shadowsocks-go/conn"
	"github.com/database64128/shadowsocks-go/direct"
	"github.com/database64128/shadowsocks-go/service"
	"github.com/database64128/shadowsocks-go/socks5"
	"github.com/database64128/shadowsocks-go/ss2022"
	"github.com/database64128/shadowsocks-go/stats"
	"github.com/database64128/shadowsocks-go/zerocopy"
	"go.uber.org/zap"
)

// ---------- direct UDP server: config load + reply packing (F4) ----------

// directAccepted reports whether the service accepts a `direct` server with this tunnel address at load.
func directAccepted(target conn.Addr, targetOnly bool) (bool, string) {
	sc := service.ServerConfig{Name: "d", Protocol: "direct", MTU: 1500, TunnelRemoteAddress: target, TunnelUDPTargetOnly: targetOnly,
		UDPListeners: []service.UDPListenerConfig{{ListenerConfig: service.ListenerConfig{Network: "udp", Address: "127.0.0.1:0"}}}}
	for i := range sc.UDPListeners {
		if err := sc.UDPListeners[i].UDPPerfConfig.CheckAndApplyDefaults(); err != nil {
			return false, err.Error()
		}
	}
	if err := sc.Initialize(nil, conn.NewListenConfigCache(), stats.Config{}, nil, zap.NewNop(), 0); err != nil {
		return false, err.Error()
	}
	if _, err := sc.UDPRelay(zap.NewNop(), zerocopy.Headroom{}); err != nil {
		return false, err.Error()
	}
	return true, ""
}

func directTarget(c Case) (conn.Addr, error) {
	if c.Hex == "" {
		return conn.Addr{}, nil
	}
	a, _, err := socks5.ConnAddrFromSlice(c.bytes())
	return a, err
}

func init() {
	register(engine{name: "direct", share: 20,
		gen: func(r *common.Rng, i int) Case {
			c := Case{Entry: "direct", Pre: true, Hex: hx(anyValidAddr(r)), Flag: r.Bool(), Flag2: r.Bool(), N: common.Pick(r, []int{0, 1, 1472, 1473, 70000})}
			if r.Chance(1, 12) {
				c.Hex = "" // no tunnel address configured
			}
			return c
		},
		impl: func(c Case) string {
			target, err := directTarget(c)
			if err != nil {
				return "rejected"
			}
			if ok, _ := directAccepted(target, c.Flag); !ok {
				return "rejected"
			}
			// what the relay does for a reply datagram: NewUnpacker -> NewPacker -> PackInPlace
			srv := direct.NewDirectUDPNATServer(target, c.Flag)
			unp, err := srv.NewUnpacker()
			if err != nil {
				return "err other"
			}
			pk, err := unp.NewPacker()
			if err != nil {
				return "err other"
			}
			src := netip.MustParseAddrPort("198.51.100.7:9")
			if c.Flag2 && target.IsIP() {
				src = target.IPPort()
			}
			buf := make([]byte, c.N+16)
			_, _, err = pk.PackInPlace(buf, src, 0, c.N, 1472)
			return okOrErr(err, "packed")
		},
		line: func(c Case) string {
			target, err := directTarget(c)
			if err != nil {
				return ""
			}
			return fmt.Sprintf("direct %s %s %s %d 1472", renderAddr(target), b01(c.Flag), b01(c.Flag2 && target.IsIP()), c.N)
		}})
}

// probeFindings re-derives F3 and F4 with directed inputs through the same oracle.
func probeFindings(o *common.Options, rep *common.Report) {
	// F3: > 16 port ranges (bit-set representation) + a request to port 0 as it comes off the wire
	var parts []string
	for p := 1; p < 60; p += 3 {
		parts = append(parts, fmt.Sprint(p))
	}
	f3 := []Case{
		{Entry: "router", Pre: true, Hex: "01010203040000", Note: "F3 probe: destination port 0, bit-set destination port criterion",
			Router: &RouterCase{SrcPort: 40000, Routes: []RouteGen{{ToRanges: joinComma(parts)}}}},
		{Entry: "router", Pre: true, Hex: "0101020304" + "0035", Note: "F3 probe: source port 0 (UDP), bit-set source port criterion",
			Router: &RouterCase{SrcPort: 0, UDP: true, Routes: []RouteGen{{FromRanges: joinComma(parts), InvFromPorts: true}}}},
	}
	// F4: direct + tunnelUDPTargetOnly + domain tunnel address: first reply datagram
	f4 := []Case{{Entry: "direct", Pre: true, Hex: "03096c6f63616c686f73740035", Flag: true, N: 100, Note: "F4 probe: direct server, tunnelUDPTargetOnly, tunnelRemoteAddress localhost:53"}}
	for key, cs := range map[string][]Case{"F3:portset-criterion-port0-panic": f3, "F4:direct-targetonly-domain-panic": f4} {
		reproduced := false
		for _, c := range cs {
			e := findEngine(c.Entry)
			res := runCase(e, c)
			if res.pv != nil && oracleKey(c, res) == key {
				reproduced = true
			}
		}
		rep.FindingsProbed[key] = reproduced
		if err := evalCases(cs, o, rep); err != nil {
			rep.Note("probe %s: %v", key, err)
		}
	}
}

func joinComma(xs []string) string {
	s := ""
	for i, x := range xs {
		if i > 0 {
			s += ","
		}
		s += x
	}
	return s
}

// ---------- ss2022 UDP with real keys ----------

var udpPSK = []byte("0123456789abcdef") // 2022-blake3-aes-128-gcm
var udpUserPSK = []byte("fedcba9876543210")
var udpSrcAP = netip.MustParseAddrPort("203.0.113.9:40000")

func patchTs(c Case, msg []byte) []byte {
	msg = append([]byte(nil), msg...)
	if c.Patch && len(msg) >= 9 {
		binary.BigEndian.PutUint64(msg[1:9], uint64(curNow+c.TsOff))
	}
	return msg
}

var tsOffsets = []int64{0, 0, 0, 10, -10, 60, -60, 1 << 40}

// udpSrvPacket builds the datagram of a case: N=0 valid encryption of the (fuzzed) message, N=1 corrupted tag,
// N=2 the bytes are the raw datagram; Flag = server uses identity headers (EIH).
func udpSrvPacket(c Case) []byte {
	msg := patchTs(c, c.bytes())
	if c.N == 2 {
		return msg
	}
	sep := make([]byte, 16)
	binary.BigEndian.PutUint64(sep, c.Csid)
	binary.BigEndian.PutUint64(sep[8:], uint64(c.Now)) // client packet id (degenerate values: 0, 2^64-1)
	userPSK := udpPSK
	var pkt []byte
	if c.Flag { // EIH: separate header under the iPSK, identity header = AES_iPSK(hash(uPSK) xor sep)
		userPSK = udpUserPSK
		blk, _ := aes.NewCipher(udpPSK)
		h := ss2022.PSKHash(udpUserPSK)
		ih := make([]byte, 16)
		for i := range ih {
			ih[i] = h[i] ^ sep[i]
		}
		if c.Flag2 { // unknown user
			ih[0] ^= 1
		}
		blk.Encrypt(ih, ih)
		esep := make([]byte, 16)
		blk.Encrypt(esep, sep)
		pkt = append(esep, ih...)
	} else {
		blk, _ := aes.NewCipher(udpPSK)
		esep := make([]byte, 16)
		blk.Encrypt(esep, sep)
		pkt = esep
	}
	ucc, _ := ss2022.NewUserCipherConfig(userPSK, true)
	aead, _ := ucc.AEAD(sep[:8])
	body := aead.Seal(nil, sep[4:16], msg, nil)
	if c.N == 1 {
		body[len(body)-1] ^= 1
	}
	return append(pkt, body...)
}

func newUDPServer(eih bool) *ss2022.UDPServer {
	if eih {
		icc, err := ss2022.NewServerIdentityCipherConfig(udpPSK, true)
		if err != nil {
			panic(err)
		}
		s := ss2022.NewUDPServer(0, ss2022.UserCipherConfig{}, icc, ss2022.PadPlainDNS)
		u, err := ss2022.NewServerUserCipherConfig("u", udpUserPSK, true)
		if err != nil {
			panic(err)
		}
		s.ReplaceUserLookupMap(ss2022.UserLookupMap{ss2022.PSKHash(udpUserPSK): u})
		return s
	}
	ucc, err := ss2022.NewUserCipherConfig(udpPSK, true)
	if err != nil {
		panic(err)
	}
	return ss2022.NewUDPServer(0, ucc, ss2022.ServerIdentityCipherConfig{}, ss2022.PadPlainDNS)
}

// what the harness (holding the keys) can tell the model about the ciphers' results on this datagram
func udpSrvModelLine(c Case) string {
	pkt := udpSrvPacket(c)
	front := c.PS
	buf := append(append(make([]byte, front), pkt...), make([]byte, 16)...)
	idLen := 0
	if c.Flag {
		idLen = 16
	}
	opened := "none"
	found := true
	dec := append([]byte(nil), pkt...)
	if len(pkt) >= 16 {
		blk, _ := aes.NewCipher(udpPSK)
		blk.Decrypt(dec[:16], dec[:16])
		userPSK := udpPSK
		if c.Flag && len(pkt) >= 32 {
			blk.Decrypt(dec[16:32], dec[16:32])
			h := ss2022.PSKHash(udpUserPSK)
			for i := 0; i < 16; i++ {
				if dec[16+i]^dec[i] != h[i] {
					found = false
				}
			}
			userPSK = udpUserPSK
		}
		if len(pkt) >= 16+idLen+16 && found {
			ucc, _ := ss2022.NewUserCipherConfig(userPSK, true)
			aead, _ := ucc.AEAD(dec[:8])
			if pt, err := aead.Open(nil, dec[4:16], pkt[16+idLen:], nil); err == nil {
				opened = hexf(pt)
			}
		}
	}
	copy(buf[front:], dec[:min(16, len(dec))])
	return fmt.Sprintf("udpsrv %d %d %s 0 %s %d %d %s", curNow, idLen, b01(found), opened, front, len(pkt), hexf(buf))
}

func init() {
	gen := func(r *common.Rng, i int) Case {
		c := Case{Entry: "udpsrv", Pre: true, Csid: common.Pick(r, []uint64{0, 1, ^uint64(0), r.U64(), r.U64(), r.U64()}), Now: common.Pick(r, []int64{7, 7, 0, 1, -1}),
			Flag: r.Chance(1, 3), PS: common.Pick(r, []int{0, 1, 300}), Patch: true, TsOff: common.Pick(r, tsOffsets)}
		msg := maybeMutate(r, udpClientMsg(r, baseNow))
		if r.Chance(1, 10) {
			c.Patch = false
		}
		c.Hex = hx(msg)
		switch r.Intn(10) {
		case 0:
			c.N = 1
		case 1, 2:
			c.N = 2
			c.Patch = false
			c.Hex = hx(r.Bytes(common.Pick(r, []int{0, 1, 15, 16, 17, 31, 32, 33, 47, 48, 49, 100})))
		}
		c.Flag2 = c.Flag && r.Chance(1, 6)
		return c
	}
	register(engine{name: "udpsrv", bubble: true, share: 60, gen: gen,
		impl: func(c Case) string {
			s := newUDPServer(c.Flag)
			pkt := udpSrvPacket(c)
			front := c.PS
			buf := append(append(make([]byte, front), pkt...), make([]byte, 16)...)
			p := buf[front : front+len(pkt)]
			csid, err := s.SessionInfo(p)
			if err != nil {
				return "err " + classify(err)
			}
			unp, _, err := s.NewUnpacker(p, csid)
			if err != nil {
				return "err " + classify(err)
			}
			a, ps, pl, err := unp.UnpackInPlace(buf, udpSrcAP, front, len(pkt))
			if err != nil {
				return "err " + classify(err)
			}
			// a second copy of the same datagram is a replay for this unpacker; must be an error, not a panic
			buf2 := append(append(make([]byte, front), pkt...), make([]byte, 16)...)
			if _, err := s.SessionInfo(buf2[front : front+len(pkt)]); err == nil {
				if _, _, _, err := unp.UnpackInPlace(buf2, udpSrcAP, front, len(pkt)); err == nil {
					return "replay-accepted"
				}
			}
			return fmt.Sprintf("ok %s %d %d", renderAddr(a), ps, pl)
		},
		line: udpSrvModelLine})

	// client side: datagrams from the (hostile / impersonated) server
	register(engine{name: "udpcli", bubble: true, share: 40,
		gen: func(r *common.Rng, i int) Case {
			c := Case{Entry: "udpcli", Pre: true, PS: common.Pick(r, []int{0, 1, 300}), Patch: true, TsOff: common.Pick(r, tsOffsets), Csid: r.U64()}
			// degenerate separate-header fields: server session id 0 / equal to the established session / equal to the client
			// session id; packet id 0, 1 (the prelude's: a replay), 2^64-1; as first packet and after a session is established
			c.Csid = common.Pick(r, []uint64{0, 0, udpCliPreludeSSID, 1, ^uint64(0), r.U64(), r.U64(), r.U64()})
			c.Now = common.Pick(r, []int64{3, 3, 0, 1, -1})
			c.Flag2 = r.Chance(1, 8)
			c.PL = common.Pick(r, []int{0, 0, 1})
			c.Hex = hx(maybeMutate(r, udpServerMsg(r, baseNow, 0)))
			c.Flag = !r.Chance(1, 8) // patch the real client session id into the message
			switch r.Intn(10) {
			case 0:
				c.N = 1
			case 1, 2:
				c.N = 2
				c.Patch, c.Flag = false, false
				c.Hex = hx(r.Bytes(common.Pick(r, []int{0, 1, 15, 16, 17, 31, 32, 33, 100})))
			}
			return c
		},
		fixed: func() []Case {
			var cs []Case
			for _, ssid := range []uint64{0, 1, udpCliPreludeSSID, ^uint64(0)} {
				for _, spid := range []int64{0, 1, 3, -1} {
					for _, prelude := range []int{0, 1} {
						for _, own := range []bool{false, true} {
							for _, n := range []int{0, 1} {
								cs = append(cs, Case{Entry: "udpcli", Pre: true, Patch: true, Flag: true, Csid: ssid, Now: spid, PL: prelude, Flag2: own, N: n,
									Hex: "01" + "0000000000000000" + "0000000000000000" + "0000" + "01c0000209" + "0035" + "aabb"})
							}
						}
					}
				}
			}
			return cs
		},
		impl: func(c Case) string { out, _ := udpCli(c); return out },
		line: func(c Case) string { _, l := udpCli(c); return l }})
}

const udpCliPreludeSSID = 0x0102030405060708

// udpCli runs a fresh client session against one crafted server datagram; returns the canonical result and the model line.
func udpCli(c Case) (string, string) {
	ccc, err := ss2022.NewClientCipherConfig(udpPSK, nil, true)
	if err != nil {
		panic(err)
	}
	cl := ss2022.NewUDPClient("c", "ip", conn.AddrFromIPPort(serverAP), 1500, conn.DefaultUDPClientListenConfig, 0, ccc, ss2022.PadPlainDNS)
	info, sess, err := cl.NewSession(context.Background())
	if err != nil {
		panic(err)
	}
	// learn the session's client session id from a packet it packs
	hr := info.PackerHeadroom
	pb := make([]byte, hr.Front+8+hr.Rear)
	_, pstart, _, err := sess.Packer.PackInPlace(context.Background(), pb, conn.AddrFromIPPort(serverAP), hr.Front, 8)
	if err != nil {
		panic(err)
	}
	blk, _ := aes.NewCipher(udpPSK)
	sh := make([]byte, 16)
	blk.Decrypt(sh, pb[pstart:pstart+16])
	csid := binary.BigEndian.Uint64(sh)

	msg := patchTs(c, c.bytes())
	var pkt []byte
	opened := "none"
	if c.N == 2 {
		pkt = msg
	} else {
		if c.Flag && len(msg) >= 17 {
			binary.BigEndian.PutUint64(msg[9:17], csid)
		}
		sep := make([]byte, 16)
		ssid := c.Csid // server session id
		if c.Flag2 {
			ssid = csid
		}
		binary.BigEndian.PutUint64(sep, ssid)
		binary.BigEndian.PutUint64(sep[8:], uint64(c.Now))
		ucc, _ := ss2022.NewUserCipherConfig(udpPSK, true)
		aead, _ := ucc.AEAD(sep[:8])
		body := aead.Seal(nil, sep[4:16], msg, nil)
		if c.N == 1 {
			body[len(body)-1] ^= 1
		} else {
			opened = hexf(msg)
		}
		esep := make([]byte, 16)
		blk.Encrypt(esep, sep)
		pkt = append(esep, body...)
	}
	front := c.PS
	buf := append(append(make([]byte, front), pkt...), make([]byte, 16)...)
	mbuf := append([]byte(nil), buf...)
	if len(pkt) >= 16 {
		blk.Decrypt(mbuf[front:front+16], mbuf[front:front+16])
		if c.N == 2 && len(pkt) >= 32 { // garbage: would GCM accept it? (it will not, except with negligible probability)
			ucc, _ := ss2022.NewUserCipherConfig(udpPSK, true)
			aead, _ := ucc.AEAD(mbuf[front : front+8])
			if pt, err := aead.Open(nil, mbuf[front+4:front+16], pkt[16:], nil); err == nil {
				opened = hexf(pt)
			}
		}
	}
	// session state of the unpacker before the packet under test (fresh: both slots {id 0, no AEAD}, never seen a session)
	curID, curHas, tooSoon, replayed := uint64(0), false, false, false
	if c.PL == 1 { // prelude: one well-formed packet of server session udpCliPreludeSSID, packet id 1, establishes a session
		pm := []byte{1}
		pm = binary.BigEndian.AppendUint64(pm, uint64(curNow))
		pm = binary.BigEndian.AppendUint64(pm, csid)
		pm = append(pm, 0, 0, 1, 192, 0, 2, 9, 0, 53, 0xcc)
		psep := make([]byte, 16)
		binary.BigEndian.PutUint64(psep, udpCliPreludeSSID)
		binary.BigEndian.PutUint64(psep[8:], 1)
		ucc, _ := ss2022.NewUserCipherConfig(udpPSK, true)
		aead, _ := ucc.AEAD(psep[:8])
		pbody := aead.Seal(nil, psep[4:16], pm, nil)
		pesep := make([]byte, 16)
		blk.Encrypt(pesep, psep)
		ppkt := append(pesep, pbody...)
		pbuf := append(ppkt, make([]byte, 16)...)
		if _, _, _, err := sess.Unpacker.UnpackInPlace(pbuf, serverAP, 0, len(ppkt)); err != nil {
			panic("prelude packet refused: " + err.Error())
		}
		curID, curHas, tooSoon = udpCliPreludeSSID, true, true
		if len(pkt) >= 16 {
			replayed = binary.BigEndian.Uint64(mbuf[front:]) == udpCliPreludeSSID && binary.BigEndian.Uint64(mbuf[front+8:]) == 1
		}
	}
	line := fmt.Sprintf("udpcliunpack %d %d %d %s 0 0 %s %s %s %d %d %s", curNow, csid, curID, b01(curHas), b01(tooSoon), b01(replayed), opened, front, len(pkt), hexf(mbuf))
	ap, ps, pl, err := sess.Unpacker.UnpackInPlace(buf, serverAP, front, len(pkt))
	return okOrErr(err, fmt.Sprintf("%s %d %d", renderAP(ap), ps, pl)), line
}
