package main

import (
	"errors"
	"fmt"
	"io"
	"net/netip"
	"strings"
	"time"

	"ssvharness/internal/common"

	"github.com/database64128/shadowsocks-go/conn"
	"github.com/database64128/shadowsocks-go/direct"
	"github.com/database64128/shadowsocks-go/socks5"
	"github.com/database64128/shadowsocks-go/ss2022"
	"github.com/database64128/shadowsocks-go/zerocopy"
)

// ---------- canonical rendering ----------

func renderIP(ip netip.Addr, port uint16) string {
	if ip.Is4() {
		a := ip.As4()
		return fmt.Sprintf("4:%s:%d", hexf(a[:]), port)
	}
	a := ip.As16()
	return fmt.Sprintf("6:%s:%d", hexf(a[:]), port)
}

func renderAddr(a conn.Addr) string {
	switch {
	case !a.IsValid():
		return "none"
	case a.IsIP():
		return renderIP(a.IP(), a.Port())
	default:
		return fmt.Sprintf("d:%s:%d", hexf([]byte(a.Domain())), a.Port())
	}
}

func renderAP(ap netip.AddrPort) string { return renderIP(ap.Addr(), ap.Port()) }

// classify maps a Go error to the model's error class names.
func classify(err error) string {
	switch {
	case err == io.EOF:
		return "eof"
	case err == io.ErrUnexpectedEOF:
		return "unexpectedEOF"
	case errors.Is(err, ss2022.ErrTypeMismatch):
		return "typeMismatch"
	case errors.Is(err, ss2022.ErrBadTimestamp):
		return "badTimestamp"
	case errors.Is(err, ss2022.ErrIncompleteHeaderInFirstChunk):
		return "incompleteHeader"
	case errors.Is(err, ss2022.ErrPaddingExceedChunkBorder):
		return "paddingExceed"
	case errors.Is(err, ss2022.ErrPacketIncompleteHeader):
		return "packetIncomplete"
	case errors.Is(err, ss2022.ErrClientSessionIDMismatch):
		return "csidMismatch"
	case errors.Is(err, ss2022.ErrClientSaltMismatch):
		return "saltMismatch"
	case errors.Is(err, ss2022.ErrZeroResponsePayloadLength):
		return "zeroPayloadLen"
	case errors.Is(err, ss2022.ErrZeroLengthChunk):
		return "zeroLengthChunk"
	case errors.Is(err, ss2022.ErrReplay):
		return "replay"
	case errors.Is(err, ss2022.ErrRepeatedSalt):
		return "repeatedSalt"
	case errors.Is(err, ss2022.ErrIdentityHeaderUserPSKNotFound):
		return "userNotFound"
	case errors.Is(err, ss2022.ErrTooManyServerSessions):
		return "tooManySessions"
	case errors.Is(err, ss2022.ErrFirstRead):
		return "firstRead"
	case errors.Is(err, ss2022.ErrUnsafeStreamPrefixMismatch):
		return "prefixMismatch"
	case errors.Is(err, zerocopy.ErrPacketTooSmall):
		return "tooSmall"
	case errors.Is(err, zerocopy.ErrPayloadTooBig):
		return "tooBig"
	case errors.Is(err, socks5.ErrFragmentationNotSupported):
		return "frag"
	case errors.Is(err, socks5.ErrNoAcceptableAuthMethod):
		return "noAcceptableMethod"
	case errors.Is(err, socks5.ErrIncorrectUsernamePassword):
		return "badAuth"
	}
	var uv socks5.UnsupportedVersionError
	var uc socks5.UnsupportedCommandError
	var um socks5.UnsupportedAuthMethodError
	var ua socks5.UnsupportedUsernamePasswordAuthVersionError
	var re socks5.ReplyError
	switch {
	case errors.As(err, &uv):
		return "version"
	case errors.As(err, &uc):
		return "unsupportedCmd"
	case errors.As(err, &um):
		return "unsupportedMethod"
	case errors.As(err, &ua):
		return "authVersion"
	case errors.As(err, &re):
		return "replyErr"
	}
	msg := err.Error()
	switch {
	case strings.Contains(msg, "addr length"):
		return "short"
	case strings.Contains(msg, "invalid ATYP"):
		return "atyp"
	case strings.Contains(msg, "length of domain"):
		return "domainLen"
	case strings.Contains(msg, "addr is a domain"):
		return "isDomain"
	case strings.Contains(msg, "non-server source"):
		return "nonServerSource"
	case strings.Contains(msg, "non-target source"):
		return "nonTargetSource"
	case strings.Contains(msg, "message authentication failed"):
		return "aead"
	case strings.Contains(msg, "NMETHODS is 0"):
		return "zeroNMethods"
	case strings.Contains(msg, "ULEN is 0"):
		return "zeroULEN"
	case strings.Contains(msg, "PLEN is 0"):
		return "zeroPLEN"
	case strings.Contains(msg, "LocalAddr is not"):
		return "localAddr"
	case strings.Contains(msg, "the stream connection has been handled"):
		return "handled"
	}
	return "other:" + msg
}

func okOrErr(err error, ok string) string {
	if err != nil {
		return "err " + classify(err)
	}
	return "ok " + ok
}

// chunkReader delivers a byte string in the given fragments, then io.EOF.
type chunkReader struct {
	b      []byte
	chunks []int
	read   int
}

func (c *chunkReader) Read(p []byte) (int, error) {
	if len(c.b) == 0 {
		return 0, io.EOF
	}
	n := len(c.b)
	if len(c.chunks) > 0 {
		if c.chunks[0] < n {
			n = c.chunks[0]
		}
	}
	if n > len(p) {
		n = len(p)
	}
	copy(p, c.b[:n])
	c.b = c.b[n:]
	c.read += n
	if len(c.chunks) > 0 {
		c.chunks[0] -= n
		if c.chunks[0] <= 0 {
			c.chunks = c.chunks[1:]
		}
	}
	return n, nil
}

func addrGen(entry string) func(r *common.Rng, i int) Case {
	return func(r *common.Rng, i int) Case {
		return Case{Entry: entry, Pre: true, Hex: hx(maybeMutate(r, anyValidAddr(r)))}
	}
}

func addrFixed(entry string) func() []Case {
	return func() []Case {
		var cs []Case
		for _, b := range addrCorpus() {
			cs = append(cs, Case{Entry: entry, Pre: true, Hex: hx(b)})
		}
		return cs
	}
}

var serverAP = netip.MustParseAddrPort("192.0.2.1:8388")

func init() {
	// ---- socks5 *FromSlice ----
	register(engine{name: "addrport", share: 50, gen: addrGen("addrport"), fixed: addrFixed("addrport"),
		impl: func(c Case) string {
			ap, n, err := socks5.AddrPortFromSlice(c.bytes())
			return okOrErr(err, fmt.Sprintf("%s %d", renderAP(ap), n))
		},
		line: func(c Case) string { return "addrport " + hexf(c.bytes()) }})
	register(engine{name: "connaddr", share: 60, gen: addrGen("connaddr"), fixed: addrFixed("connaddr"),
		impl: func(c Case) string {
			a, n, err := socks5.ConnAddrFromSlice(c.bytes())
			return okOrErr(err, fmt.Sprintf("%s %d", renderAddr(a), n))
		},
		line: func(c Case) string { return "connaddr " + hexf(c.bytes()) }})
	register(engine{name: "connaddrdc", share: 40, gen: addrGen("connaddrdc"), fixed: addrFixed("connaddrdc"),
		impl: func(c Case) string {
			var dc socks5.DomainCache
			a, n, err := dc.ConnAddrFromSlice(c.bytes())
			if err == nil { // second call: served from the cache, must agree
				a2, n2, err2 := dc.ConnAddrFromSlice(c.bytes())
				if err2 != nil || n2 != n || !a2.Equals(a) {
					return "cache-disagrees"
				}
			}
			return okOrErr(err, fmt.Sprintf("%s %d", renderAddr(a), n))
		},
		line: func(c Case) string { return "connaddrdc " + hexf(c.bytes()) }})

	// ---- readers ----
	streamGen := func(entry string) func(r *common.Rng, i int) Case {
		return func(r *common.Rng, i int) Case {
			b := maybeMutate(r, anyValidAddr(r))
			if r.Chance(1, 3) {
				b = append(b, r.Bytes(r.Range(1, 20))...)
			}
			return Case{Entry: entry, Pre: true, Hex: hx(b), Chunks: chunks(r, len(b))}
		}
	}
	streamFixed := func(entry string) func() []Case {
		return func() []Case {
			var cs []Case
			for _, b := range addrCorpus() {
				cs = append(cs, Case{Entry: entry, Pre: true, Hex: hx(b), Chunks: []int{len(b)}})
			}
			return cs
		}
	}
	register(engine{name: "appendreader", share: 40, gen: streamGen("appendreader"), fixed: streamFixed("appendreader"),
		impl: func(c Case) string {
			cr := &chunkReader{b: c.bytes(), chunks: append([]int(nil), c.Chunks...)}
			prefix := []byte{0xee, 0xee, 0xee}
			out, err := socks5.AppendFromReader(prefix[:3:3], cr)
			if err != nil {
				return "err " + classify(err)
			}
			if len(out) < 3 || string(out[:3]) != string(prefix) {
				return "prefix-clobbered"
			}
			return fmt.Sprintf("ok %s %d", hexf(out[3:]), len(cr.b))
		},
		line: func(c Case) string { return "appendreader " + hexf(c.bytes()) }})
	register(engine{name: "connaddrreader", share: 40, gen: streamGen("connaddrreader"), fixed: streamFixed("connaddrreader"),
		impl: func(c Case) string {
			cr := &chunkReader{b: c.bytes(), chunks: append([]int(nil), c.Chunks...)}
			a, err := socks5.ConnAddrFromReader(cr)
			return okOrErr(err, fmt.Sprintf("%s %d", renderAddr(a), len(cr.b)))
		},
		line: func(c Case) string { return "connaddrreader " + hexf(c.bytes()) }})

	// ---- ss2022 header parsers (plaintext level: an authenticated but hostile peer) ----
	register(engine{name: "tcpfixed", share: 30,
		gen: func(r *common.Rng, i int) Case {
			b := []byte{0}
			if r.Chance(1, 8) {
				b[0] = byte(r.U64())
			}
			b = append(b, tsField(r, baseNow)...)
			b = append(b, r.Bytes(2)...)
			c := Case{Entry: "tcpfixed", Pre: true, Now: baseNow, Hex: hx(b)}
			if r.Chance(1, 25) { // break the documented precondition (exactly 11 bytes): the model must predict the panic
				c.Hex = hx(b[:r.Intn(11)])
				c.Pre = false
			}
			return c
		},
		impl: func(c Case) string {
			n, err := ss2022.ParseTCPRequestFixedLengthHeader(c.bytes(), time.Unix(c.Now, 0))
			return okOrErr(err, fmt.Sprint(n))
		},
		line: func(c Case) string { return fmt.Sprintf("tcpfixed %d %s", c.Now, hexf(c.bytes())) }})
	register(engine{name: "tcpvar", share: 70,
		gen: func(r *common.Rng, i int) Case {
			return Case{Entry: "tcpvar", Pre: true, Hex: hx(maybeMutate(r, tcpVarHeader(r)))}
		},
		fixed: func() []Case {
			var cs []Case
			r := common.NewRng(77)
			for k := 0; k < 8; k++ {
				for _, p := range allPrefixes(tcpVarHeader(r.Fork(uint64(k)))) {
					if len(p) < 400 {
						cs = append(cs, Case{Entry: "tcpvar", Pre: true, Hex: hx(p)})
					}
				}
			}
			return cs
		},
		impl: func(c Case) string {
			a, payload, err := ss2022.ParseTCPRequestVariableLengthHeader(c.bytes())
			return okOrErr(err, fmt.Sprintf("%s %s", renderAddr(a), hexf(payload)))
		},
		line: func(c Case) string { return "tcpvar " + hexf(c.bytes()) }})
	register(engine{name: "tcpresp", share: 30,
		gen: func(r *common.Rng, i int) Case {
			saltLen := common.Pick(r, []int{16, 32})
			salt := r.Bytes(saltLen)
			b := []byte{1}
			if r.Chance(1, 8) {
				b[0] = byte(r.U64())
			}
			b = append(b, tsField(r, baseNow)...)
			s2 := append([]byte(nil), salt...)
			if r.Chance(1, 8) {
				s2[r.Intn(saltLen)] ^= 1
			}
			b = append(b, s2...)
			b = append(b, common.Pick(r, [][]byte{{0, 0}, {0, 1}, {0xff, 0xff}, r.Bytes(2)})...)
			c := Case{Entry: "tcpresp", Pre: true, Now: baseNow, Salt: hx(salt), Hex: hx(b)}
			if r.Chance(1, 25) {
				c.Hex = hx(b[:r.Intn(len(b))])
				c.Pre = false
			}
			return c
		},
		impl: func(c Case) string {
			salt := mustHex(c.Salt)
			n, err := ss2022.ParseTCPResponseHeader(c.bytes(), time.Unix(c.Now, 0), salt)
			return okOrErr(err, fmt.Sprint(n))
		},
		line: func(c Case) string { return fmt.Sprintf("tcpresp %d %s %s", c.Now, hexf(mustHex(c.Salt)), hexf(c.bytes())) }})
	register(engine{name: "udpclient", share: 80,
		gen: func(r *common.Rng, i int) Case {
			return Case{Entry: "udpclient", Pre: true, Now: baseNow, Hex: hx(maybeMutate(r, udpClientMsg(r, baseNow)))}
		},
		fixed: func() []Case {
			var cs []Case
			r := common.NewRng(78)
			for k := 0; k < 8; k++ {
				for _, p := range allPrefixes(udpClientMsg(r.Fork(uint64(k)), baseNow)) {
					if len(p) < 400 {
						cs = append(cs, Case{Entry: "udpclient", Pre: true, Now: baseNow, Hex: hx(p)})
					}
				}
			}
			return cs
		},
		impl: func(c Case) string {
			var dc socks5.DomainCache
			a, ps, pl, err := ss2022.ParseUDPClientMessageHeader(c.bytes(), time.Unix(c.Now, 0), &dc)
			return okOrErr(err, fmt.Sprintf("%s %d %d", renderAddr(a), ps, pl))
		},
		line: func(c Case) string { return fmt.Sprintf("udpclient %d %s", c.Now, hexf(c.bytes())) }})
	register(engine{name: "udpserver", share: 80,
		gen: func(r *common.Rng, i int) Case {
			csid := r.U64()
			return Case{Entry: "udpserver", Pre: true, Now: baseNow, Csid: csid, Hex: hx(maybeMutate(r, udpServerMsg(r, baseNow, csid)))}
		},
		fixed: func() []Case {
			var cs []Case
			r := common.NewRng(79)
			for k := 0; k < 8; k++ {
				for _, p := range allPrefixes(udpServerMsg(r.Fork(uint64(k)), baseNow, 42)) {
					if len(p) < 400 {
						cs = append(cs, Case{Entry: "udpserver", Pre: true, Now: baseNow, Csid: 42, Hex: hx(p)})
					}
				}
			}
			return cs
		},
		impl: func(c Case) string {
			ap, ps, pl, err := ss2022.ParseUDPServerMessageHeader(c.bytes(), time.Unix(c.Now, 0), c.Csid)
			return okOrErr(err, fmt.Sprintf("%s %d %d", renderAP(ap), ps, pl))
		},
		line: func(c Case) string { return fmt.Sprintf("udpserver %d %d %s", c.Now, c.Csid, hexf(c.bytes())) }})

	// ---- direct / none / socks5 packet unpackers on a relay-style buffer ----
	pktGen := func(entry string, socks bool) func(r *common.Rng, i int) Case {
		return func(r *common.Rng, i int) Case {
			var pkt []byte
			if socks {
				pkt = []byte{0, 0, 0}
				if r.Chance(1, 8) {
					pkt[2] = byte(r.Range(1, 255))
				}
				if r.Chance(1, 8) {
					pkt[0], pkt[1] = byte(r.U64()), byte(r.U64())
				}
			}
			pkt = append(pkt, anyValidAddr(r)...)
			pkt = append(pkt, r.Bytes(common.Pick(r, []int{0, 0, 1, 50}))...)
			pkt = maybeMutate(r, pkt)
			front := common.Pick(r, []int{0, 1, 22, 262})
			rear := common.Pick(r, []int{0, 16})
			buf := append(append(r.Bytes(front), pkt...), r.Bytes(rear)...)
			c := Case{Entry: entry, Pre: true, Hex: hx(buf), PS: front, PL: len(pkt), Flag: !r.Chance(1, 8)}
			if r.Chance(1, 25) { // precondition broken: window outside the buffer
				c.PL = len(buf) - front + r.Range(1, 5)
				c.Pre = false
			}
			return c
		}
	}
	pktFixed := func(entry string, socks bool) func() []Case {
		return func() []Case {
			var cs []Case
			for _, a := range addrCorpus() {
				if len(a) > 300 {
					continue
				}
				pkt := a
				if socks {
					pkt = append([]byte{0, 0, 0}, a...)
				}
				for _, front := range []int{0, 5} {
					buf := append(append(make([]byte, front), pkt...), 0xcc, 0xcc)
					cs = append(cs, Case{Entry: entry, Pre: true, Hex: hx(buf), PS: front, PL: len(pkt), Flag: true})
				}
			}
			if socks { // shorter than the 3-byte RSV/FRAG header
				for n := 0; n < 3; n++ {
					cs = append(cs, Case{Entry: entry, Pre: true, Hex: hx(make([]byte, 8)), PS: 2, PL: n, Flag: true})
				}
			}
			return cs
		}
	}
	src := func(c Case) netip.AddrPort {
		if c.Flag {
			return serverAP
		}
		return netip.MustParseAddrPort("198.51.100.7:9")
	}
	register(engine{name: "noneserver", share: 40, gen: pktGen("noneserver", false), fixed: pktFixed("noneserver", false),
		impl: func(c Case) string {
			var u direct.ShadowsocksNonePacketServerUnpacker
			a, ps, pl, err := u.UnpackInPlace(c.bytes(), src(c), c.PS, c.PL)
			return okOrErr(err, fmt.Sprintf("%s %d %d", renderAddr(a), ps, pl))
		},
		line: func(c Case) string { return fmt.Sprintf("noneserver %d %d %s", c.PS, c.PL, hexf(c.bytes())) }})
	register(engine{name: "noneclient", share: 40, gen: pktGen("noneclient", false), fixed: pktFixed("noneclient", false),
		impl: func(c Case) string {
			u := direct.NewShadowsocksNonePacketClientUnpacker(serverAP)
			ap, ps, pl, err := u.UnpackInPlace(c.bytes(), src(c), c.PS, c.PL)
			return okOrErr(err, fmt.Sprintf("%s %d %d", renderAP(ap), ps, pl))
		},
		line: func(c Case) string { return fmt.Sprintf("noneclient %s %d %d %s", b01(c.Flag), c.PS, c.PL, hexf(c.bytes())) }})
	register(engine{name: "s5server", share: 40, gen: pktGen("s5server", true), fixed: pktFixed("s5server", true),
		impl: func(c Case) string {
			var u direct.Socks5PacketServerUnpacker
			a, ps, pl, err := u.UnpackInPlace(c.bytes(), src(c), c.PS, c.PL)
			return okOrErr(err, fmt.Sprintf("%s %d %d", renderAddr(a), ps, pl))
		},
		line: func(c Case) string { return fmt.Sprintf("s5server %d %d %s", c.PS, c.PL, hexf(c.bytes())) }})
	register(engine{name: "s5client", share: 40, gen: pktGen("s5client", true), fixed: pktFixed("s5client", true),
		impl: func(c Case) string {
			u := direct.NewSocks5PacketClientUnpacker(serverAP)
			ap, ps, pl, err := u.UnpackInPlace(c.bytes(), src(c), c.PS, c.PL)
			return okOrErr(err, fmt.Sprintf("%s %d %d", renderAP(ap), ps, pl))
		},
		line: func(c Case) string { return fmt.Sprintf("s5client %s %d %d %s", b01(c.Flag), c.PS, c.PL, hexf(c.bytes())) }})
}

func mustHex(s string) []byte {
	b, err := hexDecode(s)
	if err != nil {
		panic(err)
	}
	return b
}
