package main

import (
	"context"
	"encoding/binary"
	"fmt"
	"io"
	"net/netip"
	"strings"

	"ssvharness/internal/common"

	"github.com/database64128/shadowsocks-go/conn"
	"github.com/database64128/shadowsocks-go/dns"
	"github.com/database64128/shadowsocks-go/httpproxy"
	"github.com/database64128/shadowsocks-go/netio"
	"github.com/database64128/shadowsocks-go/socks5"
	"go.uber.org/zap"
	"golang.org/x/net/dns/dnsmessage"
)

// ---------- SOCKS5 client against a hostile server ----------

func socks5ServerScript(r *common.Rng, auth bool) []byte {
	var b []byte
	if auth {
		b = append(b, 5, 2, 1, common.Pick(r, []byte{0, 0, 0, 1, 0xff}))
	} else {
		b = append(b, 5, common.Pick(r, []byte{0, 0, 0, 2, 0xff}))
	}
	b = append(b, 5, common.Pick(r, []byte{0, 0, 0, 1, 5, 8, 0xff}), 0)
	return append(b, anyValidAddr(r)...)
}

func s5cliTarget(c Case) (conn.Addr, byte) {
	target, _, err := socks5.ConnAddrFromSlice(mustHex(c.Salt))
	if err != nil || c.N == 2 {
		target = conn.Addr{} // zero value: 0.0.0.0:0 (what the UDP ASSOCIATE client sends)
	}
	cmd := byte(socks5.CmdConnect)
	if c.N != 0 {
		cmd = socks5.CmdUDPAssociate
	}
	return target, cmd
}

// ---------- DNS resolver against a hostile upstream (TCP transport over pipes) ----------

// scriptedStreamClient answers every DialStream with a pipe whose far end drains the queries and plays a script.
type scriptedStreamClient struct {
	script []byte
	chunks []int
}

func (c *scriptedStreamClient) NewStreamDialer() (netio.StreamDialer, netio.StreamDialerInfo) {
	return c, netio.StreamDialerInfo{Name: "scripted", NativeInitialPayload: true}
}

func (c *scriptedStreamClient) DialStream(ctx context.Context, addr conn.Addr, payload []byte) (netio.Conn, error) {
	pl, pr := netio.NewPipe()
	go func() { io.Copy(io.Discard, pr) }() // the queries
	go func() {                              // the responses, asynchronously (the pipe is unbuffered)
		b := c.script
		for _, n := range c.chunks {
			if n > len(b) {
				n = len(b)
			}
			if n == 0 {
				continue
			}
			if _, err := pr.Write(b[:n]); err != nil {
				return
			}
			b = b[n:]
		}
		if len(b) > 0 {
			if _, err := pr.Write(b); err != nil {
				return
			}
		}
		pr.CloseWrite()
	}()
	if len(payload) > 0 {
		if _, err := pl.Write(payload); err != nil {
			pl.Close()
			return nil, err
		}
	}
	return pl, nil
}

func dnsName(r *common.Rng) string {
	switch r.Intn(6) {
	case 0:
		return string(domainBytes(r, common.Pick(r, domainLens)))
	case 1:
		return strings.Repeat("a", common.Pick(r, []int{63, 64})) + ".test"
	case 2:
		return common.Pick(r, []string{".", "..", "a..b", "a.", ".a", "\x00", "a b", strings.Repeat("a.", 127), strings.Repeat("a.", 126) + "bb"})
	default:
		return common.Pick(r, []string{"example.com", "x.test", "localhost"})
	}
}

func dnsResponse(r *common.Rng, id uint16, name string) []byte {
	n, err := dnsmessage.NewName(name + ".")
	if err != nil {
		n = dnsmessage.MustNewName("x.test.")
	}
	h := dnsmessage.Header{ID: id, Response: !r.Chance(1, 25), RecursionAvailable: !r.Chance(1, 25), Truncated: r.Chance(1, 20),
		RCode: common.Pick(r, []dnsmessage.RCode{0, 0, 0, 0, 0, 0, 0, 0, 0, 0, 0, 0, 1, 2, 3, 4, 5, 9, 15})}
	b := dnsmessage.NewBuilder(nil, h)
	b.EnableCompression()
	b.StartQuestions()
	typ := dnsmessage.TypeA
	if id == 6 {
		typ = dnsmessage.TypeAAAA
	}
	if !r.Chance(1, 10) {
		b.Question(dnsmessage.Question{Name: n, Type: typ, Class: dnsmessage.ClassINET})
	}
	b.StartAnswers()
	for k := r.Range(1, 4); k > 0; k-- {
		rh := dnsmessage.ResourceHeader{Name: n, Class: dnsmessage.ClassINET, TTL: common.Pick(r, []uint32{0, 1, 30, 300, 1 << 31, ^uint32(0)})}
		switch r.Intn(6) % 4 {
		case 0:
			var a [4]byte
			copy(a[:], r.Bytes(4))
			b.AResource(rh, dnsmessage.AResource{A: a})
		case 1:
			var a [16]byte
			copy(a[:], r.Bytes(16))
			b.AAAAResource(rh, dnsmessage.AAAAResource{AAAA: a})
		case 2:
			b.CNAMEResource(rh, dnsmessage.CNAMEResource{CNAME: n})
		default:
			b.TXTResource(rh, dnsmessage.TXTResource{TXT: []string{"x"}})
		}
	}
	b.StartAuthorities()
	if r.Chance(1, 3) {
		b.SOAResource(dnsmessage.ResourceHeader{Name: n, Class: dnsmessage.ClassINET, TTL: 60}, dnsmessage.SOAResource{NS: n, MBox: n})
	}
	msg, err := b.Finish()
	if err != nil {
		msg = []byte{0, byte(id), 0x81, 0x80, 0, 0, 0, 0, 0, 0, 0, 0}
	}
	return msg
}

func dnsScript(r *common.Rng, name string) []byte {
	var out []byte
	ids := []uint16{4, 6}
	if r.Chance(1, 6) {
		ids = []uint16{common.Pick(r, []uint16{0, 4, 5, 6, 7, 65535})}
	}
	if r.Chance(1, 6) {
		ids = []uint16{6, 4, 4, 6}
	}
	for _, id := range ids {
		msg := dnsResponse(r, id, name)
		if r.Chance(1, 3) {
			msg = mutate(r, msg)
		}
		l := len(msg)
		switch r.Intn(12) {
		case 0:
			l = 0
		case 1:
			l = len(msg) + r.Range(1, 9)
		case 2:
			l = len(msg) - 1
		case 3:
			l = 0xffff
		}
		if l < 0 {
			l = 0
		}
		out = binary.BigEndian.AppendUint16(out, uint16(l))
		out = append(out, msg...)
	}
	if r.Chance(1, 8) {
		out = append(out, r.Bytes(r.Range(1, 5))...)
	}
	return out
}

func init() {
	register(engine{name: "socks5-client", share: 30,
		gen: func(r *common.Rng, i int) Case {
			auth := r.Chance(1, 2)
			b := maybeMutate(r, socks5ServerScript(r, auth))
			return Case{Entry: "socks5-client", Pre: true, Hex: hx(b), Chunks: chunks(r, len(b)), Flag: auth, N: r.Intn(3), Salt: hx(anyValidAddr(r))}
		},
		fixed: func() []Case {
			var cs []Case
			r := common.NewRng(81)
			for k := 0; k < 10; k++ {
				auth := k%2 == 1
				for _, p := range allPrefixes(socks5ServerScript(r.Fork(uint64(k)), auth)) {
					if len(p) < 300 {
						cs = append(cs, Case{Entry: "socks5-client", Pre: true, Hex: hx(p), Chunks: []int{len(p)}, Flag: auth, Salt: "0101020304" + "0050"})
					}
				}
			}
			return cs
		},
		impl: func(c Case) string {
			target, cmd := s5cliTarget(c)
			out, _ := overPipe(c.bytes(), c.Chunks, false, func(pc netio.Conn) string {
				var a conn.Addr
				var err error
				if c.Flag {
					a, err = socks5.ClientRequestUsernamePassword(pc, socks5.UserInfo{Username: "user", Password: "pass"}.AppendAuthMsg(nil), cmd, target)
				} else {
					a, err = socks5.ClientRequest(pc, cmd, target)
				}
				return okOrErr(err, renderAddr(a))
			})
			return out
		},
		line: func(c Case) string {
			target, cmd := s5cliTarget(c)
			return fmt.Sprintf("socks5cli %s %d %s %s", b01(c.Flag), cmd, hexf(socks5.AppendAddrFromConnAddr(nil, target)), hexf(c.bytes()))
		}})

	// HTTP CONNECT client against a hostile proxy server
	register(engine{name: "http-client", share: 15,
		gen: func(r *common.Rng, i int) Case {
			status := common.Pick(r, []string{"200 OK", "200", "204 No Content", "299 x", "199 x", "300 x", "407 Proxy Authentication Required", "502 Bad Gateway", "000 x", "99999999999999999999 x", "-1 x", "2xx"})
			resp := "HTTP/1." + common.Pick(r, []string{"1", "0", "9", ""}) + " " + status + "\r\n" +
				common.Pick(r, []string{"", "Content-Length: 5\r\n", "Content-Length: -1\r\n", "Transfer-Encoding: chunked\r\n", "Connection: close\r\n", ": x\r\n", "X: \x00\r\n"}) + "\r\n" +
				common.Pick(r, []string{"", "early server data", "0\r\n\r\n"})
			b := []byte(resp)
			if r.Chance(1, 3) {
				b = mutate(r, b)
			}
			return Case{Entry: "http-client", Pre: true, Hex: hx(b), Chunks: chunks(r, len(b)), Salt: hx(anyValidAddr(r)), Flag: r.Bool()}
		},
		impl: func(c Case) string {
			target, _, err := socks5.ConnAddrFromSlice(mustHex(c.Salt))
			if err != nil {
				target = conn.AddrFromIPPort(serverAP)
			}
			hdr := ""
			if c.Flag {
				hdr = "\r\nProxy-Authorization: Basic dXNlcjpwYXNz"
			}
			out, _ := overPipe(c.bytes(), c.Chunks, false, func(pc netio.Conn) string {
				cc, err := httpproxy.ClientConnect(pc, target, hdr)
				if err != nil {
					return "err http"
				}
				buf := make([]byte, 64)
				_, _ = cc.Read(buf) // server-spoke-first bytes come out of the bufio read-ahead
				return "ok"
			})
			return out
		}})

	register(engine{name: "dns-resp", share: 20,
		gen: func(r *common.Rng, i int) Case {
			name := dnsName(r)
			sc := dnsScript(r, name)
			return Case{Entry: "dns-resp", Pre: true, Hex: hx(sc), Salt: hx([]byte(name)), Chunks: chunks(r, len(sc))}
		},
		impl: func(c Case) string {
			cl := &scriptedStreamClient{script: c.bytes(), chunks: c.Chunks}
			rs := dns.NewResolver("r", 4, netip.MustParseAddrPort("192.0.2.53:53"), cl, nil, zap.NewNop())
			name := string(mustHex(c.Salt))
			ip, err := rs.LookupIP(context.Background(), name)
			if err != nil {
				return "err dns"
			}
			// a second lookup is served from the cache (or re-queried if expired): must not panic either
			if _, err := rs.LookupIPs(context.Background(), name); err != nil {
				return "err dns-second"
			}
			return fmt.Sprintf("ok %v", ip.IsValid())
		}})
}
