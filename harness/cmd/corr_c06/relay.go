package main

// Round 2: peer-controlled LENGTHS and PORTS flowing into the re-pack step of the relays.
//
//   fuzz-relay-up    a hostile-but-valid client datagram is unpacked by a real server unpacker into the service's
//                    packet buffer (front headroom = UDPRelayHeadroom(client packer, server unpacker), receive window
//                    = MaxPacketSizeForAddr(MTU, 0.0.0.0)), then re-packed in place by a real client packer
//   fuzz-relay-down  a target's reply is unpacked by a real client unpacker into the downlink buffer and re-packed by
//                    a real server packer with maxClientPacketSize = MaxPacketSizeForAddr(MTU, client address)
//   fuzz-relay-tcp-dial  the TCP relay hands an initial payload of peer-chosen length to ss2022 StreamClient.DialStream
//
// Payload sizes sit on the boundary of what still fits (exact fit, +-1, +-2), for every address kind (port 53 too),
// padding policy, identity-header count and MTU. In-process with recover; the Lean model gets the same
// (payloadStart, payloadLen, address, limits, policy verdict) and the padding value the implementation drew.

import (
	"context"
	"crypto/aes"
	"encoding/binary"
	"fmt"
	"io"
	"net/netip"

	"ssvharness/internal/common"

	"github.com/database64128/shadowsocks-go/conn"
	"github.com/database64128/shadowsocks-go/direct"
	"github.com/database64128/shadowsocks-go/netio"
	"github.com/database64128/shadowsocks-go/socks5"
	"github.com/database64128/shadowsocks-go/ss2022"
	"github.com/database64128/shadowsocks-go/zerocopy"
)

type RelayCase struct {
	In         string `json:"in"`  // uplink: server protocol; downlink: protocol of the upstream client session
	Out        string `json:"out"` // uplink: client protocol; downlink: server protocol
	InMTU      int    `json:"inMTU"`
	OutMTU     int    `json:"outMTU"`
	Policy     string `json:"policy"`           // padding policy of the ss2022 side that packs
	Addr       string `json:"addr"`             // SOCKS address (hex): uplink target / downlink payload source
	PeerV6     bool   `json:"peerV6,omitempty"` // the outgoing peer (upstream server / client) has an IPv6 address
	PayloadLen int    `json:"payloadLen"`
	MaxFront   bool   `json:"maxFront,omitempty"` // front headroom for the largest client packer (several clients configured)
}

// model lines are produced by the implementation run of the same case (they carry the padding it drew): FIFO per case key
var relayLines = map[string][]string{}

func pushRelayLine(c Case, l string) { k := relayKey(c); relayLines[k] = append(relayLines[k], l) }

func relayKey(c Case) string { return fmt.Sprintf("%s|%+v", c.Entry, *c.Relay) }

func policyOf(name string) ss2022.PaddingPolicy {
	switch name {
	case "NoPadding":
		return ss2022.NoPadding
	case "PadAll":
		return ss2022.PadAll
	}
	return ss2022.PadPlainDNS
}

var relayIPSK = []byte("iiiiiiiiiiiiiiii")

func peerAP(v6 bool) netip.AddrPort {
	if v6 {
		return netip.MustParseAddrPort("[2001:db8::1]:8388")
	}
	return serverAP
}

// ---- outgoing client side (uplink) ----

type clientSide struct {
	packer    zerocopy.ClientPacker
	headroom  zerocopy.Headroom
	line      func(target conn.Addr, bufLen, ps, pl int, res string) string
	nonAEAD   int
	maxPacket int
}

func newClientSide(rc *RelayCase) clientSide {
	ap := peerAP(rc.PeerV6)
	maxPacket := zerocopy.MaxPacketSizeForAddr(rc.OutMTU, ap.Addr())
	switch rc.Out {
	case "direct":
		cl := direct.NewDirectUDPClient("c", "ip", rc.OutMTU, conn.DefaultUDPClientListenConfig)
		info, sess, _ := cl.NewSession(context.Background())
		return clientSide{packer: sess.Packer, headroom: info.PackerHeadroom, line: func(t conn.Addr, bl, ps, pl int, res string) string {
			return fmt.Sprintf("repack directc %d %s - %d %d", rc.OutMTU, renderAddr(t), ps, pl)
		}}
	case "none":
		return clientSide{packer: direct.NewShadowsocksNonePacketClientPacker(ap, maxPacket), headroom: direct.ShadowsocksNonePacketClientMessageHeadroom,
			line: func(t conn.Addr, bl, ps, pl int, res string) string {
				return fmt.Sprintf("repack prefixc 0 %s %d %d %d %d", renderAddr(t), maxPacket, bl, ps, pl)
			}}
	case "socks5":
		return clientSide{packer: direct.NewSocks5PacketClientPacker(ap, maxPacket), headroom: direct.Socks5PacketClientMessageHeadroom,
			line: func(t conn.Addr, bl, ps, pl int, res string) string {
				return fmt.Sprintf("repack prefixc 3 %s %d %d %d %d", renderAddr(t), maxPacket, bl, ps, pl)
			}}
	default: // ss2022 / ss2022eih
		var ipsks [][]byte
		if rc.Out == "ss2022eih" {
			ipsks = [][]byte{relayIPSK}
		}
		ccc, err := ss2022.NewClientCipherConfig(udpPSK, ipsks, true)
		if err != nil {
			panic(err)
		}
		pol := policyOf(rc.Policy)
		cl := ss2022.NewUDPClient("c", "ip", conn.AddrFromIPPort(ap), rc.OutMTU, conn.DefaultUDPClientListenConfig, 0, ccc, pol)
		info, sess, err := cl.NewSession(context.Background())
		if err != nil {
			panic(err)
		}
		nonAEAD := 16 + 16*len(ipsks)
		return clientSide{packer: sess.Packer, headroom: info.PackerHeadroom, nonAEAD: nonAEAD, maxPacket: maxPacket,
			line: func(t conn.Addr, bl, ps, pl int, res string) string {
				tal := socks5.LengthOfAddrFromConnAddr(t)
				draw := 0
				var start, plen int
				if n, _ := fmt.Sscanf(res, "ok %d %d", &start, &plen); n == 2 { // the padding the implementation drew, read off its result
					if pad := ps - start - nonAEAD - ss2022.UDPClientMessageHeaderFixedLength - tal; pad > 0 {
						draw = pad - 1
					}
				}
				return fmt.Sprintf("repack ss2022c %d %d %s %s %d %d %d %d", maxPacket, nonAEAD, renderAddr(t), b01(pol(t)), draw, bl, ps, pl)
			}}
	}
}

var allClientKinds = []string{"direct", "none", "socks5", "ss2022", "ss2022eih"}

// ---- incoming server side (uplink) ----

// ss2022ClientDatagram seals a client message for the harness' UDP server (eih = identity header present).
func ss2022ClientDatagram(eih bool, csid uint64, msg []byte) []byte {
	sep := make([]byte, 16)
	binary.BigEndian.PutUint64(sep, csid)
	binary.BigEndian.PutUint64(sep[8:], 1)
	blk, _ := aes.NewCipher(udpPSK)
	userPSK := udpPSK
	esep := make([]byte, 16)
	blk.Encrypt(esep, sep)
	pkt := esep
	if eih {
		userPSK = udpUserPSK
		h := ss2022.PSKHash(udpUserPSK)
		ih := make([]byte, 16)
		for i := range ih {
			ih[i] = h[i] ^ sep[i]
		}
		blk.Encrypt(ih, ih)
		pkt = append(pkt, ih...)
	}
	ucc, _ := ss2022.NewUserCipherConfig(userPSK, true)
	aead, _ := ucc.AEAD(sep[:8])
	return append(pkt, aead.Seal(nil, sep[4:16], msg, nil)...)
}

func newUDPServerPolicy(eih bool, pol ss2022.PaddingPolicy) *ss2022.UDPServer {
	if eih {
		icc, _ := ss2022.NewServerIdentityCipherConfig(udpPSK, true)
		s := ss2022.NewUDPServer(0, ss2022.UserCipherConfig{}, icc, pol)
		u, _ := ss2022.NewServerUserCipherConfig("u", udpUserPSK, true)
		s.ReplaceUserLookupMap(ss2022.UserLookupMap{ss2022.PSKHash(udpUserPSK): u})
		return s
	}
	ucc, _ := ss2022.NewUserCipherConfig(udpPSK, true)
	return ss2022.NewUDPServer(0, ucc, ss2022.ServerIdentityCipherConfig{}, pol)
}

func relayPayload(n int) []byte {
	b := make([]byte, n)
	for i := range b {
		b[i] = byte(i * 7)
	}
	return b
}

// serverUnpack returns the server unpacker's headroom and a function that unpacks the inbound datagram in buf.
func serverSide(rc *RelayCase, addr []byte, payload []byte) (hr zerocopy.Headroom, datagram []byte, unpack func(buf []byte, front, n int) (conn.Addr, int, int, zerocopy.ServerUnpacker, error)) {
	nat := func(s zerocopy.UDPNATServer) func([]byte, int, int) (conn.Addr, int, int, zerocopy.ServerUnpacker, error) {
		return func(buf []byte, front, n int) (conn.Addr, int, int, zerocopy.ServerUnpacker, error) {
			u, err := s.NewUnpacker()
			if err != nil {
				return conn.Addr{}, 0, 0, nil, err
			}
			a, ps, pl, err := u.UnpackInPlace(buf, udpSrcAP, front, n)
			return a, ps, pl, u, err
		}
	}
	switch rc.In {
	case "direct":
		target, _, err := socks5.ConnAddrFromSlice(addr)
		if err != nil {
			target = conn.AddrFromIPPort(serverAP)
		}
		s := direct.NewDirectUDPNATServer(target, false)
		return s.Info().UnpackerHeadroom, payload, nat(s)
	case "none":
		s := direct.ShadowsocksNoneUDPNATServer{}
		return s.Info().UnpackerHeadroom, append(append([]byte(nil), addr...), payload...), nat(s)
	case "socks5":
		s := direct.Socks5UDPNATServer{}
		return s.Info().UnpackerHeadroom, append(append([]byte{0, 0, 0}, addr...), payload...), nat(s)
	default:
		eih := rc.In == "ss2022eih"
		s := newUDPServerPolicy(eih, policyOf(rc.Policy))
		msg := []byte{0}
		msg = binary.BigEndian.AppendUint64(msg, uint64(curNow))
		msg = append(msg, 0, 0)
		msg = append(msg, addr...)
		msg = append(msg, payload...)
		return s.Info().UnpackerHeadroom, ss2022ClientDatagram(eih, 0x1122334455667788, msg),
			func(buf []byte, front, n int) (conn.Addr, int, int, zerocopy.ServerUnpacker, error) {
				p := buf[front : front+n]
				csid, err := s.SessionInfo(p)
				if err != nil {
					return conn.Addr{}, 0, 0, nil, err
				}
				u, _, err := s.NewUnpacker(p, csid)
				if err != nil {
					return conn.Addr{}, 0, 0, nil, err
				}
				a, ps, pl, err := u.UnpackInPlace(buf, udpSrcAP, front, n)
				return a, ps, pl, u, err
			}
	}
}

func relayUp(c Case) string {
	rc := c.Relay
	addr := mustHex(rc.Addr)
	cs := newClientSide(rc)
	packerHR := cs.headroom
	if rc.MaxFront {
		for _, k := range allClientKinds {
			r2 := *rc
			r2.Out = k
			packerHR = zerocopy.MaxHeadroom(packerHR, newClientSide(&r2).headroom)
		}
	}
	unpHR, datagram, unpack := serverSide(rc, addr, relayPayload(rc.PayloadLen))
	hr := zerocopy.UDPRelayHeadroom(packerHR, unpHR)
	recv := zerocopy.MaxPacketSizeForAddr(rc.InMTU, netip.IPv4Unspecified())
	if len(datagram) > recv {
		return "skip"
	}
	buf := make([]byte, hr.Front+recv+hr.Rear)
	copy(buf[hr.Front:], datagram)
	target, ps, pl, _, err := unpack(buf, hr.Front, len(datagram))
	if err != nil {
		return "err-unpack " + classify(err)
	}
	_, start, plen, err := cs.packer.PackInPlace(context.Background(), buf, target, ps, pl)
	res := okOrErr(err, fmt.Sprintf("%d %d", start, plen))
	pushRelayLine(c, cs.line(target, len(buf), ps, pl, res))
	return res
}

// ---- downlink ----

func relayDown(c Case) string {
	rc := c.Relay
	addr := mustHex(rc.Addr)
	src, _, err := socks5.AddrPortFromSlice(addr)
	if err != nil {
		src = netip.MustParseAddrPort("192.0.2.9:53")
	}
	payload := relayPayload(rc.PayloadLen)
	upstream := serverAP // the upstream server of the client session (IPv4)
	recv := zerocopy.MaxPacketSizeForAddr(rc.InMTU, upstream.Addr())
	var (
		unp      zerocopy.ClientUnpacker
		datagram []byte
		pktSrc   = upstream
	)
	switch rc.In {
	case "direct":
		unp, datagram, pktSrc = direct.DirectPacketClientUnpacker{}, payload, src
	case "none":
		unp, datagram = direct.NewShadowsocksNonePacketClientUnpacker(upstream), append(append([]byte(nil), addr...), payload...)
	case "socks5":
		unp, datagram = direct.NewSocks5PacketClientUnpacker(upstream), append(append([]byte{0, 0, 0}, addr...), payload...)
	default:
		ccc, _ := ss2022.NewClientCipherConfig(udpPSK, nil, true)
		cl := ss2022.NewUDPClient("c", "ip", conn.AddrFromIPPort(upstream), rc.InMTU, conn.DefaultUDPClientListenConfig, 0, ccc, ss2022.NoPadding)
		info, sess, err := cl.NewSession(context.Background())
		if err != nil {
			panic(err)
		}
		hr := info.PackerHeadroom
		pb := make([]byte, hr.Front+8+hr.Rear)
		_, pstart, _, err := sess.Packer.PackInPlace(context.Background(), pb, conn.AddrFromIPPort(upstream), hr.Front, 8)
		if err != nil {
			panic(err)
		}
		blk, _ := aes.NewCipher(udpPSK)
		sh := make([]byte, 16)
		blk.Decrypt(sh, pb[pstart:pstart+16])
		msg := []byte{1}
		msg = binary.BigEndian.AppendUint64(msg, uint64(curNow))
		msg = append(msg, sh[:8]...)
		msg = append(msg, 0, 0)
		msg = append(msg, addr...)
		msg = append(msg, payload...)
		sep := make([]byte, 16)
		binary.BigEndian.PutUint64(sep, 0x0102030405060708)
		binary.BigEndian.PutUint64(sep[8:], 1)
		ucc, _ := ss2022.NewUserCipherConfig(udpPSK, true)
		aead, _ := ucc.AEAD(sep[:8])
		esep := make([]byte, 16)
		blk.Encrypt(esep, sep)
		unp, datagram = sess.Unpacker, append(esep, aead.Seal(nil, sep[4:16], msg, nil)...)
	}
	clientAP := netip.MustParseAddrPort("203.0.113.9:40000")
	if rc.PeerV6 {
		clientAP = netip.MustParseAddrPort("[2001:db8::9]:40000")
	}
	maxClient := zerocopy.MaxPacketSizeForAddr(rc.OutMTU, clientAP.Addr())
	var (
		pk   zerocopy.ServerPacker
		line func(src netip.AddrPort, bl, ps, pl int, res string) string
	)
	src4 := func(s netip.AddrPort) bool { return s.Addr().Is4() || s.Addr().Is4In6() }
	switch rc.Out {
	case "direct":
		targetOnly := rc.MaxFront
		pk = direct.NewDirectPacketServerPackUnpacker(conn.AddrFromIPPort(netip.MustParseAddrPort("192.0.2.9:53")), targetOnly)
		line = func(s netip.AddrPort, bl, ps, pl int, res string) string {
			return fmt.Sprintf("directpack 4:c0000209:53 %s %s %d %d", b01(targetOnly), b01(conn.AddrPortMappedEqual(s, netip.MustParseAddrPort("192.0.2.9:53"))), pl, maxClient)
		}
	case "none":
		pk = direct.ShadowsocksNonePacketServerPacker{}
		line = func(s netip.AddrPort, bl, ps, pl int, res string) string {
			return fmt.Sprintf("repack prefixs 0 %s %d %d %d %d", b01(src4(s)), maxClient, bl, ps, pl)
		}
	case "socks5":
		pk = direct.Socks5PacketServerPacker{}
		line = func(s netip.AddrPort, bl, ps, pl int, res string) string {
			return fmt.Sprintf("repack prefixs 3 %s %d %d %d %d", b01(src4(s)), maxClient, bl, ps, pl)
		}
	default:
		pol := policyOf(rc.Policy)
		s := newUDPServerPolicy(false, pol)
		msg := []byte{0}
		msg = binary.BigEndian.AppendUint64(msg, uint64(curNow))
		msg = append(msg, 0, 0, 1, 1, 2, 3, 4, 0, 53, 9)
		d := ss2022ClientDatagram(false, 0x99, msg)
		b := append(append(make([]byte, 0, len(d)+16), d...), make([]byte, 16)...)
		csid, err := s.SessionInfo(b[:len(d)])
		if err != nil {
			panic(err)
		}
		u, _, err := s.NewUnpacker(b[:len(d)], csid)
		if err != nil {
			panic(err)
		}
		if _, _, _, err = u.UnpackInPlace(b, udpSrcAP, 0, len(d)); err != nil {
			panic(err)
		}
		if pk, err = u.NewPacker(); err != nil {
			panic(err)
		}
		line = func(sp netip.AddrPort, bl, ps, pl int, res string) string {
			sal := socks5.LengthOfAddrFromAddrPort(sp)
			draw := 0
			var start, plen int
			if n, _ := fmt.Sscanf(res, "ok %d %d", &start, &plen); n == 2 {
				if pad := ps - start - ss2022.UDPSeparateHeaderLength - ss2022.UDPServerMessageHeaderFixedLength - sal; pad > 0 {
					draw = pad - 1
				}
			}
			return fmt.Sprintf("repack ss2022s %d %s %s %d %d %d %d", maxClient, b01(src4(sp)), b01(pol(conn.AddrFromIPPort(sp))), draw, bl, ps, pl)
		}
	}
	hr := zerocopy.UDPRelayHeadroom(pk.ServerPackerInfo().Headroom, unp.ClientUnpackerInfo().Headroom)
	if len(datagram) > recv {
		return "skip"
	}
	buf := make([]byte, hr.Front+recv+hr.Rear)
	copy(buf[hr.Front:], datagram)
	psrc, ps, pl, err := unp.UnpackInPlace(buf, pktSrc, hr.Front, len(datagram))
	if err != nil {
		return "err-unpack " + classify(err)
	}
	start, plen, err := pk.PackInPlace(buf, psrc, ps, pl, maxClient)
	res := okOrErr(err, fmt.Sprintf("%d %d", start, plen))
	if rc.Out == "direct" && err == nil {
		res = "ok packed"
	}
	pushRelayLine(c, line(psrc, len(buf), ps, pl, res))
	return res
}

// ---- TCP: initial payload of peer-chosen length into ss2022 DialStream ----

type sinkStreamClient struct{ first []byte }

func (s *sinkStreamClient) NewStreamDialer() (netio.StreamDialer, netio.StreamDialerInfo) {
	return s, netio.StreamDialerInfo{Name: "sink", NativeInitialPayload: true}
}

func (s *sinkStreamClient) DialStream(ctx context.Context, addr conn.Addr, payload []byte) (netio.Conn, error) {
	s.first = append([]byte(nil), payload...)
	pl, pr := netio.NewPipe()
	go func() { io.Copy(io.Discard, pr); pr.Close() }()
	return pl, nil
}

func relayTCPDial(c Case) string {
	rc := c.Relay
	target, _, err := socks5.ConnAddrFromSlice(mustHex(rc.Addr))
	if err != nil {
		return "skip"
	}
	ccc, _ := ss2022.NewClientCipherConfig(udpPSK, nil, false)
	sink := &sinkStreamClient{}
	cfg := ss2022.StreamClientConfig{Name: "c", InnerClient: sink, Addr: conn.AddrFromIPPort(serverAP), CipherConfig: ccc}
	cl := cfg.NewStreamClient()
	cc, err := cl.DialStream(context.Background(), target, relayPayload(rc.PayloadLen))
	if err != nil {
		return "err dial"
	}
	cc.Close()
	tal := socks5.LengthOfAddrFromConnAddr(target)
	vlen := len(sink.first) - len(udpPSK) - (ss2022.TCPRequestFixedLengthHeaderLength + 16) - 16
	ppl := vlen - tal - 2
	room := 0xFFFF - tal - 2
	sent := min(rc.PayloadLen, room)
	draw := 0
	switch {
	case rc.PayloadLen == 0:
		draw = ppl - 1
	case rc.PayloadLen < ss2022.MaxPaddingLength:
		draw = ppl - rc.PayloadLen
	}
	pushRelayLine(c, fmt.Sprintf("dialsplit %s %d %d", renderAddr(target), rc.PayloadLen, draw))
	return fmt.Sprintf("ok %d %d %d", ppl, sent, rc.PayloadLen-sent)
}

// ---- generation: boundary payload sizes for every combination ----

var relayAddrs = []string{
	"01c0000209" + "0035", // 192.0.2.9:53
	"01c0000209" + "01bb", // :443
	"0100000000" + "0000", // 0.0.0.0:0
	"0420010db8000000000000000000000001" + "0035", // [2001:db8::1]:53
	"0420010db8000000000000000000000001" + "0050",
	"0400000000000000000000ffffc0000209" + "0035", // ::ffff:192.0.2.9:53 (written as IPv4)
	"030161" + "0035",                             // a:53
	"030b6578616d706c652e636f6d" + "01bb",         // example.com:443
}

func init() {
	long := append([]byte{3, 255}, make([]byte, 255)...)
	for i := range long[2:] {
		long[2+i] = 'a' + byte(i%26)
	}
	relayAddrs = append(relayAddrs, hx(append(long, 0, 53)))
}

// fitBoundary: the largest payload the outgoing side still accepts (a generator hint only; the oracle and the model do not use it).
func fitBoundary(up bool, rc *RelayCase, addrLen int) int {
	if up {
		mp := zerocopy.MaxPacketSizeForAddr(rc.OutMTU, peerAP(rc.PeerV6).Addr())
		switch rc.Out {
		case "direct":
			return rc.OutMTU - 28
		case "none":
			return mp - addrLen
		case "socks5":
			return mp - addrLen - 3
		case "ss2022eih":
			return mp - 32 - 11 - addrLen - 16
		default:
			return mp - 16 - 11 - addrLen - 16
		}
	}
	ca := netip.MustParseAddr("203.0.113.9")
	if rc.PeerV6 {
		ca = netip.MustParseAddr("2001:db8::9")
	}
	mc := zerocopy.MaxPacketSizeForAddr(rc.OutMTU, ca)
	switch rc.Out {
	case "direct":
		return mc
	case "none":
		return mc - addrLen
	case "socks5":
		return mc - addrLen - 3
	default:
		return mc - 16 - 19 - addrLen - 16
	}
}

func genRelay(up bool) func(r *common.Rng, i int) Case {
	entry := "relay-down"
	if up {
		entry = "relay-up"
	}
	return func(r *common.Rng, i int) Case {
		rc := &RelayCase{InMTU: common.Pick(r, []int{1280, 1500, 9000}), OutMTU: common.Pick(r, []int{1280, 1500, 9000}),
			Policy: common.Pick(r, []string{"NoPadding", "PadPlainDNS", "PadAll"}), PeerV6: r.Bool(), MaxFront: r.Chance(1, 3)}
		if up {
			rc.In = common.Pick(r, []string{"direct", "none", "socks5", "ss2022", "ss2022eih"})
			rc.Out = common.Pick(r, []string{"ss2022", "ss2022eih", "ss2022", "none", "socks5", "direct"})
			rc.Addr = common.Pick(r, relayAddrs)
			if rc.Out == "direct" { // the direct client resolves names with the system resolver: IP targets only
				rc.Addr = relayAddrs[r.Intn(6)]
			}
		} else {
			rc.In = common.Pick(r, []string{"direct", "none", "socks5", "ss2022"})
			rc.Out = common.Pick(r, []string{"ss2022", "ss2022", "none", "socks5", "direct"})
			rc.Addr = relayAddrs[r.Intn(6)]
		}
		addr := mustHex(rc.Addr)
		al := len(addr)
		if len(addr) == 19 && addr[11] == 0xff && addr[12] == 0xff && addr[1] == 0 { // 4-in-6 goes out as IPv4
			al = 7
		}
		b := fitBoundary(up, rc, al)
		switch r.Intn(8) {
		case 0:
			rc.PayloadLen = common.Pick(r, []int{0, 1, 2, 512})
		case 1:
			rc.PayloadLen = r.Range(0, max(b+40, 1))
		default:
			rc.PayloadLen = max(0, b+common.Pick(r, []int{0, 0, 0, -1, 1, -2, 2, -3, 3, -16, 16, -900, -901}))
		}
		return Case{Entry: entry, Pre: true, Relay: rc}
	}
}

// relayFixed: the exact-fit neighbourhood for every in/out pair, every policy, port 53, IPv4 and IPv6 peers, MTU 1500.
func relayFixed(up bool) func() []Case {
	entry := "relay-down"
	ins, outs := []string{"direct", "none", "socks5", "ss2022"}, []string{"ss2022", "none", "socks5", "direct"}
	if up {
		entry = "relay-up"
		ins, outs = []string{"direct", "none", "socks5", "ss2022", "ss2022eih"}, []string{"ss2022", "ss2022eih", "none", "socks5", "direct"}
	}
	return func() []Case {
		var cs []Case
		for _, in := range ins {
			for _, out := range outs {
				for _, pol := range []string{"PadPlainDNS", "PadAll", "NoPadding"} {
					if pol != "PadPlainDNS" && out != "ss2022" && out != "ss2022eih" {
						continue
					}
					for _, v6 := range []bool{false, true} {
						for _, a := range []string{relayAddrs[0], relayAddrs[3], relayAddrs[1]} {
							rc := RelayCase{In: in, Out: out, InMTU: 9000, OutMTU: 1500, Policy: pol, PeerV6: v6, Addr: a}
							b := fitBoundary(up, &rc, len(a)/2)
							for _, d := range []int{-2, -1, 0, 1, 2} {
								r2 := rc
								r2.PayloadLen = max(0, b+d)
								cs = append(cs, Case{Entry: entry, Pre: true, Relay: &r2})
							}
						}
					}
				}
			}
		}
		return cs
	}
}

func relayLine(c Case) string {
	k := relayKey(c)
	q := relayLines[k]
	if len(q) == 0 {
		return ""
	}
	relayLines[k] = q[1:]
	if len(q) == 1 {
		delete(relayLines, k)
	}
	return q[0]
}

func init() {
	register(engine{name: "relay-up", bubble: true, share: 60, gen: genRelay(true), fixed: relayFixed(true), impl: relayUp, line: relayLine})
	register(engine{name: "relay-down", bubble: true, share: 60, gen: genRelay(false), fixed: relayFixed(false), impl: relayDown, line: relayLine})
	register(engine{name: "relay-tcp-dial", share: 15,
		gen: func(r *common.Rng, i int) Case {
			rc := &RelayCase{Addr: common.Pick(r, relayAddrs)}
			al := len(rc.Addr) / 2
			room := 0xFFFF - al - 2
			rc.PayloadLen = common.Pick(r, []int{0, 1, 2, 898, 899, 900, 901, 1440, room - 1, room, room + 1, room + 12, 65535, 65536, 70000, r.Range(0, 2000)})
			return Case{Entry: "relay-tcp-dial", Pre: true, Relay: rc}
		},
		impl: relayTCPDial, line: relayLine})
}
