// corr_c06: differential fuzzing of the C06 parser / handshake / routing models (SSV.Model.Parsers through
// the ssv_c06 driver) against the real entry points, plus the implementation-side property oracle:
// "whatever bytes a peer sends, the affected call fails with an error; nothing panics".
//
// Every case is one call of one entry point. The same input goes to the real code (in-process, inside
// recover) and, as one protocol line, to the model; compared: ok/err class and the parsed value.
// A panic of the real code is a divergence from a model that says ok/err, and it is ALWAYS an oracle
// failure (key = entry point + panic site) when the call respected the entry point's documented
// precondition (cases that deliberately break a precondition — `pre:false` — only check that the model
// predicts the panic too).
package main

import (
	"encoding/hex"
	"fmt"
	"os"
	"runtime/debug"
	"sort"
	"strings"
	"testing"
	"testing/synctest"
	"time"

	"ssvharness/internal/common"
)

// Case is one call of one entry point (replayable).
type Case struct {
	Entry  string `json:"entry"`
	Hex    string `json:"hex,omitempty"`    // the peer-controlled bytes
	Pre    bool   `json:"pre"`              // documented precondition of the entry point holds
	Now    int64  `json:"now,omitempty"`    // Unix time given to the parser
	Csid   uint64 `json:"csid,omitempty"`   // expected client session id
	Salt   string `json:"salt,omitempty"`   // request salt (hex)
	PS     int    `json:"ps,omitempty"`     // packetStart
	PL     int    `json:"pl,omitempty"`     // packetLen
	Flag   bool   `json:"flag,omitempty"`   // fromServer / found / targetOnly ...
	Flag2  bool   `json:"flag2,omitempty"`  // srcIsTarget / replayed ...
	N      int    `json:"n,omitempty"`      // identity header length / payload length / variant
	Chunks []int  `json:"chunks,omitempty"` // how the stream is fragmented
	TsOff  int64  `json:"tsOff,omitempty"`  // timestamp patched in at run time = now + TsOff (entries that use time.Now() internally)
	Patch  bool   `json:"patch,omitempty"`  // whether to patch the timestamp field
	Router *RouterCase `json:"router,omitempty"`
	Relay  *RelayCase  `json:"relay,omitempty"`
	Note   string `json:"note,omitempty"`
}

func (c Case) bytes() []byte {
	b, err := hex.DecodeString(c.Hex)
	if err != nil {
		panic(err)
	}
	return b
}

func hexf(b []byte) string {
	if len(b) == 0 {
		return "-"
	}
	return hex.EncodeToString(b)
}

func b01(b bool) string {
	if b {
		return "1"
	}
	return "0"
}

// safely runs f; on panic it returns the panic value, the first repository frame below the panic and the stack.
func safely(f func()) (pv any, site, stack string) {
	defer func() {
		if p := recover(); p != nil {
			pv = p
			stack = string(debug.Stack())
			site = panicSite(stack)
		}
	}()
	f()
	return
}

const repoPrefix = "github.com/database64128/shadowsocks-go/"

func panicSite(stack string) string {
	lines := strings.Split(stack, "\n")
	start := 0
	for i, l := range lines {
		if strings.HasPrefix(l, "panic(") {
			start = i + 1
		}
	}
	for _, l := range lines[start:] {
		if strings.HasPrefix(l, repoPrefix) {
			f := strings.TrimPrefix(l, repoPrefix)
			if i := strings.LastIndex(f, "("); i > 0 {
				f = f[:i]
			}
			f = strings.NewReplacer("(*", "", ")", "", "(", "").Replace(f)
			return f
		}
	}
	return "unknown"
}

// result of the implementation on one case
type implResult struct {
	out   string // canonical line: "ok ..." | "err <class>" | "panic" | entry-specific words
	pv    any
	site  string
	stack string
}

type engine struct {
	name  string
	gen   func(r *common.Rng, i int) Case // i-th generated case
	fixed func() []Case                   // deterministic boundary corpus
	impl  func(c Case) string             // runs inside safely
	line  func(c Case) string             // protocol line for the model ("" = oracle only)
	share int                             // share of the budget (per mille)
	// bubble: the entry point calls time.Now() internally; its cases run inside a testing/synctest bubble, where the clock
	// is the fake one (2000-01-01T00:00:00Z, not advancing while the case runs), so the bytes of a case — and of its
	// replay — are exactly reproducible
	bubble bool
}

var engines []engine

func register(e engine) { engines = append(engines, e) }

func findEngine(name string) *engine {
	for i := range engines {
		if engines[i].name == name {
			return &engines[i]
		}
	}
	return nil
}

func oracleKey(c Case, res implResult) string {
	pmsg := fmt.Sprint(res.pv)
	switch {
	case res.site == "portset.panicOnZeroPort" && strings.Contains(res.stack, "PortSetCriterion).Meet"):
		return "F3:portset-criterion-port0-panic"
	case strings.HasPrefix(c.Entry, "direct") && strings.Contains(pmsg, "IPPort() called on non-IP address") &&
		strings.Contains(res.stack, "DirectPacketServerPackUnpacker).PackInPlace"):
		return "F4:direct-targetonly-domain-panic"
	}
	return "panic:" + c.Entry + "@" + res.site
}

func runCase(e *engine, c Case) implResult {
	var res implResult
	res.pv, res.site, res.stack = safely(func() { res.out = e.impl(c) })
	if res.pv != nil {
		res.out = "panic"
	}
	if strings.HasPrefix(res.out, "child-crashed ") { // an entry that runs in a child process (see child.go)
		res.pv, res.site, res.stack = "child process crashed", strings.TrimPrefix(res.out, "child-crashed "), ""
		res.out = "panic"
	}
	return res
}

// curNow is refreshed per batch: entry points that call time.Now() themselves get timestamps relative to it
// (offsets keep 20 s away from the +-30 s validity edge, so the few seconds a batch takes do not matter).
var curNow = time.Now().Unix()

func evalCases(cases []Case, o *common.Options, rep *common.Report) error {
	// 1. the implementation, case by case; entry points that call time.Now() themselves get their timestamps
	//    relative to `curNow`, captured immediately before the call and remembered for the model line
	//    (offsets stay 20 s away from the +-30 s validity edge).
	results := make([]implResult, len(cases))
	nows := make([]int64, len(cases))
	for i, c := range cases {
		e := findEngine(c.Entry)
		if e == nil {
			return fmt.Errorf("unknown entry %q", c.Entry)
		}
		if e.bubble && theT != nil {
			synctest.Test(theT, func(*testing.T) {
				curNow = time.Now().Unix()
				nows[i] = curNow
				results[i] = runCase(e, c)
			})
			continue
		}
		curNow = time.Now().Unix()
		nows[i] = curNow
		results[i] = runCase(e, c)
	}
	// 2. the model, one protocol line per case
	var lines []string
	var idx []int
	if o.Driver != "" {
		for i, c := range cases {
			e := findEngine(c.Entry)
			if e.line != nil {
				curNow = nows[i]
				var l string
				// some line builders call the real parser to know what the model should be told; if the code under
				// test panics there, the implementation run of this case has already reported it
				if pv, _, _ := safely(func() { l = e.line(c) }); pv != nil {
					l = ""
				}
				if l != "" {
					lines = append(lines, l)
					idx = append(idx, i)
				}
			}
		}
	}
	model := map[int]string{}
	if len(lines) > 0 {
		out, err := common.RunDriverOnce(o.Driver, lines)
		if err != nil {
			return err
		}
		for k, i := range idx {
			model[i] = out[k]
		}
	}
	// 3. compare + oracle
	for i, c := range cases {
		res := results[i]
		class := res.out
		if j := strings.IndexByte(class, ' '); j > 0 && !strings.HasPrefix(class, "err ") {
			class = class[:j]
		}
		rep.Case(c.Entry+"|"+c.Hex+"|"+fmt.Sprint(c.PS, c.PL, c.Now, c.Flag, c.Flag2, c.N, c.Chunks)+routerSig(c.Router)+relaySig(c.Relay), class != "panic")
		rep.Count(c.Entry + ":" + class)
		rep.Count(fmt.Sprintf("len<=%d", sizeBucket(len(c.Hex)/2)))
		if i%997 == 0 {
			rep.Sample(map[string]any{"case": c, "impl": res.out, "model": model[i]})
		}
		if res.pv != nil && c.Pre {
			rep.Fail(common.OracleFailure{Engine: c.Entry, Key: oracleKey(c, res), Case: c,
				Detail: fmt.Sprintf("panic: %v at %s", res.pv, res.site)})
		}
		if m, ok := model[i]; ok {
			if m == "bad-op" {
				curNow = nows[i]
				return fmt.Errorf("driver rejected line of case %d (%s): %.300q", i, c.Entry, findEngine(c.Entry).line(c))
			}
			if m != res.out {
				rep.Diverge(common.Divergence{Engine: c.Entry, Case: c, Impl: res.out, Model: m, Note: res.site})
			}
			rep.TracesValidated++
		}
	}
	return nil
}

func relaySig(rc *RelayCase) string {
	if rc == nil {
		return ""
	}
	return fmt.Sprintf("|%+v", *rc)
}

func sizeBucket(n int) int {
	for _, b := range []int{0, 2, 7, 19, 32, 64, 262, 1500, 70000} {
		if n <= b {
			return b
		}
	}
	return 1 << 30
}

// theT: the binary is an ordinary command; it enters the testing framework through testing.Main only because
// testing/synctest needs a *testing.T.
var theT *testing.T

func main() {
	if os.Getenv("C06_CHILD") == "httpfwd" {
		childMain()
		return
	}
	o := common.ParseFlags()
	testing.Init()
	testing.Main(func(pat, str string) (bool, error) { return true, nil },
		[]testing.InternalTest{{Name: "corr_c06", F: func(t *testing.T) { theT = t; realMain(o); os.Exit(0) }}}, nil, nil)
}

func realMain(o *common.Options) {
	rep := common.NewReport("C06", o)
	for _, e := range engines {
		rep.Engines = append(rep.Engines, "fuzz-"+e.name)
	}
	sort.Strings(rep.Engines)
	rep.Rule = "one case = one call of one network-facing entry point: socks5 *FromSlice / AppendFromReader / ConnAddrFromReader; ss2022 header parsers on plaintext; " +
		"ss2022 UDP SessionInfo/NewUnpacker/UnpackInPlace and the client unpacker with real keys (valid seal of hostile plaintext, corrupted tag, garbage); direct/none/socks5 packet unpackers on relay-style buffers; " +
		"direct server reply packing through service config load; wire bytes -> socks5.ConnAddrFromSlice -> router.Config match with generated routes (every port representation: 1 port / <=16 ranges / bit set; every criterion kind; inversion; resolver answers); " +
		"real handshakes over netio pipes with chunked delivery: ssnone, socks5 server (no-auth and user/pass, CONNECT / UDP ASSOCIATE / unsupported, Proceed/Abort replies), socks5 client vs hostile server, ss2022 TCP server (garbage and key-sealed hostile requests, post-handshake chunks), " +
		"HTTP proxy ServerHandle (+ routing of the parsed address), Host-header differential, HTTP CONNECT client, dns.Resolver over a scripted TCP upstream, HTTP forwarding goroutines in child processes. " +
		"Inputs: boundary corpus (every truncation of every valid seed, oversized, length bytes 0/255, port 0, empty/over-long names, type/atyp flips) + structure-aware generation + random mutation of valid seeds. " +
		"Compared with the Lean model (where a model line exists): ok/err class and parsed value (and bytes written by the SOCKS5 server); oracle on every case: no panic. " +
		"non-trivial = the call returned (ok or err) rather than panicking; distinct by (entry, input bytes, parameters)"
	var err error
	if o.Replay != "" {
		var c Case
		if err = common.LoadReplay(o.Replay, &c); err == nil {
			err = evalCases([]Case{c}, o, rep)
		}
	} else {
		err = runAll(o, rep)
	}
	if err != nil {
		fmt.Fprintln(os.Stderr, "corr_c06:", err)
		rep.Note("engine error: %v", err)
		rep.Write(o.Out)
		os.Exit(3)
	}
	if err := rep.Write(o.Out); err != nil {
		fmt.Fprintln(os.Stderr, err)
		os.Exit(3)
	}
}

func runAll(o *common.Options, rep *common.Report) error {
	total := o.Budget(50000, 600000)
	r := common.NewRng(o.Seed)
	// directed probes of the findings assigned to other builders' fixes (re-derived here through the oracle)
	probeFindings(o, rep)
	var batch []Case
	flush := func() error {
		if len(batch) == 0 {
			return nil
		}
		err := evalCases(batch, o, rep)
		batch = batch[:0]
		return err
	}
	// plain-HTTP forwarding of the HTTP proxy (hostile client and hostile origin), in child processes
	runHTTPFwd(o, rep, r.Fork(999), total/50)
	for ei := range engines {
		e := &engines[ei]
		if e.fixed != nil {
			batch = append(batch, e.fixed()...)
		}
		n := total * e.share / 1000
		er := r.Fork(uint64(1000 + ei))
		for i := 0; i < n; i++ {
			batch = append(batch, e.gen(er.Fork(uint64(i)), i))
			if len(batch) >= 20000 {
				if err := flush(); err != nil {
					return err
				}
			}
		}
		if err := flush(); err != nil {
			return err
		}
	}
	return nil
}
