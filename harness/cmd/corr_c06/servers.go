package main

import (
	"bufio"
	"bytes"
	"context"
	"net/http"
	"net/netip"
	"encoding/base64"
	"encoding/binary"
	"fmt"
	"io"
	"net"
	"strings"
	"sync"

	"ssvharness/internal/common"

	"github.com/database64128/shadowsocks-go/conn"
	"github.com/database64128/shadowsocks-go/httpproxy"
	"github.com/database64128/shadowsocks-go/netio"
	"github.com/database64128/shadowsocks-go/router"
	"github.com/database64128/shadowsocks-go/socks5"
	"github.com/database64128/shadowsocks-go/ss2022"
	"github.com/database64128/shadowsocks-go/ssnone"
	"go.uber.org/zap"
)

// tcpAddrConn makes LocalAddr a *net.TCPAddr (the SOCKS5 UDP ASSOCIATE path needs one).
type tcpAddrConn struct{ netio.Conn }

func (tcpAddrConn) LocalAddr() net.Addr { return &net.TCPAddr{IP: net.IPv4(127, 0, 0, 1), Port: 1080} }

// overPipe plays a client that writes `input` in the given fragments, half-closes, and drains whatever the
// server writes; `serve` gets the server end. No deadlines: everything ends by explicit closes.
func overPipe(input []byte, chunks []int, tcpLocal bool, serve func(c netio.Conn) string) (out string, replied []byte) {
	pl, pr := netio.NewPipe()
	var wg sync.WaitGroup
	var reply bytes.Buffer
	wg.Add(2)
	go func() {
		defer wg.Done()
		b := input
		for _, n := range chunks {
			if n > len(b) {
				n = len(b)
			}
			if n == 0 {
				continue
			}
			if _, err := pl.Write(b[:n]); err != nil {
				return
			}
			b = b[n:]
		}
		if len(b) > 0 {
			if _, err := pl.Write(b); err != nil {
				return
			}
		}
		pl.CloseWrite()
	}()
	go func() {
		defer wg.Done()
		io.Copy(&reply, pl)
	}()
	defer func() {
		pr.Close()
		pl.Close()
		wg.Wait()
		replied = reply.Bytes()
	}()
	var c netio.Conn = pr
	if tcpLocal {
		c = tcpAddrConn{pr}
	}
	out = serve(c)
	return
}

func finishRequest(req netio.ConnRequest, err error, abort bool) string {
	if err != nil {
		return "err " + classify(err)
	}
	if req.PendingConn != nil {
		if abort {
			_ = req.PendingConn.Abort(conn.DialResult{Code: conn.DialResultCodeECONNREFUSED})
		} else if c, err := req.PendingConn.Proceed(); err == nil && c != nil {
			_, _ = c.Write([]byte("x"))
		}
	}
	return "ok " + renderAddr(req.Addr)
}

// ---- SOCKS5 request seeds ----

func socks5Hello(r *common.Rng, auth bool) []byte {
	b := []byte{5}
	switch r.Intn(5) {
	case 0:
		b = append(b, 1, 0)
	case 1:
		b = append(b, 1, 2)
	case 2:
		n := common.Pick(r, []int{2, 3, 254, 255})
		b = append(b, byte(n))
		ms := r.Bytes(n)
		if r.Bool() {
			ms[r.Intn(n)] = map[bool]byte{false: 0, true: 2}[auth]
		}
		b = append(b, ms...)
	default:
		b = append(b, 2, 0, 2)
	}
	if auth {
		u, p := "user", "pass"
		switch r.Intn(6) {
		case 0:
			u = string(domainBytes(r, 255))
		case 1:
			p = string(domainBytes(r, 255))
		case 2:
			u = "x"
		case 3:
			p = "wrong"
		}
		b = append(b, 1, byte(len(u)))
		b = append(b, u...)
		b = append(b, byte(len(p)))
		b = append(b, p...)
	}
	b = append(b, 5, common.Pick(r, []byte{1, 1, 1, 3, 2, 0, 0xff}), 0)
	return append(b, anyValidAddr(r)...)
}

var httpHosts = []string{"example.com", "example.com:443", "1.1.1.1", "1.1.1.1:80", "[2606:4700::1111]", "[2606:4700::1111]:443", "[", "]", "[]", "[:]",
	":", "::", "a:", ":80", "a:b", "a:0", "a:65536", "a:99999999999999999999", "[::1", "::1]", "[::1]:", "[::1]x:80", "a]:[b", strings.Repeat("a", 255), strings.Repeat("a", 256), strings.Repeat("a.", 200) + ":80",
	"\x00", "a\x00b:80", "%zz", "a b", "[fe80::1%eth0]:80", "[fe80::1%25eth0]", "[fe80::1%eth0]", "[::1%]:80", "[::ffff:1.2.3.4]:0", "[::ffff:1.2.3.4%z]:53",
	"0.0.0.0:0", "[::]:0", "1.2.3.4:0", "1.2.3.4.:80", "0x7f.1:80", "1.2.3.4:080", "example.com:+80", "example.com:0x50", "[1.2.3.4]:80", "[example.com]:80"}

func httpRequest(r *common.Rng, auth bool) []byte {
	host := common.Pick(r, httpHosts)
	var sb strings.Builder
	switch r.Intn(4) {
	case 0:
		fmt.Fprintf(&sb, "CONNECT %s HTTP/1.1\r\nHost: %s\r\n", host, host)
	case 1:
		fmt.Fprintf(&sb, "GET http://%s/p?q=1 HTTP/1.1\r\nHost: %s\r\n", host, common.Pick(r, httpHosts))
	case 2:
		fmt.Fprintf(&sb, "POST / HTTP/1.0\r\nHost: %s\r\nContent-Length: %s\r\n", host, common.Pick(r, []string{"0", "5", "-1", "99999999999999999999", "x"}))
	default:
		fmt.Fprintf(&sb, "%s %s HTTP/1.1\r\n", common.Pick(r, []string{"GET", "CONNECT", "OPTIONS", "", "G\x00T"}), common.Pick(r, []string{"*", "/", host, "http://" + host, "//" + host, ""}))
		if r.Bool() {
			fmt.Fprintf(&sb, "Host: %s\r\n", host)
		}
	}
	if auth || r.Chance(1, 4) {
		tok := base64.StdEncoding.EncodeToString([]byte("user:pass"))
		sb.WriteString("Proxy-Authorization: " + common.Pick(r, []string{"Basic " + tok, "basic " + tok, "BASIC " + tok, "Basic", "Basic ", "Basi", "B", "", "Basic  " + tok, "Basic x", "Bearer " + tok, "Basic\t" + tok}) + "\r\n")
	}
	if r.Chance(1, 4) {
		sb.WriteString(common.Pick(r, []string{"Connection: close\r\n", "Connection: keep-alive, X-Foo,,\r\n", "Transfer-Encoding: chunked\r\n", "Upgrade: websocket\r\n", "Trailer: X\r\n", ": empty\r\n", "X\x00: y\r\n"}))
	}
	sb.WriteString("\r\n")
	if r.Chance(1, 4) {
		sb.WriteString("GET / HTTP/1.1\r\nHost: other\r\n\r\n")
	}
	return []byte(sb.String())
}

// ---- ss2022 TCP request crafted with the server's key (an authenticated but hostile client) ----

var tcpPSK = []byte("0123456789abcdef")

// ss2022Request: Hex = variable-length header plaintext; N: 0 well-formed fixed header, 1 wrong type, 2 stale timestamp,
// 3 corrupted fixed-header tag, 4 corrupted variable-header tag, 5 raw garbage (Hex is the whole stream), 6 advertised length != actual.
func ss2022Request(c Case) []byte {
	if c.N == 5 {
		return c.bytes()
	}
	pt := c.bytes()
	salt := make([]byte, 16)
	binary.BigEndian.PutUint64(salt, c.Csid)
	binary.BigEndian.PutUint64(salt[8:], uint64(curNow)^c.Csid<<1)
	eih := c.Now&1 != 0
	userPSK := tcpPSK
	if eih {
		userPSK = udpUserPSK
	}
	ucc, _ := ss2022.NewUserCipherConfig(userPSK, false)
	sc, _ := ucc.ShadowStreamCipher(salt)
	fixed := make([]byte, 11, 11+16)
	if c.N == 1 {
		fixed[0] = 1
	}
	ts := curNow + c.TsOff
	if c.N == 2 {
		ts = curNow - 3600
	}
	binary.BigEndian.PutUint64(fixed[1:], uint64(ts))
	adv := len(pt)
	if c.N == 6 {
		adv = (len(pt) + 1 + int(c.Csid%7)) % 65536
	}
	binary.BigEndian.PutUint16(fixed[9:], uint16(adv))
	out := append(mustHex(c.Salt), salt...) // unsafe request stream prefix (possibly a wrong one: Flag2 flips a byte)
	if c.Flag2 && len(out) > 16 {
		out[0] ^= 1
	}
	if eih { // identity header under the server's iPSK (tcpPSK); N=7: an unknown user
		ccc, _ := ss2022.NewClientCipherConfig(udpUserPSK, [][]byte{tcpPSK}, false)
		blocks, _ := ccc.TCPIdentityHeaderCiphers(salt)
		h := ccc.EIHPSKHashes()[0]
		if c.N == 7 {
			h[0] ^= 1
		}
		ih := make([]byte, 16)
		blocks[0].Encrypt(ih, h[:])
		out = append(out, ih...)
	}
	ef := sc.EncryptInPlace(fixed)
	if c.N == 3 {
		ef[len(ef)-1] ^= 1
	}
	out = append(out, ef...)
	vb := make([]byte, len(pt), len(pt)+16)
	copy(vb, pt)
	ev := sc.EncryptInPlace(vb)
	if c.N == 4 {
		ev[len(ev)-1] ^= 1
	}
	out = append(out, ev...)
	// payload chunks after the handshake (PS selects the variant): an authenticated peer can still send hostile framing
	chunk := func(length uint16, payload []byte, badLenTag, badPayloadTag bool) {
		lb := make([]byte, 2, 2+16)
		binary.BigEndian.PutUint16(lb, length)
		el := sc.EncryptInPlace(lb)
		if badLenTag {
			el[len(el)-1] ^= 1
		}
		out = append(out, el...)
		if payload != nil {
			pb := make([]byte, len(payload), len(payload)+16)
			copy(pb, payload)
			ep := sc.EncryptInPlace(pb)
			if badPayloadTag {
				ep[len(ep)-1] ^= 1
			}
			out = append(out, ep...)
		}
	}
	switch c.PS {
	case 1:
		chunk(0, nil, false, false)
	case 2:
		chunk(65535, nil, false, false)
		out = append(out, make([]byte, 10)...)
	case 3:
		chunk(1, []byte{7}, false, false)
		chunk(4000, make([]byte, 4000), false, false)
		chunk(65535, make([]byte, 65535), false, false)
	case 4:
		chunk(100, make([]byte, 100), false, true)
	case 5:
		chunk(100, make([]byte, 100), true, false)
	case 6:
		chunk(100, make([]byte, 99), false, false) // advertised length != sealed length
	}
	return out
}

func init() {
	logger := zap.NewNop()

	// Shadowsocks-none server handshake over a pipe (= ConnAddrFromReader on a real conn)
	register(engine{name: "ssnone-hs", share: 20,
		gen: func(r *common.Rng, i int) Case {
			b := maybeMutate(r, anyValidAddr(r))
			if r.Chance(1, 3) {
				b = append(b, r.Bytes(r.Range(1, 20))...)
			}
			return Case{Entry: "ssnone-hs", Pre: true, Hex: hx(b), Chunks: chunks(r, len(b))}
		},
		impl: func(c Case) string {
			out, _ := overPipe(c.bytes(), c.Chunks, false, func(pc netio.Conn) string {
				req, err := ssnone.StreamServer{}.HandleStream(pc, logger)
				return finishRequest(req, err, false)
			})
			return out
		},
		line: func(c Case) string { return "ssnone " + hexf(c.bytes()) }})

	// SOCKS5 servers (no-auth and username/password), TCP and UDP ASSOCIATE enabled
	users := []socks5.UserInfo{{Username: "user", Password: "pass"}, {Username: string(bytes.Repeat([]byte{'u'}, 255)), Password: string(bytes.Repeat([]byte{'p'}, 255))}}
	register(engine{name: "socks5-hs", share: 40,
		gen: func(r *common.Rng, i int) Case {
			auth := r.Chance(1, 2)
			b := maybeMutate(r, socks5Hello(r, auth))
			return Case{Entry: "socks5-hs", Pre: true, Hex: hx(b), Chunks: chunks(r, len(b)), Flag: auth, Flag2: r.Bool(), N: r.Intn(4)}
		},
		fixed: func() []Case {
			var cs []Case
			r := common.NewRng(80)
			for k := 0; k < 12; k++ {
				auth := k%2 == 1
				for _, p := range allPrefixes(socks5Hello(r.Fork(uint64(k)), auth)) {
					if len(p) < 300 {
						cs = append(cs, Case{Entry: "socks5-hs", Pre: true, Hex: hx(p), Chunks: []int{len(p)}, Flag: auth, Flag2: true, N: 3})
					}
				}
			}
			return cs
		},
		impl: func(c Case) string {
			cfg := socks5.StreamServerConfig{Users: users, EnableUserPassAuth: c.Flag, EnableTCP: c.N&1 != 0, EnableUDP: c.N&2 != 0}
			srv, err := cfg.NewStreamServer()
			if err != nil {
				return "config-rejected"
			}
			out, replied := overPipe(c.bytes(), c.Chunks, c.Flag2, func(pc netio.Conn) string {
				req, err := srv.HandleStream(pc, logger)
				if err != nil {
					return "err " + classify(err)
				}
				if c.N == 3 {
					_ = req.PendingConn.Abort(conn.DialResult{Code: conn.DialResultCodeECONNREFUSED})
				} else {
					_, _ = req.PendingConn.Proceed()
				}
				return "ok " + renderAddr(req.Addr)
			})
			if strings.HasPrefix(out, "ok ") {
				out += " w=" + hexf(replied)
			}
			return out
		},
		line: func(c Case) string {
			fin := "0"
			if c.N == 3 {
				fin = "5"
			}
			return fmt.Sprintf("socks5srv %s %s %s %s %s %s", b01(c.Flag), b01(c.N&1 != 0), b01(c.N&2 != 0), b01(c.Flag2), fin, hexf(c.bytes()))
		}})

	// HTTP proxy server: request line / Host / Proxy-Authorization handling (net/http does the parsing)
	register(engine{name: "http-hs", share: 30,
		gen: func(r *common.Rng, i int) Case {
			auth := r.Chance(1, 2)
			b := httpRequest(r, auth)
			if r.Chance(1, 3) {
				b = mutate(r, b)
			}
			return Case{Entry: "http-hs", Pre: true, Hex: hx(b), Chunks: chunks(r, len(b)), Flag: auth}
		},
		impl: func(c Case) string {
			cfg := httpproxy.ServerConfig{Users: []httpproxy.ServerUserCredentials{{Username: "user", Password: "pass"}}, EnableBasicAuth: c.Flag}
			srv, err := cfg.NewProxyServer()
			if err != nil {
				return "config-rejected"
			}
			out, _ := overPipe(c.bytes(), c.Chunks, false, func(pc netio.Conn) string {
				req, err := srv.HandleStream(pc, logger)
				if err != nil {
					return "err http"
				}
				if req.PendingConn != nil {
					_ = req.PendingConn.Abort(conn.DialResult{Code: conn.DialResultCodeECONNREFUSED})
				}
				// everything computed afterwards: route the address the HTTP parser produced (zones, odd names, port 0)
				routeEverything(req.Addr)
				return "ok " + renderAddrZ(req.Addr)
			})
			return out
		}})

	// Shadowsocks 2022 TCP server: garbage, and requests sealed with the real key carrying hostile plaintext
	register(engine{name: "ss2022-hs", bubble: true, share: 50,
		gen: func(r *common.Rng, i int) Case {
			c := Case{Entry: "ss2022-hs", Pre: true, Csid: r.U64(), TsOff: common.Pick(r, []int64{0, 0, 10, -10}), Flag: r.Chance(1, 4),
				Now: int64(r.Intn(4)), Salt: common.Pick(r, []string{"", "", "", "160301", hx(make([]byte, 300))}), Flag2: r.Chance(1, 12),
				PS: common.Pick(r, []int{0, 0, 0, 1, 2, 3, 4, 5, 6}), PL: common.Pick(r, []int{1, 100, 70000})}
			pt := maybeMutate(r, tcpVarHeader(r))
			if len(pt) > 65535 { // the fixed-length header advertises the length in 16 bits
				pt = pt[:65535]
			}
			c.Hex = hx(pt)
			switch r.Intn(12) {
			case 0:
				c.N = 1
			case 1:
				c.N = 2
			case 2:
				c.N = 3
			case 3:
				c.N = 4
			case 4, 5:
				c.N = 5
				c.Hex = hx(r.Bytes(common.Pick(r, []int{0, 1, 15, 16, 42, 43, 44, 59, 60, 100, 300})))
			case 6:
				c.N = 6
			case 7:
				c.N = 7
				c.Now |= 1
			}
			n := len(ss2022Request(c))
			c.Chunks = []int{n}
			if c.Flag { // segmented fixed-length header allowed: any fragmentation
				c.Chunks = chunks(r, n)
			}
			return c
		},
		impl: func(c Case) string {
			srv := hsServer(c)
			out, _ := overPipe(ss2022Request(c), c.Chunks, false, func(pc netio.Conn) string {
				req, err := srv.HandleStream(pc, logger)
				if err != nil {
					return "err " + classify(err)
				}
				if req.Addr.Equals(hsFallbackAddr) {
					return fmt.Sprintf("fallback %d", len(req.Payload))
				}
				res := fmt.Sprintf("ok %s %s", renderAddr(req.Addr), hexf(req.Payload))
				if sc, err := req.PendingConn.Proceed(); err == nil { // read the post-handshake chunks with a small / medium / large buffer
					buf := make([]byte, max(c.PL, 1))
					for k := 0; k < 80000; k++ {
						if _, err := sc.Read(buf); err != nil {
							break
						}
					}
				}
				return res
			})
			return out
		},
		line: hsModelLine})
}

// renderAddrZ is renderAddr that keeps an IPv6 zone visible.
func renderAddrZ(a conn.Addr) string {
	if a.IsValid() && a.IsIP() && a.IP().Zone() != "" {
		return renderAddr(a) + "%" + a.IP().Zone()
	}
	return renderAddr(a)
}

var everythingRouter *RouterCase

// routeEverything sends an address through a router that has one route per criterion kind and port representation.
func routeEverything(a conn.Addr) {
	if everythingRouter == nil {
		var many []string
		for p := 2; p < 80; p += 3 {
			many = append(many, fmt.Sprint(p))
		}
		everythingRouter = &RouterCase{SrcPort: 40000, Resolver: map[string]string{hx([]byte("example.com")): "1.2.3.4"}, Routes: []RouteGen{
			{ToPorts: []uint16{9}}, {ToRanges: "100-200,300-400", InvToPorts: true, Network: "udp"}, {ToRanges: joinComma(many), Network: "udp"},
			{ToDomains: []string{hx([]byte("nomatch.test"))}}, {ToDomains: []string{hx([]byte("example.com"))}, Expected: []string{"10.0.0.0/8"}},
			{ToPrefixes: []string{"10.0.0.0/8", "fe00::/7"}, NoResolve: true, Network: "udp"}, {ToPrefixes: []string{"10.0.0.0/8"}, Network: "udp"},
			{ToRanges: joinComma(many), InvToPorts: true, ToPrefixes: []string{"192.0.2.0/24", "2001:db8::/32"}, InvToPrefix: true, NoResolve: true, Network: "udp"},
		}}
	}
	rt, err := everythingRouter.build()
	if err != nil {
		panic("routeEverything: " + err.Error())
	}
	defer rt.Close()
	ri := router.RequestInfo{SourceAddrPort: netip.MustParseAddrPort("203.0.113.9:40000"), TargetAddr: a}
	_, _ = rt.GetTCPClient(context.Background(), ri)
	_, _ = rt.GetUDPClient(context.Background(), ri)
}

// ---- hostHeaderToAddr differential: plain-HTTP request with a hostile Host value through ServerHandle ----

func hostHdrRequest(c Case) []byte {
	return append(append([]byte("GET / HTTP/1.1\r\nHost: "), c.bytes()...), "\r\n\r\n"...)
}

// what net/http makes of the request (the model takes its verdict and req.Host as given)
func hostHdrParsed(c Case) (host string, ok bool) {
	req, err := http.ReadRequest(bufio.NewReader(bytes.NewReader(hostHdrRequest(c))))
	if err != nil || req.Method == http.MethodConnect {
		return "", false
	}
	return req.Host, true
}

func optAddr(a conn.Addr, err error) string {
	if err != nil {
		return "none"
	}
	return renderAddr(a)
}

func init() {
	logger := zap.NewNop()
	register(engine{name: "hosthdr", share: 20,
		gen: func(r *common.Rng, i int) Case {
			h := []byte(common.Pick(r, httpHosts))
			if r.Chance(1, 3) {
				h = mutate(r, h)
			}
			return Case{Entry: "hosthdr", Pre: true, Hex: hx(h)}
		},
		fixed: func() []Case {
			var cs []Case
			for _, h := range httpHosts {
				cs = append(cs, Case{Entry: "hosthdr", Pre: true, Hex: hx([]byte(h))})
			}
			return cs
		},
		impl: func(c Case) string {
			if _, ok := hostHdrParsed(c); !ok {
				return "skip"
			}
			srv, _ := (&httpproxy.ServerConfig{}).NewProxyServer()
			b := hostHdrRequest(c)
			out, _ := overPipe(b, []int{len(b)}, false, func(pc netio.Conn) string {
				req, err := srv.HandleStream(pc, logger)
				if err != nil {
					return "err host"
				}
				if req.PendingConn != nil {
					_ = req.PendingConn.Abort(conn.DialResult{})
				}
				routeEverything(req.Addr)
				if req.Addr.IsIP() && req.Addr.IP().Zone() != "" {
					return "ok zoned"
				}
				return "ok " + renderAddr(req.Addr)
			})
			return out
		},
		line: func(c Case) string {
			host, ok := hostHdrParsed(c)
			if !ok {
				return ""
			}
			// the parameters of the model: netip.ParseAddr / conn.ParseAddr results on the strings it will ask about
			inner := host
			if len(host) >= 2 {
				inner = host[1 : len(host)-1]
			}
			ipOf := func(s string) string {
				ip, err := netip.ParseAddr(s)
				if err != nil {
					return "none"
				}
				if ip.Zone() != "" {
					return "zoned"
				}
				return renderIP(ip, 0)
			}
			pa := optAddr(conn.ParseAddr(host))
			if a, err := conn.ParseAddr(host); err == nil && a.IsIP() && a.IP().Zone() != "" {
				pa = "zoned"
			}
			return fmt.Sprintf("hosthdr %s %s %s %s", hexf([]byte(host)), ipOf(host), ipOf(inner), pa)
		}})
}

// ---- HandleStream: server construction per case and the model line (the harness holds the keys) ----

var hsFallbackAddr = conn.AddrFromIPPort(netip.MustParseAddrPort("198.51.100.80:80"))

// hsServer: Now bit0 = identity-header (EIH) server, bit1 = fallback address configured; Salt = unsafe request stream prefix.
func hsServer(c Case) *ss2022.StreamServer {
	cfg := ss2022.StreamServerConfig{AllowSegmentedFixedLengthHeader: c.Flag, RejectPolicy: ss2022.JustClose, UnsafeRequestStreamPrefix: mustHex(c.Salt)}
	if c.Now&2 != 0 {
		cfg.UnsafeFallbackAddr = hsFallbackAddr
	}
	if c.Now&1 != 0 {
		cfg.IdentityCipherConfig, _ = ss2022.NewServerIdentityCipherConfig(tcpPSK, false)
		srv := cfg.NewStreamServer()
		u, _ := ss2022.NewServerUserCipherConfig("u", udpUserPSK, false)
		srv.ReplaceUserLookupMap(ss2022.UserLookupMap{ss2022.PSKHash(udpUserPSK): u})
		return srv
	}
	cfg.UserCipherConfig, _ = ss2022.NewUserCipherConfig(tcpPSK, false)
	return cfg.NewStreamServer()
}

func hsModelLine(c Case) string {
	stream := ss2022Request(c)
	ursp := mustHex(c.Salt)
	idLen := 0
	if c.Now&1 != 0 {
		idLen = 16
	}
	want := len(ursp) + 16 + idLen + 11 + 16
	chunk0 := len(stream)
	if len(c.Chunks) > 0 {
		chunk0 = min(c.Chunks[0], len(stream))
	}
	prefixOk, userFound, openFixed, openVar := true, true, "none", "none"
	rest := []byte{}
	if len(stream) >= want {
		b := stream[:want]
		rest = stream[want:]
		prefixOk = bytes.Equal(b[:len(ursp)], ursp)
		salt := b[len(ursp) : len(ursp)+16]
		userPSK := tcpPSK
		if idLen != 0 {
			icc, _ := ss2022.NewServerIdentityCipherConfig(tcpPSK, false)
			blk, _ := icc.TCP(salt)
			h := make([]byte, 16)
			blk.Decrypt(h, b[len(ursp)+16:len(ursp)+32])
			want := ss2022.PSKHash(udpUserPSK)
			userFound = bytes.Equal(h, want[:])
			userPSK = udpUserPSK
		}
		if userFound {
			ucc, _ := ss2022.NewUserCipherConfig(userPSK, false)
			sc, _ := ucc.ShadowStreamCipher(salt)
			if pt, err := sc.DecryptTo(make([]byte, 16), b[len(ursp)+16+idLen:]); err == nil {
				openFixed = hexf(pt)
				vh := int(binary.BigEndian.Uint16(pt[9:]))
				if len(rest) >= vh+16 {
					if pt2, err := sc.DecryptInPlace(append([]byte(nil), rest[:vh+16]...)); err == nil {
						openVar = hexf(pt2)
					}
				}
			}
		}
	}
	return fmt.Sprintf("hs 16 %d %d %s %s %d %d %d 0 %s %s 1 %s %s %s", idLen, len(ursp), b01(c.Flag), b01(c.Now&2 != 0), curNow, chunk0, len(stream),
		b01(prefixOk), b01(userFound), openFixed, openVar, hexf(rest))
}
