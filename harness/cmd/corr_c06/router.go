package main

import (
	"context"
	"encoding/hex"
	"errors"
	"fmt"
	"net/netip"
	"sort"
	"strings"

	"ssvharness/internal/common"

	"github.com/database64128/shadowsocks-go/conn"
	"github.com/database64128/shadowsocks-go/dns"
	"github.com/database64128/shadowsocks-go/netio"
	"github.com/database64128/shadowsocks-go/router"
	"github.com/database64128/shadowsocks-go/socks5"
	"github.com/database64128/shadowsocks-go/zerocopy"
	"go.uber.org/zap"
)

func hexDecode(s string) ([]byte, error) { return hex.DecodeString(s) }

// RouteGen is the generated part of a router.RouteConfig (the criteria that look at the wire-derived request).
type RouteGen struct {
	Network      string   `json:"network,omitempty"`
	FromPorts    []uint16 `json:"fromPorts,omitempty"`
	FromRanges   string   `json:"fromRanges,omitempty"`
	InvFromPorts bool     `json:"invFromPorts,omitempty"`
	ToPorts      []uint16 `json:"toPorts,omitempty"`
	ToRanges     string   `json:"toRanges,omitempty"`
	InvToPorts   bool     `json:"invToPorts,omitempty"`
	ToDomains    []string `json:"toDomains,omitempty"` // hex of the exact names
	InvToDomains bool     `json:"invToDomains,omitempty"`
	Expected     []string `json:"expected,omitempty"` // toMatchedDomainExpectedPrefixes
	InvExpected  bool     `json:"invExpected,omitempty"`
	ToPrefixes   []string `json:"toPrefixes,omitempty"`
	InvToPrefix  bool     `json:"invToPrefix,omitempty"`
	NoResolve    bool     `json:"noResolve,omitempty"` // disableNameResolutionForIPRules
}

type RouterCase struct {
	Routes   []RouteGen        `json:"routes"`
	Resolver map[string]string `json:"resolver,omitempty"` // hex name -> ip ("" = lookup error)
	UDP      bool              `json:"udp,omitempty"`
	SrcPort  uint16            `json:"srcPort"`
}

func routerSig(rc *RouterCase) string {
	if rc == nil {
		return ""
	}
	return fmt.Sprintf("|%+v", *rc)
}

// ---- fakes ----

type fakeTCP struct{ idx int }

func (f *fakeTCP) DialStream(context.Context, conn.Addr, []byte) (netio.Conn, error) {
	return nil, errors.New("fake")
}
func (f *fakeTCP) NewStreamDialer() (netio.StreamDialer, netio.StreamDialerInfo) {
	return f, netio.StreamDialerInfo{Name: fmt.Sprint(f.idx)}
}

type fakeUDP struct{ idx int }

func (f *fakeUDP) Info() zerocopy.UDPClientInfo { return zerocopy.UDPClientInfo{Name: fmt.Sprint(f.idx)} }
func (f *fakeUDP) NewSession(context.Context) (zerocopy.UDPClientSessionInfo, zerocopy.UDPClientSession, error) {
	return zerocopy.UDPClientSessionInfo{}, zerocopy.UDPClientSession{}, errors.New("fake")
}

type fakeResolver map[string]string

func (f fakeResolver) LookupIP(_ context.Context, name string) (netip.Addr, error) {
	v, ok := f[hex.EncodeToString([]byte(name))]
	if !ok || v == "" {
		return netip.Addr{}, errors.New("fake lookup failure")
	}
	return netip.MustParseAddr(v), nil
}
func (f fakeResolver) LookupIPs(ctx context.Context, name string) ([]netip.Addr, error) {
	ip, err := f.LookupIP(ctx, name)
	return []netip.Addr{ip}, err
}

// ---- model rendering: mirrors how RouteConfig.Route assembles criteria (order and representation) ----

func portBits(ports []uint16, ranges string) (bits [65536]bool, count int) {
	for _, p := range ports {
		bits[p] = true
	}
	for _, part := range strings.Split(ranges, ",") {
		if part == "" {
			continue
		}
		var a, b int
		if strings.Contains(part, "-") {
			fmt.Sscanf(part, "%d-%d", &a, &b)
		} else {
			fmt.Sscanf(part, "%d", &a)
			b = a
		}
		for p := a; p <= b; p++ {
			bits[p] = true
		}
	}
	for _, x := range bits {
		if x {
			count++
		}
	}
	return
}

func portCrit(prefix string, ports []uint16, ranges string) string {
	bits, count := portBits(ports, ranges)
	var rs [][2]int
	for p := 1; p < 65536; p++ {
		if bits[p] {
			if len(rs) > 0 && rs[len(rs)-1][1] == p-1 {
				rs[len(rs)-1][1] = p
			} else {
				rs = append(rs, [2]int{p, p})
			}
		}
	}
	switch {
	case count == 1:
		return fmt.Sprintf("%sp=%d", prefix, rs[0][0])
	case len(rs) <= 16:
		var s []string
		for _, r := range rs {
			s = append(s, fmt.Sprintf("%d-%d", r[0], r[1]))
		}
		return prefix + "pr=" + strings.Join(s, "+")
	default:
		var s []string
		for p := 1; p < 65536; p++ {
			if bits[p] {
				s = append(s, fmt.Sprint(p))
			}
		}
		return prefix + "ps=" + strings.Join(s, "+")
	}
}

func prefixList(ps []string) string {
	var out []string
	for _, p := range ps {
		pf := netip.MustParsePrefix(p)
		a := pf.Addr()
		if a.Is4() {
			b := a.As4()
			out = append(out, fmt.Sprintf("4:%s/%d", hex.EncodeToString(b[:]), pf.Bits()))
		} else {
			b := a.As16()
			out = append(out, fmt.Sprintf("6:%s/%d", hex.EncodeToString(b[:]), pf.Bits()))
		}
	}
	return strings.Join(out, "+")
}

func inv(b bool, s string) string {
	if b {
		return "!" + s
	}
	return s
}

func (g RouteGen) model() string {
	var cs []string
	switch g.Network {
	case "tcp":
		cs = append(cs, "tcp")
	case "udp":
		cs = append(cs, "udp")
	}
	if len(g.FromPorts) > 0 || g.FromRanges != "" {
		cs = append(cs, inv(g.InvFromPorts, portCrit("s", g.FromPorts, g.FromRanges)))
	}
	if len(g.ToPorts) > 0 || g.ToRanges != "" {
		cs = append(cs, inv(g.InvToPorts, portCrit("d", g.ToPorts, g.ToRanges)))
	}
	var group []string
	if len(g.ToDomains) > 0 {
		if len(g.Expected) > 0 {
			inner := inv(g.InvExpected, "drip@"+prefixList(g.Expected))
			group = append(group, inv(g.InvToDomains, "ddx="+strings.Join(g.ToDomains, "+")+"~"+inner))
		} else {
			group = append(group, inv(g.InvToDomains, "dd="+strings.Join(g.ToDomains, "+")))
		}
	}
	if len(g.ToPrefixes) > 0 {
		if g.NoResolve {
			group = append(group, inv(g.InvToPrefix, "dip="+prefixList(g.ToPrefixes)))
		} else {
			group = append(group, inv(g.InvToPrefix, "drip="+prefixList(g.ToPrefixes)))
		}
	}
	switch len(group) {
	case 0:
	case 1:
		cs = append(cs, group[0])
	default:
		cs = append(cs, "or("+strings.Join(group, ";")+")")
	}
	if len(cs) == 0 {
		return "*"
	}
	return strings.Join(cs, ",")
}

func (rc *RouterCase) modelLine(target string) string {
	var rs []string
	for _, g := range rc.Routes {
		rs = append(rs, g.model())
	}
	cfg := "-"
	if len(rs) > 0 {
		cfg = strings.Join(rs, "|")
	}
	res := "-"
	if len(rc.Resolver) > 0 {
		var keys []string
		for k := range rc.Resolver {
			keys = append(keys, k)
		}
		sort.Strings(keys)
		var es []string
		for _, k := range keys {
			v := rc.Resolver[k]
			if v == "" {
				continue
			}
			ip := netip.MustParseAddr(v)
			if ip.Is4() {
				b := ip.As4()
				es = append(es, k+">4:"+hex.EncodeToString(b[:]))
			} else {
				b := ip.As16()
				es = append(es, k+">6:"+hex.EncodeToString(b[:]))
			}
		}
		if len(es) > 0 {
			res = strings.Join(es, "+")
		}
	}
	net := "tcp"
	if rc.UDP {
		net = "udp"
	}
	return fmt.Sprintf("router %s %s %s %d %s", res, cfg, net, rc.SrcPort, target)
}

// ---- the real router ----

func (rc *RouterCase) build() (*router.Router, error) {
	tcp := map[string]netio.StreamClient{}
	udp := map[string]zerocopy.UDPClient{}
	cfg := router.Config{}
	for i, g := range rc.Routes {
		name := fmt.Sprintf("c%d", i)
		tcp[name] = &fakeTCP{i}
		udp[name] = &fakeUDP{i}
		r := router.RouteConfig{Name: fmt.Sprintf("r%d", i), Network: g.Network, Client: name,
			FromPorts: g.FromPorts, FromPortRanges: g.FromRanges, InvertFromPorts: g.InvFromPorts,
			ToPorts: g.ToPorts, ToPortRanges: g.ToRanges, InvertToPorts: g.InvToPorts,
			InvertToDomains: g.InvToDomains, InvertToMatchedDomainExpectedPrefixes: g.InvExpected,
			InvertToPrefixes: g.InvToPrefix, DisableNameResolutionForIPRules: g.NoResolve}
		for _, d := range g.ToDomains {
			b, _ := hex.DecodeString(d)
			r.ToDomains = append(r.ToDomains, string(b))
		}
		for _, p := range g.Expected {
			r.ToMatchedDomainExpectedPrefixes = append(r.ToMatchedDomainExpectedPrefixes, netip.MustParsePrefix(p))
		}
		for _, p := range g.ToPrefixes {
			r.ToPrefixes = append(r.ToPrefixes, netip.MustParsePrefix(p))
		}
		cfg.Routes = append(cfg.Routes, r)
	}
	d := len(rc.Routes)
	tcp["dflt"] = &fakeTCP{d}
	udp["dflt"] = &fakeUDP{d}
	cfg.DefaultTCPClientName, cfg.DefaultUDPClientName = "dflt", "dflt"
	res := fakeResolver(rc.Resolver)
	return cfg.Router(zap.NewNop(), []dns.SimpleResolver{res}, map[string]dns.SimpleResolver{"r": res}, tcp, udp, map[string]int{"s": 0})
}

// routerImpl: wire bytes -> socks5.ConnAddrFromSlice -> Router.GetTCPClient / GetUDPClient.
func routerImpl(c Case) string {
	a, _, err := socks5.ConnAddrFromSlice(c.bytes())
	if err != nil {
		return "err " + classify(err)
	}
	rt, err := c.Router.build()
	if err != nil {
		return "config-rejected " + err.Error()
	}
	defer rt.Close()
	ri := router.RequestInfo{ServerIndex: 0, SourceAddrPort: netip.AddrPortFrom(netip.MustParseAddr("203.0.113.9"), c.Router.SrcPort), TargetAddr: a}
	if c.Router.UDP {
		cl, err := rt.GetUDPClient(context.Background(), ri)
		if err != nil {
			return "err lookup"
		}
		return "ok " + cl.Info().Name
	}
	cl, err := rt.GetTCPClient(context.Background(), ri)
	if err != nil {
		return "err lookup"
	}
	_, info := cl.NewStreamDialer()
	return "ok " + info.Name
}

func routerLine(c Case) string {
	// the model receives the parsed address only when the parse succeeds; otherwise the parser's own line decides
	a, _, err := socks5.ConnAddrFromSlice(c.bytes())
	if err != nil {
		return "connaddr " + hexf(c.bytes())
	}
	return c.Router.modelLine(renderAddr(a))
}

// ---- generation ----

var genDomains = []string{"a", "example.com", "x.test", "y.test", "long.sub.domain.example.org"}
var genIPs = []string{"1.2.3.4", "10.0.0.1", "127.0.0.1", "2001:db8::1", "::ffff:10.0.0.1", "::1", "0.0.0.0", "::"}
var genPrefixes = []string{"1.2.3.0/24", "10.0.0.0/8", "0.0.0.0/0", "127.0.0.1/32", "2001:db8::/32", "::/0", "::ffff:0:0/96", "::1/128"}

func genPortCriterion(r *common.Rng) (ports []uint16, ranges string) {
	switch r.Intn(4) {
	case 0: // single port
		return []uint16{common.Pick(r, []uint16{1, 53, 80, 443, 65535, uint16(r.Range(1, 65535))})}, ""
	case 1: // a few ranges (<= 16): PortRangeSet representation
		var parts []string
		p := r.Range(1, 2000)
		for k := r.Range(1, 8); k > 0 && p < 65000; k-- {
			q := p + r.Range(1, 300)
			parts = append(parts, fmt.Sprintf("%d-%d", p, q))
			p = q + r.Range(2, 3000)
		}
		if r.Chance(1, 3) {
			parts = append(parts, "65535")
		}
		return nil, strings.Join(parts, ",")
	case 2: // > 16 ranges: bit-set representation
		var parts []string
		p := r.Range(1, 5)
		for k := r.Range(17, 40); k > 0; k-- {
			parts = append(parts, fmt.Sprint(p))
			p += r.Range(2, 9)
		}
		return nil, strings.Join(parts, ",")
	default: // mixture of list and ranges
		ps := []uint16{53, 80, 443}
		return ps, fmt.Sprintf("%d-%d", 1000, 1000+r.Range(1, 50))
	}
}

func genRoute(r *common.Rng) RouteGen {
	var g RouteGen
	g.Network = common.Pick(r, []string{"", "", "tcp", "udp"})
	if r.Chance(1, 3) {
		g.FromPorts, g.FromRanges = genPortCriterion(r)
		g.InvFromPorts = r.Chance(1, 4)
	}
	if r.Chance(2, 3) {
		g.ToPorts, g.ToRanges = genPortCriterion(r)
		g.InvToPorts = r.Chance(1, 4)
	}
	if r.Chance(1, 3) {
		for k := r.Range(1, 3); k > 0; k-- {
			g.ToDomains = append(g.ToDomains, hex.EncodeToString([]byte(common.Pick(r, genDomains))))
		}
		g.InvToDomains = r.Chance(1, 4)
		if r.Chance(1, 3) {
			g.Expected = []string{common.Pick(r, genPrefixes)}
			g.InvExpected = r.Chance(1, 4)
		}
	}
	if r.Chance(1, 3) {
		for k := r.Range(1, 2); k > 0; k-- {
			g.ToPrefixes = append(g.ToPrefixes, common.Pick(r, genPrefixes))
		}
		g.InvToPrefix = r.Chance(1, 4)
		g.NoResolve = r.Chance(1, 2)
	}
	return g
}

func genRouterCase(r *common.Rng, i int) Case {
	rc := &RouterCase{UDP: r.Chance(1, 3), Resolver: map[string]string{}}
	rc.SrcPort = common.Pick(r, []uint16{0, 1, 53, 1000, 40000, 65535})
	for k := r.Range(1, 4); k > 0; k-- {
		rc.Routes = append(rc.Routes, genRoute(r))
	}
	for _, d := range genDomains {
		if r.Chance(2, 3) {
			rc.Resolver[hex.EncodeToString([]byte(d))] = common.Pick(r, genIPs)
		}
	}
	// the wire bytes of the request: valid address with boundary ports (0 included), names from the rule vocabulary
	var b []byte
	switch r.Intn(4) {
	case 0:
		d := common.Pick(r, genDomains)
		b = append([]byte{3, byte(len(d))}, d...)
		b = putPort(b, port(r))
	case 1:
		ip := netip.MustParseAddr(common.Pick(r, genIPs))
		if ip.Is4() {
			a := ip.As4()
			b = append([]byte{1}, a[:]...)
		} else {
			a := ip.As16()
			b = append([]byte{4}, a[:]...)
		}
		b = putPort(b, port(r))
	default:
		b = anyValidAddr(r)
	}
	if r.Chance(1, 10) {
		b = mutate(r, b)
	}
	return Case{Entry: "router", Pre: true, Hex: hx(b), Router: rc}
}

func init() {
	register(engine{name: "router", share: 100, gen: genRouterCase, impl: routerImpl, line: routerLine})
}
