package main

// Round 3: bytes that a peer RETURNS TO A CLIENT of this program.
//
//   fuzz-socks5-udp-associate  the real direct.Socks5UDPClient / Socks5AuthUDPClient NewSession against a scripted loopback
//                              TCP "server" (structure-aware UDP ASSOCIATE replies: BND.ADDR IPv4 / IPv6 / domain / unspecified /
//                              port 0, every reply code, truncations, mutations), then the follow-up use of the session:
//                              pack a datagram for the bound address, unpack a reply datagram, close.
// The system resolver is replaced by one that only knows the hosts file, so a domain BND.ADDR fails fast instead of timing out.

import (
	"context"
	"encoding/binary"
	"errors"
	"fmt"
	"io"
	"net"
	"net/netip"
	"sync"
	"time"

	"ssvharness/internal/common"

	"github.com/database64128/shadowsocks-go/conn"
	"github.com/database64128/shadowsocks-go/direct"
	"github.com/database64128/shadowsocks-go/netio"
	"github.com/database64128/shadowsocks-go/socks5"
	"github.com/database64128/shadowsocks-go/ss2022"
	"go.uber.org/zap"
)

func init() {
	net.DefaultResolver = &net.Resolver{PreferGo: true, Dial: func(context.Context, string, string) (net.Conn, error) {
		return nil, errors.New("corr_c06: no DNS in the harness")
	}}
}

var (
	assocOnce sync.Once
	assocLn   *net.TCPListener
	assocCh   = make(chan []byte, 1) // script for the next accepted connection
	assocWG   sync.WaitGroup
)

// assocServer: one loopback listener for the whole run; every accepted connection drains what the client sends and plays
// the script handed over for it, then keeps the connection open until the client closes it.
func assocServer() string {
	assocOnce.Do(func() {
		ln, err := net.ListenTCP("tcp4", &net.TCPAddr{IP: net.IPv4(127, 0, 0, 1)})
		if err != nil {
			panic(err)
		}
		assocLn = ln
		go func() {
			for {
				c, err := ln.AcceptTCP()
				if err != nil {
					return
				}
				script := <-assocCh
				assocWG.Add(1)
				go func() {
					defer assocWG.Done()
					defer c.Close()
					done := make(chan struct{})
					go func() { // drain the client's greeting / auth / request
						buf := make([]byte, 512)
						for {
							if _, err := c.Read(buf); err != nil {
								close(done)
								return
							}
						}
					}()
					if len(script) > 0 {
						c.Write(script)
					}
					// half-close after the script: a truncated reply ends in EOF at the client instead of blocking it
					// (no deadlines in the harness); the connection itself stays until the client closes it
					c.CloseWrite()
					<-done
				}()
			}
		}()
	})
	return assocLn.Addr().String()
}

func assocReply(r *common.Rng, auth bool) []byte {
	var b []byte
	if auth {
		b = append(b, 5, 2, 1, common.Pick(r, []byte{0, 0, 0, 0, 1}))
	} else {
		b = append(b, 5, common.Pick(r, []byte{0, 0, 0, 0, 2, 0xff}))
	}
	b = append(b, 5, common.Pick(r, []byte{0, 0, 0, 0, 0, 1, 7, 0xff}), common.Pick(r, []byte{0, 0, 0, 1, 0xff}))
	var bnd []byte
	switch r.Intn(8) {
	case 0:
		bnd = []byte{1, 0, 0, 0, 0, 0, 0} // 0.0.0.0:0
	case 1:
		bnd = append([]byte{1, 0, 0, 0, 0}, putPort(nil, port(r))...) // unspecified, some port
	case 2:
		bnd = append(append([]byte{4}, make([]byte, 16)...), putPort(nil, port(r))...) // [::]:p
	case 3:
		bnd = append([]byte{3, 9}, "localhost"...)
		bnd = putPort(bnd, port(r))
	case 4:
		bnd = validAddr(r, 3) // some other name (lookup fails)
	case 5:
		bnd = append([]byte{1, 127, 0, 0, 1}, putPort(nil, port(r))...)
	default:
		bnd = anyValidAddr(r)
	}
	return append(b, bnd...)
}

func resolveForModel(host string) string {
	ips, err := net.DefaultResolver.LookupNetIP(context.Background(), "ip", host)
	if err != nil || len(ips) == 0 {
		return "none"
	}
	return renderIP(ips[0], 0)
}

func init() {
	register(engine{name: "socks5-udp-associate", share: 25,
		gen: func(r *common.Rng, i int) Case {
			auth := r.Chance(1, 2)
			b := maybeMutate(r, assocReply(r, auth))
			return Case{Entry: "socks5-udp-associate", Pre: true, Hex: hx(b), Flag: auth, N: common.Pick(r, []int{0, 1, 100, 1400})}
		},
		fixed: func() []Case {
			var cs []Case
			r := common.NewRng(83)
			for k := 0; k < 16; k++ {
				auth := k%2 == 1
				for _, p := range allPrefixes(assocReply(r.Fork(uint64(k)), auth)) {
					if len(p) < 300 {
						cs = append(cs, Case{Entry: "socks5-udp-associate", Pre: true, Hex: hx(p), Flag: auth, N: 10})
					}
				}
			}
			// every ATYP as BND.ADDR of a well-formed success reply
			for _, bnd := range []string{"01000000000000", "017f0000010435", "0400000000000000000000000000000000" + "0035", "0420010db8000000000000000000000001" + "0000",
				"03096c6f63616c686f7374" + "0035", "030178" + "0035", "0300" + "0035", "0301" + "00" + "0000"} {
				for _, auth := range []bool{false, true} {
					pre := "0500"
					if auth {
						pre = "05020100"
					}
					cs = append(cs, Case{Entry: "socks5-udp-associate", Pre: true, Hex: pre + "050000" + bnd, Flag: auth, N: 10})
				}
			}
			return cs
		},
		impl: func(c Case) string {
			address := assocServer()
			script := c.bytes()
			assocCh <- script
			cfg := direct.Socks5UDPClientConfig{Logger: zap.NewNop(), Name: "s5", NetworkTCP: "tcp4", NetworkIP: "ip", Address: address,
				Dialer: conn.DefaultTCPDialer, MTU: 1500, ListenConfig: conn.DefaultUDPClientListenConfig}
			if c.Flag {
				cfg.AuthMsg = socks5.UserInfo{Username: "user", Password: "pass"}.AppendAuthMsg(nil)
			}
			cl := cfg.NewClient()
			info, sess, err := cl.NewSession(context.Background())
			if err != nil {
				return "err session"
			}
			defer sess.Close()
			// follow-up use of the session: a datagram to a domain and to an IP target, and a reply datagram
			hr := info.PackerHeadroom
			buf := make([]byte, hr.Front+c.N+hr.Rear)
			dest, _, _, _ := sess.Packer.PackInPlace(context.Background(), buf, conn.MustAddrFromDomainPort("example.com", 53), hr.Front, c.N)
			_, _, _, _ = sess.Packer.PackInPlace(context.Background(), buf, conn.AddrFromIPPort(netip.MustParseAddrPort("[2001:db8::1]:0")), hr.Front, c.N)
			reply := append([]byte{0, 0, 0, 1, 1, 2, 3, 4, 0, 53}, make([]byte, 8)...)
			_, _, _, _ = sess.Unpacker.UnpackInPlace(reply, dest, 0, len(reply))
			_, _, _, _ = sess.Unpacker.UnpackInPlace(reply[:2], dest, 0, 2)
			return "ok " + renderAP(dest)
		},
		line: func(c Case) string {
			// the resolver's answer for the only name the harness' hosts file may know
			res := "none"
			b := c.bytes()
			// the model asks the resolver about whatever name the reply carries: answer = what the real resolver says for it
			if name, ok := bndDomain(b, c.Flag); ok {
				res = resolveForModel(name)
			}
			return fmt.Sprintf("s5udpsession %s %s %s", b01(c.Flag), res, hexf(b))
		}})
}

// bndDomain extracts the domain BND.ADDR of a reply script, if it has one at the expected offset.
func bndDomain(b []byte, auth bool) (string, bool) {
	off := 2
	if auth {
		off = 4
	}
	if len(b) < off+5 || b[off+3] != 3 {
		return "", false
	}
	n := int(b[off+4])
	if len(b) < off+5+n {
		return "", false
	}
	return string(b[off+5 : off+5+n]), true
}

// ---- ss2022 TCP client: the response stream of a (hostile or impersonated) server, end to end through Read ----

type respStreamClient struct {
	variant int
	tsOff   int64
	body    []byte
}

func (s *respStreamClient) NewStreamDialer() (netio.StreamDialer, netio.StreamDialerInfo) {
	return s, netio.StreamDialerInfo{Name: "resp", NativeInitialPayload: true}
}

// DialStream receives the client's request (salt first) and answers with a response crafted under the real key:
// variant 0 well-formed, 1 wrong type, 2 stale timestamp, 3 request-salt mismatch, 4 zero payload length, 5 corrupted header tag,
// 6 corrupted payload tag, 7 truncated after the header, 8 garbage, 9 advertised length longer than what follows.
func (s *respStreamClient) DialStream(ctx context.Context, addr conn.Addr, payload []byte) (netio.Conn, error) {
	pl, pr := netio.NewPipe()
	reqSalt := append([]byte(nil), payload[:min(16, len(payload))]...)
	go func() { io.Copy(io.Discard, pr) }()
	go func() {
		defer pr.CloseWrite()
		if s.variant == 8 {
			pr.Write(s.body)
			return
		}
		salt := make([]byte, 16)
		binary.BigEndian.PutUint64(salt, uint64(time.Now().UnixNano()))
		ucc, _ := ss2022.NewUserCipherConfig(udpPSK, false)
		sc, _ := ucc.ShadowStreamCipher(salt)
		hdr := make([]byte, 0, 1+8+16+2+16)
		typ := byte(1)
		if s.variant == 1 {
			typ = 0
		}
		hdr = append(hdr, typ)
		ts := time.Now().Unix() + s.tsOff
		if s.variant == 2 {
			ts -= 3600
		}
		hdr = binary.BigEndian.AppendUint64(hdr, uint64(ts))
		rs := append([]byte(nil), reqSalt...)
		if s.variant == 3 && len(rs) > 0 {
			rs[0] ^= 1
		}
		hdr = append(hdr, rs...)
		n := len(s.body)
		if s.variant == 4 {
			n = 0
		}
		if s.variant == 9 {
			n = 65535
		}
		hdr = binary.BigEndian.AppendUint16(hdr, uint16(n))
		eh := sc.EncryptInPlace(hdr)
		if s.variant == 5 {
			eh[len(eh)-1] ^= 1
		}
		out := append(append([]byte(nil), salt...), eh...)
		if s.variant != 7 {
			pb := make([]byte, len(s.body), len(s.body)+16)
			copy(pb, s.body)
			ep := sc.EncryptInPlace(pb)
			if s.variant == 6 {
				ep[len(ep)-1] ^= 1
			}
			out = append(out, ep...)
		}
		pr.Write(out)
	}()
	return pl, nil
}

func init() {
	register(engine{name: "ss2022-client-resp", bubble: true, share: 20,
		gen: func(r *common.Rng, i int) Case {
			c := Case{Entry: "ss2022-client-resp", Pre: true, N: common.Pick(r, []int{0, 0, 0, 1, 2, 3, 4, 5, 6, 7, 8, 9}), TsOff: common.Pick(r, []int64{0, 10, -10}),
				PL: common.Pick(r, []int{1, 100, 70000}), Hex: hx(r.Bytes(common.Pick(r, []int{1, 2, 100, 4000, 65535})))}
			if c.N == 8 {
				c.Hex = hx(r.Bytes(common.Pick(r, []int{0, 1, 15, 16, 17, 58, 59, 60, 61, 200})))
			}
			return c
		},
		impl: func(c Case) string {
			ccc, _ := ss2022.NewClientCipherConfig(udpPSK, nil, false)
			srv := &respStreamClient{variant: c.N, tsOff: c.TsOff, body: c.bytes()}
			cfg := ss2022.StreamClientConfig{Name: "c", InnerClient: srv, Addr: conn.AddrFromIPPort(serverAP), CipherConfig: ccc, AllowSegmentedFixedLengthHeader: c.Flag}
			cc, err := cfg.NewStreamClient().DialStream(context.Background(), conn.AddrFromIPPort(serverAP), []byte("hello"))
			if err != nil {
				return "err dial"
			}
			defer cc.Close()
			buf := make([]byte, max(c.PL, 1))
			total := 0
			for k := 0; k < 70000; k++ {
				n, err := cc.Read(buf)
				total += n
				if err != nil {
					if total > 0 {
						return "ok read-then-err"
					}
					return "err read"
				}
			}
			return "ok"
		}})
}
