package main

// http-fwd: the HTTP proxy's plain-HTTP forwarding runs in goroutines started by the code under test
// (serverNonConnectPendingConn.Proceed), so a panic there cannot be recovered in-process: the cases run in a
// child process (this binary with C06_CHILD=httpfwd); if the child dies, the case it had started is the input.

import (
	"bufio"
	"bytes"
	"encoding/json"
	"fmt"
	"io"
	"os"
	"os/exec"
	"strings"
	"sync"
	"time"

	"ssvharness/internal/common"

	"github.com/database64128/shadowsocks-go/httpproxy"
	"github.com/database64128/shadowsocks-go/netio"
	"go.uber.org/zap"
)

type fwdCase struct {
	Client string `json:"client"` // hex: what the client sends (first request + pipelined ones)
	Origin string `json:"origin"` // hex: what the origin answers
	CC     []int  `json:"cc,omitempty"`
	OC     []int  `json:"oc,omitempty"`
}

func writeChunks(w io.Writer, b []byte, cs []int) {
	for _, n := range cs {
		if n > len(b) {
			n = len(b)
		}
		if n == 0 {
			continue
		}
		if _, err := w.Write(b[:n]); err != nil {
			return
		}
		b = b[n:]
	}
	if len(b) > 0 {
		w.Write(b)
	}
}

// runFwd plays one forwarding scenario to the end (everything closes by itself: no deadlines).
func runFwd(fc fwdCase) string {
	cl, sv := netio.NewPipe()
	var wg sync.WaitGroup
	wg.Add(2)
	go func() { defer wg.Done(); writeChunks(cl, mustHex(fc.Client), fc.CC); cl.CloseWrite() }()
	go func() { defer wg.Done(); io.Copy(io.Discard, cl) }()
	srv, _ := (&httpproxy.ServerConfig{}).NewProxyServer()
	req, err := srv.HandleStream(sv, zap.NewNop())
	if err != nil {
		sv.Close()
		cl.Close()
		wg.Wait()
		return "err handshake"
	}
	remote, err := req.PendingConn.Proceed()
	if err != nil {
		sv.Close()
		cl.Close()
		wg.Wait()
		return "err proceed"
	}
	wg.Add(2)
	go func() { defer wg.Done(); writeChunks(remote, mustHex(fc.Origin), fc.OC); remote.CloseWrite() }()
	go func() { defer wg.Done(); io.Copy(io.Discard, remote) }()
	wg.Wait()
	remote.Close()
	cl.Close()
	sv.Close()
	return "ok"
}

// childMain: one JSON case per stdin line; "start i" before, "done i <result>" after.
func childMain() {
	in := bufio.NewScanner(os.Stdin)
	in.Buffer(make([]byte, 1<<20), 1<<26)
	out := bufio.NewWriter(os.Stdout)
	i := 0
	for in.Scan() {
		var fc fwdCase
		if err := json.Unmarshal(in.Bytes(), &fc); err != nil {
			fmt.Fprintln(os.Stderr, "bad case:", err)
			os.Exit(4)
		}
		fmt.Fprintf(out, "start %d\n", i)
		out.Flush()
		done := make(chan string, 1)
		go func() { done <- runFwd(fc) }()
		select {
		case r := <-done:
			fmt.Fprintf(out, "done %d %s\n", i, r)
		case <-time.After(30 * time.Second): // safety net only; a scenario normally ends in microseconds
			fmt.Fprintf(out, "hang %d\n", i)
			out.Flush()
			os.Exit(5)
		}
		out.Flush()
		i++
	}
}

func genFwd(r *common.Rng) fwdCase {
	host := common.Pick(r, []string{"example.com", "example.com:8080", "1.2.3.4", "[::1]:80"})
	var cb strings.Builder
	nreq := common.Pick(r, []int{1, 1, 2, 3, 20})
	for k := 0; k < nreq; k++ {
		h := host
		if k > 0 && r.Chance(1, 6) {
			h = "other.test"
		}
		switch r.Intn(5) {
		case 0:
			fmt.Fprintf(&cb, "GET http://%s/a?b=%d HTTP/1.1\r\nHost: %s\r\n%s\r\n", h, k, h, common.Pick(r, []string{"", "Connection: close\r\n", "Connection: keep-alive, X-A, ,\r\nX-A: 1\r\n", "Upgrade: websocket\r\nConnection: Upgrade\r\n", "Expect: 100-continue\r\n"}))
		case 1:
			body := strings.Repeat("x", common.Pick(r, []int{0, 1, 5, 5000}))
			fmt.Fprintf(&cb, "POST http://%s/p HTTP/1.1\r\nHost: %s\r\nContent-Length: %d\r\n\r\n%s", h, h, len(body)+common.Pick(r, []int{0, 0, 0, 3}), body)
		case 2:
			fmt.Fprintf(&cb, "POST /c HTTP/1.1\r\nHost: %s\r\nTransfer-Encoding: chunked\r\nTrailer: X-T, Connection\r\n\r\n%s", h, common.Pick(r, []string{"3\r\nabc\r\n0\r\nX-T: 1\r\n\r\n", "3\r\nabc\r\n0\r\n\r\n", "zz\r\n", "ffffffffffffffffff\r\n", "3\r\nab"}))
		case 3:
			fmt.Fprintf(&cb, "CONNECT %s HTTP/1.1\r\nHost: %s\r\n\r\n", h, h)
		default:
			fmt.Fprintf(&cb, "HEAD / HTTP/1.0\r\nHost: %s\r\n\r\n", h)
		}
	}
	var ob strings.Builder
	for k := common.Pick(r, []int{0, 1, 1, 2, 3, 25}); k > 0; k-- {
		switch r.Intn(9) {
		case 0:
			ob.WriteString("HTTP/1.1 100 Continue\r\n\r\n")
		case 1:
			ob.WriteString("HTTP/1.1 101 Switching Protocols\r\nUpgrade: websocket\r\nConnection: Upgrade\r\n\r\n\x81\x00")
		case 2:
			fmt.Fprintf(&ob, "HTTP/1.1 %s\r\nLocation: %s\r\nContent-Length: 0\r\n\r\n", common.Pick(r, []string{"301 Moved", "302 Found", "307 T"}), common.Pick(r, []string{"http://" + host + "/x", "http://evil.test/", "/rel", "%zz", "http://[::1", ""}))
			if r.Chance(1, 3) { // a redirect without (or with two) Location fields
				ob.Reset()
				fmt.Fprintf(&ob, "HTTP/1.1 %s\r\n%sContent-Length: 0\r\n\r\n", common.Pick(r, []string{"301 Moved", "302 Found", "307 T"}), common.Pick(r, []string{"", "Location: /a\r\nLocation: /b\r\n"}))
			}
		case 3:
			ob.WriteString("HTTP/1.1 200 OK\r\nTransfer-Encoding: chunked\r\nTrailer: X-T\r\n\r\n5\r\nhello\r\n0\r\nX-T: v\r\n\r\n")
		case 4:
			fmt.Fprintf(&ob, "HTTP/1.1 200 OK\r\nContent-Length: %s\r\n\r\nhello", common.Pick(r, []string{"5", "4", "6", "500", "-1", "x", "99999999999999999999"}))
		case 5:
			ob.WriteString("HTTP/1.1 204 No Content\r\nConnection: close, X-B\r\nX-B: 1\r\nKeep-Alive: timeout=5\r\n\r\n")
		case 6:
			ob.WriteString(common.Pick(r, []string{"HTTP/1.1 200\r\n\r\n", "HTTP/9.9 200 OK\r\n\r\n", "HTTP/1.1 000 x\r\n\r\n", "HTTP/1.1 1xx\r\n\r\n", "garbage\r\n\r\n", "HTTP/1.1 200 OK\r\n: v\r\n\r\n", "HTTP/1.1 200 OK\r\nContent-Length: 3\r\nContent-Length: 4\r\n\r\nabcd", "HTTP/1.1 304 Not Modified\r\nContent-Length: 10\r\n\r\n"}))
		default:
			ob.WriteString("HTTP/1.1 200 OK\r\nContent-Length: 2\r\n\r\nok")
		}
	}
	c, o := []byte(cb.String()), []byte(ob.String())
	if r.Chance(1, 5) {
		c = mutate(r, c)
	}
	if r.Chance(1, 4) {
		o = mutate(r, o)
	}
	return fwdCase{Client: hx(c), Origin: hx(o), CC: chunks(r, len(c)), OC: chunks(r, len(o))}
}

// runHTTPFwd runs n generated scenarios in child processes; a dead child names its last started case.
func runHTTPFwd(o *common.Options, rep *common.Report, r *common.Rng, n int) {
	self, err := os.Executable()
	if err != nil {
		rep.Note("http-fwd: %v", err)
		return
	}
	cases := make([]fwdCase, n)
	for i := range cases {
		cases[i] = genFwd(r.Fork(uint64(i)))
	}
	for len(cases) > 0 {
		var in bytes.Buffer
		for _, c := range cases {
			b, _ := json.Marshal(c)
			in.Write(b)
			in.WriteByte('\n')
		}
		cmd := exec.Command(self)
		cmd.Env = append(os.Environ(), "C06_CHILD=httpfwd")
		cmd.Stdin = &in
		var out, errb bytes.Buffer
		cmd.Stdout, cmd.Stderr = &out, &errb
		runErr := cmd.Run()
		started, finished := -1, 0
		for _, l := range strings.Split(out.String(), "\n") {
			var i int
			var res string
			if k, _ := fmt.Sscanf(l, "start %d", &i); k == 1 {
				started = i
			} else if k, _ := fmt.Sscanf(l, "done %d %s", &i, &res); k >= 1 {
				finished = i + 1
				rep.Case("http-fwd|"+cases[i].Client+"|"+cases[i].Origin, true)
				rep.Count("http-fwd:" + strings.Fields(l)[2])
			}
		}
		if runErr == nil {
			return
		}
		if started < 0 || started >= len(cases) {
			rep.Note("http-fwd child failed before the first case: %v %s", runErr, tail(errb.String(), 300))
			return
		}
		culprit := cases[started]
		st := errb.String()
		switch {
		case strings.Contains(st, "panic:") || strings.Contains(st, "fatal error:"):
			rep.Case("http-fwd|"+culprit.Client+"|"+culprit.Origin, false)
			rep.Fail(common.OracleFailure{Engine: "http-fwd", Key: "panic:http-fwd@" + panicSite(st), Case: Case{Entry: "http-fwd", Pre: true, Hex: culprit.Client, Salt: culprit.Origin, Chunks: culprit.CC},
				Detail: "the HTTP proxy forwarding goroutines crashed the process: " + tail(firstLines(st, 12), 900)})
		default:
			rep.Note("http-fwd case %d did not finish (%v): client=%s origin=%s", started, runErr, culprit.Client[:min(80, len(culprit.Client))], culprit.Origin[:min(80, len(culprit.Origin))])
		}
		_ = finished
		cases = cases[started+1:]
	}
}

func tail(s string, n int) string {
	if len(s) > n {
		return s[len(s)-n:]
	}
	return s
}

func firstLines(s string, n int) string {
	ls := strings.Split(s, "\n")
	if len(ls) > n {
		ls = ls[:n]
	}
	return strings.Join(ls, " | ")
}

// replay entry: one scenario in its own child process
func init() {
	register(engine{name: "http-fwd", share: 0,
		gen: func(r *common.Rng, i int) Case { return Case{Entry: "http-fwd"} },
		impl: func(c Case) string {
			self, err := os.Executable()
			if err != nil {
				return "err child"
			}
			b, _ := json.Marshal(fwdCase{Client: c.Hex, Origin: c.Salt, CC: c.Chunks})
			cmd := exec.Command(self)
			cmd.Env = append(os.Environ(), "C06_CHILD=httpfwd")
			cmd.Stdin = bytes.NewReader(append(b, '\n'))
			var out, errb bytes.Buffer
			cmd.Stdout, cmd.Stderr = &out, &errb
			if err := cmd.Run(); err != nil {
				if st := errb.String(); strings.Contains(st, "panic:") || strings.Contains(st, "fatal error:") {
					return "child-crashed " + panicSite(st)
				}
				return "err child-" + err.Error()
			}
			return "ok"
		}})
}
