// corr_c13: correspondence + property oracle for C13 (TCP relay: routed destination, initial payload once, failure reply,
// mirrored half-closes, exact statistics).
//
// Engine "tcprelay": every case builds a fresh relay from a JSON service.Config (server protocol x client protocol, shortened
// initialPayloadWaitTimeout, API enabled for the statistics), runs one scripted session through it on loopback (harness client
// speaking the server protocol; harness target, or a harness-side proxy server terminating the relay's client protocol), and
// compares what was seen at the sockets (reply, dialed address, DialStream payload where the protocol shows it, both byte
// streams, EOFs, statistics) with the projection of the Lean model's action list (ssv_c13) and with the property oracle.
// Real time: outcomes that depend on the wait deadline are accepted if they match the model under one of the admissible
// wait-read outcomes; the only timing assertion is a lower bound (a relay that must wait out the timeout cannot dial earlier).
package main

import (
	"fmt"
	"os"
	"strings"
	"sync"
	"time"

	"ssvharness/internal/common"
)

var servers = []string{"direct", "none", "socks5", "socks5auth", "http", "httpauth", "ss2022", "ss2022mu"}

func isSS(server string) bool { return server == "ss2022" || server == "ss2022mu" }
var clients = []string{"direct", "directtfo", "socks5", "http", "none", "ss2022"}

func chained(c string) bool { return c != "direct" && c != "directtfo" }

func genScenario(r *common.Rng, ev *env, idx int) Scenario {
	sc := Scenario{CSeed: r.U64(), TSeed: r.U64()}
	// the first cases walk through the pairs named in the design, then all pairs, then random ones
	switch {
	case idx < 3:
		sc.Server, sc.Client = []string{"socks5", "ss2022", "http"}[idx], "direct"
	case idx < 3+len(servers)*len(clients):
		k := idx - 3
		sc.Server, sc.Client = servers[k%len(servers)], clients[k/len(servers)]
	default:
		sc.Server, sc.Client = common.Pick(r, servers), common.Pick(r, clients)
	}
	sc.WaitMs = common.Pick(r, []int{50, 60, 80, 100})
	sc.Buf = common.Pick(r, []int{0, 0, 0, 0, 1, 16, 100, 1440, 4096})
	sc.DisableWait = r.Chance(1, 8)
	sc.DomainAddr = r.Bool()
	sc.GapMs = common.Pick(r, []int{0, 0, 1, 3})
	if isSS(sc.Server) {
		sc.ReqLen = common.Pick(r, []int{0, 0, 1, 100, 1400, 5000, 70000})
	}
	buf := sc.Buf
	if buf == 0 {
		buf = 1440
	}
	if (sc.Server == "http" || sc.Server == "httpauth") && r.Chance(1, 2) {
		// plain-HTTP proxying (non-CONNECT) through the relay
		sc.Plain = true
		sc.Timing, sc.CloseFirst = "early", "client"
		sc.FirstLen = common.Pick(r, []int{0, 1, 100, buf, 5000, 70000})
		sc.TargetLens = []int{common.Pick(r, []int{0, 1, 1000, 50000})}
		if r.Chance(1, 5) {
			if chained(sc.Client) {
				sc.Fail = common.Pick(r, []string{"refused", "reject"})
			} else {
				sc.Fail = common.Pick(r, []string{"refused", "reject", "dns"})
			}
		}
		return sc
	}
	if r.Chance(1, 4) {
		var kinds []string
		if chained(sc.Client) {
			kinds = []string{"refused", "reject"}
			if sc.Client == "socks5" || sc.Client == "http" {
				kinds = append(kinds, "upstream", "upstream")
			}
		} else {
			kinds = []string{"refused", "reject", "dns"}
			if ev.unreachOK {
				kinds = append(kinds, "unreach")
			}
		}
		sc.Fail = common.Pick(r, kinds)
		if sc.Fail == "upstream" {
			sc.UpCode = common.Pick(r, []int{111, 101, 113, 13, 255, 254})
		}
		sc.Timing = "never"
		sc.CloseFirst = "target"
		if r.Chance(1, 3) {
			sc.Timing = "early"
			sc.FirstLen = common.Pick(r, []int{1, 20, 100})
		}
		return sc
	}
	timings := []string{"early", "early", "near", "late", "never", "eofdata", "eofempty"}
	if coalescable(sc.Server) {
		timings = append(timings, "coalesced", "coalesced")
	}
	sc.Timing = common.Pick(r, timings)
	switch sc.Timing {
	case "never", "eofempty":
	default:
		sc.FirstLen = common.Pick(r, []int{1, 10, 100, buf - 1, buf, buf + 1, 2*buf + 7, 3000, 20000})
		if sc.FirstLen <= 0 {
			sc.FirstLen = 1
		}
	}
	sizes := []int{1, 100, 1000, 5000, 40000}
	for n := r.Intn(4); n > 0; n-- {
		sc.ClientLens = append(sc.ClientLens, common.Pick(r, sizes))
	}
	for n := r.Intn(4); n > 0; n-- {
		sc.TargetLens = append(sc.TargetLens, common.Pick(r, sizes))
	}
	sc.TargetFirst = r.Chance(1, 3)
	sc.CloseFirst = common.Pick(r, []string{"client", "target"})
	sc.PostEOFLen = common.Pick(r, []int{0, 1, 500, 9000})
	switch sc.Timing {
	case "never":
		sc.TargetFirst = true
	case "eofdata", "eofempty":
		sc.ClientLens = nil
		sc.CloseFirst = "client"
	}
	if (sc.Timing == "never" || isSS(sc.Server) || sc.Client == "ss2022") && len(sc.TargetLens) == 0 {
		// a Shadowsocks 2022 response needs a first byte to carry its header; a server-speaks-first target needs something to say
		sc.TargetLens = []int{common.Pick(r, sizes)}
	}
	if sc.clientTotal() == 0 && !sc.TargetFirst {
		sc.CloseFirst = "client"
	}
	// every fifth success scenario ends with a copy error after data was relayed
	if r.Chance(1, 4) && sc.Timing != "eofdata" && sc.Timing != "eofempty" {
		kinds := []string{"target", "target", "wclosed"}
		if !isSS(sc.Server) { // the harness needs the raw socket of its client connection to abort it
			kinds = append(kinds, "client", "client")
		}
		sc.Reset = common.Pick(r, kinds)
		switch sc.Reset {
		case "target":
			sc.CloseFirst, sc.PostEOFLen = "target", 0
		case "client":
			sc.CloseFirst, sc.PostEOFLen = "client", 0
		case "wclosed":
			sc.CloseFirst, sc.PostEOFLen = "target", common.Pick(r, []int{2, 2000, 80000, 300000})
		}
		if len(sc.TargetLens) == 0 {
			sc.TargetLens = []int{common.Pick(r, sizes)}
		}
		if sc.clientTotal()-sc.PostEOFLen == 0 {
			sc.FirstLen, sc.Timing = 100, "early"
		}
		if sc.Timing == "never" {
			sc.TargetFirst = true
		}
	}
	return sc
}

func sig(sc *Scenario) string {
	return fmt.Sprintf("%s>%s dis=%v buf=%d req=%d %s first=%d c=%v t=%v tf=%v close=%s post=%d fail=%s/%d reset=%s plain=%v", sc.Server, sc.Client, sc.DisableWait, sc.Buf,
		sc.ReqLen, sc.Timing, sc.FirstLen, sc.ClientLens, sc.TargetLens, sc.TargetFirst, sc.CloseFirst, sc.PostEOFLen, sc.Fail, sc.UpCode, sc.Reset, sc.Plain)
}

type result struct {
	envSkip string
	sc      Scenario
	obs     Obs
	err     error
	modelOK bool
	diff    string
	trace   string
	line    string
	waited  bool
	vs      []verdict
	tries   int
}

func infraTrouble(o *Obs, err error) bool {
	if err != nil {
		return true
	}
	for _, e := range o.Errors {
		if strings.Contains(e, "timeout") || strings.Contains(e, "stats:") || strings.Contains(e, "did not finish") {
			return true
		}
	}
	return false
}

type modelClient struct {
	mu sync.Mutex
	d  *common.Driver
	tb *tables
}

func (m *modelClient) ask(line string) (string, error) {
	m.mu.Lock()
	defer m.mu.Unlock()
	return m.d.Ask(line)
}

func evalOne(sc Scenario, ev *env, m *modelClient) result {
	res := result{sc: sc}
	if sc.Fail == "unreach" && !unreachNow() {
		res.envSkip = "unreach"
		return res
	}
	for res.tries = 1; ; res.tries++ {
		if sc.Plain {
			res.obs, res.vs, res.err = runPlainHTTP(&sc, ev)
		} else {
			res.obs, res.err = runScenario(&sc, ev)
		}
		// a session that ran into the harness's own time limit, or a relay that did not come up, is retried once:
		// the sandbox is shared with other builders
		if !infraTrouble(&res.obs, res.err) || res.tries == 2 {
			break
		}
	}
	if res.err != nil {
		return res
	}
	if sc.Fail == "unreach" && !unreachNow() {
		res.envSkip = "unreach"
		return res
	}
	if !sc.Plain {
		res.vs = oracle(&sc, &res.obs)
	}
	if sc.Plain && sc.Fail == "" && !res.obs.Dialed {
		res.modelOK = true // nothing to compare: the oracle has reported it
		return res
	}
	if m == nil {
		res.modelOK = true
		return res
	}
	buf := sc.Buf
	if buf == 0 {
		buf = m.tb.defaultBuf
	}
	target := sc.targetAddrFor(res.obs.DialAddr)
	if !res.obs.Dialed && !chained(sc.Client) && sc.Fail == "" {
		target = "?"
	}
	var diffs []string
	for _, w := range sc.waitChoices(buf, &res.obs) {
		line := sc.hcLine(m.tb, target, w, sc.schedFor(&res.obs))
		tr, err := m.ask(line)
		if err != nil {
			res.err = err
			return res
		}
		p, err := project(&sc, tr)
		if err != nil {
			res.err = err
			return res
		}
		res.line, res.trace, res.waited = line, tr, p.Waited
		d := compare(&sc, &p, &res.obs)
		if d == "" && p.Waited && w.kind == "t" && res.obs.Dialed && sc.Fail == "" && res.obs.DialAfterRequestMs < sc.WaitMs-2 {
			d = fmt.Sprintf("the model waits out the %d ms timeout before dialing, the target was dialed %d ms after the request was sent", sc.WaitMs, res.obs.DialAfterRequestMs)
		}
		if d == "" {
			res.modelOK = true
			return res
		}
		diffs = append(diffs, fmt.Sprintf("[wait read %s/%d] %s", w.kind, w.n, d))
	}
	res.diff = strings.Join(diffs, " | ")
	return res
}

func record(rep *common.Report, res *result) {
	sc := &res.sc
	if res.envSkip != "" {
		// the fault this scenario injects is not what the environment does right now: nothing is evaluated
		rep.Case(sig(sc), false)
		rep.Count("env-skip:" + res.envSkip)
		return
	}
	nontrivial := res.err == nil && (sc.Fail != "" || res.obs.TargetRxLen+res.obs.ClientRxLen > 0)
	rep.Case(sig(sc), nontrivial)
	rep.Count("pair:" + sc.Server + ">" + sc.Client)
	rep.Count("timing:" + sc.Timing)
	if sc.Plain {
		rep.Count("http:plain")
	}
	if sc.Fail != "" {
		rep.Count("fail:" + sc.Fail)
	} else if sc.Reset != "" {
		rep.Count("ending:error-" + sc.Reset)
	} else {
		rep.Count("close-first:" + sc.CloseFirst)
	}
	if res.waited {
		rep.Count("model:waited")
	} else {
		rep.Count("model:no-wait")
	}
	if res.tries > 1 {
		rep.Count("retried")
	}
	rep.Sample(map[string]any{"case": sc, "obs": res.obs, "model": res.trace[:min(len(res.trace), 200)]})
	if res.err != nil {
		rep.Diverge(common.Divergence{Engine: "tcprelay", Case: sc, Impl: res.err.Error(), Model: "", Note: "the session could not be run"})
		return
	}
	if !res.modelOK {
		rep.Diverge(common.Divergence{Engine: "tcprelay", Case: sc, Impl: res.obs, Model: res.trace[:min(len(res.trace), 400)], Note: res.diff})
	}
	for _, v := range res.vs {
		rep.Fail(common.OracleFailure{Engine: "tcprelay", Key: v.key, Case: sc, Detail: v.detail})
	}
	rep.TracesValidated++
}

func main() {
	o := common.ParseFlags()
	rep := common.NewReport("C13", o)
	rep.Engines = []string{"tcprelay"}
	rep.Rule = "engine tcprelay: one scripted session per case through a fresh relay built from a JSON service.Config on loopback; " +
		"server protocols {direct, none, socks5, socks5+auth, http CONNECT, http+auth, ss2022, ss2022 multi-user (uPSK store, identity header)} x client protocols {direct, direct+TFO, socks5, http, none, ss2022} " +
		"(proxy clients terminated by harness-side servers); initialPayloadWaitTimeout 50-100 ms, wait buffer {default,1,16,100,1440,4096}; " +
		"client timing {early, coalesced with the request, at the deadline, late, never (server speaks first), EOF with data, EOF without}; first-write sizes around the buffer size; " +
		"either side closes first and the other keeps writing after it saw the EOF; one success scenario in four ends with a copy ERROR after data was relayed " +
		"(target aborts with RST once both sides hold everything, client aborts with RST, target closes its socket and the client keeps writing); failures {refused, unreachable, name lookup, router reject, upstream proxy failure}; " +
		"a case is non-trivial if bytes flowed or a failure was injected; distinct by the whole scenario"
	ev, stopEnv, err := probeEnv()
	if err != nil {
		fmt.Fprintln(os.Stderr, "corr_c13:", err)
		os.Exit(3)
	}
	defer stopEnv()
	if !ev.unreachOK {
		rep.Note("a connect to %s does not fail at once with ENETUNREACH here: the unreachable-network scenarios are skipped", unreachAddr)
	}
	newModel := func() (*modelClient, error) {
		if o.Driver == "" {
			return nil, nil
		}
		d, err := common.StartDriver(o.Driver)
		if err != nil {
			return nil, err
		}
		tb, err := loadTables(d)
		if err != nil {
			d.Close()
			return nil, err
		}
		return &modelClient{d: d, tb: tb}, nil
	}
	m, err := newModel()
	if err != nil {
		fmt.Fprintln(os.Stderr, "corr_c13:", err)
		rep.Note("engine error: %v", err)
		rep.Write(o.Out)
		os.Exit(3)
	}
	if m == nil {
		rep.Note("no driver: oracle only")
	} else {
		defer m.d.Close()
	}

	if o.Replay != "" && replayIsHookCase(o.Replay) {
		if err := runHookEngine(o, rep, newModel); err != nil {
			fmt.Fprintln(os.Stderr, "corr_c13:", err)
			rep.Note("engine error: %v", err)
			rep.Write(o.Out)
			os.Exit(3)
		}
	} else if o.Replay != "" {
		var sc Scenario
		if err := common.LoadReplay(o.Replay, &sc); err != nil {
			fmt.Fprintln(os.Stderr, "corr_c13:", err)
			os.Exit(3)
		}
		res := evalOne(sc, ev, m)
		record(rep, &res)
	} else {
		n := o.Budget(150, 2000)
		workers := 8
		if o.Thorough() {
			workers = 12
		}
		r := common.NewRng(o.Seed)
		jobs := make(chan int)
		results := make([]result, n)
		var wg sync.WaitGroup
		start := time.Now()
		for w := 0; w < workers; w++ {
			wg.Go(func() {
				// one model process per worker: the big byte streams make a driver call take up to ~0.2 s
				wm, err := newModel()
				if err != nil {
					wm = m
				} else if wm != nil {
					defer wm.d.Close()
				}
				for i := range jobs {
					results[i] = evalOne(genScenario(r.Fork(uint64(i)), ev, i), ev, wm)
				}
			})
		}
		for i := 0; i < n; i++ {
			jobs <- i
		}
		close(jobs)
		wg.Wait()
		for i := range results {
			record(rep, &results[i])
		}
		rep.Note("%d sessions in %.1f s on %d workers", n, time.Since(start).Seconds(), workers)
		if err := runHookEngine(o, rep, newModel); err != nil {
			fmt.Fprintln(os.Stderr, "corr_c13:", err)
			rep.Note("engine error: %v", err)
			rep.Write(o.Out)
			os.Exit(3)
		}
	}
	if err := rep.Write(o.Out); err != nil {
		fmt.Fprintln(os.Stderr, err)
		os.Exit(3)
	}
}

// replayIsHookCase: replay files of the handleconn engine carry a `wait_kind` member.
func replayIsHookCase(path string) bool {
	var probe struct {
		WaitKind string `json:"wait_kind"`
	}
	return common.LoadReplay(path, &probe) == nil && probe.WaitKind != ""
}
