package main

// One relay session end to end on loopback: service.Config (JSON) -> Manager -> Run; a scripted harness client talks to the
// relay's server protocol, a scripted harness target (or a harness-side proxy server terminating the relay's client protocol)
// sits behind it. Everything observable at the sockets, plus the stats of the API, is returned as an Obs.

import (
	"bytes"
	"context"
	"encoding/base64"
	"encoding/binary"
	"encoding/json"
	"errors"
	"fmt"
	"io"
	"net"
	"net/http"
	"net/netip"
	"os"
	"strconv"
	"sync"
	"syscall"
	"time"

	"github.com/database64128/shadowsocks-go/conn"
	"github.com/database64128/shadowsocks-go/httpproxy"
	"github.com/database64128/shadowsocks-go/netio"
	"github.com/database64128/shadowsocks-go/service"
	"github.com/database64128/shadowsocks-go/socks5"
	"github.com/database64128/shadowsocks-go/ss2022"
	"github.com/database64128/shadowsocks-go/ssnone"
	"go.uber.org/zap"
	"go.uber.org/zap/zapcore"
	"go.uber.org/zap/zaptest/observer"
)

type Scenario struct {
	Server      string `json:"server"` // direct none socks5 socks5auth http httpauth ss2022
	Client      string `json:"client"` // direct directtfo socks5 http none ss2022
	DisableWait bool   `json:"disable_wait,omitempty"`
	WaitMs      int    `json:"wait_ms"`
	Buf         int    `json:"buf,omitempty"` // 0 = the default
	CSeed       uint64 `json:"cseed"`
	TSeed       uint64 `json:"tseed"`
	ReqLen      int    `json:"req_len,omitempty"` // payload inside the request (ss2022 server only)
	Timing      string `json:"timing"`            // early coalesced near late never eofdata eofempty
	FirstLen    int    `json:"first_len,omitempty"`
	ClientLens  []int  `json:"client_lens,omitempty"`
	TargetLens  []int  `json:"target_lens,omitempty"`
	TargetFirst bool   `json:"target_first,omitempty"`
	CloseFirst  string `json:"close_first"` // client | target
	PostEOFLen  int    `json:"post_eof_len,omitempty"`
	GapMs       int    `json:"gap_ms,omitempty"`
	Fail        string `json:"fail,omitempty"` // refused unreach dns reject upstream
	UpCode      int    `json:"up_code,omitempty"`
	DomainAddr  bool   `json:"domain_addr,omitempty"` // chained clients: ask for a domain-name target
	// Reset: the session ends with a copy error after it has relayed data.
	//   target : once both peers hold everything the other sent, the target aborts its connection (SO_LINGER 0 + Close => RST)
	//   client : the same, the client aborts
	//   wclosed: the target closes its socket completely after its last byte; the client then keeps writing (two bursts)
	Reset string `json:"reset,omitempty"`
	// Plain: server http / httpauth only: one plain-HTTP POST (non-CONNECT) with a FirstLen-byte body; the target answers with
	// a sum(TargetLens)-byte body
	Plain bool `json:"plain,omitempty"`

	plainCS, plainTS []byte // filled by the run: what the request forwarder handed to the relay / what the target wrote
}

// stream returns n bytes of the position-dependent pseudo-random stream `seed` starting at offset off.
func stream(seed uint64, off, n int) []byte {
	b := make([]byte, n)
	for i := range b {
		p := uint64(off + i)
		z := seed + (p/8+1)*0x9e3779b97f4a7c15
		z = (z ^ (z >> 30)) * 0xbf58476d1ce4e5b9
		z = (z ^ (z >> 27)) * 0x94d049bb133111eb
		z ^= z >> 31
		b[i] = byte(z >> (8 * (p % 8)))
	}
	return b
}

func sum(xs []int) int {
	t := 0
	for _, x := range xs {
		t += x
	}
	return t
}

// clientTotal: all bytes the client sends after its request head, request payload included.
func (sc *Scenario) clientTotal() int {
	t := sc.ReqLen + sc.FirstLen + sum(sc.ClientLens)
	if sc.CloseFirst == "target" {
		t += sc.PostEOFLen
	}
	return t
}

func (sc *Scenario) targetTotal() int {
	t := sum(sc.TargetLens)
	if sc.CloseFirst == "client" {
		t += sc.PostEOFLen
	}
	return t
}

type Stats struct {
	Sessions uint64 `json:"sessions"`
	Down     uint64 `json:"down"`
	Up       uint64 `json:"up"`
	User     string `json:"user"`
	Others   string `json:"others,omitempty"` // anything counted anywhere else (packets, UDP, other users)
}

type Obs struct {
	Reply       string `json:"reply"` // ok | fail:<n> | none | n/a
	Dialed      bool   `json:"dialed"`
	DialAddr    string `json:"dial_addr,omitempty"`
	HavePayload bool   `json:"have_payload,omitempty"` // the upstream protocol exposes DialStream's payload (ss2022)
	DialPayload []byte `json:"dial_payload,omitempty"`
	TargetRx    []byte `json:"-"`
	TargetRxLen int    `json:"target_rx_len"`
	TargetEOF   bool   `json:"target_eof"`
	ClientRx    []byte `json:"-"`
	ClientRxLen int    `json:"client_rx_len"`
	ClientEOF   bool   `json:"client_eof"`
	// half-close evidence: the peer's EOF was seen while our own write side was still open, and what we wrote afterwards arrived
	SawPeerEOFBeforeOwnClose string   `json:"half_close_seen_by,omitempty"`
	DialAfterRequestMs       int      `json:"dial_after_request_ms"` // accept time at the target minus the time just before the client sent its request
	Stats                    Stats    `json:"stats"`
	ClientSent               int      `json:"client_sent"` // bytes the harness client wrote after its request head (request payload included)
	TargetSent               int      `json:"target_sent"`
	Errors                   []string `json:"errors,omitempty"`
}

type env struct {
	unreachOK bool // a connect to unreachAddr fails at once with ENETUNREACH in this sandbox
	dnsAddr   string
}

const (
	ssPSK        = "QzEzLXBzay1DMTMtcHNrIQ==" // 16 bytes
	daveUPSK     = "ZGF2ZS1kYXZlLWRhdmUtMQ==" // "dave-dave-dave-1"
	erinUPSK     = "ZXJpbi1lcmluLWVyaW4tMg=="
	unreachAddr  = "255.255.255.255:80" // TCP connect to a broadcast address: the kernel itself answers ENETUNREACH (tcp_v4_connect), no routing involved
	refusedAddr  = "127.0.0.1:1"
	rejectDomain = "rejected.c13.test"
	nxDomain     = "nx.c13.invalid"
	sessionLimit = 20 * time.Second
)

func pskBytes() []byte {
	b, _ := base64.StdEncoding.DecodeString(ssPSK)
	return b
}

// ---------- the relay under test ----------

type relay struct {
	cancel  context.CancelFunc
	done    chan struct{}
	mgr     *service.Manager
	addr    string
	apiAddr string
	logs    *observer.ObservedLogs
}

func (sc *Scenario) targetAddrFor(targetListen string) string {
	switch sc.Fail {
	case "refused":
		if sc.Client == "direct" || sc.Client == "directtfo" {
			return refusedAddr
		}
	case "unreach":
		return unreachAddr
	case "dns":
		return nxDomain + ":80"
	case "reject":
		return rejectDomain + ":443"
	}
	if sc.Client == "direct" || sc.Client == "directtfo" {
		return targetListen
	}
	if sc.DomainAddr {
		return "target.c13.test:4430"
	}
	return "198.51.100.7:4431"
}

func startRelay(sc *Scenario, targetListen string, ev *env) (*relay, error) {
	storePath := ""
	defer func() {
		if storePath != "" {
			os.Remove(storePath) // loaded at Manager construction time
		}
	}()
	target := sc.targetAddrFor(targetListen)
	ln := map[string]any{"network": "tcp", "address": "127.0.0.1:0", "initialPayloadWaitTimeout": fmt.Sprintf("%dms", sc.WaitMs)}
	if sc.Buf != 0 {
		ln["initialPayloadWaitBufferSize"] = sc.Buf
	}
	if sc.DisableWait {
		ln["disableInitialPayloadWait"] = true
	}
	srv := map[string]any{"name": "s", "tcpListeners": []any{ln}}
	switch sc.Server {
	case "direct":
		srv["protocol"] = "direct"
		srv["tunnelRemoteAddress"] = target
	case "none":
		srv["protocol"] = "none"
	case "socks5":
		srv["protocol"] = "socks5"
	case "socks5auth":
		srv["protocol"] = "socks5"
		srv["socks5"] = map[string]any{"enableUserPassAuth": true, "users": []any{map[string]any{"username": "alice", "password": "wonder"}}}
	case "http":
		srv["protocol"] = "http"
	case "httpauth":
		srv["protocol"] = "http"
		srv["http"] = map[string]any{"enableBasicAuth": true, "users": []any{map[string]any{"username": "bob", "password": "builder"}}}
	case "ss2022":
		srv["protocol"] = "2022-blake3-aes-128-gcm"
		srv["psk"] = ssPSK
	case "ss2022mu":
		// multi-user: the server's psk is the identity key, users live in the uPSK store file
		f, err := os.CreateTemp("", "c13-upsk-*.json")
		if err != nil {
			return nil, err
		}
		storePath = f.Name()
		fmt.Fprintf(f, `{"dave": %q, "erin": %q}`, daveUPSK, erinUPSK)
		f.Close()
		srv["protocol"] = "2022-blake3-aes-128-gcm"
		srv["psk"] = ssPSK
		srv["uPSKStorePath"] = storePath
	default:
		return nil, fmt.Errorf("unknown server protocol %q", sc.Server)
	}
	cl := map[string]any{"name": "c", "enableTCP": true}
	upstream := targetListen
	if sc.Fail == "refused" {
		upstream = refusedAddr
	}
	switch sc.Client {
	case "direct":
		cl["protocol"] = "direct"
	case "directtfo":
		cl["protocol"] = "direct"
		cl["dialerTFO"] = true
	case "socks5", "http", "none":
		cl["protocol"] = sc.Client
		cl["endpoint"] = upstream
	case "ss2022":
		cl["protocol"] = "2022-blake3-aes-128-gcm"
		cl["endpoint"] = upstream
		cl["psk"] = ssPSK
	default:
		return nil, fmt.Errorf("unknown client protocol %q", sc.Client)
	}
	if sc.Fail == "dns" {
		cl["overrideResolverDialAddress"] = ev.dnsAddr
	}
	cfgJSON := map[string]any{
		"servers": []any{srv},
		"clients": []any{cl},
		"router": map[string]any{"routes": []any{
			map[string]any{"name": "rej", "client": "reject", "toDomains": []any{rejectDomain}},
		}},
		"api": map[string]any{"enabled": true, "listeners": []any{map[string]any{"network": "tcp", "address": "127.0.0.1:0"}}},
	}
	raw, _ := json.Marshal(cfgJSON)
	var cfg service.Config
	dec := json.NewDecoder(bytes.NewReader(raw))
	dec.DisallowUnknownFields()
	if err := dec.Decode(&cfg); err != nil {
		return nil, fmt.Errorf("config: %w", err)
	}
	core, logs := observer.New(zapcore.DebugLevel)
	logger := zap.New(core)
	mgr, err := cfg.Manager(logger)
	if err != nil {
		return nil, fmt.Errorf("manager: %w", err)
	}
	ctx, cancel := context.WithCancel(context.Background())
	r := &relay{cancel: cancel, done: make(chan struct{}), mgr: mgr, logs: logs}
	go func() {
		mgr.Run(ctx)
		mgr.Close()
		close(r.done)
	}()
	deadline := time.Now().Add(5 * time.Second)
	for r.addr == "" || r.apiAddr == "" {
		for _, e := range logs.All() {
			switch e.Message {
			case "Started TCP relay service listener":
				if v, ok := e.ContextMap()["listenAddress"].(string); ok {
					r.addr = v
				}
			case "Started API server listener":
				if v, ok := e.ContextMap()["listenAddress"].(string); ok {
					r.apiAddr = v
				}
			case "Failed to start service":
				r.stop()
				return nil, fmt.Errorf("service failed to start: %v", e.ContextMap())
			}
		}
		if time.Now().After(deadline) {
			r.stop()
			return nil, errors.New("relay did not start in 5 s")
		}
		if r.addr == "" || r.apiAddr == "" {
			time.Sleep(2 * time.Millisecond)
		}
	}
	return r, nil
}

func (r *relay) stop() {
	r.cancel()
	select {
	case <-r.done:
	case <-time.After(5 * time.Second):
	}
}

var apiClient = &http.Client{Timeout: 3 * time.Second, Transport: &http.Transport{DisableKeepAlives: true}}

func (r *relay) stats() (Stats, error) {
	resp, err := apiClient.Get("http://" + r.apiAddr + "/api/ssm/v1/servers/s/stats")
	if err != nil {
		return Stats{}, err
	}
	defer resp.Body.Close()
	var v struct {
		DownlinkPackets uint64 `json:"downlinkPackets"`
		DownlinkBytes   uint64 `json:"downlinkBytes"`
		UplinkPackets   uint64 `json:"uplinkPackets"`
		UplinkBytes     uint64 `json:"uplinkBytes"`
		TCPSessions     uint64 `json:"tcpSessions"`
		UDPSessions     uint64 `json:"udpSessions"`
		Users           []struct {
			Name          string `json:"username"`
			DownlinkBytes uint64 `json:"downlinkBytes"`
			UplinkBytes   uint64 `json:"uplinkBytes"`
			TCPSessions   uint64 `json:"tcpSessions"`
		} `json:"users"`
	}
	if err := json.NewDecoder(resp.Body).Decode(&v); err != nil {
		return Stats{}, err
	}
	st := Stats{Sessions: v.TCPSessions, Down: v.DownlinkBytes, Up: v.UplinkBytes}
	if v.DownlinkPackets != 0 || v.UplinkPackets != 0 || v.UDPSessions != 0 {
		st.Others = "packets/udp counted"
	}
	var userSess, userDown, userUp uint64
	for _, u := range v.Users {
		if u.TCPSessions == 0 && u.DownlinkBytes == 0 && u.UplinkBytes == 0 {
			continue
		}
		if st.User != "" {
			st.Others += " several users"
		}
		st.User = u.Name
		userSess, userDown, userUp = u.TCPSessions, u.DownlinkBytes, u.UplinkBytes
	}
	if st.User != "" && (userSess != st.Sessions || userDown != st.Down || userUp != st.Up) {
		st.Others += " server totals differ from the only user's"
	}
	return st, nil
}

// ---------- harness target / upstream ----------

type targetSide struct {
	clientGotAll chan struct{}
	targetGotAll chan struct{}
	ln      *net.TCPListener
	sc      *Scenario
	mu      sync.Mutex
	obs     *Obs
	acceptT time.Time
	done    chan struct{}
}

type halfConn interface {
	io.ReadWriter
	CloseWrite() error
	Close() error
}

// peer runs one side's script on an established stream and reports what it received.
type peerScript struct {
	first      []byte   // written at once (nil: nothing)
	waitForRx  bool     // hold the remaining chunks until a byte or EOF arrived
	chunks     [][]byte // written with gaps
	closeFirst bool     // CloseWrite after the chunks; otherwise wait for the peer's EOF, write postEOF, CloseWrite
	postEOF    []byte
	gap        time.Duration
	closeAfterFirst bool // eofdata / eofempty: CloseWrite right after `first`
	// error endings
	have0     int             // bytes of the peer's stream already received before the script starts (request payload at an upstream)
	expect    int             // once have0 + received >= expect, gotAll is closed
	gotAll    chan struct{}
	abort     *net.TCPConn    // non-nil: after the chunks wait for abortWhen, then end the connection abruptly instead of CloseWrite
	abortRST  bool            // SO_LINGER 0 (RST); otherwise a plain Close of the whole socket
	abortWhen []chan struct{}
	splitPost bool            // write postEOF in two bursts 40 ms apart
}

type peerResult struct {
	rx           []byte
	eof          bool
	sawEOFOpen   bool // the peer's EOF arrived while our write side was still open
	err          string
	sent         int
}

func runPeer(c halfConn, ps peerScript, deadline time.Time, onFirstRx func()) peerResult {
	var res peerResult
	var mu sync.Mutex
	firstRx := make(chan struct{})
	eofCh := make(chan struct{})
	var once, onceAll sync.Once
	writeOpen := true
	signalAll := func(got int) {
		if ps.gotAll != nil && ps.have0+got >= ps.expect {
			onceAll.Do(func() { close(ps.gotAll) })
		}
	}
	signalAll(0)
	go func() {
		buf := make([]byte, 32768)
		for {
			n, err := c.Read(buf)
			if n > 0 {
				mu.Lock()
				res.rx = append(res.rx, buf[:n]...)
				got := len(res.rx)
				mu.Unlock()
				signalAll(got)
				once.Do(func() {
					if onFirstRx != nil {
						onFirstRx()
					}
					close(firstRx)
				})
			}
			if err != nil {
				mu.Lock()
				if err == io.EOF {
					res.eof = true
					res.sawEOFOpen = writeOpen
				} else {
					res.err = "read: " + err.Error()
				}
				mu.Unlock()
				once.Do(func() { close(firstRx) })
				close(eofCh)
				return
			}
		}
	}()
	wait := func(ch chan struct{}) bool {
		select {
		case <-ch:
			return true
		case <-time.After(time.Until(deadline)):
			mu.Lock()
			if res.err == "" {
				res.err = "timeout"
			}
			mu.Unlock()
			return false
		}
	}
	write := func(b []byte) bool {
		if len(b) == 0 {
			return true
		}
		n, err := c.Write(b)
		mu.Lock()
		res.sent += n
		mu.Unlock()
		if err != nil {
			mu.Lock()
			if res.err == "" {
				res.err = "write: " + err.Error()
			}
			mu.Unlock()
			return false
		}
		return true
	}
	closeW := func() {
		mu.Lock()
		writeOpen = false
		mu.Unlock()
		_ = c.CloseWrite()
	}
	ok := write(ps.first)
	if ok && ps.closeAfterFirst {
		closeW()
		wait(eofCh)
	} else if ok {
		if ps.waitForRx {
			ok = wait(firstRx)
		}
		for _, ch := range ps.chunks {
			if !ok {
				break
			}
			if ps.gap > 0 {
				time.Sleep(ps.gap)
			}
			ok = write(ch)
		}
		if ok && ps.abort != nil {
			for _, ch := range ps.abortWhen {
				if ok {
					ok = wait(ch)
				}
			}
			if ok {
				mu.Lock()
				writeOpen = false
				mu.Unlock()
				if ps.abortRST {
					_ = ps.abort.SetLinger(0)
				}
				_ = ps.abort.Close()
				<-eofCh // the reader ends with "use of closed network connection"
				mu.Lock()
				res.err = ""
				mu.Unlock()
			}
		} else if ok {
			if ps.closeFirst {
				closeW()
				wait(eofCh)
			} else if wait(eofCh) {
				mu.Lock()
				cleanEOF := res.eof
				mu.Unlock()
				if cleanEOF {
					if ps.splitPost && len(ps.postEOF) > 1 {
						h := len(ps.postEOF) / 2
						if write(ps.postEOF[:h]) {
							time.Sleep(40 * time.Millisecond)
							write(ps.postEOF[h:])
						}
					} else {
						write(ps.postEOF)
					}
				}
				closeW()
			}
		}
	}
	if !ok {
		// make sure the reader goroutine ends
		_ = c.Close()
		<-eofCh
	}
	mu.Lock()
	defer mu.Unlock()
	return res
}

func chunksOf(seed uint64, off int, lens []int) ([][]byte, int) {
	var out [][]byte
	for _, n := range lens {
		out = append(out, stream(seed, off, n))
		off += n
	}
	return out, off
}

// upstreamServer returns the harness-side server terminating the relay's client protocol (nil for direct).
func upstreamServer(kind string) (netio.StreamServer, error) {
	switch kind {
	case "direct", "directtfo":
		return nil, nil
	case "socks5":
		c := socks5.StreamServerConfig{EnableTCP: true}
		return c.NewStreamServer()
	case "http":
		c := httpproxy.ServerConfig{}
		return c.NewProxyServer()
	case "none":
		return ssnone.StreamServer{}, nil
	case "ss2022":
		ucc, err := ss2022.NewUserCipherConfig(pskBytes(), false)
		if err != nil {
			return nil, err
		}
		c := ss2022.StreamServerConfig{UserCipherConfig: ucc}
		return c.NewStreamServer(), nil
	}
	return nil, fmt.Errorf("unknown upstream %q", kind)
}

func (t *targetSide) serve(deadline time.Time) {
	defer close(t.done)
	sc := t.sc
	t.ln.SetDeadline(deadline)
	tc, err := t.ln.AcceptTCP()
	if err != nil {
		return // nobody dialed (failure scenarios) or timeout
	}
	defer tc.Close()
	t.mu.Lock()
	t.acceptT = time.Now()
	t.mu.Unlock()
	var c halfConn = tc
	var initial []byte
	up, err := upstreamServer(sc.Client)
	if err != nil {
		t.fail("upstream: " + err.Error())
		return
	}
	tc.SetDeadline(deadline)
	if up != nil {
		req, err := up.HandleStream(tc, zap.NewNop())
		if err != nil {
			t.fail("upstream handshake: " + err.Error())
			return
		}
		t.mu.Lock()
		t.obs.Dialed = true
		t.obs.DialAddr = req.Addr.String()
		if sc.Client == "ss2022" {
			t.obs.HavePayload = true
			t.obs.DialPayload = append([]byte(nil), req.Payload...)
		}
		t.mu.Unlock()
		initial = append([]byte(nil), req.Payload...)
		if sc.Fail == "upstream" {
			_ = req.Abort(conn.DialResult{Code: conn.DialResultCode(sc.UpCode)})
			return
		}
		pc, err := req.Proceed()
		if err != nil {
			t.fail("upstream proceed: " + err.Error())
			return
		}
		c = pc
	} else {
		t.mu.Lock()
		t.obs.Dialed = true
		t.obs.DialAddr = t.ln.Addr().String()
		t.mu.Unlock()
	}
	chunks, off := chunksOf(sc.TSeed, 0, sc.TargetLens)
	ps := peerScript{gap: time.Duration(sc.GapMs) * time.Millisecond, closeFirst: sc.CloseFirst == "target"}
	if sc.TargetFirst {
		if len(chunks) > 0 {
			ps.first, chunks = chunks[0], chunks[1:]
		}
	} else if len(initial) == 0 {
		ps.waitForRx = true
	}
	ps.chunks = chunks
	if sc.CloseFirst == "client" {
		ps.postEOF = stream(sc.TSeed, off, sc.PostEOFLen)
	}
	ps.have0, ps.gotAll = len(initial), t.targetGotAll
	switch sc.Reset {
	case "target":
		ps.expect = sc.clientTotal()
		ps.abort, ps.abortRST, ps.abortWhen = tc, true, []chan struct{}{t.targetGotAll, t.clientGotAll}
	case "wclosed":
		ps.expect = sc.clientTotal() - sc.PostEOFLen
		ps.abort, ps.abortWhen = tc, []chan struct{}{t.targetGotAll, t.clientGotAll}
	default:
		ps.expect = sc.clientTotal()
	}
	res := runPeer(c, ps, deadline, nil)
	t.mu.Lock()
	t.obs.TargetSent = res.sent
	t.obs.TargetRx = append(initial, res.rx...)
	t.obs.TargetRxLen = len(t.obs.TargetRx)
	t.obs.TargetEOF = res.eof
	if res.sawEOFOpen && sc.CloseFirst == "client" {
		t.obs.SawPeerEOFBeforeOwnClose = "target"
	}
	if res.err != "" {
		t.obs.Errors = append(t.obs.Errors, "target "+res.err)
	}
	t.mu.Unlock()
}

func (t *targetSide) fail(msg string) {
	t.mu.Lock()
	t.obs.Errors = append(t.obs.Errors, msg)
	t.mu.Unlock()
}

// ---------- harness client ----------

func socksAddr(a string) []byte {
	host, portStr, _ := net.SplitHostPort(a)
	port, _ := strconv.Atoi(portStr)
	var b []byte
	if ip, err := netip.ParseAddr(host); err == nil {
		if ip.Is4() {
			b = append([]byte{1}, ip.AsSlice()...)
		} else {
			b = append([]byte{4}, ip.AsSlice()...)
		}
	} else {
		b = append([]byte{3, byte(len(host))}, host...)
	}
	return binary.BigEndian.AppendUint16(b, uint16(port))
}

type clientConn struct {
	c     halfConn
	reply string
	preT  time.Time // taken before the (last part of the) request is sent: the relay cannot have proceeded earlier
}

// dialRelay performs the server protocol's handshake by hand (RFC 1928 / RFC 1929 / RFC 9110 CONNECT / socks address) or,
// for Shadowsocks 2022, with the repository's own client.
func dialRelay(sc *Scenario, relayAddr, target string, coalesce []byte, deadline time.Time) (clientConn, error) {
	if isSS(sc.Server) {
		psk, ipsks := pskBytes(), [][]byte(nil)
		if sc.Server == "ss2022mu" {
			upsk, _ := base64.StdEncoding.DecodeString(daveUPSK)
			psk, ipsks = upsk, [][]byte{pskBytes()}
		}
		ccc, err := ss2022.NewClientCipherConfig(psk, ipsks, false)
		if err != nil {
			return clientConn{}, err
		}
		inner := (&netio.TCPClientConfig{Name: "h", Network: "tcp", Dialer: conn.DialerSocketOptions{}.Dialer()}).NewTCPClient()
		ra, err := conn.ParseAddr(relayAddr)
		if err != nil {
			return clientConn{}, err
		}
		cl := (&ss2022.StreamClientConfig{Name: "h", InnerClient: inner, Addr: ra, CipherConfig: ccc}).NewStreamClient()
		ta, err := conn.ParseAddr(target)
		if err != nil {
			return clientConn{}, err
		}
		ctx, cancel := context.WithDeadline(context.Background(), deadline)
		defer cancel()
		preT := time.Now()
		c, err := cl.DialStream(ctx, ta, stream(sc.CSeed, 0, sc.ReqLen))
		if err != nil {
			return clientConn{}, err
		}
		c.SetDeadline(deadline)
		return clientConn{c: c, reply: "n/a", preT: preT}, nil
	}
	preT := time.Now()
	raw, err := net.DialTimeout("tcp", relayAddr, 3*time.Second)
	if err != nil {
		return clientConn{}, err
	}
	tc := raw.(*net.TCPConn)
	tc.SetDeadline(deadline)
	cc := clientConn{c: tc, reply: "n/a", preT: preT}
	switch sc.Server {
	case "direct":
		if len(coalesce) > 0 {
			_, err = tc.Write(coalesce)
		}
	case "none":
		_, err = tc.Write(append(socksAddr(target), coalesce...))
	case "socks5", "socks5auth":
		method := byte(0)
		if sc.Server == "socks5auth" {
			method = 2
		}
		if _, err = tc.Write([]byte{5, 1, method}); err != nil {
			break
		}
		var mr [2]byte
		if _, err = io.ReadFull(tc, mr[:]); err != nil {
			break
		}
		if mr != [2]byte{5, method} {
			err = fmt.Errorf("socks5 method reply %v", mr)
			break
		}
		if method == 2 {
			if _, err = tc.Write(append(append([]byte{1, 5}, "alice"...), append([]byte{6}, "wonder"...)...)); err != nil {
				break
			}
			if _, err = io.ReadFull(tc, mr[:]); err != nil {
				break
			}
			if mr != [2]byte{1, 0} {
				err = fmt.Errorf("socks5 auth reply %v", mr)
				break
			}
		}
		cc.preT = time.Now()
		if _, err = tc.Write(append([]byte{5, 1, 0}, socksAddr(target)...)); err != nil {
			break
		}
		var rep [10]byte
		if _, e2 := io.ReadFull(tc, rep[:]); e2 != nil {
			cc.reply = "none"
			break
		}
		if rep[0] != 5 || rep[2] != 0 || rep[3] != 1 {
			err = fmt.Errorf("malformed socks5 reply %v", rep)
			break
		}
		if rep[1] == 0 {
			cc.reply = "ok"
		} else {
			cc.reply = fmt.Sprintf("fail:%d", rep[1])
		}
	case "http", "httpauth":
		head := "CONNECT " + target + " HTTP/1.1\r\nHost: " + target + "\r\n"
		if sc.Server == "httpauth" {
			head += "Proxy-Authorization: Basic " + base64.StdEncoding.EncodeToString([]byte("bob:builder")) + "\r\n"
		}
		cc.preT = time.Now()
		if _, err = tc.Write([]byte(head + "\r\n")); err != nil {
			break
		}
		var resp []byte
		one := make([]byte, 1)
		for !bytes.HasSuffix(resp, []byte("\r\n\r\n")) && len(resp) < 4096 {
			if _, e2 := io.ReadFull(tc, one); e2 != nil {
				break
			}
			resp = append(resp, one[0])
		}
		switch {
		case len(resp) == 0:
			cc.reply = "none"
		case !bytes.HasSuffix(resp, []byte("\r\n\r\n")) || !bytes.HasPrefix(resp, []byte("HTTP/1.1 ")) || len(resp) < 12:
			err = fmt.Errorf("malformed http reply %q", resp)
		case string(resp[9:12]) == "200":
			cc.reply = "ok"
		default:
			cc.reply = "fail:" + string(resp[9:12])
		}
	}
	if err != nil {
		tc.Close()
		return clientConn{}, err
	}
	return cc, nil
}

func coalescable(server string) bool { return server == "direct" || server == "none" }

// runScenario plays the scenario against a fresh relay.
func runScenario(sc *Scenario, ev *env) (obs Obs, err error) {
	deadline := time.Now().Add(sessionLimit)
	ln, err := net.ListenTCP("tcp", &net.TCPAddr{IP: net.IPv4(127, 0, 0, 1)})
	if err != nil {
		return obs, err
	}
	defer ln.Close()
	ts := &targetSide{ln: ln, sc: sc, obs: &obs, done: make(chan struct{}), clientGotAll: make(chan struct{}), targetGotAll: make(chan struct{})}
	r, err := startRelay(sc, ln.Addr().String(), ev)
	if err != nil {
		return obs, err
	}
	defer r.stop()
	go ts.serve(deadline)

	target := sc.targetAddrFor(ln.Addr().String())
	first := stream(sc.CSeed, sc.ReqLen, sc.FirstLen)
	var co []byte
	if sc.Timing == "coalesced" && coalescable(sc.Server) {
		co = first
	}
	cc, err := dialRelay(sc, r.addr, target, co, deadline)
	if err != nil {
		ln.Close()
		<-ts.done
		return obs, fmt.Errorf("client handshake: %w", err)
	}
	defer cc.c.Close()
	obs.Reply = cc.reply

	chunks, off := chunksOf(sc.CSeed, sc.ReqLen+sc.FirstLen, sc.ClientLens)
	ps := peerScript{gap: time.Duration(sc.GapMs) * time.Millisecond, closeFirst: sc.CloseFirst == "client", chunks: chunks}
	if sc.CloseFirst == "target" {
		ps.postEOF = stream(sc.CSeed, off, sc.PostEOFLen)
	}
	wait := time.Duration(sc.WaitMs) * time.Millisecond
	switch sc.Timing {
	case "early":
		ps.first = first
	case "coalesced":
		if co == nil {
			ps.first = first
		}
	case "near":
		time.Sleep(wait)
		ps.first = first
	case "late":
		time.Sleep(3 * wait)
		ps.first = first
	case "never":
		ps.waitForRx = true
	case "eofdata":
		ps.first = first
		ps.closeAfterFirst = true
	case "eofempty":
		ps.closeAfterFirst = true
	}
	ps.expect, ps.gotAll = sc.targetTotal(), ts.clientGotAll
	switch sc.Reset {
	case "client":
		if raw, ok := cc.c.(*net.TCPConn); ok {
			ps.abort, ps.abortRST, ps.abortWhen = raw, true, []chan struct{}{ts.clientGotAll, ts.targetGotAll}
		} else {
			return obs, fmt.Errorf("client reset needs a raw TCP connection (server %s)", sc.Server)
		}
	case "wclosed":
		ps.splitPost = true
	}
	res := runPeer(cc.c, ps, deadline, nil)
	// whatever the script, the client is finished now: make sure the relay's copy loops can end
	_ = cc.c.Close()
	// a target that has not been dialed by now never will be (the client is done): stop waiting for it
	ln.Close()
	select {
	case <-ts.done:
	case <-time.After(time.Until(deadline) + time.Second):
		ts.fail("target did not finish")
	}
	ts.mu.Lock()
	obs.ClientRx = res.rx
	obs.ClientRxLen = len(res.rx)
	obs.ClientSent = sc.ReqLen + res.sent
	if len(co) > 0 {
		obs.ClientSent += len(co)
	}
	obs.ClientEOF = res.eof
	if res.sawEOFOpen && sc.CloseFirst == "target" && !ps.closeAfterFirst {
		obs.SawPeerEOFBeforeOwnClose = "client"
	}
	if res.err != "" {
		obs.Errors = append(obs.Errors, "client "+res.err)
	}
	if !ts.acceptT.IsZero() {
		obs.DialAfterRequestMs = int(ts.acceptT.Sub(cc.preT) / time.Millisecond)
	}
	expectSession := obs.Dialed && sc.Fail == ""
	ts.mu.Unlock()

	// the session is collected after both copy loops returned: poll for it; when none is expected look twice
	pollEnd := time.Now().Add(8 * time.Second)
	for i := 0; ; i++ {
		st, err := r.stats()
		if err != nil {
			obs.Errors = append(obs.Errors, "stats: "+err.Error())
			break
		}
		obs.Stats = st
		if st.Sessions > 0 || time.Now().After(pollEnd) || (!expectSession && i >= 1) {
			break
		}
		if expectSession {
			time.Sleep(5 * time.Millisecond)
		} else {
			time.Sleep(40 * time.Millisecond)
		}
	}
	return obs, nil
}

// ---------- environment probes ----------

func probeEnv() (*env, func(), error) {
	ev := &env{}
	ev.unreachOK = unreachNow()
	stop, addr, err := startNXDNS()
	if err != nil {
		return nil, nil, err
	}
	ev.dnsAddr = addr
	return ev, stop, nil
}

// unreachNow: does a plain connect to unreachAddr fail at once with ENETUNREACH right now? (The fault a scenario injects is
// validated against the environment, not assumed.)
func unreachNow() bool {
	t := time.Now()
	c, err := net.DialTimeout("tcp", unreachAddr, 2*time.Second)
	if c != nil {
		c.Close()
	}
	return err != nil && time.Since(t) < time.Second && errors.Is(err, syscall.ENETUNREACH)
}

// startNXDNS answers every DNS query (UDP and TCP) on a loopback port with NXDOMAIN.
func startNXDNS() (func(), string, error) {
	pc, err := net.ListenUDP("udp", &net.UDPAddr{IP: net.IPv4(127, 0, 0, 1)})
	if err != nil {
		return nil, "", err
	}
	port := pc.LocalAddr().(*net.UDPAddr).Port
	tl, err := net.ListenTCP("tcp", &net.TCPAddr{IP: net.IPv4(127, 0, 0, 1), Port: port})
	if err != nil {
		tl = nil // the TCP side is only a courtesy (truncated answers never happen here)
	}
	answer := func(q []byte) []byte {
		if len(q) < 12 {
			return nil
		}
		a := append([]byte(nil), q...)
		a[2] = 0x81 | (q[2] & 0x01) // QR, RD copied
		a[3] = 0x83                 // RA, RCODE 3
		a[6], a[7], a[8], a[9], a[10], a[11] = 0, 0, 0, 0, 0, 0
		return a
	}
	go func() {
		buf := make([]byte, 1500)
		for {
			n, from, err := pc.ReadFromUDP(buf)
			if err != nil {
				return
			}
			if a := answer(buf[:n]); a != nil {
				pc.WriteToUDP(a, from)
			}
		}
	}()
	if tl != nil {
		go func() {
			for {
				c, err := tl.Accept()
				if err != nil {
					return
				}
				go func() {
					defer c.Close()
					c.SetDeadline(time.Now().Add(2 * time.Second))
					var l [2]byte
					if _, err := io.ReadFull(c, l[:]); err != nil {
						return
					}
					q := make([]byte, binary.BigEndian.Uint16(l[:]))
					if _, err := io.ReadFull(c, q); err != nil {
						return
					}
					if a := answer(q); a != nil {
						c.Write(append(binary.BigEndian.AppendUint16(nil, uint16(len(a))), a...))
					}
				}()
			}
		}()
	}
	return func() {
		pc.Close()
		if tl != nil {
			tl.Close()
		}
	}, pc.LocalAddr().String(), nil
}
