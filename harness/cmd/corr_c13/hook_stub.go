//go:build !c13hook

package main

import "ssvharness/internal/common"

// The scripted-connection engine (hook_engine.go) needs proposed_fixes/hook_c13.diff in /repo; without the build tag
// `c13hook` it is not compiled and this stub only records that fact.
func runHookEngine(o *common.Options, rep *common.Report, newModel func() (*modelClient, error)) error {
	rep.Note("engine handleconn (scripted in-memory connections) not built: needs proposed_fixes/hook_c13.diff and the build tag c13hook")
	return nil
}
