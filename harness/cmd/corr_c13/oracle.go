package main

// The property oracle, written from the statement of C13 and independent of the Lean model:
//   * the relay dials the requested target with the initial payload; bytes read while waiting are forwarded once,
//     never dropped or repeated  => the target receives (request payload ++ everything the client sent afterwards), exactly;
//   * a failed onward connection is reported with the protocol's failure reply, unless success had to be signalled first
//     in order to collect the initial payload;
//   * both directions are copied until each side finishes; EOF from one side is passed on as a write shutdown while the
//     opposite direction keeps flowing (data written after the peer's EOF was seen still arrives);
//   * the byte counts handed to statistics equal the bytes actually delivered each way.

import (
	"bytes"
	"fmt"
	"strings"
)

// mayWaitFirst: the documented conditions under which the relay signals success before dialing (service/tcp.go comment,
// docs of disableInitialPayloadWait): not disabled, the server protocol carries no payload with the request, none was returned,
// and the client protocol can carry one. Written from the protocol specifications, not from the code's tables:
// SS2022 requests carry payload; SS2022 / SS-none clients send it with the header; a plain TCP client only with TFO.
func mayWaitFirst(sc *Scenario) bool {
	if sc.DisableWait || isSS(sc.Server) || sc.ReqLen > 0 {
		return false
	}
	switch sc.Client {
	case "ss2022", "none", "directtfo":
		return true
	}
	return false
}

func expectedFailReply(sc *Scenario) string {
	switch {
	case strings.HasPrefix(sc.Server, "socks5"):
		switch sc.Fail {
		case "refused":
			return "fail:5"
		case "unreach":
			return "fail:3"
		case "reject":
			return "fail:2"
		default: // name lookup failure, upstream proxy failure: general SOCKS server failure
			return "fail:1"
		}
	case strings.HasPrefix(sc.Server, "http"):
		return "fail:502"
	}
	return "n/a"
}

type verdict struct{ key, detail string }

func oracle(sc *Scenario, o *Obs) []verdict {
	var vs []verdict
	add := func(k, f string, a ...any) { vs = append(vs, verdict{k, fmt.Sprintf(f, a...)}) }
	hasReply := strings.HasPrefix(sc.Server, "socks5") || strings.HasPrefix(sc.Server, "http")
	if sc.Fail != "" {
		want := expectedFailReply(sc)
		switch {
		case !hasReply:
		case o.Reply == want:
		case o.Reply == "ok" && mayWaitFirst(sc):
		case o.Reply == "ok":
			add("success-reply-for-failed-connection:"+sc.Server+":"+sc.Fail, "reply %s, want %s (no initial-payload wait applies)", o.Reply, want)
		default:
			add("reply-mismatch:"+sc.Server+":"+sc.Fail, "reply %s, want %s", o.Reply, want)
		}
		if len(o.ClientRx) != 0 {
			add("bytes-after-failure", "client received %d bytes after the reply of a failed connection (first: %x)", len(o.ClientRx), o.ClientRx[:min(len(o.ClientRx), 16)])
		}
		if sc.Fail != "upstream" && o.Dialed {
			add("dialed-despite-failure:"+sc.Fail, "the target saw a connection")
		}
		if o.Stats.Sessions != 0 || o.Stats.Up != 0 || o.Stats.Down != 0 {
			add("stats-for-failed-connection", "stats %+v", o.Stats)
		}
		for _, e := range o.Errors {
			if strings.Contains(e, "timeout") {
				add("hang-after-failure", "%s", e)
			}
		}
		return vs
	}

	wantT := stream(sc.CSeed, 0, sc.clientTotal())
	wantC := stream(sc.TSeed, 0, sc.targetTotal())
	if hasReply && o.Reply != "ok" {
		add("reply-mismatch:"+sc.Server+":success", "reply %s for a connection that succeeded", o.Reply)
	}
	if !o.Dialed {
		add("not-dialed", "the target never saw the connection")
		return vs
	}
	wantAddr := sc.targetAddrFor(o.DialAddr)
	if o.DialAddr != wantAddr {
		add("wrong-destination", "dialed %s, requested %s", o.DialAddr, wantAddr)
	}
	if sc.Reset != "" {
		return append(vs, oracleErrorEnding(sc, o, wantT, wantC)...)
	}
	if !bytes.Equal(o.TargetRx, wantT) {
		head := sc.ReqLen + sc.FirstLen
		switch {
		case len(o.TargetRx) > len(wantT) && duplicatedPrefix(o.TargetRx, wantT, head):
			add("initial-payload-forwarded-twice", "target received %d bytes, client sent %d: the first bytes arrive twice", len(o.TargetRx), len(wantT))
		case len(o.TargetRx) < len(wantT) && head > 0 && droppedWithin(o.TargetRx, wantT, head):
			add("initial-payload-dropped", "target received %d bytes, client sent %d: bytes of the initial payload are missing", len(o.TargetRx), len(wantT))
		case len(o.TargetRx) < len(wantT) && bytes.HasPrefix(wantT, o.TargetRx):
			add("uplink-truncated", "target received only the first %d of %d bytes", len(o.TargetRx), len(wantT))
		default:
			add("uplink-stream-mismatch", "target received %d bytes, client sent %d, first difference at %d", len(o.TargetRx), len(wantT), firstDiff(o.TargetRx, wantT))
		}
	}
	if !bytes.Equal(o.ClientRx, wantC) {
		if len(o.ClientRx) < len(wantC) && bytes.HasPrefix(wantC, o.ClientRx) {
			add("downlink-truncated", "client received only the first %d of %d bytes", len(o.ClientRx), len(wantC))
		} else {
			add("downlink-stream-mismatch", "client received %d bytes, target sent %d, first difference at %d", len(o.ClientRx), len(wantC), firstDiff(o.ClientRx, wantC))
		}
	}
	if !o.TargetEOF {
		add("eof-not-mirrored:client->target", "the client shut down its write side; the target never saw end-of-stream")
	}
	if !o.ClientEOF {
		add("eof-not-mirrored:target->client", "the target shut down its write side; the client never saw end-of-stream")
	}
	for _, e := range o.Errors {
		add("copy-error-or-hang", "%s", e)
	}
	// statistics == bytes observed at the sockets
	if o.Stats.Sessions != 1 {
		add("stats-sessions", "tcpSessions=%d after one session", o.Stats.Sessions)
	} else {
		if o.Stats.Up != uint64(len(o.TargetRx)) {
			k := "stats-uplink"
			switch {
			case o.Stats.Up == uint64(len(o.TargetRx)+len(o.DialPayload)) && len(o.DialPayload) > 0, o.Stats.Up > uint64(len(o.TargetRx)):
				k = "stats-uplink-overcount"
			case o.Stats.Up < uint64(len(o.TargetRx)):
				k = "stats-uplink-undercount"
			}
			add(k, "uplinkBytes=%d, the target received %d bytes", o.Stats.Up, len(o.TargetRx))
		}
		if o.Stats.Down != uint64(len(o.ClientRx)) {
			add("stats-downlink", "downlinkBytes=%d, the client received %d bytes", o.Stats.Down, len(o.ClientRx))
		}
		if o.Stats.User != sc.user() {
			add("stats-user", "charged to %q, the connection was made by %q", o.Stats.User, sc.user())
		}
		if o.Stats.Others != "" {
			add("stats-other-counters", "%s", o.Stats.Others)
		}
	}
	return vs
}

// duplicatedPrefix: got == want with some stretch of the first `head` bytes inserted a second time.
func duplicatedPrefix(got, want []byte, head int) bool {
	extra := len(got) - len(want)
	if extra <= 0 || extra > head {
		return false
	}
	for at := 0; at+extra <= head+extra && at <= len(want); at++ {
		// got = want[:at] ++ want[at-extra:at]?? or want[:at] ++ want[at:at+extra] repeated: try both placements
		if at >= extra && bytes.Equal(got[:at], want[:at]) && bytes.Equal(got[at:at+extra], want[at-extra:at]) && bytes.Equal(got[at+extra:], want[at:]) {
			return true
		}
	}
	return false
}

// droppedWithin: got == want with a stretch inside the first `head` bytes removed.
func droppedWithin(got, want []byte, head int) bool {
	missing := len(want) - len(got)
	if missing <= 0 || missing > head {
		return false
	}
	for at := 0; at+missing <= head; at++ {
		if bytes.Equal(got[:at], want[:at]) && bytes.Equal(got[at:], want[at+missing:]) {
			return true
		}
	}
	return false
}

// oracleErrorEnding: a session that relayed data and then ended with a copy error. The statement's clauses still apply:
// what each peer received is a prefix of what the other sent (complete on the side that did not abort), and "the byte counts
// handed to statistics equal the bytes actually delivered each way" — the session must be in the statistics (count +1), the
// figures must lie between what the receiving harness peer actually got before the abort (lower bound) and what the sending
// peer wrote (upper bound); the kernel's ambiguity exists only for bytes in flight at the moment of the abort.
func oracleErrorEnding(sc *Scenario, o *Obs, wantT, wantC []byte) []verdict {
	var vs []verdict
	add := func(k, f string, a ...any) { vs = append(vs, verdict{k, fmt.Sprintf(f, a...)}) }
	if !bytes.HasPrefix(wantT, o.TargetRx) {
		add("uplink-stream-mismatch", "target received %d bytes that are not a prefix of what the client sent (first difference at %d)", len(o.TargetRx), firstDiff(o.TargetRx, wantT))
	}
	if !bytes.HasPrefix(wantC, o.ClientRx) {
		add("downlink-stream-mismatch", "client received %d bytes that are not a prefix of what the target sent (first difference at %d)", len(o.ClientRx), firstDiff(o.ClientRx, wantC))
	}
	switch sc.Reset {
	case "target", "wclosed": // the client side ends gracefully: everything the target sent, then EOF
		if !bytes.Equal(o.ClientRx, wantC) {
			add("downlink-truncated", "client received %d of %d bytes although the target sent them all before it went away", len(o.ClientRx), len(wantC))
		}
		if !o.ClientEOF {
			add("eof-not-mirrored:target->client", "the remote side went away; the client never saw end-of-stream")
		}
	case "client":
		if !bytes.Equal(o.TargetRx, wantT) {
			add("uplink-truncated", "target received %d of %d bytes although the client sent them all before it aborted", len(o.TargetRx), len(wantT))
		}
		if !o.TargetEOF {
			add("eof-not-mirrored:client->target", "the client aborted; the target never saw end-of-stream")
		}
	}
	for _, e := range o.Errors {
		if strings.Contains(e, "timeout") {
			add("copy-error-or-hang", "%s", e)
		}
	}
	if o.Stats.Sessions != 1 {
		add("stats-session-missing-after-copy-error:"+sc.Reset, "tcpSessions=%d after a session that relayed %d bytes up / %d bytes down and then ended with a copy error (stats %+v)",
			o.Stats.Sessions, len(o.TargetRx), len(o.ClientRx), o.Stats)
		return vs
	}
	upLo, upHi := uint64(len(o.TargetRx)), uint64(o.ClientSent)
	downLo, downHi := uint64(len(o.ClientRx)), uint64(o.TargetSent)
	if o.Stats.Up < upLo {
		add("stats-uplink-undercount", "uplinkBytes=%d, the target had received %d bytes before the connection ended", o.Stats.Up, upLo)
	} else if o.Stats.Up > upHi {
		add("stats-uplink-overcount", "uplinkBytes=%d, the client wrote only %d bytes", o.Stats.Up, upHi)
	}
	if o.Stats.Down < downLo {
		add("stats-downlink", "downlinkBytes=%d, the client had received %d bytes", o.Stats.Down, downLo)
	} else if o.Stats.Down > downHi {
		add("stats-downlink", "downlinkBytes=%d, the target wrote only %d bytes", o.Stats.Down, downHi)
	}
	if o.Stats.User != sc.user() {
		add("stats-user", "charged to %q, the connection was made by %q", o.Stats.User, sc.user())
	}
	if o.Stats.Others != "" {
		add("stats-other-counters", "%s", o.Stats.Others)
	}
	return vs
}
