//go:build verif

package main

// Engine "handleconn": (*TCPRelay).handleConn driven directly (service.NewTCPRelay + the verif-tagged VerifHandleConn of
// proposed_fixes/hook_c13.diff) with a scripted netio.StreamServer / PendingConn / netio.Conn / StreamClient / Collector, all in
// memory and without real time. Every input of the Lean model's `Env` is set by the script — in particular the ones real TCP
// cannot produce (EOF together with data in the wait read, a failing SetReadDeadline, a failing Proceed on the wait path, a
// non-timeout read error) — and the ACTION LIST of the implementation (the calls it makes on the scripted objects, in order) is
// compared with the model's action list literally.

import (
	"context"
	"encoding/hex"
	"errors"
	"fmt"
	"io"
	"net"
	"os"
	"strings"
	"sync"
	"syscall"
	"time"

	"ssvharness/internal/common"

	"github.com/database64128/shadowsocks-go/conn"
	"github.com/database64128/shadowsocks-go/netio"
	"github.com/database64128/shadowsocks-go/router"
	"github.com/database64128/shadowsocks-go/service"
	"github.com/database64128/shadowsocks-go/stats"
	"go.uber.org/zap"
)

type HookCase struct {
	ReqOK        bool   `json:"req_ok"`
	PayloadLen   int    `json:"payload_len,omitempty"`
	User         string `json:"user,omitempty"`
	ClientNative bool   `json:"client_native,omitempty"`
	WaitFlag     bool   `json:"wait_flag,omitempty"`
	Buf          int    `json:"buf"`
	Reject       bool   `json:"reject,omitempty"`
	ProceedOK    bool   `json:"proceed_ok"`
	SetDlOK      bool   `json:"setdl_ok"`
	ClearDlOK    bool   `json:"cleardl_ok"`
	WaitKind     string `json:"wait_kind"` // d e t x
	WaitN        int    `json:"wait_n"`
	Seed         uint64 `json:"seed"`
	ClientLen    int    `json:"client_len"`
	ClientChunk  int    `json:"client_chunk"`
	ClientEnd    string `json:"client_end"` // eof | err
	TargetLen    int    `json:"target_len"`
	TargetChunk  int    `json:"target_chunk"`
	TargetEnd    string `json:"target_end"`
	RemoteWLimit int    `json:"remote_wlimit"` // -1: writes to the remote never fail; k: fail once k bytes were accepted
	ClientWLimit int    `json:"client_wlimit"`
	DialErr      string `json:"dial_err,omitempty"` // refused netunreach hostunreach timedout dns other
}

type evlog struct {
	mu sync.Mutex
	ev []string
}

func (l *evlog) add(s string) {
	l.mu.Lock()
	l.ev = append(l.ev, s)
	l.mu.Unlock()
}

var errScripted = errors.New("scripted failure")

// scriptConn: a netio.Conn whose every call is scripted and recorded.
type scriptConn struct {
	name       string
	log        *evlog
	mu         sync.Mutex
	stream     []byte
	pos        int
	chunk      int
	end        string
	armed      bool // a non-zero read deadline is set: the next Read is the wait read
	waitKind   string
	waitN      int
	dlErrs     []error
	dlCalls    int
	copyReads  int
	written    []byte
	wlimit     int
	cw, closed bool
}

func (c *scriptConn) Read(b []byte) (int, error) {
	c.mu.Lock()
	defer c.mu.Unlock()
	rem := len(c.stream) - c.pos
	if c.armed {
		c.armed = false
		n := min(c.waitN, len(b), rem)
		copy(b, c.stream[c.pos:c.pos+n])
		c.pos += n
		c.log.add(fmt.Sprintf("waitread:%d", len(b)))
		switch c.waitKind {
		case "d":
			return n, nil
		case "e":
			c.stream = c.stream[:c.pos] // the stream is over
			c.end = "eof"
			return n, io.EOF
		case "t":
			return n, fmt.Errorf("scripted read: %w", os.ErrDeadlineExceeded)
		default:
			return n, errScripted
		}
	}
	c.copyReads++
	if rem == 0 {
		if c.end == "err" {
			return 0, errScripted
		}
		return 0, io.EOF
	}
	n := min(rem, len(b))
	if c.chunk > 0 {
		n = min(n, c.chunk)
	}
	copy(b, c.stream[c.pos:c.pos+n])
	c.pos += n
	return n, nil
}

func (c *scriptConn) Write(b []byte) (int, error) {
	c.mu.Lock()
	defer c.mu.Unlock()
	if c.wlimit >= 0 && len(c.written)+len(b) > c.wlimit {
		n := max(c.wlimit-len(c.written), 0)
		c.written = append(c.written, b[:n]...)
		return n, errScripted
	}
	c.written = append(c.written, b...)
	return len(b), nil
}

func (c *scriptConn) CloseWrite() error {
	c.mu.Lock()
	c.cw = true
	c.mu.Unlock()
	return nil
}

func (c *scriptConn) Close() error {
	c.mu.Lock()
	first := !c.closed
	c.closed = true
	c.mu.Unlock()
	if first {
		c.log.add("close" + c.name)
	}
	return nil
}

func (c *scriptConn) SetReadDeadline(t time.Time) error {
	c.mu.Lock()
	defer c.mu.Unlock()
	var err error
	if c.dlCalls < len(c.dlErrs) {
		err = c.dlErrs[c.dlCalls]
	}
	c.dlCalls++
	if t.IsZero() {
		c.log.add("cleardl")
	} else {
		c.log.add("setdl")
		if err == nil {
			c.armed = true
		}
	}
	return err
}

func (c *scriptConn) LocalAddr() net.Addr                { return &net.TCPAddr{IP: net.IPv4(127, 0, 0, 1), Port: 1} }
func (c *scriptConn) RemoteAddr() net.Addr               { return &net.TCPAddr{IP: net.IPv4(127, 0, 0, 1), Port: 2} }
func (c *scriptConn) SetDeadline(t time.Time) error      { return nil }
func (c *scriptConn) SetWriteDeadline(t time.Time) error { return nil }

type hookPending struct {
	log       *evlog
	proceedOK bool
	c         *scriptConn
}

func (p hookPending) Proceed() (netio.Conn, error) {
	p.log.add("proceed")
	if !p.proceedOK {
		return nil, errScripted
	}
	return p.c, nil
}

func (p hookPending) Abort(dr conn.DialResult) error {
	p.log.add(fmt.Sprintf("abort:%d", dr.Code))
	return nil
}

type hookServer struct {
	log *evlog
	hc  *HookCase
	req netio.ConnRequest
}

func (s *hookServer) StreamServerInfo() netio.StreamServerInfo { return netio.StreamServerInfo{} }
func (s *hookServer) HandleStream(c netio.Conn, _ *zap.Logger) (netio.ConnRequest, error) {
	s.log.add("handshake")
	if !s.hc.ReqOK {
		return netio.ConnRequest{}, errScripted
	}
	return s.req, nil
}

type hookClient struct {
	log     *evlog
	native  bool
	dialErr error
	remote  *scriptConn
	addr    string
	payload []byte
	dialed  bool
}

func (c *hookClient) NewStreamDialer() (netio.StreamDialer, netio.StreamDialerInfo) {
	c.log.add("routed")
	return c, netio.StreamDialerInfo{Name: "c", NativeInitialPayload: c.native}
}

func (c *hookClient) DialStream(_ context.Context, addr conn.Addr, payload []byte) (netio.Conn, error) {
	c.addr, c.payload, c.dialed = addr.String(), append([]byte(nil), payload...), true
	c.log.add("dial:" + addr.String() + ":" + hexField(payload))
	if c.dialErr != nil {
		return nil, c.dialErr
	}
	return c.remote, nil
}

type hookCollector struct {
	stats.NoopCollector
	log       *evlog
	collected bool
	user      string
	down, up  uint64
}

func (c *hookCollector) CollectTCPSession(username string, down, up uint64) {
	c.collected, c.user, c.down, c.up = true, username, down, up
	u := username
	if u == "" {
		u = "-"
	}
	c.log.add(fmt.Sprintf("collect:%s:%d:%d", u, down, up))
}

// dialErrOf: scripted DialStream failures and the dial result code each must map to (conn/dialresult.go: errno of the
// failure; 254 for a name lookup failure; 255 otherwise).
func dialErrOf(kind string) (error, int) {
	switch kind {
	case "refused":
		return &net.OpError{Op: "dial", Net: "tcp", Err: os.NewSyscallError("connect", syscall.ECONNREFUSED)}, 111
	case "netunreach":
		return &net.OpError{Op: "dial", Net: "tcp", Err: os.NewSyscallError("connect", syscall.ENETUNREACH)}, 101
	case "hostunreach":
		return &net.OpError{Op: "dial", Net: "tcp", Err: os.NewSyscallError("connect", syscall.EHOSTUNREACH)}, 113
	case "timedout":
		return &net.OpError{Op: "dial", Net: "tcp", Err: os.NewSyscallError("connect", syscall.ETIMEDOUT)}, 110
	case "dns":
		return &net.OpError{Op: "dial", Net: "tcp", Err: &net.DNSError{Err: "no such host", Name: "x.invalid", IsNotFound: true}}, 254
	case "other":
		return errScripted, 255
	}
	return nil, 0
}

const hookAddr = "target.c13.test:4430"

type hookRun struct {
	trace      string
	dialed     bool
	dialPay    []byte
	toRemote   []byte
	toClient   []byte
	remoteCW   bool
	clientCW   bool
	copyRan    bool
	col        *hookCollector
	proceeded  bool
	aborted    []string
	waitReadOK bool
}

func runHookCase(hc *HookCase) (hr hookRun, err error) {
	log := &evlog{}
	cstream := stream(hc.Seed, hc.PayloadLen, hc.ClientLen)
	client := &scriptConn{name: "client", log: log, stream: cstream, chunk: hc.ClientChunk, end: hc.ClientEnd,
		waitKind: hc.WaitKind, waitN: hc.WaitN, wlimit: hc.ClientWLimit}
	if !hc.SetDlOK {
		client.dlErrs = []error{errScripted}
	} else if !hc.ClearDlOK {
		client.dlErrs = []error{nil, errScripted}
	}
	remote := &scriptConn{name: "remote", log: log, stream: stream(hc.Seed^0x5555, 0, hc.TargetLen), chunk: hc.TargetChunk,
		end: hc.TargetEnd, wlimit: hc.RemoteWLimit}
	addr, err := conn.ParseAddr(hookAddr)
	if err != nil {
		return hr, err
	}
	srv := &hookServer{log: log, hc: hc, req: netio.ConnRequest{
		PendingConn: hookPending{log: log, proceedOK: hc.ProceedOK, c: client},
		Addr:        addr, Payload: stream(hc.Seed, 0, hc.PayloadLen), Username: hc.User}}
	derr, _ := dialErrOf(hc.DialErr)
	cl := &hookClient{log: log, native: hc.ClientNative, dialErr: derr, remote: remote}
	rc := router.Config{}
	if hc.Reject {
		rc.DefaultTCPClientName = "reject"
	}
	rt, err := rc.Router(zap.NewNop(), nil, nil, map[string]netio.StreamClient{"c": cl}, nil, nil)
	if err != nil {
		return hr, err
	}
	defer rt.Close()
	col := &hookCollector{log: log}
	relay := service.NewTCPRelay(0, "s", nil, srv, col, rt, zap.NewNop())

	// handleConn wants an accepted *net.TCPConn (it reads the remote address and closes it when nothing was proceeded)
	ln, err := net.ListenTCP("tcp", &net.TCPAddr{IP: net.IPv4(127, 0, 0, 1)})
	if err != nil {
		return hr, err
	}
	defer ln.Close()
	peer, err := net.DialTCP("tcp", nil, ln.Addr().(*net.TCPAddr))
	if err != nil {
		return hr, err
	}
	defer peer.Close()
	acc, err := ln.AcceptTCP()
	if err != nil {
		return hr, err
	}
	defer acc.Close()

	done := make(chan any, 1)
	go func() {
		done <- common.Safely(func() {
			relay.VerifHandleConn(context.Background(), acc, hc.WaitFlag, 50*time.Millisecond, hc.Buf)
		})
	}()
	select {
	case p := <-done:
		if p != nil {
			return hr, fmt.Errorf("handleConn panicked: %v", p)
		}
	case <-time.After(10 * time.Second):
		return hr, errors.New("handleConn did not return in 10 s")
	}
	// the accepted TCP connection is closed by the handler exactly when no connection was proceeded
	// (when one was, the handler closes that connection instead and has logged it; only otherwise look at the socket)
	client.mu.Lock()
	closedScripted := client.closed
	client.mu.Unlock()
	if !closedScripted {
		peer.SetReadDeadline(time.Now().Add(time.Second))
		var one [1]byte
		if _, rerr := peer.Read(one[:]); rerr == io.EOF {
			log.add("closeclient")
		}
	}

	client.mu.Lock()
	remote.mu.Lock()
	hr.copyRan = remote.copyReads > 0 || client.copyReads > 0
	hr.toRemote, hr.toClient = remote.written, client.written
	hr.remoteCW, hr.clientCW = remote.cw, client.cw
	remote.mu.Unlock()
	client.mu.Unlock()
	hr.dialed, hr.dialPay, hr.col = cl.dialed && derr == nil, cl.payload, col
	var out []string
	inserted := !hr.copyRan
	for _, e := range log.ev {
		if !inserted && (strings.HasPrefix(e, "collect:") || e == "closeremote") {
			out = append(out, "copied:"+hexField(hr.toRemote)+":"+hexField(hr.toClient))
			if hr.remoteCW {
				out = append(out, "cw:right")
			}
			if hr.clientCW {
				out = append(out, "cw:left")
			}
			inserted = true
		}
		switch {
		case e == "proceed":
			hr.proceeded = true
		case strings.HasPrefix(e, "abort:"):
			hr.aborted = append(hr.aborted, e[6:])
		case strings.HasPrefix(e, "waitread:"):
			hr.waitReadOK = hc.WaitKind != "x"
		}
		out = append(out, e)
	}
	hr.trace = strings.Join(out, " ")
	return hr, nil
}

func (hc *HookCase) line() string {
	user := hc.User
	if user == "" {
		user = "-"
	}
	rerr, derr := "-", "-"
	if hc.Reject {
		rerr = "13"
	}
	if _, code := dialErrOf(hc.DialErr); code != 0 {
		derr = fmt.Sprint(code)
	}
	end := func(side, e string) string {
		if e == "err" {
			return "f" + side
		}
		return "e" + side
	}
	lim := func(side string, w int) string {
		if w < 0 {
			return "a" + side
		}
		return fmt.Sprintf("w%s%d", side, w)
	}
	// left loop: client -> remote (limited by the remote's write limit); right loop: remote -> client
	sched := strings.Join([]string{lim("L", hc.RemoteWLimit), end("L", hc.ClientEnd), lim("R", hc.ClientWLimit), end("R", hc.TargetEnd)}, ",")
	if hc.WaitKind == "e" {
		// EOF came with the wait read: the stream is over after those bytes (the script truncates it), so that is all there is
		return fmt.Sprintf("hc sn=0 dis=%s buf=%d req=%s addr=%s user=%s pay=%s rerr=%s cn=%s pok=%s sdl=%s cdl=%s cs=%s ts=%s wk=e wn=%d derr=%s sched=%s trunc=1",
			b01(!hc.WaitFlag), hc.Buf, b01(hc.ReqOK), hookAddr, user, hexField(stream(hc.Seed, 0, hc.PayloadLen)), rerr, b01(hc.ClientNative),
			b01(hc.ProceedOK), b01(hc.SetDlOK), b01(hc.ClearDlOK), hexField(stream(hc.Seed, hc.PayloadLen, hc.ClientLen)),
			hexField(stream(hc.Seed^0x5555, 0, hc.TargetLen)), hc.WaitN, derr, sched)
	}
	return fmt.Sprintf("hc sn=0 dis=%s buf=%d req=%s addr=%s user=%s pay=%s rerr=%s cn=%s pok=%s sdl=%s cdl=%s cs=%s ts=%s wk=%s wn=%d derr=%s sched=%s",
		b01(!hc.WaitFlag), hc.Buf, b01(hc.ReqOK), hookAddr, user, hexField(stream(hc.Seed, 0, hc.PayloadLen)), rerr, b01(hc.ClientNative),
		b01(hc.ProceedOK), b01(hc.SetDlOK), b01(hc.ClearDlOK), hexField(stream(hc.Seed, hc.PayloadLen, hc.ClientLen)),
		hexField(stream(hc.Seed^0x5555, 0, hc.TargetLen)), hc.WaitKind, hc.WaitN, derr, sched)
}

// hookOracle: the statement of C13 on the calls handleConn made (independent of the model).
func hookOracle(hc *HookCase, hr *hookRun) []verdict {
	var vs []verdict
	add := func(k, f string, a ...any) { vs = append(vs, verdict{"handleconn:" + k, fmt.Sprintf(f, a...)}) }
	sent := append(stream(hc.Seed, 0, hc.PayloadLen), stream(hc.Seed, hc.PayloadLen, hc.ClientLen)...)
	if hr.proceeded && len(hr.aborted) > 0 {
		add("abort-and-proceed", "the pending connection was both proceeded and aborted (%v)", hr.aborted)
	}
	if hr.dialed {
		got := append(append([]byte(nil), hr.dialPay...), hr.toRemote...)
		if !hasPrefix(sent, got) {
			add("uplink-not-a-prefix", "remote received %d bytes (DialStream payload %d + copied %d) that are not a prefix of the %d bytes the client sent; first difference at %d",
				len(got), len(hr.dialPay), len(hr.toRemote), len(sent), firstDiff(got, sent))
		}
		// the client's stream ended with EOF and nothing failed: everything must have arrived, then CloseWrite
		total := sent
		if hc.WaitKind == "e" && hr.waitReadOK {
			total = sent[:min(len(sent), hc.PayloadLen+min(hc.WaitN, hc.Buf, hc.ClientLen))]
		}
		if hr.copyRan && hc.ClientEnd == "eof" && hc.RemoteWLimit < 0 {
			if len(got) != len(total) {
				add("uplink-incomplete", "remote received %d of %d bytes although the client's stream ended with EOF", len(got), len(total))
			}
			if !hr.remoteCW {
				add("eof-not-mirrored:client->remote", "the client's stream ended; CloseWrite was not called on the remote connection")
			}
		}
		if hr.copyRan && hc.TargetEnd == "eof" && hc.ClientWLimit < 0 {
			if len(hr.toClient) != hc.TargetLen {
				add("downlink-incomplete", "client received %d of %d bytes", len(hr.toClient), hc.TargetLen)
			}
			if !hr.clientCW {
				add("eof-not-mirrored:remote->client", "the remote stream ended; CloseWrite was not called on the client connection")
			}
		}
	}
	if _, code := dialErrOf(hc.DialErr); code != 0 && !hc.Reject && hc.ReqOK {
		switch {
		case hr.proceeded && len(hr.aborted) == 0:
		case !hr.proceeded && len(hr.aborted) == 1 && hr.aborted[0] == fmt.Sprint(code):
		case !hr.proceeded && len(hr.aborted) == 0 && !cl0(hr):
			// the handler returned before dialing (failed Proceed / deadline / read error): nothing to report
		default:
			add("failure-reply", "dial failed with code %d: proceeded=%v aborted=%v", code, hr.proceeded, hr.aborted)
		}
	}
	if hc.Reject && hc.ReqOK && (len(hr.aborted) != 1 || hr.aborted[0] != "13" || hr.proceeded) {
		add("reject-reply", "router rejected: proceeded=%v aborted=%v", hr.proceeded, hr.aborted)
	}
	if hr.copyRan {
		if !hr.col.collected {
			add("stats-session-missing", "the copy ran (%d bytes up, %d down) and no session was collected", len(hr.dialPay)+len(hr.toRemote), len(hr.toClient))
		} else {
			if hr.col.up != uint64(len(hr.dialPay)+len(hr.toRemote)) || hr.col.down != uint64(len(hr.toClient)) || hr.col.user != hc.User {
				add("stats-mismatch", "collected (%q, down %d, up %d); delivered: remote %d (payload %d + copied %d), client %d; user %q",
					hr.col.user, hr.col.down, hr.col.up, len(hr.dialPay)+len(hr.toRemote), len(hr.dialPay), len(hr.toRemote), len(hr.toClient), hc.User)
			}
		}
	} else if hr.col.collected {
		add("stats-without-copy", "a session was collected although nothing was copied")
	}
	return vs
}

// cl0: was DialStream called at all (a failed dial is still a dial call)?
func cl0(hr *hookRun) bool { return strings.Contains(hr.trace, " dial:") }

func hasPrefix(whole, p []byte) bool {
	return len(p) <= len(whole) && string(whole[:len(p)]) == string(p)
}

func genHookCase(r *common.Rng) HookCase {
	hc := HookCase{ReqOK: !r.Chance(1, 20), Seed: r.U64(), ProceedOK: !r.Chance(1, 6), SetDlOK: !r.Chance(1, 6), ClearDlOK: !r.Chance(1, 6),
		ClientNative: r.Chance(2, 3), WaitFlag: r.Chance(3, 4), Reject: r.Chance(1, 12)}
	if r.Chance(1, 3) {
		hc.PayloadLen = common.Pick(r, []int{1, 10, 1000})
	}
	if r.Bool() {
		hc.User = "carol"
	}
	hc.Buf = common.Pick(r, []int{1, 8, 64, 1440})
	hc.WaitKind = common.Pick(r, []string{"d", "d", "e", "e", "t", "x"})
	hc.ClientLen = common.Pick(r, []int{0, 1, 7, 64, 65, 2000, 70000})
	hc.WaitN = common.Pick(r, []int{0, 1, hc.Buf - 1, hc.Buf, hc.Buf + 5, hc.ClientLen, hc.ClientLen + 3})
	if hc.WaitN < 0 {
		hc.WaitN = 0
	}
	hc.ClientChunk = common.Pick(r, []int{0, 1, 13, 4096})
	if hc.ClientLen > 5000 && hc.ClientChunk == 1 {
		hc.ClientChunk = 1000
	}
	hc.ClientEnd = common.Pick(r, []string{"eof", "eof", "eof", "err"})
	hc.TargetLen = common.Pick(r, []int{0, 1, 500, 40000})
	hc.TargetChunk = common.Pick(r, []int{0, 7, 4096})
	hc.TargetEnd = common.Pick(r, []string{"eof", "eof", "eof", "err"})
	hc.RemoteWLimit, hc.ClientWLimit = -1, -1
	if r.Chance(1, 5) {
		hc.RemoteWLimit = common.Pick(r, []int{0, 1, 50, 3000})
	}
	if r.Chance(1, 5) {
		hc.ClientWLimit = common.Pick(r, []int{0, 1, 50, 3000})
	}
	if r.Chance(1, 4) {
		hc.DialErr = common.Pick(r, []string{"refused", "netunreach", "hostunreach", "timedout", "dns", "other"})
	}
	return hc
}

func hookSig(hc *HookCase) string {
	c := *hc
	c.Seed = 0
	return fmt.Sprintf("%+v", c)
}

func runHookEngine(o *common.Options, rep *common.Report, newModel func() (*modelClient, error)) error {
	rep.Engines = append(rep.Engines, "handleconn")
	rep.Rule += "; engine handleconn: handleConn itself (NewTCPRelay + VerifHandleConn) on scripted in-memory StreamServer/PendingConn/Conn/StreamClient/Collector: " +
		"every Env field of the model is scripted (request ok/failed, payload, client native, listener flag, buffer, router reject, Proceed / SetReadDeadline / clear-deadline " +
		"success, wait read kind {data, EOF, timeout, error} x byte count around buffer and stream length, dial errors of 6 kinds, read-error and write-error endings of both copy loops); " +
		"the implementation's action list is compared literally with the model's"
	m, err := newModel()
	if err != nil {
		return err
	}
	if m != nil {
		defer m.d.Close()
	}
	eval := func(hc HookCase) error {
		hr, err := runHookCase(&hc)
		nontrivial := err == nil && strings.Count(hr.trace, " ") >= 2
		rep.Case("hc:"+hookSig(&hc), nontrivial)
		rep.Count("handleconn:wait-kind:" + hc.WaitKind)
		if err != nil {
			rep.Diverge(common.Divergence{Engine: "handleconn", Case: hc, Impl: err.Error(), Model: ""})
			return nil
		}
		for _, a := range strings.Fields(hr.trace) {
			if i := strings.IndexByte(a, ':'); i >= 0 {
				a = a[:i]
			}
			rep.Count("handleconn:action:" + a)
		}
		if m != nil {
			tr, err := m.ask(hc.line())
			if err != nil {
				return err
			}
			if tr != hr.trace {
				rep.Diverge(common.Divergence{Engine: "handleconn", Case: hc, Impl: clip(hr.trace), Model: clip(tr)})
			}
		}
		for _, v := range hookOracle(&hc, &hr) {
			rep.Fail(common.OracleFailure{Engine: "handleconn", Key: v.key, Case: hc, Detail: v.detail})
		}
		rep.TracesValidated++
		return nil
	}
	if o.Replay != "" {
		var hc HookCase
		if err := common.LoadReplay(o.Replay, &hc); err != nil {
			return err
		}
		return eval(hc)
	}
	r := common.NewRng(o.Seed ^ 0xc13)
	n := o.Budget(1000, 30000)
	for i := 0; i < n; i++ {
		if err := eval(genHookCase(r.Fork(uint64(i)))); err != nil {
			return err
		}
	}
	return nil
}

func clip(s string) string {
	// long hex fields make traces unreadable: keep the first 40 characters of each action
	fs := strings.Fields(s)
	for i, f := range fs {
		if len(f) > 60 {
			fs[i] = f[:60] + "…(" + fmt.Sprint(len(f)) + ")"
		}
	}
	return strings.Join(fs, " ")
}

var _ = hex.EncodeToString
