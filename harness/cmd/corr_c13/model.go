package main

// The model side: the scenario (plus the few timing-dependent choices read off the implementation's behaviour) is turned into an
// `hc` line for the ssv_c13 driver; the rendered action list is projected onto what is observable at the sockets.

import (
	"bytes"
	"encoding/hex"
	"fmt"
	"strconv"
	"strings"

	"ssvharness/internal/common"
)

type tables struct {
	serverNative map[string]bool
	clientNative map[string]bool
	defaultBuf   int
	defaultWait  int64
}

var serverProto = map[string]string{"direct": "direct", "none": "none", "socks5": "socks5", "socks5auth": "socks5auth", "http": "http", "httpauth": "http", "ss2022": "ss2022", "ss2022mu": "ss2022"}

func loadTables(d *common.Driver) (*tables, error) {
	t := &tables{serverNative: map[string]bool{}, clientNative: map[string]bool{}}
	ask := func(q string) (bool, error) {
		a, err := d.Ask(q)
		if err != nil {
			return false, err
		}
		if a != "0" && a != "1" {
			return false, fmt.Errorf("driver answered %q to %q", a, q)
		}
		return a == "1", nil
	}
	var err error
	for s, p := range serverProto {
		if t.serverNative[s], err = ask("native server " + p + " 0"); err != nil {
			return nil, err
		}
	}
	for _, c := range []string{"direct", "socks5", "http", "none", "ss2022"} {
		if t.clientNative[c], err = ask("native client " + c + " 0"); err != nil {
			return nil, err
		}
	}
	if t.clientNative["directtfo"], err = ask("native client direct 1"); err != nil {
		return nil, err
	}
	a, err := d.Ask("consts")
	if err != nil {
		return nil, err
	}
	f := strings.Fields(a)
	if len(f) != 2 {
		return nil, fmt.Errorf("driver answered %q to consts", a)
	}
	t.defaultWait, _ = strconv.ParseInt(f[0], 10, 64)
	t.defaultBuf, _ = strconv.Atoi(f[1])
	return t, nil
}

func hexField(b []byte) string {
	if len(b) == 0 {
		return "-"
	}
	return hex.EncodeToString(b)
}

func unhexField(s string) []byte {
	if s == "-" {
		return nil
	}
	b, _ := hex.DecodeString(s)
	return b
}

func (sc *Scenario) user() string {
	switch sc.Server {
	case "socks5auth":
		return "alice"
	case "httpauth":
		return "bob"
	case "ss2022mu":
		return "dave"
	}
	return ""
}

// failCode: the dial result code the scenario's failure produces, from the kind of failure (conn/dialresult.go semantics:
// errno of the connect(2) failure; 254 for a name lookup failure; 13 for a router rejection; 255 for anything else).
func (sc *Scenario) failCode() int {
	switch sc.Fail {
	case "refused":
		return 111
	case "unreach":
		return 101
	case "dns":
		return 254
	case "reject":
		return 13
	case "upstream":
		return 255
	}
	return 0
}

// afterRequest: what the client sends after its request (the request's own payload excluded), and what the target sends.
func (sc *Scenario) afterRequest() []byte {
	if sc.Plain {
		return sc.plainCS
	}
	return stream(sc.CSeed, sc.ReqLen, sc.clientTotal()-sc.ReqLen)
}

func (sc *Scenario) targetStream() []byte {
	if sc.Plain {
		return sc.plainTS
	}
	return stream(sc.TSeed, 0, sc.targetTotal())
}

type waitChoice struct {
	kind string // d e t x
	n    int
}

// waitChoices: the wait-read outcomes the scenario's timing admits (only consulted by the model when it decides to wait).
func (sc *Scenario) waitChoices(buf int, obs *Obs) []waitChoice {
	if obs != nil && obs.HavePayload && obs.Dialed {
		// the upstream protocol shows exactly what DialStream was given: that is the byte count the wait read returned
		n := len(obs.DialPayload)
		if n > 0 {
			return []waitChoice{{"d", n}}
		}
		return []waitChoice{{"t", 0}, {"e", 0}}
	}
	n := min(sc.FirstLen, buf)
	if sc.Plain {
		// the forwarder writes the request into the pipe as soon as the relay proceeds; how much one pipe read returns is
		// the forwarder's buffering (only visible at a Shadowsocks 2022 upstream, handled above)
		return []waitChoice{{"d", min(len(sc.plainCS), buf)}, {"t", 0}}
	}
	switch sc.Timing {
	case "early", "coalesced", "eofdata":
		if n == 0 {
			return []waitChoice{{"t", 0}}
		}
		return []waitChoice{{"d", n}, {"t", 0}}
	case "near":
		return []waitChoice{{"d", n}, {"t", 0}}
	case "eofempty":
		return []waitChoice{{"e", 0}}
	}
	return []waitChoice{{"t", 0}}
}

func b01(b bool) string {
	if b {
		return "1"
	}
	return "0"
}

func (sc *Scenario) hcLine(tb *tables, target string, w waitChoice, sched string) string {
	buf := sc.Buf
	if buf == 0 {
		buf = tb.defaultBuf
	}
	user := sc.user()
	if user == "" {
		user = "-"
	}
	rerr, derr := "-", "-"
	switch sc.Fail {
	case "":
	case "reject":
		rerr = strconv.Itoa(sc.failCode())
	default:
		derr = strconv.Itoa(sc.failCode())
	}
	return fmt.Sprintf("hc sn=%s dis=%s buf=%d req=1 addr=%s user=%s pay=%s rerr=%s cn=%s pok=1 sdl=1 cdl=1 cs=%s ts=%s wk=%s wn=%d derr=%s sched=%s",
		b01(tb.serverNative[sc.Server]), b01(sc.DisableWait), buf, target, user, hexField(stream(sc.CSeed, 0, sc.ReqLen)), rerr,
		b01(tb.clientNative[sc.Client]), hexField(sc.afterRequest()), hexField(sc.targetStream()), w.kind, w.n, derr, sched)
}

// schedFor: the schedule of the two copy loops that the scenario's ending means. Error endings put a `fail` label on the
// loop whose peer aborted. For `wclosed` the number of bytes the relay managed to write into the dead connection is the
// kernel's business: it is read off the implementation (its uplink figure, which the oracle bounds from both sides).
func (sc *Scenario) schedFor(o *Obs) string {
	switch sc.Reset {
	case "target":
		return "aL,aR,fR,eL"
	case "client":
		return "aL,aR,fL,eR"
	case "wclosed":
		if o.Stats.Sessions == 1 && o.Stats.Up < uint64(sc.clientTotal()) {
			return fmt.Sprintf("aR,eR,uL%d,fL", o.Stats.Up)
		}
		return "aR,eR,aL,eL"
	}
	return "auto"
}

// socks5Reply: RFC 1928 section 6 reply for a dial result code (errno based), written from the RFC's list.
func socks5Reply(code int) int {
	switch code {
	case 0:
		return 0
	case 13:
		return 2 // connection not allowed by ruleset
	case 100, 101, 102:
		return 3 // network unreachable
	case 112, 113:
		return 4 // host unreachable
	case 111:
		return 5 // connection refused
	}
	return 1 // general SOCKS server failure
}

// Projection: what the model's action list means at the sockets.
type Projection struct {
	Reply     string
	Waited    bool
	Dialed    bool
	DialAddr  string
	Payload   []byte
	TargetRx  []byte
	TargetEOF bool
	ClientRx  []byte
	ClientEOF bool
	Stats     Stats
}

func project(sc *Scenario, trace string) (Projection, error) {
	var p Projection
	hasReply := strings.HasPrefix(sc.Server, "socks5") || strings.HasPrefix(sc.Server, "http")
	p.Reply = "n/a"
	if hasReply {
		p.Reply = "none"
	}
	for _, a := range strings.Fields(trace) {
		f := strings.Split(a, ":")
		switch f[0] {
		case "handshake", "routed", "setdl", "cleardl", "closeremote", "closeclient":
		case "proceed":
			if hasReply && p.Reply == "none" {
				p.Reply = "ok"
			} else if hasReply {
				p.Reply += "+ok"
			}
		case "abort":
			code, _ := strconv.Atoi(f[1])
			if hasReply {
				r := ""
				if strings.HasPrefix(sc.Server, "socks5") {
					r = fmt.Sprintf("fail:%d", socks5Reply(code))
				} else {
					r = "fail:502"
				}
				if p.Reply == "none" {
					p.Reply = r
				} else {
					p.Reply += "+" + r
				}
			}
		case "waitread":
			p.Waited = true
		case "dial":
			// the address itself may contain ':' (IPv6 never used here; host:port does)
			p.Dialed = true
			p.DialAddr = strings.Join(f[1:len(f)-1], ":")
			p.Payload = unhexField(f[len(f)-1])
			p.TargetRx = append([]byte(nil), p.Payload...)
		case "copied":
			p.TargetRx = append(p.TargetRx, unhexField(f[1])...)
			p.ClientRx = unhexField(f[2])
		case "cw":
			if f[1] == "right" {
				p.TargetEOF = true
			} else {
				p.ClientEOF = true
			}
		case "collect":
			u := f[1]
			if u == "-" {
				u = ""
			}
			d, _ := strconv.ParseUint(f[2], 10, 64)
			up, _ := strconv.ParseUint(f[3], 10, 64)
			p.Stats = Stats{Sessions: 1, Down: d, Up: up, User: u}
		case "blocked":
			return p, fmt.Errorf("the model's handler is blocked in the copy under a complete schedule: %s", trace)
		default:
			return p, fmt.Errorf("unknown action %q in %q", a, trace)
		}
	}
	return p, nil
}

// compare returns "" when the implementation's observation is the model's projection.
func compare(sc *Scenario, p *Projection, o *Obs) string {
	var d []string
	if sc.Plain && sc.Fail != "" && p.Reply == "ok" {
		p.Reply = "none" // Proceed on a non-CONNECT request writes nothing: a later failure is a bare close
	}
	if p.Reply != o.Reply {
		d = append(d, fmt.Sprintf("reply model=%s impl=%s", p.Reply, o.Reply))
	}
	failed := sc.Fail != ""
	wantDialed := p.Dialed && (!failed || sc.Fail == "upstream")
	if wantDialed != o.Dialed {
		d = append(d, fmt.Sprintf("dialed model=%v impl=%v", wantDialed, o.Dialed))
	}
	if wantDialed && o.Dialed {
		if p.DialAddr != o.DialAddr {
			d = append(d, fmt.Sprintf("dial address model=%s impl=%s", p.DialAddr, o.DialAddr))
		}
		// a Shadowsocks 2022 request header carries at most 65535 bytes minus address and lengths; the client library sends
		// the rest of DialStream's payload as the first ordinary chunk, so for a larger payload the upstream shows a prefix
		const ssHeaderRoom = 0xFFFF - 300
		if o.HavePayload && len(p.Payload) > ssHeaderRoom {
			if len(o.DialPayload) < ssHeaderRoom || !bytes.HasPrefix(p.Payload, o.DialPayload) {
				d = append(d, fmt.Sprintf("dial payload model=%d bytes impl=%d bytes (not a header-sized prefix)", len(p.Payload), len(o.DialPayload)))
			}
		} else if o.HavePayload && !bytes.Equal(p.Payload, o.DialPayload) {
			d = append(d, fmt.Sprintf("dial payload model=%d bytes impl=%d bytes", len(p.Payload), len(o.DialPayload)))
		}
	}
	checkTarget, checkClient := !failed, !failed
	switch sc.Reset {
	case "target", "wclosed": // the target is gone: what it held when it left is the oracle's business (bounds)
		checkTarget = false
	case "client":
		checkClient = false
	}
	if sc.Plain { // the response reaches the client through the proxy's response forwarder (C16); its bytes are checked by the oracle
		checkClient = false
	}
	if checkTarget {
		if !bytes.Equal(p.TargetRx, o.TargetRx) {
			d = append(d, fmt.Sprintf("target stream model=%d bytes impl=%d bytes (first difference at %d)", len(p.TargetRx), len(o.TargetRx), firstDiff(p.TargetRx, o.TargetRx)))
		}
		if p.TargetEOF != o.TargetEOF {
			d = append(d, fmt.Sprintf("EOF at target model=%v impl=%v", p.TargetEOF, o.TargetEOF))
		}
	}
	if checkClient {
		if !bytes.Equal(p.ClientRx, o.ClientRx) {
			d = append(d, fmt.Sprintf("client stream model=%d bytes impl=%d bytes (first difference at %d)", len(p.ClientRx), len(o.ClientRx), firstDiff(p.ClientRx, o.ClientRx)))
		}
		if p.ClientEOF != o.ClientEOF {
			d = append(d, fmt.Sprintf("EOF at client model=%v impl=%v", p.ClientEOF, o.ClientEOF))
		}
	}
	if failed {
		if len(o.ClientRx) != 0 {
			d = append(d, fmt.Sprintf("client received %d bytes after a failed connection", len(o.ClientRx)))
		}
		if sc.Fail != "upstream" && len(o.TargetRx) != 0 {
			d = append(d, fmt.Sprintf("target received %d bytes", len(o.TargetRx)))
		}
	}
	if p.Stats.Sessions != o.Stats.Sessions || p.Stats.Down != o.Stats.Down || p.Stats.Up != o.Stats.Up || p.Stats.User != o.Stats.User || o.Stats.Others != "" {
		d = append(d, fmt.Sprintf("stats model=%+v impl=%+v", p.Stats, o.Stats))
	}
	return strings.Join(d, "; ")
}

func firstDiff(a, b []byte) int {
	n := min(len(a), len(b))
	for i := 0; i < n; i++ {
		if a[i] != b[i] {
			return i
		}
	}
	return n
}
