package main

// Plain-HTTP proxying through the TCP relay: a non-CONNECT request makes the HTTP server hand handleConn a pending connection
// whose Proceed returns an in-memory pipe fed by the request forwarder. What C13 says about that path: the relay dials the
// host named by the request, the request (head as rewritten by the proxy - C16's business - and body) reaches the target
// exactly once, the response comes back, end-of-stream is mirrored, and the statistics equal the bytes seen at the target's
// socket (uplink) and written by the target (downlink).

import (
	"bytes"
	"encoding/base64"
	"fmt"
	"io"
	"net"
	"strconv"
	"strings"
	"time"

	"go.uber.org/zap"
)

const plainPath = "/c13/plain?x=1"

// readHTTPMessage reads one message head (through CRLF CRLF) and Content-Length body from r, starting with `have`.
func readHTTPMessage(r io.Reader, have []byte) (raw, head, body []byte, err error) {
	buf := make([]byte, 32768)
	raw = append([]byte(nil), have...)
	need := -1
	for {
		if i := bytes.Index(raw, []byte("\r\n\r\n")); i >= 0 && need < 0 {
			head = raw[:i+4]
			need = 0
			for _, l := range strings.Split(string(head), "\r\n") {
				if k, v, ok := strings.Cut(l, ":"); ok && strings.EqualFold(strings.TrimSpace(k), "Content-Length") {
					need, _ = strconv.Atoi(strings.TrimSpace(v))
				}
			}
		}
		if need >= 0 && len(raw) >= len(head)+need {
			return raw, head, raw[len(head) : len(head)+need], nil
		}
		n, e := r.Read(buf)
		raw = append(raw, buf[:n]...)
		if e != nil {
			if need >= 0 && len(raw) >= len(head)+need {
				return raw, head, raw[len(head) : len(head)+need], nil
			}
			return raw, head, nil, e
		}
	}
}

type plainInfo struct {
	reqLine, hostHdr string
	body             []byte
	extra            int // bytes after the first request
}

func runPlainHTTP(sc *Scenario, ev *env) (obs Obs, vs []verdict, err error) {
	add := func(k, f string, a ...any) { vs = append(vs, verdict{"plain-http:" + k, fmt.Sprintf(f, a...)}) }
	deadline := time.Now().Add(sessionLimit)
	ln, err := net.ListenTCP("tcp", &net.TCPAddr{IP: net.IPv4(127, 0, 0, 1)})
	if err != nil {
		return obs, nil, err
	}
	defer ln.Close()
	r, err := startRelay(sc, ln.Addr().String(), ev)
	if err != nil {
		return obs, nil, err
	}
	defer r.stop()
	host := sc.targetAddrFor(ln.Addr().String())
	reqBody := stream(sc.CSeed, 0, sc.FirstLen)
	respBody := stream(sc.TSeed, 0, sum(sc.TargetLens))
	var info plainInfo
	tdone := make(chan struct{})
	go func() {
		defer close(tdone)
		ln.SetDeadline(deadline)
		tc, err := ln.AcceptTCP()
		if err != nil {
			return
		}
		defer tc.Close()
		tc.SetDeadline(deadline)
		var c halfConn = tc
		var initial []byte
		up, err := upstreamServer(sc.Client)
		if err != nil {
			obs.Errors = append(obs.Errors, "upstream: "+err.Error())
			return
		}
		if up != nil {
			req, err := up.HandleStream(tc, zap.NewNop())
			if err != nil {
				obs.Errors = append(obs.Errors, "upstream handshake: "+err.Error())
				return
			}
			obs.Dialed, obs.DialAddr = true, req.Addr.String()
			if sc.Client == "ss2022" {
				obs.HavePayload, obs.DialPayload = true, append([]byte(nil), req.Payload...)
			}
			initial = append([]byte(nil), req.Payload...)
			pc, err := req.Proceed()
			if err != nil {
				obs.Errors = append(obs.Errors, "upstream proceed: "+err.Error())
				return
			}
			c = pc
		} else {
			obs.Dialed, obs.DialAddr = true, ln.Addr().String()
		}
		raw, head, body, err := readHTTPMessage(c, initial)
		if err != nil {
			obs.TargetRx = raw
			obs.Errors = append(obs.Errors, "target read request: "+err.Error())
			return
		}
		lines := strings.Split(string(head), "\r\n")
		info.reqLine = lines[0]
		for _, l := range lines[1:] {
			if k, v, ok := strings.Cut(l, ":"); ok && strings.EqualFold(k, "Host") {
				info.hostHdr = strings.TrimSpace(v)
			}
		}
		info.body = body
		resp := append([]byte(fmt.Sprintf("HTTP/1.1 200 OK\r\nContent-Type: application/octet-stream\r\nContent-Length: %d\r\n\r\n", len(respBody))), respBody...)
		n, _ := c.Write(resp)
		obs.TargetSent = n
		// then the client is done: end-of-stream must arrive
		rest, rerr := io.ReadAll(c)
		raw = append(raw, rest...)
		info.extra = len(raw) - len(head) - len(body)
		obs.TargetRx, obs.TargetRxLen, obs.TargetEOF = raw, len(raw), rerr == nil
		c.CloseWrite()
	}()

	raw, err := net.DialTimeout("tcp", r.addr, 3*time.Second)
	if err != nil {
		return obs, nil, err
	}
	cc := raw.(*net.TCPConn)
	defer cc.Close()
	cc.SetDeadline(deadline)
	head := "POST http://" + host + plainPath + " HTTP/1.1\r\nHost: " + host + "\r\nContent-Type: application/octet-stream\r\nContent-Length: " + strconv.Itoa(len(reqBody)) + "\r\n"
	if sc.Server == "httpauth" {
		head += "Proxy-Authorization: Basic " + base64.StdEncoding.EncodeToString([]byte("bob:builder")) + "\r\n"
	}
	if _, err = cc.Write(append([]byte(head+"\r\n"), reqBody...)); err != nil {
		return obs, nil, err
	}
	obs.ClientSent = len(reqBody)
	_, rhead, rbody, rerr := readHTTPMessage(cc, nil)
	status := ""
	if len(rhead) >= 12 {
		status = string(rhead[9:12])
	}
	switch {
	case status == "200":
		obs.Reply = "ok"
	case status != "":
		obs.Reply = "fail:" + status
	default:
		obs.Reply = "none"
	}
	obs.ClientRx, obs.ClientRxLen = rbody, len(rbody)
	cc.CloseWrite()
	tail, terr := io.ReadAll(cc)
	obs.ClientEOF = terr == nil
	ln.Close()
	select {
	case <-tdone:
	case <-time.After(time.Until(deadline) + time.Second):
		obs.Errors = append(obs.Errors, "target did not finish")
	}
	expect := obs.Dialed && sc.Fail == ""
	pollEnd := time.Now().Add(8 * time.Second)
	for i := 0; ; i++ {
		st, err := r.stats()
		if err != nil {
			obs.Errors = append(obs.Errors, "stats: "+err.Error())
			break
		}
		obs.Stats = st
		if st.Sessions > 0 || time.Now().After(pollEnd) || (!expect && i >= 1) {
			break
		}
		time.Sleep(10 * time.Millisecond)
	}

	// ---- oracle (from the statement) ----
	if sc.Fail != "" {
		// a non-CONNECT request has no success reply of its own: when the relay had to proceed first in order to collect the
		// initial payload (the exemption of the statement) the failure can only show as a closed connection
		if obs.Reply != "fail:502" && !(mayWaitFirst(sc) && obs.Reply == "none") {
			add("reply-mismatch:"+sc.Fail, "reply %s for a request whose onward connection failed, want 502", obs.Reply)
		}
		if obs.Dialed {
			add("dialed-despite-failure", "the target saw a connection")
		}
		if obs.Stats.Sessions != 0 || obs.Stats.Up != 0 || obs.Stats.Down != 0 {
			add("stats-for-failed-connection", "stats %+v", obs.Stats)
		}
		return obs, vs, nil
	}
	if rerr != nil || obs.Reply != "ok" {
		add("no-response", "client got reply %s (%v)", obs.Reply, rerr)
	}
	if !obs.Dialed {
		add("not-dialed", "the target never saw the connection")
		return obs, vs, nil
	}
	if want := sc.targetAddrFor(obs.DialAddr); obs.DialAddr != want {
		add("wrong-destination", "dialed %s, the request names %s", obs.DialAddr, want)
	}
	if want := "POST " + plainPath + " HTTP/1.1"; info.reqLine != want {
		add("request-line", "target saw %q, want %q", info.reqLine, want)
	}
	if info.hostHdr != host {
		add("host-header", "target saw Host %q, want %q", info.hostHdr, host)
	}
	if !bytes.Equal(info.body, reqBody) {
		add("request-body", "target received a %d-byte body, the client sent %d bytes (first difference at %d)", len(info.body), len(reqBody), firstDiff(info.body, reqBody))
	}
	if info.extra != 0 {
		add("bytes-after-request", "target received %d bytes after the one request that was sent (forwarded twice?)", info.extra)
	}
	if !bytes.Equal(rbody, respBody) {
		add("response-body", "client received a %d-byte body, the target sent %d bytes", len(rbody), len(respBody))
	}
	if len(tail) != 0 {
		add("bytes-after-response", "client received %d bytes after the response", len(tail))
	}
	if !obs.TargetEOF {
		add("eof-not-mirrored:client->target", "the client finished; the target never saw end-of-stream")
	}
	if !obs.ClientEOF {
		add("eof-not-mirrored:target->client", "the target finished; the client never saw end-of-stream")
	}
	for _, e := range obs.Errors {
		add("error-or-hang", "%s", e)
	}
	switch {
	case obs.Stats.Sessions != 1:
		add("stats-sessions", "tcpSessions=%d after one session", obs.Stats.Sessions)
	default:
		if obs.Stats.Up != uint64(len(obs.TargetRx)) {
			add("stats-uplink", "uplinkBytes=%d, the target's socket received %d bytes", obs.Stats.Up, len(obs.TargetRx))
		}
		if obs.Stats.Down != uint64(obs.TargetSent) {
			add("stats-downlink", "downlinkBytes=%d, the target wrote %d bytes", obs.Stats.Down, obs.TargetSent)
		}
		if obs.Stats.User != sc.user() {
			add("stats-user", "charged to %q, the request was made by %q", obs.Stats.User, sc.user())
		}
	}
	// for the model: the relay's "client stream" on this path is what the request forwarder wrote into the pipe, i.e. what the target got
	sc.plainCS = obs.TargetRx
	sc.plainTS = append([]byte(fmt.Sprintf("HTTP/1.1 200 OK\r\nContent-Type: application/octet-stream\r\nContent-Length: %d\r\n\r\n", len(respBody))), respBody...)[:obs.TargetSent]
	return obs, vs, nil
}
