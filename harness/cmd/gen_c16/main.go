// gen_c16: regenerates lean/SSV/Gen/C16.lean from /repo/httpproxy/server.go.
//
// Facts: the header names deleted by the hop-by-hop filter (in order), the connection options it keeps, the
// names deleted around it, whether the trailer is filtered at end of body, whether net/http's default
// User-Agent is suppressed, the capacity of the request queue, the status codes of the 3xx rule, the final
// status threshold, the close test, the order of the steps of both forwarding loops and the canned responses.
// Every function it reads is matched statement by statement; an unrecognised shape is an error (GEN-BROKEN).
package main

import (
	"fmt"
	"go/ast"
	"go/token"
	"regexp"
	"strconv"
	"strings"

	"ssvharness/internal/gen"
)

func chars(s string) string {
	var q []string
	for _, r := range s {
		switch r {
		case '\'':
			q = append(q, `'\''`)
		case '\\':
			q = append(q, `'\\'`)
		default:
			q = append(q, "'"+string(r)+"'")
		}
	}
	return "[" + strings.Join(q, ", ") + "]"
}

func charsList(xs []string) string {
	q := make([]string, len(xs))
	for i, x := range xs {
		q[i] = chars(x)
	}
	return "[" + strings.Join(q, ", ") + "]"
}

func strLit(e ast.Expr) (string, bool) {
	bl, ok := e.(*ast.BasicLit)
	if !ok || bl.Kind != token.STRING {
		return "", false
	}
	s, err := strconv.Unquote(bl.Value)
	return s, err == nil
}

// the loop over the Connection values, with the map names abstracted
const loopTemplate = `for _, opts := range CONN { var ( opt string found bool ) for { opt, opts, found = strings.Cut(opts, ",") opt = strings.TrimSpace(opt) canOpt := http.CanonicalHeaderKey(opt) switch canOpt { case KEPT: default: DELS } if !found { break } } }`

// filterFunc reads a function of the shape: [loop over Connection values] ; delete(h, "...")* and returns
// the kept options, the maps the loop deletes from, and the listed names per map.
func filterFunc(p *gen.Pkg, fd *ast.FuncDecl, connExpr string) (kept []string, loopMaps []string, listed map[string][]string, err error) {
	listed = map[string][]string{}
	sawLoop := false
	for _, st := range fd.Body.List {
		switch s := st.(type) {
		case *ast.RangeStmt:
			if sawLoop {
				return nil, nil, nil, fmt.Errorf("%s: second range loop", fd.Name.Name)
			}
			sawLoop = true
			src := p.Src(s)
			// abstract the case list and the delete statements
			var sw *ast.SwitchStmt
			ast.Inspect(s, func(n ast.Node) bool {
				if x, ok := n.(*ast.SwitchStmt); ok {
					sw = x
				}
				return true
			})
			if sw == nil || len(sw.Body.List) != 2 {
				return nil, nil, nil, fmt.Errorf("%s: switch over the option not found", fd.Name.Name)
			}
			c0, c1 := sw.Body.List[0].(*ast.CaseClause), sw.Body.List[1].(*ast.CaseClause)
			if len(c0.Body) != 0 || c1.List != nil {
				return nil, nil, nil, fmt.Errorf("%s: unexpected switch clauses", fd.Name.Name)
			}
			var keptSrc []string
			for _, e := range c0.List {
				v, ok := strLit(e)
				if !ok {
					return nil, nil, nil, fmt.Errorf("%s: non-literal case %s", fd.Name.Name, p.Src(e))
				}
				kept = append(kept, v)
				keptSrc = append(keptSrc, p.Src(e))
			}
			var delSrc []string
			for _, d := range c1.Body {
				m := regexp.MustCompile(`^delete\((\w+), canOpt\)$`).FindStringSubmatch(p.Src(d))
				if m == nil {
					return nil, nil, nil, fmt.Errorf("%s: unexpected statement in default clause: %s", fd.Name.Name, p.Src(d))
				}
				loopMaps = append(loopMaps, m[1])
				delSrc = append(delSrc, p.Src(d))
			}
			want := strings.NewReplacer("CONN", connExpr, "KEPT", strings.Join(keptSrc, ", "), "DELS", strings.Join(delSrc, " ")).Replace(loopTemplate)
			if src != want {
				return nil, nil, nil, fmt.Errorf("%s: the loop over the Connection values has an unrecognised shape: %s", fd.Name.Name, src)
			}
		case *ast.ExprStmt:
			call, ok := s.X.(*ast.CallExpr)
			if !ok || p.Src(call.Fun) != "delete" || len(call.Args) != 2 {
				return nil, nil, nil, fmt.Errorf("%s: unexpected statement %s", fd.Name.Name, p.Src(s))
			}
			if !sawLoop {
				return nil, nil, nil, fmt.Errorf("%s: delete before the loop over the Connection values: %s", fd.Name.Name, p.Src(s))
			}
			name, ok := strLit(call.Args[1])
			if !ok {
				return nil, nil, nil, fmt.Errorf("%s: non-literal delete %s", fd.Name.Name, p.Src(s))
			}
			m := p.Src(call.Args[0])
			listed[m] = append(listed[m], name)
		default:
			return nil, nil, nil, fmt.Errorf("%s: unexpected statement %s", fd.Name.Name, p.Src(st))
		}
	}
	if !sawLoop {
		return nil, nil, nil, fmt.Errorf("%s: no loop over the Connection values", fd.Name.Name)
	}
	return
}

func paramsOf(p *gen.Pkg, fd *ast.FuncDecl) string {
	var parts []string
	for _, f := range fd.Type.Params.List {
		var names []string
		for _, n := range f.Names {
			names = append(names, n.Name)
		}
		parts = append(parts, strings.Join(names, ", ")+" "+p.Src(f.Type))
	}
	return "(" + strings.Join(parts, ", ") + ")"
}

func isLogging(p *gen.Pkg, st ast.Stmt) bool {
	src := p.Src(st)
	return strings.HasPrefix(src, "if ce := logger.Check(") || strings.HasPrefix(src, "logger.Debug(") || strings.HasPrefix(src, "logger.Warn(")
}

func main() {
	gen.Main("C16", func(c *gen.Ctx, l *gen.Lean) error {
		p, err := c.Load("httpproxy")
		if err != nil {
			return err
		}
		// ---------- the filter ----------
		rcsf, err := p.Func("", "removeConnectionSpecificFields")
		if err != nil {
			return err
		}
		params := paramsOf(p, rcsf)
		if params != "(header, trailer http.Header)" {
			return fmt.Errorf("removeConnectionSpecificFields: unexpected parameters %s", params)
		}
		var kept, deleted []string
		trailerFullFilter := false
		body := p.Src(rcsf.Body)
		if body == `{ connection := header["Connection"] removeHopByHopFields(header, connection) removeHopByHopFields(trailer, connection) }` {
			f, err := p.Func("", "removeHopByHopFields")
			if err != nil {
				return err
			}
			if ps := paramsOf(p, f); ps != "(h http.Header, connection []string)" {
				return fmt.Errorf("removeHopByHopFields: unexpected parameters %s", ps)
			}
			k, lm, listed, err := filterFunc(p, f, "connection")
			if err != nil {
				return err
			}
			if len(lm) != 1 || lm[0] != "h" || len(listed) != 1 {
				return fmt.Errorf("removeHopByHopFields: deletes from %v / %v, expected only from h", lm, listed)
			}
			kept, deleted, trailerFullFilter = k, listed["h"], true
		} else {
			k, lm, listed, err := filterFunc(p, rcsf, `header["Connection"]`)
			if err != nil {
				return err
			}
			if strings.Join(lm, ",") != "header,trailer" || len(listed) != 1 || listed["header"] == nil {
				return fmt.Errorf("removeConnectionSpecificFields: loop deletes from %v, list from %v: unrecognised", lm, listed)
			}
			kept, deleted = k, listed["header"]
		}
		l.Raw("/-- connection options the filter keeps (`case ...:` of the switch) -/\ndef keptOptions : List (List Char) := " + charsList(kept) + "\n")
		l.Raw("/-- names deleted after the loop over the Connection values, in order -/\ndef deletedFields : List (List Char) := " + charsList(deleted) + "\n")

		// ---------- serverForwardRequests ----------
		sfr, err := p.Func("", "serverForwardRequests")
		if err != nil {
			return err
		}
		if len(sfr.Body.List) != 2 || p.Src(sfr.Body.List[0]) != "fixedHost := req.Host" {
			return fmt.Errorf("serverForwardRequests: unexpected prologue")
		}
		loop, ok := sfr.Body.List[1].(*ast.ForStmt)
		if !ok || loop.Cond != nil {
			return fmt.Errorf("serverForwardRequests: no endless loop")
		}
		var steps []string
		var extra []string
		suppressUA, trailerAtEOF := false, false
		for _, st := range loop.Body.List {
			src := p.Src(st)
			switch {
			case isLogging(p, st):
			case src == `req.Body = newTrailerFilteringBody(req.Body, req.Trailer, req.Header["Connection"])`:
				steps = append(steps, "wrapBody")
				trailerAtEOF = true
			case src == "removeConnectionSpecificFields(req.Header, req.Trailer)":
				steps = append(steps, "filter")
			case strings.HasPrefix(src, "delete(req.Header, "):
				call := st.(*ast.ExprStmt).X.(*ast.CallExpr)
				name, ok := strLit(call.Args[1])
				if !ok {
					return fmt.Errorf("serverForwardRequests: %s", src)
				}
				extra = append(extra, name)
				steps = append(steps, "delete")
			case src == `if _, ok := req.Header["User-Agent"]; !ok { req.Header["User-Agent"] = nil }`:
				steps = append(steps, "uaGuard")
				suppressUA = true
			case src == "select { case reqCh <- req: case <-respDone: }":
				steps = append(steps, "announce")
			case src == `if err = req.Write(plbw); err != nil { return fmt.Errorf("failed to write HTTP request: %w", err) }`:
				steps = append(steps, "write")
			case src == `if err = plbw.Flush(); err != nil { return fmt.Errorf("failed to flush HTTP request: %w", err) }`:
				steps = append(steps, "flush")
			case src == "req, err = http.ReadRequest(rwbr)":
				steps = append(steps, "read")
			case src == `if err != nil { if err == io.EOF { return nil } return fmt.Errorf("failed to read HTTP request: %w", err) }`:
				steps = append(steps, "readErr")
			case strings.HasPrefix(src, "if req.Method == http.MethodConnect { ") && strings.HasSuffix(src, " return nil }"):
				steps = append(steps, "checkConnect")
			case strings.HasPrefix(src, "if req.Host != fixedHost { ") && strings.HasSuffix(src, " return nil }"):
				steps = append(steps, "checkHost")
			default:
				return fmt.Errorf("serverForwardRequests: unrecognised statement: %s", src)
			}
		}
		if trailerAtEOF {
			// the wrapper must be the recognised one
			nf, err := p.Func("", "newTrailerFilteringBody")
			if err != nil {
				return err
			}
			if s := p.Src(nf.Body); s != `{ if trailer == nil { return body } return &trailerFilteringBody{ReadCloser: body, trailer: trailer, connection: connection} }` {
				return fmt.Errorf("newTrailerFilteringBody: unrecognised body %s", s)
			}
			rd, err := p.Func("*trailerFilteringBody", "Read")
			if err != nil {
				return err
			}
			if s := p.Src(rd.Body); s != `{ n, err = b.ReadCloser.Read(p) if err == io.EOF { removeHopByHopFields(b.trailer, b.connection) } return n, err }` {
				return fmt.Errorf("trailerFilteringBody.Read: unrecognised body %s", s)
			}
			if !trailerFullFilter {
				return fmt.Errorf("trailer wrapper present but removeHopByHopFields is not the recognised filter")
			}
		}
		l.Raw("/-- names deleted from the request header besides the filter -/\ndef reqExtraDeleted : List (List Char) := " + charsList(extra) + "\n")
		l.BoolDef("suppressDefaultUserAgent", suppressUA, "serverForwardRequests marks User-Agent as explicitly absent before req.Write")
		l.BoolDef("trailerFilteredAtEOF", trailerAtEOF, "the request body is wrapped so that received trailer fields are filtered at end of body")
		l.Raw("/-- order of the steps of one round of serverForwardRequests -/\ndef fwdSteps : List String := " + gen.LeanStrList(steps) + "\n")

		// ---------- Proceed: queue capacity ----------
		pr, err := p.Func("serverNonConnectPendingConn", "Proceed")
		if err != nil {
			return err
		}
		capV := ""
		ast.Inspect(pr, func(n ast.Node) bool {
			if call, ok := n.(*ast.CallExpr); ok && p.Src(call.Fun) == "make" && len(call.Args) == 2 && p.Src(call.Args[0]) == "chan *http.Request" {
				if v, ok := p.EvalInt(call.Args[1]); ok {
					capV = v
				}
			}
			return true
		})
		if capV == "" {
			return fmt.Errorf("Proceed: make(chan *http.Request, N) not found")
		}
		l.NatDef("queueCap", capV, "capacity of reqCh in serverNonConnectPendingConn.Proceed")

		// ---------- serverForwardResponses ----------
		sfp, err := p.Func("", "serverForwardResponses")
		if err != nil {
			return err
		}
		outer, ok := sfp.Body.List[0].(*ast.ForStmt)
		if !ok || len(sfp.Body.List) != 1 || len(outer.Body.List) != 4 {
			return fmt.Errorf("serverForwardResponses: unexpected outer loop")
		}
		if s := p.Src(outer.Body.List[0]); !strings.HasPrefix(s, "if _, err := plbr.Peek(1); err != nil { if err == io.EOF { return nil }") {
			return fmt.Errorf("serverForwardResponses: no Peek first: %s", s)
		}
		if s := p.Src(outer.Body.List[1]) + " " + p.Src(outer.Body.List[2]); s != "req, ok := <-reqCh if !ok { return errPayloadAfterFinalResponse }" {
			return fmt.Errorf("serverForwardResponses: unexpected take: %s", s)
		}
		inner, ok := outer.Body.List[3].(*ast.ForStmt)
		if !ok || inner.Cond != nil {
			return fmt.Errorf("serverForwardResponses: no inner loop")
		}
		var rsteps []string
		var codes []string
		wrapResp := false
		for _, st := range inner.Body.List {
			src := p.Src(st)
			switch {
			case isLogging(p, st):
			case src == "resp, err := http.ReadResponse(plbr, req)":
				rsteps = append(rsteps, "read")
			case strings.HasPrefix(src, "if err != nil { logger.Warn(\"Failed to read HTTP response\"") && strings.Contains(src, "_ = send502(rw) return fmt.Errorf("):
				rsteps = append(rsteps, "readErr502")
			case strings.HasPrefix(src, "switch resp.StatusCode {"):
				sw := st.(*ast.SwitchStmt)
				if len(sw.Body.List) != 1 {
					return fmt.Errorf("serverForwardResponses: status switch with %d clauses", len(sw.Body.List))
				}
				cc := sw.Body.List[0].(*ast.CaseClause)
				for _, e := range cc.List {
					v, ok := p.EvalInt(e)
					if !ok {
						return fmt.Errorf("serverForwardResponses: status %s", p.Src(e))
					}
					codes = append(codes, v)
				}
				var keep []ast.Stmt
				for _, b := range cc.Body {
					if !isLogging(p, b) {
						keep = append(keep, b)
					}
				}
				got := ""
				for _, b := range keep {
					got += p.Src(b) + " "
				}
				want := `location := resp.Header["Location"] if len(location) != 1 { break } url, err := url.Parse(location[0]) if err != nil { break } switch url.Host { case req.Host, "": default: resp.Close = true } `
				if got != want {
					return fmt.Errorf("serverForwardResponses: unrecognised 3xx rule: %s", got)
				}
				rsteps = append(rsteps, "redirectRule")
			case src == `resp.Body = newTrailerFilteringBody(resp.Body, resp.Trailer, resp.Header["Connection"])`:
				rsteps = append(rsteps, "wrapBody")
				wrapResp = true
			case src == "removeConnectionSpecificFields(resp.Header, resp.Trailer)":
				rsteps = append(rsteps, "filter")
			case strings.HasPrefix(src, "if err = resp.Write(rwbwpcw); err != nil {"):
				rsteps = append(rsteps, "write")
			case strings.HasPrefix(src, "if err = rwbw.Flush(); err != nil {"):
				rsteps = append(rsteps, "flush")
			case src == "if req.Close || resp.Close { return errPayloadAfterFinalResponse }":
				rsteps = append(rsteps, "closeTest")
			case strings.HasPrefix(src, "if resp.StatusCode >= ") && strings.HasSuffix(src, " { break }"):
				// last statement of the loop body: a final response leaves the inner loop, an interim one goes round
				cond := st.(*ast.IfStmt).Cond.(*ast.BinaryExpr)
				v, ok := p.EvalInt(cond.Y)
				if !ok || cond.Op != token.GEQ || st != inner.Body.List[len(inner.Body.List)-1] {
					return fmt.Errorf("serverForwardResponses: final test %s", src)
				}
				l.NatDef("finalStatus", v, "a response with StatusCode >= this is final")
				rsteps = append(rsteps, "finalTest")
			case strings.HasPrefix(src, "if resp.StatusCode < ") && strings.HasSuffix(src, " { continue }"):
				// an interim response goes round; what follows applies to final responses only and must end in `break`
				cond := st.(*ast.IfStmt).Cond.(*ast.BinaryExpr)
				v, ok := p.EvalInt(cond.Y)
				if !ok || cond.Op != token.LSS || p.Src(inner.Body.List[len(inner.Body.List)-1]) != "break" {
					return fmt.Errorf("serverForwardResponses: final test %s", src)
				}
				l.NatDef("finalStatus", v, "a response with StatusCode >= this is final")
				rsteps = append(rsteps, "finalTest")
			case src == "break" && st == inner.Body.List[len(inner.Body.List)-1]:
			default:
				return fmt.Errorf("serverForwardResponses: unrecognised statement: %s", src)
			}
		}
		if wrapResp != trailerAtEOF {
			return fmt.Errorf("trailer wrapper used for only one direction (request %v, response %v)", trailerAtEOF, wrapResp)
		}
		l.Raw("/-- status codes of the Location rule -/\ndef redirectCodes : List Nat := [" + strings.Join(codes, ", ") + "]\n")
		l.Raw("/-- order of the steps of the inner loop of serverForwardResponses -/\ndef respSteps : List String := " + gen.LeanStrList(rsteps) + "\n")

		// ---------- ServerHandle ----------
		sh, err := p.Func("", "ServerHandle")
		if err != nil {
			return err
		}
		var hloop *ast.ForStmt
		for _, st := range sh.Body.List {
			if f, ok := st.(*ast.ForStmt); ok && hloop == nil {
				hloop = f
			}
		}
		if hloop == nil {
			return fmt.Errorf("ServerHandle: no loop")
		}
		var hsteps []string
		authTest := ""
		for _, st := range hloop.Body.List {
			src := p.Src(st)
			switch {
			case isLogging(p, st):
			case src == "req, err = http.ReadRequest(rwbr)":
				hsteps = append(hsteps, "read")
			case strings.HasPrefix(src, "if err != nil { if failedAuthAttempts > 0 { return nil, conn.Addr{}, \"\", fmt.Errorf(") && strings.HasSuffix(src, `return nil, conn.Addr{}, "", fmt.Errorf("failed to read HTTP request: %w", err) }`):
				hsteps = append(hsteps, "readErr")
			case len(hsteps) == 2 && strings.HasPrefix(src, "if ") && strings.HasSuffix(src, " { break }"):
				// the "authentication disabled" test: its condition is a fact the theorems depend on
				// (NewProxyServer signals "enabled" by a non-nil, possibly EMPTY map)
				authTest = p.Src(st.(*ast.IfStmt).Cond)
				hsteps = append(hsteps, "noAuthBreak")
			case src == "var ok bool":
			case src == "username, ok = serverHandleBasicAuth(req.Header, usernameByToken)":
				hsteps = append(hsteps, "check")
			case src == "if ok { break }":
				hsteps = append(hsteps, "okBreak")
			case src == "failedAuthAttempts++":
				hsteps = append(hsteps, "count")
			case strings.HasPrefix(src, "if err = send407(rw); err != nil { return nil, conn.Addr{}, \"\", "):
				hsteps = append(hsteps, "send407")
			case src == `if req.Close { return nil, conn.Addr{}, "", newFailedAuthAttemptsError(failedAuthAttempts) }`:
				hsteps = append(hsteps, "closeReturn")
			default:
				return fmt.Errorf("ServerHandle: unrecognised statement in the loop: %s", src)
			}
		}
		if authTest == "" {
			return fmt.Errorf("ServerHandle: the test for disabled authentication was not found")
		}
		l.StrDef("authDisabledTest", authTest, "condition under which ServerHandle skips authentication")
		l.Raw("/-- order of the steps of ServerHandle's authentication loop -/\ndef handleSteps : List String := " + gen.LeanStrList(hsteps) + "\n")

		// ---------- canned responses ----------
		var canned []string
		for _, name := range []string{"send200", "send400", "send407", "send502"} {
			f, err := p.Func("", name)
			if err != nil {
				return err
			}
			lit := ""
			ast.Inspect(f, func(n ast.Node) bool {
				if s, ok := n.(ast.Expr); ok {
					if v, ok := strLit(s); ok {
						lit = v
					}
				}
				return true
			})
			m := regexp.MustCompile(`^HTTP/1\.1 (\d{3}) [^\r]*\r\n((?:[^\r]+\r\n)*)\r\n$`).FindStringSubmatch(lit)
			if m == nil {
				return fmt.Errorf("%s: unrecognised literal %q", name, lit)
			}
			canned = append(canned, fmt.Sprintf("(%s, %v)", m[1], strings.Contains(strings.ToLower(m[2]), "connection: close")))
		}
		l.Raw("/-- (status, carries `Connection: close`) of send200 / send400 / send407 / send502 -/\ndef canned : List (Nat × Bool) := [" + strings.Join(canned, ", ") + "]\n")
		return nil
	})
}
