package main

// Child processes of corr_c20 (the corr binary re-executes itself with a sub-command):
//
//	child-save  one real cred.Manager, one API change, one automatic save under RLIMIT_FSIZE = k.
//	            mode "kill": SIGXFSZ has its default action, the process dies inside the write that
//	            crosses the limit (= a crash after exactly k bytes); mode "efbig": the write returns
//	            EFBIG after k bytes and saveToFile runs on (its error path).
//	child-stop  shutdown scripts against the real manager under testing/synctest (fake clock).

import (
	"context"
	"encoding/json"
	"fmt"
	"os"
	"path/filepath"
	"runtime"
	"sort"
	"strings"
	"syscall"
	"testing"
	"testing/synctest"
	"time"
	"unsafe"

	"github.com/database64128/shadowsocks-go/cred"
	"go.uber.org/zap"
	"go.uber.org/zap/zaptest/observer"
)

type User struct {
	Name string `json:"name"`
	Key  []byte `json:"key"`
}

type Change struct {
	Op   string `json:"op"` // add | upd | del
	Name string `json:"name"`
	Key  []byte `json:"key,omitempty"`
}

func apply(s *cred.ManagedServer, c Change) error {
	switch c.Op {
	case "add":
		return s.AddCredential(c.Name, c.Key)
	case "upd":
		return s.UpdateCredential(c.Name, c.Key)
	case "del":
		return s.DeleteCredential(c.Name)
	}
	return fmt.Errorf("bad op %q", c.Op)
}

type SaveSpec struct {
	Path   string `json:"path"`
	PskLen int    `json:"psk_len"`
	Change Change `json:"change"`
	Mode   string `json:"mode"`  // kill | efbig
	Limit  int64  `json:"limit"` // RLIMIT_FSIZE; < 0: none
	Ready  bool   `json:"ready"` // after loading the store print "ready" and wait for a line on stdin (a tracer attaches meanwhile)
}

type SaveResult struct {
	Stage   string   `json:"stage"` // load | change | done
	Err     string   `json:"err,omitempty"`
	SaveErr bool     `json:"save_err"` // saveToFile reported an error (logged by dequeueSave)
	Logs    []string `json:"logs,omitempty"`
}

// sigDefault gives a signal its default disposition behind the Go runtime's back (the runtime installs a
// handler for every signal and swallows SIGXFSZ; with SIG_DFL the kernel terminates the process).
func sigDefault(sig syscall.Signal) error {
	type sigaction struct {
		handler  uintptr
		flags    uint64
		restorer uintptr
		mask     uint64
	}
	sa := sigaction{} // SIG_DFL = 0
	_, _, e := syscall.RawSyscall6(syscall.SYS_RT_SIGACTION, uintptr(sig), uintptr(unsafe.Pointer(&sa)), 0, 8, 0, 0)
	if e != 0 {
		return e
	}
	return nil
}

func childSave() {
	var sp SaveSpec
	out := func(r SaveResult) {
		b, _ := json.Marshal(r)
		os.Stdout.Write(append(b, '\n'))
		os.Exit(0)
	}
	if err := json.Unmarshal([]byte(os.Getenv("C20_SPEC")), &sp); err != nil {
		out(SaveResult{Stage: "spec", Err: err.Error()})
	}
	syscall.Setrlimit(syscall.RLIMIT_CORE, &syscall.Rlimit{})
	core, logs := observer.New(zap.ErrorLevel)
	m := cred.NewManager(zap.New(core))
	s, err := m.RegisterServer("s", sp.Path, sp.PskLen, nil, nil)
	if err != nil {
		out(SaveResult{Stage: "load", Err: err.Error()})
	}
	ctx, cancel := context.WithCancel(context.Background())
	m.Start(ctx)
	time.Sleep(5 * time.Millisecond) // the saver goroutine parks in its first select
	if sp.Ready {
		os.Stdout.WriteString("ready\n")
		var one [1]byte
		os.Stdin.Read(one[:])
	}
	if sp.Mode == "kill" {
		if err := sigDefault(syscall.SIGXFSZ); err != nil {
			out(SaveResult{Stage: "sigaction", Err: err.Error()})
		}
	}
	if sp.Limit >= 0 {
		lim := syscall.Rlimit{Cur: uint64(sp.Limit), Max: uint64(sp.Limit)}
		if err := syscall.Setrlimit(syscall.RLIMIT_FSIZE, &lim); err != nil {
			out(SaveResult{Stage: "setrlimit", Err: err.Error()})
		}
	}
	if err := apply(s, sp.Change); err != nil {
		out(SaveResult{Stage: "change", Err: err.Error()})
	}
	time.Sleep(20 * time.Millisecond) // the saver has taken the job and waits for the cool-down
	cancel()                          // ends the cool-down: the save runs now
	m.Stop()
	r := SaveResult{Stage: "done", SaveErr: logs.Len() > 0}
	for _, e := range logs.All() {
		msg := e.Message
		for _, f := range e.Context {
			if f.Interface != nil {
				msg += fmt.Sprintf(" %s=%v", f.Key, f.Interface)
			}
		}
		r.Logs = append(r.Logs, msg)
	}
	out(r)
}

// ---------- shutdown scripts ----------

// StopCase: tokens A (add a user) U (update a key) D (delete an initial user) W (synctest.Wait)
// T (sleep one cool-down) C (cancel the context) S (Stop). Every change is acknowledged (the call returns)
// before the next token runs.
type StopCase struct {
	Init   []User   `json:"init"`
	PskLen int      `json:"psk_len"`
	Tokens []string `json:"tokens"`
	Procs  int      `json:"gomaxprocs"`
	Reps   int      `json:"reps"`
	Seed   uint64   `json:"seed"`
}

type StopResult struct {
	Versions map[string]int `json:"versions"` // store version found in the file after Stop -> count ("-1": no version, "-2": load error)
	Acked    int            `json:"acked"`    // changes acknowledged before the cancellation
	Total    int            `json:"total"`
	Err      string         `json:"err,omitempty"`
}

func canonSet(ucs []cred.UserCredential) string {
	var xs []string
	for _, u := range ucs {
		xs = append(xs, fmt.Sprintf("%s=%x", u.Name, u.UPSK))
	}
	sort.Strings(xs)
	return strings.Join(xs, ",")
}

func docOf(users []User) []byte {
	m := make(map[string][]byte, len(users))
	for _, u := range users {
		m[u.Name] = u.Key
	}
	b, _ := json.MarshalIndent(m, "", "    ")
	return append(b, '\n')
}

func keyFor(seed uint64, i, n int) []byte {
	k := make([]byte, n)
	x := seed*0x9e3779b97f4a7c15 + uint64(i+1)*0xbf58476d1ce4e5b9
	for j := range k {
		x ^= x >> 29
		x *= 0x94d049bb133111eb
		x ^= x >> 32
		k[j] = byte(x >> 17)
	}
	return k
}

// runStopOnce executes one script in a fresh bubble and directory; returns the version in the file.
func runStopOnce(t *testing.T, c StopCase, rep int, dir string) (version, acked, total int, err error) {
	path := filepath.Join(dir, fmt.Sprintf("store-%d.json", rep))
	if err = os.WriteFile(path, docOf(c.Init), 0o644); err != nil {
		return
	}
	var snaps []string
	synctest.Test(t, func(t *testing.T) {
		m := cred.NewManager(zap.NewNop())
		s, e := m.RegisterServer("s", path, c.PskLen, nil, nil)
		if e != nil {
			err = e
			return
		}
		snaps = append(snaps, canonSet(s.Credentials()))
		ctx, cancel := context.WithCancel(context.Background())
		defer cancel()
		m.Start(ctx)
		live := map[string]bool{}
		var names []string
		for _, u := range c.Init {
			live[u.Name] = true
			names = append(names, u.Name)
		}
		cancelled := false
		nchg := 0
		for _, tok := range c.Tokens {
			switch tok {
			case "A", "U", "D":
				nchg++
				var ch Change
				switch {
				case tok == "D" && len(c.Init) > 0 && live[c.Init[(nchg)%len(c.Init)].Name]:
					ch = Change{Op: "del", Name: c.Init[nchg%len(c.Init)].Name}
					live[ch.Name] = false
				case tok == "U" && len(names) > 0 && live[names[nchg%len(names)]]:
					ch = Change{Op: "upd", Name: names[nchg%len(names)], Key: keyFor(c.Seed, 1000+nchg, c.PskLen)}
				default:
					ch = Change{Op: "add", Name: fmt.Sprintf("n%d", nchg), Key: keyFor(c.Seed, 2000+nchg, c.PskLen)}
					live[ch.Name] = true
					names = append(names, ch.Name)
				}
				if e := apply(s, ch); e != nil {
					err = fmt.Errorf("change %d (%s %s): %w", nchg, ch.Op, ch.Name, e)
					cancel()
					m.Stop()
					return
				}
				snaps = append(snaps, canonSet(s.Credentials()))
				if !cancelled {
					acked = nchg
				}
			case "W":
				synctest.Wait()
			case "T":
				time.Sleep(5 * time.Second)
			case "C":
				cancel()
				cancelled = true
			case "S":
				m.Stop()
			}
		}
		total = nchg
	})
	if err != nil {
		return
	}
	m := cred.NewManager(zap.NewNop())
	s, e := m.RegisterServer("s", path, c.PskLen, nil, nil)
	if e != nil {
		return -2, acked, total, nil
	}
	got := canonSet(s.Credentials())
	version = -1
	for j := len(snaps) - 1; j >= 0; j-- {
		if snaps[j] == got {
			version = j
			break
		}
	}
	return
}

func childStop() {
	var cases []StopCase
	b, err := os.ReadFile(os.Getenv("C20_IN"))
	if err == nil {
		err = json.Unmarshal(b, &cases)
	}
	if err != nil {
		fmt.Fprintln(os.Stderr, "child-stop:", err)
		os.Exit(3)
	}
	dir := os.Getenv("C20_DIR")
	results := make([]StopResult, len(cases))
	test := func(t *testing.T) {
		for i, c := range cases {
			runtime.GOMAXPROCS(max(c.Procs, 1))
			r := StopResult{Versions: map[string]int{}}
			for rep := 0; rep < c.Reps; rep++ {
				v, a, tot, err := runStopOnce(t, c, i*10000+rep, dir)
				if err != nil {
					r.Err = err.Error()
					break
				}
				r.Versions[fmt.Sprint(v)]++
				r.Acked, r.Total = a, tot
			}
			results[i] = r
		}
		out, _ := json.Marshal(results)
		if err := os.WriteFile(os.Getenv("C20_OUT"), out, 0o644); err != nil {
			t.Fatal(err)
		}
	}
	os.Args = []string{os.Args[0], "-test.timeout=600s"}
	testing.Main(func(pat, str string) (bool, error) { return true, nil },
		[]testing.InternalTest{{Name: "TestStopScripts", F: test}}, nil, nil)
}
