// corr_c20: correspondence + property oracle for C20 (credential store survives crashes and write failures;
// acknowledged changes are saved before Stop returns).
//
// Engine "persist": for stores of 0..N users and one API change each, a CHILD PROCESS runs the real
// cred.Manager with RLIMIT_FSIZE = k for every byte count k = 0..len(new document), once dying at the
// limit (SIGXFSZ, default action) and once getting EFBIG from the write. The parent inspects the remains
// (store file, left-over temporary files), runs the real loader (RegisterServer -> LoadFromFile) on them and
// compares with the Lean model's file-system semantics of the regenerated save program (ssv_c20 driver).
// Oracle (from the property statement): the loader succeeds and yields the old or the new user set.
//
// Engine "stop": shutdown scripts (change / Wait / cool-down / cancel / Stop) against the real manager under
// testing/synctest in a child process, many repetitions (Go's select is random); the set of store versions
// the model allows at Stop (all schedules) must contain every observed one. Oracle: the file holds every
// change acknowledged before the cancellation.
package main

import (
	"bufio"
	"bytes"
	"encoding/hex"
	"encoding/json"
	"fmt"
	"io"
	"os"
	"os/exec"
	"path/filepath"
	"runtime"
	"sort"
	"strings"
	"sync"
	"syscall"
	"time"

	"ssvharness/internal/common"

	"github.com/database64128/shadowsocks-go/cred"
	"go.uber.org/zap"
)

const (
	keyF13 = "F13:target-cut-by-failed-write"
	keyF14 = "F14:acked-change-lost-at-stop:queued"
)

// failOnce keeps the report's (capped) failure list representative: at most 3 entries per key, the rest counted.
var failCount = map[string]int{}

func failOnce(rep *common.Report, f common.OracleFailure) {
	failCount[f.Key]++
	if failCount[f.Key] <= 3 {
		rep.Fail(f)
	} else {
		rep.Count("ORACLE-FAIL:" + f.Key)
	}
}

// ---------- engines persist + history ----------

// SaveCase: one automatic save under a file-size limit, in a given environment of the store path; with
// Change2 set it is a two-step HISTORY: after the cut save the server restarts on what is left, one more
// change is acknowledged, the service stops gracefully and restarts once more.
type SaveCase struct {
	Engine   string  `json:"engine"` // "persist" | "history"
	Users    []User  `json:"users"`  // the store before the change
	PskLen   int     `json:"psk_len"`
	Change   Change  `json:"change"`
	Mode     string  `json:"mode"`
	Limit    int64   `json:"limit"`
	Kind     string  `json:"kind"`     // reg | link-same | link-other: the store path is a regular file / a symlink to a file in the same / another directory
	Leftover string  `json:"leftover"` // none | fixed (<store>.tmp) | pattern (<store>.<digits>.tmp): a stray file next to the store before the save
	Change2  *Change `json:"change2,omitempty"`
}

var leftoverContent = []byte("{\n    \"stale")

type remains struct {
	target   []byte
	present  bool
	isLink   bool
	dest     []byte
	hasDest  bool
	tmps     []string // hex contents of the other files in the store's directory, sorted
	status   string   // exit | killed:<signal>
	res      SaveResult
	childErr string
}

func selfExe() string {
	p, err := os.Executable()
	if err != nil {
		return os.Args[0]
	}
	return p
}

func hexField(b []byte) string {
	if len(b) == 0 {
		return "-"
	}
	return hex.EncodeToString(b)
}

// setupStore creates the environment of a case in dir and returns the configured store path.
func setupStore(dir string, c SaveCase) (string, error) {
	path := filepath.Join(dir, "upsks.json")
	doc := docOf(c.Users)
	var err error
	switch c.Kind {
	case "link-same":
		if err = os.WriteFile(filepath.Join(dir, "dest.json"), doc, 0o644); err == nil {
			err = os.Symlink("dest.json", path)
		}
	case "link-other":
		if err = os.MkdirAll(filepath.Join(dir, "sub"), 0o755); err == nil {
			if err = os.WriteFile(filepath.Join(dir, "sub", "dest.json"), doc, 0o644); err == nil {
				err = os.Symlink(filepath.Join(dir, "sub", "dest.json"), path)
			}
		}
	default:
		err = os.WriteFile(path, doc, 0o644)
	}
	if err != nil {
		return "", err
	}
	switch c.Leftover {
	case "fixed":
		err = os.WriteFile(path+".tmp", leftoverContent, 0o600)
	case "pattern":
		err = os.WriteFile(path+".4242424242.tmp", leftoverContent, 0o600)
	}
	return path, err
}

// runChildIn runs one server life (register, change, save under the limit, stop) on the store in dir.
func runChildIn(dir, path string, pskLen int, ch Change, mode string, limit int64) remains {
	var rm remains
	spec, _ := json.Marshal(SaveSpec{Path: path, PskLen: pskLen, Change: ch, Mode: mode, Limit: limit})
	cmd := exec.Command(selfExe(), "child-save")
	cmd.Env = append(os.Environ(), "C20_SPEC="+string(spec), "GOMAXPROCS=2")
	var out, errb bytes.Buffer
	cmd.Stdout, cmd.Stderr = &out, &errb
	err := cmd.Run()
	rm.status = "exit"
	if ee, ok := err.(*exec.ExitError); ok {
		if ws, ok := ee.Sys().(syscall.WaitStatus); ok && ws.Signaled() {
			rm.status = "killed:" + ws.Signal().String()
		} else {
			rm.childErr = fmt.Sprintf("child exit %v: %s", err, tail(errb.String()))
		}
	} else if err != nil {
		rm.childErr = err.Error()
	}
	if rm.status == "exit" && rm.childErr == "" {
		if e := json.Unmarshal(bytes.TrimSpace(out.Bytes()), &rm.res); e != nil {
			rm.childErr = "child output: " + tail(out.String()+errb.String())
		} else if rm.res.Stage != "done" {
			rm.childErr = "child stage " + rm.res.Stage + ": " + rm.res.Err
		}
	}
	collectRemains(dir, path, &rm)
	return rm
}

// collectRemains reads what a server life left in the store's directory.
func collectRemains(dir, path string, rm *remains) {
	if fi, err := os.Lstat(path); err == nil {
		rm.isLink = fi.Mode()&os.ModeSymlink != 0
	}
	if b, err := os.ReadFile(path); err == nil { // follows a link, as the loader does
		rm.target, rm.present = b, true
	}
	ents, _ := os.ReadDir(dir)
	for _, e := range ents {
		if e.Name() == "upsks.json" || e.IsDir() {
			continue
		}
		b, err := os.ReadFile(filepath.Join(dir, e.Name()))
		if err != nil {
			continue
		}
		if e.Name() == "dest.json" {
			rm.dest, rm.hasDest = b, true
		} else {
			rm.tmps = append(rm.tmps, hexField(b))
		}
	}
	if b, err := os.ReadFile(filepath.Join(dir, "sub", "dest.json")); err == nil {
		rm.dest, rm.hasDest = b, true
	}
	sort.Strings(rm.tmps)
}

// runSaveCase runs a case (one or two server lives) in a fresh directory.
func runSaveCase(base string, idx int, c SaveCase) (rm1, rm2 remains) {
	dir := filepath.Join(base, fmt.Sprintf("p%d", idx))
	if err := os.MkdirAll(dir, 0o755); err != nil {
		rm1.childErr = err.Error()
		return
	}
	defer os.RemoveAll(dir)
	path, err := setupStore(dir, c)
	if err != nil {
		rm1.childErr = err.Error()
		return
	}
	rm1 = runChildIn(dir, path, c.PskLen, c.Change, c.Mode, c.Limit)
	if rm1.childErr == "" && c.Change2 != nil {
		rm2 = runChildIn(dir, path, c.PskLen, *c.Change2, "efbig", -1)
	}
	return
}

func tail(s string) string {
	if len(s) > 300 {
		return s[len(s)-300:]
	}
	return s
}

// loadReal runs the real start-up loader on a byte string: (canonical user set, error text).
func loadReal(base string, idx int, content []byte, present bool, pskLen int) (string, error) {
	dir := filepath.Join(base, fmt.Sprintf("l%d", idx))
	os.MkdirAll(dir, 0o755)
	defer os.RemoveAll(dir)
	path := filepath.Join(dir, "upsks.json")
	if present {
		if err := os.WriteFile(path, content, 0o644); err != nil {
			return "", err
		}
	}
	var set string
	var err error
	if p := common.Safely(func() {
		m := cred.NewManager(zap.NewNop())
		var s *cred.ManagedServer
		s, err = m.RegisterServer("s", path, pskLen, nil, nil)
		if err == nil {
			set = canonSet(s.Credentials())
		}
	}); p != nil {
		return "", fmt.Errorf("panic: %v", p)
	}
	return set, err
}

func canonUsers(us []User) string {
	var xs []string
	for _, u := range us {
		xs = append(xs, fmt.Sprintf("%s=%x", u.Name, u.Key))
	}
	sort.Strings(xs)
	return strings.Join(xs, ",")
}

func applyTo(us []User, c Change) []User {
	var res []User
	for _, u := range us {
		switch {
		case u.Name == c.Name && c.Op == "del":
		case u.Name == c.Name && c.Op == "upd":
			res = append(res, User{u.Name, c.Key})
		default:
			res = append(res, u)
		}
	}
	if c.Op == "add" {
		res = append(res, User{c.Name, c.Key})
	}
	return res
}

var nameAlphabet = []string{"alice", "bob", "c}", "d\"q", "e\n", "Ünï", "g,", "h:{", "i", "j\\", "k]", "l "}

func genStore(r *common.Rng, n, pskLen int) []User {
	var us []User
	perm := r.Intn(len(nameAlphabet))
	for i := 0; i < n; i++ {
		name := nameAlphabet[(perm+i)%len(nameAlphabet)]
		if i >= len(nameAlphabet) {
			name = fmt.Sprintf("%s%d", name, i)
		}
		us = append(us, User{Name: name, Key: r.Bytes(pskLen)})
	}
	return us
}

func genChange(r *common.Rng, us []User, op string, pskLen int) Change {
	if len(us) == 0 {
		op = "add"
	}
	switch op {
	case "del":
		return Change{Op: "del", Name: us[r.Intn(len(us))].Name}
	case "upd":
		return Change{Op: "upd", Name: us[r.Intn(len(us))].Name, Key: r.Bytes(pskLen)}
	}
	return Change{Op: "add", Name: fmt.Sprintf("new%d", r.Intn(1000)), Key: r.Bytes(pskLen)}
}

type saveJob struct {
	c        SaveCase
	oldDoc   []byte
	newDoc   []byte
	rm, rm2  remains
	formatOK bool // docOf reproduces the serialisation the code uses (needed to tell the model the step-2 documents)
}

func parallel(n int, f func(i int)) {
	var wg sync.WaitGroup
	sem := make(chan struct{}, max(2, runtime.NumCPU()))
	for i := 0; i < n; i++ {
		wg.Add(1)
		sem <- struct{}{}
		go func() {
			defer wg.Done()
			defer func() { <-sem }()
			f(i)
		}()
	}
	wg.Wait()
}

func modelKind(k string) string {
	if strings.HasPrefix(k, "link") {
		return "link"
	}
	return "reg"
}

func leftoverOr(s string) string {
	if s == "" {
		return "none"
	}
	return s
}

func remainsLine(rm remains, errFlag int) string {
	tg := "absent"
	if rm.present {
		tg = hexField(rm.target)
	}
	tm := "none"
	if len(rm.tmps) > 0 {
		tm = strings.Join(rm.tmps, ";")
	}
	link := 0
	if rm.isLink {
		link = 1
	}
	dest := "none"
	if rm.hasDest {
		dest = hexField(rm.dest)
	}
	return fmt.Sprintf("target=%s tmps=%s err=%d link=%d dest=%s", tg, tm, errFlag, link, dest)
}

func envText(c SaveCase) string {
	return fmt.Sprintf("store path: %s, stray file next to it: %s", map[string]string{"reg": "regular file", "": "regular file", "link-same": "symlink to a file in the same directory",
		"link-other": "symlink to a file in another directory"}[c.Kind], leftoverOr(c.Leftover))
}

// evalSaveJobs runs the children, the model and the oracles for a batch of cases.
func evalSaveJobs(base string, jobs []*saveJob, o *common.Options, rep *common.Report, offset int) error {
	parallel(len(jobs), func(i int) {
		jobs[i].rm, jobs[i].rm2 = runSaveCase(base, offset+i, jobs[i].c)
		if jobs[i].rm.childErr != "" { // one retry: the child is a real-time program
			jobs[i].rm, jobs[i].rm2 = runSaveCase(base, offset+i, jobs[i].c)
		}
	})
	var model []string
	if o.Driver != "" {
		var lines []string
		for _, j := range jobs {
			c := j.c
			if c.Change2 != nil && j.formatOK {
				n2a := docOf(applyTo(c.Users, *c.Change2))
				n2b := docOf(applyTo(applyTo(c.Users, c.Change), *c.Change2))
				lines = append(lines, fmt.Sprintf("hist %s %s %s %s %d %s %s %s %s", modelKind(c.Kind), leftoverOr(c.Leftover), hexField(leftoverContent),
					c.Mode, c.Limit, hexField(j.oldDoc), hexField(j.newDoc), hexField(n2a), hexField(n2b)))
			} else {
				lines = append(lines, fmt.Sprintf("save %s %d %s %s %s %s %s", c.Mode, c.Limit, hexField(j.oldDoc), hexField(j.newDoc),
					modelKind(c.Kind), leftoverOr(c.Leftover), hexField(leftoverContent)))
			}
		}
		var err error
		if model, err = common.RunDriverOnce(o.Driver, lines); err != nil {
			return err
		}
	}
	for i, j := range jobs {
		c, rm := j.c, j.rm
		cut := int(c.Limit) < len(j.newDoc)
		hist := c.Change2 != nil
		eng := "persist"
		if hist {
			eng = "history"
		}
		rep.Case(fmt.Sprintf("%s|%s|%s|%s|%s|%v|%d", eng, c.Kind, c.Leftover, canonUsers(c.Users), c.Mode, c.Change, c.Limit), cut)
		rep.Count(eng + ":mode=" + c.Mode)
		rep.Count(fmt.Sprintf("%s:users=%d", eng, len(c.Users)))
		rep.Count(eng + ":change=" + c.Change.Op)
		rep.Count(eng + ":kind=" + c.Kind)
		rep.Count(eng + ":leftover=" + leftoverOr(c.Leftover))
		if rm.childErr != "" {
			rep.Diverge(common.Divergence{Engine: eng, Case: c, Impl: rm.childErr, Model: "", Note: "child process failed"})
			continue
		}
		newUsers := applyTo(c.Users, c.Change)
		oldSet, newSet := canonUsers(c.Users), canonUsers(newUsers)
		set, lerr := loadReal(base, offset+i, rm.target, rm.present, c.PskLen)
		verdict := "other"
		switch {
		case lerr != nil && !rm.present:
			verdict = "absent"
		case lerr != nil:
			verdict = "error"
		case set == oldSet:
			verdict = "old"
		case set == newSet:
			verdict = "new"
		case set == "":
			verdict = "empty"
		}
		rep.Count(eng + ":loader=" + verdict)
		rep.Count(eng + ":child=" + rm.status)
		errFlag := 0
		if rm.res.SaveErr {
			errFlag = 1
		}
		if cut && c.Mode == "kill" {
			// the process died at the write: its error flag is whatever the model holds at that instant
			if !strings.HasPrefix(rm.status, "killed:") {
				rep.Diverge(common.Divergence{Engine: eng, Case: c, Impl: rm.status, Model: "killed by SIGXFSZ", Note: "crash injection did not fire"})
				continue
			}
			errFlag = 1
		}
		implLine := remainsLine(rm, errFlag)
		if i < 2 {
			rep.Sample(map[string]any{"case": c, "remains": implLine, "loader": verdict, "child": rm.status})
		}
		stripVerdict := func(ml string) (string, string) {
			if k := strings.LastIndex(ml, " verdict="); k >= 0 {
				return ml[:k], ml[k+len(" verdict="):]
			}
			return ml, ""
		}
		if model != nil && !(hist && j.formatOK) {
			ml, mv := stripVerdict(model[i])
			if ml != implLine {
				rep.Diverge(common.Divergence{Engine: eng, Case: c, Impl: implLine, Model: ml, Note: "remains on disk differ from the model's file system"})
			} else if mv != "other" && mv != verdict && !(mv == "empty" && verdict == "old" && oldSet == "") && !(mv == "empty" && verdict == "new" && newSet == "") &&
				!(mv == "old" && verdict == "new" && oldSet == newSet) {
				rep.Diverge(common.Divergence{Engine: eng, Case: c, Impl: verdict, Model: mv, Note: "loader verdict differs"})
			} else if mv == "other" && rm.present && len(rm.target) > 0 && bytes.HasPrefix(j.newDoc, rm.target) && len(rm.target) < len(j.newDoc) &&
				verdict != "error" && verdict != "new" {
				// hypothesis Codec.PrefixUnloadable of the Lean development, checked against the real decoder
				rep.Diverge(common.Divergence{Engine: eng, Case: c, Impl: verdict, Model: "error|new", Note: "a strict prefix of a document loaded to another set (hypothesis prefix_unloadable refuted)"})
			}
			rep.TracesValidated++
		}
		// ---- property oracle 1: after the crash / failed write the loader succeeds and yields the old or the new set ----
		ok1 := verdict == "old" || verdict == "new" || (verdict == "empty" && (oldSet == "" || newSet == ""))
		if !ok1 {
			key := "store-destroyed:" + verdict
			if rm.present && bytes.HasPrefix(j.newDoc, rm.target) && len(rm.target) < len(j.newDoc) {
				key = keyF13
			}
			failOnce(rep, common.OracleFailure{Engine: eng, Key: key, Case: c,
				Detail: fmt.Sprintf("store of %d users (%s), %s %q, %s at byte %d of %d: the store path now reads %d bytes; start-up loader: %s (%v); expected the old or the new user set",
					len(c.Users), envText(c), c.Change.Op, c.Change.Name, map[string]string{"kill": "process killed", "efbig": "write error (EFBIG)"}[c.Mode], c.Limit, len(j.newDoc), len(rm.target), verdict, lerr)})
		}
		if !cut && verdict != "new" && oldSet != newSet {
			failOnce(rep, common.OracleFailure{Engine: eng, Key: "save-without-fault-not-written", Case: c,
				Detail: fmt.Sprintf("%s; no fault injected (limit %d >= %d), change acknowledged, service stopped, but the loader sees %s; save errors logged: %v", envText(c), c.Limit, len(j.newDoc), verdict, rm.res.Logs)})
		}
		if !hist || !ok1 {
			continue
		}
		// ---- step 2 of a history: restart on the remains, one more acknowledged change, graceful stop, restart ----
		rm2 := j.rm2
		if rm2.childErr != "" {
			rep.Diverge(common.Divergence{Engine: eng, Case: c, Impl: rm2.childErr, Model: "", Note: "restarted server failed (step 2 of the history)"})
			continue
		}
		base2 := c.Users
		if set == newSet {
			base2 = newUsers
		}
		want2 := canonUsers(applyTo(base2, *c.Change2))
		set2, lerr2 := loadReal(base, offset+i, rm2.target, rm2.present, c.PskLen)
		err2 := 0
		if rm2.res.SaveErr {
			err2 = 1
		}
		if model != nil && j.formatOK {
			ml, _ := stripVerdict(model[i])
			implLine2 := "step1=" + verdict + " " + remainsLine(rm2, err2)
			if ml != implLine2 {
				rep.Diverge(common.Divergence{Engine: eng, Case: c, Impl: implLine2, Model: ml, Note: "remains after the two-step history differ from the model's file system"})
			}
			rep.TracesValidated++
		}
		// ---- property oracle 2: the file holds every change acknowledged before the stop ----
		if lerr2 != nil || set2 != want2 {
			failOnce(rep, common.OracleFailure{Engine: eng, Key: "history:acked-change-not-written-after-restart", Case: c,
				Detail: fmt.Sprintf("%s; save 1 (%s %q) %s at byte %d of %d -> restart loads the %s set; then %s %q acknowledged, graceful Stop, restart: loader yields [%s] (err %v), want [%s]; save errors logged by the restarted server: %v",
					envText(c), c.Change.Op, c.Change.Name, map[string]string{"kill": "killed", "efbig": "EFBIG"}[c.Mode], c.Limit, len(j.newDoc), verdict,
					c.Change2.Op, c.Change2.Name, set2, lerr2, want2, rm2.res.Logs)})
		}
	}
	return nil
}

// expand: one (store, change, environment) -> the unlimited probe run in a plain directory (it yields the
// document as the code serialises it), then every byte count x both modes; `histEvery` > 0 adds the second
// server life to every histEvery-th byte count (1 = all).
func expand(base string, users []User, pskLen int, ch Change, kind, leftover string, histEvery int, r *common.Rng, idx *int) ([]*saveJob, error) {
	probe := SaveCase{Engine: "persist", Users: users, PskLen: pskLen, Change: ch, Mode: "efbig", Limit: -1, Kind: "reg", Leftover: "none"}
	*idx++
	rm, _ := runSaveCase(base, *idx, probe)
	if rm.childErr != "" || !rm.present {
		rm, _ = runSaveCase(base, *idx, probe)
	}
	if rm.childErr != "" || !rm.present {
		return nil, fmt.Errorf("probe run failed: %s", rm.childErr)
	}
	newDoc := rm.target
	oldDoc := docOf(users)
	formatOK := bytes.Equal(newDoc, docOf(applyTo(users, ch)))
	ch2 := Change{Op: "add", Name: "carol", Key: r.Bytes(pskLen)}
	var jobs []*saveJob
	for k := 0; k <= len(newDoc); k++ {
		for _, mode := range []string{"kill", "efbig"} {
			c := SaveCase{Engine: "persist", Users: users, PskLen: pskLen, Change: ch, Mode: mode, Limit: int64(k), Kind: kind, Leftover: leftover}
			if histEvery > 0 && (k%histEvery == 0 || k >= len(newDoc)-1) {
				c.Engine = "history"
				c2 := ch2
				c.Change2 = &c2
			}
			jobs = append(jobs, &saveJob{c: c, oldDoc: oldDoc, newDoc: newDoc, formatOK: formatOK})
		}
	}
	return jobs, nil
}

var envTable = [][2]string{
	{"reg", "fixed"}, {"link-same", "none"}, {"link-other", "pattern"}, {"reg", "none"},
	{"link-same", "fixed"}, {"reg", "pattern"}, {"link-other", "none"}, {"link-same", "pattern"}, {"link-other", "fixed"},
}

func enginePersist(base string, o *common.Options, rep *common.Report) error {
	r := common.NewRng(o.Seed)
	maxUsers := 3
	switch {
	case o.Thorough():
		maxUsers = 6
	case o.Search:
		maxUsers = 4
	}
	ops := []string{"add", "del", "upd"}
	idx := 0
	f13 := false
	gi := 0
	for n := 0; n <= maxUsers; n++ {
		variants := 1
		if o.Thorough() {
			variants = 2
		}
		for v := 0; v < variants; v++ {
			rr := r.Fork(uint64(gi))
			pskLen := 16
			if o.Thorough() && rr.Bool() {
				pskLen = 32
			}
			op := ops[(n+v+int(o.Seed))%3]
			env := envTable[gi%len(envTable)]
			gi++
			users := genStore(rr, n, pskLen)
			ch := genChange(rr, users, op, pskLen)
			// histories: every byte count for the small stores, every 8th for the larger ones
			histEvery := 8
			if n <= 1 || o.Thorough() && n <= 3 {
				histEvery = 1
			}
			jobs, err := expand(base, users, pskLen, ch, env[0], env[1], histEvery, rr, &idx)
			if err != nil {
				return err
			}
			before := rep.Distribution["ORACLE-FAIL:"+keyF13]
			if err := evalSaveJobs(base, jobs, o, rep, idx); err != nil {
				return err
			}
			idx += len(jobs)
			if rep.Distribution["ORACLE-FAIL:"+keyF13] > before {
				f13 = true
			}
		}
	}
	rep.FindingsProbed[keyF13] = f13
	return nil
}

// ---------- engine syscall: a real crash at every system-call boundary of a save ----------

// SysCase: the server is killed (SIGKILL injected by strace at the ENTRY of the When-th invocation of
// Syscall after the store was loaded, i.e. right after the previous call completed) during the automatic save.
type SysCase struct {
	Engine   string `json:"engine"` // "syscall"
	Users    []User `json:"users"`
	PskLen   int    `json:"psk_len"`
	Change   Change `json:"change"`
	Kind     string `json:"kind"`
	Leftover string `json:"leftover"`
	Syscall  string `json:"syscall"`
	When     int    `json:"when"`
}

var saveSyscalls = []string{"openat", "write", "fchmod", "fsync", "close", "renameat", "unlinkat", "newfstatat"}

// runSysCase: child loads the store and waits; strace attaches with the injection; the child is released.
func runSysCase(base string, idx int, c SysCase) (rm remains) {
	dir := filepath.Join(base, fmt.Sprintf("y%d", idx))
	if err := os.MkdirAll(dir, 0o755); err != nil {
		rm.childErr = err.Error()
		return
	}
	defer os.RemoveAll(dir)
	path, err := setupStore(dir, SaveCase{Users: c.Users, Kind: c.Kind, Leftover: c.Leftover})
	if err != nil {
		rm.childErr = err.Error()
		return
	}
	spec, _ := json.Marshal(SaveSpec{Path: path, PskLen: c.PskLen, Change: c.Change, Mode: "efbig", Limit: -1, Ready: true})
	cmd := exec.Command(selfExe(), "child-save")
	cmd.Env = append(os.Environ(), "C20_SPEC="+string(spec), "GOMAXPROCS=2")
	stdin, _ := cmd.StdinPipe()
	stdout, _ := cmd.StdoutPipe()
	var errb bytes.Buffer
	cmd.Stderr = &errb
	if err := cmd.Start(); err != nil {
		rm.childErr = err.Error()
		return
	}
	rd := bufio.NewReader(stdout)
	line, err := rd.ReadString('\n')
	if err != nil || strings.TrimSpace(line) != "ready" {
		cmd.Process.Kill()
		cmd.Wait()
		rm.childErr = "child not ready: " + line + tail(errb.String())
		return
	}
	var tracer *exec.Cmd
	if c.Syscall != "" {
		tracer = exec.Command("strace", "-f", "-o", "/dev/null", "-e", "trace="+c.Syscall,
			"-e", fmt.Sprintf("inject=%s:signal=SIGKILL:when=%d", c.Syscall, c.When), "-p", fmt.Sprint(cmd.Process.Pid))
		tr, _ := tracer.StderrPipe()
		if err := tracer.Start(); err != nil {
			cmd.Process.Kill()
			cmd.Wait()
			rm.childErr = "strace: " + err.Error()
			return
		}
		// wait until every thread is attached: "attached" lines, then silence
		lines := make(chan string, 64)
		go func() {
			sc := bufio.NewScanner(tr)
			for sc.Scan() {
				lines <- sc.Text()
			}
			close(lines)
		}()
		attached := false
	wait:
		for {
			select {
			case l, ok := <-lines:
				if !ok {
					break wait
				}
				if strings.Contains(l, "attached") {
					attached = true
				}
			case <-time.After(150 * time.Millisecond):
				if attached {
					break wait
				}
			case <-time.After(10 * time.Second):
				break wait
			}
		}
		go func() {
			for range lines {
			}
		}()
		if !attached {
			cmd.Process.Kill()
			cmd.Wait()
			tracer.Process.Kill()
			tracer.Wait()
			rm.childErr = "strace did not attach"
			return
		}
	}
	stdin.Write([]byte("\n"))
	rest, _ := io.ReadAll(rd)
	err = cmd.Wait()
	if tracer != nil {
		done := make(chan struct{})
		go func() { tracer.Wait(); close(done) }()
		select {
		case <-done:
		case <-time.After(5 * time.Second):
			tracer.Process.Kill()
			<-done
		}
	}
	rm.status = "exit"
	if ee, ok := err.(*exec.ExitError); ok {
		if ws, ok := ee.Sys().(syscall.WaitStatus); ok && ws.Signaled() {
			rm.status = "killed:" + ws.Signal().String()
		} else {
			rm.childErr = fmt.Sprintf("child exit %v: %s", err, tail(errb.String()))
		}
	} else if err != nil {
		rm.childErr = err.Error()
	} else if e := json.Unmarshal(bytes.TrimSpace(rest), &rm.res); e != nil || rm.res.Stage != "done" {
		rm.childErr = "child output: " + tail(string(rest)+errb.String())
	}
	collectRemains(dir, path, &rm)
	return
}

func killLine(rm remains) string {
	l := remainsLine(rm, 0)
	return strings.Replace(l, " err=0", "", 1)
}

// evalSysGroup: for one (store, change, environment) kill the server before the N-th call of every kind,
// N = 1, 2, … until the save completes untouched.
func evalSysGroup(base string, users []User, pskLen int, ch Change, kind, leftover string, only *SysCase, o *common.Options, rep *common.Report, idx *int) error {
	type job struct {
		c  SysCase
		rm remains
	}
	var jobs []*job
	maxWhen := 8
	start := *idx
	*idx += len(saveSyscalls)*maxWhen + 1
	if only != nil {
		j := &job{c: *only}
		j.rm = runSysCase(base, start, j.c)
		jobs = append(jobs, j)
	} else {
		// one chain per call kind, in parallel: N = 1, 2, … until the save completes without the kill firing
		chains := make([][]*job, len(saveSyscalls))
		parallel(len(saveSyscalls), func(k int) {
			for n := 1; n <= maxWhen; n++ {
				j := &job{c: SysCase{Engine: "syscall", Users: users, PskLen: pskLen, Change: ch, Kind: kind, Leftover: leftover, Syscall: saveSyscalls[k], When: n}}
				j.rm = runSysCase(base, start+k*maxWhen+n, j.c)
				if j.rm.childErr != "" {
					j.rm = runSysCase(base, start+k*maxWhen+n, j.c)
				}
				chains[k] = append(chains[k], j)
				if !strings.HasPrefix(j.rm.status, "killed:") {
					break
				}
			}
		})
		for _, c := range chains {
			jobs = append(jobs, c...)
		}
	}
	oldDoc := docOf(users)
	newUsers := applyTo(users, ch)
	newDoc := docOf(newUsers)
	allowed := map[string]bool{}
	haveModel := false
	if o.Driver != "" {
		out, err := common.RunDriverOnce(o.Driver, []string{fmt.Sprintf("killpoints %s %s %s %s %s", hexField(oldDoc), hexField(newDoc), modelKind(kind), leftoverOr(leftover), hexField(leftoverContent))})
		if err != nil {
			return err
		}
		if !strings.HasPrefix(out[0], "gen-undecodable") && !strings.HasPrefix(out[0], "bad-op") {
			haveModel = true
			for _, l := range strings.Split(out[0], " | ") {
				allowed[l] = true
			}
		}
	}
	oldSet, newSet := canonUsers(users), canonUsers(newUsers)
	for i, j := range jobs {
		c, rm := j.c, j.rm
		killed := strings.HasPrefix(rm.status, "killed:")
		rep.Case(fmt.Sprintf("syscall|%s|%s|%s|%v|%s|%d", c.Kind, c.Leftover, canonUsers(c.Users), c.Change, c.Syscall, c.When), killed)
		if rm.childErr != "" {
			rep.Diverge(common.Divergence{Engine: "syscall", Case: c, Impl: rm.childErr, Model: "", Note: "traced child failed"})
			continue
		}
		if killed {
			rep.Count("syscall:killed-before=" + c.Syscall)
		} else {
			rep.Count("syscall:completed")
		}
		set, lerr := loadReal(base, start+i, rm.target, rm.present, c.PskLen)
		verdict := "other"
		switch {
		case lerr != nil && !rm.present:
			verdict = "absent"
		case lerr != nil:
			verdict = "error"
		case set == oldSet:
			verdict = "old"
		case set == newSet:
			verdict = "new"
		case set == "":
			verdict = "empty"
		}
		rep.Count("syscall:loader=" + verdict)
		line := killLine(rm)
		if i < 2 {
			rep.Sample(map[string]any{"case": c, "remains": line, "loader": verdict, "child": rm.status})
		}
		if haveModel && bytes.Equal(newDoc, rm.target) == (verdict == "new") {
			// the model's kill states (kill after any statement of the regenerated program) must contain what is on disk
			if !allowed[line] {
				rep.Diverge(common.Divergence{Engine: "syscall", Case: c, Impl: line, Model: "one of: " + strings.Join(sortedKeys(allowed), " | "), Note: "remains after a kill between two system calls are not a kill state of the model"})
			}
			rep.TracesValidated++
		}
		if verdict != "old" && verdict != "new" && !(verdict == "empty" && (oldSet == "" || newSet == "")) {
			failOnce(rep, common.OracleFailure{Engine: "syscall", Key: "store-missing-or-unloadable-after-crash-between-calls", Case: c,
				Detail: fmt.Sprintf("%s; store of %d users, %s %q acknowledged, server killed at the entry of %s call no. %d after the store was loaded: start-up loader: %s (%v); directory now: %s; expected the old or the new user set",
					envText(SaveCase{Kind: c.Kind, Leftover: c.Leftover}), len(c.Users), c.Change.Op, c.Change.Name, c.Syscall, c.When, verdict, lerr, line)})
		}
		if !killed && verdict != "new" && oldSet != newSet {
			failOnce(rep, common.OracleFailure{Engine: "syscall", Key: "save-without-fault-not-written", Case: c,
				Detail: fmt.Sprintf("traced run completed without injection firing but the loader sees %s", verdict)})
		}
	}
	return nil
}

func sortedKeys(m map[string]bool) []string {
	var ks []string
	for k := range m {
		ks = append(ks, k)
	}
	sort.Strings(ks)
	return ks
}

func engineSyscall(base string, o *common.Options, rep *common.Report) error {
	if _, err := exec.LookPath("strace"); err != nil {
		rep.Note("engine syscall skipped: strace not found")
		return nil
	}
	r := common.NewRng(o.Seed ^ 0x5ca11)
	groups := 1
	if o.Thorough() || o.Search {
		groups = 4
	}
	idx := 0
	for g := 0; g < groups; g++ {
		rr := r.Fork(uint64(g))
		n := 1 + (g+int(o.Seed))%3
		users := genStore(rr, n, 16)
		ch := genChange(rr, users, []string{"add", "upd", "del"}[(g+int(o.Seed))%3], 16)
		env := envTable[(g+int(o.Seed))%len(envTable)]
		if err := evalSysGroup(base, users, 16, ch, env[0], env[1], nil, o, rep, &idx); err != nil {
			return err
		}
	}
	return nil
}

// ---------- engine stop ----------

type stopJob struct {
	c   StopCase
	res StopResult
}

func runStopChild(base string, tag string, cases []StopCase) ([]StopResult, error) {
	dir := filepath.Join(base, "stop-"+tag)
	if err := os.MkdirAll(dir, 0o755); err != nil {
		return nil, err
	}
	defer os.RemoveAll(dir)
	in := filepath.Join(dir, "in.json")
	outp := filepath.Join(dir, "out.json")
	b, _ := json.Marshal(cases)
	if err := os.WriteFile(in, b, 0o644); err != nil {
		return nil, err
	}
	cmd := exec.Command(selfExe(), "child-stop")
	cmd.Env = append(os.Environ(), "C20_IN="+in, "C20_OUT="+outp, "C20_DIR="+dir)
	var errb bytes.Buffer
	cmd.Stdout, cmd.Stderr = &errb, &errb
	if err := cmd.Run(); err != nil {
		return nil, fmt.Errorf("child-stop: %v: %s", err, tail(errb.String()))
	}
	ob, err := os.ReadFile(outp)
	if err != nil {
		return nil, fmt.Errorf("child-stop wrote no result: %s", tail(errb.String()))
	}
	var res []StopResult
	if err := json.Unmarshal(ob, &res); err != nil {
		return nil, err
	}
	if len(res) != len(cases) {
		return nil, fmt.Errorf("child-stop: %d results for %d cases", len(res), len(cases))
	}
	return res, nil
}

// phaseOf names the debounce phase in which the cancellation finds the last acknowledged change.
func phaseOf(tokens []string) string {
	phase := "idle"
	for _, t := range tokens {
		switch t {
		case "A", "U", "D":
			phase = "queued"
		case "W":
			if phase == "queued" {
				phase = "cooling"
			}
		case "T":
			if phase != "idle" {
				phase = "saving"
			}
		case "C":
			return phase
		}
	}
	return phase
}

func modelTokens(tokens []string) string {
	var xs []string
	for _, t := range tokens {
		if t == "U" || t == "D" {
			t = "A"
		}
		xs = append(xs, t)
	}
	return strings.Join(xs, " ")
}

func genStopTokens(r *common.Rng) []string {
	var ts []string
	n := r.Range(1, 6)
	for i := 0; i < n; i++ {
		ts = append(ts, common.Pick(r, []string{"A", "A", "U", "D", "W", "T", "A", "W"}))
	}
	if r.Chance(1, 3) {
		ts = append(ts, common.Pick(r, []string{"W", "T"}))
	}
	ts = append(ts, "C")
	for r.Chance(1, 4) {
		ts = append(ts, common.Pick(r, []string{"A", "W", "D"}))
	}
	return append(ts, "S")
}

func evalStop(base string, cases []StopCase, o *common.Options, rep *common.Report) error {
	// split by GOMAXPROCS into two children run in parallel
	groups := map[int][]int{}
	for i, c := range cases {
		groups[c.Procs] = append(groups[c.Procs], i)
	}
	results := make([]StopResult, len(cases))
	var mu sync.Mutex
	var firstErr error
	var wg sync.WaitGroup
	for procs, ids := range groups {
		chunks := 4
		for ch := 0; ch < chunks; ch++ {
			var sub []StopCase
			var subIds []int
			for k, id := range ids {
				if k%chunks == ch {
					sub = append(sub, cases[id])
					subIds = append(subIds, id)
				}
			}
			if len(sub) == 0 {
				continue
			}
			wg.Add(1)
			go func() {
				defer wg.Done()
				res, err := runStopChild(base, fmt.Sprintf("%d-%d", procs, ch), sub)
				mu.Lock()
				defer mu.Unlock()
				if err != nil {
					if firstErr == nil {
						firstErr = err
					}
					return
				}
				for k, id := range subIds {
					results[id] = res[k]
				}
			}()
		}
	}
	wg.Wait()
	if firstErr != nil {
		return firstErr
	}
	var model []string
	if o.Driver != "" {
		var lines []string
		for _, c := range cases {
			lines = append(lines, "stop "+modelTokens(c.Tokens))
		}
		var err error
		if model, err = common.RunDriverOnce(o.Driver, lines); err != nil {
			return err
		}
	}
	for i, c := range cases {
		res := results[i]
		phase := phaseOf(c.Tokens)
		rep.Case(fmt.Sprintf("stop|%s|%d|%d", strings.Join(c.Tokens, ""), len(c.Init), c.Procs), res.Acked > 0)
		rep.Count("stop:phase=" + phase)
		rep.Count(fmt.Sprintf("stop:gomaxprocs=%d", c.Procs))
		if i < 3 {
			rep.Sample(map[string]any{"case": c, "versions_in_file_after_stop": res.Versions, "acked": res.Acked})
		}
		if res.Err != "" {
			rep.Diverge(common.Divergence{Engine: "stop", Case: c, Impl: res.Err, Model: "", Note: "script failed on the implementation"})
			continue
		}
		allowed := map[string]bool{}
		if model != nil {
			ml := model[i]
			var disks, acked string
			for _, f := range strings.Fields(ml) {
				if v, ok := strings.CutPrefix(f, "disks="); ok {
					disks = v
				}
				if v, ok := strings.CutPrefix(f, "acked="); ok {
					acked = v
				}
			}
			for _, d := range strings.Split(disks, ",") {
				allowed[d] = true
			}
			if acked != fmt.Sprint(res.Acked) {
				rep.Diverge(common.Divergence{Engine: "stop", Case: c, Impl: fmt.Sprintf("acked=%d", res.Acked), Model: ml})
			}
			for v := range res.Versions {
				if !allowed[v] {
					rep.Diverge(common.Divergence{Engine: "stop", Case: c, Impl: fmt.Sprintf("file holds version %s after Stop (%v)", v, res.Versions), Model: ml,
						Note: "store version after Stop outside the model's reachable set"})
					break
				}
			}
			rep.TracesValidated += c.Reps
		}
		// ---- property oracle: every change acknowledged before the cancellation is in the file ----
		lost := 0
		worst := ""
		for v, n := range res.Versions {
			var vi int
			fmt.Sscan(v, &vi)
			if vi < res.Acked {
				lost += n
				worst = v
			}
		}
		if lost > 0 {
			failOnce(rep, common.OracleFailure{Engine: "stop", Key: "F14:acked-change-lost-at-stop:" + phase, Case: c,
				Detail: fmt.Sprintf("script %s: %d changes acknowledged before the cancellation, but after Stop the file held store version %s in %d of %d runs (GOMAXPROCS=%d): %v",
					strings.Join(c.Tokens, " "), res.Acked, worst, lost, c.Reps, c.Procs, res.Versions)})
		}
	}
	return nil
}

func engineStop(base string, o *common.Options, rep *common.Report) error {
	r := common.NewRng(o.Seed ^ 0x5107)
	reps, nRandom := 40, 30
	switch {
	case o.Thorough():
		reps, nRandom = 200, 300
	case o.Search:
		reps, nRandom = 100, 100
	}
	var cases []StopCase
	mk := func(tokens string, procs int, nInit int, i int) StopCase {
		rr := r.Fork(uint64(1000 + i))
		return StopCase{Init: genStore(rr, nInit, 16), PskLen: 16, Tokens: strings.Fields(tokens), Procs: procs, Reps: reps, Seed: rr.U64()}
	}
	// directed: shutdown at each debounce phase
	directed := []string{
		"A C S",         // queued: the saver may not have looked at the queue yet
		"W A C S",       // queued, saver parked in the first select
		"A W C S",       // cooling down
		"A W A C S",     // cooling down with a second change queued
		"A T C S",       // cancellation races the save itself
		"A T A C S",     // change acknowledged while / right after the save runs
		"A W T W A C S", // saved, idle, new change, shutdown
		"A D U C S",
		"D W U C A S",
		"C S",
	}
	i := 0
	for _, d := range directed {
		for _, procs := range []int{1, runtime.NumCPU()} {
			cases = append(cases, mk(d, procs, 2, i))
			i++
		}
	}
	for k := 0; k < nRandom; k++ {
		rr := r.Fork(uint64(k))
		procs := 1
		if rr.Bool() {
			procs = runtime.NumCPU()
		}
		c := mk(strings.Join(genStopTokens(rr), " "), procs, rr.Range(0, 3), i)
		c.Reps = max(reps/4, 5)
		cases = append(cases, c)
		i++
	}
	if err := evalStop(base, cases, o, rep); err != nil {
		return err
	}
	rep.FindingsProbed[keyF14] = rep.Distribution["ORACLE-FAIL:"+keyF14] > 0
	return nil
}

func main() {
	if len(os.Args) > 1 {
		switch os.Args[1] {
		case "child-save":
			childSave()
			return
		case "child-stop":
			childStop()
			return
		}
	}
	o := common.ParseFlags()
	rep := common.NewReport("C20", o)
	rep.Engines = []string{"persist", "history", "syscall", "stop"}
	rep.Rule = "engine persist: stores of 0..N users (N=3 quick, 6 thorough with two stores per size and 16/32-byte keys; names with JSON-special characters) x one API change (add/delete/update) x RLIMIT_FSIZE = every byte count 0..len(new document) x {process killed by SIGXFSZ, write returns EFBIG}, each in its own child process running the real cred.Manager, in rotating environments of the store path (regular file / symlink to a file in the same / another directory; stray <store>.tmp or <store>.<digits>.tmp next to it); " +
		"engine history: the same cut save, then the server restarts on the remains, one more change is acknowledged, graceful Stop, restart (every byte count for stores of 0..1 users, every 8th otherwise); " +
		"non-trivial = the limit cuts the document; distinct by (store, change, mode, limit). engine stop: shutdown scripts over {change, Wait, cool-down, cancel, Stop} under testing/synctest, repeated (select is random), GOMAXPROCS 1 and all cores; non-trivial = at least one change acknowledged before the cancellation"
	base, err := os.MkdirTemp("", "c20-corr-")
	if err == nil {
		defer os.RemoveAll(base)
		if o.Replay != "" {
			err = replay(base, o, rep)
		} else {
			if err = enginePersist(base, o, rep); err == nil {
				err = engineSyscall(base, o, rep)
			}
			if err == nil {
				err = engineStop(base, o, rep)
			}
		}
	}
	if err != nil {
		fmt.Fprintln(os.Stderr, "corr_c20:", err)
		rep.Note("engine error: %v", err)
		rep.Write(o.Out)
		os.RemoveAll(base)
		os.Exit(3)
	}
	if err := rep.Write(o.Out); err != nil {
		fmt.Fprintln(os.Stderr, err)
		os.RemoveAll(base)
		os.Exit(3)
	}
}

func replay(base string, o *common.Options, rep *common.Report) error {
	var probe struct {
		Engine string   `json:"engine"`
		Tokens []string `json:"tokens"`
	}
	if err := common.LoadReplay(o.Replay, &probe); err != nil {
		return err
	}
	if probe.Engine == "syscall" {
		var c SysCase
		if err := common.LoadReplay(o.Replay, &c); err != nil {
			return err
		}
		idx := 0
		return evalSysGroup(base, c.Users, c.PskLen, c.Change, c.Kind, c.Leftover, &c, o, rep, &idx)
	}
	if len(probe.Tokens) > 0 {
		var c StopCase
		if err := common.LoadReplay(o.Replay, &c); err != nil {
			return err
		}
		c.Reps = max(c.Reps, 100)
		return evalStop(base, []StopCase{c}, o, rep)
	}
	var c SaveCase
	if err := common.LoadReplay(o.Replay, &c); err != nil {
		return err
	}
	if c.Kind == "" {
		c.Kind = "reg"
	}
	idx := 0
	jobs, err := expand(base, c.Users, c.PskLen, c.Change, c.Kind, c.Leftover, 0, common.NewRng(o.Seed), &idx)
	if err != nil {
		return err
	}
	var one []*saveJob
	for _, j := range jobs {
		if j.c.Mode == c.Mode && j.c.Limit == c.Limit {
			j.c.Change2, j.c.Engine = c.Change2, c.Engine
			one = append(one, j)
		}
	}
	return evalSaveJobs(base, one, o, rep, idx)
}
