// gen_c07: regenerates lean/SSV/Gen/C07.lean from /repo: SOCKS5 constants, conn.DialResultCode values,
// the ReplyFromDialResultCode table (extracted from the switch; any other statement shape aborts), the HTTP
// status lines written by httpproxy's send200/400/407/502, the CONNECT request format of httpproxy.ClientConnect
// and the fact "the CONNECT branch of ServerHandle keeps the bufio read-ahead".
package main

import (
	"fmt"
	"go/ast"
	"go/constant"
	"go/token"
	"strings"

	"ssvharness/internal/gen"
)

func bytesLit(s string) string {
	var sb strings.Builder
	sb.WriteByte('[')
	for i := 0; i < len(s); i++ {
		if i > 0 {
			sb.WriteString(", ")
		}
		fmt.Fprintf(&sb, "%d", s[i])
	}
	sb.WriteByte(']')
	return sb.String()
}

func constStr(p *gen.Pkg, e ast.Expr) (string, bool) {
	tv, ok := p.Info.Types[e]
	if !ok || tv.Value == nil || tv.Value.Kind() != constant.String {
		return "", false
	}
	return constant.StringVal(tv.Value), true
}

// sendLiteral extracts S from `func sendNNN(w io.Writer) error { _, err := w.Write([]byte(S)); return err }`.
func sendLiteral(p *gen.Pkg, name string) (string, error) {
	fd, err := p.Func("", name)
	if err != nil {
		return "", err
	}
	if fd.Body == nil || len(fd.Body.List) != 2 {
		return "", fmt.Errorf("%s: unrecognised body: %s", name, p.Src(fd.Body))
	}
	as, ok := fd.Body.List[0].(*ast.AssignStmt)
	if !ok || len(as.Rhs) != 1 {
		return "", fmt.Errorf("%s: unrecognised statement: %s", name, p.Src(fd.Body.List[0]))
	}
	call, ok := as.Rhs[0].(*ast.CallExpr)
	if !ok || p.Src(call.Fun) != "w.Write" || len(call.Args) != 1 {
		return "", fmt.Errorf("%s: unrecognised call: %s", name, p.Src(as.Rhs[0]))
	}
	conv, ok := call.Args[0].(*ast.CallExpr)
	if !ok || p.Src(conv.Fun) != "[]byte" || len(conv.Args) != 1 {
		return "", fmt.Errorf("%s: unrecognised argument: %s", name, p.Src(call.Args[0]))
	}
	s, ok := constStr(p, conv.Args[0])
	if !ok {
		return "", fmt.Errorf("%s: argument is not a constant string: %s", name, p.Src(conv.Args[0]))
	}
	if rs, ok := fd.Body.List[1].(*ast.ReturnStmt); !ok || len(rs.Results) != 1 || p.Src(rs.Results[0]) != "err" {
		return "", fmt.Errorf("%s: unrecognised return: %s", name, p.Src(fd.Body.List[1]))
	}
	return s, nil
}

// replyTable extracts ReplyFromDialResultCode: `switch code { case A, B: return R ... default: return D }`.
func replyTable(socks, cn *gen.Pkg) (rows [][2]string, def string, err error) {
	fd, err := socks.Func("", "ReplyFromDialResultCode")
	if err != nil {
		return nil, "", err
	}
	if fd.Body == nil || len(fd.Body.List) != 1 {
		return nil, "", fmt.Errorf("ReplyFromDialResultCode: unrecognised body: %s", socks.Src(fd.Body))
	}
	sw, ok := fd.Body.List[0].(*ast.SwitchStmt)
	if !ok || sw.Init != nil || socks.Src(sw.Tag) != "code" {
		return nil, "", fmt.Errorf("ReplyFromDialResultCode: not `switch code`: %s", socks.Src(fd.Body.List[0]))
	}
	seen := map[string]bool{}
	for _, st := range sw.Body.List {
		cc := st.(*ast.CaseClause)
		if len(cc.Body) != 1 {
			return nil, "", fmt.Errorf("ReplyFromDialResultCode: unrecognised case body: %s", socks.Src(cc))
		}
		rs, ok := cc.Body[0].(*ast.ReturnStmt)
		if !ok || len(rs.Results) != 1 {
			return nil, "", fmt.Errorf("ReplyFromDialResultCode: unrecognised case body: %s", socks.Src(cc))
		}
		r, ok := socks.EvalInt(rs.Results[0])
		if !ok {
			return nil, "", fmt.Errorf("ReplyFromDialResultCode: non-constant result: %s", socks.Src(rs.Results[0]))
		}
		if cc.List == nil {
			if def != "" {
				return nil, "", fmt.Errorf("ReplyFromDialResultCode: two default clauses")
			}
			def = r
			continue
		}
		for _, e := range cc.List {
			v, ok := socks.EvalInt(e)
			if !ok {
				return nil, "", fmt.Errorf("ReplyFromDialResultCode: non-constant case: %s", socks.Src(e))
			}
			if seen[v] {
				return nil, "", fmt.Errorf("ReplyFromDialResultCode: duplicate case %s", v)
			}
			seen[v] = true
			rows = append(rows, [2]string{v, r})
		}
	}
	if def == "" {
		return nil, "", fmt.Errorf("ReplyFromDialResultCode: no default clause")
	}
	return rows, def, nil
}

// connectFormat extracts the format string of the fmt.Fprintf call in httpproxy.ClientConnect and splits it at "%s".
func connectFormat(p *gen.Pkg) ([]string, error) {
	fd, err := p.Func("", "ClientConnect")
	if err != nil {
		return nil, err
	}
	var found []string
	var ferr error
	ast.Inspect(fd.Body, func(n ast.Node) bool {
		call, ok := n.(*ast.CallExpr)
		if !ok || p.Src(call.Fun) != "fmt.Fprintf" {
			return true
		}
		if found != nil {
			ferr = fmt.Errorf("ClientConnect: more than one fmt.Fprintf")
			return false
		}
		if len(call.Args) != 5 || p.Src(call.Args[0]) != "rw" || p.Src(call.Args[2]) != "targetAddress" || p.Src(call.Args[3]) != "targetAddress" || p.Src(call.Args[4]) != "proxyAuthHeader" {
			ferr = fmt.Errorf("ClientConnect: unrecognised Fprintf arguments: %s", p.Src(call))
			return false
		}
		s, ok := constStr(p, call.Args[1])
		if !ok {
			ferr = fmt.Errorf("ClientConnect: format is not a constant string")
			return false
		}
		parts := strings.Split(s, "%s")
		if len(parts) != 4 || strings.Contains(strings.Join(parts, ""), "%") {
			ferr = fmt.Errorf("ClientConnect: format %q does not have exactly three %%s verbs", s)
			return false
		}
		found = parts
		return true
	})
	if ferr != nil {
		return nil, ferr
	}
	if found == nil {
		return nil, fmt.Errorf("ClientConnect: no fmt.Fprintf call")
	}
	return found, nil
}

// connectKeepsReadAhead inspects the `if req.Method == http.MethodConnect { ... }` block of ServerHandle.
//
//	true : the block contains `if rwbr.Buffered() > 0 { rw = newReadBufferedNetioConn(rw, rwbr) }` before
//	       `return newServerConnectPendingConn(rw), ...`
//	false: the block does not mention rwbr at all (the pending conn is built on the raw connection)
//
// anything else is an unrecognised shape.
func connectKeepsReadAhead(p *gen.Pkg) (bool, error) {
	fd, err := p.Func("", "ServerHandle")
	if err != nil {
		return false, err
	}
	var blk *ast.BlockStmt
	for _, st := range fd.Body.List {
		if is, ok := st.(*ast.IfStmt); ok && p.Src(is.Cond) == "req.Method == http.MethodConnect" {
			if blk != nil {
				return false, fmt.Errorf("ServerHandle: two CONNECT branches")
			}
			blk = is.Body
		}
	}
	if blk == nil {
		return false, fmt.Errorf("ServerHandle: CONNECT branch not found")
	}
	wrapAt, retAt, mentions := -1, -1, 0
	for i, st := range blk.List {
		src := p.Src(st)
		if strings.Contains(src, "rwbr") {
			mentions++
		}
		if is, ok := st.(*ast.IfStmt); ok && is.Init == nil && is.Else == nil && p.Src(is.Cond) == "rwbr.Buffered() > 0" &&
			len(is.Body.List) == 1 && p.Src(is.Body.List[0]) == "rw = newReadBufferedNetioConn(rw, rwbr)" {
			wrapAt = i
		}
		if rs, ok := st.(*ast.ReturnStmt); ok && len(rs.Results) == 4 && p.Src(rs.Results[0]) == "newServerConnectPendingConn(rw)" {
			retAt = i
		}
	}
	if retAt != len(blk.List)-1 {
		return false, fmt.Errorf("ServerHandle: CONNECT branch does not end in `return newServerConnectPendingConn(rw), ...`: %s", p.Src(blk))
	}
	switch {
	case mentions == 0:
		return false, nil
	case mentions == 1 && wrapAt >= 0 && wrapAt < retAt:
		// the wrapper itself must be the client's: reads drain the bufio.Reader first
		rd, err := p.Func("readBufferedNetioConn", "Read")
		if err != nil {
			return false, err
		}
		want := "{ if c.br.Buffered() > 0 { return c.br.Read(b) } return c.Conn.Read(b) }"
		if got := p.Src(stripComments(rd.Body)); got != want {
			return false, fmt.Errorf("readBufferedNetioConn.Read: unrecognised body: %s", got)
		}
		return true, nil
	}
	return false, fmt.Errorf("ServerHandle: unrecognised use of rwbr in the CONNECT branch: %s", p.Src(blk))
}

func stripComments(b *ast.BlockStmt) *ast.BlockStmt { return b } // printer.Fprint on a sub-node prints no free-floating comments

func main() {
	gen.Main("C07", func(c *gen.Ctx, l *gen.Lean) error {
		socks, err := c.Load("socks5")
		if err != nil {
			return err
		}
		cn, err := c.Load("conn")
		if err != nil {
			return err
		}
		hp, err := c.Load("httpproxy")
		if err != nil {
			return err
		}
		nonePkg, err := c.Load("ssnone")
		if err != nil {
			return err
		}
		if err := l.Consts(socks, "Version", "MethodNoAuthenticationRequired", "MethodGSSAPI", "MethodUsernamePassword", "MethodNoAcceptable",
			"CmdConnect", "CmdBind", "CmdUDPAssociate",
			"ReplySucceeded", "ReplyGeneralSocksServerFailure", "ReplyConnectionNotAllowedByRuleset", "ReplyNetworkUnreachable",
			"ReplyHostUnreachable", "ReplyConnectionRefused", "ReplyTTLExpired", "ReplyCommandNotSupported", "ReplyAddressTypeNotSupported",
			"UsernamePasswordAuthVersion", "AtypIPv4", "AtypDomainName", "AtypIPv6", "IPv4AddrLen", "IPv6AddrLen", "MaxAddrLen"); err != nil {
			return err
		}
		if err := l.Consts(cn, "DialResultCodeSuccess", "DialResultCodeEACCES", "DialResultCodeENETDOWN", "DialResultCodeENETUNREACH",
			"DialResultCodeENETRESET", "DialResultCodeECONNABORTED", "DialResultCodeECONNRESET", "DialResultCodeETIMEDOUT",
			"DialResultCodeECONNREFUSED", "DialResultCodeEHOSTDOWN", "DialResultCodeEHOSTUNREACH", "DialResultCodeErrDomainNameLookup",
			"DialResultCodeErrOther"); err != nil {
			return err
		}
		rows, def, err := replyTable(socks, cn)
		if err != nil {
			return err
		}
		var rs []string
		for _, r := range rows {
			rs = append(rs, fmt.Sprintf("(%s, %s)", r[0], r[1]))
		}
		l.Raw("/-- socks5.ReplyFromDialResultCode: the (dial result code, reply) pairs of the switch, in source order -/\n")
		l.Raw("def replyTable : List (Nat × Nat) := [" + strings.Join(rs, ", ") + "]\n")
		l.NatDef("replyDefault", def, "socks5.ReplyFromDialResultCode: the default clause")
		// the scratch buffer of ServerAccept*/ClientRequest*: make([]byte, 3+MaxAddrLen)
		for _, fn := range []string{"ServerAccept", "ServerAcceptUsernamePassword", "ClientRequest", "ClientRequestUsernamePassword"} {
			fd, err := socks.Func("", fn)
			if err != nil {
				return err
			}
			as, ok := fd.Body.List[0].(*ast.AssignStmt)
			if !ok || as.Tok != token.DEFINE || socks.Src(as.Lhs[0]) != "b" || socks.Src(as.Rhs[0]) != "make([]byte, 3+MaxAddrLen)" {
				return fmt.Errorf("%s: first statement is not `b := make([]byte, 3+MaxAddrLen)`: %s", fn, socks.Src(fd.Body.List[0]))
			}
		}
		l.Raw("/-- socks5: `b := make([]byte, 3+MaxAddrLen)` in ServerAccept, ServerAcceptUsernamePassword, ClientRequest, ClientRequestUsernamePassword -/\n")
		l.Raw("def scratchLen : Nat := 3 + MaxAddrLen\n")
		for _, n := range []string{"200", "400", "407", "502"} {
			s, err := sendLiteral(hp, "send"+n)
			if err != nil {
				return err
			}
			l.Raw(fmt.Sprintf("/-- httpproxy.send%s: %s -/\ndef status%s : List UInt8 := %s\n", n, gen.LeanString(s), n, bytesLit(s)))
		}
		parts, err := connectFormat(hp)
		if err != nil {
			return err
		}
		l.Raw(fmt.Sprintf("/-- httpproxy.ClientConnect: format %s split at the three %%s verbs (target, target, proxyAuthHeader) -/\n", gen.LeanString(strings.Join(parts, "%s"))))
		var ps []string
		for _, p := range parts {
			ps = append(ps, bytesLit(p))
		}
		l.Raw("def connectParts : List (List UInt8) := [" + strings.Join(ps, ", ") + "]\n")
		// proxyAuthHeaderPrefix of NewProxyClient
		if s, err := findConstString(hp, "NewProxyClient", "proxyAuthHeaderPrefix"); err != nil {
			return err
		} else {
			l.Raw(fmt.Sprintf("/-- httpproxy.NewProxyClient: proxyAuthHeaderPrefix = %s -/\ndef proxyAuthHeaderPrefix : List UInt8 := %s\n", gen.LeanString(s), bytesLit(s)))
		}
		keep, err := connectKeepsReadAhead(hp)
		if err != nil {
			return err
		}
		// state that outlives one connection: package-level variables and fields of the long-lived client /
		// server objects. Everything recognisably immutable (error values, constant arrays, interface
		// assertions; configuration fields of immutable type) is listed as read-only; anything else is
		// "shared mutable state" and breaks the side condition `connections_share_no_state`.
		ss, ro, err := sharedState(map[string]*gen.Pkg{"socks5": socks, "httpproxy": hp, "ssnone": nonePkg})
		if err != nil {
			return err
		}
		l.Raw("/-- package-level variables and long-lived object fields of socks5 / httpproxy / ssnone (non-test, linux) that are NOT recognisably immutable -/\n")
		l.Raw("def sharedState : List String := " + gen.LeanStrList(ss) + "\n")
		l.Raw("/-- the recognised read-only ones, for the record -/\n")
		l.Raw("def sharedReadOnly : List String := " + gen.LeanStrList(ro) + "\n")
		// fingerprint of the Abort paths: the reply is computed from dialResult.Code and nothing else
		for _, fp := range []struct{ pkg *gen.Pkg; recv, want string }{
			{socks, "serverPendingConn", "{ return replyWithStatus(c.inner, c.buf, ReplyFromDialResultCode(dialResult.Code)) }"},
			{hp, "serverConnectPendingConn", "{ if err := send502(c.inner); err != nil { return fmt.Errorf(\"failed to send 502 Bad Gateway response: %w\", err) } return nil }"},
		} {
			fd, err := fp.pkg.Func(fp.recv, "Abort")
			if err != nil {
				return err
			}
			if got := fp.pkg.Src(fd.Body); got != fp.want {
				return fmt.Errorf("%s.Abort: unrecognised body (the reply must be a function of dialResult.Code only): %s", fp.recv, got)
			}
		}
		l.BoolDef("abortUsesCode", true, "socks5 serverPendingConn.Abort = replyWithStatus(c.inner, c.buf, ReplyFromDialResultCode(dialResult.Code)); httpproxy serverConnectPendingConn.Abort(_) = send502")
		l.BoolDef("connectKeepsReadAhead", keep, "httpproxy.ServerHandle, CONNECT branch: `if rwbr.Buffered() > 0 { rw = newReadBufferedNetioConn(rw, rwbr) }` present before the pending conn is built")
		return nil
	})
}

// findConstString finds `const name = "..."` declared inside the method/function fn.
func findConstString(p *gen.Pkg, fn, name string) (string, error) {
	for _, f := range p.Files {
		for _, d := range f.Decls {
			fd, ok := d.(*ast.FuncDecl)
			if !ok || fd.Name.Name != fn || fd.Body == nil {
				continue
			}
			var res string
			found := false
			ast.Inspect(fd.Body, func(n ast.Node) bool {
				vs, ok := n.(*ast.ValueSpec)
				if !ok || len(vs.Names) != 1 || vs.Names[0].Name != name || len(vs.Values) != 1 {
					return true
				}
				if s, ok := constStr(p, vs.Values[0]); ok {
					res, found = s, true
				}
				return true
			})
			if found {
				return res, nil
			}
		}
	}
	return "", fmt.Errorf("%s: constant %s not found", fn, name)
}

// immutableFieldTypes: types of fields of long-lived client/server objects that carry configuration only.
var immutableFieldTypes = map[string]bool{
	"string": true, "bool": true, "conn.Addr": true, "netio.StreamClient": true, "[]byte": true,
	"map[string]UserInfo": true, "map[string]string": true, "*tls.Config": true, "ProxyServer": true,
}

// longLived: the objects that serve many connections.
var longLived = map[string][]string{
	"socks5":    {"StreamClient", "AuthStreamClient", "StreamServer", "AuthStreamServer"},
	"httpproxy": {"ProxyClient", "ProxyServer", "TLSProxyServer"},
	"ssnone":    {"StreamClient", "StreamServer"},
}

func sharedState(pkgs map[string]*gen.Pkg) (mutable, readonly []string, err error) {
	for _, name := range []string{"httpproxy", "socks5", "ssnone"} {
		p := pkgs[name]
		seenTypes := map[string]bool{}
		for _, f := range p.Files {
			for _, d := range f.Decls {
				gd, ok := d.(*ast.GenDecl)
				if !ok {
					continue
				}
				for _, sp := range gd.Specs {
					switch sp := sp.(type) {
					case *ast.ValueSpec:
						if gd.Tok != token.VAR {
							continue
						}
						for i, id := range sp.Names {
							if id.Name == "_" {
								continue
							}
							var init ast.Expr
							if i < len(sp.Values) {
								init = sp.Values[i]
							}
							desc := name + "." + id.Name
							switch {
							case init != nil && isErrorsNew(p, init):
								readonly = append(readonly, desc+" (error value)")
							case init != nil && isConstArray(p, init):
								readonly = append(readonly, desc+" (constant array)")
							default:
								t := "?"
								if sp.Type != nil {
									t = p.Src(sp.Type)
								} else if init != nil {
									if tv, ok := p.Info.Types[init]; ok && tv.Type != nil {
										t = tv.Type.String()
									}
								}
								mutable = append(mutable, desc+": "+t)
							}
						}
					case *ast.TypeSpec:
						st, ok := sp.Type.(*ast.StructType)
						if !ok {
							continue
						}
						for _, ll := range longLived[name] {
							if sp.Name.Name != ll {
								continue
							}
							seenTypes[ll] = true
							for _, fl := range st.Fields.List {
								ft := p.Src(fl.Type)
								for _, fn := range fl.Names {
									desc := name + "." + ll + "." + fn.Name + ": " + ft
									if immutableFieldTypes[ft] {
										readonly = append(readonly, desc)
									} else {
										mutable = append(mutable, desc)
									}
								}
								if len(fl.Names) == 0 {
									mutable = append(mutable, name+"."+ll+" embeds "+ft)
								}
							}
						}
					}
				}
			}
		}
		for _, ll := range longLived[name] {
			if !seenTypes[ll] {
				return nil, nil, fmt.Errorf("%s: long-lived type %s not found (renamed?)", name, ll)
			}
		}
	}
	return mutable, readonly, nil
}

func isErrorsNew(p *gen.Pkg, e ast.Expr) bool {
	call, ok := e.(*ast.CallExpr)
	if !ok || p.Src(call.Fun) != "errors.New" || len(call.Args) != 1 {
		return false
	}
	_, ok = constStr(p, call.Args[0])
	return ok
}

// isConstArray: `[N]byte{constants...}` (a value type: every use copies it).
func isConstArray(p *gen.Pkg, e ast.Expr) bool {
	cl, ok := e.(*ast.CompositeLit)
	if !ok {
		return false
	}
	at, ok := cl.Type.(*ast.ArrayType)
	if !ok || at.Len == nil || p.Src(at.Elt) != "byte" {
		return false
	}
	for _, el := range cl.Elts {
		if _, ok := p.EvalInt(el); !ok {
			return false
		}
	}
	return true
}
