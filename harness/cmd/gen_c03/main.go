// gen_c03: regenerates lean/SSV/Gen/C03.lean from /repo:
//   - the constants MaxEpochDiff and ReplayWindowDuration,
//   - the body of SaltPool.Add as a step program (lock / defer unlock / prune / lookup / insert),
//   - the order of the property-relevant steps of StreamServer.HandleStream (TryContains pre-check,
//     prefix, identity, AEAD open, the single clock reading, header parse with that reading, Add with
//     that reading, body) and the two guards on the salt pool,
//   - the canonical source text of the small functions the model mirrors statement by statement
//     (pruneExpired, insert, Contains, TryContains, ValidateUnixEpochTimestamp): SSV.Props.C03
//     compares them with the text the model was written against.
//
// Every extractor fails (GEN-BROKEN) on a statement it does not recognise.
package main

import (
	"fmt"
	"go/ast"
	"strings"

	"ssvharness/internal/gen"
)

func addProgram(p *gen.Pkg) ([]string, error) {
	fd, err := p.Func("*SaltPool", "Add")
	if err != nil {
		return nil, err
	}
	var steps []string
	for _, st := range fd.Body.List {
		src := p.Src(st)
		switch src {
		case "p.mu.Lock()":
			steps = append(steps, "lock")
		case "defer p.mu.Unlock()":
			steps = append(steps, "deferUnlock")
		case "p.mu.Unlock()":
			steps = append(steps, "unlock")
		case "p.pruneExpired(now)":
			steps = append(steps, "prune")
		case "if _, ok := p.nodeBySalt[salt]; ok { return false }":
			steps = append(steps, "lookupReturnFalse")
		case "p.insert(now, salt)":
			steps = append(steps, "insert")
		case "return true":
			steps = append(steps, "returnTrue")
		default:
			return nil, fmt.Errorf("SaltPool.Add: unrecognised statement %q", src)
		}
	}
	return steps, nil
}

var markers = []struct{ sel, stage, args string }{
	{"s.readOnceOrFull", "readHeader", ""},
	{"s.saltPool.TryContains", "tryContains", "extendedSalt"},
	{"bytes.Equal", "checkPrefix", "ursp, s.unsafeRequestStreamPrefix"},
	{"s.CredStore.LookupUser", "identity", ""},
	{"shadowStreamCipher.DecryptTo", "openFixed", "reserved, ciphertext"},
	{"time.Now", "readClock", ""},
	{"ParseTCPRequestFixedLengthHeader", "parseFixed", "plaintext, now"},
	{"s.saltPool.Add", "addSalt", "now, extendedSalt"},
	{"io.ReadFull", "readBody", ""},
	{"shadowStreamCipher.DecryptInPlace", "readBody", ""},
	{"ParseTCPRequestVariableLengthHeader", "readBody", ""},
}

func handleStages(p *gen.Pkg) (stages, guards []string, err error) {
	fd, e := p.Func("*StreamServer", "HandleStream")
	if e != nil {
		return nil, nil, e
	}
	ast.Inspect(fd.Body, func(n ast.Node) bool {
		if err != nil {
			return false
		}
		switch x := n.(type) {
		case *ast.AssignStmt:
			// `n = 0`: the point after which the deferred function can no longer fall back
			if p.Src(x) == "n = 0" {
				stages = append(stages, "commit")
			}
		case *ast.IfStmt:
			if strings.Contains(p.Src(x.Cond), "saltPool") || (x.Init != nil && strings.Contains(p.Src(x.Init), "saltPool")) {
				guards = append(guards, p.Src(x))
			}
		case *ast.CallExpr:
			fun := p.Src(x.Fun)
			var args []string
			for _, a := range x.Args {
				args = append(args, p.Src(a))
			}
			matched := false
			for _, m := range markers {
				if fun != m.sel {
					continue
				}
				matched = true
				if m.args != "" && strings.Join(args, ", ") != m.args {
					err = fmt.Errorf("HandleStream: %s called with (%s), expected (%s)", fun, strings.Join(args, ", "), m.args)
					return false
				}
				if len(stages) == 0 || stages[len(stages)-1] != m.stage {
					stages = append(stages, m.stage)
				}
			}
			if !matched && strings.Contains(fun, "saltPool") {
				err = fmt.Errorf("HandleStream: unrecognised use of the salt pool: %s", p.Src(x))
				return false
			}
		case *ast.SelectorExpr:
			// any other mention of the pool (assignment, method value, Clear …) is not a shape we know
			if p.Src(x) == "s.saltPool" {
				return true
			}
		}
		return true
	})
	if err != nil {
		return nil, nil, err
	}
	// every mention of s.saltPool must be one of the two recognised calls
	mentions := strings.Count(p.Src(fd.Body), "saltPool")
	if mentions != 2 {
		return nil, nil, fmt.Errorf("HandleStream: %d mentions of saltPool, expected exactly the TryContains pre-check and the Add", mentions)
	}
	return stages, guards, nil
}

func main() {
	gen.Main("C03", func(c *gen.Ctx, l *gen.Lean) error {
		p, err := c.Load("ss2022")
		if err != nil {
			return err
		}
		if err := l.Consts(p, "MaxEpochDiff", "ReplayWindowDuration"); err != nil {
			return err
		}
		steps, err := addProgram(p)
		if err != nil {
			return err
		}
		l.Raw("/-- body of ss2022.(*SaltPool).Add, statement by statement -/\ndef addProgram : List String := " + gen.LeanStrList(steps) + "\n")
		stages, guards, err := handleStages(p)
		if err != nil {
			return err
		}
		l.Raw("/-- property-relevant calls of ss2022.(*StreamServer).HandleStream in source order -/\ndef handleStages : List String := " + gen.LeanStrList(stages) + "\n")
		l.Raw("/-- the if-statements of HandleStream that consult the salt pool -/\ndef saltPoolGuards : List String := " + gen.LeanStrList(guards) + "\n")
		// the deferred fallback decision of HandleStream (first defer statement of the body)
		hs, err := p.Func("*StreamServer", "HandleStream")
		if err != nil {
			return err
		}
		var deferSrc string
		ndefer := 0
		ast.Inspect(hs.Body, func(n ast.Node) bool {
			if d, ok := n.(*ast.DeferStmt); ok {
				ndefer++
				deferSrc = p.Src(d)
			}
			return true
		})
		if ndefer != 1 {
			return fmt.Errorf("HandleStream: %d defer statements, expected the one fallback decision", ndefer)
		}
		l.StrDef("srcHandleDefer", deferSrc, "the deferred function of ss2022.(*StreamServer).HandleStream")
		// every assignment to n in HandleStream: the first read and the commit
		var nAssign []string
		ast.Inspect(hs.Body, func(n ast.Node) bool {
			if a, ok := n.(*ast.AssignStmt); ok {
				for _, lhs := range a.Lhs {
					if p.Src(lhs) == "n" {
						nAssign = append(nAssign, p.Src(a))
					}
				}
			}
			return true
		})
		l.Raw("/-- every assignment to `n` (bytes of the first read) in HandleStream -/\ndef handleAssignsN : List String := " + gen.LeanStrList(nAssign) + "\n")
		// UDP side of the same constant: what NewUDPServer advertises as MinNATTimeout
		nu, err := p.Func("", "NewUDPServer")
		if err != nil {
			return err
		}
		var minNAT ast.Expr
		nMin := 0
		ast.Inspect(nu.Body, func(n ast.Node) bool {
			if kv, ok := n.(*ast.KeyValueExpr); ok && p.Src(kv.Key) == "MinNATTimeout" {
				minNAT = kv.Value
				nMin++
			}
			return true
		})
		if nMin != 1 {
			return fmt.Errorf("NewUDPServer: %d MinNATTimeout fields, expected 1", nMin)
		}
		v, ok := p.EvalInt(minNAT)
		if !ok {
			return fmt.Errorf("NewUDPServer: MinNATTimeout %q is not a constant", p.Src(minNAT))
		}
		l.StrDef("udpMinNATTimeoutExpr", p.Src(minNAT), "ss2022.NewUDPServer: UDPSessionServerInfo.MinNATTimeout, as written")
		l.NatDef("udpMinNATTimeout", v, "ss2022.NewUDPServer: UDPSessionServerInfo.MinNATTimeout, evaluated (ns)")
		for _, f := range []struct{ lean, recv, name string }{
			{"srcPruneExpired", "*SaltPool", "pruneExpired"},
			{"srcInsert", "*SaltPool", "insert"},
			{"srcContains", "*SaltPool", "Contains"},
			{"srcTryContains", "*SaltPool", "TryContains"},
			{"srcValidateTimestamp", "", "ValidateUnixEpochTimestamp"},
		} {
			fd, err := p.Func(f.recv, f.name)
			if err != nil {
				return err
			}
			l.StrDef(f.lean, p.Src(fd.Body), "body of ss2022."+f.name)
		}
		return nil
	})
}
