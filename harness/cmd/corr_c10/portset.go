package main

import (
	"context"
	"fmt"
	"net/netip"
	"reflect"
	"sort"
	"strconv"
	"strings"

	"ssvharness/internal/common"

	"github.com/database64128/shadowsocks-go/conn"
	"github.com/database64128/shadowsocks-go/portset"
	"github.com/database64128/shadowsocks-go/router"
	"go.uber.org/zap"
)

// GenItem is one comma-separated piece as the generator meant it.
type GenItem struct {
	Text  string `json:"text"`
	Valid bool   `json:"valid"`
	Lo    int    `json:"lo,omitempty"`
	Hi    int    `json:"hi,omitempty"`
}

type bitmap [1024]uint64

func (b *bitmap) set(p int)      { b[p/64] |= 1 << (p % 64) }
func (b *bitmap) get(p int) bool { return b[p/64]&(1<<(p%64)) != 0 }
func (b *bitmap) hex() string {
	var sb strings.Builder
	for _, w := range b {
		fmt.Fprintf(&sb, "%016x", w)
	}
	return sb.String()
}
func (b *bitmap) firstDiff(o *bitmap) int {
	for p := 0; p < 65536; p++ {
		if b.get(p) != o.get(p) {
			return p
		}
	}
	return -1
}

type portImpl struct {
	buildErr bool // a zero in the ports list (refused by the router before Add)
	ok       bool // Parse returned nil
	cnt      uint
	first    uint16
	rc       uint
	ranges   [][2]int
	words    bitmap // the blocks, read by reflection (bit 0 included)
	cbits    bitmap // Contains(p), p = 1..65535
	rbits    bitmap // RangeSet().Contains(p), p = 0..65535
	// through router.RouteConfig.Route (ToPorts/ToPortRanges and FromPorts/FromPortRanges)
	routeErr  string
	reprTo    string
	reprFrom  string
	mbitsTo   bitmap
	mbitsFrom bitmap
	panicked  any
}

func runPortImpl(c Case) (res portImpl) {
	res.panicked = common.Safely(func() {
		var ps portset.PortSet
		for _, p := range c.Ports {
			if p == 0 {
				res.buildErr = true
				return
			}
			ps.Add(p)
		}
		err := ps.Parse(c.Str)
		res.ok = err == nil
		res.cnt = ps.Count()
		res.first = ps.First()
		res.rc = ps.RangeCount()
		rs := ps.RangeSet()
		rv := reflect.ValueOf(rs).Field(0)
		for i := 0; i < rv.Len(); i++ {
			res.ranges = append(res.ranges, [2]int{int(rv.Index(i).Field(0).Uint()), int(rv.Index(i).Field(1).Uint())})
		}
		bv := reflect.ValueOf(&ps).Elem().Field(0)
		if bv.Len() != 1024 {
			panic(fmt.Sprintf("PortSet has %d blocks", bv.Len()))
		}
		for i := 0; i < 1024; i++ {
			res.words[i] = bv.Index(i).Uint()
		}
		for p := 1; p < 65536; p++ {
			if ps.Contains(uint16(p)) {
				res.cbits.set(p)
			}
		}
		for p := 0; p < 65536; p++ {
			if rs.Contains(uint16(p)) {
				res.rbits.set(p)
			}
		}
	})
	if res.panicked != nil || res.buildErr {
		return
	}
	// the criterion the router builds from the same configuration
	pan := common.Safely(func() {
		res.reprTo, res.routeErr = routeRepr(c, false, &res.mbitsTo)
		res.reprFrom, _ = routeRepr(c, true, &res.mbitsFrom)
	})
	if pan != nil {
		res.panicked = pan
	}
	return
}

var nopLogger = zap.NewNop()

func routeRepr(c Case, from bool, out *bitmap) (repr string, errText string) {
	rc := router.RouteConfig{Name: "r", Client: "reject"}
	if from {
		rc.FromPorts, rc.FromPortRanges = c.Ports, c.Str
	} else {
		rc.ToPorts, rc.ToPortRanges = c.Ports, c.Str
	}
	if len(c.Ports) == 0 && c.Str == "" {
		return "none", ""
	}
	route, err := rc.Route(nil, nopLogger, nil, nil, nil, nil, nil, nil, nil)
	if err != nil {
		if strings.Contains(err.Error(), "pointless") || strings.Contains(err.Error(), "all ports") {
			return "pointless", err.Error()
		}
		return "err", err.Error()
	}
	cv := reflect.ValueOf(route).FieldByName("criteria")
	if cv.Len() != 1 {
		return fmt.Sprintf("criteria=%d", cv.Len()), ""
	}
	tn := cv.Index(0).Elem().Type().String()
	switch {
	case strings.HasSuffix(tn, "PortCriterion"):
		repr = "single"
	case strings.HasSuffix(tn, "PortRangeSetCriterion"):
		repr = "ranges"
	case strings.HasSuffix(tn, "PortSetCriterion"):
		repr = "bits"
	default:
		repr = tn
	}
	ip := netip.AddrFrom4([4]byte{192, 0, 2, 1})
	ctx := context.Background()
	for p := 1; p < 65536; p++ {
		var ri router.RequestInfo
		if from {
			ri.SourceAddrPort = netip.AddrPortFrom(ip, uint16(p))
			ri.TargetAddr = conn.AddrFromIPPort(netip.AddrPortFrom(ip, 1))
		} else {
			ri.SourceAddrPort = netip.AddrPortFrom(ip, 1)
			ri.TargetAddr = conn.AddrFromIPPort(netip.AddrPortFrom(ip, uint16(p)))
		}
		m, err := route.Match(ctx, 0, ri)
		if err != nil {
			panic(fmt.Sprintf("route.Match: %v", err))
		}
		if m {
			out.set(p)
		}
	}
	return
}

// ---------- reference reading of a range string (from the doc comment of Parse:
// "comma-separated list of ports and port ranges"; ports are 1..65535, ranges lo-hi with lo < hi) ----------

type refVerdict int

const (
	refOK      refVerdict = iota
	refBad                // some piece is definitely not a port or a range
	refUnclear            // empty pieces (leading/trailing/double commas): the doc does not say
)

func refNumber(s string) (int, bool) {
	if s == "" || len(s) > 40 {
		return 0, false
	}
	n := 0
	for i := 0; i < len(s); i++ {
		if s[i] < '0' || s[i] > '9' {
			return 0, false
		}
		if n < 1000000 {
			n = n*10 + int(s[i]-'0')
		}
	}
	if n > 65535 {
		return 0, false
	}
	return n, true
}

func refParse(s string, set *bitmap) refVerdict {
	if s == "" {
		return refOK
	}
	v := refOK
	for _, piece := range strings.Split(s, ",") {
		if piece == "" {
			v = refUnclear
			continue
		}
		if lo, hi, ok := strings.Cut(piece, "-"); ok {
			a, okA := refNumber(lo)
			b, okB := refNumber(hi)
			if !okA || !okB || a == 0 || a >= b {
				return refBad
			}
			for p := a; p <= b; p++ {
				set.set(p)
			}
		} else {
			a, okA := refNumber(piece)
			if !okA || a == 0 {
				return refBad
			}
			set.set(a)
		}
	}
	return v
}

func countRuns(b *bitmap) (cnt, first, runs int) {
	first = 0
	prev := false
	for p := 0; p < 65536; p++ {
		cur := b.get(p)
		if cur {
			if cnt == 0 {
				first = p
			}
			cnt++
			if !prev {
				runs++
			}
		}
		prev = cur
	}
	return
}

func portOracle(c Case, im portImpl, rep *common.Report) {
	fail := func(key, format string, a ...any) {
		rep.Fail(common.OracleFailure{Engine: "portset", Key: "portset:" + key, Case: c, Detail: fmt.Sprintf(format, a...)})
	}
	if im.panicked != nil {
		fail("panic", "%v", im.panicked)
		return
	}
	if im.buildErr {
		return
	}
	var want bitmap
	for _, p := range c.Ports {
		want.set(int(p))
	}
	v := refParse(c.Str, &want)
	if c.Items != nil { // the generator's own account of the string must agree with the reference reading
		allValid := true
		for _, it := range c.Items {
			allValid = allValid && it.Valid
		}
		if allValid != (v == refOK) && v != refUnclear {
			fail("generator-inconsistent", "generator says valid=%v, reference reading says %v", allValid, v)
			return
		}
	}
	switch v {
	case refBad:
		if im.ok {
			fail("accepts-malformed", "Parse(%q) returned nil", c.Str)
		}
		return
	case refUnclear:
		if !im.ok {
			return
		}
	case refOK:
		if !im.ok {
			fail("rejects-wellformed", "Parse(%q) returned an error", c.Str)
			return
		}
	}
	// accepted: membership per port, in every representation
	if d := want.firstDiff(&im.cbits); d >= 0 {
		fail("contains-mismatch", "port %d: written=%v PortSet.Contains=%v", d, want.get(d), im.cbits.get(d))
		return
	}
	if d := want.firstDiff(&im.rbits); d >= 0 {
		fail("rangeset-mismatch", "port %d: written=%v RangeSet().Contains=%v (ranges %v)", d, want.get(d), im.rbits.get(d), trunc(im.ranges))
	}
	cnt, first, runs := countRuns(&want)
	if int(im.cnt) != cnt {
		fail("count", "Count()=%d, %d ports written", im.cnt, cnt)
	}
	if cnt > 0 && int(im.first) != first {
		fail("first", "First()=%d, smallest written port %d", im.first, first)
	}
	if int(im.rc) != runs || len(im.ranges) != runs {
		fail("rangecount", "RangeCount()=%d, len(RangeSet())=%d, %d maximal runs written", im.rc, len(im.ranges), runs)
	}
	for i, r := range im.ranges {
		if r[0] > r[1] || (i > 0 && im.ranges[i-1][1] >= r[0]) {
			fail("ranges-unsorted", "ranges %v", trunc(im.ranges))
			break
		}
	}
	for _, side := range []struct {
		name string
		repr string
		bits *bitmap
	}{{"to", im.reprTo, &im.mbitsTo}, {"from", im.reprFrom, &im.mbitsFrom}} {
		switch side.repr {
		case "single", "ranges", "bits":
			if d := want.firstDiff(side.bits); d >= 0 {
				fail("router-"+side.repr+"-mismatch", "%sPorts criterion (%s): port %d: written=%v Match=%v", side.name, side.repr, d, want.get(d), side.bits.get(d))
			}
		case "pointless":
			if cnt != 65535 {
				fail("router-rejects", "%sPorts: rejected as pointless with %d ports", side.name, cnt)
			}
		case "none":
		default:
			fail("router-rejects", "%sPorts: route construction gave %q (%s) for an accepted port set", side.name, side.repr, im.routeErr)
		}
	}
}

func trunc(rs [][2]int) string {
	if len(rs) > 20 {
		return fmt.Sprintf("%v… (%d)", rs[:20], len(rs))
	}
	return fmt.Sprint(rs)
}

// ---------- model comparison ----------

func portLine(c Case) string {
	ports := "-"
	if len(c.Ports) > 0 {
		ps := make([]string, len(c.Ports))
		for i, p := range c.Ports {
			ps[i] = strconv.Itoa(int(p))
		}
		ports = strings.Join(ps, ",")
	}
	return "ps " + ports + " " + hx(c.Str)
}

func kv(line string) map[string]string {
	m := map[string]string{}
	fs := strings.Fields(line)
	if len(fs) > 0 {
		m["status"] = fs[0]
	}
	for _, f := range fs[1:] {
		if k, v, ok := strings.Cut(f, "="); ok {
			m[k] = v
		}
	}
	return m
}

func portCompare(c Case, im portImpl, modelLine string, rep *common.Report) {
	div := func(what string, impl, model any) {
		rep.Diverge(common.Divergence{Engine: "portset", Case: c, Impl: impl, Model: model, Note: what})
	}
	if im.panicked != nil {
		div("implementation panicked", fmt.Sprint(im.panicked), short(modelLine))
		return
	}
	m := kv(modelLine)
	if im.buildErr {
		if m["status"] != "err" {
			div("zero port in the ports list", "refused", short(modelLine))
		}
		return
	}
	st := "err"
	if im.ok {
		st = "ok"
	}
	if m["status"] != st {
		div("Parse verdict", st, m["status"])
		return
	}
	// the contents are compared also after an error (the set keeps what was added before the bad piece)
	if m["words"] != im.words.hex() {
		var mw bitmap
		for i := 0; i < 1024 && len(m["words"]) == 1024*16; i++ {
			w, _ := strconv.ParseUint(m["words"][i*16:(i+1)*16], 16, 64)
			mw[i] = w
		}
		d := mw.firstDiff(&im.words)
		div(fmt.Sprintf("bit set differs, first at port %d", d), im.words.get(max(d, 0)), mw.get(max(d, 0)))
		return
	}
	var fromContains bitmap = im.cbits
	if im.words.get(0) {
		fromContains.set(0)
	}
	if fromContains != im.words {
		div("Contains(p) disagrees with the blocks read by reflection", "", "")
	}
	if m["cnt"] != fmt.Sprint(im.cnt) {
		div("Count", im.cnt, m["cnt"])
	}
	if m["first"] != fmt.Sprint(im.first) {
		div("First", im.first, m["first"])
	}
	if m["rc"] != fmt.Sprint(im.rc) {
		div("RangeCount", im.rc, m["rc"])
	}
	rs := "-"
	if len(im.ranges) > 0 {
		parts := make([]string, len(im.ranges))
		for i, r := range im.ranges {
			parts[i] = fmt.Sprintf("%d-%d", r[0], r[1])
		}
		rs = strings.Join(parts, ",")
	}
	if m["rs"] != rs {
		div("RangeSet", short(rs), short(m["rs"]))
	}
	if m["rbits"] != "-" && m["rbits"] != im.rbits.hex() {
		div("PortRangeSet.Contains over all ports", "", "")
	}
	if m["zero"] != "true" {
		div("Contains(0) must panic in the model", "panic by contract", m["zero"])
	}
	// the router's choice
	if !im.ok {
		return
	}
	wantRepr := im.reprTo
	if wantRepr == "single" {
		wantRepr = fmt.Sprintf("single:%d", im.first)
	}
	if wantRepr == "none" {
		wantRepr = "unreachable"
	}
	if m["repr"] != wantRepr || im.reprFrom != im.reprTo {
		div("router representation", im.reprTo+"/"+im.reprFrom, m["repr"])
		return
	}
	if m["mbits"] != "-" {
		if m["mbits"] != im.mbitsTo.hex() || m["mbits"] != im.mbitsFrom.hex() {
			div("router criterion Match over all ports", "", "")
		}
	}
}

func short(s string) string {
	if len(s) > 200 {
		return s[:200] + "…"
	}
	return s
}

// ---------- generator ----------

var portEdges = func() []int {
	e := []int{1, 2, 3, 62, 63, 64, 65, 66, 126, 127, 128, 129, 130, 191, 192, 193, 1023, 1024, 1025, 32767, 32768, 32769, 65470, 65471, 65472, 65473, 65533, 65534, 65535}
	return e
}()

func genPort(r *common.Rng) int {
	switch r.Intn(4) {
	case 0:
		return common.Pick(r, portEdges)
	case 1: // a block edge
		return clampPort(r.Range(1, 1023)*64 + r.Range(-2, 2))
	case 2:
		return r.Range(1, 300)
	default:
		return r.Range(1, 65535)
	}
}

func clampPort(p int) int {
	if p < 1 {
		return 1
	}
	if p > 65535 {
		return 65535
	}
	return p
}

var badPieces = []string{"0", "0-5", "5-5", "6-5", "65536", "1-65536", "65535-65536", "99999999999999999999", "+80", "-80", " 80", "80 ", "0x50", "8_0", "80-", "-", "1-2-3", "１", "80\n", "a", "1-", "-1", "1--2", "80;81", "1.5", "18446744073709551617", "65535-65535", "70000-80000", "0-0", "00-05"}

func genItem(r *common.Rng) GenItem {
	switch r.Intn(12) {
	case 0: // malformed piece
		return GenItem{Text: common.Pick(r, badPieces)}
	case 1, 2, 3, 4: // single port
		p := genPort(r)
		t := strconv.Itoa(p)
		if r.Chance(1, 8) {
			t = strings.Repeat("0", r.Range(1, 25)) + t
		}
		return GenItem{Text: t, Valid: true, Lo: p, Hi: p}
	default:
		a := genPort(r)
		var b int
		switch r.Intn(4) {
		case 0:
			b = a + 1
		case 1:
			b = a + r.Range(1, 130)
		case 2:
			b = genPort(r)
		default:
			b = a + r.Range(1, 5000)
		}
		if b > 65535 {
			b = 65535
		}
		if a > b {
			a, b = b, a
		}
		if a == b {
			if a == 65535 {
				a--
			} else {
				b++
			}
		}
		return GenItem{Text: fmt.Sprintf("%d-%d", a, b), Valid: true, Lo: a, Hi: b}
	}
}

func genPortCase(r *common.Rng, o *common.Options, idx int) Case {
	c := Case{Engine: "portset"}
	mode := r.Intn(20)
	switch {
	case mode == 0: // unstructured garbage
		alphabet := "0123456789,,--  +x"
		n := r.Range(0, 12)
		var sb strings.Builder
		for i := 0; i < n; i++ {
			sb.WriteByte(alphabet[r.Intn(len(alphabet))])
		}
		c.Str = sb.String()
		return c
	case mode == 1: // comma placement
		c.Str = common.Pick(r, []string{"", ",", "80,", ",80", "80,,90", "80,90,", ",,", "1-2,", "1-2,,"})
		if r.Bool() {
			c.Ports = []uint16{uint16(genPort(r))}
		}
		return c
	case mode == 2 || mode == 6 || mode == 7: // exactly k maximal runs around the router's 16/17 threshold (or many more)
		n := common.Pick(r, []int{15, 16, 16, 17, 17, 18, r.Range(10, 40)})
		width := r.Intn(4) // ports per run - 1
		step := width + 2 + r.Intn(70)
		start := genPort(r)
		if start+n*step > 65535 {
			start = 65535 - n*step - r.Intn(50)
		}
		var parts []string
		for i := 0; i < n; i++ {
			lo := start + i*step
			hi := lo + width
			if r.Chance(1, 6) && hi+1 < lo+step-1 {
				hi++ // uneven runs
			}
			it := GenItem{Text: strconv.Itoa(lo), Valid: true, Lo: lo, Hi: hi}
			if hi > lo {
				it.Text = fmt.Sprintf("%d-%d", lo, hi)
			}
			c.Items = append(c.Items, it)
		}
		if r.Chance(1, 3) { // written in another order, or one run written as two adjacent pieces (must merge)
			j := r.Intn(len(c.Items))
			c.Items[0], c.Items[j] = c.Items[j], c.Items[0]
			k := r.Intn(len(c.Items))
			if it := c.Items[k]; it.Hi-it.Lo >= 2 {
				a := GenItem{Text: fmt.Sprintf("%d-%d", it.Lo, it.Lo+1), Valid: true, Lo: it.Lo, Hi: it.Lo + 1}
				b := GenItem{Text: strconv.Itoa(it.Hi), Valid: true, Lo: it.Hi, Hi: it.Hi}
				if it.Hi-it.Lo > 2 {
					b = GenItem{Text: fmt.Sprintf("%d-%d", it.Lo+2, it.Hi), Valid: true, Lo: it.Lo + 2, Hi: it.Hi}
				}
				c.Items[k] = a
				c.Items = append(c.Items, b)
			}
		}
		for _, it := range c.Items {
			parts = append(parts, it.Text)
		}
		c.Str = strings.Join(parts, ",")
		return c
	case mode == 3: // everything / everything but a few
		switch r.Intn(4) {
		case 0:
			c.Items = []GenItem{{Text: "1-65535", Valid: true, Lo: 1, Hi: 65535}}
		case 1:
			c.Items = []GenItem{{Text: "2-65535", Valid: true, Lo: 2, Hi: 65535}}
		case 2:
			c.Items = []GenItem{{Text: "1-65534", Valid: true, Lo: 1, Hi: 65534}}
		default:
			k := genPort(r)
			if k < 3 {
				k = 3
			}
			if k > 65533 {
				k = 65533
			}
			c.Items = []GenItem{{Text: fmt.Sprintf("1-%d", k-1), Valid: true, Lo: 1, Hi: k - 1}, {Text: fmt.Sprintf("%d-65535", k+1), Valid: true, Lo: k + 1, Hi: 65535}}
		}
	case mode == 4: // adjacent / touching ranges around one point
		a := genPort(r)
		if a > 65000 {
			a = 65000
		}
		m := a + r.Range(1, 130)
		z := m + r.Range(1, 130)
		gap := r.Intn(3) // 0: overlap by one, 1: adjacent, 2: one port between
		c.Items = []GenItem{{Text: fmt.Sprintf("%d-%d", a, m), Valid: true, Lo: a, Hi: m}, {Text: fmt.Sprintf("%d-%d", m+gap, z+gap), Valid: true, Lo: m + gap, Hi: z + gap}}
		if r.Bool() {
			c.Items[0], c.Items[1] = c.Items[1], c.Items[0]
		}
	case mode == 5: // a single port in all
		p := genPort(r)
		if r.Bool() {
			c.Ports = []uint16{uint16(p)}
			if r.Bool() {
				c.Items = []GenItem{{Text: strconv.Itoa(p), Valid: true, Lo: p, Hi: p}}
			}
		} else {
			c.Items = []GenItem{{Text: strconv.Itoa(p), Valid: true, Lo: p, Hi: p}}
		}
	default:
		n := r.Range(1, 6)
		if r.Chance(1, 5) {
			n = r.Range(7, 30)
		}
		for i := 0; i < n; i++ {
			c.Items = append(c.Items, genItem(r))
		}
		if r.Chance(1, 3) {
			k := r.Range(1, 4)
			for i := 0; i < k; i++ {
				p := genPort(r)
				if r.Chance(1, 40) {
					p = 0
				}
				c.Ports = append(c.Ports, uint16(p))
			}
		}
	}
	parts := make([]string, len(c.Items))
	for i, it := range c.Items {
		parts[i] = it.Text
	}
	c.Str = strings.Join(parts, ",")
	if c.Items == nil {
		c.Items = []GenItem{}
	}
	return c
}

func portDirected(o *common.Options) []Case {
	var cs []Case
	for _, s := range []string{"1", "65535", "1-65535", "1-2", "65534-65535", "63-64", "64-65", "63,64", "1-63,64-128", "1-64,66-128", "64", "128", "63", "65472-65535",
		"2,4,6,8,10,12,14,16,18,20,22,24,26,28,30,32", "2,4,6,8,10,12,14,16,18,20,22,24,26,28,30,32,34", "1-65534", "2-65535", "1-100,102-65535", "0", "1-0", "80,", ",80", "", "65536", "1,65535"} {
		cs = append(cs, Case{Engine: "portset", Str: s})
	}
	cs = append(cs, Case{Engine: "portset", Ports: []uint16{80, 443}}, Case{Engine: "portset", Ports: []uint16{80}, Str: "80"}, Case{Engine: "portset", Ports: []uint16{65535, 1}, Str: "2-65534"})
	// alternating ports over everything: 32767 ranges
	var parts []string
	for p := 1; p <= 65535; p += 2 {
		parts = append(parts, strconv.Itoa(p))
	}
	cs = append(cs, Case{Engine: "portset", Str: strings.Join(parts, ",")})
	return cs
}

func portEval(cases []Case, d *common.Driver, o *common.Options, rep *common.Report) error {
	var model []string
	if d != nil {
		lines := make([]string, len(cases))
		for i, c := range cases {
			lines[i] = portLine(c)
		}
		var err error
		model, err = d.Batch(lines)
		if err != nil {
			return err
		}
	}
	for i, c := range cases {
		im := runPortImpl(c)
		nontrivial := im.panicked == nil && !im.buildErr && im.ok && im.cnt >= 1 && im.cnt < 65535
		ports := make([]int, len(c.Ports))
		for j, p := range c.Ports {
			ports[j] = int(p)
		}
		sort.Ints(ports)
		rep.Case(fmt.Sprintf("ps|%v|%s", ports, c.Str), nontrivial)
		switch {
		case im.panicked != nil:
			rep.Count("portset:panic")
		case im.buildErr:
			rep.Count("portset:zero-in-list")
		case !im.ok:
			rep.Count("portset:rejected")
		default:
			rep.Count("portset:repr=" + im.reprTo)
			switch {
			case im.rc <= 1:
				rep.Count("portset:ranges<=1")
			case im.rc <= 15:
				rep.Count("portset:ranges<=15")
			case im.rc == 16:
				rep.Count("portset:ranges=16")
			case im.rc == 17:
				rep.Count("portset:ranges=17")
			default:
				rep.Count("portset:ranges>17")
			}
		}
		if i < 2 {
			rep.Sample(map[string]any{"engine": "portset", "ports": c.Ports, "str": short(c.Str), "ok": im.ok, "count": im.cnt, "ranges": trunc(im.ranges), "router": im.reprTo})
		}
		portOracle(c, im, rep)
		if model != nil {
			portCompare(c, im, model[i], rep)
			rep.TracesValidated++
		}
	}
	return nil
}

func portsetEngine() engine {
	return engine{
		name:     "portset",
		gen:      genPortCase,
		eval:     portEval,
		budget:   func(o *common.Options) int { return o.Budget(150, 2500) },
		batch:    50,
		directed: portDirected,
	}
}
