package main

import (
	"bufio"
	"bytes"
	"encoding/hex"
	"encoding/json"
	"fmt"
	"os"
	"os/exec"
	"path/filepath"
	"strings"
	"sync"

	"ssvharness/internal/common"

	"github.com/database64128/shadowsocks-go/domainset"
)

// DlcEntry is one rule line of a v2fly/dlc file as the generator meant it.
type DlcEntry struct {
	Kind  string `json:"k"`           // full | domain | keyword | regexp
	Value string `json:"v"`           //
	Attr  string `json:"a,omitempty"` // attribute (without '@'), "" = none
	Sep   string `json:"s,omitempty"` // the one byte between value and '@' (" " or ":")
}

var dlcKindToRule = map[string]string{"full": "d", "domain": "s", "keyword": "k", "regexp": "r"}

var (
	convOnce sync.Once
	convPath string
	convErr  error
	convDir  string
)

// converter builds the real cmd/shadowsocks-go-domain-set-converter of the tree under test (once).
func converter() (string, error) {
	convOnce.Do(func() {
		repo := os.Getenv("VERIF_REPO")
		if repo == "" {
			repo = "/repo"
		}
		dir, err := os.MkdirTemp("", "c10conv")
		if err != nil {
			convErr = err
			return
		}
		convDir = dir
		convPath = filepath.Join(dir, "conv")
		// the batch entry is added to the build by an overlay (nothing is written into the tree under test):
		// an init() in package main that, when C10_BATCH is set, feeds (tag, text) pairs from stdin to the real
		// DomainSetBuilderFromDlc / WriteText / WriteGob and exits before main() runs.
		batchSrc := filepath.Join(dir, "zz_c10_batch.go")
		if err := os.WriteFile(batchSrc, []byte(batchEntrySource), 0o644); err != nil {
			convErr = err
			return
		}
		ov, _ := json.Marshal(map[string]any{"Replace": map[string]string{
			filepath.Join(repo, "cmd", "shadowsocks-go-domain-set-converter", "zz_c10_batch.go"): batchSrc}})
		ovPath := filepath.Join(dir, "overlay.json")
		if err := os.WriteFile(ovPath, ov, 0o644); err != nil {
			convErr = err
			return
		}
		cmd := exec.Command("go", "build", "-overlay", ovPath, "-o", convPath, "./cmd/shadowsocks-go-domain-set-converter")
		cmd.Dir = repo
		env := os.Environ()
		env = append(env, "GOFLAGS=-mod=mod", "GOPROXY=off", "GOTOOLCHAIN=auto")
		cmd.Env = env
		if out, err := cmd.CombinedOutput(); err != nil {
			convErr = fmt.Errorf("go build converter: %v: %s", err, short(string(out)))
		}
	})
	return convPath, convErr
}

// cleanupConverter removes the temporary build directory of the converter.
func cleanupConverter() {
	if convDir != "" {
		os.RemoveAll(convDir)
	}
}

type convResult struct {
	status string // ok | err | panic | fatal:<text>
	text   string
	gob    string
	stderr string
}

// runConverter runs the converter on a file in a child process (optionally under an address-space limit).
func runConverter(inFlag, input, tag string, limitKB int) convResult {
	conv, err := converter()
	if err != nil {
		return convResult{status: "fatal:" + err.Error()}
	}
	dir, err := os.MkdirTemp(convDir, "case")
	if err != nil {
		return convResult{status: "fatal:" + err.Error()}
	}
	defer os.RemoveAll(dir)
	in, ot, og := filepath.Join(dir, "in"), filepath.Join(dir, "out.txt"), filepath.Join(dir, "out.gob")
	if err := os.WriteFile(in, []byte(input), 0o644); err != nil {
		return convResult{status: "fatal:" + err.Error()}
	}
	args := []string{inFlag, in, "-outText", ot, "-outGob", og}
	if tag != "" {
		args = append(args, "-tag", tag)
	}
	var cmd *exec.Cmd
	if limitKB > 0 {
		sh := fmt.Sprintf("ulimit -v %d; exec \"$0\" \"$@\"", limitKB)
		cmd = exec.Command("sh", append([]string{"-c", sh, conv}, args...)...)
		cmd.Env = append(os.Environ(), "GOMEMLIMIT=1GiB")
	} else {
		cmd = exec.Command(conv, args...)
	}
	var stderr bytes.Buffer
	cmd.Stderr = &stderr
	runErr := cmd.Run()
	res := convResult{stderr: short(stderr.String())}
	se := stderr.String()
	switch {
	case strings.Contains(se, "panic:"):
		res.status = "panic"
	case strings.Contains(se, "fatal error:"):
		res.status = "fatal:" + firstLine(se[strings.Index(se, "fatal error:"):])
	case strings.Contains(se, "Failed to parse input file"):
		res.status = "err"
	case runErr != nil:
		res.status = "fatal:" + runErr.Error() + " " + short(se)
	default:
		t, e1 := os.ReadFile(ot)
		g, e2 := os.ReadFile(og)
		if e1 != nil || e2 != nil {
			res.status = fmt.Sprintf("fatal:outputs missing (%v, %v) %s", e1, e2, short(se))
		} else {
			res.status, res.text, res.gob = "ok", string(t), string(g)
		}
	}
	return res
}

const batchEntrySource = `package main

import (
	"bufio"
	"bytes"
	"encoding/hex"
	"fmt"
	"os"
	"strings"
)

func init() {
	if os.Getenv("C10_BATCH") == "" {
		return
	}
	sc := bufio.NewScanner(os.Stdin)
	sc.Buffer(make([]byte, 1<<20), 1<<28)
	w := bufio.NewWriter(os.Stdout)
	for sc.Scan() {
		f := strings.Fields(sc.Text())
		if len(f) != 2 {
			fmt.Fprintln(w, "bad")
			continue
		}
		dec := func(x string) string {
			if x == "-" {
				return ""
			}
			b, _ := hex.DecodeString(x)
			return string(b)
		}
		func() {
			defer func() {
				if p := recover(); p != nil {
					fmt.Fprintf(w, "panic %s\n", hex.EncodeToString([]byte(fmt.Sprint(p))))
				}
			}()
			tag = dec(f[0])
			dsb, err := DomainSetBuilderFromDlc(dec(f[1]))
			if err != nil {
				fmt.Fprintf(w, "err %s\n", hex.EncodeToString([]byte(err.Error())))
				return
			}
			var tb, gb bytes.Buffer
			if err := dsb.WriteText(&tb); err != nil {
				fmt.Fprintf(w, "err %s\n", hex.EncodeToString([]byte("WriteText: "+err.Error())))
				return
			}
			if err := dsb.WriteGob(&gb); err != nil {
				fmt.Fprintf(w, "err %s\n", hex.EncodeToString([]byte("WriteGob: "+err.Error())))
				return
			}
			fmt.Fprintf(w, "ok %s %s\n", hex.EncodeToString(tb.Bytes()), hex.EncodeToString(gb.Bytes()))
		}()
	}
	w.Flush()
	os.Exit(0)
}
`

// runConverterBatch runs the real dlc reader and both writers on many cases in one child process.
func runConverterBatch(cases []Case) []convResult {
	res := make([]convResult, len(cases))
	conv, err := converter()
	if err != nil {
		for i := range res {
			res[i].status = "fatal:" + err.Error()
		}
		return res
	}
	var in bytes.Buffer
	for _, c := range cases {
		in.WriteString(hx(c.Tag) + " " + hx(c.Text) + "\n")
	}
	cmd := exec.Command(conv)
	cmd.Env = append(os.Environ(), "C10_BATCH=1")
	cmd.Stdin = &in
	var out, stderr bytes.Buffer
	cmd.Stdout, cmd.Stderr = &out, &stderr
	runErr := cmd.Run()
	sc := bufio.NewScanner(&out)
	sc.Buffer(make([]byte, 1<<20), 1<<28)
	i := 0
	for sc.Scan() && i < len(res) {
		f := strings.Fields(sc.Text())
		switch {
		case len(f) == 3 && f[0] == "ok":
			t, _ := hex.DecodeString(f[1])
			g, _ := hex.DecodeString(f[2])
			res[i] = convResult{status: "ok", text: string(t), gob: string(g)}
		case len(f) == 2 && f[0] == "err":
			m, _ := hex.DecodeString(f[1])
			res[i] = convResult{status: "err", stderr: string(m)}
		case len(f) == 2 && f[0] == "panic":
			m, _ := hex.DecodeString(f[1])
			res[i] = convResult{status: "panic", stderr: string(m)}
		default:
			res[i] = convResult{status: "fatal:unparsable answer " + short(sc.Text())}
		}
		i++
	}
	for ; i < len(res); i++ {
		res[i] = convResult{status: fmt.Sprintf("fatal:batch child ended early (%v) %s", runErr, short(stderr.String()))}
	}
	return res
}

func firstLine(s string) string {
	if i := strings.IndexByte(s, '\n'); i >= 0 {
		return s[:i]
	}
	return s
}

var dlcAttrs = []string{"ads", "cn", "!cn"}

func genDlcCase(r *common.Rng, o *common.Options, idx int) Case {
	c := Case{Engine: "dlc", TextOK: true}
	n := common.Pick(r, []int{1, 2, 5, 17, 30})
	var sb strings.Builder
	eol := func() string {
		if r.Chance(1, 3) {
			return "\r\n"
		}
		return "\n"
	}
	for i := 0; i < n; i++ {
		for r.Chance(1, 6) {
			sb.WriteString(common.Pick(r, []string{"", "# comment", "#domain:zzz.zzz", "# full:a @ads", "#"}))
			sb.WriteString(eol())
		}
		e := DlcEntry{Kind: common.Pick(r, []string{"full", "domain", "domain", "keyword", "regexp"})}
		switch e.Kind {
		case "keyword":
			e.Value = common.Pick(r, []string{"a", "om", "a.b", ".b", "x1", "c."})
		case "regexp":
			e.Value = common.Pick(r, regexps)
		default:
			e.Value = genName(r, 3)
			if e.Value == "" {
				e.Value = "a"
			}
		}
		if r.Chance(1, 2) {
			e.Attr = common.Pick(r, dlcAttrs)
			e.Sep = common.Pick(r, []string{" ", ":"})
		}
		line := e.Kind + ":" + e.Value
		if e.Attr != "" {
			line += e.Sep + "@" + e.Attr
		}
		if r.Chance(1, 25) { // lines the reader does not handle as the format means them: compared with the model only
			c.TextOK = false
			line = common.Pick(r, []string{"include:other", "a.com", "full:@x", "domain:@ads", "@ads", "domain:a.com@ads", "domain:a.com @ads @cn",
				"domain:a.com  @ads", "full:", "regexp:", "keyword: @cn", "full:a.com # trailing comment", "full:a.com:@ads,@cn", "Full:a.com", " full:a.com", "full:a@b.com"})
		} else {
			c.Entries = append(c.Entries, e)
		}
		sb.WriteString(line)
		if i == n-1 && r.Chance(1, 4) {
			if r.Chance(1, 3) {
				sb.WriteString("\r")
			}
		} else {
			sb.WriteString(eol())
		}
	}
	c.Text = sb.String()
	c.Tag = common.Pick(r, []string{"", "", "ads", "cn", "!cn", "zz"})
	var rules []Rule
	for _, e := range c.Entries {
		rules = append(rules, Rule{dlcKindToRule[e.Kind], e.Value})
	}
	c.Probes = genProbes(r, rules, o)
	return c
}

func dlcSelected(c Case) []Rule {
	var rules []Rule
	for _, e := range c.Entries {
		if c.Tag == "" || e.Attr == c.Tag {
			rules = append(rules, Rule{dlcKindToRule[e.Kind], e.Value})
		}
	}
	return rules
}

func dlcEval(cases []Case, d *common.Driver, o *common.Options, rp *common.Report) error {
	if _, err := converter(); err != nil {
		rp.Diverge(common.Divergence{Engine: "dlc", Case: nil, Impl: err.Error(), Model: "", Note: "build:cmd/shadowsocks-go-domain-set-converter no longer builds"})
		return nil
	}
	type pending struct {
		c     Case
		steps []step
	}
	var pend []pending
	var lines []string
	// generated batches go through one child (real reader + writers, entered by the overlay init); directed cases and
	// replays go through the real command line of the converter (flag parsing, file I/O of main())
	var batch []convResult
	if len(cases) > 8 {
		batch = runConverterBatch(cases)
	}
	for i, c := range cases {
		fail := func(key, format string, a ...any) {
			rp.Fail(common.OracleFailure{Engine: "dlc", Key: "dlc:" + key, Case: c, Detail: fmt.Sprintf(format, a...)})
		}
		sel := dlcSelected(c)
		bt := newBrute(sel)
		want := bt.bits(c.Probes)
		var res convResult
		if batch != nil {
			res = batch[i]
		} else {
			res = runConverter("-inDlc", c.Text, c.Tag, 0)
			rp.Count("dlc:through-command-line")
		}
		var steps []step
		// regexp facts for the model are taken below from the regexps the real reader produced (also from lines the
		// generator did not mean as entries, e.g. "regexp:" = the empty pattern)
		reSeen := map[string]bool{}
		var reList []string
		for _, e := range c.Entries {
			if e.Kind == "regexp" && !reSeen[e.Value] {
				reSeen[e.Value] = true
				reList = append(reList, e.Value)
			}
		}
		dlcCmd := "dlc " + hx(c.Tag) + " " + hx(c.Text)
		nontrivial := false
		switch {
		case strings.HasPrefix(res.status, "fatal:"):
			rp.Diverge(common.Divergence{Engine: "dlc", Case: c, Impl: res.status, Model: "", Note: "converter child failed"})
		case res.status == "panic":
			rp.Count("dlc:converter-panicked")
			steps = append(steps, step{line: dlcCmd, want: "err panic", canon: ident, what: "dlc: reader outcome"})
			if c.TextOK {
				fail("panic", "the converter panicked on a well-formed dlc file: %s", res.stderr)
			}
		case res.status == "err":
			rp.Count("dlc:rejected")
			steps = append(steps, step{line: dlcCmd, want: "err invalid", canon: ident, what: "dlc: reader outcome"})
			if c.TextOK {
				fail("rejects-wellformed", "the converter refused a well-formed dlc file: %s", res.stderr)
			}
		default:
			rp.Count("dlc:converted")
			for _, out := range []struct{ name, data string }{{"dlc>text", res.text}, {"dlc>gob", res.gob}} {
				var r *rep
				pan := common.Safely(func() {
					if out.name == "dlc>text" {
						if len(sel) == 0 && c.TextOK {
							// nothing selected: a hint-only file, which the loader refuses as empty (proved: text_roundtrip_empty)
							r = fromText(out.name, out.data, c.Probes)
							return
						}
						r = fromText(out.name, out.data, c.Probes)
					} else {
						r = &rep{name: out.name}
						b, err := domainset.BuilderFromGobString(out.data)
						if err != nil {
							r.err = "gob-read:" + err.Error()
							return
						}
						r.builder = b
						finish(r, c.Probes)
					}
				})
				if pan != nil {
					fail("panic", "%s: loading the converter's output panicked: %v", out.name, pan)
					continue
				}
				if r.err == "" {
					for _, p := range rulesOf(r.builder[3]) {
						if !reSeen[p] {
							reSeen[p] = true
							reList = append(reList, p)
						}
					}
				}
				if c.TextOK {
					switch {
					case r.err != "" && len(sel) > 0:
						fail(out.name+":output-rejected", "the converted form does not load: %s", r.err)
					case r.err == "" && bt.badRe:
						if r.kinds != "err" {
							fail("bad-regexp-accepted", "%s: DomainSet() succeeded with an uncompilable regexp", out.name)
						}
					case r.err == "" && r.kinds == "err":
						fail(out.name+":set-construction-failed", "DomainSet() failed")
					case r.err == "" && r.bits != want:
						for j := range c.Probes {
							if r.bits[j] != want[j] {
								fail(out.name+":"+map[byte]string{'0': "misses", '1': "overmatches"}[r.bits[j]],
									"%s: Match(%q)=%c, the selected dlc entries (tag %q) say %c", out.name, c.Probes[j], r.bits[j], c.Tag, want[j])
								break
							}
						}
					}
				}
				if r.err == "" && r.kinds != "err" {
					nontrivial = nontrivial || (strings.Contains(r.bits, "1") && strings.Contains(r.bits, "0"))
				}
				// model: the dlc reader, then the same conversion
				if out.name == "dlc>gob" {
					if r.err == "" {
						steps = append(steps, step{line: dlcCmd, want: "ok " + r.show, canon: canonShow, what: "dlc: builder contents (from the gob output)"},
							step{line: "build", want: r.kinds, canon: ident, what: "dlc>gob: matchers"})
						if r.kinds != "err" {
							steps = append(steps, step{line: "probes " + hxList(c.Probes), want: r.bits, canon: ident, what: "dlc>gob: Match over the probes"})
						}
					}
				} else {
					if r.err == "" {
						steps = append(steps, step{line: dlcCmd}, step{line: "textrt", want: "ok " + r.show, canon: canonShow, what: "dlc>text: builder contents after re-reading"},
							step{line: "build", want: r.kinds, canon: ident, what: "dlc>text: matchers"})
						if r.kinds != "err" {
							steps = append(steps, step{line: "probes " + hxList(c.Probes), want: r.bits, canon: ident, what: "dlc>text: Match over the probes"})
						}
					} else {
						steps = append(steps, step{line: dlcCmd}, step{line: "textrt", want: "err " + r.err, canon: ident, what: "dlc>text: re-reading"})
					}
				}
			}
		}
		{
			var reBad, reTrue []string
			for _, pat := range reList {
				re := newBrute([]Rule{{"r", pat}}).res[pat]
				if re == nil {
					reBad = append(reBad, pat)
					continue
				}
				for _, p := range c.Probes {
					if re.MatchString(p) {
						reTrue = append(reTrue, hx(pat)+":"+hx(p))
					}
				}
			}
			rt := "."
			if len(reTrue) > 0 {
				rt = strings.Join(reTrue, ",")
			}
			steps = append([]step{{line: "rebad " + hxList(reBad)}, {line: "retrue " + rt}}, steps...)
		}
		rp.Case("dlc|"+c.Tag+"|"+c.Text, nontrivial)
		if c.Tag == "" {
			rp.Count("dlc:tag=none")
		} else {
			rp.Count("dlc:tag=set")
		}
		if !c.TextOK {
			rp.Count("dlc:unhandled-line-shape")
		}
		if i < 1 {
			rp.Sample(map[string]any{"engine": "dlc", "tag": c.Tag, "text": short(c.Text), "status": res.status})
		}
		pend = append(pend, pending{c, steps})
		for _, s := range steps {
			lines = append(lines, s.line)
		}
	}
	if d == nil {
		return nil
	}
	out, err := d.Batch(lines)
	if err != nil {
		return err
	}
	pos := 0
	for _, p := range pend {
		diverged := false
		for _, s := range p.steps {
			got := out[pos]
			pos++
			if got == "bad-op" {
				return fmt.Errorf("driver answered bad-op to %q", short(s.line))
			}
			if s.canon == nil || diverged {
				continue
			}
			if s.canon(got) != s.canon(s.want) {
				rp.Diverge(common.Divergence{Engine: "dlc", Case: p.c, Impl: short(s.canon(s.want)), Model: short(s.canon(got)), Note: s.what})
				diverged = true
			}
		}
		rp.TracesValidated++
	}
	return nil
}

// hintBoundaryProbe runs the real loader (through the converter, in a child process with an address-space limit) on
// capacity hints around the precondition of make([]string, 0, n) and records what happened in the evidence notes;
// the model (hints clamped by the text size, theorem builderFromTextX_eq) predicts a normal load for all of them.
func hintBoundaryProbe(rp *common.Report) {
	if _, err := converter(); err != nil {
		rp.Note("hint boundary probe skipped: %v", err)
		return
	}
	for _, h := range []struct{ what, hint, expect string }{
		{"keyword hint 2^44+1 (beyond the precondition of make([]string, 0, n))", "0 0 17592186044417 0", "ok"},
		{"regexp hint 2^63-1", "0 0 0 9223372036854775807", "ok"},
		{"keyword hint 2^44 (largest cap makeslice accepts; 256 TiB)", "0 0 17592186044416 0", "ok"},
		{"keyword hint 2^28 (4 GiB of string headers) under a 2 GiB address-space limit", "0 0 268435456 0", "ok"},
		{"domain hint 2^24 (a 16M-entry map)", "16777216 0 0 0", "ok"},
		{"domain hint 2^63-1", "9223372036854775807 0 0 0", "ok"},
		{"keyword hint 2^16", "0 0 65536 0", "ok"},
	} {
		text := hintPrefix + h.hint + " DSKR\nsuffix:a.com\n"
		res := runConverter("-inText", text, "", 2*1024*1024)
		st := res.status
		if strings.HasPrefix(st, "fatal:") {
			st = "fatal (" + strings.TrimPrefix(st, "fatal:") + ")"
		}
		got := strings.SplitN(st, " ", 2)[0]
		rp.Note("capacity hint probe: %s: file %q -> %s", h.what, text, st)
		rp.Count("hint-probe:" + got)
		// the model's prediction for the two regimes it covers
		if got != h.expect { // the model (clamp by text size) predicts a normal load for every hint value
			rp.Diverge(common.Divergence{Engine: "dlc", Case: Case{Engine: "domainset", Text: text}, Impl: st, Model: h.expect, Note: "capacity hint vs the precondition of make: " + h.what})
		}
	}
}

func dlcEngine() engine {
	first := true
	return engine{
		name: "dlc",
		gen:  genDlcCase,
		eval: func(cases []Case, d *common.Driver, o *common.Options, rp *common.Report) error {
			if first && o.Replay == "" {
				first = false
				hintBoundaryProbe(rp)
			}
			return dlcEval(cases, d, o, rp)
		},
		budget: func(o *common.Options) int { return o.Budget(400, 6000) },
		batch:  50,
		directed: func(o *common.Options) []Case {
			mk := func(tag, text string, ok bool, es ...DlcEntry) Case {
				return Case{Engine: "dlc", Tag: tag, Text: text, TextOK: ok, Entries: es,
					Probes: []string{"a.com", "x.a.com", "b.c", "x.b.c", "xb.c", "c", "", "a.co", "zz", "a.com "}}
			}
			return []Case{
				mk("", "full:a.com\ndomain:b.c @ads\n# c\nkeyword:zz:@cn\r\n", true, DlcEntry{"full", "a.com", "", ""}, DlcEntry{"domain", "b.c", "ads", " "}, DlcEntry{"keyword", "zz", "cn", ":"}),
				mk("ads", "full:a.com\ndomain:b.c @ads\n# c\nkeyword:zz:@cn\r\n", true, DlcEntry{"full", "a.com", "", ""}, DlcEntry{"domain", "b.c", "ads", " "}, DlcEntry{"keyword", "zz", "cn", ":"}),
				mk("zz", "full:a.com\ndomain:b.c @ads\n", true, DlcEntry{"full", "a.com", "", ""}, DlcEntry{"domain", "b.c", "ads", " "}),
				mk("", "full:@x\n", false),
				mk("", "domain:a.com@ads\n", false),
				mk("ads", "domain:a.com @ads @cn\n", false),
				mk("", "include:other\n", false),
			}
		},
	}
}
